/-
  Tie theorems, zip/zip.go `Create` (lines 516–572) and `CheckedFiles.Err` (line 128): the definitions regenerated from the
  Go source by go2lean (`Generated/FnZip.lean`: `Create` with the hoisted closure `Create_addFile` and the hoisted loop
  `Create_loop1` over `validFiles`; `CheckedFiles_Err`) compute exactly what the hand model (`Model/Zip.lean`:
  `Zip.create` / `Zip.addFiles`, `Zip.CheckedFiles.err`) says — for every module path/version and every file list, no
  panic, no fuel exhaustion.

  `Create` talks to archive/zip's writer: the translator threads a world value `GoRt.ZipW` (the list of (name, content)
  of the entries written so far) through `zw.Create`, the `io.Copy` into the entry writer (through `io.LimitedReader`,
  `N = size + 1`) and `zw.Close`, whose assumed behaviour is Basic/GoRtZipIO.lean (trusted base).  The ties are proved
  against those definitions as they are.

  Instantiation (the one of the driver, `Drv/GenZipIO.lean`, op `create`): files, `CheckFilePath`, `EqualFold`,
  `ToLower`, `SimpleFold`, `parseGoVers`/`version.Lang`/`version.Compare` exactly as in `checkFiles_tie`
  (Tie/FnZipCheckFiles.lean); `module.CanonicalVersion` and `module.Check` are ANY functions that together decide what
  the model's `E.modOK` decides, for the module path/version at hand; the writer world starts empty (`[]`).

  Errors: the generated code returns `Option String` texts.  A model `CreateErr` `c` is the text
  `zipError|<createErrText bad c>` (`embCreateErr`), with `bad = badModuleText canonicalVersion moduleCheck p v` (the
  canonical-version format literal, or the text `module.Check` returned); size → the `SizeError` literal of checkFiles,
  invalid → `FileErrorList`, contentLarger → `file %q is larger than declared size`, nameTooLong → archive/zip's
  `zip: FileHeader.Name too long`.  The embedding is injective on the constructors whenever `bad` is none of the four other
  texts (`createErrText_injective`).

  World: on success it is EXACTLY the model's entries as (name, content) pairs (`Create_tie_ok`; the declared size of a
  model entry is its content length, `create_declSize`).  On failure it is stated explicitly, too (`createWorld`): empty
  for the errors before the loop; for a failure inside the loop the entries written before the failing file, plus —
  when the failing file is larger than declared — the entry of that file with the first `size + 1` bytes.
-/
import ModVerif.Generated.FnZip
import ModVerif.Model.Zip
import ModVerif.Drv.GenZip
import ModVerif.Drv.GenZipIO
import ModVerif.Tie.FnZipCheckFiles
import ModVerif.Proofs.TieFnZipIOCreate
namespace ModVerif.Tie.FnZipIOCreate
open ModVerif ModVerif.GoRt ModVerif.GoRtZip ModVerif.TieFnZip ModVerif.TieFnZipCf ModVerif.TieFnZipIOCreate
open ModVerif.Drv.GenZip (toGFile simpleFoldI versionCompareI)

/-- `CheckedFiles.Err()` on the embedding of a model report is the embedding of the model's `CheckedFiles.err`:
    `SizeError` first (its text), else `FileErrorList` when there are invalid files, else nil. -/
theorem CheckedFiles_Err_tie (cf : Zip.CheckedFiles) :
    Generated.Zip.CheckedFiles_Err (embCF cf) = cf.err.map errKindText :=
  CheckedFiles_Err_eq cf

/-- `Create(w, m, files)` from the empty writer world, as ONE equation: the returned error is the embedding of the
    model's outcome (`none` iff `Zip.create` succeeds), the final world is `createWorld`.
    Fuel: `fuelBound K files` as for `checkFiles` (the loop over `validFiles` needs no more). -/
theorem Create_tie (E : Zip.Env) (canonicalVersion : Bytes → Bytes) (equalFold : Bytes → Bytes → Bool)
    (moduleCheck : Bytes → Bytes → Option String) (parseGoVers : Bytes → Bytes → Bytes)
    (simpleFold : Int → Int) (toLower : Bytes → Bytes) (versionCompare : Bytes → Bytes → Int)
    (versionLang : Bytes → Bytes) (K : Nat)
    (hsf : FoldsTo simpleFold K) (hE : E.toFold = Zip.strToFold)
    (hef : ∀ s, equalFold s Zip.goModName = Zip.equalFoldGoMod s)
    (htl : ∀ s, decide (toLower s = Zip.goModName) = Zip.toLowerIsGoMod s)
    (p v : Bytes) (hmod : (canonicalVersion v = v ∧ moduleCheck p v = none) ↔ E.modOK p v = true)
    (files : List Zip.FileInfo)
    (hv : decide (0 ≤ versionCompare (versOf parseGoVers versionLang files) go124) = Zip.goVers files)
    (fuel : Nat) (hfuel : fuelBound K files ≤ fuel) :
    Generated.Zip.Create canonicalVersion (cfpOf E) equalFold moduleCheck parseGoVers simpleFold toLower versionCompare
        versionLang fuel () { Path := p, Version := v } (files.map toGFile) [] =
      .ok (embCreateRes (badModuleText canonicalVersion moduleCheck p v) (Zip.create E p v files),
           createWorld E p v files) :=
  Create_eq canonicalVersion equalFold moduleCheck parseGoVers simpleFold toLower versionCompare versionLang E K hsf hE
    hef htl p v hmod files hv fuel hfuel

/-- the world after a successful creation is the list of the model's entries -/
theorem createWorld_ok (E : Zip.Env) (p v : Bytes) (files : List Zip.FileInfo) (es : List Zip.Entry)
    (h : Zip.create E p v files = .ok es) : createWorld E p v files = es.map entryPair := by
  obtain ⟨hm, herr, _, _⟩ := Proofs.Zip.create_ok E p v files es h
  have herr' : (Zip.checkFilesSt E files (Zip.goVers files)).cf.err = none := herr
  rw [Proofs.Zip.create_eq] at h
  unfold createWorld
  simp only [hm, Bool.not_true, Bool.false_eq_true, if_false, herr'] at h ⊢
  exact writtenW_of_ok _ _ _ h

/-- every entry the model creates declares the length of its content -/
theorem create_declSize (E : Zip.Env) (p v : Bytes) (files : List Zip.FileInfo) (es : List Zip.Entry)
    (h : Zip.create E p v files = .ok es) : ∀ e ∈ es, e.declSize = e.content.length := by
  obtain ⟨_, _, h3, _⟩ := Proofs.Zip.create_ok E p v files es h
  intro e he; rw [h3] at he
  obtain ⟨f, _, rfl⟩ := List.mem_map.mp he; rfl

/-- success: when the model creates the entries `es`, the generated `Create` returns no error and has written exactly
    these entries (name, content), in order -/
theorem Create_tie_ok (E : Zip.Env) (canonicalVersion : Bytes → Bytes) (equalFold : Bytes → Bytes → Bool)
    (moduleCheck : Bytes → Bytes → Option String) (parseGoVers : Bytes → Bytes → Bytes)
    (simpleFold : Int → Int) (toLower : Bytes → Bytes) (versionCompare : Bytes → Bytes → Int)
    (versionLang : Bytes → Bytes) (K : Nat)
    (hsf : FoldsTo simpleFold K) (hE : E.toFold = Zip.strToFold)
    (hef : ∀ s, equalFold s Zip.goModName = Zip.equalFoldGoMod s)
    (htl : ∀ s, decide (toLower s = Zip.goModName) = Zip.toLowerIsGoMod s)
    (p v : Bytes) (hmod : (canonicalVersion v = v ∧ moduleCheck p v = none) ↔ E.modOK p v = true)
    (files : List Zip.FileInfo)
    (hv : decide (0 ≤ versionCompare (versOf parseGoVers versionLang files) go124) = Zip.goVers files)
    (fuel : Nat) (hfuel : fuelBound K files ≤ fuel) (es : List Zip.Entry) (h : Zip.create E p v files = .ok es) :
    Generated.Zip.Create canonicalVersion (cfpOf E) equalFold moduleCheck parseGoVers simpleFold toLower versionCompare
        versionLang fuel () { Path := p, Version := v } (files.map toGFile) [] =
      .ok (none, es.map (fun e => (e.name, e.content))) := by
  rw [Create_tie E canonicalVersion equalFold moduleCheck parseGoVers simpleFold toLower versionCompare versionLang K hsf
    hE hef htl p v hmod files hv fuel hfuel, createWorld_ok E p v files es h, h]
  rfl

/-- failure: when the model fails with `c`, the generated `Create` returns the embedding of `c`; what was written up to
    then is `createWorld` (explicit, see the head of the file) -/
theorem Create_tie_error (E : Zip.Env) (canonicalVersion : Bytes → Bytes) (equalFold : Bytes → Bytes → Bool)
    (moduleCheck : Bytes → Bytes → Option String) (parseGoVers : Bytes → Bytes → Bytes)
    (simpleFold : Int → Int) (toLower : Bytes → Bytes) (versionCompare : Bytes → Bytes → Int)
    (versionLang : Bytes → Bytes) (K : Nat)
    (hsf : FoldsTo simpleFold K) (hE : E.toFold = Zip.strToFold)
    (hef : ∀ s, equalFold s Zip.goModName = Zip.equalFoldGoMod s)
    (htl : ∀ s, decide (toLower s = Zip.goModName) = Zip.toLowerIsGoMod s)
    (p v : Bytes) (hmod : (canonicalVersion v = v ∧ moduleCheck p v = none) ↔ E.modOK p v = true)
    (files : List Zip.FileInfo)
    (hv : decide (0 ≤ versionCompare (versOf parseGoVers versionLang files) go124) = Zip.goVers files)
    (fuel : Nat) (hfuel : fuelBound K files ≤ fuel) (c : Zip.CreateErr) (h : Zip.create E p v files = .error c) :
    Generated.Zip.Create canonicalVersion (cfpOf E) equalFold moduleCheck parseGoVers simpleFold toLower versionCompare
        versionLang fuel () { Path := p, Version := v } (files.map toGFile) [] =
      .ok (some ("zipError|" ++ createErrText (badModuleText canonicalVersion moduleCheck p v) c),
           createWorld E p v files) := by
  rw [Create_tie E canonicalVersion equalFold moduleCheck parseGoVers simpleFold toLower versionCompare versionLang K hsf
    hE hef htl p v hmod files hv fuel hfuel, h]
  rfl

/-- the error embedding separates the constructors, for every module-rejection text that is none of the other texts
    (true of the canonical-version literal and of the driver's "badmodule") -/
theorem createErrText_injective (bad : String)
    (hb : bad ≠ sizeErrorText ∧ bad ≠ "FileErrorList" ∧ bad ≠ "file %q is larger than declared size" ∧
      bad ≠ "zip: FileHeader.Name too long") :
    ∀ a b : Zip.CreateErr, createErrText bad a = createErrText bad b → a = b := by
  obtain ⟨h1, h2, h3, h4⟩ := hb
  intro a b h
  cases a <;> cases b <;> first
    | rfl
    | (simp only [createErrText] at h
       first
        | (exact absurd h h1) | (exact absurd h h2) | (exact absurd h h3) | (exact absurd h h4)
        | (exact absurd h.symm h1) | (exact absurd h.symm h2) | (exact absurd h.symm h3) | (exact absurd h.symm h4)
        | (exact absurd h (by decide +kernel)))

/-! ### the driver's instance -/

/-- `Create` as the driver (`Drv.GenZipIO.handle`, op `create`) runs it — `module.Check` as `mcheck` with the text
    "badmodule", `simpleFoldI`, `versionCompareI`, `version.Lang = id`, its `parseGoVers` stand-in, its fuel, the empty
    world — returns the embedding of the model's `Zip.create` and the world `createWorld`. -/
theorem Create_tie_driver (E : Zip.Env) (hE : E.toFold = Zip.strToFold) (equalFold : Bytes → Bytes → Bool)
    (hef : ∀ s, equalFold s Zip.goModName = Zip.equalFoldGoMod s)
    (canon : Bytes → Bytes) (mcheck : Bytes → Bytes → Bool) (p v : Bytes)
    (hmod : (canon v = v ∧ mcheck p v = true) ↔ E.modOK p v = true) (fs : List Zip.FileInfo)
    (hcons : ∀ f ∈ fs, f.mode = .regular → f.path = Zip.goModName → f.goGe124 = false →
      ∀ g ∈ fs, g.content = f.content → g.goGe124 = false) :
    Generated.Zip.Create canon (cfpOf E) equalFold (fun p v => if mcheck p v then none else some "badmodule")
        (FnZipCheckFiles.pgvDriver fs) simpleFoldI (fun s => s.map Zip.asciiLower) versionCompareI id
        (FnZipCheckFiles.driverFuel fs) () { Path := p, Version := v } (fs.map toGFile) [] =
      .ok (embCreateRes (badModuleText canon (fun p v => if mcheck p v then none else some "badmodule") p v)
            (Zip.create E p v fs), createWorld E p v fs) := by
  have h124 : B "go1.24" = go124 := by decide +kernel
  apply Create_tie E canon equalFold _ (FnZipCheckFiles.pgvDriver fs) simpleFoldI _ versionCompareI id 1
    FnZip.foldsTo_simpleFoldI hE hef FnZipCheckFiles.toLower_driver p v _ fs
  · apply FnZipCheckFiles.goVers_of_flags
    · unfold versionCompareI
      rw [h124]; decide
    · intro f hf hm hp
      unfold versionCompareI FnZipCheckFiles.pgvDriver
      simp only [id]
      cases hg : f.goGe124 with
      | true =>
        have : fs.any (fun g => g.content == f.content && g.goGe124) = true :=
          List.any_eq_true.mpr ⟨f, hf, by simp [hg]⟩
        rw [this]; simp
      | false =>
        have : fs.any (fun g => g.content == f.content && g.goGe124) = false := by
          rw [List.any_eq_false]
          intro g hgm
          by_cases hc : g.content = f.content
          · simp [hcons f hf hm hp hg g hgm hc]
          · simp [hc]
        rw [this]
        decide +kernel
  · unfold fuelBound FnZipCheckFiles.driverFuel
    have := maxPathLen_le_sum fs
    omega
  · rw [← hmod]
    cases mcheck p v <;> simp

/-! ### non-vacuity -/

def exEnv : Zip.Env := { cfp := fun p => !p.isEmpty, toFold := Zip.strToFold, modOK := fun _ _ => true }

def exFiles : List Zip.FileInfo :=
  [⟨B "go.mod", .regular, 2, B "hi", false⟩, ⟨B "a/b.go", .regular, 1, B "x", false⟩,
   ⟨B "sub/go.mod", .regular, 0, [], false⟩, ⟨B "sub/c.go", .regular, 1, B "y", false⟩,
   ⟨B "vendor/p/q.go", .regular, 1, B "z", false⟩, ⟨B "link", .symlink, 0, [], false⟩]

/-- `a/b.go` holds three bytes but declares one: the copy stops after two bytes -/
def exFilesLarger : List Zip.FileInfo :=
  [⟨B "go.mod", .regular, 2, B "hi", false⟩, ⟨B "a/b.go", .regular, 1, B "xyz", false⟩, ⟨B "c", .regular, 0, [], false⟩]

/-- an invalid file (unclean path) -/
def exFilesInvalid : List Zip.FileInfo := [⟨B "./x", .regular, 0, [], false⟩]

/-- the generated function, evaluated by the kernel with the driver's instantiation: success … -/
example : Generated.Zip.Create id (cfpOf exEnv) (fun a _ => Zip.equalFoldGoMod a) (fun _ _ => none)
      (FnZipCheckFiles.pgvDriver exFiles) simpleFoldI (fun s => s.map Zip.asciiLower) versionCompareI id
      (FnZipCheckFiles.driverFuel exFiles) () { Path := B "m", Version := B "v1" } (exFiles.map toGFile) [] =
    .ok (none, [(B "m@v1/go.mod", B "hi"), (B "m@v1/a/b.go", B "x")]) := by decide +kernel

/-- … and the model side of `Create_tie` gives the same -/
example : Zip.create exEnv (B "m") (B "v1") exFiles =
      .ok [⟨B "m@v1/go.mod", 2, B "hi"⟩, ⟨B "m@v1/a/b.go", 1, B "x"⟩] ∧
    createWorld exEnv (B "m") (B "v1") exFiles = [(B "m@v1/go.mod", B "hi"), (B "m@v1/a/b.go", B "x")] := by
  refine ⟨by decide +kernel, by decide +kernel⟩

/-- a file larger than declared: both sides report it, and the truncated entry has been written -/
example : Generated.Zip.Create id (cfpOf exEnv) (fun a _ => Zip.equalFoldGoMod a) (fun _ _ => none)
      (FnZipCheckFiles.pgvDriver exFilesLarger) simpleFoldI (fun s => s.map Zip.asciiLower) versionCompareI id
      (FnZipCheckFiles.driverFuel exFilesLarger) () { Path := B "m", Version := B "v1" } (exFilesLarger.map toGFile) [] =
    .ok (some "zipError|file %q is larger than declared size", [(B "m@v1/go.mod", B "hi"), (B "m@v1/a/b.go", B "xy")]) := by
  decide +kernel

example : Zip.create exEnv (B "m") (B "v1") exFilesLarger = .error .contentLarger ∧
    createWorld exEnv (B "m") (B "v1") exFilesLarger = [(B "m@v1/go.mod", B "hi"), (B "m@v1/a/b.go", B "xy")] := by
  refine ⟨by decide +kernel, by decide +kernel⟩

/-- an invalid file, a non-canonical version -/
example : Generated.Zip.Create id (cfpOf exEnv) (fun a _ => Zip.equalFoldGoMod a) (fun _ _ => none)
      (FnZipCheckFiles.pgvDriver exFilesInvalid) simpleFoldI (fun s => s.map Zip.asciiLower) versionCompareI id
      (FnZipCheckFiles.driverFuel exFilesInvalid) () { Path := B "m", Version := B "v1" } (exFilesInvalid.map toGFile) [] =
    .ok (some "zipError|FileErrorList", []) ∧
    Zip.create exEnv (B "m") (B "v1") exFilesInvalid = .error .invalid := by
  refine ⟨by decide +kernel, by decide +kernel⟩

example : Generated.Zip.Create (fun _ => B "v1.0.0") (cfpOf exEnv) (fun a _ => Zip.equalFoldGoMod a) (fun _ _ => none)
      (FnZipCheckFiles.pgvDriver exFiles) simpleFoldI (fun s => s.map Zip.asciiLower) versionCompareI id
      (FnZipCheckFiles.driverFuel exFiles) () { Path := B "m", Version := B "v1" } (exFiles.map toGFile) [] =
    .ok (some "zipError|version %q is not canonical (should be %q)", []) := by decide +kernel

/-- `CheckedFiles_Err_tie` on the three kinds of report -/
example : Generated.Zip.CheckedFiles_Err (embCF { sizeError := true, invalid := [(B "x", .notClean)] }) =
      some "module source tree too large (max size is %d bytes)" ∧
    Generated.Zip.CheckedFiles_Err (embCF { invalid := [(B "x", .notClean)] }) = some "FileErrorList" ∧
    Generated.Zip.CheckedFiles_Err (embCF { valid := [B "x"] }) = none := by
  refine ⟨by decide +kernel, by decide +kernel, by decide +kernel⟩

/-- the hypotheses of `Create_tie_driver` hold for the example -/
example : exEnv.toFold = Zip.strToFold ∧
    ((id (B "v1") = B "v1" ∧ (fun _ _ => true) (B "m") (B "v1") = true) ↔ exEnv.modOK (B "m") (B "v1") = true) ∧
    (∀ f ∈ exFiles, f.mode = .regular → f.path = Zip.goModName → f.goGe124 = false →
      ∀ g ∈ exFiles, g.content = f.content → g.goGe124 = false) := by
  refine ⟨rfl, by simp [exEnv], ?_⟩
  decide +kernel

end ModVerif.Tie.FnZipIOCreate
