/- Tie: constants and leaf predicates of module/module.go regenerated from source equal the hand-written model's. -/
import ModVerif.Model.Module
import ModVerif.Generated.Preds
import ModVerif.Generated.Facts
namespace ModVerif.Tie
open ModVerif

/-- the reserved Windows names table -/
theorem module_badWindowsNames_tie :
    Generated.module_badWindowsNames = Module.badWindowsNames := by decide +kernel

/-- Every reserved name consists of digits and upper-case ASCII letters other than K and S.  This is
    what makes `strings.EqualFold(bad, short)` equal to ASCII-case-insensitive byte equality
    (`Module.equalFoldAscii`): the only non-ASCII runes whose simple-fold orbit meets ASCII are
    U+212A (orbit of K) and U+017F (orbit of S). -/
theorem module_badWindowsNames_fold_simple :
    ∀ b ∈ Generated.module_badWindowsNames, ∀ c ∈ b,
      ((48 ≤ c ∧ c ≤ 57) ∨ (65 ≤ c ∧ c ≤ 90)) ∧ c ≠ 75 ∧ c ≠ 83 := by decide +kernel

theorem module_firstPathOK_tie (n : Nat) :
    Generated.module_firstPathOK n = Module.firstPathOK n := by
  simp [Generated.module_firstPathOK, Module.firstPathOK]

theorem module_modPathOK_tie (n : Nat) :
    Generated.module_modPathOK n = Module.modPathOK n := by
  simp [Generated.module_modPathOK, Module.modPathOK]

theorem module_importPathOK_tie (n : Nat) :
    Generated.module_importPathOK n = Module.importPathOK n := by
  simp [Generated.module_importPathOK, Module.importPathOK, module_modPathOK_tie]

/-- for every `isLetter` (unicode.IsLetter is a parameter on both sides) -/
theorem module_fileNameOK_tie (isLetter : Nat → Bool) (n : Nat) :
    Generated.module_fileNameOK isLetter n = Module.fileNameOK isLetter n := by
  simp [Generated.module_fileNameOK, Module.fileNameOK, Module.fileNameAllowed]

end ModVerif.Tie
