/-
  Tie: the go.mod LEXER regenerated from modfile/read.go on every check (Generated/FnLex.lean, namespace
  ModVerif.Generated.Lex: isIdent, input.eof / peekRune / peekPrefix / readRune / startToken / endToken / peek /
  readToken / lex, tokenKind.isComment / isEOL) computes exactly what the hand model (Model/Modfile/Lex.lean) says, for
  ALL byte strings (ill-formed UTF-8 included) and all fuel above the stated bound.  The unit is translated in ideal
  integer mode; the only hypotheses are the representation relation, fuel lower bounds and, for isIdent, that the `int`
  argument is in the int32 range (`rune(c)` wraps outside it; the lexer only passes runes, 0 ≤ c ≤ 0x10FFFF).

  REPRESENTATION RELATION.  Go keeps `complete` (the whole file), `remaining` (a suffix), `tokenStart` (the suffix at the
  start of the pending token), `pos`, `token`, `comments` and computes every text by slicing; the model keeps the
  consumed bytes REVERSED (`consumedRev`), the bytes of the pending token reversed (`tokRev`), the comments reversed
  (`commentsRev`), positions as `Nat`s, token kinds as an inductive type.  `RepK k gi mi` relates a generated state `gi`
  and a model state `mi`, the pending token having the Go kind `k`; `Rep gi mi` is `RepK` at the kind code of the model's
  token kind (eof -1, eolComment -2, ident -3, string -4, comment -5, punctuation c ↦ c: `kindCode` of Drv/LexOps.lean,
  the op that prints both sides identically on every check).  The model's `nextId` has no counterpart.  The kind is
  separated because it is the one component in which the two INITIAL states differ: Go's zero token has kind 0 (no token
  kind at all), the model's default is `.eof`; it is never observed (parse calls readToken before any peek / lex, and
  readToken overwrites every field of the token) — so `readToken_tie` takes `RepK k` for ANY k and delivers `Rep`.

  SHAPE.  For a method with a pointer receiver the translator returns the updated `input` as an extra last result;
  `in.Error(…)` (which panics and is recovered in parse) is `throw Err.panic`.  Each tie says: from related states, if the
  model returns `(r, mi')` the generated function returns `(embed r, gi')` with `gi'`, `mi'` related again, and if the
  model returns an error (a syntax error: `/* */` comment, EOF / newline in string, bad character; or readRune at EOF)
  the generated function is `.error .panic`.  So each tie also proves: no Go run-time panic (index / slice out of range:
  `in.complete[:in.pos.Byte]`, `in.complete[i+1:in.pos.Byte]`, `in.tokenStart[:len(in.tokenStart)-len(in.remaining)]`,
  `text[:len(text)-2]`, `in.remaining[size:]`) and no non-termination, for every input.

  Bridging: `isPrint, isSpace : Int → Bool` (unicode.IsPrint / IsSpace) := `isPrintI r = UnicodePrint.isPrint r.toNat`,
  `isSpaceI r = UnicodePrint.isSpace r.toNat` (as the driver Drv/LexOps.lean runs them); `GoRt.trimSpace` is by
  definition the model's `GoStrings.trimSpace`; `GoRt.decodeRune` is the model's `Utf8.decodeRune` on non-empty input.

  Helper lemmas: Proofs/GoRtLemmasLex.lean, Proofs/TieFnLexA.lean (embedding, leaf methods), Proofs/TieFnLexB.lean (the
  four hoisted loops of readToken), Proofs/TieFnLexC.lean (readToken, lex, lexAll).
-/
import ModVerif.Generated.FnLex
import ModVerif.Model.Modfile.Lex
import ModVerif.Drv.LexOps
import ModVerif.Proofs.TieFnLexC
namespace ModVerif.Tie.FnLex
open ModVerif ModVerif.GoRt ModVerif.Modfile ModVerif.TieFnLex
open ModVerif.Drv.LexOps.G (isPrintI isSpaceI)
open ModVerif.Drv.LexOps.M (kindCode)

/-! ### the representation relation -/

/-- generated state `gi` represents model state `mi`; the pending token has Go kind `k` and `in.tokenStart` is `ts` -/
structure RepK (k : Int) (ts : Bytes) (gi : Generated.Lex.input) (mi : Input) : Prop where
  remaining : gi.remaining = mi.remaining
  complete : gi.complete = mi.consumedRev.reverse ++ mi.remaining
  byte : mi.pos.byte = mi.consumedRev.length
  pos : gi.pos = embPos mi.pos
  tokenStart : gi.tokenStart = ts
  tokKind : gi.token.kind = k
  tokPos : gi.token.pos = embPos mi.token.pos
  tokEnd : gi.token.endPos = embPos mi.token.endPos
  tokText : gi.token.text = mi.token.text
  comments : gi.comments = mi.commentsRev.reverse.map embComment

/-- the representation relation: `RepK` with the token kind being the code of the model's token kind and `tokenStart`
    being the bytes of the pending token followed by the remaining input -/
def Rep (gi : Generated.Lex.input) (mi : Input) : Prop :=
  RepK (kindCode mi.token.kind) (mi.tokRev.reverse ++ mi.remaining) gi mi

/-- `RepK` is functional from the model side: `gi` is the embedding `embKT k ts mi` (Proofs/TieFnLexA.lean), and the
    model state satisfies `pos.byte = len(consumed)` -/
theorem repK_iff {k : Int} {ts : Bytes} {gi : Generated.Lex.input} {mi : Input} :
    RepK k ts gi mi ↔ gi = embKT k ts mi ∧ WF mi := by
  constructor
  · intro h
    refine ⟨?_, h.byte⟩
    obtain ⟨c, r, ts', ⟨tk, tp, te, tt⟩, p, cs⟩ := gi
    have h1 := h.remaining; have h2 := h.complete; have h3 := h.pos; have h4 := h.tokenStart; have h5 := h.tokKind
    have h6 := h.tokPos; have h7 := h.tokEnd; have h8 := h.tokText; have h9 := h.comments
    simp only at h1 h2 h3 h4 h5 h6 h7 h8 h9
    subst h1 h2 h3 h4 h5 h6 h7 h8 h9
    rfl
  · rintro ⟨rfl, hw⟩
    exact ⟨rfl, rfl, hw, rfl, rfl, rfl, rfl, rfl, rfl, rfl⟩

theorem rep_iff {gi : Generated.Lex.input} {mi : Input} : Rep gi mi ↔ gi = emb mi ∧ WF mi := repK_iff

/-- Go's `newInput` (read.go:344; struct literal, not translated): `complete = remaining = data`, `pos = 1:1:0`, every
    other field zero -/
def gNewInput (data : Bytes) : Generated.Lex.input :=
  { (default : Generated.Lex.input) with complete := data, remaining := data, pos := { Line := 1, LineRune := 1, Byte := 0 } }

/-- the initial states are related (the Go token kind is 0 and `tokenStart` is nil) -/
theorem newInput_rep (data : Bytes) : RepK 0 [] (gNewInput data) (newInput data) :=
  ⟨rfl, rfl, rfl, rfl, rfl, rfl, rfl, rfl, rfl, rfl⟩

/-! ### isIdent, tokenKind.isComment, tokenKind.isEOL -/

/-- isIdent (read.go:622): `switch r := rune(c)` with the eight excluded runes, else `!IsSpace(r) && IsPrint(r)` -/
theorem isIdent_tie (c : Int) (h0 : -2147483648 ≤ c) (h1 : c < 2147483648) :
    Generated.Lex.isIdent isPrintI isSpaceI c = Modfile.isIdent c.toNat :=
  isIdent_eqI c h0 h1

example : Generated.Lex.isIdent isPrintI isSpaceI 97 = true ∧ Modfile.isIdent 97 = true := by decide +kernel
example : Generated.Lex.isIdent isPrintI isSpaceI 44 = false ∧ Modfile.isIdent 44 = false := by decide +kernel
example : Generated.Lex.isIdent isPrintI isSpaceI 133 = false ∧ Modfile.isIdent 133 = false := by decide +kernel

theorem tokenKind_isComment_tie (kd : TokKind) : Generated.Lex.tokenKind_isComment (kindCode kd) = kd.isComment :=
  isComment_eq kd

example : Generated.Lex.tokenKind_isComment (-2) = true ∧ TokKind.eolComment.isComment = true := by decide
example : Generated.Lex.tokenKind_isComment 10 = false ∧ (TokKind.punct 10).isComment = false := by decide

theorem tokenKind_isEOL_tie (kd : TokKind) : Generated.Lex.tokenKind_isEOL (kindCode kd) = kd.isEOL :=
  isEOL_eq kd

example : Generated.Lex.tokenKind_isEOL 10 = true ∧ (TokKind.punct 10).isEOL = true := by decide
example : Generated.Lex.tokenKind_isEOL 40 = false ∧ (TokKind.punct 40).isEOL = false := by decide
example : Generated.Lex.tokenKind_isEOL (-3) = false ∧ TokKind.ident.isEOL = false := by decide

/-! ### eof, peekRune, peekPrefix, peek -/

theorem input_eof_tie {k : Int} {ts : Bytes} {gi : Generated.Lex.input} {mi : Input} (h : RepK k ts gi mi) :
    Generated.Lex.input_eof gi = mi.eof := by
  obtain ⟨rfl, _⟩ := repK_iff.1 h
  exact eof_eqT k ts mi

/-- peekRune: 0 at EOF, else the first rune (U+FFFD for an ill-formed sequence) -/
theorem input_peekRune_tie {k : Int} {ts : Bytes} {gi : Generated.Lex.input} {mi : Input} (h : RepK k ts gi mi) :
    Generated.Lex.input_peekRune gi = (mi.peekRune : Int) := by
  obtain ⟨rfl, _⟩ := repK_iff.1 h
  exact peekRune_eqT k ts mi

/-- peekPrefix: the byte loop `for i := 0; i < len(prefix); i++ { if i >= len(in.remaining) || … }` is `isPrefixOfB` -/
theorem input_peekPrefix_tie {k : Int} {ts : Bytes} {gi : Generated.Lex.input} {mi : Input} (h : RepK k ts gi mi)
    (p : Bytes) (fuel : Nat) (hf : p.length + 1 ≤ fuel) :
    Generated.Lex.input_peekPrefix fuel gi p = .ok (mi.peekPrefix p) := by
  obtain ⟨rfl, _⟩ := repK_iff.1 h
  exact peekPrefix_eqT k ts mi p fuel hf

theorem input_peek_tie {gi : Generated.Lex.input} {mi : Input} (h : Rep gi mi) :
    Generated.Lex.input_peek gi = kindCode mi.peek := by
  obtain ⟨rfl, _⟩ := rep_iff.1 h
  rfl

example : Generated.Lex.input_eof (gNewInput []) = true ∧ (newInput []).eof = true := by decide
example : Generated.Lex.input_eof (gNewInput [97]) = false ∧ (newInput [97]).eof = false := by decide
-- "é", a lone 0xFF byte, the empty input
example : Generated.Lex.input_peekRune (gNewInput [195, 169]) = 233 ∧ (newInput [195, 169]).peekRune = 233 := by decide
example : Generated.Lex.input_peekRune (gNewInput [255, 97]) = 65533 ∧ (newInput [255, 97]).peekRune = 65533 := by decide
example : Generated.Lex.input_peekRune (gNewInput []) = 0 ∧ (newInput []).peekRune = 0 := by decide
example : Generated.Lex.input_peekPrefix 3 (gNewInput [47, 47, 97]) [47, 47] = .ok true ∧
    (newInput [47, 47, 97]).peekPrefix [47, 47] = true := by decide
example : Generated.Lex.input_peekPrefix 3 (gNewInput [47]) [47, 47] = .ok false ∧
    (newInput [47]).peekPrefix [47, 47] = false := by decide
-- with less fuel than the bound the generated loop does run out
example : Generated.Lex.input_peekPrefix 2 (gNewInput [47, 47, 97]) [47, 47] = .error .fuel := by decide

/-! ### readRune, startToken, endToken -/

/-- readRune: one rune consumed (width 1 and U+FFFD for an ill-formed sequence), line / rune-in-line / byte advanced;
    at EOF `in.Error("internal lexer error: readRune at EOF")` -/
theorem input_readRune_tie {k : Int} {ts : Bytes} {gi : Generated.Lex.input} {mi : Input} (h : RepK k ts gi mi) :
    match readRune mi with
    | .ok (r, mi') => ∃ gi', Generated.Lex.input_readRune gi = .ok ((r : Int), gi') ∧ RepK k ts gi' mi'
    | .error _ => Generated.Lex.input_readRune gi = .error .panic := by
  obtain ⟨rfl, hw⟩ := repK_iff.1 h
  by_cases he : mi.remaining = []
  · obtain ⟨e, hM⟩ := readRune_eof_model mi he
    rw [hM]
    exact readRune_eofT k ts mi he
  · obtain ⟨r, mi', hM, hG, hw', _⟩ := readRune_eqT k ts mi he hw
    rw [hM]
    exact ⟨_, hG, repK_iff.2 ⟨rfl, hw'⟩⟩

/-- readRune keeps `Rep` (the model's readRune does not touch the token, and moves the bytes it consumes from
    `remaining` to `tokRev`) -/
theorem input_readRune_tie_rep {gi : Generated.Lex.input} {mi : Input} (h : Rep gi mi) :
    match readRune mi with
    | .ok (r, mi') => ∃ gi', Generated.Lex.input_readRune gi = .ok ((r : Int), gi') ∧ Rep gi' mi'
    | .error _ => Generated.Lex.input_readRune gi = .error .panic := by
  obtain ⟨rfl, hw⟩ := rep_iff.1 h
  by_cases he : mi.remaining = []
  · obtain ⟨e, hM⟩ := readRune_eof_model mi he
    rw [hM]
    exact readRune_eof _ mi he
  · obtain ⟨r, mi', hM, hG, hw', _, htok, _⟩ := readRune_eq (kindCode mi.token.kind) mi he hw
    rw [hM]
    exact ⟨_, hG, rep_iff.2 ⟨by unfold emb; rw [htok], hw'⟩⟩

/-- startToken: whatever `tokenStart` was, it now is the remaining input -/
theorem input_startToken_tie {k : Int} {ts : Bytes} {gi : Generated.Lex.input} {mi : Input} (h : RepK k ts gi mi) :
    RepK k mi.remaining (Generated.Lex.input_startToken gi).2 (startToken mi) := by
  obtain ⟨rfl, hw⟩ := repK_iff.1 h
  rw [startToken_eqT]
  exact repK_iff.2 ⟨rfl, startToken_wf hw⟩

/-- endToken: the token text is `tokenStart[:len(tokenStart)-len(remaining)]`, for comment tokens without one trailing
    CRLF (`strings.HasSuffix(text, "\r\n")`, `text[:len(text)-2]`) or LF (`strings.TrimSuffix`) -/
theorem input_endToken_tie {k : Int} {gi : Generated.Lex.input} {mi : Input}
    (h : RepK k (mi.tokRev.reverse ++ mi.remaining) gi mi) (kd : TokKind) :
    ∃ gi', Generated.Lex.input_endToken gi (kindCode kd) = .ok ((), gi') ∧ Rep gi' (endToken kd mi) := by
  obtain ⟨rfl, hw⟩ := repK_iff.1 h
  exact ⟨_, endToken_eq k kd mi, rep_iff.2 ⟨rfl, endToken_wf kd hw⟩⟩

-- "é\n": two readRunes (width 2 then the newline: line 2, column 1, byte 3), then EOF
example : (Generated.Lex.input_readRune (gNewInput [195, 169, 10])).toOption.map (fun p => (p.1, p.2.pos)) =
      some (233, { Line := 1, LineRune := 2, Byte := 2 }) ∧
    (readRune (newInput [195, 169, 10])).toOption.map (fun p => (p.1, p.2.pos)) =
      some (233, { line := 1, lineRune := 2, byte := 2 }) := by decide
example : Generated.Lex.input_readRune (gNewInput []) = .error .panic ∧ (readRune (newInput [])).toOption = none := by
  decide

/-! ### readToken, lex -/

/-- readToken (read.go:511): skip spaces; a `//` comment is a whole-line `_COMMENT` token or, when
    `bytes.TrimSpace(in.complete[bytes.LastIndex(in.complete[:in.pos.Byte], "\n")+1 : in.pos.Byte])` is non-empty, an
    `_EOLCOMMENT` token that is also appended to `in.comments`; `/*` is an error; then EOF, punctuation, quoted string
    (`"` with backslash escapes, backquote without), or identifier (stopping at `//`, `/*` an error).  From ANY token kind
    `k` and any `tokenStart` (in particular the zero token and nil `tokenStart` of `newInput`) to `Rep`. -/
theorem input_readToken_tie {k : Int} {ts : Bytes} {gi : Generated.Lex.input} {mi : Input} (h : RepK k ts gi mi)
    (fuel : Nat) (hf : mi.remaining.length + 4 ≤ fuel) :
    match readToken mi with
    | .ok mi' => ∃ gi', Generated.Lex.input_readToken isPrintI isSpaceI fuel gi = .ok ((), gi') ∧ Rep gi' mi'
    | .error _ => Generated.Lex.input_readToken isPrintI isSpaceI fuel gi = .error .panic := by
  obtain ⟨rfl, hw⟩ := repK_iff.1 h
  obtain ⟨hG, hP⟩ := readToken_eq k ts mi hw fuel hf
  rw [hG]
  cases hr : readToken mi with
  | error e => rfl
  | ok mi' => exact ⟨emb mi', rfl, rep_iff.2 ⟨rfl, hP mi' hr⟩⟩

/-- lex (read.go:504): return the pending token and read the next one -/
theorem input_lex_tie {gi : Generated.Lex.input} {mi : Input} (h : Rep gi mi) (fuel : Nat)
    (hf : mi.remaining.length + 4 ≤ fuel) :
    match lex mi with
    | .ok (t, mi') => ∃ gi', Generated.Lex.input_lex isPrintI isSpaceI fuel gi = .ok (embTok t, gi') ∧ Rep gi' mi'
    | .error _ => Generated.Lex.input_lex isPrintI isSpaceI fuel gi = .error .panic := by
  obtain ⟨rfl, hw⟩ := rep_iff.1 h
  obtain ⟨hG, hP⟩ := lex_eq mi hw fuel hf
  rw [hG]
  cases hr : lex mi with
  | error e => rfl
  | ok p =>
    obtain ⟨t, mi'⟩ := p
    exact ⟨emb mi', rfl, rep_iff.2 ⟨rfl, (hP t mi' hr).1⟩⟩

/-- `lex` until the EOF token (`lexAll` of Drv/LexOps.lean, the op `modfile.lex` / `gmodfile.lex` of the correspondence
    run): the same token list, and final states that are related (in particular the same `comments` list) -/
theorem lexAll_tie {gi : Generated.Lex.input} {mi : Input} (h : Rep gi mi) (fuel : Nat)
    (hf : mi.remaining.length + 4 ≤ fuel) (n : Nat) (acc : List Token) :
    match Drv.LexOps.M.lexAll n mi acc with
    | some (ts, mi') => ∃ gi', Drv.LexOps.G.lexAll fuel n gi (acc.map embTok) = some (ts.map embTok, gi') ∧ Rep gi' mi' ∧
        gi'.comments = mi'.commentsRev.reverse.map embComment
    | none => Drv.LexOps.G.lexAll fuel n gi (acc.map embTok) = none := by
  obtain ⟨rfl, hw⟩ := rep_iff.1 h
  rw [lexAll_eq fuel n mi acc hw hf]
  cases hr : Drv.LexOps.M.lexAll n mi acc with
  | none => rfl
  | some p =>
    obtain ⟨ts, mi'⟩ := p
    exact ⟨emb mi', rfl, rep_iff.2 ⟨rfl, lexAll_wf n mi acc hw hr⟩, rfl⟩

/-- The whole lexer run on a file, as parse starts it and the correspondence run executes it: `newInput`, the priming
    `readToken`, then `lex` to EOF — the generated code yields exactly the embedded tokens and comments of the model, or
    both fail. -/
theorem lexFile_tie (data : Bytes) (fuel : Nat) (hf : data.length + 4 ≤ fuel) (n : Nat) :
    (match Generated.Lex.input_readToken isPrintI isSpaceI fuel (gNewInput data) with
      | .error _ => none
      | .ok (_, gi) => (Drv.LexOps.G.lexAll fuel n gi []).map
          (fun (p : List Generated.Lex.token × Generated.Lex.input) => (p.1, p.2.comments))) =
    (match readToken (newInput data) with
      | .error _ => none
      | .ok mi => (Drv.LexOps.M.lexAll n mi []).map
          (fun (p : List Token × Input) => (p.1.map embTok, p.2.commentsRev.reverse.map embComment))) := by
  have h0 := input_readToken_tie (newInput_rep data) fuel hf
  cases hr : readToken (newInput data) with
  | error e => rw [hr] at h0; rw [h0]
  | ok mi =>
    rw [hr] at h0
    obtain ⟨gi, hG, hrep⟩ := h0
    rw [hG]
    have hle : mi.remaining.length ≤ data.length := by
      rcases Proofs.ModfileLex.readToken_spec (newInput data) with ⟨i', h1, h2, _⟩ | ⟨e, h1, _⟩
      · rw [hr] at h1; cases h1; exact h2
      · rw [hr] at h1; cases h1
    have h1 := lexAll_tie hrep fuel (by omega) n []
    cases hl : Drv.LexOps.M.lexAll n mi [] with
    | none => rw [hl] at h1; simp only [List.map_nil] at h1; simp only [h1, hl]; rfl
    | some p =>
      obtain ⟨ts, mi'⟩ := p
      rw [hl] at h1
      obtain ⟨gi', hG', _, hc⟩ := h1
      simp only [List.map_nil] at hG'
      simp only [hG', hl, Option.map_some, hc]

/-- The op of the correspondence run: on every input the regenerated lexer prints exactly what the hand model prints
    (`gmodfile.lex` = `modfile.lex` of Drv/LexOps.lean: all tokens with kind, start and end position and text, then the
    recorded end-of-line comments, or `err`).  The check compares both with the real implementation on sampled inputs;
    this is their agreement with each other on ALL inputs. -/
theorem run_tie (data : Bytes) : Drv.LexOps.G.run data = Drv.LexOps.M.run data := by
  unfold Drv.LexOps.G.run Drv.LexOps.M.run
  have h0 := input_readToken_tie (newInput_rep data) (data.length + 8) (by show data.length + 4 ≤ _; omega)
  unfold gNewInput at h0
  simp only []
  cases hr : readToken (newInput data) with
  | error e => rw [hr] at h0; simp only [h0]
  | ok mi =>
    rw [hr] at h0
    obtain ⟨gi, hG, hrep⟩ := h0
    simp only [hG]
    have hle : mi.remaining.length ≤ data.length := by
      rcases Proofs.ModfileLex.readToken_spec (newInput data) with ⟨i', h1, h2, _⟩ | ⟨e, h1, _⟩
      · rw [hr] at h1; cases h1; exact h2
      · rw [hr] at h1; cases h1
    have h1 := lexAll_tie hrep (data.length + 8) (by omega) (data.length + 2) []
    cases hl : Drv.LexOps.M.lexAll (data.length + 2) mi [] with
    | none => rw [hl] at h1; simp only [List.map_nil] at h1; simp only [h1]
    | some p =>
      obtain ⟨ts, mi'⟩ := p
      rw [hl] at h1
      obtain ⟨gi', hG', _, hc⟩ := h1
      simp only [List.map_nil] at hG'
      simp only [hG', hc, map_showTok_emb, map_showComment_emb, List.isEmpty_map]

-- `a //x\n`: an identifier, an end-of-line comment (also recorded in `comments`), EOF
example : Drv.LexOps.G.run [97, 32, 47, 47, 120, 10] =
      "-3@0:1:1-1:1:2=61,-2@2:1:3-6:2:1=2f2f78,-1@6:2:1-6:2:1=- comments=2:1:3=2f2f78:true" ∧
    Drv.LexOps.M.run [97, 32, 47, 47, 120, 10] =
      "-3@0:1:1-1:1:2=61,-2@2:1:3-6:2:1=2f2f78,-1@6:2:1-6:2:1=- comments=2:1:3=2f2f78:true" := by decide +kernel
example : Drv.LexOps.G.run [97, 47, 42] = "err" ∧ Drv.LexOps.M.run [97, 47, 42] = "err" := by decide +kernel

-- `a ( // c\n"s"` + a block comment error + an unterminated string: tokens and comments of both sides
example : (match Generated.Lex.input_readToken isPrintI isSpaceI 20 (gNewInput [97, 32, 40, 32, 47, 47, 32, 99, 10, 34, 115, 34]) with
      | .error _ => none
      | .ok (_, gi) => (Drv.LexOps.G.lexAll 20 14 gi []).map (fun p => (p.1.map (·.kind), p.2.comments.map (·.Token)))) =
    some ([-3, 40, -2, -4, -1], [[47, 47, 32, 99]]) := by decide +kernel
example : (match readToken (newInput [97, 32, 40, 32, 47, 47, 32, 99, 10, 34, 115, 34]) with
      | .error _ => none
      | .ok mi => (Drv.LexOps.M.lexAll 14 mi []).map (fun p => (p.1.map (kindCode ·.kind), p.2.commentsRev.reverse.map (·.token)))) =
    some ([-3, 40, -2, -4, -1], [[47, 47, 32, 99]]) := by decide +kernel
-- `/*`: `in.Error` on both sides
example : Generated.Lex.input_readToken isPrintI isSpaceI 8 (gNewInput [32, 47, 42]) = .error .panic ∧
    (readToken (newInput [32, 47, 42])).toOption.isNone = true := by decide +kernel
-- `"a` (EOF in string)
example : Generated.Lex.input_readToken isPrintI isSpaceI 8 (gNewInput [34, 97]) = .error .panic ∧
    (readToken (newInput [34, 97])).toOption.isNone = true := by decide +kernel
-- a whole-line comment with CRLF: the token text loses the CRLF; the token of both sides
example : (Generated.Lex.input_readToken isPrintI isSpaceI 12 (gNewInput [47, 47, 120, 13, 10, 97])).toOption.map (·.2.token) =
      some { kind := -5, pos := { Line := 1, LineRune := 1, Byte := 0 }, endPos := { Line := 2, LineRune := 1, Byte := 5 },
             text := [47, 47, 120] } ∧
    (readToken (newInput [47, 47, 120, 13, 10, 97])).toOption.map (fun i => embTok i.token) =
      some { kind := -5, pos := { Line := 1, LineRune := 1, Byte := 0 }, endPos := { Line := 2, LineRune := 1, Byte := 5 },
             text := [47, 47, 120] } := by decide +kernel
-- lex returns the pending token
example : (Generated.Lex.input_lex isPrintI isSpaceI 8 (emb (newInput [97]))).toOption.map (·.1.kind) = some (-1) ∧
    (lex (newInput [97])).toOption.map (fun p => kindCode p.1.kind) = some (-1) := by decide +kernel
-- with less fuel than the bound the generated loops do run out
example : Generated.Lex.input_readToken isPrintI isSpaceI 2 (gNewInput [97, 98, 99]) = .error .fuel := by decide +kernel

end ModVerif.Tie.FnLex
