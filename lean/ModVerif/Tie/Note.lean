/- Tie: constants and leaf conditions of sumdb/note/note.go, regenerated from source by
   harness/cmd/extract (consts table + extra_note.go), equal the hand-written model's. -/
import ModVerif.Model.Note
import ModVerif.Generated.Facts
namespace ModVerif.Tie

theorem note_algEd25519_tie : Generated.note_algEd25519 = Note.algEd25519 := by decide

theorem note_sigSplit_tie : Generated.note_sigSplit = Note.sigSplit := by decide

theorem note_sigPrefix_tie : Generated.note_sigPrefix = Note.sigPrefix := by decide

/-- the cap `if numSig++; numSig > 100` of Open -/
theorem note_maxSigs_tie : Generated.note_maxSigs = Note.maxSigs := by decide

/-- the per-rune test of Open is still the one `Note.validMsg` transcribes -/
theorem note_Open_runeCheck_tie :
    Generated.note_Open_runeCheck_expr
      = ("r < 0x20 && r != '\\n' || r == utf8.RuneError && size == 1".toList.map fun c => UInt8.ofNat c.toNat) := by
  decide +kernel

/-- the per-line malformed test of Open is still the one `Note.parseSigLine` transcribes -/
theorem note_Open_lineCheck_tie :
    Generated.note_Open_lineCheck_expr
      = ("err != nil || !isValidName(name) || b64 == \"\" || len(sig) < 5".toList.map fun c => UInt8.ofNat c.toNat) := by
  decide +kernel

/-- isValidName is still the expression `Note.isValidName` transcribes -/
theorem note_isValidName_tie :
    Generated.note_isValidName_expr
      = ("name != \"\" && utf8.ValidString(name) && strings.IndexFunc(name, unicode.IsSpace) < 0 && !strings.Contains(name, \"+\") &&\n\tstrings.IndexFunc(name, func(r rune) bool { return r < 0x20 }) < 0".toList.map
          fun c => UInt8.ofNat c.toNat) := by
  decide +kernel

end ModVerif.Tie
