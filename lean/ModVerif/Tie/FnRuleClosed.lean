/-
  Tie, CLOSED fuel: `parseToFile` / `ParseWork` of the directive layer regenerated from modfile/rule.go and work.go
  (Generated/FnRule.lean) compute what the hand model says, with a fuel hypothesis that is an explicit LINEAR function of
  the input length — no hypothesis on the parse result any more.

  Tie/FnRuleAdd.lean states `parseToFile_tie` / `ParseWork_tie` under `∀ fs, parse name data = .ok fs → TreeFuel F fuel fx fs`
  (per line `32·Σ|token| + 1 ≤ F`, comments of line and block `+ 3 ≤ F`, `2·|v| ≤ F` for every version computed for the
  line, loop bounds on `fuel`).  Here that hypothesis is DERIVED:

  * `treeFuel_of_length`: for every `name data`, every fixer `fx` with `FixBound B fx` (every output is at most `B` bytes
    longer than the fixer's two arguments together — in particular every fixer whose outputs are at most `B` bytes,
    `fixBound_const`; vacuous for `fx = none`, `fixBound_none`), `F := 32·|data| + 2·B + 64` and `fuel := F + |data| + 16`
    satisfy `TreeFuel F fuel fx fs` for the parsed tree (`treeFuel_of_length_ge`: every larger `F`, `fuel`).
  * `parseToFile_tie_closed`, `ParseWork_tie_closed`: the ties with ONLY `33·|data| + 2·B + 80 ≤ fuel` (and `FixBound B fx`);
    `…_nofix`: without a fixer, `33·|data| + 80 ≤ fuel`.

  The facts about the parser (Proofs/TieFnRuleFuel{A,B,C}.lean) are LINEAR, from the forward movement of the lexer: the
  text of a delivered token is paid by the bytes `readToken` consumed for it (so the tokens of one line have disjoint
  spans: `Σ|token| ≤ |data|` per line), every token other than EOF consumes a byte and every recorded end-of-line comment a
  second one (so statements + block lines + whole-line comments + blank-line placeholders + end-of-line comments
  `≤ |data| + 1`), and comment assignment only moves recorded comments into the tree (`parse_w`).  Without a fixer a
  version is `module.CanonicalVersion` of an unquoted token: `≤ 4·|token| + 17` bytes.

  Helper lemmas: Proofs/TieFnRuleFuel{A,B,C,D}.lean.  Owner: rule-fuel.
-/
import ModVerif.Tie.FnRuleAdd
import ModVerif.Proofs.TieFnRuleFuelD
namespace ModVerif.Tie.FnRuleClosed
open ModVerif ModVerif.GoRt ModVerif.Generated ModVerif.Tie.FnRuleRep
open ModVerif.Tie.FnRuleAddO ModVerif.Tie.FnRuleAddP ModVerif.Tie.FnRuleAddEx ModVerif.Tie.FnRuleAdd
open ModVerif.Tie.FnRuleFuelD
open ModVerif.Drv.GenRule (isPrintI unquoteI laxSubI deprecatedSubI fixG parseSynI idOf idsOf fileM workM encErr)

/-- **the fuel hypothesis of the ties from the input length**: `F = 32·|data| + 2·B + 64`, `fuel = F + |data| + 16` -/
theorem treeFuel_of_length (name data : Bytes) (fx : Option Modfile.Fixer) (B : Nat) (hB : FixBound B fx) :
    ∀ fs, Modfile.parse name data = .ok fs →
      TreeFuel (32 * data.length + 2 * B + 64) ((32 * data.length + 2 * B + 64) + data.length + 16) fx fs :=
  FnRuleFuelD.treeFuel_of_length name data fx B hB _ _ (Nat.le_refl _) (Nat.le_refl _)

/-- the same for every larger `F` and `fuel` -/
theorem treeFuel_of_length_ge (name data : Bytes) (fx : Option Modfile.Fixer) (B : Nat) (hB : FixBound B fx) (F fuel : Nat)
    (hF : 32 * data.length + 2 * B + 64 ≤ F) (hfuel : F + data.length + 16 ≤ fuel) :
    ∀ fs, Modfile.parse name data = .ok fs → TreeFuel F fuel fx fs :=
  FnRuleFuelD.treeFuel_of_length name data fx B hB F fuel hF hfuel

/-- **`parseToFile`** (`Parse` / `ParseLax`), every input, every bounded fixer, `strict` or lax, with a fuel bound LINEAR in
    the input length as the only hypothesis -/
theorem parseToFile_tie_closed (name data : Bytes) (fx : Option Modfile.Fixer) (strict : Bool) (B fuel : Nat)
    (hB : FixBound B fx) (hfuel : 33 * data.length + 2 * B + 80 ≤ fuel) :
    match Modfile.parseToFile name data fx strict with
    | .ok f => ∃ fp h,
        Rule.parseToFile deprecatedSubI Modfile.goVersionRE isPrintI laxSubI parseSynI Quote.quote Modfile.toolchainRE unquoteI
          fuel name data (fixG fx) strict default = .ok ((fp, none), h) ∧
        fileM (idsOf name data) h fp = some f
    | .error es => ∃ e h,
        Rule.parseToFile deprecatedSubI Modfile.goVersionRE isPrintI laxSubI parseSynI Quote.quote Modfile.toolchainRE unquoteI
          fuel name data (fixG fx) strict default = .ok (((0 : Int), e), h) ∧
        ErrValRep e es ∧ es ≠ [] :=
  parseToFile_tie name data fx strict (32 * data.length + 2 * B + 64) fuel
    (treeFuel_of_length_ge name data fx B hB _ fuel (Nat.le_refl _) (by omega))

/-- **`parseToFile`** without a version fixer: `33·|data| + 80 ≤ fuel` -/
theorem parseToFile_tie_closed_nofix (name data : Bytes) (strict : Bool) (fuel : Nat) (hfuel : 33 * data.length + 80 ≤ fuel) :
    match Modfile.parseToFile name data none strict with
    | .ok f => ∃ fp h,
        Rule.parseToFile deprecatedSubI Modfile.goVersionRE isPrintI laxSubI parseSynI Quote.quote Modfile.toolchainRE unquoteI
          fuel name data (fixG none) strict default = .ok ((fp, none), h) ∧
        fileM (idsOf name data) h fp = some f
    | .error es => ∃ e h,
        Rule.parseToFile deprecatedSubI Modfile.goVersionRE isPrintI laxSubI parseSynI Quote.quote Modfile.toolchainRE unquoteI
          fuel name data (fixG none) strict default = .ok (((0 : Int), e), h) ∧
        ErrValRep e es ∧ es ≠ [] :=
  parseToFile_tie_closed name data none strict 0 fuel (fixBound_none 0) (by omega)

/-- **`ParseWork`**, every input and every bounded fixer, with a fuel bound LINEAR in the input length as the only hypothesis -/
theorem ParseWork_tie_closed (name data : Bytes) (fx : Option Modfile.Fixer) (B fuel : Nat)
    (hB : FixBound B fx) (hfuel : 33 * data.length + 2 * B + 80 ≤ fuel) :
    match Modfile.parseWork name data fx with
    | .ok f => ∃ fp h,
        Rule.ParseWork Modfile.goVersionRE isPrintI parseSynI Quote.quote Modfile.toolchainRE unquoteI fuel name data (fixG fx) default =
          .ok ((fp, none), h) ∧
        workM (idsOf name data) h fp = some f
    | .error es => ∃ e h,
        Rule.ParseWork Modfile.goVersionRE isPrintI parseSynI Quote.quote Modfile.toolchainRE unquoteI fuel name data (fixG fx) default =
          .ok (((0 : Int), e), h) ∧
        ErrValRep e es ∧ es ≠ [] :=
  ParseWork_tie name data fx (32 * data.length + 2 * B + 64) fuel
    (treeFuel_of_length_ge name data fx B hB _ fuel (Nat.le_refl _) (by omega))

/-- **`ParseWork`** without a version fixer: `33·|data| + 80 ≤ fuel` -/
theorem ParseWork_tie_closed_nofix (name data : Bytes) (fuel : Nat) (hfuel : 33 * data.length + 80 ≤ fuel) :
    match Modfile.parseWork name data none with
    | .ok f => ∃ fp h,
        Rule.ParseWork Modfile.goVersionRE isPrintI parseSynI Quote.quote Modfile.toolchainRE unquoteI fuel name data (fixG none) default =
          .ok ((fp, none), h) ∧
        workM (idsOf name data) h fp = some f
    | .error es => ∃ e h,
        Rule.ParseWork Modfile.goVersionRE isPrintI parseSynI Quote.quote Modfile.toolchainRE unquoteI fuel name data (fixG none) default =
          .ok (((0 : Int), e), h) ∧
        ErrValRep e es ∧ es ≠ [] :=
  ParseWork_tie_closed name data none 0 fuel (fixBound_none 0) (by omega)

/-! ### non-vacuity -/

-- `exFix` (Proofs/TieFnRuleFuelD.lean): `latest ↦ v1.0.0`, everything else canonicalised; `exFix_bound : FixBound 17 (some exFix)`
example : FixBound 17 (some exFix) := exFix_bound
-- the closed fuel of the example files (94, 43 and 52 bytes)
example : 33 * exMod.length + 2 * 17 + 80 = 3216 ∧ 33 * exBad.length + 80 = 1499 ∧ 33 * exWork.length + 80 = 1796 := by decide +kernel
-- the derived bound is what the check `inputFuelB` of Tie/FnRuleAdd.lean confirms on the example
example : inputFuelB (32 * exMod.length + 2 * 17 + 64) 3216 (B "go.mod") exMod (some exFix) = true := by decide +kernel
-- success with exactly the closed fuel: the file read back from the heap is the model's (the retract interval goes through the fixer)
set_option maxRecDepth 100000 in
example : (match PTF 3216 (B "go.mod") exMod (fixG (some exFix)) true default with
    | .ok ((fp, none), h) => fileM (idsOf (B "go.mod") exMod) h fp
    | _ => none) = (Modfile.parseToFile (B "go.mod") exMod (some exFix) true).toOption ∧
    ((Modfile.parseToFile (B "go.mod") exMod (some exFix) true).toOption.map (·.retract)) =
      some [{ interval := { low := B "v1.0.0", high := B "v1.0.0" }, rationale := B "bad", lineId := 3 }] := by decide +kernel
-- errors with exactly the closed fuel (no fixer): nil and an error value / the model's error list
set_option maxRecDepth 100000 in
example : (match PTF 1499 (B "go.mod") exBad (fixG none) true default with
    | .ok ((fp, some _), _) => fp
    | _ => 1) = 0 ∧
    (match Modfile.parseToFile (B "go.mod") exBad none true with
     | .error es => es.map (fun (e : ModVerif.Modfile.RuleErr) => (e.pos.line, e.pos.lineRune, e.pos.byte, e.kind))
     | .ok _ => []) = [(2, 1, 8, .unknownDirective)] := by decide +kernel
-- go.work with exactly the closed fuel
set_option maxRecDepth 100000 in
example : (match PWK 1796 (B "go.work") exWork (fixG none) default with
    | .ok ((fp, none), h) => workM (idsOf (B "go.work") exWork) h fp
    | _ => none) = (Modfile.parseWork (B "go.work") exWork none).toOption ∧
    (Modfile.parseWork (B "go.work") exWork none).toOption.isSome = true := by decide +kernel

end ModVerif.Tie.FnRuleClosed
