/-
  Tie theorems: the Merkle proof functions of sumdb/tlog as REGENERATED from the Go source on every run
  (lean/ModVerif/Generated/FnTlog.lean, namespace ModVerif.Generated.Tlog; whole-function translation in checked mode:
  every int64 result goes through `chk64`) compute exactly what the hand model (Model/Tlog.lean) says.
  Tie theorems and their non-vacuity examples only; helpers in Proofs/TieFnTlogProof*.lean, Proofs/GoRtLemmasList.lean.

  Conventions.  `H` any hash type, `node : H → H → H`.  Go `error` is `Option String`; the model's error kinds are
  rendered by `errText`: `Err.proofFailed` ↦ "errProofFailed", `Err.invalid` ↦ the function's own
  "tlog: invalid inputs in …" text.  A conclusion `Generated.f … = .ok …` also states: no panic, no fuel exhaustion and
  no int64 overflow on the stated domain.
-/
import ModVerif.Generated.FnTlog
import ModVerif.Model.Tlog
import ModVerif.Proofs.TieFnTlogProofMax
import ModVerif.Proofs.TieFnTlogProofCheck
import ModVerif.Proofs.TieFnTlogProofHash
import ModVerif.Proofs.TieFnTlogProofProve
import ModVerif.Proofs.TieFnTlogProofIndex
import ModVerif.Proofs.TieFnTlogProofTop
import ModVerif.Proofs.TieFnTlogProofNeg
import ModVerif.Proofs.TlogTH
import ModVerif.Spec.RFC6962
namespace ModVerif.Tie.FnTlogProof
open ModVerif ModVerif.GoRt ModVerif.GoRtList ModVerif.Tlog ModVerif.TlogTH ModVerif.TieFnTlogInt

section
variable {H : Type} [DecidableEq H] [Inhabited H] (node : H → H → H)

/-- `runRecordProof` (the recursive checker of inclusion proofs): for every proof of fewer than 2^63 hashes (a slice
    length is an `int`) and every `0 ≤ lo ≤ n < hi < 2^63`; fuel `hi - lo`. -/
theorem runRecordProof_tie (fuel : Nat) (p : List H) (lo hi n : Int) (leafHash : H)
    (h0 : 0 ≤ lo) (h1 : lo ≤ n) (h2 : n < hi) (h3 : hi < 2 ^ 63) (hp : p.length < 2 ^ 63)
    (hf : (hi - lo).toNat ≤ fuel) :
    Generated.Tlog.runRecordProof node fuel p lo hi n leafHash =
      .ok (encHash (Tlog.runRecordProof node p lo.toNat hi.toNat n.toNat leafHash)) := by
  have e1 : lo = (lo.toNat : Int) := by omega
  have e2 : hi = (hi.toNat : Int) := by omega
  have e3 : n = (n.toNat : Int) := by omega
  rw [e1, e2, e3]
  simp only [Int.toNat_natCast]
  exact runRecordProof_ok node fuel _ p _ _ _ leafHash (by omega) (by omega) (by omega) hp (Nat.le_refl _) (by omega)

/-- non-vacuity: the hypotheses are satisfiable and both sides evaluate (interval [2,7), record 2, one-hash proof) -/
example : Generated.Tlog.runRecordProof TH.node 5 [TH.junk 0] 2 7 2 (TH.leaf [2]) =
    .ok (encHash (Tlog.runRecordProof TH.node [TH.junk 0] 2 7 2 (TH.leaf [2]))) :=
  runRecordProof_tie TH.node 5 [TH.junk 0] 2 7 2 (TH.leaf [2]) (by omega) (by omega) (by omega) (by omega)
    (by simp) (by decide)
example : okIs (Generated.Tlog.runRecordProof TH.node 5 [TH.junk 0] 2 7 2 (TH.leaf [2]))
    (default, some "errProofFailed") = true ∧
    isErr (Tlog.runRecordProof TH.node [TH.junk 0] 2 7 2 (TH.leaf [2])) .proofFailed = true := by decide +kernel

/-- ★ `CheckRecord`: for EVERY `t`, `n` in the int64 range (also negative and out-of-range ones) and every proof. -/
theorem CheckRecord_tie (fuel : Nat) (p : List H) (t : Int) (th : H) (n : Int) (h : H)
    (ht : t < 2 ^ 63) (hp : p.length < 2 ^ 63) (hf : t.toNat ≤ fuel) :
    Generated.Tlog.CheckRecord node fuel p t th n h =
      .ok (encErr "tlog: invalid inputs in CheckRecord" (Tlog.checkRecord node p t th n h)) := by
  unfold Generated.Tlog.CheckRecord Tlog.checkRecord
  by_cases hg : t < 0 ∨ n < 0 ∨ n ≥ t
  · have : (decide (t < 0) || decide (n < 0) || decide (n ≥ t)) = true := by
      rcases hg with h | h | h <;> simp [h]
    simp only [this, if_true, pure_eq_ok, encErr, errText]
  · have : (decide (t < 0) || decide (n < 0) || decide (n ≥ t)) = false := by
      simp; omega
    simp only [this, Bool.false_eq_true, if_false]
    rw [runRecordProof_tie node fuel p 0 t n h (by omega) (by omega) (by omega) ht hp (by omega)]
    simp only [ok_bind, Int.toNat_zero]
    have hc := Tlog.runRecordProofF_clean node (t.toNat - 0) p 0 t.toNat n.toNat h (Nat.zero_le _) (by omega)
      (Nat.le_refl _)
    unfold Tlog.runRecordProof
    rcases hc with hc | ⟨a, hc⟩
    · rw [hc]; rfl
    · rw [hc]
      by_cases hq : a = th
      · simp [encHash, encErr, hq, bind, Except.bind, pure, Except.pure]
      · simp [encHash, encErr, hq, errText, bind, Except.bind, pure, Except.pure]

/-- non-vacuity: an accepted tuple, a rejected tuple and refused arguments, both sides evaluated -/
example : Generated.Tlog.CheckRecord TH.node 7 (RFC6962.path TH.node TH.empty 2 ((recs 7).map TH.leaf)) 7 (root 7) 2
      (TH.leaf [2]) =
    .ok (encErr "tlog: invalid inputs in CheckRecord"
      (Tlog.checkRecord TH.node (RFC6962.path TH.node TH.empty 2 ((recs 7).map TH.leaf)) 7 (root 7) 2 (TH.leaf [2]))) :=
  CheckRecord_tie TH.node 7 _ 7 _ 2 _ (by omega) (by decide +kernel) (by decide)
example :
    okIs (Generated.Tlog.CheckRecord TH.node 7 (RFC6962.path TH.node TH.empty 2 ((recs 7).map TH.leaf)) 7 (root 7) 2
      (TH.leaf [2])) none = true ∧
    isOk (Tlog.checkRecord TH.node (RFC6962.path TH.node TH.empty 2 ((recs 7).map TH.leaf)) 7 (root 7) 2 (TH.leaf [2])) ()
      = true ∧
    okIs (Generated.Tlog.CheckRecord TH.node 7 [TH.junk 0] 7 (root 7) 2 (TH.leaf [2])) (some "errProofFailed") = true ∧
    isErr (Tlog.checkRecord TH.node [TH.junk 0] 7 (root 7) 2 (TH.leaf [2])) .proofFailed = true ∧
    okIs (Generated.Tlog.CheckRecord TH.node 0 [] 7 (root 7) 7 (TH.leaf [2]))
      (some "tlog: invalid inputs in CheckRecord") = true ∧
    isErr (Tlog.checkRecord TH.node [] 7 (root 7) 7 (TH.leaf [2])) .invalid = true := by decide +kernel

/-- `runTreeProof` (the recursive checker of consistency proofs): every proof of fewer than 2^63 hashes, every
    `0 ≤ lo < n ≤ hi < 2^63`; fuel `hi - lo`. -/
theorem runTreeProof_tie (fuel : Nat) (p : List H) (lo hi n : Int) (old : H)
    (h0 : 0 ≤ lo) (h1 : lo < n) (h2 : n ≤ hi) (h3 : hi < 2 ^ 63) (hp : p.length < 2 ^ 63)
    (hf : (hi - lo).toNat ≤ fuel) :
    Generated.Tlog.runTreeProof node fuel p lo hi n old =
      .ok (encHash2 (Tlog.runTreeProof node p lo.toNat hi.toNat n.toNat old)) := by
  have e1 : lo = (lo.toNat : Int) := by omega
  have e2 : hi = (hi.toNat : Int) := by omega
  have e3 : n = (n.toNat : Int) := by omega
  rw [e1, e2, e3]
  simp only [Int.toNat_natCast]
  exact runTreeProof_ok node fuel _ p _ _ _ old (by omega) (by omega) (by omega) hp (Nat.le_refl _) (by omega)

example : Generated.Tlog.runTreeProof TH.node 7 [TH.junk 0] 0 7 3 (root 3) =
    .ok (encHash2 (Tlog.runTreeProof TH.node [TH.junk 0] 0 7 3 (root 3))) :=
  runTreeProof_tie TH.node 7 [TH.junk 0] 0 7 3 (root 3) (by omega) (by omega) (by omega) (by omega) (by simp) (by decide)
example : okIs (Generated.Tlog.runTreeProof TH.node 7 [TH.junk 0] 0 7 3 (root 3))
    (default, default, some "errProofFailed") = true ∧
    isErr (Tlog.runTreeProof TH.node [TH.junk 0] 0 7 3 (root 3)) .proofFailed = true := by decide +kernel

/-- ★ `CheckTree`: for EVERY `t`, `n` in the int64 range and every proof. -/
theorem CheckTree_tie (fuel : Nat) (p : List H) (t : Int) (th : H) (n : Int) (h : H)
    (ht : t < 2 ^ 63) (hp : p.length < 2 ^ 63) (hf : t.toNat ≤ fuel) :
    Generated.Tlog.CheckTree node fuel p t th n h =
      .ok (encErr "tlog: invalid inputs in CheckTree" (Tlog.checkTree node p t th n h)) := by
  unfold Generated.Tlog.CheckTree Tlog.checkTree
  by_cases hg : t < 1 ∨ n < 1 ∨ n > t
  · have : (decide (t < 1) || decide (n < 1) || decide (n > t)) = true := by
      rcases hg with h | h | h <;> simp [h]
    simp only [this, if_true, pure_eq_ok, encErr, errText]
  · have : (decide (t < 1) || decide (n < 1) || decide (n > t)) = false := by
      simp; omega
    simp only [this, Bool.false_eq_true, if_false]
    rw [runTreeProof_tie node fuel p 0 t n h (by omega) (by omega) (by omega) ht hp (by omega)]
    simp only [ok_bind, Int.toNat_zero]
    have hc := Tlog.runTreeProofF_clean node (t.toNat - 0) p 0 t.toNat n.toNat h (by omega) (by omega)
      (Nat.le_refl _)
    unfold Tlog.runTreeProof
    rcases hc with hc | ⟨a, hc⟩
    · rw [hc]; rfl
    · rw [hc]
      obtain ⟨h2, th2⟩ := a
      by_cases hq : th2 = th ∧ h2 = h
      · simp [encHash2, encErr, hq, bind, Except.bind, pure, Except.pure]
      · have hq' : th2 = th → ¬ h2 = h := fun a b => hq ⟨a, b⟩
        simp [encHash2, encErr, hq, errText, bind, Except.bind, pure, Except.pure]
        intro a; exact decide_eq_false (hq' (of_decide_eq_true a))

example : Generated.Tlog.CheckTree TH.node 7 (RFC6962.proof TH.node TH.empty 3 ((recs 7).map TH.leaf)) 7 (root 7) 3
      (root 3) =
    .ok (encErr "tlog: invalid inputs in CheckTree"
      (Tlog.checkTree TH.node (RFC6962.proof TH.node TH.empty 3 ((recs 7).map TH.leaf)) 7 (root 7) 3 (root 3))) :=
  CheckTree_tie TH.node 7 _ 7 _ 3 _ (by omega) (by decide +kernel) (by decide)
example :
    okIs (Generated.Tlog.CheckTree TH.node 7 (RFC6962.proof TH.node TH.empty 3 ((recs 7).map TH.leaf)) 7 (root 7) 3
      (root 3)) none = true ∧
    isOk (Tlog.checkTree TH.node (RFC6962.proof TH.node TH.empty 3 ((recs 7).map TH.leaf)) 7 (root 7) 3 (root 3)) ()
      = true ∧
    okIs (Generated.Tlog.CheckTree TH.node 7 (RFC6962.proof TH.node TH.empty 3 ((recs 7).map TH.leaf)) 7 (root 7) 3
      (root 2)) (some "errProofFailed") = true ∧
    isErr (Tlog.checkTree TH.node (RFC6962.proof TH.node TH.empty 3 ((recs 7).map TH.leaf)) 7 (root 7) 3 (root 2))
      .proofFailed = true ∧
    okIs (Generated.Tlog.CheckTree TH.node 0 [] 7 (root 7) 8 (root 3)) (some "tlog: invalid inputs in CheckTree") = true ∧
    isErr (Tlog.checkTree TH.node [] 7 (root 7) 8 (root 3)) .invalid = true := by decide +kernel

/-! ### the provers

`toM` renders a model result as a result of generated code (every model error is a Go panic site), `subTreeIndexOut need`
the same for index lists appended to `need`, and `readOut dflt inv rerr` renders the result of an exported prover:
`.ok a ↦ (a, nil)`, `Err.invalid ↦ (dflt, inv)`, `Err.reader ↦ (dflt, readErrOf r indexes)` (the reader's own error or the
"ReadHashes(%d indexes) = %d hashes" text), any other model error ↦ panic.  The model reads through
`readerOf r` (tie-tlogint's conversion of a generated-code reader).  Range: `hi < 2^63` for the hash recursions
(`subTreeHash` additionally `hi - lo + 1 < 2^63`: the loop computes `hi - lo + 1`), `hi ≤ 2^62` wherever
`StoredHashIndex` is computed (beyond it the int64 index overflows in the Go code). -/

/-- `subTreeHash` — all panic cases included ("bad math", too few hashes, empty interval). -/
theorem subTreeHash_tie (fuel : Nat) (lo hi : Int) (hashes : List H)
    (h0 : 0 ≤ lo) (h1 : hi < 2 ^ 63) (h2 : hi - lo + 1 < 2 ^ 63) (hf : (hi - lo).toNat + 1 ≤ fuel) :
    Generated.Tlog.subTreeHash node fuel lo hi hashes =
      toM (Tlog.subTreeHash node lo.toNat hi.toNat hashes) := by
  by_cases h0' : 0 ≤ hi
  · have e1 : lo = (lo.toNat : Int) := by omega
    have e2 : hi = (hi.toNat : Int) := by omega
    rw [e1, e2]
    simp only [Int.toNat_natCast]
    exact subTreeHash_ok node fuel _ _ hashes (by omega) (by omega) (by omega)
  · rw [subTreeHash_empty node fuel lo hi hashes (by omega) (by omega),
      subTreeHash_model_empty node _ _ hashes (by omega)]
    rfl

/-- non-vacuity: interval [4,7) = subtrees [4,6), [6,7); three hashes given, two consumed; and a panic case (too few) -/
example : Generated.Tlog.subTreeHash TH.node 4 4 7 [TH.junk 0, TH.junk 1, TH.junk 2] =
    toM (Tlog.subTreeHash TH.node 4 7 [TH.junk 0, TH.junk 1, TH.junk 2]) :=
  subTreeHash_tie TH.node 4 4 7 _ (by omega) (by omega) (by omega) (by decide)
example :
    okIs (Generated.Tlog.subTreeHash TH.node 4 4 7 [TH.junk 0, TH.junk 1, TH.junk 2])
      (TH.node (TH.junk 0) (TH.junk 1), [TH.junk 2]) = true ∧
    isOk (Tlog.subTreeHash TH.node 4 7 [TH.junk 0, TH.junk 1, TH.junk 2])
      (TH.node (TH.junk 0) (TH.junk 1), [TH.junk 2]) = true ∧
    Generated.Tlog.subTreeHash TH.node 4 4 7 [TH.junk 0] = .error .panic ∧
    isErr (Tlog.subTreeHash TH.node 4 7 [TH.junk 0]) .panic = true := by
  refine ⟨by decide +kernel, by decide +kernel, ?_, by decide +kernel⟩
  rw [subTreeHash_tie TH.node 4 4 7 _ (by omega) (by omega) (by omega) (by decide)]
  rfl

/-- `leafProofIndex` -/
theorem leafProofIndex_tie (fuel : Nat) (lo hi n : Int) (need : List Int)
    (h0 : 0 ≤ lo) (h0'' : 0 ≤ n) (h1 : hi ≤ 2 ^ 62) (hf : (hi - lo).toNat + 127 ≤ fuel) :
    Generated.Tlog.leafProofIndex fuel lo hi n need =
      subTreeIndexOut need (Tlog.leafProofIndex lo.toNat hi.toNat n.toNat) := by
  by_cases h0' : 0 ≤ hi
  · have e1 : lo = (lo.toNat : Int) := by omega
    have e2 : hi = (hi.toNat : Int) := by omega
    have e3 : n = (n.toNat : Int) := by omega
    rw [e1, e2, e3]
    simp only [Int.toNat_natCast]
    exact leafProofIndex_ok fuel _ _ _ _ need (by omega) (Nat.le_refl _) (by omega)
  · have hz : hi.toNat = 0 := by omega
    rw [leafProofIndex_neg fuel lo hi n need h0'' (by omega) (by omega), hz]
    simp [Tlog.leafProofIndex, Tlog.leafProofIndexF, subTreeIndexOut]

example : Generated.Tlog.leafProofIndex 134 0 7 2 [5] = subTreeIndexOut [5] (Tlog.leafProofIndex 0 7 2) :=
  leafProofIndex_tie 134 0 7 2 [5] (by omega) (by omega) (by omega) (by decide)
example : okIs (Generated.Tlog.leafProofIndex 134 0 7 2 [5]) [5, 2, 4, 9, 10] = true ∧
    isOk (Tlog.leafProofIndex 0 7 2) [2, 4, 9, 10] = true := by decide +kernel

/-- `leafProof` -/
theorem leafProof_tie (fuel : Nat) (lo hi n : Int) (hashes : List H)
    (h0 : 0 ≤ lo) (h0'' : 0 ≤ n) (h1 : hi < 2 ^ 63) (hf : (hi - lo).toNat + 1 ≤ fuel) :
    Generated.Tlog.leafProof node fuel lo hi n hashes =
      toM (Tlog.leafProof node lo.toNat hi.toNat n.toNat hashes) := by
  by_cases h0' : 0 ≤ hi
  · have e1 : lo = (lo.toNat : Int) := by omega
    have e2 : hi = (hi.toNat : Int) := by omega
    have e3 : n = (n.toNat : Int) := by omega
    rw [e1, e2, e3]
    simp only [Int.toNat_natCast]
    exact leafProof_ok node fuel _ _ _ _ hashes (by omega) (Nat.le_refl _) (by omega)
  · have hz : hi.toNat = 0 := by omega
    rw [leafProof_neg node fuel lo hi n hashes h0'' (by omega) (by omega), hz]
    simp [Tlog.leafProof, Tlog.leafProofF, toM]

example : Generated.Tlog.leafProof TH.node 4 4 7 5 [TH.junk 0, TH.junk 1, TH.junk 2] =
    toM (Tlog.leafProof TH.node 4 7 5 [TH.junk 0, TH.junk 1, TH.junk 2]) :=
  leafProof_tie TH.node 4 4 7 5 _ (by omega) (by omega) (by omega) (by decide)
example :
    okIs (Generated.Tlog.leafProof TH.node 4 4 7 5 [TH.junk 0, TH.junk 1, TH.junk 2])
      ([TH.junk 0, TH.junk 1], [TH.junk 2]) = true ∧
    isOk (Tlog.leafProof TH.node 4 7 5 [TH.junk 0, TH.junk 1, TH.junk 2]) ([TH.junk 0, TH.junk 1], [TH.junk 2]) = true := by
  decide +kernel

/-- `treeProofIndex` -/
theorem treeProofIndex_tie (fuel : Nat) (lo hi n : Int) (need : List Int)
    (h0 : 0 ≤ lo) (h0'' : 0 ≤ n) (h1 : hi ≤ 2 ^ 62) (hf : (hi - lo).toNat + 127 ≤ fuel) :
    Generated.Tlog.treeProofIndex fuel lo hi n need =
      subTreeIndexOut need (Tlog.treeProofIndex lo.toNat hi.toNat n.toNat) := by
  by_cases h0' : 0 ≤ hi
  · have e1 : lo = (lo.toNat : Int) := by omega
    have e2 : hi = (hi.toNat : Int) := by omega
    have e3 : n = (n.toNat : Int) := by omega
    rw [e1, e2, e3]
    simp only [Int.toNat_natCast]
    exact treeProofIndex_ok fuel _ _ _ _ need (by omega) (Nat.le_refl _) (by omega)
  · have hz : hi.toNat = 0 := by omega
    rw [treeProofIndex_neg fuel lo hi n need h0'' (by omega) (by omega), hz]
    simp [Tlog.treeProofIndex, Tlog.treeProofIndexF, subTreeIndexOut]

example : Generated.Tlog.treeProofIndex 134 0 7 3 [5] = subTreeIndexOut [5] (Tlog.treeProofIndex 0 7 3) :=
  treeProofIndex_tie 134 0 7 3 [5] (by omega) (by omega) (by omega) (by decide)
example : okIs (Generated.Tlog.treeProofIndex 134 0 7 3 [5]) [5, 2, 3, 4, 9, 10] = true ∧
    isOk (Tlog.treeProofIndex 0 7 3) [2, 3, 4, 9, 10] = true := by decide +kernel

/-- `treeProof` -/
theorem treeProof_tie (fuel : Nat) (lo hi n : Int) (hashes : List H)
    (h0 : 0 ≤ lo) (h0'' : 0 ≤ n) (h1 : hi < 2 ^ 63) (hf : (hi - lo).toNat + 2 ≤ fuel) :
    Generated.Tlog.treeProof node fuel lo hi n hashes =
      toM (Tlog.treeProof node lo.toNat hi.toNat n.toNat hashes) := by
  by_cases h0' : 0 ≤ hi
  · have e1 : lo = (lo.toNat : Int) := by omega
    have e2 : hi = (hi.toNat : Int) := by omega
    have e3 : n = (n.toNat : Int) := by omega
    rw [e1, e2, e3]
    simp only [Int.toNat_natCast]
    exact treeProof_ok node fuel _ _ _ _ hashes (by omega) (Nat.le_refl _) (by omega)
  · have hz : hi.toNat = 0 := by omega
    rw [treeProof_neg node fuel lo hi n hashes h0'' (by omega) (by omega), hz]
    simp [Tlog.treeProof, Tlog.treeProofF, toM]

example : Generated.Tlog.treeProof TH.node 5 4 7 6 [TH.junk 0, TH.junk 1, TH.junk 2] =
    toM (Tlog.treeProof TH.node 4 7 6 [TH.junk 0, TH.junk 1, TH.junk 2]) :=
  treeProof_tie TH.node 5 4 7 6 _ (by omega) (by omega) (by omega) (by decide)
example :
    okIs (Generated.Tlog.treeProof TH.node 5 4 7 6 [TH.junk 0, TH.junk 1, TH.junk 2])
      ([TH.junk 0, TH.junk 1], [TH.junk 2]) = true ∧
    isOk (Tlog.treeProof TH.node 4 7 6 [TH.junk 0, TH.junk 1, TH.junk 2]) ([TH.junk 0, TH.junk 1], [TH.junk 2]) = true := by
  decide +kernel

/-- ★ `TreeHash(n, r)` for `0 ≤ n ≤ 2^62` and every reader. -/
theorem TreeHash_tie (empty : H) (fuel : Nat) (n : Int) (r : List Int → List H × Option String)
    (h0 : 0 ≤ n) (hn : n ≤ 2 ^ 62) (hf : n.toNat + 127 ≤ fuel) :
    Generated.Tlog.TreeHash empty node fuel n r =
      readOut default "" (readErrOf r (idxOf (Tlog.subTreeIndex 0 n.toNat)))
        (Tlog.treeHash node empty n.toNat (readerOf r)) := by
  have e1 : n = (n.toNat : Int) := by omega
  rw [e1]
  simp only [Int.toNat_natCast]
  exact TreeHash_ok node empty fuel _ r (by omega) (by omega)

example : Generated.Tlog.TreeHash TH.empty TH.node 134 7 (genReader (store 13)) =
    readOut default "" (readErrOf (genReader (store 13)) (idxOf (Tlog.subTreeIndex 0 7)))
      (Tlog.treeHash TH.node TH.empty 7 (readerOf (genReader (store 13)))) :=
  TreeHash_tie TH.node TH.empty 134 7 _ (by omega) (by omega) (by decide)
example :
    okIs (Generated.Tlog.TreeHash TH.empty TH.node 134 7 (genReader (store 13))) (root 7, none) = true ∧
    isOk (Tlog.treeHash TH.node TH.empty 7 (readerOf (genReader (store 13)))) (root 7) = true ∧
    okIs (Generated.Tlog.TreeHash TH.empty TH.node 134 7 (genReader (store 3))) (default, some "missing hash") = true ∧
    isErr (Tlog.treeHash TH.node TH.empty 7 (readerOf (genReader (store 3)))) .reader = true := by decide +kernel

/-- ★ `ProveRecord(t, n, r)` for EVERY `t ≤ 2^62`, every `n` (also negative and out-of-range ones) and every reader. -/
theorem ProveRecord_tie (fuel : Nat) (t n : Int) (r : List Int → List H × Option String)
    (ht : t ≤ 2 ^ 62) (hf : t.toNat + 127 ≤ fuel) :
    Generated.Tlog.ProveRecord node fuel t n r =
      readOut [] "tlog: invalid inputs in ProveRecord" (readErrOf r (idxOf (Tlog.leafProofIndex 0 t.toNat n.toNat)))
        (Tlog.proveRecord node t n (readerOf r)) := by
  by_cases hg : t < 0 ∨ n < 0 ∨ n ≥ t
  · have : (decide (t < 0) || decide (n < 0) || decide (n ≥ t)) = true := by
      rcases hg with h | h | h <;> simp [h]
    unfold Generated.Tlog.ProveRecord Tlog.proveRecord
    simp only [this, if_true, pure_eq_ok, readOut]
  · have e1 : t = (t.toNat : Int) := by omega
    have e2 : n = (n.toNat : Int) := by omega
    rw [e1, e2]
    simp only [Int.toNat_natCast]
    exact ProveRecord_ok node fuel _ _ r (by omega) (by omega) (by omega)

/-- non-vacuity: the produced proof (= RFC 6962 audit path), a failing reader, a reader returning too few hashes, and
    refused arguments; both sides evaluated -/
example : Generated.Tlog.ProveRecord TH.node 134 7 2 (genReader (store 13)) =
    readOut [] "tlog: invalid inputs in ProveRecord"
      (readErrOf (genReader (store 13)) (idxOf (Tlog.leafProofIndex 0 7 2)))
      (Tlog.proveRecord TH.node 7 2 (readerOf (genReader (store 13)))) :=
  ProveRecord_tie TH.node 134 7 2 _ (by omega) (by decide)
example :
    okIs (Generated.Tlog.ProveRecord TH.node 134 7 2 (genReader (store 13)))
      (RFC6962.path TH.node TH.empty 2 ((recs 7).map TH.leaf), none) = true ∧
    isOk (Tlog.proveRecord TH.node 7 2 (readerOf (genReader (store 13))))
      (RFC6962.path TH.node TH.empty 2 ((recs 7).map TH.leaf)) = true ∧
    okIs (Generated.Tlog.ProveRecord TH.node 134 7 2 (genReader (store 3))) ([], some "missing hash") = true ∧
    isErr (Tlog.proveRecord TH.node 7 2 (readerOf (genReader (store 3)))) .reader = true ∧
    okIs (Generated.Tlog.ProveRecord TH.node 134 7 2 (fun _ => ([], none)))
      ([], some "tlog: ReadHashes(%d indexes) = %d hashes") = true ∧
    isErr (Tlog.proveRecord TH.node 7 2 (readerOf (fun _ => (([] : List TH), none)))) .reader = true ∧
    okIs (Generated.Tlog.ProveRecord TH.node 0 7 7 (genReader (store 13)))
      ([], some "tlog: invalid inputs in ProveRecord") = true ∧
    isErr (Tlog.proveRecord TH.node 7 7 (readerOf (genReader (store 13)))) .invalid = true := by decide +kernel

/-- ★ `ProveTree(t, n, r)` for EVERY `t ≤ 2^62`, every `n` and every reader. -/
theorem ProveTree_tie (fuel : Nat) (t n : Int) (r : List Int → List H × Option String)
    (ht : t ≤ 2 ^ 62) (hf : t.toNat + 127 ≤ fuel) :
    Generated.Tlog.ProveTree node fuel t n r =
      readOut [] "tlog: invalid inputs in ProveTree" (readErrOf r (idxOf (Tlog.treeProofIndex 0 t.toNat n.toNat)))
        (Tlog.proveTree node t n (readerOf r)) := by
  by_cases hg : t < 1 ∨ n < 1 ∨ n > t
  · have : (decide (t < 1) || decide (n < 1) || decide (n > t)) = true := by
      rcases hg with h | h | h <;> simp [h]
    unfold Generated.Tlog.ProveTree Tlog.proveTree
    simp only [this, if_true, pure_eq_ok, readOut]
  · have e1 : t = (t.toNat : Int) := by omega
    have e2 : n = (n.toNat : Int) := by omega
    rw [e1, e2]
    simp only [Int.toNat_natCast]
    exact ProveTree_ok node fuel _ _ r (by omega) (by omega) (by omega) (by omega)

example : Generated.Tlog.ProveTree TH.node 134 7 3 (genReader (store 13)) =
    readOut [] "tlog: invalid inputs in ProveTree"
      (readErrOf (genReader (store 13)) (idxOf (Tlog.treeProofIndex 0 7 3)))
      (Tlog.proveTree TH.node 7 3 (readerOf (genReader (store 13)))) :=
  ProveTree_tie TH.node 134 7 3 _ (by omega) (by decide)
example :
    okIs (Generated.Tlog.ProveTree TH.node 134 7 3 (genReader (store 13)))
      (RFC6962.proof TH.node TH.empty 3 ((recs 7).map TH.leaf), none) = true ∧
    isOk (Tlog.proveTree TH.node 7 3 (readerOf (genReader (store 13))))
      (RFC6962.proof TH.node TH.empty 3 ((recs 7).map TH.leaf)) = true ∧
    okIs (Generated.Tlog.ProveTree TH.node 134 7 3 (genReader (store 3))) ([], some "missing hash") = true ∧
    isErr (Tlog.proveTree TH.node 7 3 (readerOf (genReader (store 3)))) .reader = true ∧
    okIs (Generated.Tlog.ProveTree TH.node 0 7 8 (genReader (store 13)))
      ([], some "tlog: invalid inputs in ProveTree") = true ∧
    isErr (Tlog.proveTree TH.node 7 8 (readerOf (genReader (store 13)))) .invalid = true := by decide +kernel

end
end ModVerif.Tie.FnTlogProof
