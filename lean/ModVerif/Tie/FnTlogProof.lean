/-
  Tie theorems: the Merkle proof functions of sumdb/tlog as REGENERATED from the Go source on every run
  (lean/ModVerif/Generated/FnTlog.lean, namespace ModVerif.Generated.Tlog; whole-function translation in checked mode:
  every int64 result goes through `chk64`) compute exactly what the hand model (Model/Tlog.lean) says.
  Tie theorems and their non-vacuity examples only; helpers in Proofs/TieFnTlogProof*.lean, Proofs/GoRtLemmasList.lean.

  Conventions.  `H` any hash type, `node : H → H → H`.  Go `error` is `Option String`; the model's error kinds are
  rendered by `errText`: `Err.proofFailed` ↦ "errProofFailed", `Err.invalid` ↦ the function's own
  "tlog: invalid inputs in …" text.  A conclusion `Generated.f … = .ok …` also states: no panic, no fuel exhaustion and
  no int64 overflow on the stated domain.
-/
import ModVerif.Generated.FnTlog
import ModVerif.Model.Tlog
import ModVerif.Proofs.TieFnTlogProofMax
import ModVerif.Proofs.TieFnTlogProofCheck
import ModVerif.Proofs.TlogTH
import ModVerif.Spec.RFC6962
namespace ModVerif.Tie.FnTlogProof
open ModVerif ModVerif.GoRt ModVerif.GoRtList ModVerif.Tlog ModVerif.TlogTH

section
variable {H : Type} [DecidableEq H] [Inhabited H] (node : H → H → H)

/-- `runRecordProof` (the recursive checker of inclusion proofs): for every proof of fewer than 2^63 hashes (a slice
    length is an `int`) and every `0 ≤ lo ≤ n < hi < 2^63`; fuel `hi - lo`. -/
theorem runRecordProof_tie (fuel : Nat) (p : List H) (lo hi n : Int) (leafHash : H)
    (h0 : 0 ≤ lo) (h1 : lo ≤ n) (h2 : n < hi) (h3 : hi < 2 ^ 63) (hp : p.length < 2 ^ 63)
    (hf : (hi - lo).toNat ≤ fuel) :
    Generated.Tlog.runRecordProof node fuel p lo hi n leafHash =
      .ok (encHash (Tlog.runRecordProof node p lo.toNat hi.toNat n.toNat leafHash)) := by
  have e1 : lo = (lo.toNat : Int) := by omega
  have e2 : hi = (hi.toNat : Int) := by omega
  have e3 : n = (n.toNat : Int) := by omega
  rw [e1, e2, e3]
  simp only [Int.toNat_natCast]
  exact runRecordProof_ok node fuel _ p _ _ _ leafHash (by omega) (by omega) (by omega) hp (Nat.le_refl _) (by omega)

/-- non-vacuity: the hypotheses are satisfiable and both sides evaluate (interval [2,7), record 2, one-hash proof) -/
example : Generated.Tlog.runRecordProof TH.node 5 [TH.junk 0] 2 7 2 (TH.leaf [2]) =
    .ok (encHash (Tlog.runRecordProof TH.node [TH.junk 0] 2 7 2 (TH.leaf [2]))) :=
  runRecordProof_tie TH.node 5 [TH.junk 0] 2 7 2 (TH.leaf [2]) (by omega) (by omega) (by omega) (by omega)
    (by simp) (by decide)
example : okIs (Generated.Tlog.runRecordProof TH.node 5 [TH.junk 0] 2 7 2 (TH.leaf [2]))
    (default, some "errProofFailed") = true ∧
    isErr (Tlog.runRecordProof TH.node [TH.junk 0] 2 7 2 (TH.leaf [2])) .proofFailed = true := by decide +kernel

/-- ★ `CheckRecord`: for EVERY `t`, `n` in the int64 range (also negative and out-of-range ones) and every proof. -/
theorem CheckRecord_tie (fuel : Nat) (p : List H) (t : Int) (th : H) (n : Int) (h : H)
    (ht : t < 2 ^ 63) (hp : p.length < 2 ^ 63) (hf : t.toNat ≤ fuel) :
    Generated.Tlog.CheckRecord node fuel p t th n h =
      .ok (encErr "tlog: invalid inputs in CheckRecord" (Tlog.checkRecord node p t th n h)) := by
  unfold Generated.Tlog.CheckRecord Tlog.checkRecord
  by_cases hg : t < 0 ∨ n < 0 ∨ n ≥ t
  · have : (decide (t < 0) || decide (n < 0) || decide (n ≥ t)) = true := by
      rcases hg with h | h | h <;> simp [h]
    simp only [this, if_true, pure_eq_ok, encErr, errText]
  · have : (decide (t < 0) || decide (n < 0) || decide (n ≥ t)) = false := by
      simp; omega
    simp only [this, Bool.false_eq_true, if_false]
    rw [runRecordProof_tie node fuel p 0 t n h (by omega) (by omega) (by omega) ht hp (by omega)]
    simp only [ok_bind, Int.toNat_zero]
    have hc := Tlog.runRecordProofF_clean node (t.toNat - 0) p 0 t.toNat n.toNat h (Nat.zero_le _) (by omega)
      (Nat.le_refl _)
    unfold Tlog.runRecordProof
    rcases hc with hc | ⟨a, hc⟩
    · rw [hc]; rfl
    · rw [hc]
      by_cases hq : a = th
      · simp [encHash, encErr, hq, bind, Except.bind, pure, Except.pure]
      · simp [encHash, encErr, hq, errText, bind, Except.bind, pure, Except.pure]

/-- non-vacuity: an accepted tuple, a rejected tuple and refused arguments, both sides evaluated -/
example : Generated.Tlog.CheckRecord TH.node 7 (RFC6962.path TH.node TH.empty 2 ((recs 7).map TH.leaf)) 7 (root 7) 2
      (TH.leaf [2]) =
    .ok (encErr "tlog: invalid inputs in CheckRecord"
      (Tlog.checkRecord TH.node (RFC6962.path TH.node TH.empty 2 ((recs 7).map TH.leaf)) 7 (root 7) 2 (TH.leaf [2]))) :=
  CheckRecord_tie TH.node 7 _ 7 _ 2 _ (by omega) (by decide +kernel) (by decide)
example :
    okIs (Generated.Tlog.CheckRecord TH.node 7 (RFC6962.path TH.node TH.empty 2 ((recs 7).map TH.leaf)) 7 (root 7) 2
      (TH.leaf [2])) none = true ∧
    isOk (Tlog.checkRecord TH.node (RFC6962.path TH.node TH.empty 2 ((recs 7).map TH.leaf)) 7 (root 7) 2 (TH.leaf [2])) ()
      = true ∧
    okIs (Generated.Tlog.CheckRecord TH.node 7 [TH.junk 0] 7 (root 7) 2 (TH.leaf [2])) (some "errProofFailed") = true ∧
    isErr (Tlog.checkRecord TH.node [TH.junk 0] 7 (root 7) 2 (TH.leaf [2])) .proofFailed = true ∧
    okIs (Generated.Tlog.CheckRecord TH.node 0 [] 7 (root 7) 7 (TH.leaf [2]))
      (some "tlog: invalid inputs in CheckRecord") = true ∧
    isErr (Tlog.checkRecord TH.node [] 7 (root 7) 7 (TH.leaf [2])) .invalid = true := by decide +kernel

/-- `runTreeProof` (the recursive checker of consistency proofs): every proof of fewer than 2^63 hashes, every
    `0 ≤ lo < n ≤ hi < 2^63`; fuel `hi - lo`. -/
theorem runTreeProof_tie (fuel : Nat) (p : List H) (lo hi n : Int) (old : H)
    (h0 : 0 ≤ lo) (h1 : lo < n) (h2 : n ≤ hi) (h3 : hi < 2 ^ 63) (hp : p.length < 2 ^ 63)
    (hf : (hi - lo).toNat ≤ fuel) :
    Generated.Tlog.runTreeProof node fuel p lo hi n old =
      .ok (encHash2 (Tlog.runTreeProof node p lo.toNat hi.toNat n.toNat old)) := by
  have e1 : lo = (lo.toNat : Int) := by omega
  have e2 : hi = (hi.toNat : Int) := by omega
  have e3 : n = (n.toNat : Int) := by omega
  rw [e1, e2, e3]
  simp only [Int.toNat_natCast]
  exact runTreeProof_ok node fuel _ p _ _ _ old (by omega) (by omega) (by omega) hp (Nat.le_refl _) (by omega)

example : Generated.Tlog.runTreeProof TH.node 7 [TH.junk 0] 0 7 3 (root 3) =
    .ok (encHash2 (Tlog.runTreeProof TH.node [TH.junk 0] 0 7 3 (root 3))) :=
  runTreeProof_tie TH.node 7 [TH.junk 0] 0 7 3 (root 3) (by omega) (by omega) (by omega) (by omega) (by simp) (by decide)
example : okIs (Generated.Tlog.runTreeProof TH.node 7 [TH.junk 0] 0 7 3 (root 3))
    (default, default, some "errProofFailed") = true ∧
    isErr (Tlog.runTreeProof TH.node [TH.junk 0] 0 7 3 (root 3)) .proofFailed = true := by decide +kernel

/-- ★ `CheckTree`: for EVERY `t`, `n` in the int64 range and every proof. -/
theorem CheckTree_tie (fuel : Nat) (p : List H) (t : Int) (th : H) (n : Int) (h : H)
    (ht : t < 2 ^ 63) (hp : p.length < 2 ^ 63) (hf : t.toNat ≤ fuel) :
    Generated.Tlog.CheckTree node fuel p t th n h =
      .ok (encErr "tlog: invalid inputs in CheckTree" (Tlog.checkTree node p t th n h)) := by
  unfold Generated.Tlog.CheckTree Tlog.checkTree
  by_cases hg : t < 1 ∨ n < 1 ∨ n > t
  · have : (decide (t < 1) || decide (n < 1) || decide (n > t)) = true := by
      rcases hg with h | h | h <;> simp [h]
    simp only [this, if_true, pure_eq_ok, encErr, errText]
  · have : (decide (t < 1) || decide (n < 1) || decide (n > t)) = false := by
      simp; omega
    simp only [this, Bool.false_eq_true, if_false]
    rw [runTreeProof_tie node fuel p 0 t n h (by omega) (by omega) (by omega) ht hp (by omega)]
    simp only [ok_bind, Int.toNat_zero]
    have hc := Tlog.runTreeProofF_clean node (t.toNat - 0) p 0 t.toNat n.toNat h (by omega) (by omega)
      (Nat.le_refl _)
    unfold Tlog.runTreeProof
    rcases hc with hc | ⟨a, hc⟩
    · rw [hc]; rfl
    · rw [hc]
      obtain ⟨h2, th2⟩ := a
      by_cases hq : th2 = th ∧ h2 = h
      · simp [encHash2, encErr, hq, bind, Except.bind, pure, Except.pure]
      · have hq' : th2 = th → ¬ h2 = h := fun a b => hq ⟨a, b⟩
        simp [encHash2, encErr, hq, errText, bind, Except.bind, pure, Except.pure]
        intro a; exact decide_eq_false (hq' (of_decide_eq_true a))

example : Generated.Tlog.CheckTree TH.node 7 (RFC6962.proof TH.node TH.empty 3 ((recs 7).map TH.leaf)) 7 (root 7) 3
      (root 3) =
    .ok (encErr "tlog: invalid inputs in CheckTree"
      (Tlog.checkTree TH.node (RFC6962.proof TH.node TH.empty 3 ((recs 7).map TH.leaf)) 7 (root 7) 3 (root 3))) :=
  CheckTree_tie TH.node 7 _ 7 _ 3 _ (by omega) (by decide +kernel) (by decide)
example :
    okIs (Generated.Tlog.CheckTree TH.node 7 (RFC6962.proof TH.node TH.empty 3 ((recs 7).map TH.leaf)) 7 (root 7) 3
      (root 3)) none = true ∧
    isOk (Tlog.checkTree TH.node (RFC6962.proof TH.node TH.empty 3 ((recs 7).map TH.leaf)) 7 (root 7) 3 (root 3)) ()
      = true ∧
    okIs (Generated.Tlog.CheckTree TH.node 7 (RFC6962.proof TH.node TH.empty 3 ((recs 7).map TH.leaf)) 7 (root 7) 3
      (root 2)) (some "errProofFailed") = true ∧
    isErr (Tlog.checkTree TH.node (RFC6962.proof TH.node TH.empty 3 ((recs 7).map TH.leaf)) 7 (root 7) 3 (root 2))
      .proofFailed = true ∧
    okIs (Generated.Tlog.CheckTree TH.node 0 [] 7 (root 7) 8 (root 3)) (some "tlog: invalid inputs in CheckTree") = true ∧
    isErr (Tlog.checkTree TH.node [] 7 (root 7) 8 (root 3)) .invalid = true := by decide +kernel

end
end ModVerif.Tie.FnTlogProof
