/-
  Tie theorems, zip/zip.go `checkZip` (lines 417–505) and `Unzip` (lines 840–906): the definitions regenerated from the Go
  source by go2lean (`Generated/FnZip.lean`: `checkZip` with closure `checkZip_addError` and loop `checkZip_loop1`; `Unzip`
  with loop `Unzip_loop1`, the file system threaded as a world value `GoRt.FsW`) compute exactly what the hand model
  (`Zip.checkZip` / `Zip.unzip`, Model/Zip.lean) says — for every module path/version, archive size, entry list and
  target state; no panic, no fuel exhaustion.  C12 rests on these two functions.

  Instantiation (the one of the driver, `Drv/GenZipIO.lean`):
  * an archive entry `Zip.Entry` is `toZEntry e`; the opened archive is `osFileOf zs es` (Stat succeeds with size `zs`,
    `zip.NewReader` yields the entries); the world before `Unzip` is `world0 d t zs es` (`target := targetCode t`, no
    effects yet);
  * `module.CheckFilePath` is `cfpOf E`; `module.CanonicalVersion` / `module.Check` are any functions with
    `(canonicalVersion v = v ∧ moduleCheck p v = none) ↔ E.modOK p v = true`; `strings.EqualFold(·, "go.mod")` and
    `unicode.SimpleFold` as in the checkFiles tie (`hef`, `FoldsTo simpleFold K`, `E.toFold = Zip.strToFold`).

  Hypotheses beyond the instantiation:
  * `hrel : ∀ p, E.cfp p = true → isAbs p = false` — `CheckFilePath` rejects absolute paths (implied by the model's
    `CfpSound`, `cfpRel_of_cfpSound`; `unzip_confined` of Props/C12 carries `CfpSound`).  `checkZip` has no `path.IsAbs` test
    of its own: on an accepted clean absolute name `collisionChecker.check` recurses for ever in Go, the model reports
    `Reason.panic`, the generated function runs out of fuel (tie-zip's `collisionChecker_check_tie_outOfFuel`).
  * `hsz : every declSize < 2^64` — `UncompressedSize64` is a uint64; then GoRt's `toI64` is the model's `int64OfU64`
    (values ≥ 2^63 are negative on both sides: size error).

  Errors: the generated errors are texts.  `checkZip` returns `cf.err.map (errKindText txt)` (`"FileErrorList"` / the text of
  the size error, `sizeTextOf zs` = one of the two `fmt.Errorf` literals), the report is `embCFZ txt cf` (entries of
  `Invalid` carry `reasonTextZ r`); for a rejected module path/version the error is `modErr canonicalVersion moduleCheck p v`
  and the report is empty.  `Unzip` returns `uerrText …` = `wrapErr "zipError" (uerrInner …)` of the model's `UnzipErr` (the texts the driver's
  classifier `Drv.GenZipIO.unzipErr` maps back to the model's kinds; that classification is exercised by the correspondence
  run, not proved: the kernel does not evaluate `String.splitOn`).
-/
import ModVerif.Generated.FnZip
import ModVerif.Model.Zip
import ModVerif.Drv.GenZipIO
import ModVerif.Tie.FnZip
import ModVerif.Proofs.TieFnZipIOUnzipCz
import ModVerif.Proofs.TieFnZipIOUnzipLoop
namespace ModVerif.Tie.FnZipIOUnzip
open ModVerif ModVerif.GoRt ModVerif.GoRtZip ModVerif.TieFnZip ModVerif.TieFnZipCf ModVerif.TieFnZipIOUnzip
open ModVerif.Drv.GenZipIO (toZEntry toEffect targetCode entriesFuel)
open ModVerif.Drv.GenZip (simpleFoldI)

/-- the model's assumption on `CheckFilePath` (no empty, `.` or `..` element) implies the one the tie needs -/
theorem cfpRel_of_cfpSound (cfp : Bytes → Bool) (h : ZipSpec.CfpSound cfp) :
    ∀ p, cfp p = true → PathClean.isAbs p = false := by
  intro p hp
  unfold PathClean.isAbs PathClean.isRooted
  split
  · have := (h _ hp [] (by simp [splitOn])).1
    exact absurd rfl this
  · rfl

section
variable (canonicalVersion : Bytes → Bytes) (equalFold : Bytes → Bytes → Bool)
  (moduleCheck : Bytes → Bytes → Option String) (simpleFold : Int → Int)

/-! ### checkZip -/

/-- `checkZip(m, f)` for every module version, archive size and entry list: the reader, the model's report and the model's
    error; for a rejected module path / version the error of the module check and an empty report.
    Fuel: `fuelBoundZ K es = len(es) + 3 * (longest name) + K + 6`. -/
theorem checkZip_tie (E : Zip.Env) (K : Nat) (hsf : FoldsTo simpleFold K) (hE : E.toFold = Zip.strToFold)
    (hef : ∀ s, equalFold s Zip.goModName = Zip.equalFoldGoMod s)
    (hrel : ∀ p, E.cfp p = true → PathClean.isAbs p = false) (p v : Bytes)
    (hmod : (canonicalVersion v = v ∧ moduleCheck p v = none) ↔ E.modOK p v = true)
    (zs : Nat) (es : List Zip.Entry) (hsz : ∀ e ∈ es, e.declSize < 2 ^ 64) (fuel : Nat)
    (hfuel : fuelBoundZ K es ≤ fuel) :
    Generated.Zip.checkZip canonicalVersion (cfpOf E) equalFold moduleCheck simpleFold fuel ⟨p, v⟩ (osFileOf zs es) =
      match Zip.checkZip E p v zs es with
      | .ok cf => .ok (readerOf zs es, embCFZ (sizeTextOf zs) cf, cf.err.map (errKindText (sizeTextOf zs)))
      | .error _ => .ok (default, default, modErr canonicalVersion moduleCheck p v) :=
  checkZip_eq canonicalVersion equalFold moduleCheck simpleFold E K hsf hE hef hrel p v
    ((modErr_none_iff _ _ p v).trans hmod) zs es hsz fuel hfuel

/-- the accepted-module case: `Zip.checkZip = .ok cf` -/
theorem checkZip_tie_ok (E : Zip.Env) (K : Nat) (hsf : FoldsTo simpleFold K) (hE : E.toFold = Zip.strToFold)
    (hef : ∀ s, equalFold s Zip.goModName = Zip.equalFoldGoMod s)
    (hrel : ∀ p, E.cfp p = true → PathClean.isAbs p = false) (p v : Bytes)
    (hmod : (canonicalVersion v = v ∧ moduleCheck p v = none) ↔ E.modOK p v = true)
    (zs : Nat) (es : List Zip.Entry) (hsz : ∀ e ∈ es, e.declSize < 2 ^ 64) (fuel : Nat)
    (hfuel : fuelBoundZ K es ≤ fuel) (cf : Zip.CheckedFiles) (hcf : Zip.checkZip E p v zs es = .ok cf) :
    Generated.Zip.checkZip canonicalVersion (cfpOf E) equalFold moduleCheck simpleFold fuel ⟨p, v⟩ (osFileOf zs es) =
      .ok (readerOf zs es, embCFZ (sizeTextOf zs) cf, cf.err.map (errKindText (sizeTextOf zs))) := by
  rw [checkZip_tie canonicalVersion equalFold moduleCheck simpleFold E K hsf hE hef hrel p v hmod zs es hsz fuel hfuel,
    hcf]

/-- the rejected-module case: an error (the one of the canonical-version test or of `module.Check`) and an empty report -/
theorem checkZip_tie_badModule (E : Zip.Env) (K : Nat) (hsf : FoldsTo simpleFold K) (hE : E.toFold = Zip.strToFold)
    (hef : ∀ s, equalFold s Zip.goModName = Zip.equalFoldGoMod s)
    (hrel : ∀ p, E.cfp p = true → PathClean.isAbs p = false) (p v : Bytes)
    (hmod : (canonicalVersion v = v ∧ moduleCheck p v = none) ↔ E.modOK p v = true)
    (zs : Nat) (es : List Zip.Entry) (hsz : ∀ e ∈ es, e.declSize < 2 ^ 64) (fuel : Nat)
    (hfuel : fuelBoundZ K es ≤ fuel) (hcf : Zip.checkZip E p v zs es = .error .badModule) :
    Generated.Zip.checkZip canonicalVersion (cfpOf E) equalFold moduleCheck simpleFold fuel ⟨p, v⟩ (osFileOf zs es) =
        .ok (default, default, modErr canonicalVersion moduleCheck p v) ∧
      modErr canonicalVersion moduleCheck p v ≠ none := by
  rw [checkZip_tie canonicalVersion equalFold moduleCheck simpleFold E K hsf hE hef hrel p v hmod zs es hsz fuel hfuel,
    hcf]
  refine ⟨rfl, fun h => ?_⟩
  have hm := hmod.mp ((modErr_none_iff _ _ p v).mp h)
  unfold Zip.checkZip at hcf
  simp [hm] at hcf
  split at hcf <;> cases hcf

/-! ### Unzip -/

/-- `Unzip(dir, m, zipFile)` from the world `world0 d t zs es`: the returned error is the model's (as `uerrText`) and the
    effects performed (the world's `fx`, through the driver's `toEffect`) are the model's effect list.  No precondition on
    the target: `os.ReadDir` fails for a missing target or a file (ignored by the Go code), `os.MkdirAll(dir)` fails for a
    file (`targetCode .notDir = 3`), as in the model. -/
theorem Unzip_tie (E : Zip.Env) (K : Nat) (hsf : FoldsTo simpleFold K) (hE : E.toFold = Zip.strToFold)
    (hef : ∀ s, equalFold s Zip.goModName = Zip.equalFoldGoMod s)
    (hrel : ∀ p, E.cfp p = true → PathClean.isAbs p = false) (d p v zipFile : Bytes)
    (hmod : (canonicalVersion v = v ∧ moduleCheck p v = none) ↔ E.modOK p v = true)
    (zs : Nat) (es : List Zip.Entry) (hsz : ∀ e ∈ es, e.declSize < 2 ^ 64) (t : Zip.Target) (fuel : Nat)
    (hfuel : fuelBoundZ K es ≤ fuel) :
    (Generated.Zip.Unzip canonicalVersion (cfpOf E) equalFold moduleCheck simpleFold fuel d ⟨p, v⟩ zipFile
        (world0 d t zs es)).map (fun r => (r.1, r.2.fx.map toEffect)) =
      .ok ((Zip.unzip E d t p v zs es).err.bind (uerrText (modErr canonicalVersion moduleCheck p v) zs),
        (Zip.unzip E d t p v zs es).effects) :=
  Unzip_eq canonicalVersion equalFold moduleCheck simpleFold E K hsf hE hef hrel d p v zipFile
    ((modErr_none_iff _ _ p v).trans hmod) zs es hsz t fuel hfuel

/-- the same without the projection: the call returns some error value and world, which are the model's -/
theorem Unzip_tie_result (E : Zip.Env) (K : Nat) (hsf : FoldsTo simpleFold K) (hE : E.toFold = Zip.strToFold)
    (hef : ∀ s, equalFold s Zip.goModName = Zip.equalFoldGoMod s)
    (hrel : ∀ p, E.cfp p = true → PathClean.isAbs p = false) (d p v zipFile : Bytes)
    (hmod : (canonicalVersion v = v ∧ moduleCheck p v = none) ↔ E.modOK p v = true)
    (zs : Nat) (es : List Zip.Entry) (hsz : ∀ e ∈ es, e.declSize < 2 ^ 64) (t : Zip.Target) (fuel : Nat)
    (hfuel : fuelBoundZ K es ≤ fuel) :
    ∃ err w, Generated.Zip.Unzip canonicalVersion (cfpOf E) equalFold moduleCheck simpleFold fuel d ⟨p, v⟩ zipFile
        (world0 d t zs es) = .ok (err, w) ∧
      err = (Zip.unzip E d t p v zs es).err.bind (uerrText (modErr canonicalVersion moduleCheck p v) zs) ∧
      (err = none ↔ (Zip.unzip E d t p v zs es).err = none) ∧
      w.fx.map toEffect = (Zip.unzip E d t p v zs es).effects := by
  have h := Unzip_tie canonicalVersion equalFold moduleCheck simpleFold E K hsf hE hef hrel d p v zipFile hmod zs es hsz
    t fuel hfuel
  cases hu : Generated.Zip.Unzip canonicalVersion (cfpOf E) equalFold moduleCheck simpleFold fuel d ⟨p, v⟩ zipFile
      (world0 d t zs es) with
  | error x => rw [hu] at h; cases h
  | ok r =>
    obtain ⟨err, w⟩ := r
    rw [hu] at h
    simp only [Except.map, Except.ok.injEq, Prod.mk.injEq] at h
    refine ⟨err, w, rfl, h.1, ?_, h.2⟩
    rw [h.1]
    cases (Zip.unzip E d t p v zs es).err with
    | none => simp
    | some k => simp [uerrText, wrapErr]

end

/-! ### the driver's instance -/

/-- `module.Check` as the driver wraps the model's boolean -/
def mchkOf (mcheck : Bytes → Bytes → Bool) : Bytes → Bytes → Option String :=
  fun p v => if mcheck p v then none else some "badmodule"

theorem fuelBoundZ_le_entriesFuel (es : List Zip.Entry) : fuelBoundZ 1 es ≤ entriesFuel es := by
  unfold fuelBoundZ entriesFuel
  have := maxNameLen_le_sum es
  omega

/-- `Unzip` as the driver (`Drv.GenZipIO.handle`, op `unzip`) runs it: `simpleFoldI`, its fuel, `module.Check` wrapped from
    a boolean, any `canon` — for an environment whose `modOK` is that module check -/
theorem Unzip_tie_driver (E : Zip.Env) (hE : E.toFold = Zip.strToFold) (equalFold : Bytes → Bytes → Bool)
    (hef : ∀ s, equalFold s Zip.goModName = Zip.equalFoldGoMod s)
    (hrel : ∀ p, E.cfp p = true → PathClean.isAbs p = false) (canon : Bytes → Bytes) (mcheck : Bytes → Bytes → Bool)
    (hmod : ∀ p v, E.modOK p v = (decide (canon v = v) && mcheck p v)) (d p v zipFile : Bytes)
    (zs : Nat) (es : List Zip.Entry) (hsz : ∀ e ∈ es, e.declSize < 2 ^ 64) (t : Zip.Target) :
    (Generated.Zip.Unzip canon (cfpOf E) equalFold (mchkOf mcheck) simpleFoldI (entriesFuel es) d ⟨p, v⟩ zipFile
        (world0 d t zs es)).map (fun r => (r.1, r.2.fx.map toEffect)) =
      .ok ((Zip.unzip E d t p v zs es).err.bind (uerrText (modErr canon (mchkOf mcheck) p v) zs),
        (Zip.unzip E d t p v zs es).effects) := by
  apply Unzip_tie canon equalFold (mchkOf mcheck) simpleFoldI E 1 FnZip.foldsTo_simpleFoldI hE hef hrel d p v zipFile _
    zs es hsz t _ (fuelBoundZ_le_entriesFuel es)
  rw [hmod]
  unfold mchkOf
  cases mcheck p v <;> simp

/-- `checkZip` as the driver runs it (op `checkzip`) -/
theorem checkZip_tie_driver (E : Zip.Env) (hE : E.toFold = Zip.strToFold) (equalFold : Bytes → Bytes → Bool)
    (hef : ∀ s, equalFold s Zip.goModName = Zip.equalFoldGoMod s)
    (hrel : ∀ p, E.cfp p = true → PathClean.isAbs p = false) (canon : Bytes → Bytes) (mcheck : Bytes → Bytes → Bool)
    (hmod : ∀ p v, E.modOK p v = (decide (canon v = v) && mcheck p v)) (p v : Bytes)
    (zs : Nat) (es : List Zip.Entry) (hsz : ∀ e ∈ es, e.declSize < 2 ^ 64) :
    Generated.Zip.checkZip canon (cfpOf E) equalFold (mchkOf mcheck) simpleFoldI (entriesFuel es) ⟨p, v⟩
        (osFileOf zs es) =
      match Zip.checkZip E p v zs es with
      | .ok cf => .ok (readerOf zs es, embCFZ (sizeTextOf zs) cf, cf.err.map (errKindText (sizeTextOf zs)))
      | .error _ => .ok (default, default, modErr canon (mchkOf mcheck) p v) := by
  apply checkZip_tie canon equalFold (mchkOf mcheck) simpleFoldI E 1 FnZip.foldsTo_simpleFoldI hE hef hrel p v _
    zs es hsz _ (fuelBoundZ_le_entriesFuel es)
  rw [hmod]
  unfold mchkOf
  cases mcheck p v <;> simp

/-! ### non-vacuity -/

def exEnv : Zip.Env :=
  { cfp := fun p => !p.isEmpty && (splitOn 47 p).all (fun c => c != [] && c != [46] && c != [46, 46]),
    toFold := Zip.strToFold, modOK := fun _ _ => true }

def exEntries : List Zip.Entry :=
  [⟨B "m@v1/go.mod", 2, B "hi"⟩, ⟨B "m@v1/a/", 0, []⟩, ⟨B "m@v1/a/b.go", 1, B "x"⟩]

/-- a lying size, a name with `..`, a case collision, a go.mod outside the root -/
def exBad : List Zip.Entry :=
  [⟨B "m@v1/a.go", 2, B "x"⟩, ⟨B "m@v1/../x", 1, B "x"⟩, ⟨B "m@v1/A.go", 1, B "y"⟩, ⟨B "m@v1/s/go.mod", 0, []⟩,
   ⟨B "other/x", 0, []⟩]

theorem exEnv_rel : ∀ p, exEnv.cfp p = true → PathClean.isAbs p = false := by
  apply cfpRel_of_cfpSound
  intro p hp c hc
  have h2 : ((splitOn 47 p).all (fun c => c != [] && c != [46] && c != [46, 46])) = true := by
    simp only [exEnv, Bool.and_eq_true] at hp; exact hp.2
  have := List.all_eq_true.mp h2 c hc
  simp at this
  exact ⟨this.1.1, this.1.2, this.2⟩

/-- the generated `checkZip` and the model agree on the examples (both sides evaluated by the kernel) -/
example : Generated.Zip.checkZip id (cfpOf exEnv) (fun a _ => Zip.equalFoldGoMod a) (mchkOf fun _ _ => true) simpleFoldI
      (entriesFuel exBad) ⟨B "m", B "v1"⟩ (osFileOf 100 exBad) =
    match Zip.checkZip exEnv (B "m") (B "v1") 100 exBad with
    | .ok cf => .ok (readerOf 100 exBad, embCFZ (sizeTextOf 100) cf, cf.err.map (errKindText (sizeTextOf 100)))
    | .error _ => .ok (default, default, none) := by decide +kernel

example : (Zip.checkZip exEnv (B "m") (B "v1") 100 exBad).toOption.map (fun cf => embCFZ totalSizeText cf) =
    some { Valid := [B "m@v1/a.go"], Omitted := [],
           Invalid := [⟨B "m@v1/../x", some "filepath"⟩,
             ⟨B "m@v1/A.go", some "case-insensitive file name collision: %q and %q"⟩,
             ⟨B "m@v1/s/go.mod", some "go.mod file not in module root directory"⟩,
             ⟨B "other/x", some "path does not have prefix %q"⟩],
           SizeError := none } := by decide +kernel

/-- a good archive into a missing target: no error, and the effects of the model -/
example : (Generated.Zip.Unzip id (cfpOf exEnv) (fun a _ => Zip.equalFoldGoMod a) (mchkOf fun _ _ => true) simpleFoldI
      (entriesFuel exEntries) (B "t") ⟨B "m", B "v1"⟩ (B "z") (world0 (B "t") .missing 100 exEntries)).map
        (fun r => (r.1, r.2.fx.map toEffect)) =
    .ok (none, [.mkdirAll (B "t"), .mkdirAll (B "t"), .createExcl (B "t/go.mod") (some (B "hi")),
       .mkdirAll (B "t/a"), .createExcl (B "t/a/b.go") (some (B "x"))]) ∧
    (Zip.unzip exEnv (B "t") .missing (B "m") (B "v1") 100 exEntries).err = none := by decide +kernel

/-- a lying size: the file is created, the copy fails -/
example : (Generated.Zip.Unzip id (cfpOf exEnv) (fun a _ => Zip.equalFoldGoMod a) (mchkOf fun _ _ => true) simpleFoldI
      64 (B "t") ⟨B "m", B "v1"⟩ (B "z") (world0 (B "t") .emptyDir 100 [⟨B "m@v1/a.go", 2, B "x"⟩])).map
        (fun r => (r.1, r.2.fx.map toEffect)) =
    .ok (some "zipError|zip: format error",
      [.mkdirAll (B "t"), .mkdirAll (B "t"), .createExcl (B "t/a.go") none]) ∧
    (Zip.unzip exEnv (B "t") .emptyDir (B "m") (B "v1") 100 [⟨B "m@v1/a.go", 2, B "x"⟩]).err = some .contentSize := by
  decide +kernel

/-- a rejected archive, a non-empty target, a target that is a file: nothing is written -/
example : (Generated.Zip.Unzip id (cfpOf exEnv) (fun a _ => Zip.equalFoldGoMod a) (mchkOf fun _ _ => true) simpleFoldI
      (entriesFuel exBad) (B "t") ⟨B "m", B "v1"⟩ (B "z") (world0 (B "t") .missing 100 exBad)).map
        (fun r => (r.1, r.2.fx.map toEffect)) = .ok (some "zipError|FileErrorList", []) ∧
    (Generated.Zip.Unzip id (cfpOf exEnv) (fun a _ => Zip.equalFoldGoMod a) (mchkOf fun _ _ => true) simpleFoldI
      (entriesFuel exEntries) (B "t") ⟨B "m", B "v1"⟩ (B "z") (world0 (B "t") .nonEmptyDir 100 exEntries)).map
        (fun r => (r.1, r.2.fx.map toEffect)) =
      .ok (some "zipError|target directory %v exists and is not empty", []) ∧
    (Generated.Zip.Unzip id (cfpOf exEnv) (fun a _ => Zip.equalFoldGoMod a) (mchkOf fun _ _ => true) simpleFoldI
      (entriesFuel exEntries) (B "t") ⟨B "m", B "v1"⟩ (B "z") (world0 (B "t") .notDir 100 exEntries)).map
        (fun r => (r.1, r.2.fx.map toEffect)) = .ok (some "zipError|mkdir: not a directory", []) := by decide +kernel

/-- the hypotheses of the ties hold for the example environment -/
example : exEnv.toFold = Zip.strToFold ∧ (∀ p, exEnv.cfp p = true → PathClean.isAbs p = false) ∧
    (∀ e ∈ exEntries ++ exBad, e.declSize < 2 ^ 64) :=
  ⟨rfl, exEnv_rel, by decide +kernel⟩

end ModVerif.Tie.FnZipIOUnzip
