/-
  Tie: the LEAF and simple TREE functions of the regenerated go.mod / go.work edit operations (Generated/FnEdit.lean,
  namespace ModVerif.Generated.Edit, re-translated from modfile/read.go and modfile/rule.go on every check; the pointer
  graph is a heap) compute what the hand model Model/Modfile/Edit.lean says.

  Shape.  The functions that work on a `*Line` are stated on a heap whose line object at the pointer is `lineG l`, the
  embedding of a model line `l` (Proofs/TieFnEditRep.lean; in a represented heap EVERY allocated line object is one,
  `LinesG`): the result is an EQUATION giving the heap after the call, `setLineH h p (g l)`, with `g` the model's line
  function (`markRemovedLine`, `updateTokLine tokens`, `Edit.setVersionLine v`, `Edit.setIndirectLine b`).  The `_rep`
  corollaries say what that means for a represented syntax graph (`RepSyn`: the graph now represents
  `Edit.markRemoved fs p` / `Edit.updateLine fs p tokens` / `fs.updateLine p g`), the `_sim` corollaries are the simulation
  step on a represented FILE (`RepFAt`), the `_nil` / `_panic` theorems give Go's panics (nil `*Line`, `tokens[1:]` of an
  empty token list, a cleared `Require` whose `Syntax` is nil = the model's `EditErr.nilDeref` at the caller).
  No fuel: these functions have no loops.  The pure functions regenerated once more in this unit (`MustQuote`,
  `AutoQuote`, `checkCanonicalVersion`) are the definitions of Generated/FnModfile.lean, and the block comparators read
  the two line objects from the heap and then are the value versions of Generated/FnModfile.lean: their ties
  (Tie/FnModfile.lean, Tie/FnModfileCmp.lean) are transported, same fuel bounds.

  Helper lemmas: Proofs/TieFnEditRep.lean, Proofs/TieFnEditTreeA.lean, TieFnEditTreeB.lean, TieFnEditTreeC.lean; examples:
  Proofs/TieFnEditTreeEx.lean.
-/
import ModVerif.Generated.FnEdit
import ModVerif.Model.Modfile.Edit
import ModVerif.Proofs.TieFnEditRep
import ModVerif.Proofs.TieFnEditTreeA
import ModVerif.Proofs.TieFnEditTreeB
import ModVerif.Proofs.TieFnEditTreeC
import ModVerif.Proofs.TieFnEditTreeEx
import ModVerif.Proofs.TieFnEditLoadParse
set_option linter.unusedSimpArgs false
set_option linter.unusedVariables false
namespace ModVerif.Tie.FnEditTree
open ModVerif ModVerif.GoRt ModVerif.Generated.Edit ModVerif.Tie.FnEditRep ModVerif.Tie.FnEditTreeA ModVerif.Tie.FnEditTreeEx
open ModVerif.Drv.GenEdit (isPrintI quoteI)

/-! ### commentsAdd, stringsAdd (read.go:251, 255): `append(x[:len(x):len(x)], y...)` -/

theorem commentsAdd_tie (x y : List Comment) : commentsAdd x y = .ok (x ++ y) := commentsAdd_eq x y

example : commentsAdd [{ (default : Comment) with Token := B "// a" }] [{ (default : Comment) with Token := B "// b" }] =
    .ok [{ (default : Comment) with Token := B "// a" }, { (default : Comment) with Token := B "// b" }] := by decide +kernel

theorem stringsAdd_tie (x y : List Bytes) : stringsAdd x y = .ok (x ++ y) := stringsAdd_eq x y

example : stringsAdd [B "require"] [B "a.b/c", B "v1.0.0"] = .ok [B "require", B "a.b/c", B "v1.0.0"] := by decide +kernel

/-! ### Line.markRemoved (read.go:199) = the model's `markRemoved` -/

/-- the heap after `line.markRemoved()`: `Token = nil`, `Comments.Suffix = nil` -/
theorem Line_markRemoved_tie {h : Heap} {p : Int} {l : Modfile.Line} (hg : heapGet h.lines p = .ok (lineG l)) :
    Line_markRemoved p h = .ok ((), setLineH h p (markRemovedLine l)) := Line_markRemoved_eq hg

/-- a nil `*Line` -/
theorem Line_markRemoved_panic {h : Heap} {p : Int} (hp : p ≤ 0) : Line_markRemoved p h = .error .panic :=
  Line_markRemoved_nil hp

/-- on a represented syntax graph (the line may or may not be in the graph) -/
theorem Line_markRemoved_rep {h : Heap} {x p : Int} {fs : Modfile.FileSyntax} {l : Modfile.Line} (r : RepSyn h x fs)
    (hg : heapGet h.lines p = .ok (lineG l)) :
    RepSyn (setLineH h p (markRemovedLine l)) x (Modfile.Edit.markRemoved fs p.toNat) := by
  rw [markRemoved_eq]; exact r.setLineH IdEquiv_markRemoved hg

/-- simulation step on a represented file: any allocated line pointer -/
theorem Line_markRemoved_sim {h : Heap} {o : File} {e : Modfile.Edit.EFile} (R : RepFAt h o e) {p : Int} (hp : 0 < p)
    (hl : p.toNat ≤ h.lines.length) :
    ∃ h', Line_markRemoved p h = .ok ((), h') ∧ h'.mods = h.mods ∧
      RepFAt h' o { e with f := { e.f with syn := Modfile.Edit.markRemoved e.f.syn p.toNat } } := by
  obtain ⟨l, hg⟩ := R.linesG.get hp hl
  exact ⟨_, Line_markRemoved_eq hg, rfl, R.setLine IdEquiv_markRemoved hg⟩

-- the second line of the require block (pointer 3) is removed
example : runSyn exFile (fun _ h => Line_markRemoved 3 h) =
    modelSyn exFile (fun e => (Modfile.Edit.markRemoved e.f.syn 3, e.f.require)) := by decide +kernel
example : runVal exFile (fun _ h => (Line_markRemoved 0 h).map fun _ => ()) = none := by decide +kernel

/-! ### FileSyntax.updateLine (read.go:190) = the model's `updateLine` -/

/-- `line.Token = tokens` (`tokens[1:]` for a line in a block) -/
theorem FileSyntax_updateLine_tie {h : Heap} {x p : Int} {l : Modfile.Line} {tokens : List Bytes}
    (hg : heapGet h.lines p = .ok (lineG l)) (ht : l.inBlock = true → tokens ≠ []) :
    FileSyntax_updateLine x p tokens h = .ok ((), setLineH h p (updateTokLine tokens l)) := FileSyntax_updateLine_eq hg ht

/-- Go's `tokens[1:]` on an empty list (the model's `drop 1` is total; no caller passes `[]`), and a nil `*Line` -/
theorem FileSyntax_updateLine_panic {h : Heap} {x p : Int} :
    (∀ l : Modfile.Line, heapGet h.lines p = .ok (lineG l) → l.inBlock = true → FileSyntax_updateLine x p [] h = .error .panic) ∧
    (∀ tokens, p ≤ 0 → FileSyntax_updateLine x p tokens h = .error .panic) :=
  ⟨fun l hg hb => FnEditTreeA.FileSyntax_updateLine_panic hg hb, fun tokens hp => FileSyntax_updateLine_nil tokens hp⟩

theorem FileSyntax_updateLine_rep {h : Heap} {x p : Int} {fs : Modfile.FileSyntax} {l : Modfile.Line} (r : RepSyn h x fs)
    (tokens : List Bytes) (hg : heapGet h.lines p = .ok (lineG l)) :
    RepSyn (setLineH h p (updateTokLine tokens l)) x (Modfile.Edit.updateLine fs p.toNat tokens) := by
  rw [updateLine_eq]; exact r.setLineH (IdEquiv_updateTok tokens) hg

theorem FileSyntax_updateLine_sim {h : Heap} {o : File} {e : Modfile.Edit.EFile} (R : RepFAt h o e) {x p : Int} (hp : 0 < p)
    (hl : p.toNat ≤ h.lines.length) {tokens : List Bytes} (ht : tokens ≠ []) :
    ∃ h', FileSyntax_updateLine x p tokens h = .ok ((), h') ∧ h'.mods = h.mods ∧
      RepFAt h' o { e with f := { e.f with syn := Modfile.Edit.updateLine e.f.syn p.toNat tokens } } := by
  obtain ⟨l, hg⟩ := R.linesG.get hp hl
  exact ⟨_, FileSyntax_updateLine_eq hg (fun _ => ht), rfl, R.setLine (IdEquiv_updateTok tokens) hg⟩

-- the module line (top level) and the first require line (in a block: the verb is dropped)
example : runSyn exFile (fun _ h => FileSyntax_updateLine 1 1 [B "module", B "n"] h) =
    modelSyn exFile (fun e => (Modfile.Edit.updateLine e.f.syn 1 [B "module", B "n"], e.f.require)) := by decide +kernel
example : runSyn exFile (fun _ h => FileSyntax_updateLine 1 2 [B "require", B "a.b/c", B "v1.1.0"] h) =
    modelSyn exFile (fun e => (Modfile.Edit.updateLine e.f.syn 2 [B "require", B "a.b/c", B "v1.1.0"], e.f.require)) := by
  decide +kernel
example : runVal exFile (fun _ h => (FileSyntax_updateLine 1 2 [] h).map fun _ => ()) = none := by decide +kernel

/-! ### isIndirect (rule.go:190) = the model's `isIndirect` -/

theorem isIndirect_tie {h : Heap} {p : Int} {l : Modfile.Line} (hg : heapGet h.lines p = .ok (lineG l)) :
    isIndirect p h = .ok (Modfile.isIndirect l, h) := isIndirect_eq hg

theorem isIndirect_panic {h : Heap} {p : Int} (hp : p ≤ 0) : isIndirect p h = .error .panic := isIndirect_nil hp

/-- on a represented syntax graph: the line with the id `id` -/
theorem isIndirect_rep {h : Heap} {x : Int} {fs : Modfile.FileSyntax} (r : RepSyn h x fs) {id : Nat} {l : Modfile.Line}
    (hf : fs.findLine id = some l) : isIndirect (id : Int) h = .ok (Modfile.isIndirect l, h) :=
  isIndirect_eq (r.findLine hf).1

example : runVal exFile (fun _ h => (isIndirect 3 h).map (·.1)) = modelVal exFile (fun e => (e.f.syn.findLine 3).map Modfile.isIndirect) ∧
    runVal exFile (fun _ h => (isIndirect 3 h).map (·.1)) = some true ∧
    runVal exFile (fun _ h => (isIndirect 2 h).map (·.1)) = modelVal exFile (fun e => (e.f.syn.findLine 2).map Modfile.isIndirect) ∧
    runVal exFile (fun _ h => (isIndirect 2 h).map (·.1)) = some false := by decide +kernel

/-! ### Require.markRemoved (rule.go:118): `r.Syntax.markRemoved(); *r = Require{}` -/

theorem Require_markRemoved_tie {h : Heap} {r : Int} {rq : Modfile.Require} {l : Modfile.Line}
    (hr : heapGet h.requires r = .ok (requireG rq)) (hg : heapGet h.lines (rq.lineId : Int) = .ok (lineG l)) :
    Require_markRemoved r h =
      .ok ((), { setLineH h (rq.lineId : Int) (markRemovedLine l) with
                   requires := h.requires.set (r.toNat - 1) (requireG Modfile.Edit.clearedRequire) }) :=
  Require_markRemoved_eq hr hg

/-- a cleared entry (`Syntax == nil`, the model's `nilId`): Go's nil dereference, the model's `EditErr.nilDeref` -/
theorem Require_markRemoved_panic {h : Heap} {r : Int} {rq : Modfile.Require}
    (hr : heapGet h.requires r = .ok (requireG rq)) (h0 : rq.lineId = Modfile.Edit.nilId) :
    Require_markRemoved r h = .error .panic := Require_markRemoved_nil hr h0

/-- simulation step on a represented file: the `i`-th requirement -/
theorem Require_markRemoved_sim {h : Heap} {o : File} {e : Modfile.Edit.EFile} (R : RepFAt h o e) {i : Nat} {r : Int}
    {rq : Modfile.Require} (hi : o.Require[i]? = some r) (hx : e.f.require[i]? = some rq) (h0 : rq.lineId ≠ Modfile.Edit.nilId) :
    ∃ h', Require_markRemoved r h = .ok ((), h') ∧ h'.mods = h.mods ∧
      RepFAt h' o { e with f := { e.f with require := e.f.require.set i Modfile.Edit.clearedRequire,
                                            syn := Modfile.Edit.markRemoved e.f.syn rq.lineId } } := by
  obtain ⟨hr, hle⟩ := R.require.rel.get i r rq hi hx
  obtain ⟨l, hg, _⟩ := R.linesG.ofId h0 hle
  refine ⟨_, Require_markRemoved_eq hr hg, rfl, ?_⟩
  have R1 := R.setLine IdEquiv_markRemoved hg
  have R2 := R1.setRequire hi Modfile.Edit.clearedRequire (Nat.zero_le _)
  exact R2

example : runSyn exFile (fun _ h => Require_markRemoved 2 h) =
    modelSyn exFile (fun e => (Modfile.Edit.markRemoved e.f.syn 3, e.f.require.set 1 Modfile.Edit.clearedRequire)) := by
  decide +kernel
-- a second call on the cleared entry dereferences nil
example : runVal exFile (fun _ h => (do let (_, h) ← Require_markRemoved 2 h; Require_markRemoved 2 h).map fun _ => ()) = none := by
  decide +kernel

/-! ### Require.setVersion (rule.go:123) = `setVersionLine` on the line -/

theorem Require_setVersion_tie {h : Heap} {r : Int} {rq : Modfile.Require} {l : Modfile.Line} (v : Bytes)
    (hr : heapGet h.requires r = .ok (requireG rq)) (hg : heapGet h.lines (rq.lineId : Int) = .ok (lineG l)) :
    Require_setVersion r v h =
      .ok ((), { setLineH h (rq.lineId : Int) (Modfile.Edit.setVersionLine v l) with
                   requires := h.requires.set (r.toNat - 1) (requireG { rq with mod := { rq.mod with version := v } }) }) :=
  Require_setVersion_eq v hr hg

theorem Require_setVersion_panic {h : Heap} {r : Int} {rq : Modfile.Require} (v : Bytes)
    (hr : heapGet h.requires r = .ok (requireG rq)) (h0 : rq.lineId = Modfile.Edit.nilId) :
    Require_setVersion r v h = .error .panic := Require_setVersion_nil v hr h0

theorem Require_setVersion_sim {h : Heap} {o : File} {e : Modfile.Edit.EFile} (R : RepFAt h o e) {i : Nat} {r : Int}
    {rq : Modfile.Require} (v : Bytes) (hi : o.Require[i]? = some r) (hx : e.f.require[i]? = some rq)
    (h0 : rq.lineId ≠ Modfile.Edit.nilId) :
    ∃ h', Require_setVersion r v h = .ok ((), h') ∧ h'.mods = h.mods ∧
      RepFAt h' o { e with f := { e.f with require := e.f.require.set i { rq with mod := { rq.mod with version := v } },
                                            syn := e.f.syn.updateLine rq.lineId (Modfile.Edit.setVersionLine v) } } := by
  obtain ⟨hr, hle⟩ := R.require.rel.get i r rq hi hx
  obtain ⟨l, hg, _⟩ := R.linesG.ofId h0 hle
  refine ⟨_, Require_setVersion_eq v hr hg, rfl, ?_⟩
  have R1 := R.setLine (IdEquiv_setVersionLine v) hg
  have R2 := R1.setRequire hi { rq with mod := { rq.mod with version := v } } (by simpa using hle)
  simpa using R2

example : runSyn exFile (fun _ h => Require_setVersion 1 (B "v1.5.0") h) =
    modelSyn exFile (fun e => (e.f.syn.updateLine 2 (Modfile.Edit.setVersionLine (B "v1.5.0")),
      e.f.require.map fun r => if r.lineId = 2 then { r with mod := { r.mod with version := B "v1.5.0" } } else r)) := by
  decide +kernel

/-! ### Require.setIndirect (rule.go:145) = `setIndirectLine` on the line -/

/-- all inputs, both directions.  The branch that removes the marker from a comment `// indirect; …` slices
    `tok[strings.Index(tok, "indirect;")+9:]`; that the index exists whenever `isIndirect` holds and the comment is not
    exactly `// indirect` is `FnEditTreeC.indirect_index` (two facts about `strings.Fields`, Proofs/TieFnEditTreeC.lean) -/
theorem Require_setIndirect_tie {h : Heap} {r : Int} {rq : Modfile.Require} {l : Modfile.Line} (ind : Bool)
    (hr : heapGet h.requires r = .ok (requireG rq)) (hg : heapGet h.lines (rq.lineId : Int) = .ok (lineG l)) :
    Require_setIndirect r ind h =
      .ok ((), { setLineH h (rq.lineId : Int) (Modfile.Edit.setIndirectLine ind l) with
                   requires := h.requires.set (r.toNat - 1) (requireG { rq with indirect := ind }) }) :=
  FnEditTreeC.Require_setIndirect_full ind hr hg

theorem Require_setIndirect_panic {h : Heap} {r : Int} {rq : Modfile.Require} (ind : Bool)
    (hr : heapGet h.requires r = .ok (requireG rq)) (h0 : rq.lineId = Modfile.Edit.nilId) :
    Require_setIndirect r ind h = .error .panic := Require_setIndirect_nil ind hr h0

/-- simulation step on a represented file: the `i`-th requirement -/
theorem Require_setIndirect_sim {h : Heap} {o : File} {e : Modfile.Edit.EFile} (R : RepFAt h o e) {i : Nat} {r : Int}
    {rq : Modfile.Require} (ind : Bool) (hi : o.Require[i]? = some r) (hx : e.f.require[i]? = some rq)
    (h0 : rq.lineId ≠ Modfile.Edit.nilId) :
    ∃ h', Require_setIndirect r ind h = .ok ((), h') ∧ h'.mods = h.mods ∧
      RepFAt h' o { e with f := { e.f with require := e.f.require.set i { rq with indirect := ind },
                                            syn := e.f.syn.updateLine rq.lineId (Modfile.Edit.setIndirectLine ind) } } := by
  obtain ⟨hr, hle⟩ := R.require.rel.get i r rq hi hx
  obtain ⟨l, hg, _⟩ := R.linesG.ofId h0 hle
  refine ⟨_, FnEditTreeC.Require_setIndirect_full ind hr hg, rfl, ?_⟩
  have R1 := R.setLine (IdEquiv_setIndirectLine ind) hg
  have R2 := R1.setRequire hi { rq with indirect := ind } (by simpa using hle)
  simpa using R2

-- mark the first requirement, unmark the second; remove the marker from `// indirect; why`
example :
    let rq : Require := { Mod := default, Indirect := true, Syntax := 1 }
    let c : Comment := { Start := default, Token := B "// indirect; why", Suffix := true }
    let ln : Line := { Comments := { Before := [], Suffix := [c], After := [] }, Start := default,
                       Token := [B "a.b/c", B "v1.0.0"], InBlock := true, End := default }
    let h0 : Heap := { (default : Heap) with requires := [rq], lines := [ln] }
    (do let (_, h) ← Require_setIndirect 1 false h0
        pure (h.lines.map fun l => l.Comments.Suffix.map (·.Token))) = (.ok [[B "// why"]] : M (List (List Bytes))) := by
  decide +kernel
example : runSyn exFile (fun _ h => Require_setIndirect 1 true h) =
    modelSyn exFile (fun e => (e.f.syn.updateLine 2 (Modfile.Edit.setIndirectLine true),
      e.f.require.map fun r => if r.lineId = 2 then { r with indirect := true } else r)) := by decide +kernel
example : runSyn exFile (fun _ h => Require_setIndirect 2 false h) =
    modelSyn exFile (fun e => (e.f.syn.updateLine 3 (Modfile.Edit.setIndirectLine false),
      e.f.require.map fun r => if r.lineId = 3 then { r with indirect := false } else r)) := by decide +kernel

/-! ### MustQuote, AutoQuote, checkCanonicalVersion: the ties of Tie/FnModfile*.lean transported -/

theorem MustQuote_tie (s : Bytes) (fuel : Nat) (hf : s.length + 1 ≤ fuel) :
    MustQuote isPrintI fuel s = .ok (Modfile.mustQuote s) := by
  rw [FnEditTreeB.MustQuote_eq]; exact Tie.FnModfile.MustQuote_tie s fuel hf

example : MustQuote isPrintI 4 [97, 32, 98] = .ok true ∧ Modfile.mustQuote [97, 32, 98] = true ∧
    MustQuote isPrintI 3 [97, 98] = .ok false ∧ MustQuote isPrintI 1 [97] = .error .fuel := by decide +kernel

theorem AutoQuote_tie (s : Bytes) (fuel : Nat) (hf : s.length + 1 ≤ fuel) :
    AutoQuote isPrintI quoteI fuel s = .ok (Modfile.autoQuote s) := by
  rw [FnEditTreeB.AutoQuote_eq]; exact Tie.FnModfile.AutoQuote_tie s fuel hf

example : AutoQuote isPrintI quoteI 4 [97, 32, 98] = .ok [34, 97, 32, 98, 34] ∧ Modfile.autoQuote [97, 32, 98] = [34, 97, 32, 98, 34] := by
  decide +kernel

/-- the `error` value in every case (`TieFnModfileCmp.canonErrOf`, spelled out by `Tie.FnModfileCmp.canonErrOf_eq`) -/
theorem checkCanonicalVersion_tie (fuel : Nat) (path vers : Bytes) (hf1 : path.length + 1 ≤ fuel) (hf2 : 2 * vers.length ≤ fuel) :
    checkCanonicalVersion fuel path vers = .ok (TieFnModfileCmp.canonErrOf path vers) := by
  rw [FnEditTreeB.checkCanonicalVersion_eq]; exact Tie.FnModfileCmp.checkCanonicalVersion_tie fuel path vers hf1 hf2

/-- `nil` ↔ the model's Boolean -/
theorem checkCanonicalVersion_nil_iff (fuel : Nat) (path vers : Bytes) (hf1 : path.length + 1 ≤ fuel) (hf2 : 2 * vers.length ≤ fuel) :
    ∃ err, checkCanonicalVersion fuel path vers = .ok err ∧ (err = none ↔ Modfile.Edit.checkCanonicalVersion path vers = true) := by
  rw [FnEditTreeB.checkCanonicalVersion_eq]; exact Tie.FnModfileCmp.checkCanonicalVersion_nil_iff fuel path vers hf1 hf2

example : checkCanonicalVersion 40 (B "a.b/v2") (B "v2.1.0") = .ok none ∧
    Modfile.Edit.checkCanonicalVersion (B "a.b/v2") (B "v2.1.0") = true ∧
    (checkCanonicalVersion 40 (B "a.b/v2") (B "v1.1.0")).toOption.map (·.isNone) = some false ∧
    Modfile.Edit.checkCanonicalVersion (B "a.b/v2") (B "v1.1.0") = false := by decide +kernel

/-! ### the block comparators: two line pointers, the heap is only read -/

/-- lineLess (rule.go:1763) -/
theorem lineLess_tie {h : Heap} {li lj : Int} {a b : Line} (fuel : Nat)
    (ha : heapGet h.lines li = .ok a) (hb : heapGet h.lines lj = .ok b)
    (hf : min a.Token.length b.Token.length + 1 ≤ fuel) :
    lineLess fuel li lj h = .ok (Modfile.Edit.lineLess a.Token b.Token, h) := by
  rw [FnEditTreeB.lineLess_eq ha hb, Tie.FnModfileCmp.lineLess_tie fuel _ _ (by simpa using hf)]; rfl

/-- lineExcludeLess (rule.go:1774) -/
theorem lineExcludeLess_tie {h : Heap} {li lj : Int} {a b : Line} (fuel : Nat)
    (ha : heapGet h.lines li = .ok a) (hb : heapGet h.lines lj = .ok b)
    (hf1 : min a.Token.length b.Token.length + 1 ≤ fuel)
    (hf2 : 2 * max (a.Token.getD 1 []).length (b.Token.getD 1 []).length ≤ fuel) :
    lineExcludeLess fuel li lj h = .ok (Modfile.Edit.lineExcludeLess a.Token b.Token, h) := by
  rw [FnEditTreeB.lineExcludeLess_eq ha hb,
    Tie.FnModfileCmp.lineExcludeLess_tie fuel _ _ (by simpa using hf1) (by simpa using hf2)]; rfl

/-- lineRetractLess (rule.go:1793) -/
theorem lineRetractLess_tie {h : Heap} {li lj : Int} {a b : Line} (fuel : Nat)
    (ha : heapGet h.lines li = .ok a) (hb : heapGet h.lines lj = .ok b)
    (hf1 : 2 * max (Modfile.Edit.retractInterval a.Token).low.length (Modfile.Edit.retractInterval b.Token).low.length ≤ fuel)
    (hf2 : 2 * max (Modfile.Edit.retractInterval a.Token).high.length (Modfile.Edit.retractInterval b.Token).high.length ≤ fuel) :
    lineRetractLess fuel li lj h = .ok (Modfile.Edit.lineRetractLess a.Token b.Token, h) := by
  rw [FnEditTreeB.lineRetractLess_eq ha hb,
    Tie.FnModfileCmp.lineRetractLess_tie fuel _ _ (by simpa using hf1) (by simpa using hf2)]; rfl

/-- all three with the fuel of the driver (`4 * total bytes of the two lines + 64`); `lineLess` and `lineExcludeLess` need
    the tokens of one of the two lines to be non-empty strings (as the lexer and the edit operations guarantee) -/
theorem comparators_tie_driver {h : Heap} {li lj : Int} {a b : Line} (fuel : Nat)
    (ha : heapGet h.lines li = .ok a) (hb : heapGet h.lines lj = .ok b)
    (hf : 4 * ((a.Token ++ b.Token).map List.length).sum + 64 ≤ fuel) :
    ((∀ t ∈ a.Token, t ≠ []) ∨ (∀ t ∈ b.Token, t ≠ []) →
      lineLess fuel li lj h = .ok (Modfile.Edit.lineLess a.Token b.Token, h) ∧
      lineExcludeLess fuel li lj h = .ok (Modfile.Edit.lineExcludeLess a.Token b.Token, h)) ∧
    lineRetractLess fuel li lj h = .ok (Modfile.Edit.lineRetractLess a.Token b.Token, h) := by
  refine ⟨fun hne => ⟨?_, ?_⟩, ?_⟩
  · rw [FnEditTreeB.lineLess_eq ha hb, Tie.FnModfileCmp.lineLess_tie_driver fuel _ _ (by simpa using hne) (by simpa using hf)]; rfl
  · rw [FnEditTreeB.lineExcludeLess_eq ha hb,
      Tie.FnModfileCmp.lineExcludeLess_tie_driver fuel _ _ (by simpa using hne) (by simpa using hf)]; rfl
  · rw [FnEditTreeB.lineRetractLess_eq ha hb, Tie.FnModfileCmp.lineRetractLess_tie_driver fuel _ _ (by simpa using hf)]; rfl

-- the two lines of the require block (pointers 2, 3): "a.b/c v1.0.0" < "d.e/f v1.2.3"
example : runVal exFile (fun _ h => (lineLess 8 2 3 h).map (·.1)) = some true ∧
    runVal exFile (fun _ h => (lineLess 8 3 2 h).map (·.1)) = some false ∧
    runVal exFile (fun _ h => (lineExcludeLess 40 2 3 h).map (·.1)) = some true ∧
    runVal exFile (fun _ h => (lineRetractLess 40 2 3 h).map (·.1)) = some false ∧
    Modfile.Edit.lineLess [B "a.b/c", B "v1.0.0"] [B "d.e/f", B "v1.2.3"] = true ∧
    Modfile.Edit.lineExcludeLess [B "a.b/c", B "v1.0.0"] [B "d.e/f", B "v1.2.3"] = true ∧
    Modfile.Edit.lineRetractLess [B "a.b/c", B "v1.0.0"] [B "d.e/f", B "v1.2.3"] = false := by decide +kernel

/-! ### the session start: the loaded heap of ANY parsed file is represented -/

/-- the heap the driver loads (`Drv.GenEdit.load`) from any strictly parsed go.mod (no version fixer, as `gedit.session`
    parses) represents the model's start state `Edit.load f`: line pointer = renumbered line id, typed objects point to
    their lines, `next = #lines + 1` -/
theorem load_parsed_rep {name data : Bytes} {f : Modfile.File} (h : Modfile.parseStrict name data none = .ok f) :
    RepF (Drv.GenEdit.load f).1 (Drv.GenEdit.load f).2 (Modfile.Edit.load f) :=
  FnEditLoadParse.parseStrict_load_rep h

/-- go.work (`gedit.worksession`) -/
theorem loadWork_parsed_rep {name data : Bytes} {f : Modfile.WorkFile} (h : Modfile.parseWork name data none = .ok f) :
    RepW (Drv.GenEdit.loadWork f).1 (Drv.GenEdit.loadWork f).2 (Modfile.Edit.loadWork f) :=
  FnEditLoadParse.parseWork_load_rep h

example : (Modfile.parseStrict (B "go.mod") exFile none).toOption.isSome = true ∧
    (Modfile.parseWork (B "go.work") (B "go 1.21\n\nuse (\n\t./a\n\t./b\n)\n") none).toOption.isSome = true := by decide +kernel

/-! ### the hypotheses of the `_sim` theorems are satisfiable: the loaded example file is represented (`load_rep`) -/

example : ∃ f, Modfile.parseStrict (B "go.mod") exFile none = .ok f ∧
    RepF (Drv.GenEdit.load f).1 (Drv.GenEdit.load f).2 (Modfile.Edit.load f) := by
  have h : (match Modfile.parseStrict (B "go.mod") exFile none with | .ok f => loadOKB f | .error _ => false) = true := by
    decide +kernel
  cases hp : Modfile.parseStrict (B "go.mod") exFile none with
  | error e => rw [hp] at h; cases h
  | ok f => rw [hp] at h; exact ⟨f, rfl, load_rep f (loadOKB_sound h)⟩

example : ∃ f, Modfile.parseWork (B "go.work") (B "go 1.21\n\nuse (\n\t./a\n\t./b\n)\n\nreplace x.y/z => ../z\n") none = .ok f ∧
    RepW (Drv.GenEdit.loadWork f).1 (Drv.GenEdit.loadWork f).2 (Modfile.Edit.loadWork f) := by
  have h : (match Modfile.parseWork (B "go.work") (B "go 1.21\n\nuse (\n\t./a\n\t./b\n)\n\nreplace x.y/z => ../z\n") none with
      | .ok f => loadWorkOKB f | .error _ => false) = true := by decide +kernel
  cases hp : Modfile.parseWork (B "go.work") (B "go 1.21\n\nuse (\n\t./a\n\t./b\n)\n\nreplace x.y/z => ../z\n") none with
  | error e => rw [hp] at h; cases h
  | ok f => rw [hp] at h; exact ⟨f, rfl, loadWork_rep f (loadWorkOKB_sound h)⟩

end ModVerif.Tie.FnEditTree
