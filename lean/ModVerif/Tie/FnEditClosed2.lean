/-
  Tie, CLOSED FUEL of the go.mod edit sessions, second part (agent edit-fuel2).  Tie/FnEditClosed.lean derives the fuel
  hypotheses `FuelOK` / `FinalFuel` of the session ties from `3 · sessSize f ops + 1 ≤ fuel`, where the size of an operation
  (`opSize`) still contains the length of the `AutoQuote`d FORM of some arguments.  Here:

    * `quote_length`     : `|strconv.Quote s| ≤ 4·|s| + 2`   (4 = the true maximum per input byte: `\xNN`; attained by `\x00`)
    * `autoQuote_length` : `|AutoQuote s| ≤ 4·|s| + 2`
    * `opSize_le_raw`    : `opSize op ≤ 5 · rawSize op`, `rawSize` = byte lengths of the arguments only (+1 per argument)
    * `fuelOK_of_rawsize_partial`, `runOps_tie_closed_raw_partial`: the closed-fuel statements with
         `sessSizeR f ops = W (Edit.load f) + Σ_ops (20 · rawSize op + 32)`
    * `parse_tokens_le`  : the summed byte length of ALL tokens of the parsed tree is at most the length of the file text
         (rule-fuel's `parse_w` gives this per line only); `parse_token_count_le`: so is their NUMBER;
    * `treeW_parse_le`   : `treeW (parse name data).stmts ≤ 4·|data| + 1` — the tree weight of the PARSE is linear in the file
         text (the first step of bounding `W (Edit.load f)` by `|file|`; the step through `File.add` is open).

  `…_partial`: see lean/PENDING.md, section "FnEdit — edit-fuel2" (`SetRequireSeparateIndirect` still excluded; `W (Edit.load f)`
  is still the weight of the parse, not a function of `file.length`).
-/
import ModVerif.Tie.FnEditClosed
import ModVerif.Proofs.TieFnEditFuelF
import ModVerif.Proofs.TieFnEditFuelG
import ModVerif.Proofs.TieFnEditFuelH
set_option linter.unusedSimpArgs false
set_option linter.unusedVariables false
namespace ModVerif.Tie.FnEditClosed2
open ModVerif ModVerif.GoRt ModVerif.Generated.Edit ModVerif.Tie.FnEditRep
open ModVerif.Tie.FnEditFuelB ModVerif.Tie.FnEditFuelC ModVerif.Tie.FnEditFuelD ModVerif.Tie.FnEditFuelE
open ModVerif.Tie.FnEditFuelA ModVerif.Tie.FnEditFuelF ModVerif.Tie.FnEditFuelG
open ModVerif.Tie.FnEditSessionA ModVerif.Tie.FnEditSessionB ModVerif.Tie.FnEditSessionC ModVerif.Tie.FnEditSessionE
open ModVerif.Tie.FnEditSession ModVerif.Tie.FnEditClosed
open ModVerif.Modfile.Edit (EFile applyMod)

/-- **`strconv.Quote` expands every input byte to at most four bytes** (plus the two quotes) -/
theorem quote_length (s : Bytes) : (Quote.quote s).length ≤ 4 * s.length + 2 := FnEditFuelF.quote_length s

-- the constant 4 is attained
example : (Quote.quote [0, 0, 0]).length = 4 * 3 + 2 := by decide +kernel

/-- **`AutoQuote`** -/
theorem autoQuote_length (s : Bytes) : (Modfile.autoQuote s).length ≤ 4 * s.length + 2 := FnEditFuelF.autoQuote_length s

example : (Modfile.autoQuote (B "a b")).length = 5 := by decide +kernel

/-- **the size of an operation is at most five times the byte lengths of its arguments** (`rawSize`: `|s| + 1` per argument,
    `|path| + |vers| + 4` per requested requirement) -/
theorem opSize_le_raw (op : EditSpec.Op) : opSize op ≤ 5 * rawSize op := opSize_le op

example : opSize (.addRequire (B "example.com/d") (B "v1.0.0")) = 32 ∧ rawSize (.addRequire (B "example.com/d") (B "v1.0.0")) = 21 := by
  decide +kernel

/-- the size of a session with the operations measured by the byte lengths of their arguments -/
def sessSizeR (f : Modfile.File) (ops : List EditSpec.Op) : Nat := W (Modfile.Edit.load f) + opsR ops

theorem sessSize_le (f : Modfile.File) (ops : List EditSpec.Op) : sessSize f ops ≤ sessSizeR f ops := by
  have := opsG_le ops; unfold sessSize sessSizeR; omega

/-- **`FuelOK` / `FinalFuel` from the raw size of the session.**  Partial: sessions without `SetRequireSeparateIndirect`; the file
    enters through the weight of its parse `W (Edit.load f)`. -/
theorem fuelOK_of_rawsize_partial (name file : Bytes) (f : Modfile.File) (ops : List EditSpec.Op) (fuel : Nat)
    (hp : Modfile.parseStrict name file none = .ok f) (hk : Modfile.Edit.WellFormedKeys f) (hs : Modfile.Edit.NoBlockSuffix f.syn)
    (hv : Modfile.Edit.StaticValid false (ops.map opM)) (hb : ∀ op ∈ ops, NotSep op)
    (hf : 3 * sessSizeR f ops + 1 ≤ fuel) :
    FuelOK fuel (Modfile.Edit.load f) ops ∧ FinalFuel fuel (Modfile.Edit.load f) ops :=
  fuelOK_of_size_partial name file f ops fuel hp hk hs hv hb (by have := sessSize_le f ops; omega)

/-- `runOps_tie_valid` with the raw size hypothesis only -/
theorem runOps_tie_closed_raw_partial (name file : Bytes) (f : Modfile.File) (ops : List EditSpec.Op) (fuel : Nat)
    (hp : Modfile.parseStrict name file none = .ok f) (hk : Modfile.Edit.WellFormedKeys f) (hs : Modfile.Edit.NoBlockSuffix f.syn)
    (hv : Modfile.Edit.StaticValid false (ops.map opM)) (hm : ∀ op ∈ ops.map opM, Modfile.Edit.IsModOp op)
    (hb : ∀ op ∈ ops, NotSep op) (hf : 3 * sessSizeR f ops + 1 ≤ fuel) :
    ∃ e' res h', Modfile.Edit.runOps applyMod (Modfile.Edit.load f) (ops.map opM) [] 0 = .done e' res ∧
      Drv.GenEdit.runOps fuel (Drv.GenEdit.load f).2 (Drv.GenEdit.load f).1 ops [] = .done h' res ∧
      RepF h' (Drv.GenEdit.load f).2 e' ∧ Modfile.Edit.P.Inv e' :=
  runOps_tie_closed_partial name file f ops fuel hp hk hs hv hm hb (by have := sessSize_le f ops; omega)

/-- the raw size hypothesis holds of the example session of Tie/FnEditClosed.lean with fuel 40000 -/
theorem ex_rawsize : ∀ f, Modfile.parseStrict (B "go.mod") exFile none = .ok f → 3 * sessSizeR f FnEditClosed.exOps + 1 ≤ 40000 :=
  of_parsed exFile (fun f => decide (3 * sessSizeR f FnEditClosed.exOps + 1 ≤ 40000)) (fun f h => of_decide_eq_true h)
    (by decide +kernel)

-- `fuelOK_of_rawsize_partial` on the example
example : ∀ f, Modfile.parseStrict (B "go.mod") exFile none = .ok f →
    FuelOK 40000 (Modfile.Edit.load f) FnEditClosed.exOps ∧ FinalFuel 40000 (Modfile.Edit.load f) FnEditClosed.exOps :=
  fun f hp => fuelOK_of_rawsize_partial (B "go.mod") exFile f FnEditClosed.exOps 40000 hp (FnEditSession.ex_keys f hp).1
    (FnEditSession.ex_keys f hp).2 FnEditClosed.ex_static FnEditClosed.ex_notSep (ex_rawsize f hp)

/-- **the tokens of the whole parsed tree are paid by the file text**: the summed byte length of the tokens of all lines and
    block heads (`ETs`) of `parse name data` is at most `data.length` -/
theorem parse_tokens_le (name data : Bytes) (fs : Modfile.FileSyntax) (h : Modfile.parse name data = .ok fs) :
    ETs fs.stmts ≤ data.length := parse_tok h

-- on the example file (223 bytes) the tokens sum to a positive number
example : (match Modfile.parse (B "go.mod") exFile with
    | .ok fs => decide (0 < ETs fs.stmts ∧ ETs fs.stmts ≤ exFile.length)
    | .error _ => false) = true := by decide +kernel

/-- **the number of tokens of the whole parsed tree is at most the length of the file text** -/
theorem parse_token_count_le (name data : Bytes) (fs : Modfile.FileSyntax) (h : Modfile.parse name data = .ok fs) :
    FnEditFuelH.ECs fs.stmts ≤ data.length := FnEditFuelH.parse_cnt h

/-- **the tree weight (`treeW`, the tree part of the potential `W`) of the PARSED tree is linear in the file text** -/
theorem treeW_parse_le (name data : Bytes) (fs : Modfile.FileSyntax) (h : Modfile.parse name data = .ok fs) :
    treeW fs.stmts ≤ 4 * data.length + 1 := FnEditFuelH.treeW_parse_le h

example : (match Modfile.parse (B "go.mod") exFile with
    | .ok fs => decide (0 < treeW fs.stmts ∧ treeW fs.stmts ≤ 4 * exFile.length + 1)
    | .error _ => false) = true := by decide +kernel

end ModVerif.Tie.FnEditClosed2
