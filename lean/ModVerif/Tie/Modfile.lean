/-
  Tie: facts regenerated from modfile/{read,rule,work,print}.go by harness/cmd/extract equal the
  literals the hand-written model uses: verb lists of the directive switches, regexp source texts
  (the matchers in Model/Modfile/Rule.lean are hand translations of exactly these texts), the rune
  lists of the lexer and of MustQuote, and the printer's separator conditions.
-/
import ModVerif.Model.Modfile.Work
import ModVerif.Generated.Facts
namespace ModVerif.Tie
open ModVerif.Modfile

theorem modfile_blockVerbs_tie : Generated.modfile_parseToFile_blockVerbs = blockVerbs := by decide
theorem modfile_laxVerbs_tie : Generated.modfile_add_laxVerbs = laxVerbs := by decide
theorem modfile_addVerbs_tie : Generated.modfile_add_verbs = addVerbs := by decide
theorem modfile_workVerbs_tie : Generated.modfile_workAdd_verbs = workVerbs := by decide
theorem modfile_workBlockVerbs_tie : Generated.modfile_parseWork_blockVerbs = workBlockVerbs := by decide

theorem modfile_GoVersionRE_tie : Generated.modfile_GoVersionRE_src = goVersionRESrc := by decide
theorem modfile_laxGoVersionRE_tie : Generated.modfile_laxGoVersionRE_src = laxGoVersionRESrc := by decide
theorem modfile_ToolchainRE_tie : Generated.modfile_ToolchainRE_src = toolchainRESrc := by decide
theorem modfile_deprecatedRE_tie : Generated.modfile_deprecatedRE_src = deprecatedRESrc := by decide

theorem modfile_punct_tie : Generated.modfile_readToken_punct = punctRunes := by decide
theorem modfile_quotes_tie : Generated.modfile_readToken_quotes = quoteRunes := by decide
theorem modfile_identExcluded_tie : Generated.modfile_isIdent_excluded = identExcluded := by decide
theorem modfile_isIdent_default_tie :
    Generated.modfile_isIdent_default = "return !unicode.IsSpace(r) && unicode.IsPrint(r)" := by decide
theorem modfile_mustQuoteAlways_tie : Generated.modfile_MustQuote_always = mustQuoteAlways := by decide
theorem modfile_mustQuoteIfLong_tie : Generated.modfile_MustQuote_ifLong = mustQuoteIfLong := by decide

/-- print.go `tokens`: the two conditions are the ones `Printer.noSepBefore` / `noSepAfter` transcribe. -/
theorem modfile_noSepBefore_tie :
    Generated.modfile_tokens_noSepBefore = "t == \",\" || t == \")\" || t == \"]\" || t == \"}\"" ∧
    Printer.noSepBefore = [[44], [41], [93], [125]] := by decide
theorem modfile_noSepAfter_tie :
    Generated.modfile_tokens_noSepAfter = "t == \"(\" || t == \"[\" || t == \"{\"" ∧
    Printer.noSepAfter = [[40], [91], [123]] := by decide

end ModVerif.Tie
