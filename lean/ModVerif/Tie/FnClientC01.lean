/-
  C01 on the REGENERATED client.  The two main theorems of Props/C01.lean (`lookup_authentic`, `honest_never_fails`),
  which are about the hand model `Client.lookup`, restated about `Generated.SumdbClient.Client_Lookup` — the Lean
  definition re-translated from sumdb/client.go on every check — through `Tie.FnClientLookup.Lookup_tie`.

  The regenerated client starts in `cw0 P s0 z` (`NewClient`, `SetTileHeight(P.height)`, `SetGONOSUMDB(P.nosumdb)`; `z` the
  zero hash), runs in `envOf P E` (the `ClientOps` of the model's environment `E`, hashes / base64 / Ed25519 / `path.Match` /
  `unicode.IsLetter` from `P`), and `genRun` calls `Lookup` for each earlier `(path, vers)`.  The effect trace is the second
  component of the state behind `ClientOps` (`cw.s.2`): every `WriteCache`, `WriteConfig`, `SecurityError` and read the
  generated code performs is appended to it by `envOf`.

  Hypotheses beyond those of the model theorems (named, see Tie/FnClientLookup.lean):
  * `hM : MergeLatestSpec P E AM`, `hC : CheckRecordSpec P E AC` — the ties of `Client_mergeLatest` / `Client_checkRecord`
    (Tie/FnClientMerge.lean) with their side conditions `AM` / `AC`;
  * `hsha` — the key-hash function returns at least four bytes;
  * `hadm`, `hadm'` — enough fuel and the side conditions `AM` / `AC` at every call the model makes (`RunAdm`, `LookupAdm`).
  The statements say: under these, the regenerated `Lookup` RETURNS, and what it returns / has written is authentic.

  Last section: `hM` / `hC` discharged by the ties of the merge unit (`mergeLatest_eq`, `checkRecord_eq`,
  Proofs/TieFnClientMergeLoop.lean = Tie.FnClientMerge.Client_mergeLatest_tie / Client_checkRecord_tie) for any
  `S : TileSpecs P E` (the ties of the three reads through tiles with their fuel bounds): `AM fuel w msg` is
  `MergeOk P E w msg ∧ mergeFuel S w msg ≤ fuel`, `AC fuel w id data` is `CheckRecordOk P E w id data ∧
  checkRecordFuel S w id ≤ fuel`.  `Lookup_tie_S`, `lookup_authentic_gen_S`, `honest_never_fails_gen_S` are the statements
  with `S` as the only named hypothesis left about generated code.
-/
import ModVerif.Tie.FnClientLookup
import ModVerif.Proofs.TieFnClientLookupRun
import ModVerif.Props.C01
import ModVerif.Proofs.TieFnClientMergeLoop
import ModVerif.Proofs.TieFnClientMergeInstTile
set_option linter.unusedSectionVars false
namespace ModVerif.Tie.FnClientC01
open ModVerif ModVerif.GoRt ModVerif.Generated.SumdbClient ModVerif.TieFnClientRep ModVerif.TieFnClientLookup
open ModVerif.Client (Effect)

section
variable {σ H : Type} [DecidableEq H] [Inhabited H]

/-- ★ **`lookup_authentic` for the regenerated `Lookup`.**  For every environment and every log `D` of fewer than `2^62`
records, under signature soundness of the configured key and injectivity of `NodeHash` / `RecordHash`: after any sequence
of earlier lookups the regenerated `Client_Lookup` returns `(lines, err)` and a world such that
  (1) if `err` is nil, `lines` are exactly the lines with the prefix `path vers ` of a response whose record text is the
      record of `D` with the id of the response and whose remainder is empty or a tree note accepted under the configured
      key (`cw'.verifiers` is `note.VerifierList` of that key), itself a head of `D`;
  (2) every `WriteCache` in the trace carries such a response or, under the tile's cache key, the bytes of a true tile;
  (3) every `WriteConfig` in the trace carries an accepted head of `D`, replacing the empty value or an accepted
      strictly smaller head. -/
theorem lookup_authentic_gen (P : Client.Params H) (D : List Bytes) (hD : D.length < 2 ^ 62)
    (hnode : ∀ a b c d : H, P.node a b = P.node c d → a = c ∧ b = d)
    (hleaf : ∀ x y : Bytes, P.leaf x = P.leaf y → x = y)
    (E : Client.Env σ) (hkey : Client.KeySound P D E) (s0 : σ) (z : H) (earlier : List (Bytes × Bytes)) (path vers : Bytes)
    (AM : Nat → Client.World σ H → Bytes → Prop) (AC : Nat → Client.World σ H → Int → Bytes → Prop)
    (hM : MergeLatestSpec P E AM) (hC : CheckRecordSpec P E AC) (hsha : ∀ x, 4 ≤ (P.sha x).length) (fuel : Nat)
    (hadm : RunAdm P E AM AC fuel ⟨s0, Client.newClient P, []⟩ earlier)
    (hadm' : LookupAdm P E AM AC fuel (Client.runLookups P E ⟨s0, Client.newClient P, []⟩ earlier) path vers) :
    ∃ cw1 r' cw' vs, genRun (envOf P E) fuel (cw0 P s0 z) earlier = .ok cw1 ∧
      Client_Lookup (envOf P E) fuel path vers cw1 = .ok (r', cw') ∧ cw'.verifiers = verifiersOf vs ∧
      (∀ lines, r' = (lines, none) → ∃ data id text rest,
          TlogNote.parseRecord data = some (id, text, rest) ∧ D[Client.recIndex id]? = some text ∧
          (rest = [] ∨ ∃ hd, Client.openTree P vs rest = .ok hd ∧ Client.IsHead P D hd) ∧
          lines = Client.filterLines (path ++ [32] ++ vers ++ [32]) data) ∧
      (∀ f d, Effect.writeCache f d ∈ cw'.s.2 →
          (∃ id text rest, TlogNote.parseRecord d = some (id, text, rest) ∧ D[Client.recIndex id]? = some text) ∨
          (∃ t, f = Client.tileCacheKey cw'.name t ∧ Client.AuthTile P D t d)) ∧
      (∀ f old new res, Effect.writeConfig f old new res ∈ cw'.s.2 →
          ∃ hd, Client.openTree P vs new = .ok hd ∧ Client.IsHead P D hd ∧
            (old = [] ∨ ∃ ho, Client.openTree P vs old = .ok ho ∧ Client.IsHead P D ho ∧ ho.n < hd.n)) := by
  obtain ⟨cw1, hrun, hL1⟩ :=
    run_tie P E AM AC hM hC hsha fuel earlier _ _ (Tie.FnClientLookup.newClient_tie P E s0 z) hadm
  obtain ⟨r', cw', hlk, hL2, hres⟩ :=
    Tie.FnClientLookup.Lookup_tie P E AM AC hM hC hsha _ cw1 fuel path vers hL1 hadm'
  obtain ⟨a1, a2, a3⟩ := Props.C01.lookup_authentic P D hD hnode hleaf E hkey s0 earlier path vers
  have hs := hL2.1.s
  have htr : cw'.s.2 = (Client.lookup P E (Client.runLookups P E ⟨s0, Client.newClient P, []⟩ earlier) path vers).2.tr := by
    rw [hs]
  refine ⟨cw1, r', cw', _, hrun, hlk, hL2.1.verifiers, ?_, ?_, ?_⟩
  · intro lines hl
    subst hl
    apply a1 lines
    cases hr : (Client.lookup P E (Client.runLookups P E ⟨s0, Client.newClient P, []⟩ earlier) path vers).1 with
    | ok l =>
      rw [hr] at hres
      have := (RepRes_ok_iff _ l).mp hres
      cases this; rfl
    | error e =>
      rw [hr] at hres
      obtain ⟨s, hs', _⟩ := hres
      cases hs'
  · intro f d hm
    rw [htr] at hm
    rw [hL2.1.name]
    exact a2 f d hm
  · intro f old new res hm
    rw [htr] at hm
    exact a3 f old new res hm

end

section
variable {H : Type} [DecidableEq H] [Inhabited H]
open ModVerif.Client (Honest HonestState HState Server honestEnv HonestLookup)

/-- ★ **`honest_never_fails` for the regenerated `Lookup`.**  In the honest world for a log `D` (honest server, persistent
cache, compare-and-swap configuration, any honest initial state), after any sequence of earlier lookups, the regenerated
`Client_Lookup` of a module the server has a record for — not excluded by GONOSUMDB, escapable — RETURNS, with a nil error,
exactly the lines with the prefix `path vers ` of an honest response for that module. -/
theorem honest_never_fails_gen (P : Client.Params H) (D : List Bytes) (S : Server) (stN : List H) (hon : Honest P D S stN)
    (s0 : HState) (hs0 : HonestState P D S stN s0) (z : H) (earlier : List (Bytes × Bytes))
    (path vers epath evers : Bytes) (id : Nat)
    (hskip : Module.matchPrefixPatterns P.glob P.nosumdb path = false)
    (hep : Module.escapePath path = .ok epath)
    (hev : Module.escapeVersion P.isLetter (Client.trimGoMod vers) = .ok evers)
    (hidx : S.index (B "/lookup/" ++ (epath ++ ([64] ++ evers))) = some id)
    (AM : Nat → Client.World HState H → Bytes → Prop) (AC : Nat → Client.World HState H → Int → Bytes → Prop)
    (hM : MergeLatestSpec P (honestEnv S) AM) (hC : CheckRecordSpec P (honestEnv S) AC)
    (hsha : ∀ x, 4 ≤ (P.sha x).length) (fuel : Nat)
    (hadm : RunAdm P (honestEnv S) AM AC fuel ⟨s0, Client.newClient P, []⟩ earlier)
    (hadm' : LookupAdm P (honestEnv S) AM AC fuel (Client.runLookups P (honestEnv S) ⟨s0, Client.newClient P, []⟩ earlier)
      path vers) :
    ∃ cw1 cw' d, genRun (envOf P (honestEnv S)) fuel (cw0 P s0 z) earlier = .ok cw1 ∧
      HonestLookup P D S (B "/lookup/" ++ (epath ++ ([64] ++ evers))) d ∧
      Client_Lookup (envOf P (honestEnv S)) fuel path vers cw1 =
        .ok ((Client.filterLines (path ++ [32] ++ vers ++ [32]) d, none), cw') := by
  obtain ⟨cw1, hrun, hL1⟩ :=
    run_tie P (honestEnv S) AM AC hM hC hsha fuel earlier _ _ (Tie.FnClientLookup.newClient_tie P (honestEnv S) s0 z) hadm
  obtain ⟨r', cw', hlk, _, hres⟩ :=
    Tie.FnClientLookup.Lookup_tie P (honestEnv S) AM AC hM hC hsha _ cw1 fuel path vers hL1 hadm'
  obtain ⟨d, hd1, hd2⟩ :=
    Props.C01.honest_never_fails P D S stN hon s0 hs0 earlier path vers epath evers id hskip hep hev hidx
  rw [hd2] at hres
  have := (RepRes_ok_iff _ _).mp hres
  rw [this] at hlk
  exact ⟨cw1, cw', d, hrun, hd1, hlk⟩

end

/-! ### the hypotheses `MergeLatestSpec` / `CheckRecordSpec`, discharged by the merge unit -/

section
variable {σ H : Type} [DecidableEq H] [Inhabited H]
open ModVerif.TieFnClientMerge

/-- the side condition of `mergeLatest` of the merge unit's tie -/
def amOf {P : Client.Params H} {E : Client.Env σ} (S : TileSpecs P E) : Nat → Client.World σ H → Bytes → Prop :=
  fun fuel w msg => MergeOk P E w msg ∧ mergeFuel S w msg ≤ fuel

/-- the side condition of `checkRecord` of the merge unit's tie -/
def acOf {P : Client.Params H} {E : Client.Env σ} (S : TileSpecs P E) : Nat → Client.World σ H → Int → Bytes → Prop :=
  fun fuel w id data => CheckRecordOk P E w id data ∧ checkRecordFuel S w id ≤ fuel

theorem mergeLatestSpec_of {P : Client.Params H} {E : Client.Env σ} (S : TileSpecs P E) :
    MergeLatestSpec P E (amOf S) := by
  intro w cw msg fuel hr ha
  obtain ⟨r', cw', h1, h2, h3, h4, _⟩ := mergeLatest_eq S w cw msg fuel hr ha.1 ha.2
  exact ⟨r', cw', h1, h2, h3, h4.initDone, h4.initErr⟩

theorem checkRecordSpec_of {P : Client.Params H} {E : Client.Env σ} (S : TileSpecs P E) :
    CheckRecordSpec P E (acOf S) := by
  intro w cw id data fuel hr ha
  obtain ⟨r', cw', h1, h2, h3, h4, _⟩ := checkRecord_eq S w cw id data fuel hr ha.1 ha.2
  exact ⟨r', cw', h1, h2, h3, h4.initDone, h4.initErr⟩

/-- ★ `Lookup_tie` with the merge unit's ties plugged in -/
theorem Lookup_tie_S (P : Client.Params H) (E : Client.Env σ) (S : TileSpecs P E) (hsha : ∀ x, 4 ≤ (P.sha x).length)
    (w : Client.World σ H) (cw : GW σ H) (fuel : Nat) (path vers : Bytes) (h : RepL P E w cw)
    (ha : LookupAdm P E (amOf S) (acOf S) fuel w path vers) :
    ∃ r' cw', Client_Lookup (envOf P E) fuel path vers cw = .ok (r', cw') ∧
      RepL P E (Client.lookup P E w path vers).2 cw' ∧ RepRes r' (Client.lookup P E w path vers).1 :=
  Tie.FnClientLookup.Lookup_tie P E _ _ (mergeLatestSpec_of S) (checkRecordSpec_of S) hsha w cw fuel path vers h ha

/-- ★ `lookup_authentic_gen` with the merge unit's ties plugged in -/
theorem lookup_authentic_gen_S (P : Client.Params H) (D : List Bytes) (hD : D.length < 2 ^ 62)
    (hnode : ∀ a b c d : H, P.node a b = P.node c d → a = c ∧ b = d)
    (hleaf : ∀ x y : Bytes, P.leaf x = P.leaf y → x = y)
    (E : Client.Env σ) (hkey : Client.KeySound P D E) (s0 : σ) (z : H) (earlier : List (Bytes × Bytes)) (path vers : Bytes)
    (S : TileSpecs P E) (hsha : ∀ x, 4 ≤ (P.sha x).length) (fuel : Nat)
    (hadm : RunAdm P E (amOf S) (acOf S) fuel ⟨s0, Client.newClient P, []⟩ earlier)
    (hadm' : LookupAdm P E (amOf S) (acOf S) fuel (Client.runLookups P E ⟨s0, Client.newClient P, []⟩ earlier) path vers) :
    ∃ cw1 r' cw' vs, genRun (envOf P E) fuel (cw0 P s0 z) earlier = .ok cw1 ∧
      Client_Lookup (envOf P E) fuel path vers cw1 = .ok (r', cw') ∧ cw'.verifiers = verifiersOf vs ∧
      (∀ lines, r' = (lines, none) → ∃ data id text rest,
          TlogNote.parseRecord data = some (id, text, rest) ∧ D[Client.recIndex id]? = some text ∧
          (rest = [] ∨ ∃ hd, Client.openTree P vs rest = .ok hd ∧ Client.IsHead P D hd) ∧
          lines = Client.filterLines (path ++ [32] ++ vers ++ [32]) data) ∧
      (∀ f d, Effect.writeCache f d ∈ cw'.s.2 →
          (∃ id text rest, TlogNote.parseRecord d = some (id, text, rest) ∧ D[Client.recIndex id]? = some text) ∨
          (∃ t, f = Client.tileCacheKey cw'.name t ∧ Client.AuthTile P D t d)) ∧
      (∀ f old new res, Effect.writeConfig f old new res ∈ cw'.s.2 →
          ∃ hd, Client.openTree P vs new = .ok hd ∧ Client.IsHead P D hd ∧
            (old = [] ∨ ∃ ho, Client.openTree P vs old = .ok ho ∧ Client.IsHead P D ho ∧ ho.n < hd.n)) :=
  lookup_authentic_gen P D hD hnode hleaf E hkey s0 z earlier path vers _ _ (mergeLatestSpec_of S) (checkRecordSpec_of S)
    hsha fuel hadm hadm'

end

section
variable {H : Type} [DecidableEq H] [Inhabited H]
open ModVerif.Client (Honest HonestState HState Server honestEnv HonestLookup)
open ModVerif.TieFnClientMerge

/-- ★ `honest_never_fails_gen` with the merge unit's ties plugged in -/
theorem honest_never_fails_gen_S (P : Client.Params H) (D : List Bytes) (S : Server) (stN : List H) (hon : Honest P D S stN)
    (s0 : HState) (hs0 : HonestState P D S stN s0) (z : H) (earlier : List (Bytes × Bytes))
    (path vers epath evers : Bytes) (id : Nat)
    (hskip : Module.matchPrefixPatterns P.glob P.nosumdb path = false)
    (hep : Module.escapePath path = .ok epath)
    (hev : Module.escapeVersion P.isLetter (Client.trimGoMod vers) = .ok evers)
    (hidx : S.index (B "/lookup/" ++ (epath ++ ([64] ++ evers))) = some id)
    (T : TileSpecs P (honestEnv S)) (hsha : ∀ x, 4 ≤ (P.sha x).length) (fuel : Nat)
    (hadm : RunAdm P (honestEnv S) (amOf T) (acOf T) fuel ⟨s0, Client.newClient P, []⟩ earlier)
    (hadm' : LookupAdm P (honestEnv S) (amOf T) (acOf T) fuel
      (Client.runLookups P (honestEnv S) ⟨s0, Client.newClient P, []⟩ earlier) path vers) :
    ∃ cw1 cw' d, genRun (envOf P (honestEnv S)) fuel (cw0 P s0 z) earlier = .ok cw1 ∧
      HonestLookup P D S (B "/lookup/" ++ (epath ++ ([64] ++ evers))) d ∧
      Client_Lookup (envOf P (honestEnv S)) fuel path vers cw1 =
        .ok ((Client.filterLines (path ++ [32] ++ vers ++ [32]) d, none), cw') :=
  honest_never_fails_gen P D S stN hon s0 hs0 z earlier path vers epath evers id hskip hep hev hidx _ _
    (mergeLatestSpec_of T) (checkRecordSpec_of T) hsha fuel hadm hadm'

end

/-! ### … and `TileSpecs` by the tile units: no hypothesis about generated code left

  `TieFnClientMerge.tileSpecs P E h32 h57` (Proofs/TieFnClientMergeInstTile.lean) constructs `TileSpecs P E` from the ties of
  `tileHashReader.ReadHashes` / `TreeHash` / `ProveTree` in world mode and of the client's tile methods, for every `Params`
  with `hashSize = 32` (`tlog.HashSize`) and tile height at most 57.  What remains are hypotheses about the MODEL's run
  (`RunAdm` / `LookupAdm`: fuel, sizes `< 2^62`, no model-only outcome) and `hsha`. -/

section
variable {σ H : Type} [DecidableEq H] [Inhabited H]
open ModVerif.TieFnClientMerge

/-- ★ `Lookup_tie`, closed -/
theorem Lookup_tie_closed (P : Client.Params H) (E : Client.Env σ) (h32 : P.hashSize = 32)
    (h57 : Client.tileHeight P ≤ 57) (hsha : ∀ x, 4 ≤ (P.sha x).length)
    (w : Client.World σ H) (cw : GW σ H) (fuel : Nat) (path vers : Bytes) (h : RepL P E w cw)
    (ha : LookupAdm P E (amOf (tileSpecs P E h32 h57)) (acOf (tileSpecs P E h32 h57)) fuel w path vers) :
    ∃ r' cw', Client_Lookup (envOf P E) fuel path vers cw = .ok (r', cw') ∧
      RepL P E (Client.lookup P E w path vers).2 cw' ∧ RepRes r' (Client.lookup P E w path vers).1 :=
  Lookup_tie_S P E (tileSpecs P E h32 h57) hsha w cw fuel path vers h ha

/-- ★ `lookup_authentic` for the regenerated `Lookup`, closed -/
theorem lookup_authentic_gen_closed (P : Client.Params H) (D : List Bytes) (hD : D.length < 2 ^ 62)
    (hnode : ∀ a b c d : H, P.node a b = P.node c d → a = c ∧ b = d)
    (hleaf : ∀ x y : Bytes, P.leaf x = P.leaf y → x = y)
    (E : Client.Env σ) (hkey : Client.KeySound P D E) (s0 : σ) (z : H) (earlier : List (Bytes × Bytes)) (path vers : Bytes)
    (h32 : P.hashSize = 32) (h57 : Client.tileHeight P ≤ 57) (hsha : ∀ x, 4 ≤ (P.sha x).length) (fuel : Nat)
    (hadm : RunAdm P E (amOf (tileSpecs P E h32 h57)) (acOf (tileSpecs P E h32 h57)) fuel ⟨s0, Client.newClient P, []⟩ earlier)
    (hadm' : LookupAdm P E (amOf (tileSpecs P E h32 h57)) (acOf (tileSpecs P E h32 h57)) fuel
      (Client.runLookups P E ⟨s0, Client.newClient P, []⟩ earlier) path vers) :
    ∃ cw1 r' cw' vs, genRun (envOf P E) fuel (cw0 P s0 z) earlier = .ok cw1 ∧
      Client_Lookup (envOf P E) fuel path vers cw1 = .ok (r', cw') ∧ cw'.verifiers = verifiersOf vs ∧
      (∀ lines, r' = (lines, none) → ∃ data id text rest,
          TlogNote.parseRecord data = some (id, text, rest) ∧ D[Client.recIndex id]? = some text ∧
          (rest = [] ∨ ∃ hd, Client.openTree P vs rest = .ok hd ∧ Client.IsHead P D hd) ∧
          lines = Client.filterLines (path ++ [32] ++ vers ++ [32]) data) ∧
      (∀ f d, Effect.writeCache f d ∈ cw'.s.2 →
          (∃ id text rest, TlogNote.parseRecord d = some (id, text, rest) ∧ D[Client.recIndex id]? = some text) ∨
          (∃ t, f = Client.tileCacheKey cw'.name t ∧ Client.AuthTile P D t d)) ∧
      (∀ f old new res, Effect.writeConfig f old new res ∈ cw'.s.2 →
          ∃ hd, Client.openTree P vs new = .ok hd ∧ Client.IsHead P D hd ∧
            (old = [] ∨ ∃ ho, Client.openTree P vs old = .ok ho ∧ Client.IsHead P D ho ∧ ho.n < hd.n)) :=
  lookup_authentic_gen_S P D hD hnode hleaf E hkey s0 z earlier path vers (tileSpecs P E h32 h57) hsha fuel hadm hadm'

end

section
variable {H : Type} [DecidableEq H] [Inhabited H]
open ModVerif.Client (Honest HonestState HState Server honestEnv HonestLookup)
open ModVerif.TieFnClientMerge

/-- ★ `honest_never_fails` for the regenerated `Lookup`, closed -/
theorem honest_never_fails_gen_closed (P : Client.Params H) (D : List Bytes) (S : Server) (stN : List H)
    (hon : Honest P D S stN) (s0 : HState) (hs0 : HonestState P D S stN s0) (z : H) (earlier : List (Bytes × Bytes))
    (path vers epath evers : Bytes) (id : Nat)
    (hskip : Module.matchPrefixPatterns P.glob P.nosumdb path = false)
    (hep : Module.escapePath path = .ok epath)
    (hev : Module.escapeVersion P.isLetter (Client.trimGoMod vers) = .ok evers)
    (hidx : S.index (B "/lookup/" ++ (epath ++ ([64] ++ evers))) = some id)
    (h32 : P.hashSize = 32) (h57 : Client.tileHeight P ≤ 57) (hsha : ∀ x, 4 ≤ (P.sha x).length) (fuel : Nat)
    (hadm : RunAdm P (honestEnv S) (amOf (tileSpecs P (honestEnv S) h32 h57)) (acOf (tileSpecs P (honestEnv S) h32 h57)) fuel
      ⟨s0, Client.newClient P, []⟩ earlier)
    (hadm' : LookupAdm P (honestEnv S) (amOf (tileSpecs P (honestEnv S) h32 h57)) (acOf (tileSpecs P (honestEnv S) h32 h57)) fuel
      (Client.runLookups P (honestEnv S) ⟨s0, Client.newClient P, []⟩ earlier) path vers) :
    ∃ cw1 cw' d, genRun (envOf P (honestEnv S)) fuel (cw0 P s0 z) earlier = .ok cw1 ∧
      HonestLookup P D S (B "/lookup/" ++ (epath ++ ([64] ++ evers))) d ∧
      Client_Lookup (envOf P (honestEnv S)) fuel path vers cw1 =
        .ok ((Client.filterLines (path ++ [32] ++ vers ++ [32]) d, none), cw') :=
  honest_never_fails_gen_S P D S stN hon s0 hs0 z earlier path vers epath evers id hskip hep hev hidx
    (tileSpecs P (honestEnv S) h32 h57) hsha fuel hadm hadm'

end

/-! ### non-vacuity of the added hypotheses

  The hypotheses `hM`, `hC`, `hsha`, `hadm`, `hadm'` are jointly satisfiable, here in the world of Tie/FnClientLookup.lean in
  which every read fails (so `initWork` fails before `mergeLatest` is reached and the side conditions `AM`, `AC` are never
  consulted: they can be `False`).  First lookup: an excluded module; second: `initWork` runs and fails.  On this instance
  the conclusion of `lookup_authentic_gen` is the run evaluated in Tie/FnClientLookup.lean (`ErrGONOSUMDB`, then the
  configuration error).  Instances with a working key need `TileSpecs` (the reads through tiles), see lean/PENDING.md. -/

open ModVerif.Tie.FnClientLookup (xP xE xW)

example :
    MergeLatestSpec xP xE (fun _ _ _ => False) ∧ CheckRecordSpec xP xE (fun _ _ _ _ => False) ∧
    (∀ x, 4 ≤ (xP.sha x).length) ∧
    RunAdm xP xE (fun _ _ _ => False) (fun _ _ _ _ => False) 60 xW [(B "x.y", B "v1.0.0")] ∧
    LookupAdm xP xE (fun _ _ _ => False) (fun _ _ _ _ => False) 60
      (Client.runLookups xP xE xW [(B "x.y", B "v1.0.0")]) (B "a.b/c") (B "v1.0.0") := by
  have hsk : Module.matchPrefixPatterns xP.glob xP.nosumdb (B "x.y") = true := by decide +kernel
  have hw : Client.runLookups xP xE xW [(B "x.y", B "v1.0.0")] = xW := by
    show (Client.lookup xP xE xW (B "x.y") (B "v1.0.0")).2 = xW
    unfold Client.lookup
    rw [if_pos hsk]
  refine ⟨fun _ _ _ _ _ h => h.elim, fun _ _ _ _ _ _ h => h.elim, fun _ => Nat.le_refl 4, ⟨?_, trivial⟩, ?_⟩
  · refine ⟨by decide +kernel, by decide +kernel, by decide +kernel, fun h => ?_⟩
    rw [hsk] at h; cases h
  · rw [hw]
    refine ⟨by decide +kernel, by decide +kernel, by decide +kernel, fun _ => ⟨fun _ => ?_, fun h => ?_⟩⟩
    · unfold InitAdm
      exact trivial
    · exact absurd h (by decide +kernel)

/-! ### non-vacuity, second instance: a world in which `initWork` SUCCEEDS

  `MergeLatestSpec` / `CheckRecordSpec` are proved here outright for the two calls that read nothing (`mergeLatest("")`:
  the empty timeline; `checkRecord(id)` with `id` beyond the latest tree), which is what a client with an empty stored head
  meets when the server answers a record without a tree note.  With them `Lookup_tie` applies, without any open hypothesis,
  to the instance below: key file of `Props.C01.HonestExample`, empty stored head, cold cache, the server answers the lookup
  path; both sides evaluated by the kernel. -/

section
variable {σ H : Type} [DecidableEq H] [Inhabited H]

/-- `mergeLatest("")`: the empty message is the unsigned empty timeline; nothing is read -/
theorem mergeLatestSpec_empty (P : Client.Params H) (E : Client.Env σ) :
    MergeLatestSpec P E (fun _ _ msg => msg = []) := by
  intro w cw msg fuel hr hm
  subst hm
  refine ⟨none, cw, ?_, ?_, ?_, rfl, rfl⟩
  · unfold Client_mergeLatest Client_mergeLatestMem
    by_cases h0 : cw.latest.N = 0 <;> simp [h0, pure, Except.pure, bind, Except.bind]
  · have : Client.mergeLatest P E w [] = (.ok (), w) := by
      simp [Client.mergeLatest, Client.mergeLatestMem]
      split <;> simp
    rw [this]; exact hr
  · have : (Client.mergeLatest P E w []).1 = .ok () := by
      simp [Client.mergeLatest, Client.mergeLatestMem]
      split <;> simp
    rw [this]; rfl

/-- `checkRecord(id, _)` with `id` beyond the latest tree: "cannot validate record"; nothing is read -/
theorem checkRecordSpec_beyond (P : Client.Params H) (E : Client.Env σ) :
    CheckRecordSpec P E (fun _ w id _ => id ≥ (w.c.latest.n : Int)) := by
  intro w cw id data fuel hr hid
  have hid' : id ≥ cw.latest.N := by rw [hr.latestN]; exact hid
  refine ⟨some "cannot validate record %d in tree of size %d", cw, ?_, ?_, ?_, rfl, rfl⟩
  · unfold Client_checkRecord
    simp [hid', pure, Except.pure]
  · have : Client.checkRecord P E w id data = (.error .recordId, w) := by
      simp [Client.checkRecord, hid]
    rw [this]; exact hr
  · have : (Client.checkRecord P E w id data).1 = .error .recordId := by
      simp [Client.checkRecord, hid]
    rw [this]; exact ⟨_, rfl, errAbs_recordId⟩
end

namespace InitExample
open ModVerif.Props.C01.HonestExample (hP hKeyFile hV hText hPath hkey_ok)

/-- a server response without a tree note: record 0, text `hText` -/
def yResp : Bytes := B "0\n" ++ hText ++ [10]

/-- the key file parses, the stored head is empty, the cache is cold, the server answers the one lookup path -/
def yE : Client.Env Unit :=
  { readRemote := fun s p => (if p = hPath then some yResp else none, s), readCache := fun s _ => (none, s),
    readConfig := fun s f => (if f = B "key" then some hKeyFile else some [], s),
    writeCache := fun s _ _ => s, writeConfig := fun s _ _ _ => (.ok, s), securityError := fun s _ => s }

def yW : Client.World Unit UInt8 := { s := (), c := Client.newClient hP, tr := [] }

def yAM : Nat → Client.World Unit UInt8 → Bytes → Prop := fun _ _ msg => msg = []
def yAC : Nat → Client.World Unit UInt8 → Int → Bytes → Prop := fun _ w id _ => id ≥ (w.c.latest.n : Int)

theorem y_sha : ∀ x, 4 ≤ (hP.sha x).length := fun _ => Nat.le_refl 4

-- both sides on this instance: `initWork` succeeds (key parsed, empty stored head merged), the response is fetched from
-- the server and parsed, `mergeLatest("")`, then `checkRecord(0)` refuses record 0 of the empty tree
example : (Client.lookup hP yE yW (B "example.com/m") (B "v1.0.0")).1 = .error .recordId ∧
    (Client.init hP yE yW).c.inited = some none ∧
    Tie.FnClientLookup.resOf (Client_Lookup (envOf hP yE) 200 (B "example.com/m") (B "v1.0.0") (cw0 hP () 0)) =
      some ([], some "%s@%s: %v|cannot validate record %d in tree of size %d") ∧
    errAbs "%s@%s: %v|cannot validate record %d in tree of size %d" = .recordId := by
  decide +kernel

/-- the side conditions of `Lookup_tie` hold on this instance -/
theorem y_adm : LookupAdm hP yE yAM yAC 200 yW (B "example.com/m") (B "v1.0.0") := by
  refine ⟨by decide +kernel, by decide +kernel, by decide +kernel, fun _ => ⟨fun _ => ?_, fun _ epath evers hp hv => ?_⟩⟩
  · unfold InitAdm
    have h1 : (Client.readConfig yE yW (B "key")).1 = some hKeyFile := by decide +kernel
    simp only [h1, hkey_ok]
    have h2 : (Client.readConfig yE
        { (Client.readConfig yE yW (B "key")).2 with
          c := { (Client.readConfig yE yW (B "key")).2.c with verifiers := [hV], name := hV.name } }
        (Client.latestFile hV.name)).1 = some [] := by decide +kernel
    simp only [h2]
    rfl
  · have hp' : Module.escapePath (B "example.com/m") = .ok (B "example.com/m") := by decide +kernel
    have hv' : Module.escapeVersion hP.isLetter (Client.trimGoMod (B "v1.0.0")) = .ok (B "v1.0.0") := by decide +kernel
    rw [hp'] at hp; rw [hv'] at hv
    cases hp; cases hv
    refine ⟨fun _ => ?_, fun data hd => ?_⟩
    · unfold LookupWorkAdm
      have hg : (lwGot yE (Client.init hP yE yW)
          ((Client.init hP yE yW).c.name ++ (B "/lookup/" ++ B "example.com/m" ++ [64] ++ B "v1.0.0"))
          (B "/lookup/" ++ B "example.com/m" ++ [64] ++ B "v1.0.0")).1 = some (yResp, true) := by decide +kernel
      simp only [hg]
      unfold ContAdm
      refine ⟨by decide +kernel, ?_⟩
      have hpr : TlogNote.parseRecord yResp = some (0, hText, []) := by decide +kernel
      simp only [hpr]
      refine ⟨rfl, ?_⟩
      split
      · trivial
      · show (0 : Int) ≥ _
        have : ∀ (w : Client.World Unit UInt8), w.c.latest.n = 0 → (0 : Int) ≥ (w.c.latest.n : Int) := by
          intro w h; rw [h]; exact Int.le_refl 0
        apply this
        decide +kernel
    · exfalso
      have : (lookupRes hP yE (Client.init hP yE yW)
          ((Client.init hP yE yW).c.name ++ (B "/lookup/" ++ B "example.com/m" ++ [64] ++ B "v1.0.0"))
          (B "/lookup/" ++ B "example.com/m" ++ [64] ++ B "v1.0.0")).1 = .error .recordId := by decide +kernel
      rw [this] at hd; cases hd

/-- … so the tie applies: hypotheses jointly satisfiable in a world where `initWork` succeeds and `Lookup` goes through
    its closure -/
example : ∃ r' cw', Client_Lookup (envOf hP yE) 200 (B "example.com/m") (B "v1.0.0") (cw0 hP () 0) = .ok (r', cw') ∧
    RepL hP yE (Client.lookup hP yE yW (B "example.com/m") (B "v1.0.0")).2 cw' ∧
    RepRes r' (Client.lookup hP yE yW (B "example.com/m") (B "v1.0.0")).1 :=
  Tie.FnClientLookup.Lookup_tie hP yE yAM yAC (mergeLatestSpec_empty hP yE) (checkRecordSpec_beyond hP yE) y_sha yW _ 200
    (B "example.com/m") (B "v1.0.0") (Tie.FnClientLookup.newClient_tie hP yE () 0) y_adm

end InitExample
end ModVerif.Tie.FnClientC01
