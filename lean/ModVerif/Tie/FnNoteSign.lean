/-
  Tie theorems, sumdb/note/note.go, part 2: the definitions `keyHash` and `Sign` (with its three loops: over the signers,
  and the nested loops over `[][]Signature{n.Sigs, n.UnverifiedSigs}`) regenerated from the Go source by go2lean
  (`Generated/FnNote.lean`) compute exactly what the hand model (`Model/Note.lean`: `keyHash`, `Sign`, `signNew`,
  `signExisting`, `sigLine`, `putU32`) says, for ALL inputs — in particular no panic (`signers[i]`, `list[i]`,
  `binary.BigEndian.PutUint32(hbuf[:], hash)`, `binary.BigEndian.Uint32(raw)` behind the `len(raw) < 4` test) and no fuel
  exhaustion.

  Instantiation of the abstract parameters of the generated code, as in Drv/GenNote.lean (op "sign"):
  `b64dec := b64decI`, `b64enc := B64.b64enc`, `isSpace := isSpaceI`; a model `Signature` is passed as `gsig s`
  (`uint32` hash ↦ the integer `h.toNat`; the same function as `TieFnNote.embedSig`), a model `Signer` as `gsigner s`
  (`Name`, `KeyHash`, and `Sign` returning `(sig, nil)` for `some sig` and an error for `none`), a note as `gnote n`
  (= `TieFnNote.embedNote n`).  `embedSign` maps the model's `Except SignErr Bytes` to the `([]byte, error)` pair of the Go
  function: `errMalformedNote`, `errInvalidSigner`, resp. the error the failing signer returned.  The map `have` of the
  generated code is an association list (`GoRt.mapGet` / `mapSet`); `TieFnNoteSign.HaveRel` relates it to the model's list of
  (name, hash) pairs.  For `keyHash` the hash accumulator `h.Sum(nil)` is `shaSum acc pre := pre ++ sha acc` with the model's
  abstract `sha`; the Go function panics exactly when the model returns `none` (a `sha` shorter than 4 bytes).
-/
import ModVerif.Generated.FnNote
import ModVerif.Model.Note
import ModVerif.Proofs.TieFnNoteSign
namespace ModVerif.Tie.FnNoteSign
open ModVerif ModVerif.GoRt ModVerif.TieFnNote ModVerif.TieFnNoteSign

/-- `keyHash(name, key)`, every name, key and hash function: the first four bytes of `sha(name ‖ "\n" ‖ key)`, big endian;
    a panic (index out of range in `binary.BigEndian.Uint32`) exactly when `sha` returns fewer than four bytes -/
theorem keyHash_tie (sha : Bytes → Bytes) (name key : Bytes) :
    Generated.Note.keyHash (fun acc pre => pre ++ sha acc) name key =
      match Note.keyHash sha name key with
      | some h => .ok (hashI h)
      | none => .error .panic :=
  keyHash_eq sha name key

/-- `keyHash` for a hash function with at least four bytes of output (SHA-256): never a panic -/
theorem keyHash_tie_ok (sha : Bytes → Bytes) (hsha : ∀ x, 4 ≤ (sha x).length) (name key : Bytes) :
    ∃ h, Note.keyHash sha name key = some h ∧
      Generated.Note.keyHash (fun acc pre => pre ++ sha acc) name key = .ok (hashI h) := by
  have ht := keyHash_tie sha name key
  cases hk : Note.keyHash sha name key with
  | some h => rw [hk] at ht; exact ⟨h, rfl, ht⟩
  | none =>
    exfalso
    have hl := hsha (name ++ [10] ++ key)
    unfold Note.keyHash at hk
    generalize sha (name ++ [10] ++ key) = s at hk hl
    match s, hl, hk with
    | _ :: _ :: _ :: _ :: _, _, hk => simp [Note.be32] at hk
    | [], hl, _ => simp at hl
    | [_], hl, _ => simp at hl
    | [_, _], hl, _ => simp at hl
    | [_, _, _], hl, _ => simp at hl

example : Generated.Note.keyHash (fun acc pre => pre ++ (fun x => x.take 5) acc) (B "ab") (B "k") = .ok 1633815147 ∧
    Note.keyHash (fun x => x.take 5) (B "ab") (B "k") = some 1633815147 ∧ hashI 1633815147 = 1633815147 ∧
    Generated.Note.keyHash (fun acc pre => pre ++ (fun x => x.take 3) acc) (B "ab") (B "k") = .error .panic ∧
    Note.keyHash (fun x => x.take 3) (B "ab") (B "k") = none := by decide +kernel

/-- `Sign(n, signers...)`, every note and every list of signers (any names, any `Sign` functions, failing ones
    included); fuel: one unit per signer resp. per existing signature, plus the three tests of the outer loop:
    `fuelBound n signers = n.sigs.length + n.unverifiedSigs.length + signers.length + 3` -/
theorem Sign_tie (n : Note.Note) (signers : List Note.Signer) (fuel : Nat) (hf : fuelBound n signers ≤ fuel) :
    Generated.Note.Sign b64decI B64.b64enc isSpaceI fuel (gnote n) (signers.map gsigner) =
      .ok (embedSign (Note.Sign n signers)) :=
  Sign_eq n signers fuel hf

/-- "hi\n" -/
def exT : Bytes := B "hi\n"
/-- an existing signature by key ("a", 1): base64 of 00 00 00 01 01 02 03 -/
def exSigA : Note.Signature := ⟨B "a", 1, B "AAAAAQECAw=="⟩
def exSignerB : Note.Signer := ⟨B "b", 7, fun _ => some [9]⟩
def exSignerA : Note.Signer := ⟨B "a", 1, fun _ => some [4, 5]⟩
def exSignerFail : Note.Signer := ⟨B "c", 2, fun _ => none⟩
def exSignerBad : Note.Signer := ⟨B "a b", 2, fun _ => some [1]⟩

-- an existing signature is kept byte for byte, the new one appended
example : Generated.Note.Sign b64decI B64.b64enc isSpaceI 8 (gnote ⟨exT, [exSigA], []⟩) ([exSignerB].map gsigner) =
      .ok (B "hi\n\n— a AAAAAQECAw==\n— b AAAABwk=\n", none) ∧
    embedSign (Note.Sign ⟨exT, [exSigA], []⟩ [exSignerB]) = (B "hi\n\n— a AAAAAQECAw==\n— b AAAABwk=\n", none) := by
  decide +kernel

-- a new signer with the (name, hash) of an existing signature replaces it (the map `have`), also in the unverified list
example : Generated.Note.Sign b64decI B64.b64enc isSpaceI 8 (gnote ⟨exT, [exSigA], [exSigA]⟩) ([exSignerA].map gsigner) =
      .ok (B "hi\n\n— a AAAAAQQF\n", none) ∧
    embedSign (Note.Sign ⟨exT, [exSigA], [exSigA]⟩ [exSignerA]) = (B "hi\n\n— a AAAAAQQF\n", none) := by
  decide +kernel

-- the three error results: text without final newline / hash mismatch in an existing signature, bad signer name, failing signer
example : Generated.Note.Sign b64decI B64.b64enc isSpaceI 8 (gnote ⟨B "hi", [], []⟩) ([exSignerB].map gsigner) =
      .ok ([], some "errMalformedNote") ∧
    embedSign (Note.Sign ⟨B "hi", [], []⟩ [exSignerB]) = ([], some "errMalformedNote") ∧
    Generated.Note.Sign b64decI B64.b64enc isSpaceI 8 (gnote ⟨exT, [], [⟨B "a", 2, B "AAAAAQECAw=="⟩]⟩) ([exSignerB].map gsigner) =
      .ok ([], some "errMalformedNote") ∧
    embedSign (Note.Sign ⟨exT, [], [⟨B "a", 2, B "AAAAAQECAw=="⟩]⟩ [exSignerB]) = ([], some "errMalformedNote") ∧
    Generated.Note.Sign b64decI B64.b64enc isSpaceI 8 (gnote ⟨exT, [], []⟩) ([exSignerB, exSignerBad].map gsigner) =
      .ok ([], some "errInvalidSigner") ∧
    embedSign (Note.Sign ⟨exT, [], []⟩ [exSignerB, exSignerBad]) = ([], some "errInvalidSigner") ∧
    Generated.Note.Sign b64decI B64.b64enc isSpaceI 8 (gnote ⟨exT, [], []⟩) ([exSignerFail, exSignerBad].map gsigner) =
      .ok ([], some "sign failed") ∧
    embedSign (Note.Sign ⟨exT, [], []⟩ [exSignerFail, exSignerBad]) = ([], some "sign failed") := by
  decide +kernel

end ModVerif.Tie.FnNoteSign
