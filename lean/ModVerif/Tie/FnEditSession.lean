/-
  Tie, COMPOSITION: whole edit sessions of the regenerated go.mod edit operations (Generated/FnEdit.lean, re-translated from
  modfile/{read,rule}.go on every check) as the driver `Drv.GenEdit` runs them, against the hand model's sessions
  (Model/Modfile/Edit.lean: `Edit.applyMod`, `Edit.runOps`; driver `Drv.Edit.M.sessionMod`).  Everything here is plumbing of
  the operation ties Tie/FnEdit{Tree,AddLine,Stmt,Req,Set,Sort}.lean over the shared representation `RepF`
  (Proofs/TieFnEditRep.lean: heap `h` at the `*File` pointer `fp` represents the model file `e`, line id = line pointer).

  (1) `applyOp_tie`: ONE operation.  For every `EditSpec.Op` `op`, with `opM op` the model operation the drivers decode it to
      (`rev = false`: the regenerated code iterates its maps in insertion order = `permOf false`):
        model `some (.ok e')`                    ↔ `applyOp … = .ok (some true, h')` and `RepF h' fp e'`;
        model returned error (`isReturned`)       ↔ `applyOp … = .ok (some false, h)`, the heap unchanged;
        model `nilDeref` / `badStatement` / `conflictingVersions` ↔ `applyOp … = .error .panic`;
        model `none` (a go.work operation)        ↔ `applyOp … = .ok (none, h)`.
      Side conditions `StepOK fuel e op`: the fuel bound `stepFuel e op ≤ fuel` (explicit, computable: the maximum of the
      bounds of the operation's tie); `ScalarsLive e` (the module / go / toolchain entries point at a line) and, for
      SetRequireSeparateIndirect, `InTree e` — both follow from the MODEL INVARIANT `Edit.P.Inv` that the C15 theorems
      maintain (`stepOK_of_Inv`).
  (2) `runOps_tie`: an operation LIST, by induction: same per-operation results, the final heap represents the final model
      state; a model panic at operation `j` is the driver's panic at that operation (same name); under `RunOK`
      (`StepOK` in every state of the model run).  `runOps_tie_valid`: under `Edit.P.Inv` and `Edit.RunValidLive` only the
      fuel part `FuelOK` is left, and the run completes.
      FUEL.  The driver runs with `driverFuel file ops = 8·|file| + 64·#ops + 4096`.  The ties' bounds are NOT below that in
      general (an operation's arguments are unbounded — `path.length + 1 ≤ fuel` —, and `sortFuel` grows with the bytes
      added by earlier operations), so the fuel is abstract and `FuelOK fuel e ops` says that it dominates each step's bound;
      `fuelOKB` is a sound Boolean test (kernel-evaluated in the examples with the driver's fuel).
  (3) `session_tie`: the whole `gedit.session` line — parse with the model, `load`, the regenerated operations, the
      regenerated final Cleanup, read back with `fileM`, print — is the string `edit.session` prints
      (`Drv.Edit.M.sessionMod file (ops.map opM)`): the typed dump is equal because `fileM` of a represented heap is the model
      file up to the typed `lineId`s, which the dump does not print (`fileM_rep`, `dumpMod_zeroIds`); the formatted bytes and
      the reparse are equal because the tree is read back exactly (edit-rep's `RepSyn.synM`).

  Helper files: Proofs/TieFnEditSession{A,B,C,D,E}.lean (E: sound Boolean tests of the hypotheses, example harness).  Owner: edit-session.
-/
import ModVerif.Proofs.TieFnEditSessionC
import ModVerif.Proofs.TieFnEditSessionD
import ModVerif.Proofs.TieFnEditSessionE
import ModVerif.Tie.FnEditTree
set_option linter.unusedSimpArgs false
set_option linter.unusedVariables false
namespace ModVerif.Tie.FnEditSession
open ModVerif ModVerif.GoRt ModVerif.Generated.Edit ModVerif.Tie.FnEditRep
open ModVerif.Tie.FnEditSessionA ModVerif.Tie.FnEditSessionB ModVerif.Tie.FnEditSessionC ModVerif.Tie.FnEditSessionD
open ModVerif.Tie.FnEditSessionE
open ModVerif.Modfile.Edit (EFile EditErr applyMod SessionResult)
open ModVerif.Drv.GenEdit (applyOp opNameD Run)
open ModVerif.Tie.FnEditSetQ (InTree)
open ModVerif.Tie.FnEditStmtEx (zeroIds)

/-! ### (1) one operation -/

/-- **`Drv.GenEdit.applyOp` = `Edit.applyMod`**, every operation; `StepOK`: fuel, `ScalarsLive`, `InTree` -/
theorem applyOp_tie {h : Heap} {fp : Int} {e : EFile} (R : RepF h fp e) (op : EditSpec.Op) (fuel : Nat)
    (ok : StepOK fuel e op) :
    match applyMod e (opM op) with
    | none => applyOp fuel fp h op = .ok (none, h)
    | some (.ok e') => ∃ h', applyOp fuel fp h op = .ok (some true, h') ∧ RepF h' fp e'
    | some (.error err) =>
      (err.isReturned = true ∧ applyOp fuel fp h op = .ok (some false, h)) ∨
      (err.isReturned = false ∧ applyOp fuel fp h op = .error .panic) :=
  applyOp_out R op ok.scalars ok.inTree fuel ok.fuel

/-- the errors of the model that are not returned errors are exactly the three Go panics -/
theorem not_returned_iff (err : EditErr) :
    err.isReturned = false ↔ err = .nilDeref ∨ err = .badStatement ∨ err = .conflictingVersions := by
  cases err <;> simp [Modfile.Edit.EditErr.isReturned]

/-- the driver panics EXACTLY when the model gives `nilDeref` / `badStatement` / `conflictingVersions` -/
theorem applyOp_panic_iff {h : Heap} {fp : Int} {e : EFile} (R : RepF h fp e) (op : EditSpec.Op) (fuel : Nat)
    (ok : StepOK fuel e op) :
    applyOp fuel fp h op = .error .panic ↔
      applyMod e (opM op) = some (.error .nilDeref) ∨ applyMod e (opM op) = some (.error .badStatement) ∨
      applyMod e (opM op) = some (.error .conflictingVersions) := by
  have T := applyOp_tie R op fuel ok
  cases hx : applyMod e (opM op) with
  | none => rw [hx] at T; simp only [T]; simp
  | some x =>
    cases x with
    | ok e' => rw [hx] at T; obtain ⟨h', h1, _⟩ := T; simp [h1]
    | error err =>
      rw [hx] at T
      rcases T with ⟨hr, h1⟩ | ⟨hr, h1⟩
      · simp only [h1]
        cases err <;> simp [Modfile.Edit.EditErr.isReturned] at hr ⊢
      · simp only [h1, true_iff]
        rcases (not_returned_iff err).1 hr with rfl | rfl | rfl <;> simp

/-- the side conditions other than fuel follow from the model invariant (and the validity of the arguments) -/
theorem stepOK_of_Inv {e : EFile} {op : EditSpec.Op} {fuel : Nat} (hi : Modfile.Edit.P.Inv e)
    (hv : Modfile.Edit.ValidArgsLive e (opM op)) (hf : stepFuel e op ≤ fuel) : StepOK fuel e op :=
  ⟨hf, scalarsLive_of_Inv hi, fun w hw => by subst hw; exact inTree_of_Inv_live hi hv.2⟩

/-! ### (2) an operation list -/

/-- **`Drv.GenEdit.runOps` = `Edit.runOps Edit.applyMod`** (`RunRel`: `.done e' res` ↔ `.done h' res` with `RepF h' fp e'`;
    `.panic j` ↔ `.panic (name of the j-th operation)`; `.badOp` ↔ `.badOp`) -/
theorem runOps_tie (fuel : Nat) (fp : Int) (ops : List EditSpec.Op) (h : Heap) (e : EFile) (R : RepF h fp e)
    (ok : RunOK fuel e ops) :
    match Modfile.Edit.runOps applyMod e (ops.map opM) [] 0 with
    | .done e' res => ∃ h', Drv.GenEdit.runOps fuel fp h ops [] = .done h' res ∧ RepF h' fp e'
    | .panic j => ∃ op, ops[j]? = some op ∧ Drv.GenEdit.runOps fuel fp h ops [] = .panic (opNameD op)
    | .badOp => Drv.GenEdit.runOps fuel fp h ops [] = .badOp := by
  have T := runOps_rel fuel fp ops h e [] 0 R ok
  cases hx : Modfile.Edit.runOps applyMod e (ops.map opM) [] 0 with
  | done e' res => rw [hx] at T; exact T
  | panic j => rw [hx] at T; obtain ⟨op, _, h2, h3⟩ := T; exact ⟨op, h2, h3⟩
  | badOp => rw [hx] at T; exact T

/-- a session with valid arguments from a state satisfying the model invariant (`Edit.P.Inv`, `Edit.RunValidLive`: the
    hypotheses of C15's `nilDeref_unreachable`): the regenerated run completes — no panic —, with the model's results, in a
    heap that represents the model's final state; only the fuel is asked for -/
theorem runOps_tie_valid (fuel : Nat) (fp : Int) (ops : List EditSpec.Op) (h : Heap) (e : EFile) (R : RepF h fp e)
    (hi : Modfile.Edit.P.Inv e) (hv : Modfile.Edit.RunValidLive e (ops.map opM))
    (hm : ∀ op ∈ ops.map opM, Modfile.Edit.IsModOp op) (hf : FuelOK fuel e ops) :
    ∃ e' res h', Modfile.Edit.runOps applyMod e (ops.map opM) [] 0 = .done e' res ∧
      Drv.GenEdit.runOps fuel fp h ops [] = .done h' res ∧ RepF h' fp e' ∧ Modfile.Edit.P.Inv e' :=
  runOps_valid fuel fp ops h e R hi hv hm hf

/-! ### (3) the session line -/

/-- the fuel `Drv.GenEdit.session` runs with -/
def driverFuel (file : Bytes) (ops : List EditSpec.Op) : Nat := 8 * file.length + 64 * ops.length + 4096

/-- the regenerated final Cleanup and the read-back, on a heap that represents `e` -/
theorem final_cleanup {h : Heap} {fp : Int} {e : EFile} (R : RepF h fp e) (fuel : Nat) (hf : stepFuel e .cleanup ≤ fuel) :
    ∃ h', File_Cleanup fuel fp h = .ok ((), h') ∧ RepF h' fp (Modfile.Edit.cleanup e) ∧
      Drv.GenEdit.fileM h' fp = some (zeroIds (Modfile.Edit.cleanup e).f) := by
  simp only [stepFuel] at hf
  obtain ⟨h', h1, R'⟩ := FnEditSort.File_Cleanup_tie R fuel (by omega) (by omega)
  exact ⟨h', h1, R', fileM_rep R'⟩

/-- **`gedit.session` prints what `edit.session` prints**: for every file and operation list, if (when the file parses) the
    model run from `Edit.load f` satisfies `RunOK` with the driver's fuel and the fuel covers the final Cleanup, the two
    output strings are EQUAL — parse error, bad operation, panic (same operation name), or the full line
    `ops=… typed: … fmt=… reparse: …` (equal per-operation results, equal typed dump, equal formatted bytes, equal reparse). -/
theorem session_tie (file : Bytes) (ops : List EditSpec.Op)
    (ok : ∀ f, Modfile.parseStrict (B "go.mod") file none = .ok f →
      RunOK (driverFuel file ops) (Modfile.Edit.load f) ops ∧ FinalFuel (driverFuel file ops) (Modfile.Edit.load f) ops) :
    Drv.GenEdit.session file ops = Drv.Edit.M.sessionMod file (ops.map opM) := by
  unfold Drv.GenEdit.session Drv.Edit.M.sessionMod
  cases hp : Modfile.parseStrict (B "go.mod") file none with
  | error err => rfl
  | ok f =>
    obtain ⟨hrun, hfin⟩ := ok f hp
    have R := FnEditTree.load_parsed_rep hp
    have T := runOps_tie (driverFuel file ops) (Drv.GenEdit.load f).2 ops (Drv.GenEdit.load f).1 _ R hrun
    simp only []
    show (match Drv.GenEdit.runOps (driverFuel file ops) (Drv.GenEdit.load f).2 (Drv.GenEdit.load f).1 ops [] with
      | .badOp => "bad-op"
      | .panic n => "panic:" ++ n
      | .done h res => _) = _
    cases hx : Modfile.Edit.runOps applyMod (Modfile.Edit.load f) (ops.map opM) [] 0 with
    | badOp =>
      rw [hx] at T
      simp only [T]
    | panic j =>
      rw [hx] at T
      obtain ⟨op, h1, h2⟩ := T
      simp only [h2, List.getElem?_map, h1, Option.map_some, Option.getD_some, opName_opM]
    | done e' res =>
      rw [hx] at T
      obtain ⟨h', h1, R'⟩ := T
      obtain ⟨h'', h2, R'', h3⟩ := final_cleanup R' (driverFuel file ops) (hfin e' res hx)
      simp only [h1]
      show (match File_Cleanup (driverFuel file ops) (Drv.GenEdit.load f).2 h' with
        | .error _ => "panic:final-cleanup"
        | .ok (_, h) => _) = _
      simp only [h2, h3, zeroIds_syn, dumpMod_zeroIds]
      rfl

/-- the form under the hypotheses of C15's `nilDeref_unreachable`: a strictly parsed well-formed file, a statically valid
    session of go.mod operations; only fuel is asked for (`FuelOK` / `FinalFuel` with the driver's fuel) -/
theorem session_tie_valid (file : Bytes) (ops : List EditSpec.Op)
    (hk : ∀ f, Modfile.parseStrict (B "go.mod") file none = .ok f → Modfile.Edit.WellFormedKeys f ∧ Modfile.Edit.NoBlockSuffix f.syn)
    (hv : Modfile.Edit.StaticValid false (ops.map opM))
    (hf : ∀ f, Modfile.parseStrict (B "go.mod") file none = .ok f →
      FuelOK (driverFuel file ops) (Modfile.Edit.load f) ops ∧ FinalFuel (driverFuel file ops) (Modfile.Edit.load f) ops) :
    Drv.GenEdit.session file ops = Drv.Edit.M.sessionMod file (ops.map opM) := by
  refine session_tie file ops fun f hp => ⟨?_, (hf f hp).2⟩
  have hi := Modfile.Edit.P.Inv.ofFull (Modfile.Edit.parseStrict_inv hp (hk f hp).1 (hk f hp).2)
  exact runOK_of_valid _ ops _ hi
    (Modfile.Edit.StaticValid.runValidLive _ false _ hv (fun hc => by cases hc)) (hf f hp).1

/-! ### non-vacuity: kernel-evaluated sessions on a parsed two-block go.mod

  `exFile`: module, go, a require block (one requirement `// indirect; why`, a comment line), a single require line, an
  exclude line, a retract line.  `exOps`: a session with both bulk setters (each directly after a Cleanup), AddTool
  (SortBlocks), a returned error (`go 1.x`).  `exBad`: a session that panics (a second drop of the key "" hits the cleared
  godebug entry: the model's `nilDeref`). -/

section examples

def exFile : Bytes :=
  B "module \"example.com/m\"\n\ngo 1.21\n\ngodebug a=b\n\nrequire (\n\texample.com/a v1.0.0 // indirect; why\n\t// keep\n\texample.com/b v1.2.3\n)\nrequire example.com/c v1.0.0 // c\nexclude example.com/b v1.0.0\nretract [v1.1.0, v1.2.0] // bad\n"

def exOps : List EditSpec.Op :=
  [.addRequire (B "example.com/d") (B "v1.0.0"), .addGo (B "1.x"), .cleanup,
   .setRequireSeparateIndirect [⟨B "example.com/a", B "v1.4.0", false⟩, ⟨B "example.com/e", B "v1.0.0", true⟩, ⟨B "example.com/c", B "v1.0.0", true⟩],
   .cleanup, .setRequire [⟨B "example.com/a", B "v1.5.0", true⟩], .addTool (B "example.com/t"), .dropGodebug (B "a"), .cleanup]

def exBad : List EditSpec.Op := [.dropGodebug (B "a"), .addModule (B "n"), .dropGodebug [], .dropGo]

/-- the hypotheses of `session_tie_valid` hold of the example (with the driver's fuel) -/
theorem ex_keys : ∀ f, Modfile.parseStrict (B "go.mod") exFile none = .ok f →
    Modfile.Edit.WellFormedKeys f ∧ Modfile.Edit.NoBlockSuffix f.syn :=
  of_parsed exFile (fun f => Modfile.Edit.startOKb f && noBlockSuffixB f.syn)
    (fun f h => by
      simp only [Bool.and_eq_true] at h
      exact ⟨(Modfile.Edit.startOKb_sound f h.1).keys, noBlockSuffixB_sound h.2⟩)
    (by decide +kernel)

theorem ex_static : Modfile.Edit.StaticValid false (exOps.map opM) :=
  Modfile.Edit.staticValidB_sound _ _ (by decide +kernel)

theorem ex_fuel : ∀ f, Modfile.parseStrict (B "go.mod") exFile none = .ok f →
    FuelOK (driverFuel exFile exOps) (Modfile.Edit.load f) exOps ∧ FinalFuel (driverFuel exFile exOps) (Modfile.Edit.load f) exOps :=
  of_parsed exFile (fun f => fuelOKB (driverFuel exFile exOps) (Modfile.Edit.load f) exOps &&
      finalFuelB (driverFuel exFile exOps) (Modfile.Edit.load f) exOps)
    (fun f h => by
      simp only [Bool.and_eq_true] at h
      exact ⟨fuelOKB_sound _ _ _ h.1, finalFuelB_sound h.2⟩)
    (by decide +kernel)

-- `session_tie_valid` / `session_tie` on the example: the two drivers print the same line
example : Drv.GenEdit.session exFile exOps = Drv.Edit.M.sessionMod exFile (exOps.map opM) :=
  session_tie_valid exFile exOps ex_keys ex_static ex_fuel

-- … and the regenerated session is kernel-evaluated and compared with the model session: per-operation results (the second
-- operation returns an error), the typed lists and the whole syntax tree after the final Cleanup
example : genSession (driverFuel exFile exOps) exFile exOps = modelSession exFile exOps ∧
    (genSession (driverFuel exFile exOps) exFile exOps).map (·.1) =
      some [true, false, true, true, true, true, true, true, true] := by decide +kernel

-- `runOps_tie_valid` on the example
example : ∃ f, Modfile.parseStrict (B "go.mod") exFile none = .ok f ∧
    ∃ e' res h', Modfile.Edit.runOps applyMod (Modfile.Edit.load f) (exOps.map opM) [] 0 = .done e' res ∧
      Drv.GenEdit.runOps (driverFuel exFile exOps) (Drv.GenEdit.load f).2 (Drv.GenEdit.load f).1 exOps [] = .done h' res ∧
      RepF h' (Drv.GenEdit.load f).2 e' ∧ Modfile.Edit.P.Inv e' := by
  cases hp : Modfile.parseStrict (B "go.mod") exFile none with
  | error err =>
    have : (Modfile.parseStrict (B "go.mod") exFile none).toOption.isSome = true := by decide +kernel
    rw [hp] at this; cases this
  | ok f =>
    refine ⟨f, rfl, runOps_tie_valid _ _ exOps _ _ (FnEditTree.load_parsed_rep hp)
      (Modfile.Edit.P.Inv.ofFull (Modfile.Edit.parseStrict_inv hp (ex_keys f hp).1 (ex_keys f hp).2))
      (Modfile.Edit.StaticValid.runValidLive _ false _ ex_static (fun hc => by cases hc))
      (isModOpB_sound (by decide +kernel)) (ex_fuel f hp).1⟩

-- a panicking session: `RunOK` holds (Boolean test), the model panics at operation 2, the regenerated run panics at
-- "dropgodebug", and the two drivers print the same `panic:` line (`session_tie`)
theorem exBad_ok : ∀ f, Modfile.parseStrict (B "go.mod") exFile none = .ok f →
    RunOK (driverFuel exFile exBad) (Modfile.Edit.load f) exBad ∧ FinalFuel (driverFuel exFile exBad) (Modfile.Edit.load f) exBad :=
  of_parsed exFile (fun f => runOKB (driverFuel exFile exBad) (Modfile.Edit.load f) exBad &&
      finalFuelB (driverFuel exFile exBad) (Modfile.Edit.load f) exBad)
    (fun f h => by
      simp only [Bool.and_eq_true] at h
      exact ⟨runOKB_sound _ _ _ h.1, finalFuelB_sound h.2⟩)
    (by decide +kernel)

example : Drv.GenEdit.session exFile exBad = Drv.Edit.M.sessionMod exFile (exBad.map opM) :=
  session_tie exFile exBad exBad_ok

example : modelPanic exFile exBad = some 2 ∧ genPanic (driverFuel exFile exBad) exFile exBad = some "dropgodebug" := by
  decide +kernel

-- `applyOp_tie` / `applyOp_panic_iff` on the loaded example: one operation (a returned error: the heap is unchanged)
example : ∀ f, Modfile.parseStrict (B "go.mod") exFile none = .ok f →
    applyOp 4096 (Drv.GenEdit.load f).2 (Drv.GenEdit.load f).1 (.addGo (B "1.x")) = .ok (some false, (Drv.GenEdit.load f).1) := by
  intro f hp
  have ok : StepOK 4096 (Modfile.Edit.load f) (.addGo (B "1.x")) :=
    of_parsed exFile (fun f => stepOKB 4096 (Modfile.Edit.load f) (.addGo (B "1.x"))) (fun f h => stepOKB_sound h)
      (by decide +kernel) f hp
  have T := applyOp_tie (FnEditTree.load_parsed_rep hp) (.addGo (B "1.x")) 4096 ok
  have hx : applyMod (Modfile.Edit.load f) (opM (.addGo (B "1.x"))) = some (.error .invalidGoVersion) := by
    simp only [opM, opR, applyMod, Modfile.Edit.addGoStmt]
    rw [if_pos (by decide +kernel)]
  rw [hx] at T
  rcases T with ⟨_, h1⟩ | ⟨hr, _⟩
  · exact h1
  · cases hr

end examples

end ModVerif.Tie.FnEditSession
