/-
  C19 transported to the regenerated code: the property theorems of Props/C19.lean that are about `hash1` (hand model
  Model/Dirhash.lean) restated about `Generated.Dirhash.Hash1` (Generated/FnDirhash.lean, re-translated from
  sumdb/dirhash/hash.go on every run) through the tie theorems of Tie/FnDirhash.lean.

  `genHash1 sha fuel files open_` is the regenerated Hash1 with SHA-256 read as the abstract function `sha`
  (`h.Sum(prefix) = prefix ++ sha (bytes written)`) and `base64.StdEncoding.EncodeToString = Base64.encodeStd`.
  The `open` callback is ARBITRARY in every statement (`open_ : Bytes → Bytes × Option String`, content read to the end
  and error); a callback "reads the pairs of `l`" when `open_ p.1 = (p.2, none)` for every `p ∈ l`.  The only extra
  hypothesis is the fuel bound `files.length + 1 ≤ fuel`.  Every statement is about the RESULT `.ok (string, error)` of
  the generated function, so it also says: no index panic and no fuel exhaustion.  The hand model does not occur in the
  statements (only `Dirhash.sortStrings` in `gen_summary_injective`, which `Props.C19.sortStrings_unique` characterises
  as THE sorted permutation, and `Props.C19.docLine`, the documented line).

  Not transported: `zip_dir_agree` (HashZip / HashDir / DirFiles are not in the generated unit).  Corollaries only —
  nothing here is used by another module.
-/
import ModVerif.Tie.FnDirhash
import ModVerif.Props.C19
import ModVerif.Proofs.TieFnDirhashC19
namespace ModVerif.Tie.FnDirhashC19
open ModVerif ModVerif.Dirhash ModVerif.TieFnDirhash ModVerif.Tie.FnDirhash

/-- the regenerated Hash1 over an abstract SHA-256 -/
abbrev genHash1 (sha : Bytes → Bytes) (fuel : Nat) (files : List Bytes) (open_ : Bytes → Bytes × Option String) :
    GoRt.M (Bytes × Option String) :=
  Generated.Dirhash.Hash1 Base64.encodeStd (fun acc pre => pre ++ sha acc) fuel files open_

/-- the text of the newline error -/
abbrev newlineError : String := "dirhash: filenames with newlines are not supported"

/-! ### the documented formula -/

/-- ★ The documented formula (C19 `hash1_formula`) for the regenerated Hash1.  For a file set `l` without newline
    names, ANY listing `s` of the same pairs in strictly increasing bytewise name order, and any callback that reads
    the pairs of `l`:  Hash1 = ("h1:" ++ base64 (sha256 (concatenation of the documented lines of `s`)), nil). -/
theorem gen_Hash1_formula (sha : Bytes → Bytes) (l s : List (Bytes × Bytes))
    (hperm : s.Perm l) (hsorted : s.Pairwise (fun a b => bytesLt a.1 b.1 = true))
    (hnl : ∀ p ∈ l, (10 : UInt8) ∉ p.1)
    (open_ : Bytes → Bytes × Option String) (hopen : ∀ p ∈ l, open_ p.1 = (p.2, none))
    (fuel : Nat) (hf : l.length + 1 ≤ fuel) :
    genHash1 sha fuel (l.map (·.1)) open_ =
      .ok ([104, 49, 58] ++ Base64.encodeStd (sha (s.flatMap (Props.C19.docLine sha))), none) := by
  have hsn : (s.map (·.1)).Pairwise (fun a b => bytesLt a b = true) := List.pairwise_map.2 hsorted
  have hnd : (l.map (·.1)).Nodup := ((hperm.map (·.1)).nodup_iff).1 (strictSorted_nodup bytesLt_strictTotal hsn)
  have hh : hash1 sha (l.map (·.1)) (openFOf open_) = hash1Pairs sha l :=
    hash1_congr sha _ _ _ (openFOf_eq_openPairs hnd hopen)
  unfold genHash1
  rw [Hash1_tie_anyOpen sha _ open_ fuel (by simpa using hf), hh,
    Props.C19.hash1_formula sha l s hperm hsorted hnl]

/-- Conversely (C19 `hash1_ok`) a newline-free file set with distinct names whose files all open is never refused. -/
theorem gen_Hash1_ok (sha : Bytes → Bytes) (l : List (Bytes × Bytes)) (hnd : (l.map (·.1)).Nodup)
    (hnl : ∀ p ∈ l, (10 : UInt8) ∉ p.1)
    (open_ : Bytes → Bytes × Option String) (hopen : ∀ p ∈ l, open_ p.1 = (p.2, none))
    (fuel : Nat) (hf : l.length + 1 ≤ fuel) :
    ∃ r, genHash1 sha fuel (l.map (·.1)) open_ = .ok (r, none) := by
  obtain ⟨r, hr⟩ := Props.C19.hash1_ok sha l hnd hnl
  have hh : hash1 sha (l.map (·.1)) (openFOf open_) = hash1Pairs sha l :=
    hash1_congr sha _ _ _ (openFOf_eq_openPairs hnd hopen)
  refine ⟨r, ?_⟩
  unfold genHash1
  rw [Hash1_tie_anyOpen sha _ open_ fuel (by simpa using hf), hh, hr]

/-! ### independence of the listing order -/

/-- ★ Independence of the listing order (C19 `hash1_perm`) for the regenerated Hash1: the returned pair — hash or
    error, including WHICH error — depends only on the multiset of listed names and on the callback (and not on the
    fuel, once sufficient). -/
theorem gen_Hash1_perm (sha : Bytes → Bytes) (open_ : Bytes → Bytes × Option String) {l₁ l₂ : List Bytes}
    (h : l₁.Perm l₂) (fuel₁ fuel₂ : Nat) (hf₁ : l₁.length + 1 ≤ fuel₁) (hf₂ : l₂.length + 1 ≤ fuel₂) :
    genHash1 sha fuel₁ l₁ open_ = genHash1 sha fuel₂ l₂ open_ := by
  unfold genHash1
  rw [Hash1_tie_anyOpen sha l₁ open_ fuel₁ hf₁, Hash1_tie_anyOpen sha l₂ open_ fuel₂ hf₂,
    Props.C19.hash1_perm sha (openFOf open_) h, sortStrings_eq_of_perm h]

/-- ★ Independence of the listing order for file sets (C19 `hash1Pairs_perm`): with distinct names, any two listings
    of the same pairs, read by any two callbacks that read these pairs, hash alike. -/
theorem gen_Hash1_pairs_perm (sha : Bytes → Bytes) {l₁ l₂ : List (Bytes × Bytes)} (h : l₁.Perm l₂)
    (hnd : (l₁.map (·.1)).Nodup)
    (open₁ open₂ : Bytes → Bytes × Option String)
    (hopen₁ : ∀ p ∈ l₁, open₁ p.1 = (p.2, none)) (hopen₂ : ∀ p ∈ l₂, open₂ p.1 = (p.2, none))
    (hnl : ∀ p ∈ l₁, (10 : UInt8) ∉ p.1)
    (fuel₁ fuel₂ : Nat) (hf₁ : l₁.length + 1 ≤ fuel₁) (hf₂ : l₂.length + 1 ≤ fuel₂) :
    genHash1 sha fuel₁ (l₁.map (·.1)) open₁ = genHash1 sha fuel₂ (l₂.map (·.1)) open₂ := by
  have hnd₂ : (l₂.map (·.1)).Nodup := ((h.map (·.1)).nodup_iff).1 hnd
  obtain ⟨r₁, hr₁⟩ := gen_Hash1_ok sha l₁ hnd hnl open₁ hopen₁ fuel₁ hf₁
  obtain ⟨r₂, hr₂⟩ := gen_Hash1_ok sha l₂ hnd₂ (fun p hp => hnl p (h.symm.subset hp)) open₂ hopen₂ fuel₂ hf₂
  have h₁ : hash1 sha (l₁.map (·.1)) (openFOf open₁) = hash1Pairs sha l₁ :=
    hash1_congr sha _ _ _ (openFOf_eq_openPairs hnd hopen₁)
  have h₂ : hash1 sha (l₂.map (·.1)) (openFOf open₂) = hash1Pairs sha l₂ :=
    hash1_congr sha _ _ _ (openFOf_eq_openPairs hnd₂ hopen₂)
  have e₁ := hr₁
  have e₂ := hr₂
  unfold genHash1 at e₁ e₂
  rw [Hash1_tie_anyOpen sha _ open₁ fuel₁ (by simpa using hf₁), Except.ok.injEq] at e₁
  replace e₁ := (result_ok_iff sha _ _ _).1 e₁
  rw [h₁] at e₁
  rw [Hash1_tie_anyOpen sha _ open₂ fuel₂ (by simpa using hf₂), Except.ok.injEq] at e₂
  replace e₂ := (result_ok_iff sha _ _ _).1 e₂
  rw [h₂] at e₂
  rw [Props.C19.hash1Pairs_perm sha h hnd, e₂] at e₁
  rw [hr₁, hr₂, Except.ok.inj e₁]

/-! ### newline names -/

/-- ★ Names containing a newline are refused (C19 `newline_rejected`): for a list with such a name the regenerated
    Hash1 returns the empty string and a non-nil error, whatever the callback does ... -/
theorem gen_newline_rejected (sha : Bytes → Bytes) (files : List Bytes) (open_ : Bytes → Bytes × Option String)
    (n : Bytes) (hm : n ∈ files) (hn : (10 : UInt8) ∈ n) (fuel : Nat) (hf : files.length + 1 ≤ fuel) :
    ∃ msg, genHash1 sha fuel files open_ = .ok ([], some msg) := by
  have hsome := firstErr_isSome_of_newline open_ (sortStrings files) n
    ((sortStrings_perm files).symm.subset hm) (hasNewline_of_mem hn)
  obtain ⟨msg, hmsg⟩ := Option.isSome_iff_exists.1 hsome
  refine ⟨msg, ?_⟩
  unfold genHash1
  rw [Hash1_tie_anyOpen sha files open_ fuel hf]
  cases hh : hash1 sha files (openFOf open_) with
  | ok r => exact absurd hh (Props.C19.newline_rejected sha files _ n hm hn r)
  | error er => simp [hmsg]

/-- ... in particular it never returns a hash ... -/
theorem gen_newline_never_ok (sha : Bytes → Bytes) (files : List Bytes) (open_ : Bytes → Bytes × Option String)
    (n : Bytes) (hm : n ∈ files) (hn : (10 : UInt8) ∈ n) (fuel : Nat) (hf : files.length + 1 ≤ fuel) (r : Bytes) :
    genHash1 sha fuel files open_ ≠ .ok (r, none) := by
  obtain ⟨msg, h⟩ := gen_newline_rejected sha files open_ n hm hn fuel hf
  rw [h]; intro e; cases e

/-- ... and when every listed file can be read (C19 `newline_rejected_err`), the error is the newline error. -/
theorem gen_newline_rejected_err (sha : Bytes → Bytes) (files : List Bytes) (open_ : Bytes → Bytes × Option String)
    (n : Bytes) (hm : n ∈ files) (hn : (10 : UInt8) ∈ n) (ho : ∀ m ∈ files, (open_ m).2 = none)
    (fuel : Nat) (hf : files.length + 1 ≤ fuel) :
    genHash1 sha fuel files open_ = .ok ([], some newlineError) := by
  have hfe := firstErr_newline open_ (sortStrings files) n ((sortStrings_perm files).symm.subset hm)
    (hasNewline_of_mem hn) (fun m hm' => ho m ((sortStrings_perm files).subset hm'))
  unfold genHash1
  rw [Hash1_tie_anyOpen sha files open_ fuel hf]
  cases hh : hash1 sha files (openFOf open_) with
  | ok r => exact absurd hh (Props.C19.newline_rejected sha files _ n hm hn r)
  | error er => simp [hfe, newlineMsg]

/-! ### the hash determines the files -/

/-- ★ The summary determines the files (C19 `summary_injective`), read off the RETURNED hash: for a collision-free
    `sha`, if two calls of the regenerated Hash1 (any lists, any callbacks) return the same hash, then the sorted name
    lists are equal and every listed name was opened successfully on both sides with the same content.
    (Collision freedom is needed only because the summary is observed through `sha`; see `gen_summary_injective_loop`
    for the statement on the summary itself, without any assumption on `sha`.) -/
theorem gen_summary_injective (sha : Bytes → Bytes) (hsha : Function.Injective sha)
    {files₁ files₂ : List Bytes} {open₁ open₂ : Bytes → Bytes × Option String} {r : Bytes}
    (fuel₁ fuel₂ : Nat) (hf₁ : files₁.length + 1 ≤ fuel₁) (hf₂ : files₂.length + 1 ≤ fuel₂)
    (h₁ : genHash1 sha fuel₁ files₁ open₁ = .ok (r, none)) (h₂ : genHash1 sha fuel₂ files₂ open₂ = .ok (r, none)) :
    sortStrings files₁ = sortStrings files₂ ∧
    ∀ n ∈ files₁, ∃ c, open₁ n = (c, none) ∧ open₂ n = (c, none) := by
  unfold genHash1 at h₁ h₂
  rw [Hash1_tie_anyOpen sha _ open₁ fuel₁ hf₁, Except.ok.injEq] at h₁
  replace h₁ := (result_ok_iff sha _ _ _).1 h₁
  rw [Hash1_tie_anyOpen sha _ open₂ fuel₂ hf₂, Except.ok.injEq] at h₂
  replace h₂ := (result_ok_iff sha _ _ _).1 h₂
  obtain ⟨s, hs₁, hs₂⟩ := summary_of_hash1_eq sha hsha h₁ h₂
  obtain ⟨hnames, hfiles⟩ := Props.C19.summary_injective sha hs₁ hs₂
  refine ⟨hnames, ?_⟩
  intro n hn
  obtain ⟨c₁, c₂, e₁, e₂, e⟩ := hfiles n hn
  have : c₁ = c₂ := hsha e
  subst this
  exact ⟨c₁, openFOf_eq_some e₁, openFOf_eq_some e₂⟩

/-- ★ Different sets of (name, content) pairs hash differently (C19 `summary_injective_sets`): for file sets with
    distinct names, callbacks that read them and a collision-free `sha`, equal returned hashes imply the same set of
    pairs. -/
theorem gen_Hash1_injective_sets (sha : Bytes → Bytes) (hsha : Function.Injective sha)
    {l₁ l₂ : List (Bytes × Bytes)} (hnd₁ : (l₁.map (·.1)).Nodup) (hnd₂ : (l₂.map (·.1)).Nodup)
    (open₁ open₂ : Bytes → Bytes × Option String)
    (hopen₁ : ∀ p ∈ l₁, open₁ p.1 = (p.2, none)) (hopen₂ : ∀ p ∈ l₂, open₂ p.1 = (p.2, none))
    {r : Bytes} (fuel₁ fuel₂ : Nat) (hf₁ : l₁.length + 1 ≤ fuel₁) (hf₂ : l₂.length + 1 ≤ fuel₂)
    (h₁ : genHash1 sha fuel₁ (l₁.map (·.1)) open₁ = .ok (r, none))
    (h₂ : genHash1 sha fuel₂ (l₂.map (·.1)) open₂ = .ok (r, none)) : l₁.Perm l₂ := by
  unfold genHash1 at h₁ h₂
  rw [Hash1_tie_anyOpen sha _ open₁ fuel₁ (by simpa using hf₁), Except.ok.injEq] at h₁
  replace h₁ := (result_ok_iff sha _ _ _).1 h₁
  rw [Hash1_tie_anyOpen sha _ open₂ fuel₂ (by simpa using hf₂), Except.ok.injEq] at h₂
  replace h₂ := (result_ok_iff sha _ _ _).1 h₂
  obtain ⟨s, hs₁, hs₂⟩ := summary_of_hash1_eq sha hsha h₁ h₂
  rw [summary_congr sha _ _ _ (openFOf_eq_openPairs hnd₁ hopen₁)] at hs₁
  rw [summary_congr sha _ _ _ (openFOf_eq_openPairs hnd₂ hopen₂)] at hs₂
  exact Props.C19.summary_injective_sets sha hsha hnd₁ hnd₂ hs₁ hs₂

/-- ★ `summary_injective` on the summary itself (no assumption on `sha`): the bytes written to `h` are the final
    accumulator of the regenerated range loop `Hash1_loop1`, run as Hash1 runs it (over `sort.Strings(files)`, from
    index 0 with the empty accumulator).  If two such runs finish (no early return) with the same accumulator, then
    the sorted name lists are equal and every name opened on both sides with contents of equal digest. -/
theorem gen_summary_injective_loop (sha : Bytes → Bytes) (b64enc : Bytes → Bytes)
    {files₁ files₂ : List Bytes} {open₁ open₂ : Bytes → Bytes × Option String} {s : Bytes} {i₁ i₂ : Int}
    (fuel₁ fuel₂ : Nat) (hf₁ : files₁.length + 1 ≤ fuel₁) (hf₂ : files₂.length + 1 ≤ fuel₂)
    (h₁ : Generated.Dirhash.Hash1_loop1 b64enc (fun acc pre => pre ++ sha acc) (GoRt.sortStrings files₁) open₁
            fuel₁ 0 [] = .ok (.next (i₁, s)))
    (h₂ : Generated.Dirhash.Hash1_loop1 b64enc (fun acc pre => pre ++ sha acc) (GoRt.sortStrings files₂) open₂
            fuel₂ 0 [] = .ok (.next (i₂, s))) :
    sortStrings files₁ = sortStrings files₂ ∧
    ∀ n ∈ files₁, ∃ c₁ c₂, open₁ n = (c₁, none) ∧ open₂ n = (c₂, none) ∧ sha c₁ = sha c₂ := by
  have key : ∀ (files : List Bytes) (open_ : Bytes → Bytes × Option String) (fuel : Nat) (i : Int),
      files.length + 1 ≤ fuel →
      Generated.Dirhash.Hash1_loop1 b64enc (fun acc pre => pre ++ sha acc) (GoRt.sortStrings files) open_
        fuel 0 [] = .ok (.next (i, s)) → summary sha files (openFOf open_) = .ok s := by
    intro files open_ fuel i hf h
    have hlen : (sortStrings files).length < fuel := by
      rw [(sortStrings_perm files).length_eq]; omega
    have hloop := Hash1_loop1_any b64enc sha open_ (sortStrings files) [] [] fuel hlen
    simp only [List.nil_append, List.length_nil] at hloop
    rw [sortStrings_eq] at h
    have h0 : ((0 : Nat) : Int) = 0 := rfl
    rw [h0, h] at hloop
    unfold summary
    cases hs : summaryLoop sha (openFOf open_) (sortStrings files) with
    | error er => rw [hs] at hloop; simp [loopResAny] at hloop
    | ok s' =>
      rw [hs] at hloop
      simp only [loopResAny, List.nil_append] at hloop
      have := Except.ok.inj hloop
      injection this with this
      rw [(Prod.mk.inj this).2]
  obtain ⟨hnames, hfiles⟩ := Props.C19.summary_injective sha (key files₁ open₁ fuel₁ i₁ hf₁ h₁)
    (key files₂ open₂ fuel₂ i₂ hf₂ h₂)
  refine ⟨hnames, ?_⟩
  intro n hn
  obtain ⟨c₁, c₂, e₁, e₂, e⟩ := hfiles n hn
  exact ⟨c₁, c₂, openFOf_eq_some e₁, openFOf_eq_some e₂, e⟩

/-! ### non-vacuity (with `sha := id`) -/

/-- `gen_Hash1_formula`: a two-file set listed out of order, its sorted listing, a callback that reads it -/
example : ∃ (l s : List (Bytes × Bytes)) (open_ : Bytes → Bytes × Option String),
    s.Perm l ∧ s.Pairwise (fun a b => bytesLt a.1 b.1 = true) ∧ (∀ p ∈ l, (10 : UInt8) ∉ p.1) ∧
    (∀ p ∈ l, open_ p.1 = (p.2, none)) ∧
    genHash1 id 3 (l.map (·.1)) open_ =
      .ok ([104, 49, 58] ++ Base64.encodeStd (id (s.flatMap (Props.C19.docLine id))), none) :=
  ⟨[([98], [1]), ([97], [2, 3])], [([97], [2, 3]), ([98], [1])],
    fun n => if n = [97] then ([2, 3], none) else ([1], none),
    List.Perm.swap _ _ _, by decide, by decide, by decide, by decide⟩

/-- `gen_Hash1_perm`: the two listing orders of a list with a duplicate name and an unreadable file -/
example : genHash1 id 4 [[98], [97], [98]] (fun n => if n = [98] then ([], some "E") else ([1], none)) =
    genHash1 id 5 [[98], [98], [97]] (fun n => if n = [98] then ([], some "E") else ([1], none)) := by decide

/-- `gen_newline_rejected_err` on a concrete list (newline in the middle of a name) -/
example : genHash1 id 3 [[97], [97, 10, 98]] (fun _ => ([], none)) = .ok ([], some newlineError) := by decide

/-- `gen_newline_rejected`: with an unreadable file sorted first the error is the callback's -/
example : genHash1 id 3 [[97], [97, 10, 98]] (fun _ => ([], some "E")) = .ok ([], some "E") := by decide

/-- `gen_summary_injective` / `gen_Hash1_injective_sets`: the hypotheses are satisfiable — `id` is injective and a
    one-file set returns a hash -/
example : Function.Injective (id : Bytes → Bytes) ∧
    genHash1 id 2 [[97]] (fun _ => ([255], none)) =
      .ok ([104, 49, 58] ++ Base64.encodeStd [102, 102, 32, 32, 97, 10], none) :=
  ⟨fun _ _ h => h, by decide⟩

/-- `gen_summary_injective_loop`: a run of the loop that finishes, with the summary as accumulator -/
example : Generated.Dirhash.Hash1_loop1 Base64.encodeStd (fun acc pre => pre ++ id acc) (GoRt.sortStrings [[98], [97]])
    (fun _ => ([255], none)) 3 0 [] = .ok (.next (2, [102, 102, 32, 32, 97, 10, 102, 102, 32, 32, 98, 10])) := by
  rfl

end ModVerif.Tie.FnDirhashC19
