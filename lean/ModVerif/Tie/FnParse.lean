/-
  Tie: the go.mod PARSER regenerated from modfile/read.go on every check (Generated/FnParse.lean, namespace
  ModVerif.Generated.Parse) computes what the hand model (Model/Modfile/{Lex,Parse,Comments}.lean) says, for ALL inputs.

  The generated parser builds Go's POINTER GRAPH in a heap (`Parse.Heap`: one list of objects per node type; a pointer is
  the 1-based position); the model builds a value tree whose lines carry `id` = creation order.  The two are related by
  the reification of Proofs/TieFnParseHeap.lean (`RFile h p t`: the graph at the file pointer `p` of heap `h` IS the tree
  `t`, every object being the embedding of the model node, a line's pointer being `id + 1`; it implies
  `fileOf h p = some t` for the read-back function of the driver Drv/GenParse.lean) and `WF h p` (everything reachable
  is allocated, no pointer is held twice).

  THIS FILE (owner: parse-loops): the lexer of the parser unit (same Go code as Generated/FnLex.lean, whose ties are
  Tie/FnLex.lean; the `input` struct here has the three extra fields `file`, `pre`, `post`, which every lexer method
  leaves unchanged: `lift`), `input.parseLine`, `input.parseLineBlock`, `input.parseStmt`, `input.parseFile`, the
  composition `readToken; parseFile` (`parseFile_tie`) and the whole `parse` (`parse_tie`, with `assignComments_tie` of
  Tie/FnParseComments.lean).  `input.order`, `input.assignComments`, `reverseComments`, the `Span` methods and
  `Position.add` are in Tie/FnParseComments.lean (owner: parse-comments).

  SHAPE of the parser ties: from a lexer state `embP f pre post mi` that represents the model state `mi` (with
  `in.file = f`) and a heap `h` with one Line object per line created so far (`h.lines.length = mi.nextId`): if the
  model function returns a value, the generated function returns `.ok` with the represented state and a heap in which
  the new objects are the embeddings of the model's nodes; if the model returns a syntax error, the generated function
  is `.error .panic` (Go's `in.Error` panics and `parse` recovers; positions / kinds of errors are not part of this tie).
  Hypotheses: `WF mi` (byte offset = consumed bytes, Tie/FnLex.lean), a lower bound on the model's own loop fuel
  (`m mi < fm`: what the model's `parseFile` supplies) and on the generated fuel (`m mi + c ≤ fg`), where
  `m mi = len(remaining) + (1 if the pending token is not EOF)`.

  Helper lemmas: Proofs/TieFnParseLoopsLex.lean (lexer transport), Proofs/TieFnParseLoops{A,B,C,D,E}.lean.
-/
import ModVerif.Generated.FnParse
import ModVerif.Model.Modfile.Comments
import ModVerif.Drv.GenParse
import ModVerif.Proofs.TieFnParseLoopsE
import ModVerif.Proofs.TieFnParseLoopsF
import ModVerif.Tie.FnParseComments
set_option linter.unusedSimpArgs false
namespace ModVerif.Tie.FnParse
open ModVerif ModVerif.GoRt ModVerif.Modfile ModVerif.TieFnLex ModVerif.TieFnParse
open ModVerif.Tie.FnParseHeap
open ModVerif.Proofs.ModfileParse (m)
open ModVerif.Drv.LexOps.G (isPrintI isSpaceI)
open ModVerif.Drv.LexOps.M (kindCode)

/-! ### the lexer of this unit = the lexer unit, the three extra fields untouched -/

section lexer
variable (f : Int) (pre post : List Generated.Parse.Expr) (li : Generated.Lex.input)

theorem isIdent_tie (P S : Int → Bool) (c : Int) : Generated.Parse.isIdent P S c = Generated.Lex.isIdent P S c := rfl

theorem tokenKind_isComment_tie (k : Int) :
    Generated.Parse.tokenKind_isComment k = Generated.Lex.tokenKind_isComment k := rfl

theorem tokenKind_isEOL_tie (k : Int) : Generated.Parse.tokenKind_isEOL k = Generated.Lex.tokenKind_isEOL k := rfl

theorem input_eof_tie : Generated.Parse.input_eof (lift f pre post li) = Generated.Lex.input_eof li := rfl

theorem input_peekRune_tie : Generated.Parse.input_peekRune (lift f pre post li) = Generated.Lex.input_peekRune li := rfl

theorem input_peek_tie : Generated.Parse.input_peek (lift f pre post li) = Generated.Lex.input_peek li := rfl

theorem input_peekPrefix_tie (p : Bytes) (fuel : Nat) :
    Generated.Parse.input_peekPrefix fuel (lift f pre post li) p = Generated.Lex.input_peekPrefix fuel li p :=
  peekPrefix_lift f pre post li p fuel

theorem input_readRune_tie :
    Generated.Parse.input_readRune (lift f pre post li) = liftR f pre post (Generated.Lex.input_readRune li) :=
  readRune_lift f pre post li

theorem input_startToken_tie :
    Generated.Parse.input_startToken (lift f pre post li) = ((), lift f pre post (Generated.Lex.input_startToken li).2) :=
  rfl

theorem input_endToken_tie (k : Int) :
    Generated.Parse.input_endToken (lift f pre post li) k = liftR f pre post (Generated.Lex.input_endToken li k) :=
  endToken_lift f pre post li k

theorem input_readToken_lift_tie (P S : Int → Bool) (fuel : Nat) :
    Generated.Parse.input_readToken P S fuel (lift f pre post li) =
      liftR f pre post (Generated.Lex.input_readToken P S fuel li) :=
  readToken_lift P S fuel li

theorem input_lex_lift_tie (P S : Int → Bool) (fuel : Nat) :
    Generated.Parse.input_lex P S fuel (lift f pre post li) =
      (match Generated.Lex.input_lex P S fuel li with
       | .ok (t, l) => .ok (tokP t, lift f pre post l)
       | .error e => .error e) :=
  lex_lift P S fuel li

end lexer

/-- every `input` of this unit is a lifted lexer-unit `input` -/
def proj (gi : Generated.Parse.input) : Generated.Lex.input :=
  { complete := gi.complete, remaining := gi.remaining, tokenStart := gi.tokenStart,
    token := { kind := gi.token.kind, pos := ⟨gi.token.pos.Line, gi.token.pos.LineRune, gi.token.pos.Byte⟩,
               endPos := ⟨gi.token.endPos.Line, gi.token.endPos.LineRune, gi.token.endPos.Byte⟩, text := gi.token.text },
    pos := ⟨gi.pos.Line, gi.pos.LineRune, gi.pos.Byte⟩,
    comments := gi.comments.map fun c => { Start := ⟨c.Start.Line, c.Start.LineRune, c.Start.Byte⟩, Token := c.Token, Suffix := c.Suffix } }

theorem lift_proj (gi : Generated.Parse.input) : lift gi.file gi.pre gi.post (proj gi) = gi := by
  obtain ⟨c, r, ts, ⟨tk, ⟨a1, a2, a3⟩, ⟨b1, b2, b3⟩, tt⟩, ⟨p1, p2, p3⟩, cs, fl, pr, po⟩ := gi
  simp only [lift, proj, tokP, posP, List.map_map]
  congr 1
  have : (comP ∘ fun (c : Generated.Parse.Comment) =>
      ({ Start := ⟨c.Start.Line, c.Start.LineRune, c.Start.Byte⟩, Token := c.Token, Suffix := c.Suffix } :
        Generated.Lex.Comment)) = id := by
    funext c; obtain ⟨⟨s1, s2, s3⟩, t, s⟩ := c; rfl
  rw [this, List.map_id]

example : Generated.Parse.input_eof (lift 1 [] [] (TieFnLex.emb (newInput [97]))) = false := by decide

/-- readToken of this unit against the model (transport of `Tie.FnLex.input_readToken_tie`): from the state of
    `newInput` or any later state -/
theorem input_readToken_tie (f : Int) (pre post : List Generated.Parse.Expr) (k : Int) (ts : Bytes) (mi : Input)
    (hw : WF mi) (fuel : Nat) (hf : mi.remaining.length + 4 ≤ fuel) :
    Generated.Parse.input_readToken isPrintI isSpaceI fuel (lift f pre post (embKT k ts mi)) =
      (match readToken mi with
       | .ok mi' => .ok ((), embP f pre post mi')
       | .error _ => .error .panic) :=
  (readTokenP_eq k ts mi hw fuel hf).1

/-- lex of this unit against the model -/
theorem input_lex_tie (f : Int) (pre post : List Generated.Parse.Expr) (mi : Input) (hw : WF mi) (fuel : Nat)
    (hf : mi.remaining.length + 4 ≤ fuel) :
    Generated.Parse.input_lex isPrintI isSpaceI fuel (embP f pre post mi) =
      (match lex mi with
       | .ok (t, mi') => .ok (tokG t, embP f pre post mi')
       | .error _ => .error .panic) :=
  (lexP_eq mi hw fuel hf).1

/-! ### parseLine, parseLineBlock, parseStmt, parseFile -/

/-- parseLine (read.go:896): the tokens up to the end of the line; allocates ONE Line object (pointer = number of lines
    so far + 1) that is the embedding of the model's line -/
theorem input_parseLine_tie (f : Int) (pre post : List Generated.Parse.Expr) (fm : Nat) (mi : Input) (hw : WF mi)
    (hm : m mi ≤ fm) (fg : Nat) (hfg : m mi + 5 ≤ fg) (h : Generated.Parse.Heap) :
    match parseLine fm mi with
    | .ok (l, mi') =>
        Generated.Parse.input_parseLine isPrintI isSpaceI fg (embP f pre post mi) h =
          .ok ((((h.lines.length + 1 : Nat) : Int), embP f pre post mi'), { h with lines := h.lines ++ [lineG l] }) ∧ WF mi'
    | .error _ =>
        Generated.Parse.input_parseLine isPrintI isSpaceI fg (embP f pre post mi) h = .error .panic :=
  parseLine_sim fm mi hw hm fg hfg h

/-- parseLineBlock (read.go:855): allocates the block object (pointer = number of blocks so far + 1) and one Line object
    per line; at the end the block object is the embedding of the model's block with the line pointers `ps'`, which
    reify to the model's lines -/
theorem input_parseLineBlock_tie (f : Int) (pre post : List Generated.Parse.Expr) (fm : Nat) (mi : Input) (s : Position)
    (ts : List Bytes) (lp : Token) (hw : WF mi) (hm : m mi < fm) (fg : Nat) (hfg : m mi + 6 ≤ fg)
    (h : Generated.Parse.Heap) (hn : h.lines.length = mi.nextId) :
    match parseLineBlock fm mi s ts lp with
    | .ok (b, mi') => ∃ h' ps',
        Generated.Parse.input_parseLineBlock isPrintI isSpaceI fg (embP f pre post mi) (posG s) ts (tokG lp) h =
          .ok ((((h.blocks.length + 1 : Nat) : Int), embP f pre post mi'), h') ∧ WF mi' ∧
        h'.cbs = h.cbs ∧ h'.files = h.files ∧ h.lines <+: h'.lines ∧
        h'.blocks = h.blocks ++ [blockG b ps'] ∧ RLines h' ps' b.lines ∧ h'.lines.length = mi'.nextId
    | .error _ =>
        Generated.Parse.input_parseLineBlock isPrintI isSpaceI fg (embP f pre post mi) (posG s) ts (tokG lp) h =
          .error .panic :=
  parseLineBlock_sim fm mi s ts lp hw hm fg hfg h hn

/-- parseStmt (read.go:807): the statement the model RETURNS is appended to `in.file.Stmt` (file object `fo` at `f`) as
    a pointer `ex` to a new Line or a new LineBlock that reifies to it; old objects are untouched -/
theorem input_parseStmt_tie (f : Int) (pre post : List Generated.Parse.Expr) (fm : Nat) (mi : Input) (hw : WF mi)
    (hm : m mi < fm) (fg : Nat) (hfg : m mi + 7 ≤ fg) (h : Generated.Parse.Heap) (fo : Generated.Parse.FileSyntax)
    (hfo : heapGet h.files f = .ok fo) (hn : h.lines.length = mi.nextId) :
    match parseStmt fm mi with
    | .ok (x, mi') => ∃ h' ex,
        Generated.Parse.input_parseStmt isPrintI isSpaceI fg (embP f pre post mi) h = .ok (((), embP f pre post mi'), h') ∧
        WF mi' ∧ h'.cbs = h.cbs ∧ h.lines <+: h'.lines ∧ h.blocks <+: h'.blocks ∧
        h'.files = h.files.set (f.toNat - 1) { fo with Stmt := fo.Stmt ++ [ex] } ∧
        RExpr h' ex x ∧ h'.lines.length = mi'.nextId ∧ NewStmt h h' ex
    | .error _ => Generated.Parse.input_parseStmt isPrintI isSpaceI fg (embP f pre post mi) h = .error .panic :=
  parseStmt_sim fm mi hw hm fg hfg h fo hfo hn

/-- parseFile (read.go:774): allocates the file object (pointer = number of files so far + 1, stored in `in.file`) and
    runs the statement loop; the final graph reifies to the model's statement list and is well-formed -/
theorem input_parseFile_tie (f : Int) (pre post : List Generated.Parse.Expr) (fm : Nat) (mi : Input) (hw : WF mi)
    (hm : m mi < fm) (fg : Nat) (hfg : m mi + 8 ≤ fg) (h : Generated.Parse.Heap) (hn : h.lines.length = mi.nextId) :
    match parseFileLoop fm mi [] none with
    | .ok (stmts, mi') => ∃ h',
        Generated.Parse.input_parseFile isPrintI isSpaceI fg (embP f pre post mi) h =
          .ok (((), embP ((h.files.length + 1 : Nat) : Int) pre post mi'), h') ∧ WF mi' ∧
        RFile h' ((h.files.length + 1 : Nat) : Int) { stmts := stmts } ∧ h'.lines.length = mi'.nextId ∧
        ((Proofs.ModfileC20.idsOf stmts).Nodup → Tie.FnParseHeap.WF h' ((h.files.length + 1 : Nat) : Int))
    | .error _ =>
        Generated.Parse.input_parseFile isPrintI isSpaceI fg (embP f pre post mi) h = .error .panic := by
  have key := parseFile_fn_sim (f := f) (pre := pre) (post := post) fm mi hw hm fg hfg h hn
  cases hr : parseFileLoop fm mi [] none with
  | error e => rw [hr] at key; exact key
  | ok p =>
    obtain ⟨stmts, mi'⟩ := p
    rw [hr] at key
    obtain ⟨h', es', hG, hw', hinv⟩ := key
    exact ⟨h', hG, hw', FInv_RFile hinv, hinv.lines, fun hids => FInv_WF hinv hids⟩

/-! ### non-vacuity of the function ties: both sides evaluated by the kernel -/

/-- the model state after priming the lexer on `data` -/
def primed (data : Bytes) : Input := match readToken (newInput data) with | .ok i => i | .error _ => newInput data

-- readToken / lex on `a b`: the first token is `a`, the second `b`
example : (Generated.Parse.input_readToken isPrintI isSpaceI 7 (lift 0 [] [] (embKT 0 [] (newInput [97, 32, 98])))).toOption.map
      (fun p => p.2.token.text) = some [97] ∧ (readToken (newInput [97, 32, 98])).toOption.map (·.token.text) = some [97] := by
  decide +kernel
example : (Generated.Parse.input_lex isPrintI isSpaceI 6 (embP 1 [] [] (primed [97, 32, 98]))).toOption.map
      (fun p => (p.1.text, p.2.token.text)) = some ([97], [98]) ∧
    (lex (primed [97, 32, 98])).toOption.map (fun p => (p.1.text, p.2.token.text)) = some ([97], [98]) := by
  decide +kernel
-- parseLine on `a b⏎`: ONE Line object, pointer 1, the embedding of the model's line (id 0)
example : (match parseLine 5 (primed [97, 32, 98, 10]),
      Generated.Parse.input_parseLine isPrintI isSpaceI 9 (embP 1 [] [] (primed [97, 32, 98, 10])) default with
    | .ok (l, _), .ok ((p, _), h) => decide (p = 1 ∧ h.lines = [lineG l] ∧ l.token = [[97], [98]] ∧ l.id = 0)
    | _, _ => false) = true := by
  decide +kernel
-- parseLineBlock on the rest of `r (⏎a⏎b⏎)⏎` after `r (`: block object 1 with the line pointers [1, 2]
example : (match parseLineBlock 9 (primed [10, 97, 10, 98, 10, 41, 10]) {} [[114]] {},
      Generated.Parse.input_parseLineBlock isPrintI isSpaceI 14 (embP 1 [] [] (primed [10, 97, 10, 98, 10, 41, 10]))
        (posG {}) [[114]] (tokG {}) default with
    | .ok (b, _), .ok ((p, _), h) => decide (p = 1 ∧ h.blocks = [blockG b [1, 2]] ∧ h.lines = b.lines.map lineG ∧
        b.lines.map (·.id) = [0, 1])
    | _, _ => false) = true := by
  decide +kernel
-- parseStmt on `r (⏎a⏎)⏎` with the file object at pointer 1: `Stmt = [LineBlock 1]`, one line
example : (match parseStmt 9 (primed [114, 32, 40, 10, 97, 10, 41, 10]),
      Generated.Parse.input_parseStmt isPrintI isSpaceI 16 (embP 1 [] [] (primed [114, 32, 40, 10, 97, 10, 41, 10]))
        { (default : Generated.Parse.Heap) with files := [default] } with
    | .ok (.lineBlock b, _), .ok (_, h) => decide (h.files.map (·.Stmt) = [[Generated.Parse.Expr.LineBlock 1]] ∧
        h.blocks = [blockG b [1]] ∧ h.lines = b.lines.map lineG)
    | _, _ => false) = true := by
  decide +kernel
-- parseFile on `//c⏎⏎m⏎`: file object 1 with a comment block and a line
example : (match parseFileLoop 9 (primed [47, 47, 99, 10, 10, 109, 10]) [] none,
      Generated.Parse.input_parseFile isPrintI isSpaceI 16 (embP 0 [] [] (primed [47, 47, 99, 10, 10, 109, 10])) default with
    | .ok (stmts, _), .ok ((_, gi), h) => decide (gi.file = 1 ∧ fileOf h 1 = some { stmts := stmts } ∧ stmts.length = 2)
    | _, _ => false) = true := by
  decide +kernel
-- an unterminated block: both sides fail
example : (match parseStmt 9 (primed [114, 32, 40, 10, 97, 10]),
      Generated.Parse.input_parseStmt isPrintI isSpaceI 16 (embP 1 [] [] (primed [114, 32, 40, 10, 97, 10]))
        { (default : Generated.Parse.Heap) with files := [default] } with
    | .error _, .error .panic => true
    | _, _ => false) = true := by
  decide +kernel

/-! ### (1) `in.readToken(); in.parseFile()` from `newInput` and the empty heap -/

/-- Go's `newInput` (read.go:344; a struct literal, as the driver Drv/GenParse.lean writes it) -/
def gNewInput (data : Bytes) : Generated.Parse.input :=
  { (default : Generated.Parse.input) with complete := data, remaining := data, pos := { Line := 1, LineRune := 1, Byte := 0 } }

/-- the first half of `parse` as the driver composes it: prime the lexer, parse the file into the empty heap -/
def runParseFile (fuel : Nat) (data : Bytes) : M (Generated.Parse.input × Generated.Parse.Heap) := do
  let (_, i1) ← Generated.Parse.input_readToken isPrintI isSpaceI fuel (gNewInput data)
  let ((_, i2), h2) ← Generated.Parse.input_parseFile isPrintI isSpaceI fuel i1 (default : Generated.Parse.Heap)
  pure (i2, h2)

/-- (1) `parseFile_tie`: for every input and fuel ≥ `len(data) + 16`, the regenerated `readToken; parseFile` succeeds iff
    the model's `parseFile` does; then `in.file = 1`, the graph at `in.file` reifies (before comment assignment: name and
    file comments empty) to the model's statement list, `in.comments` are the model's recorded comments, `pre` / `post`
    are still empty, the heap has exactly one Line object per model line (`id = position − 1` is part of `RFile`) and
    is well-formed.  On a syntax error the generated code is `.error .panic`. -/
theorem parseFile_tie (data : Bytes) (fuel : Nat) (hf : data.length + 16 ≤ fuel) :
    match Modfile.parseFile data with
    | .ok (stmts, mi) => ∃ gi h,
        runParseFile fuel data = .ok (gi, h) ∧ gi.file = 1 ∧ gi.pre = [] ∧ gi.post = [] ∧
        gi.comments = mi.commentsRev.reverse.map comG ∧
        RFile h gi.file { stmts := stmts } ∧ Tie.FnParseHeap.WF h gi.file ∧ h.lines.length = mi.nextId
    | .error _ => runParseFile fuel data = .error .panic := by
  unfold runParseFile
  rw [show gNewInput data = lift 0 [] [] (embKT 0 [] (newInput data)) from rfl]
  have hw0 : WF (newInput data) := rfl
  obtain ⟨hG, hP⟩ := readTokenP_eq (f := 0) (pre := []) (post := []) 0 [] (newInput data) hw0 fuel
    (by show data.length + 4 ≤ fuel; omega)
  rw [hG]
  have hids := @Proofs.ModfileC20.parseFile_ids data
  unfold Modfile.parseFile at hids ⊢
  cases hr : readToken (newInput data) with
  | error e => rfl
  | ok i0 =>
    have hw1 := hP i0 hr
    have hle : i0.remaining.length ≤ data.length := by
      rcases Proofs.ModfileLex.readToken_spec (newInput data) with ⟨i', h1, h2, _⟩ | ⟨e, h1, _⟩
      · rw [hr] at h1; cases h1; exact h2
      · rw [hr] at h1; cases h1
    have hn0 : i0.nextId = 0 := Proofs.ModfileC20.readToken_nextId hr
    have hm : m i0 ≤ data.length + 1 := by unfold m; split <;> omega
    have key := input_parseFile_tie 0 [] [] (data.length + 2) i0 hw1 (by omega) fuel (by omega)
      (default : Generated.Parse.Heap) (by rw [hn0]; rfl)
    simp only [hr, ebind_ok] at hids ⊢
    cases hl : parseFileLoop (data.length + 2) i0 [] none with
    | error e =>
      rw [hl] at key
      simp only [key, bind_error]
    | ok p =>
      obtain ⟨stmts, mi⟩ := p
      rw [hl] at key
      obtain ⟨h', hG', hw', hrf, hnl, hwf⟩ := key
      simp only [hG', bind_ok, pure_eq_ok]
      refine ⟨_, h', rfl, rfl, rfl, rfl, embP_comments mi, hrf, hwf ?_, hnl⟩
      exact hids (stmts := stmts) (i' := mi) (by rw [hl])

/-- `// c⏎⏎module m // s⏎⏎require (⏎⇥a v1 // x⏎⏎⇥// w⏎⇥b v2⏎)⏎`: a comment block, a line with a suffix comment, a blank line,
    a block with a suffix comment, a blank-line placeholder and a whole-line comment inside -/
def ex1 : Bytes := [47, 47, 32, 99, 10, 10, 109, 111, 100, 117, 108, 101, 32, 109, 32, 47, 47, 32, 115, 10, 10, 114, 101, 113,
  117, 105, 114, 101, 32, 40, 10, 9, 97, 32, 118, 49, 32, 47, 47, 32, 120, 10, 10, 9, 47, 47, 32, 119, 10, 9, 98, 32,
  118, 50, 10, 41, 10]

/-- `require (⏎a v1⏎`: an unterminated block -/
def ex2 : Bytes := [114, 101, 113, 117, 105, 114, 101, 32, 40, 10, 97, 32, 118, 49, 10]

-- non-vacuity: the graph of the regenerated parser read back (`fileOf` = the driver's read-back) is the model's
-- statement list (3 statements: the block has 2 lines), the recorded comments agree (2 suffix comments)
example : (runParseFile 73 ex1).toOption.map (fun p => (fileOf p.2 p.1.file, p.1.comments, p.1.file)) =
      (Modfile.parseFile ex1).toOption.map (fun p => (some { stmts := p.1 }, p.2.commentsRev.reverse.map comG, 1)) ∧
    (Modfile.parseFile ex1).toOption.map (fun p => (p.1.length, p.2.commentsRev.length, p.2.nextId)) = some (3, 2, 3) := by
  decide +kernel

example : (match runParseFile 31 ex2 with | .error .panic => true | _ => false) = true ∧
    (Modfile.parseFile ex2).toOption.isNone = true := by
  decide +kernel

-- with less fuel than the bound the generated loops do run out
example : (match runParseFile 4 ex2 with | .error .fuel => true | _ => false) = true := by decide +kernel

/-! ### (4) the whole `parse`: readToken, parseFile, `in.file.Name = name`, assignComments -/

open ModVerif.TieFnParseComments (nodeCount StmtP)

/-- `parse` as the driver Drv/GenParse.lean composes it from the regenerated functions -/
def runParse (fuel : Nat) (name data : Bytes) : M (Generated.Parse.input × Generated.Parse.Heap) := do
  let (i2, h2) ← runParseFile fuel data
  let f ← heapGet h2.files i2.file
  let fl ← heapSet h2.files i2.file { f with Name := name }
  let ((_, i3), h3) ← Generated.Parse.input_assignComments fuel i2 { h2 with files := fl }
  pure (i3, h3)

/-- (4) `parse_tie`: for every file name, input and fuel ≥ `len(data) + 16`, the regenerated parser as the driver
    composes it (readToken, parseFile, `in.file.Name = name`, assignComments) succeeds iff the model's `parse` does; then
    `in.file = 1` and the final graph reifies to the model's tree — so the driver's read-back `fileOf` returns exactly
    `Modfile.parse name data`; on a syntax error the generated code is `.error .panic`.  (Uses `assignComments_tie` of
    Tie/FnParseComments.lean; its fuel demand `nodes + comments + 8` is met because the model's tree has at most
    `len(data) + 1` nodes and recorded comments together: `parseFile_size`.) -/
theorem parse_tie (name data : Bytes) (fuel : Nat) (hf : data.length + 16 ≤ fuel) :
    match Modfile.parse name data with
    | .ok t => ∃ gi h, runParse fuel name data = .ok (gi, h) ∧ gi.file = 1 ∧ RFile h gi.file t ∧ fileOf h gi.file = some t
    | .error _ => runParse fuel name data = .error .panic := by
  have h1 := parseFile_tie data fuel hf
  unfold runParse Modfile.parse
  cases hp : Modfile.parseFile data with
  | error e =>
    rw [hp] at h1
    simp only [h1, bind_error, ebind_error]
  | ok r =>
    obtain ⟨stmts, mi⟩ := r
    rw [hp] at h1
    obtain ⟨gi, h, hG, hfile, hpre, hpost, hcom, hrf, hwf, hnl⟩ := h1
    obtain ⟨f, hget, hrf2, hwf2⟩ := setName_RFile hrf hwf name
    have hsize := parseFile_size hp
    have hsuf := parseFile_noSuffix hp
    obtain ⟨in', h', hA, hR, hfile', _⟩ := Tie.FnParseComments.assignComments_tie (cs := mi.commentsRev.reverse)
      (m := 0) (fuel := fuel) hrf2 hwf2 rfl hcom hpre hpost (by simp) hsuf
      (by simp only [List.length_reverse]; omega)
    simp only [hG, bind_ok, ebind_ok, hget, heapSet_of_get _ hget, hA, pure_eq_ok]
    exact ⟨in', h', rfl, by rw [hfile', hfile], by rw [hfile']; exact hR, by rw [hfile']; exact hR.fileOf⟩

-- non-vacuity: the whole regenerated parse on the example with comments, a blank line and a block = the model's tree
-- (the suffix comments `// s`, `// x` are assigned to the line `module m` and to the block line `a v1`)
example : (runParse 73 [103, 111, 46, 109, 111, 100] ex1).toOption.map (fun p => fileOf p.2 p.1.file) =
      (Modfile.parse [103, 111, 46, 109, 111, 100] ex1).toOption.map some ∧
    (Modfile.parse [103, 111, 46, 109, 111, 100] ex1).toOption.map
      (fun t => (t.stmts.length, (Proofs.ModfileC20.linesOf t.stmts).map (·.comments.suffix.length))) =
      some (3, [1, 1, 0]) := by
  decide +kernel

example : (match runParse 31 [] ex2 with | .error .panic => true | _ => false) = true ∧
    (Modfile.parse [] ex2).toOption.isNone = true := by
  decide +kernel

/-- The op of the correspondence run: on every input the regenerated parser prints exactly what the hand model prints
    (`gmodfile.parsetree` of Drv/GenParse.lean: the tree dump, or `err`).  The check compares both with the real
    implementation on sampled inputs; this is their agreement with each other on ALL inputs. -/
theorem run_tie (d : String) : Drv.GenParse.handle "parsetree" [d] = Drv.GenParse.handleModel "parsetree" [d] := by
  rw [Drv.GenParse.handle.eq_1, Drv.GenParse.handleModel.eq_1]
  cases hd : Drv.hx d with
  | none => rfl
  | some data =>
    show some _ = some _
    congr 1
    have key := parse_tie Drv.Modfile.fileName data (4 * data.length + 64) (by omega)
    have hrun : ∀ (r : M (Generated.Parse.input × Generated.Parse.Heap)),
        r = runParse (4 * data.length + 64) Drv.Modfile.fileName data →
        (match r with
          | .ok (i, h) => (match Drv.GenParse.fileOf h i.file with | some f => Drv.Modfile.showFile f | none => "bad-heap")
          | .error _ => "err") =
        (match Modfile.parse Drv.Modfile.fileName data with
          | .error _ => "err"
          | .ok f => Drv.Modfile.showFile f) := by
      intro r hr
      subst hr
      cases hp : Modfile.parse Drv.Modfile.fileName data with
      | error e => rw [hp] at key; rw [key]
      | ok t =>
        rw [hp] at key
        obtain ⟨gi, h, hG, _, _, hfo⟩ := key
        rw [hG]
        have : Drv.GenParse.fileOf h gi.file = some t := hfo
        simp only [this]
    refine hrun _ ?_
    unfold runParse runParseFile gNewInput
    simp only [bind_assoc, pure_bind]

end ModVerif.Tie.FnParse
