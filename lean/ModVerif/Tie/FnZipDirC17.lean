/-
  C17 transported to the regenerated directory functions: the directory-tree theorems of Props/C17.lean (`dir_vs_list`,
  `allFiles_wellformed`, about the hand model Model/Zip.lean) restated about `Generated.Zip.CheckDir` / `CheckFiles` /
  `CreateFromDir` / `Create` / `listFilesInDir` (Generated/FnZip.lean, re-translated from zip/zip.go on every run) through
  the tie theorems of Tie/FnZipDir.lean, Tie/FnZipCheckFiles.lean and Tie/FnZipIOCreate.lean.

  The instantiation is the one of the ties: `Inst` (Tie/FnZipC17.lean: `FoldsTo`, `E.toFold = Zip.strToFold`, EqualFold /
  ToLower agree with the model on "go.mod"); the file-system parameters present the tree `t` at the directory `d`
  (`walkRoot d = toFs (.dir t)`, `ChildrenOK osLstat osOpenRead d [] t`); "" compares below go1.24 and every regular root
  go.mod of the tree carries the flag its content says (`h0`, `hfl`: what `goVers_of_flags` needs); the root go.mod as
  `os.ReadFile` sees it gives the flag of the tree (`hg`).  Corollaries only — nothing here is used by another module.
-/
import ModVerif.Tie.FnZipDir
import ModVerif.Tie.FnZipC17
import ModVerif.Props.C17
namespace ModVerif.Tie.FnZipDirC17
open ModVerif ModVerif.GoRt ModVerif.GoRtZip ModVerif.TieFnZip ModVerif.TieFnZipCf ModVerif.TieFnZipIOCreate
open ModVerif.TieFnZipDir ModVerif.ZipSpec ModVerif.Zip
open ModVerif.Generated.Zip (File FileError CheckedFiles)
open ModVerif.Drv.GenZip (toGFile modeBits)
open ModVerif.Drv.GenZipDir (toFs toFsList dirInfo)
open ModVerif.Tie.FnZipC17 (Inst)

section
variable (E : Env) (equalFold : Bytes → Bytes → Bool)
  (osLstat : Bytes → (Generated.Zip.FileInfo × Option String)) (osOpenRead : Bytes → (Bytes × Option String))
  (osReadFile : Bytes → (Bytes × Option String)) (parseGoVers : Bytes → Bytes → Bytes) (simpleFold : Int → Int)
  (toLower : Bytes → Bytes) (versionCompare : Bytes → Bytes → Int) (versionLang : Bytes → Bytes)
  (walkRoot : Bytes → FsTree Generated.Zip.FileInfo) (K : Nat)

/-- the two flags `checkFiles` derives (from the listed files, from all files of the tree) are the model's -/
theorem flags_of_tree (g : Bool) (t : List (Bytes × Node)) (h0 : versionCompare [] go124 < 0)
    (hfl : ∀ f ∈ allFiles t, f.mode = .regular → f.path = goModName →
      decide (0 ≤ versionCompare (versionLang (parseGoVers goModName f.content)) go124) = f.goGe124) :
    decide (0 ≤ versionCompare (versOf parseGoVers versionLang (listFilesInDir g t).files) go124) =
        goVers (listFilesInDir g t).files ∧
    decide (0 ≤ versionCompare (versOf parseGoVers versionLang (allFiles t)) go124) = goVers (allFiles t) := by
  have hsub : ∀ f ∈ (listFilesInDir g t).files, f ∈ allFiles t := fun f hf =>
    (Proofs.ZipA.walkChildren_sub g t []).1.subset hf
  exact ⟨FnZipCheckFiles.goVers_of_flags parseGoVers versionCompare versionLang _ h0
      (fun f hf => hfl f (hsub f hf)),
    FnZipCheckFiles.goVers_of_flags parseGoVers versionCompare versionLang _ h0 hfl⟩

/-- ★ C17 `dir_vs_list` on the regenerated code.  For a directory tree made only of regular files and directories with
    ordinary, pairwise distinct names and no VCS metadata directory (`WFChildren`): the generated `CheckDir` on the
    directory and the generated `CheckFiles` on the list of all files of the tree (`allFiles`, in walk order) both succeed
    and report the same valid files and the same invalid files — `CheckDir`'s paths joined with the directory —, the same
    size error and the same error; and the generated `CreateFromDir` on the directory and the generated `Create` on that
    list return the same error and leave the same archive. -/
theorem dir_vs_list_gen (I : Inst E equalFold simpleFold toLower K) (canonicalVersion : Bytes → Bytes)
    (moduleCheck : Bytes → Bytes → Option String) (p v : Bytes)
    (hmod : (canonicalVersion v = v ∧ moduleCheck p v = none) ↔ E.modOK p v = true)
    (d : Bytes) (t : List (Bytes × Node)) (hw : WFChildren t) (hroot : walkRoot d = toFs (.dir t))
    (hok : ChildrenOK osLstat osOpenRead d [] t)
    (hg : goVers (allFiles t) = decide (0 ≤ versionCompare (versDir osReadFile parseGoVers versionLang d) go124))
    (h0 : versionCompare [] go124 < 0)
    (hfl : ∀ f ∈ allFiles t, f.mode = .regular → f.path = goModName →
      decide (0 ≤ versionCompare (versionLang (parseGoVers goModName f.content)) go124) = f.goGe124)
    (fuel : Nat) (hfuel : dirFuel K (goVers (allFiles t)) t ≤ fuel) (hfuel' : fuelBound K (allFiles t) ≤ fuel) :
    ∃ cfD cfL err,
      Generated.Zip.CheckDir (cfpOf E) equalFold osLstat osOpenRead osReadFile parseGoVers simpleFold toLower
        versionCompare versionLang walkRoot fuel d = .ok (cfD, err) ∧
      Generated.Zip.CheckFiles (cfpOf E) equalFold parseGoVers simpleFold toLower versionCompare versionLang fuel
        ((allFiles t).map toGFile) = .ok (cfL, err) ∧
      cfD.Valid = cfL.Valid.map (GoRt.fpJoin d) ∧ cfD.Invalid = cfL.Invalid.map (joinFE d) ∧
      cfD.SizeError = cfL.SizeError ∧
      Generated.Zip.CreateFromDir canonicalVersion (cfpOf E) equalFold moduleCheck osLstat osOpenRead osReadFile parseGoVers
          simpleFold toLower versionCompare versionLang walkRoot fuel () { Path := p, Version := v } d [] =
        Generated.Zip.Create canonicalVersion (cfpOf E) equalFold moduleCheck parseGoVers simpleFold toLower versionCompare
          versionLang fuel () { Path := p, Version := v } ((allFiles t).map toGFile) [] := by
  obtain ⟨hvL, hvA⟩ := flags_of_tree parseGoVers versionCompare versionLang (goVers (allFiles t)) t h0 hfl
  obtain ⟨d1, d2, d3, d4, d5⟩ := Props.C17.dir_vs_list E p v (goVers (allFiles t)) t hw rfl
  obtain ⟨s1, _, s3, s4⟩ := Proofs.ZipA.dir_vs_list_state E (goVers (allFiles t)) t hw rfl
  refine ⟨embDir d (checkDir E (goVers (allFiles t)) t), embCF (checkFilesV E (allFiles t)),
    (checkDir E (goVers (allFiles t)) t).err.map errKindText,
    FnZipDir.CheckDir_tie E equalFold osLstat osOpenRead osReadFile parseGoVers simpleFold toLower versionCompare versionLang
      walkRoot K I.foldsTo I.toFold I.equalFold I.toLower d _ hg t hroot hok hvL fuel hfuel, ?_, ?_, ?_, ?_, ?_⟩
  · rw [FnZipDir.CheckFiles_tie E equalFold parseGoVers simpleFold toLower versionCompare versionLang K I.foldsTo I.toFold
      I.equalFold I.toLower _ hvA fuel hfuel', d4]
  · simp only [embDir, embCF, d1]
  · simp only [embDir, embCF, d2, List.map_map]
    apply List.map_congr_left
    intro e _
    rfl
  · simp only [embDir, embCF, d3]
  · rw [FnZipDir.CreateFromDir_tie E equalFold osLstat osOpenRead osReadFile parseGoVers simpleFold toLower versionCompare
      versionLang walkRoot K canonicalVersion moduleCheck I.foldsTo I.toFold I.equalFold I.toLower p v hmod d _ hg t hroot hok
      hvL fuel hfuel,
      FnZipIOCreate.Create_tie E canonicalVersion equalFold moduleCheck parseGoVers simpleFold toLower versionCompare
      versionLang K I.foldsTo I.toFold I.equalFold I.toLower p v hmod _ hvA fuel hfuel', d5]
    have herr : (checkFilesSt E (listFilesInDir (goVers (allFiles t)) t).files
          (goVers (listFilesInDir (goVers (allFiles t)) t).files)).cf.err =
        (checkFilesSt E (allFiles t) (goVers (allFiles t))).cf.err := by
      unfold CheckedFiles.err; rw [s3, s4]
    have hworld : createWorld E p v (listFilesInDir (goVers (allFiles t)) t).files = createWorld E p v (allFiles t) := by
      unfold createWorld
      rw [herr, s1]
    rw [hworld]

/-- ★ C17 `allFiles_wellformed` on the regenerated code: on such a tree the generated `listFilesInDir` succeeds, and the
    files it returns have pairwise distinct paths, a successful `Lstat` with a regular mode, and clean relative paths. -/
theorem listFilesInDir_wellformed_gen (d : Bytes) (g : Bool)
    (hg : g = decide (0 ≤ versionCompare (versDir osReadFile parseGoVers versionLang d) go124))
    (t : List (Bytes × Node)) (hw : WFChildren t) (hroot : walkRoot d = toFs (.dir t))
    (hok : ChildrenOK osLstat osOpenRead d [] t) (fuel : Nat) (hfuel : listFuel t + 1 ≤ fuel) :
    ∃ files omitted,
      Generated.Zip.listFilesInDir osLstat osOpenRead osReadFile parseGoVers versionCompare versionLang walkRoot fuel d =
        .ok (files, omitted, none) ∧
      (files.map (·.Path)).Nodup ∧
      ∀ f ∈ files, f.Lstat.2 = none ∧ modeIsRegular f.Lstat.1.Mode = true ∧ f.Lstat.1.IsDir = false ∧
        GoRt.pathClean f.Path = f.Path ∧ GoRt.pathIsAbs f.Path = false := by
  obtain ⟨hnd, hfacts⟩ := Props.C17.allFiles_wellformed t hw
  have hsl : (listFilesInDir g t).files.Sublist (allFiles t) := (Proofs.ZipA.walkChildren_sub g t []).1
  refine ⟨_, _, FnZipDir.listFilesInDir_tie osLstat osOpenRead osReadFile parseGoVers versionCompare versionLang walkRoot d g
    hg t hroot hok fuel hfuel, ?_, ?_⟩
  · rw [List.map_map]
    exact hnd.sublist (hsl.map _)
  · intro f hf
    obtain ⟨m, hm, rfl⟩ := List.mem_map.mp hf
    obtain ⟨h1, h2, h3⟩ := hfacts m (hsl.subset hm)
    have hb : (Mode.regular == Mode.lstatErr) = false := by decide
    simp only [toGFile, h1, hb, Bool.false_eq_true, if_false]
    exact ⟨trivial, by decide, by decide, h2, h3⟩

end

/-! ### the driver's file system; non-vacuity -/

mutual
theorem drvNode_of_wf : ∀ n : Node, WFNode n → DrvNode n
  | .file mode _ _ _, h => by
    simp only [WFNode] at h
    simp only [DrvNode, h]
    decide
  | .dir cs, h => by
    simp only [WFNode] at h
    simp only [DrvNode]
    exact drvChildren_of_wf cs h
/-- a well-formed tree in the sense of C17 is one the driver's lookup by name reads faithfully -/
theorem drvChildren_of_wf : ∀ cs : List (Bytes × Node), WFChildren cs → DrvChildren cs
  | [], _ => by simp only [DrvChildren]
  | (name, n) :: rest, h => by
    simp only [WFChildren] at h
    simp only [DrvChildren]
    exact ⟨h.1, h.2.2.1, drvNode_of_wf n h.2.2.2.1, drvChildren_of_wf rest h.2.2.2.2⟩
end

/-- the example tree of Props/C17.lean (a nested module and a vendored package) -/
def exTree : List (Bytes × Node) := Props.C17.exTree

/-- the hypotheses of `dir_vs_list_gen` hold on the example tree with the file system the driver builds from it
    (`driver_reads_tree`) -/
example : WFChildren exTree ∧
    drvWalkRoot exTree Drv.Zip.tdir = toFs (.dir exTree) ∧
    ChildrenOK (drvLstat exTree) (drvOpen exTree) Drv.Zip.tdir [] exTree ∧
    goVers (allFiles exTree) = decide (0 ≤ Drv.GenZip.versionCompareI
      (versDir (drvReadFile false exTree) (drvPgv (allFiles exTree)) id Drv.Zip.tdir) go124) ∧
    Drv.GenZip.versionCompareI [] go124 < 0 ∧
    (∀ f ∈ allFiles exTree, f.mode = .regular → f.path = goModName →
      decide (0 ≤ Drv.GenZip.versionCompareI (id (drvPgv (allFiles exTree) goModName f.content)) go124) = f.goGe124) := by
  have hw : WFChildren exTree := by
    simp only [exTree, Props.C17.exTree, WFChildren, WFNode, NormalElem, Node.isDir, List.forall_mem_cons,
      List.not_mem_nil, false_imp_iff, implies_true, true_imp_iff, and_true]
    repeat' apply And.intro
    all_goals decide +kernel
  have hd := FnZipDir.driver_reads_tree exTree (drvChildren_of_wf exTree hw)
  exact ⟨hw, hd.1, hd.2, by decide +kernel, by decide +kernel, by decide +kernel⟩

end ModVerif.Tie.FnZipDirC17
