/-
  Tie theorems, integer kernels of sumdb/tlog: the definitions regenerated from the Go source by go2lean
  (`Generated/FnTlog.lean`, CHECKED mode: every int64 result goes through `chk64`) compute exactly what the hand
  model (`Model/Tlog.lean`) says — in particular no panic, no fuel exhaustion and no int64 overflow on the stated range.
  Helper lemmas: `Proofs/TieFnTlogInt*.lean`, `Proofs/GoRtLemmasInt.lean`.
-/
import ModVerif.Generated.FnTlog
import ModVerif.Model.Tlog
import ModVerif.Proofs.TieFnTlogInt
import ModVerif.Proofs.TieFnTlogIntTree
namespace ModVerif.Tie.FnTlogInt
open ModVerif ModVerif.GoRt ModVerif.TieFnTlogInt

/-- `maxpow2`: for EVERY integer `n` (no range hypothesis; `n ≤ 1`, also negative, gives `(1, 0)` on both sides). -/
theorem maxpow2_tie (fuel : Nat) (n : Int) (hf : 63 ≤ fuel) :
    Generated.Tlog.maxpow2 fuel n =
      .ok (Int.ofNat (Tlog.maxpow2 n.toNat).1, Int.ofNat (Tlog.maxpow2 n.toNat).2) :=
  maxpow2_eq fuel n hf

example : Generated.Tlog.maxpow2 63 13 = .ok (8, 3) ∧ Tlog.maxpow2 (13 : Int).toNat = (8, 3) := ⟨rfl, rfl⟩

/-- `StoredHashIndex(level, n)` for `level ≥ 0`, `n ≥ 0` whenever the RESULT fits in int64 (then every intermediate
    does: the hypothesis is exactly "no int64 overflow"). -/
theorem StoredHashIndex_tie (fuel : Nat) (level n : Int) (hl : 0 ≤ level) (hn : 0 ≤ n)
    (hr : Tlog.storedHashIndex level.toNat n.toNat < 2 ^ 63) (hf : 64 ≤ fuel) :
    Generated.Tlog.StoredHashIndex fuel level n = .ok (Int.ofNat (Tlog.storedHashIndex level.toNat n.toNat)) := by
  have := StoredHashIndex_eq fuel level.toNat n.toNat hr hf
  rwa [Int.toNat_of_nonneg hl, Int.toNat_of_nonneg hn] at this

example : Generated.Tlog.StoredHashIndex 64 2 5 = .ok 44 ∧ Tlog.storedHashIndex (2 : Int).toNat (5 : Int).toNat = 44 := by
  exact ⟨rfl, rfl⟩

/-- `SplitStoredHashIndex(index)` for `0 ≤ index ≤ MaxInt64 - 1`.  The model never fails there
    (`TlogStore.split_total`), so the right-hand side is `.ok (level, n)`; `splitOut` maps a model error to the
    "bad math" panic.  (At `index = MaxInt64` the value `x` of the loop is `2^63`: int64 overflow.) -/
theorem SplitStoredHashIndex_tie (fuel : Nat) (index : Int) (h0 : 0 ≤ index) (hr : index < 2 ^ 63 - 1) (hf : 64 ≤ fuel) :
    Generated.Tlog.SplitStoredHashIndex fuel index = splitOut (Tlog.splitStoredHashIndex index.toNat) := by
  have := SplitStoredHashIndex_eq fuel index.toNat (by omega) hf
  rwa [Int.toNat_of_nonneg h0] at this

example : Generated.Tlog.SplitStoredHashIndex 64 44 = .ok (2, 5) ∧
    splitOut (Tlog.splitStoredHashIndex (44 : Int).toNat) = .ok (2, 5) := ⟨rfl, rfl⟩

/-- `StoredHashCount(n)` for `n ≥ 0` whenever the result fits in int64. -/
theorem StoredHashCount_tie (fuel : Nat) (n : Int) (h0 : 0 ≤ n) (hr : Tlog.storedHashCount n.toNat < 2 ^ 63) (hf : 64 ≤ fuel) :
    Generated.Tlog.StoredHashCount fuel n = .ok (Int.ofNat (Tlog.storedHashCount n.toNat)) := by
  have := StoredHashCount_eq fuel n.toNat hr hf
  rwa [Int.toNat_of_nonneg h0] at this

example : Generated.Tlog.StoredHashCount 64 13 = .ok 23 ∧ Tlog.storedHashCount (13 : Int).toNat = 23 := ⟨rfl, rfl⟩

/-- `subTreeIndex(lo, hi, need)` for `0 ≤ lo`, `hi ≤ 2^62`, constant fuel.  `subTreeIndexOut need` appends the model's
    indexes to `need`; the model's only error here is `panic` (`Tlog.subTreeIndex_ne_fuel`) and the generated code then
    panics as well ("tlog: bad math in subTreeIndex", reachable for unaligned `lo`, e.g. `lo = 1, hi = 3`); for the
    aligned intervals the provers use, `TlogStore.subTreeIndex_spec` shows the model is `.ok`.
    Beyond `hi = 2^62` StoredHashIndex overflows int64 (indexes are about `2·hi`). -/
theorem subTreeIndex_tie (fuel : Nat) (lo hi : Int) (need : List Int) (h0 : 0 ≤ lo) (hr : hi ≤ 2 ^ 62) (hf : 127 ≤ fuel) :
    Generated.Tlog.subTreeIndex fuel lo hi need = subTreeIndexOut need (Tlog.subTreeIndex lo.toNat hi.toNat) := by
  by_cases hh : 0 ≤ hi
  · have := subTreeIndex_eq fuel lo.toNat hi.toNat need (by omega) hf
    rwa [Int.toNat_of_nonneg h0, Int.toNat_of_nonneg hh] at this
  · rw [subTreeIndex_empty fuel lo hi need (by omega) (by omega),
      subTreeIndex_model_empty lo.toNat hi.toNat (by omega)]
    simp [subTreeIndexOut]

example : Generated.Tlog.subTreeIndex 127 0 13 [7] = .ok [7, 14, 21, 22] ∧
    subTreeIndexOut [7] (Tlog.subTreeIndex (0 : Int).toNat (13 : Int).toNat) = .ok [7, 14, 21, 22] := ⟨rfl, rfl⟩

example : Generated.Tlog.subTreeIndex 127 1 3 [] = .error .panic ∧
    subTreeIndexOut [] (Tlog.subTreeIndex (1 : Int).toNat (3 : Int).toNat) = .error .panic := ⟨rfl, rfl⟩

end ModVerif.Tie.FnTlogInt
