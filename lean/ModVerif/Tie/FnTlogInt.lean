/-
  Tie theorems, integer kernels of sumdb/tlog: the definitions regenerated from the Go source by go2lean
  (`Generated/FnTlog.lean`, CHECKED mode: every int64 result goes through `chk64`) compute exactly what the hand
  model (`Model/Tlog.lean`) says — in particular no panic, no fuel exhaustion and no int64 overflow on the stated range.
  Helper lemmas: `Proofs/TieFnTlogInt*.lean`, `Proofs/GoRtLemmasInt.lean`.
-/
import ModVerif.Generated.FnTlog
import ModVerif.Model.Tlog
import ModVerif.Proofs.TieFnTlogInt
import ModVerif.Proofs.TieFnTlogIntTree
import ModVerif.Proofs.TieFnTlogIntStore
import ModVerif.Proofs.TieFnTlogIntOvf
namespace ModVerif.Tie.FnTlogInt
open ModVerif ModVerif.GoRt ModVerif.TieFnTlogInt

/-- `maxpow2`: for EVERY integer `n` (no range hypothesis; `n ≤ 1`, also negative, gives `(1, 0)` on both sides). -/
theorem maxpow2_tie (fuel : Nat) (n : Int) (hf : 63 ≤ fuel) :
    Generated.Tlog.maxpow2 fuel n =
      .ok (Int.ofNat (Tlog.maxpow2 n.toNat).1, Int.ofNat (Tlog.maxpow2 n.toNat).2) :=
  maxpow2_eq fuel n hf

example : Generated.Tlog.maxpow2 63 13 = .ok (8, 3) ∧ Tlog.maxpow2 (13 : Int).toNat = (8, 3) := ⟨rfl, rfl⟩

/-- `StoredHashIndex(level, n)` for `level ≥ 0`, `n ≥ 0` whenever the RESULT fits in int64 (then every intermediate
    does: the hypothesis is exactly "no int64 overflow"). -/
theorem StoredHashIndex_tie (fuel : Nat) (level n : Int) (hl : 0 ≤ level) (hn : 0 ≤ n)
    (hr : Tlog.storedHashIndex level.toNat n.toNat < 2 ^ 63) (hf : 64 ≤ fuel) :
    Generated.Tlog.StoredHashIndex fuel level n = .ok (Int.ofNat (Tlog.storedHashIndex level.toNat n.toNat)) := by
  have := StoredHashIndex_eq fuel level.toNat n.toNat hr hf
  rwa [Int.toNat_of_nonneg hl, Int.toNat_of_nonneg hn] at this

example : Generated.Tlog.StoredHashIndex 64 2 5 = .ok 44 ∧ Tlog.storedHashIndex (2 : Int).toNat (5 : Int).toNat = 44 := by
  exact ⟨rfl, rfl⟩

/-- the range hypothesis of `StoredHashIndex_tie` is exact: for int64 arguments `level ≥ 0`, `n ≥ 0` whose result does
    not fit in int64 the checked translation reports the overflow (the Go code wraps around). -/
theorem StoredHashIndex_tie_overflow (fuel : Nat) (level n : Int) (hl : 0 ≤ level) (hl' : level < 2 ^ 63) (hn : 0 ≤ n)
    (hn' : n < 2 ^ 63) (hr : 2 ^ 63 ≤ Tlog.storedHashIndex level.toNat n.toNat) (hf : level.toNat + 64 ≤ fuel) :
    Generated.Tlog.StoredHashIndex fuel level n = .error .overflow := by
  have := StoredHashIndex_overflow fuel level.toNat n.toNat (by omega) (by omega) hr hf
  rwa [Int.toNat_of_nonneg hl, Int.toNat_of_nonneg hn] at this

example : Generated.Tlog.StoredHashIndex 128 0 (2 ^ 62 + 1) = .error .overflow ∧
    2 ^ 63 ≤ Tlog.storedHashIndex (0 : Int).toNat ((2 ^ 62 + 1 : Int)).toNat := ⟨rfl, by decide⟩

/-- `SplitStoredHashIndex(index)` for `0 ≤ index ≤ MaxInt64 - 1`.  The model never fails there
    (`TlogStore.split_total`), so the right-hand side is `.ok (level, n)`; `splitOut` maps a model error to the
    "bad math" panic.  (At `index = MaxInt64` the value `x` of the loop is `2^63`: int64 overflow.) -/
theorem SplitStoredHashIndex_tie (fuel : Nat) (index : Int) (h0 : 0 ≤ index) (hr : index < 2 ^ 63 - 1) (hf : 64 ≤ fuel) :
    Generated.Tlog.SplitStoredHashIndex fuel index = splitOut (Tlog.splitStoredHashIndex index.toNat) := by
  have := SplitStoredHashIndex_eq fuel index.toNat (by omega) hf
  rwa [Int.toNat_of_nonneg h0] at this

example : Generated.Tlog.SplitStoredHashIndex 64 44 = .ok (2, 5) ∧
    splitOut (Tlog.splitStoredHashIndex (44 : Int).toNat) = .ok (2, 5) := ⟨rfl, rfl⟩

/-- the bound `index < MaxInt64` of `SplitStoredHashIndex_tie` is exact: `MaxInt64 = StoredHashIndex(0, 2^62)` is a valid
    stored-hash index (the model answers `(0, 2^62)`), but the loop then computes `indexN + 1 = 2^63`: int64 overflow. -/
theorem SplitStoredHashIndex_tie_maxInt64 (fuel : Nat) (hf : 64 ≤ fuel) :
    Generated.Tlog.SplitStoredHashIndex fuel (2 ^ 63 - 1) = .error .overflow := by
  have := SplitStoredHashIndex_maxInt64 fuel hf
  have e : (((2 ^ 63 - 1 : Nat)) : Int) = 2 ^ 63 - 1 := by omega
  rwa [e] at this

/-- `StoredHashCount(n)` for `n ≥ 0` whenever the result fits in int64. -/
theorem StoredHashCount_tie (fuel : Nat) (n : Int) (h0 : 0 ≤ n) (hr : Tlog.storedHashCount n.toNat < 2 ^ 63) (hf : 64 ≤ fuel) :
    Generated.Tlog.StoredHashCount fuel n = .ok (Int.ofNat (Tlog.storedHashCount n.toNat)) := by
  have := StoredHashCount_eq fuel n.toNat hr hf
  rwa [Int.toNat_of_nonneg h0] at this

/-- the range hypothesis of `StoredHashCount_tie` is exact: an int64 `n ≥ 0` whose count does not fit in int64 overflows -/
theorem StoredHashCount_tie_overflow (fuel : Nat) (n : Int) (h0 : 0 ≤ n) (hn : n < 2 ^ 63)
    (hr : 2 ^ 63 ≤ Tlog.storedHashCount n.toNat) (hf : 65 ≤ fuel) :
    Generated.Tlog.StoredHashCount fuel n = .error .overflow := by
  have := StoredHashCount_overflow fuel n.toNat (by omega) hr hf
  rwa [Int.toNat_of_nonneg h0] at this

example : Generated.Tlog.StoredHashCount 64 13 = .ok 23 ∧ Tlog.storedHashCount (13 : Int).toNat = 23 := ⟨rfl, rfl⟩

/-- `subTreeIndex(lo, hi, need)` for `0 ≤ lo`, `hi ≤ 2^62`, constant fuel.  `subTreeIndexOut need` appends the model's
    indexes to `need`; the model's only error here is `panic` (`Tlog.subTreeIndex_ne_fuel`) and the generated code then
    panics as well ("tlog: bad math in subTreeIndex", reachable for unaligned `lo`, e.g. `lo = 1, hi = 3`); for the
    aligned intervals the provers use, `TlogStore.subTreeIndex_spec` shows the model is `.ok`.
    Beyond `hi = 2^62` StoredHashIndex overflows int64 (indexes are about `2·hi`). -/
theorem subTreeIndex_tie (fuel : Nat) (lo hi : Int) (need : List Int) (h0 : 0 ≤ lo) (hr : hi ≤ 2 ^ 62) (hf : 127 ≤ fuel) :
    Generated.Tlog.subTreeIndex fuel lo hi need = subTreeIndexOut need (Tlog.subTreeIndex lo.toNat hi.toNat) := by
  by_cases hh : 0 ≤ hi
  · have := subTreeIndex_eq fuel lo.toNat hi.toNat need (by omega) hf
    rwa [Int.toNat_of_nonneg h0, Int.toNat_of_nonneg hh] at this
  · rw [subTreeIndex_empty fuel lo hi need (by omega) (by omega),
      subTreeIndex_model_empty lo.toNat hi.toNat (by omega)]
    simp [subTreeIndexOut]

example : Generated.Tlog.subTreeIndex 127 0 13 [7] = .ok [7, 14, 21, 22] ∧
    subTreeIndexOut [7] (Tlog.subTreeIndex (0 : Int).toNat (13 : Int).toNat) = .ok [7, 14, 21, 22] := ⟨rfl, rfl⟩

example : Generated.Tlog.subTreeIndex 127 1 3 [] = .error .panic ∧
    subTreeIndexOut [] (Tlog.subTreeIndex (1 : Int).toNat (3 : Int).toNat) = .error .panic := ⟨rfl, rfl⟩

/-- `StoredHashesForRecordHash(n, h, r)` for an ARBITRARY hash type, node-hash function and reader `r`, for
    `0 ≤ n < MaxInt64` such that every index that is read (`shIndexes n` = the model's list
    `StoredHashIndex(i, n>>i - 1)`, `i < TrailingZeros64(n+1)`) fits in int64.  `readerOf r` is the model reader induced by
    `r`; `shOut` returns the model's hashes with a nil error, and for a failed read `nil` with the reader's own error or
    the "wrong number of hashes" message (`readErrOf`), which is what the Go code returns. -/
theorem StoredHashesForRecordHash_tie {H : Type} [DecidableEq H] [Inhabited H] (node : H → H → H) (fuel : Nat) (n : Int)
    (h : H) (r : List Int → List H × Option String) (h0 : 0 ≤ n) (hn : n < 2 ^ 63 - 1)
    (hr : ∀ x ∈ shIndexes n.toNat, x < 2 ^ 63) (hf : 128 ≤ fuel) :
    Generated.Tlog.StoredHashesForRecordHash node fuel n h r =
      .ok (shOut r n.toNat (Tlog.storedHashesForRecordHash node n.toNat h (readerOf r))) := by
  have := StoredHashesForRecordHash_eq' node fuel n.toNat h r (by omega) hr hf
  rwa [Int.toNat_of_nonneg h0] at this

/-- the same when the position `StoredHashIndex(0, n)` at which the record's hashes are to be stored fits in int64
    (every index read is smaller: `shIndexes_lt`) -/
theorem StoredHashesForRecordHash_tie_of_index {H : Type} [DecidableEq H] [Inhabited H] (node : H → H → H) (fuel : Nat)
    (n : Int) (h : H) (r : List Int → List H × Option String) (h0 : 0 ≤ n)
    (hr : Tlog.storedHashIndex 0 n.toNat < 2 ^ 63) (hf : 128 ≤ fuel) :
    Generated.Tlog.StoredHashesForRecordHash node fuel n h r =
      .ok (shOut r n.toNat (Tlog.storedHashesForRecordHash node n.toNat h (readerOf r))) := by
  rw [Tlog.storedHashIndex_zero_eq] at hr
  have := StoredHashesForRecordHash_eq node fuel n.toNat h r hr hf
  rwa [Int.toNat_of_nonneg h0] at this

/-- the same under the simple range hypothesis `n < 2^62` -/
theorem StoredHashesForRecordHash_tie_of_lt {H : Type} [DecidableEq H] [Inhabited H] (node : H → H → H) (fuel : Nat) (n : Int)
    (h : H) (r : List Int → List H × Option String) (h0 : 0 ≤ n) (hr : n < 2 ^ 62) (hf : 128 ≤ fuel) :
    Generated.Tlog.StoredHashesForRecordHash node fuel n h r =
      .ok (shOut r n.toNat (Tlog.storedHashesForRecordHash node n.toNat h (readerOf r))) := by
  apply StoredHashesForRecordHash_tie_of_index node fuel n h r h0 _ hf
  rw [Tlog.storedHashIndex_zero_eq]
  have := Tlog.S_le_two_mul n.toNat
  omega

/-- the same for StoredHashIndex: a complete subtree `(level, n)` of a log of at most `2^62` records -/
theorem StoredHashIndex_tie_of_le (fuel : Nat) (level n : Int) (hl : 0 ≤ level) (hn : 0 ≤ n)
    (hr : (n.toNat + 1) * 2 ^ level.toNat ≤ 2 ^ 62) (hf : 64 ≤ fuel) :
    Generated.Tlog.StoredHashIndex fuel level n = .ok (Int.ofNat (Tlog.storedHashIndex level.toNat n.toNat)) :=
  StoredHashIndex_tie fuel level n hl hn (storedHashIndex_lt_of_le _ _ hr) hf

-- non-vacuity on `H := Nat`: record 3 completes two subtrees; the reader returns 10·index, resp. fails
example : Generated.Tlog.StoredHashesForRecordHash (fun a b : Nat => 2 * a + 3 * b + 1) 128 3 5
      (fun idx => (idx.map fun i => i.toNat * 10, none)) = .ok ([5, 76, 269], none) ∧
    shOut (fun idx => (idx.map fun i => i.toNat * 10, none)) (3 : Int).toNat
      (Tlog.storedHashesForRecordHash (fun a b : Nat => 2 * a + 3 * b + 1) (3 : Int).toNat 5
        (readerOf fun idx => (idx.map fun i => i.toNat * 10, none))) = ([5, 76, 269], none) := ⟨rfl, rfl⟩

example : Generated.Tlog.StoredHashesForRecordHash (fun a b : Nat => a + b) 128 3 5
      (fun _ => ([], some "boom")) = .ok ([], some "boom") ∧
    shOut (fun _ => ([], some "boom")) (3 : Int).toNat
      (Tlog.storedHashesForRecordHash (fun a b : Nat => a + b) (3 : Int).toNat 5
        (readerOf fun _ => ([], some "boom"))) = ([], some "boom") := ⟨rfl, rfl⟩

end ModVerif.Tie.FnTlogInt
