/-
  C12 about the REGENERATED code: the property theorems of `Props/C12.lean` (stated there for the hand model `Zip.unzip` /
  `Zip.checkZip`) restated for `Generated.Zip.Unzip` / `Generated.Zip.checkZip` — the definitions go2lean re-translates
  from zip/zip.go on every check — through the tie theorems `Tie.FnZipIOUnzip.Unzip_tie` / `checkZip_tie`.

  Setting of every theorem: `Inst E cv ef mc sf K` (the instantiation hypotheses of the ties), entries with 64-bit declared
  sizes, fuel `fuelBoundZ K es`, and a call
    `Generated.Zip.Unzip cv (cfpOf E) ef mc sf fuel d ⟨p, v⟩ zipFile (world0 d t zs es) = .ok (err, w)`
  (`Unzip_gen_total`: such `err`, `w` always exist — no panic, no fuel exhaustion).  `w.fx` is the list of file-system
  effects the call performed (Basic/GoRtZipIO.lean), `err = none` is success.
-/
import ModVerif.Tie.FnZipIOUnzip
import ModVerif.Props.C12
namespace ModVerif.Tie.FnZipIOC12
open ModVerif ModVerif.TieFnZip ModVerif.TieFnZipCf ModVerif.TieFnZipIOUnzip
open ModVerif.GoRt (FsW FsEffect ZReader fsCreatedFiles)
open ModVerif.PathClean ModVerif.Zip ModVerif.ZipSpec ModVerif.Proofs.Zip ModVerif.Proofs.ZipB
open ModVerif.Drv.GenZipIO (toZEntry toEffect targetCode)

/-- the instantiation hypotheses of the ties (see `Tie/FnZipIOUnzip.lean`) -/
structure Inst (E : Env) (cv : Bytes → Bytes) (ef : Bytes → Bytes → Bool) (mc : Bytes → Bytes → Option String)
    (sf : Int → Int) (K : Nat) : Prop where
  hsf : FoldsTo sf K
  hE : E.toFold = Zip.strToFold
  hef : ∀ s, ef s goModName = equalFoldGoMod s
  hrel : ∀ p, E.cfp p = true → isAbs p = false
  hmod : ∀ p v, (cv v = v ∧ mc p v = none) ↔ E.modOK p v = true

section
variable {E : Env} {cv : Bytes → Bytes} {ef : Bytes → Bytes → Bool} {mc : Bytes → Bytes → Option String}
  {sf : Int → Int} {K : Nat}

/-- the regenerated `Unzip` always returns (no panic, no fuel exhaustion) -/
theorem Unzip_gen_total (I : Inst E cv ef mc sf K) (d p v zipFile : Bytes) (zs : Nat) (es : List Entry)
    (hsz : ∀ e ∈ es, e.declSize < 2 ^ 64) (t : Target) (fuel : Nat) (hfuel : fuelBoundZ K es ≤ fuel) :
    ∃ err w, Generated.Zip.Unzip cv (cfpOf E) ef mc sf fuel d ⟨p, v⟩ zipFile (world0 d t zs es) = .ok (err, w) := by
  obtain ⟨err, w, h, _⟩ := FnZipIOUnzip.Unzip_tie_result cv ef mc sf E K I.hsf I.hE I.hef I.hrel d p v zipFile
    (I.hmod p v) zs es hsz t fuel hfuel
  exact ⟨err, w, h⟩

/-- what a call of the regenerated `Unzip` returned is what the model says -/
theorem Unzip_gen_model (I : Inst E cv ef mc sf K) {d p v zipFile : Bytes} {zs : Nat} {es : List Entry}
    (hsz : ∀ e ∈ es, e.declSize < 2 ^ 64) {t : Target} {fuel : Nat} (hfuel : fuelBoundZ K es ≤ fuel)
    {err : Option String} {w : FsW}
    (h : Generated.Zip.Unzip cv (cfpOf E) ef mc sf fuel d ⟨p, v⟩ zipFile (world0 d t zs es) = .ok (err, w)) :
    (err = none ↔ (unzip E d t p v zs es).err = none) ∧ w.fx.map toEffect = (unzip E d t p v zs es).effects := by
  obtain ⟨err', w', h', _, h2, h3⟩ := FnZipIOUnzip.Unzip_tie_result cv ef mc sf E K I.hsf I.hE I.hef I.hrel d p v
    zipFile (I.hmod p v) zs es hsz t fuel hfuel
  rw [h] at h'
  cases h'
  exact ⟨h2, h3⟩

/-- the regenerated `checkZip` returns no error exactly when the model's accepts -/
theorem checkZip_gen_accepts_iff (I : Inst E cv ef mc sf K) (p v : Bytes) (zs : Nat) (es : List Entry)
    (hsz : ∀ e ∈ es, e.declSize < 2 ^ 64) (fuel : Nat) (hfuel : fuelBoundZ K es ≤ fuel) :
    (∃ rd cfG, Generated.Zip.checkZip cv (cfpOf E) ef mc sf fuel ⟨p, v⟩ (osFileOf zs es) = .ok (rd, cfG, none)) ↔
      ∃ cf, checkZip E p v zs es = .ok cf ∧ cf.err = none := by
  have ht := FnZipIOUnzip.checkZip_tie cv ef mc sf E K I.hsf I.hE I.hef I.hrel p v (I.hmod p v) zs es hsz fuel hfuel
  constructor
  · rintro ⟨rd, cfG, h⟩
    rw [h] at ht
    cases hc : checkZip E p v zs es with
    | error k =>
      cases k
      have := (FnZipIOUnzip.checkZip_tie_badModule cv ef mc sf E K I.hsf I.hE I.hef I.hrel p v (I.hmod p v) zs es hsz
        fuel hfuel hc).2
      rw [hc] at ht
      simp only [Except.ok.injEq, Prod.mk.injEq] at ht
      exact absurd ht.2.2.symm this
    | ok cf =>
      rw [hc] at ht
      simp only [Except.ok.injEq, Prod.mk.injEq] at ht
      refine ⟨cf, rfl, ?_⟩
      have := ht.2.2
      cases hce : cf.err with
      | none => rfl
      | some k => rw [hce] at this; cases this
  · rintro ⟨cf, hc, hce⟩
    rw [hc] at ht
    simp only [hce, Option.map_none] at ht
    exact ⟨_, _, ht⟩

/-! ### the C12 theorems -/

/-- `unzip_only_after_checkZip` for the regenerated code: if the regenerated `Unzip` performed any effect at all, the
    target was usable and the regenerated `checkZip` returned no error on the archive. -/
theorem unzip_only_after_checkZip_gen (I : Inst E cv ef mc sf K) (d p v zipFile : Bytes) (zs : Nat) (es : List Entry)
    (hsz : ∀ e ∈ es, e.declSize < 2 ^ 64) (t : Target) (fuel : Nat) (hfuel : fuelBoundZ K es ≤ fuel)
    (err : Option String) (w : FsW)
    (h : Generated.Zip.Unzip cv (cfpOf E) ef mc sf fuel d ⟨p, v⟩ zipFile (world0 d t zs es) = .ok (err, w))
    (hne : w.fx ≠ []) :
    t ≠ .nonEmptyDir ∧ t ≠ .notDir ∧
      ∃ rd cfG, Generated.Zip.checkZip cv (cfpOf E) ef mc sf fuel ⟨p, v⟩ (osFileOf zs es) = .ok (rd, cfG, none) := by
  obtain ⟨_, hfx⟩ := Unzip_gen_model I hsz hfuel h
  have hne' : (unzip E d t p v zs es).effects ≠ [] := by
    rw [← hfx]; intro h0; exact hne (List.map_eq_nil_iff.mp h0)
  obtain ⟨h1, h2, h3⟩ := Props.C12.unzip_only_after_checkZip E d t p v zs es hne'
  exact ⟨h1, h2, (checkZip_gen_accepts_iff I p v zs es hsz fuel hfuel).mpr h3⟩

/-- `unzip_ok_implies_checkZip` for the regenerated code: success implies that the regenerated `checkZip` returned no
    error, and every extracted entry had exactly its declared size and was created with its complete content. -/
theorem unzip_ok_implies_checkZip_gen (I : Inst E cv ef mc sf K) (d p v zipFile : Bytes) (zs : Nat) (es : List Entry)
    (hsz : ∀ e ∈ es, e.declSize < 2 ^ 64) (t : Target) (fuel : Nat) (hfuel : fuelBoundZ K es ≤ fuel) (w : FsW)
    (h : Generated.Zip.Unzip cv (cfpOf E) ef mc sf fuel d ⟨p, v⟩ zipFile (world0 d t zs es) = .ok (none, w)) :
    (∃ rd cfG, Generated.Zip.checkZip cv (cfpOf E) ef mc sf fuel ⟨p, v⟩ (osFileOf zs es) = .ok (rd, cfG, none)) ∧
    ∀ zf ∈ es, skipEntry (zipPrefix p v) zf = false →
      zf.content.length = zf.declSize ∧
      FsEffect.createExcl (dstOf d (zipPrefix p v) zf) (some zf.content) ∈ w.fx := by
  obtain ⟨herr, hfx⟩ := Unzip_gen_model I hsz hfuel h
  obtain ⟨h1, h2⟩ := Props.C12.unzip_ok_implies_checkZip E d t p v zs es (herr.mp rfl)
  refine ⟨(checkZip_gen_accepts_iff I p v zs es hsz fuel hfuel).mpr h1, fun zf hzf hs => ?_⟩
  obtain ⟨h3, h4⟩ := h2 zf hzf hs
  refine ⟨h3, ?_⟩
  rw [← hfx] at h4
  obtain ⟨fe, hfe, heq⟩ := List.mem_map.mp h4
  cases fe with
  | mkdirAll q => cases heq
  | createExcl q c =>
    simp only [toEffect, Effect.createExcl.injEq] at heq
    obtain ⟨rfl, rfl⟩ := heq
    exact hfe

/-- `unzip_effects_shape` for the regenerated code: every effect — success or failure, any entry list — is the creation of
    the target directory itself, or `MkdirAll(Dir(dst))` / the exclusive creation of `dst = filepath.Join(dir, name)` for a
    file entry. -/
theorem unzip_effects_shape_gen (I : Inst E cv ef mc sf K) (d p v zipFile : Bytes) (zs : Nat) (es : List Entry)
    (hsz : ∀ e ∈ es, e.declSize < 2 ^ 64) (t : Target) (fuel : Nat) (hfuel : fuelBoundZ K es ≤ fuel)
    (err : Option String) (w : FsW)
    (h : Generated.Zip.Unzip cv (cfpOf E) ef mc sf fuel d ⟨p, v⟩ zipFile (world0 d t zs es) = .ok (err, w)) :
    ∀ fe ∈ w.fx, fe = .mkdirAll d ∨ ∃ zf ∈ es, skipEntry (zipPrefix p v) zf = false ∧
      (fe = .mkdirAll (pathDir (dstOf d (zipPrefix p v) zf)) ∨ ∃ c, fe = .createExcl (dstOf d (zipPrefix p v) zf) c) := by
  obtain ⟨_, hfx⟩ := Unzip_gen_model I hsz hfuel h
  intro fe hfe
  have hm : toEffect fe ∈ (unzip E d t p v zs es).effects := by
    rw [← hfx]; exact List.mem_map_of_mem hfe
  rcases Props.C12.unzip_effects_shape E d t p v zs es _ hm with h1 | ⟨zf, hzf, hs, h2⟩
  · left
    cases fe with
    | mkdirAll q => simp only [toEffect, Effect.mkdirAll.injEq] at h1; rw [h1]
    | createExcl q c => cases h1
  · right
    refine ⟨zf, hzf, hs, ?_⟩
    rcases h2 with h2 | ⟨c, h2⟩
    · left
      cases fe with
      | mkdirAll q => simp only [toEffect, Effect.mkdirAll.injEq] at h2; rw [h2]
      | createExcl q c => cases h2
    · right
      cases fe with
      | mkdirAll q => cases h2
      | createExcl q c' =>
        simp only [toEffect, Effect.createExcl.injEq] at h2
        exact ⟨c', by rw [h2.1]⟩

/-- the path an effect touches -/
def fsPath : FsEffect → Bytes
  | .mkdirAll p => p
  | .createExcl p _ => p

theorem path_toEffect (fe : FsEffect) : (toEffect fe).path = fsPath fe := by cases fe <;> rfl

/-- `unzip_confined` for the regenerated code: nothing is ever created outside the target directory — every effect of the
    regenerated `Unzip`, success or failure, any entry list with arbitrary byte-string names, has a path under `dir`. -/
theorem unzip_confined_gen (I : Inst E cv ef mc sf K) (hS : CfpSound E.cfp) (d p v zipFile : Bytes) (zs : Nat)
    (es : List Entry) (hsz : ∀ e ∈ es, e.declSize < 2 ^ 64) (t : Target) (fuel : Nat) (hfuel : fuelBoundZ K es ≤ fuel)
    (err : Option String) (w : FsW)
    (h : Generated.Zip.Unzip cv (cfpOf E) ef mc sf fuel d ⟨p, v⟩ zipFile (world0 d t zs es) = .ok (err, w)) :
    ∀ fe ∈ w.fx, IsUnder d (fsPath fe) ∧ IsUnder (pathClean d) (fsPath fe) := by
  obtain ⟨_, hfx⟩ := Unzip_gen_model I hsz hfuel h
  intro fe hfe
  have hm : toEffect fe ∈ (unzip E d t p v zs es).effects := by
    rw [← hfx]; exact List.mem_map_of_mem hfe
  rw [← path_toEffect]
  exact Props.C12.unzip_confined E hS d t p v zs es _ hm

/-- `checkZip_ok_spec` for the regenerated code: when the regenerated `checkZip` returns no error, the archive satisfies
    every documented restriction (the conclusion of `Props.C12.checkZip_ok_spec` for the model's report). -/
theorem checkZip_ok_spec_gen (I : Inst E cv ef mc sf K) (p v : Bytes) (zs : Nat) (es : List Entry)
    (hsz : ∀ e ∈ es, e.declSize < 2 ^ 64) (fuel : Nat) (hfuel : fuelBoundZ K es ≤ fuel) (rd : ZReader)
    (cfG : Generated.Zip.CheckedFiles)
    (h : Generated.Zip.checkZip cv (cfpOf E) ef mc sf fuel ⟨p, v⟩ (osFileOf zs es) = .ok (rd, cfG, none)) :
    rd = { File := es.map toZEntry } ∧
    E.modOK p v = true ∧ zs ≤ MaxZipFile ∧
    (∀ e ∈ es, zipPrefix p v <+: e.name ∧
      (relName (zipPrefix p v) e ≠ [] →
        pathClean (stripName (zipPrefix p v) e) = stripName (zipPrefix p v) e ∧
        E.cfp (stripName (zipPrefix p v) e) = true)) ∧
    (∀ e ∈ fileEntries (zipPrefix p v) es,
      (equalFoldGoMod (pathBase (relName (zipPrefix p v) e)) = true → relName (zipPrefix p v) e = goModName) ∧
      0 ≤ int64OfU64 e.declSize ∧ (e.declSize < 2 ^ 64 → int64OfU64 e.declSize = e.declSize) ∧
      (relName (zipPrefix p v) e = goModName → int64OfU64 e.declSize ≤ MaxGoMod) ∧
      (relName (zipPrefix p v) e = licenseName → int64OfU64 e.declSize ≤ MaxLICENSE)) ∧
    ((fileEntries (zipPrefix p v) es).map (fun e => int64OfU64 e.declSize)).sum ≤ MaxZipFile ∧
    cfG.Valid = (fileEntries (zipPrefix p v) es).map (·.name) ∧
    (es.flatMap (regsOf (zipPrefix p v))).Pairwise (Compatible E.toFold) ∧
    (CfpSound E.cfp → es.Pairwise (NoClash E (zipPrefix p v))) := by
  obtain ⟨cf, hc, hce⟩ := (checkZip_gen_accepts_iff I p v zs es hsz fuel hfuel).mp ⟨rd, cfG, h⟩
  have ht := FnZipIOUnzip.checkZip_tie_ok cv ef mc sf E K I.hsf I.hE I.hef I.hrel p v (I.hmod p v) zs es hsz fuel hfuel
    cf hc
  rw [h] at ht
  simp only [Except.ok.injEq, Prod.mk.injEq] at ht
  obtain ⟨s1, s2, s3, s4, s5, s6, s7, s8⟩ := Props.C12.checkZip_ok_spec E p v zs es cf hc hce
  have hrd : rd = { File := es.map toZEntry } := by
    rw [ht.1]; unfold readerOf; rw [if_neg (by omega)]
  refine ⟨hrd, s1, s2, s3, s4, s5, ?_, s7, s8⟩
  rw [ht.2.1]
  exact s6

/-- `unzip_ok_iff_partial` for the regenerated code: the regenerated `Unzip` succeeds exactly when the regenerated
    `checkZip` returns no error (honest sizes, target missing or an empty directory, `dir` empty, clean or without `..`
    elements — the hypothesis on `dir` cannot be dropped, see Props/C12). -/
theorem unzip_ok_iff_partial_gen (I : Inst E cv ef mc sf K) (hS : CfpSound E.cfp) (d : Bytes)
    (hdir : d = [] ∨ pathClean d = d ∨ ([46, 46] : Bytes) ∉ splitOn 47 d) (t : Target)
    (ht : t = .missing ∨ t = .emptyDir) (p v zipFile : Bytes) (zs : Nat) (es : List Entry) (hon : HonestEntries es)
    (hsz : ∀ e ∈ es, e.declSize < 2 ^ 64) (fuel : Nat) (hfuel : fuelBoundZ K es ≤ fuel)
    (err : Option String) (w : FsW)
    (h : Generated.Zip.Unzip cv (cfpOf E) ef mc sf fuel d ⟨p, v⟩ zipFile (world0 d t zs es) = .ok (err, w)) :
    err = none ↔
      ∃ rd cfG, Generated.Zip.checkZip cv (cfpOf E) ef mc sf fuel ⟨p, v⟩ (osFileOf zs es) = .ok (rd, cfG, none) := by
  obtain ⟨herr, _⟩ := Unzip_gen_model I hsz hfuel h
  rw [herr, checkZip_gen_accepts_iff I p v zs es hsz fuel hfuel]
  exact Props.C12.unzip_ok_iff_partial E hS d hdir t ht p v zs es hon

/-- `unzip_tree_eq_entries` for the regenerated code: on success the effects are the creation of the target and then, for
    every file entry in archive order, `MkdirAll(Dir(dst))` and the exclusive creation of `dst = Join(dir, name)` with the
    entry's complete content, byte for byte; the created files are the destinations of the file entries, and no
    destination occurs twice. -/
theorem unzip_tree_eq_entries_gen (I : Inst E cv ef mc sf K) (d p v zipFile : Bytes) (zs : Nat) (es : List Entry)
    (hsz : ∀ e ∈ es, e.declSize < 2 ^ 64) (t : Target) (fuel : Nat) (hfuel : fuelBoundZ K es ≤ fuel) (w : FsW)
    (h : Generated.Zip.Unzip cv (cfpOf E) ef mc sf fuel d ⟨p, v⟩ zipFile (world0 d t zs es) = .ok (none, w)) :
    w.fx.map toEffect =
      .mkdirAll d :: expectedFx d (zipPrefix p v) (fileEntries (zipPrefix p v) es) ∧
    fsCreatedFiles w.fx = (fileEntries (zipPrefix p v) es).map (dstOf d (zipPrefix p v)) ∧
    ((fileEntries (zipPrefix p v) es).map (dstOf d (zipPrefix p v))).Nodup := by
  obtain ⟨herr, hfx⟩ := Unzip_gen_model I hsz hfuel h
  obtain ⟨h1, h2, h3⟩ := Props.C12.unzip_tree_eq_entries E d t p v zs es (herr.mp rfl)
  refine ⟨by rw [hfx]; exact h1, ?_, h3⟩
  rw [← createdFiles_map, hfx]
  exact h2

end

/-! ### non-vacuity: the driver's instance on the example of Props/C12 -/

open ModVerif.Tie.FnZipIOUnzip (mchkOf exEnv exEnv_rel) in
/-- the example environment with the driver's functions is an instance -/
theorem exInst : Inst exEnv id (fun a _ => equalFoldGoMod a) (mchkOf fun _ _ => true) Drv.GenZip.simpleFoldI 1 :=
  { hsf := FnZip.foldsTo_simpleFoldI, hE := rfl, hef := fun _ => rfl, hrel := exEnv_rel,
    hmod := fun _ _ => by simp [mchkOf, exEnv] }

open ModVerif.Tie.FnZipIOUnzip (mchkOf exEnv exEntries) in
/-- `unzip_tree_eq_entries_gen` and `unzip_confined_gen` apply to the example call (which succeeds) -/
example : ∃ w, Generated.Zip.Unzip id (cfpOf exEnv) (fun a _ => equalFoldGoMod a) (mchkOf fun _ _ => true)
      Drv.GenZip.simpleFoldI (Drv.GenZipIO.entriesFuel exEntries) (B "t") ⟨B "m", B "v1"⟩ (B "z")
      (world0 (B "t") .missing 100 exEntries) = .ok (none, w) ∧
    fsCreatedFiles w.fx = [B "t/go.mod", B "t/a/b.go"] := by
  have hsz : ∀ e ∈ exEntries, e.declSize < 2 ^ 64 := by decide +kernel
  have hfuel := FnZipIOUnzip.fuelBoundZ_le_entriesFuel exEntries
  obtain ⟨err, w, h⟩ := Unzip_gen_total exInst (B "t") (B "m") (B "v1") (B "z") 100 exEntries hsz .missing _ hfuel
  have hm := Unzip_gen_model exInst hsz hfuel h
  have he : err = none := hm.1.mpr (by decide +kernel)
  subst he
  refine ⟨w, h, ?_⟩
  rw [(unzip_tree_eq_entries_gen exInst _ _ _ _ _ _ hsz _ _ hfuel w h).2.1]
  decide +kernel

end ModVerif.Tie.FnZipIOC12
