/-
  Tie: every regenerated function of module/module.go (Generated/FnModule.lean, namespace Generated.Module,
  re-translated from the Go source on every check) computes exactly what the hand model (Model/Module.lean) says,
  for ALL byte strings and all fuel above the stated bound.  The unit is translated in ideal integer mode (no int64
  checks), so a fuel lower bound is the only numeric hypothesis.  Each equation also proves: no panic (index / slice
  out of range, the `default: panic` of checkElem's kind switch) and no fuel exhaustion — except PathMajorPrefix,
  whose two explicit `panic(…)` sites are part of the equation (`= .error .panic` exactly where the model says `none`).

  How the statements bridge the translation:
  * `for i, r := range s` is a fuel loop over byte offsets with `GoRt.decodeRuneAt`; the model uses `Utf8.runes`
    (linked by `GoRtStr.range_step`, Proofs/GoRtLemmasStr.lean);
  * a rune is an `Int` in the generated code and a `Nat` in the model: `r.toNat` (negative values are rejected by
    every predicate on both sides); `unicode.IsLetter : Int → Bool` corresponds to the model's
    `natLetter isLetter = fun n => isLetter ↑n`;
  * `pathKind` is an `Int` (`kindInt`: modulePath = 0, importPath = 1, filePath = 2);
  * a Go `error` is `Option String`: `none`, or the message literal of the `fmt.Errorf` site.  `msg : PathErr → String`
    gives the literal for each error kind of the model, `kindOfMsg` is the inverse table (the same table as
    `Drv.GenModule.pathKind`), so every equation determines the ERROR KIND exactly, not only ok/error.
    Wrapped errors: `wrappedErrOf` = `&InvalidPathError{…, Err: err}` ("InvalidPathError|" ++ literal),
    `checkErrOf`, `escResOf`, `unescResOf` for Check / Escape* / Unescape*;
  * `strings.EqualFold` is the parameter `equalFold`; the hypothesis `FoldOK equalFold` says that against each of the
    22 reserved Windows names it is ASCII-case-insensitive equality (`Tie.module_badWindowsNames_fold_simple`: no
    reserved name contains K or S; the table itself is tied by `Tie.module_badWindowsNames_tie`).  `foldOK_driver`
    PROVES it for EqualFold by simple folding over the committed SimpleFold table, i.e. for the stand-in
    `Drv.GenModule.equalFoldI` with which the regenerated code is run against the real implementation; that Go's own
    strings.EqualFold agrees with that stand-in is what the correspondence run checks;
  * `path.Match` is the parameter `pathMatch`; the model's `glob` is its first component.

  Helper lemmas: Proofs/GoRtLemmasStr.lean, Proofs/TieFnModule{Char,Elem,Path,Split,Major,Esc,Glob,Top}.lean.
  The last section transfers the main C06 / C11 property theorems to the regenerated code.
-/
import ModVerif.Generated.FnModule
import ModVerif.Model.Module
import ModVerif.Proofs.TieFnModuleTop
import ModVerif.Proofs.TieFnModuleGlob
import ModVerif.Proofs.TieFnModuleFold
import ModVerif.Drv.GenModule
import ModVerif.Props.C06
import ModVerif.Props.C11
namespace ModVerif.Tie.FnModule
open ModVerif ModVerif.GoRt ModVerif.TieFnModule

/-- the hypothesis on `strings.EqualFold`: on the reserved Windows names it is ASCII-case-insensitive equality -/
def FoldOK (equalFold : Bytes → Bytes → Bool) : Prop :=
  ∀ bad ∈ Module.badWindowsNames, ∀ s, equalFold bad s = Module.equalFoldAscii bad s

/-- non-vacuity of the hypothesis: the model's own function satisfies it -/
theorem foldOK_ascii : FoldOK Module.equalFoldAscii := fun _ _ _ => rfl

/-- the hypothesis holds for EqualFold by simple case folding over the SimpleFold table (Basic/FoldTable.lean):
    no reserved name contains K or S (`Tie.module_badWindowsNames_fold_simple`), the only letters with a non-ASCII
    rune in their fold orbit -/
theorem foldOK_simple : FoldOK equalFoldSimple := by
  intro bad hbad s
  apply equalFoldSimple_eq
  intro c hc
  rw [← Tie.module_badWindowsNames_tie] at hbad
  exact Tie.module_badWindowsNames_fold_simple bad hbad c hc

/-- … which is, literally, the `strings.EqualFold` stand-in the regenerated code is executed with in the
    correspondence run (`gmodule.*` ops): every tie theorem below applies to those runs without a hypothesis on
    EqualFold -/
theorem foldOK_driver : FoldOK Drv.GenModule.equalFoldI := foldOK_simple

-- U+212A (Kelvin sign, bytes E2 84 AA) folds to 'K' but no reserved name contains K: "NUL" vs "nul" / "nu" + U+212A
example : Drv.GenModule.equalFoldI (B "NUL") (B "nul") = true ∧ Module.equalFoldAscii (B "NUL") (B "nul") = true ∧
    Drv.GenModule.equalFoldI (B "NUL") [110, 117, 226, 132, 170] = false ∧
    Drv.GenModule.equalFoldI (B "K") [226, 132, 170] = true ∧ Module.equalFoldAscii (B "K") [226, 132, 170] = false := by
  decide +kernel

/-! ### the error-kind table -/

/-- the message literals determine the error kind: `kindOfMsg` inverts `msg` -/
theorem kindOfMsg_msg (e : Module.PathErr) : kindOfMsg (msg e) = some e := TieFnModule.kindOfMsg_msg e

theorem msg_injective {a b : Module.PathErr} (h : msg a = msg b) : a = b := TieFnModule.msg_injective h

/-- the driver of the regenerated code (`gmodule.*` ops) maps each message literal to the canonical error name of the
    model's error kind: the two output tables agree -/
theorem pathKind_msg (e : Module.PathErr) : Drv.GenModule.pathKind (msg e) = e.name := by
  cases e <;> rfl

example : msg .windows = "%q disallowed as path element component on Windows" ∧
    kindOfMsg "trailing tilde and digits in path element" = some .tildeDigits ∧ kindOfMsg "other" = none := by
  refine ⟨rfl, rfl, rfl⟩

/-! ### character classes (pure functions; all `Int` runes) -/

theorem firstPathOK_tie (r : Int) : Generated.Module.firstPathOK r = Module.firstPathOK r.toNat :=
  firstPathOK_int r

example : Generated.Module.firstPathOK 97 = true ∧ Module.firstPathOK 97 = true ∧
    Generated.Module.firstPathOK 65 = false ∧ Generated.Module.firstPathOK (-1) = false := by decide

theorem modPathOK_tie (r : Int) : Generated.Module.modPathOK r = Module.modPathOK r.toNat :=
  modPathOK_int r

example : Generated.Module.modPathOK 126 = true ∧ Module.modPathOK 126 = true ∧
    Generated.Module.modPathOK 43 = false ∧ Generated.Module.modPathOK 233 = false := by decide

theorem importPathOK_tie (r : Int) : Generated.Module.importPathOK r = Module.importPathOK r.toNat :=
  importPathOK_int r

example : Generated.Module.importPathOK 43 = true ∧ Module.importPathOK 43 = true ∧
    Generated.Module.importPathOK 32 = false := by decide

/-- for every `isLetter` (unicode.IsLetter is a parameter on both sides) -/
theorem fileNameOK_tie (isLetter : Int → Bool) (r : Int) :
    Generated.Module.fileNameOK isLetter r = Module.fileNameOK (natLetter isLetter) r.toNat :=
  fileNameOK_int isLetter r

example : Generated.Module.fileNameOK (fun r => decide (r = 233)) 32 = true ∧
    Generated.Module.fileNameOK (fun r => decide (r = 233)) 233 = true ∧
    Module.fileNameOK (natLetter (fun r => decide (r = 233))) 233 = true ∧
    Generated.Module.fileNameOK (fun r => decide (r = 233)) 42 = false := by decide +kernel

/-! ### checkElem, checkPath and the three exported checkers (C06 core) -/

theorem checkElem_tie (equalFold : Bytes → Bytes → Bool) (isLetter : Int → Bool) (kind : Module.Kind) (elem : Bytes)
    (fuel : Nat) (hfold : FoldOK equalFold) (hf : elem.length + 23 ≤ fuel) :
    Generated.Module.checkElem equalFold isLetter fuel elem (kindInt kind) =
      .ok (errOf (Module.checkElem (natLetter isLetter) kind elem)) :=
  checkElem_spec equalFold isLetter kind elem fuel hfold hf

-- "a.b" is fine; "con.txt" is a reserved Windows name; "x~1" looks like a short name (not for files)
example : Generated.Module.checkElem Module.equalFoldAscii (fun _ => false) 30 [97, 46, 98] 0 = .ok none ∧
    Module.checkElem (fun _ => false) .module [97, 46, 98] = .ok () ∧
    Generated.Module.checkElem Module.equalFoldAscii (fun _ => false) 30 [99, 111, 110, 46, 116, 120, 116] 1
      = .ok (some "%q disallowed as path element component on Windows") ∧
    Module.checkElem (fun _ => false) .import_ [99, 111, 110, 46, 116, 120, 116] = .error .windows ∧
    Generated.Module.checkElem Module.equalFoldAscii (fun _ => false) 30 [120, 126, 49] 1
      = .ok (some "trailing tilde and digits in path element") ∧
    Generated.Module.checkElem Module.equalFoldAscii (fun _ => false) 30 [120, 126, 49] 2 = .ok none := by
  decide +kernel

theorem checkPath_tie (equalFold : Bytes → Bytes → Bool) (isLetter : Int → Bool) (kind : Module.Kind) (path : Bytes)
    (fuel : Nat) (hfold : FoldOK equalFold) (hf : 2 * path.length + 24 ≤ fuel) :
    Generated.Module.checkPath equalFold isLetter fuel path (kindInt kind) =
      .ok (errOf (Module.checkPath (natLetter isLetter) kind path)) :=
  checkPath_spec equalFold isLetter kind path fuel hfold hf

-- "a/b" ok; "a//b" double slash; "a/.b" leading dot (module only)
example : Generated.Module.checkPath Module.equalFoldAscii (fun _ => false) 40 [97, 47, 98] 0 = .ok none ∧
    Module.checkPath (fun _ => false) .module [97, 47, 98] = .ok () ∧
    Generated.Module.checkPath Module.equalFoldAscii (fun _ => false) 40 [97, 47, 47, 98] 0 = .ok (some "double slash") ∧
    Module.checkPath (fun _ => false) .module [97, 47, 47, 98] = .error .doubleSlash ∧
    Generated.Module.checkPath Module.equalFoldAscii (fun _ => false) 40 [97, 47, 46, 98] 0
      = .ok (some "leading dot in path element") ∧
    Generated.Module.checkPath Module.equalFoldAscii (fun _ => false) 40 [97, 47, 46, 98] 1 = .ok none := by
  decide +kernel

/-- CheckPath (module paths): `nil`, or `&InvalidPathError{Kind: "module", Err: <the literal of the failing rule>}` -/
theorem CheckPath_tie (equalFold : Bytes → Bytes → Bool) (isLetter : Int → Bool) (path : Bytes) (fuel : Nat)
    (hfold : FoldOK equalFold) (hf : 2 * path.length + 24 ≤ fuel) :
    Generated.Module.CheckPath equalFold isLetter fuel path = .ok (wrappedErrOf (Module.checkModPath path)) :=
  CheckPath_spec equalFold isLetter path fuel hfold hf

-- "a.b/v2" ok; "a.b/v1" invalid version; "ab/c" missing dot
example : Generated.Module.CheckPath Module.equalFoldAscii (fun _ => false) 60 [97, 46, 98, 47, 118, 50] = .ok none ∧
    Module.checkModPath [97, 46, 98, 47, 118, 50] = .ok () ∧
    Generated.Module.CheckPath Module.equalFoldAscii (fun _ => false) 60 [97, 46, 98, 47, 118, 49]
      = .ok (some "InvalidPathError|invalid version") ∧
    Module.checkModPath [97, 46, 98, 47, 118, 49] = .error .invalidVersion ∧
    Generated.Module.CheckPath Module.equalFoldAscii (fun _ => false) 60 [97, 98, 47, 99]
      = .ok (some "InvalidPathError|missing dot in first path element") ∧
    Module.checkModPath [97, 98, 47, 99] = .error .missingDot := by
  decide +kernel

theorem CheckImportPath_tie (equalFold : Bytes → Bytes → Bool) (isLetter : Int → Bool) (path : Bytes) (fuel : Nat)
    (hfold : FoldOK equalFold) (hf : 2 * path.length + 24 ≤ fuel) :
    Generated.Module.CheckImportPath equalFold isLetter fuel path =
      .ok (wrappedErrOf (Module.checkImportPath path)) :=
  CheckImportPath_spec equalFold isLetter path fuel hfold hf

-- "a/b+" ok as an import path; "a b" has an invalid char
example : Generated.Module.CheckImportPath Module.equalFoldAscii (fun _ => false) 40 [97, 47, 98, 43] = .ok none ∧
    Module.checkImportPath [97, 47, 98, 43] = .ok () ∧
    Generated.Module.CheckImportPath Module.equalFoldAscii (fun _ => false) 40 [97, 32, 98]
      = .ok (some "InvalidPathError|invalid char %q") ∧
    Module.checkImportPath [97, 32, 98] = .error .invalidChar := by
  decide +kernel

theorem CheckFilePath_tie (equalFold : Bytes → Bytes → Bool) (isLetter : Int → Bool) (path : Bytes) (fuel : Nat)
    (hfold : FoldOK equalFold) (hf : 2 * path.length + 24 ≤ fuel) :
    Generated.Module.CheckFilePath equalFold isLetter fuel path =
      .ok (wrappedErrOf (Module.checkFilePath (natLetter isLetter) path)) :=
  CheckFilePath_spec equalFold isLetter path fuel hfold hf

-- "a b/é" with é a letter: ok; "a/" trailing slash
example : Generated.Module.CheckFilePath Module.equalFoldAscii (fun r => decide (r = 233)) 40 [97, 32, 98, 47, 195, 169]
      = .ok none ∧
    Module.checkFilePath (natLetter (fun r => decide (r = 233))) [97, 32, 98, 47, 195, 169] = .ok () ∧
    Generated.Module.CheckFilePath Module.equalFoldAscii (fun _ => false) 40 [97, 47]
      = .ok (some "InvalidPathError|trailing slash") ∧
    Module.checkFilePath (fun _ => false) [97, 47] = .error .trailingSlash := by
  decide +kernel

/-! ### SplitPathVersion, path/version matching, Check -/

theorem SplitPathVersion_tie (path : Bytes) (fuel : Nat) (hf : path.length + 1 ≤ fuel) :
    Generated.Module.SplitPathVersion fuel path = .ok (Module.splitPathVersion path) :=
  SplitPathVersion_spec path fuel hf

example : Generated.Module.SplitPathVersion 10 [97, 46, 98, 47, 118, 50] = .ok ([97, 46, 98], [47, 118, 50], true) ∧
    Module.splitPathVersion [97, 46, 98, 47, 118, 50] = ([97, 46, 98], [47, 118, 50], true) ∧
    Generated.Module.SplitPathVersion 10 [97, 46, 98, 47, 118, 49] = .ok ([97, 46, 98, 47, 118, 49], [], false) := by
  decide +kernel

theorem splitGopkgIn_tie (path : Bytes) (fuel : Nat) (hf : path.length + 1 ≤ fuel) :
    Generated.Module.splitGopkgIn fuel path = .ok (Module.splitGopkgIn path) :=
  splitGopkgIn_spec path fuel hf

example : Generated.Module.splitGopkgIn 40 (B "gopkg.in/yaml.v2-unstable") =
      .ok (B "gopkg.in/yaml", B ".v2-unstable", true) ∧
    Module.splitGopkgIn (B "gopkg.in/yaml.v2-unstable") = (B "gopkg.in/yaml", B ".v2-unstable", true) ∧
    Generated.Module.splitGopkgIn 40 (B "gopkg.in/yaml") = .ok (B "gopkg.in/yaml", [], false) := by
  decide +kernel

/-- CheckPathMajor: `nil` exactly when the model says true; the only error value is `majorErr`
    (`&InvalidVersionError{…, Err: "should be %s, not %s"}`) -/
theorem CheckPathMajor_tie (v pathMajor : Bytes) (fuel : Nat) (hf : 2 * v.length ≤ fuel) :
    Generated.Module.CheckPathMajor fuel v pathMajor =
      .ok (if Module.checkPathMajor v pathMajor = true then none else majorErr) :=
  CheckPathMajor_spec v pathMajor fuel hf

example : Generated.Module.CheckPathMajor 20 (B "v2.1.0") (B "/v2") = .ok none ∧
    Module.checkPathMajor (B "v2.1.0") (B "/v2") = true ∧
    Generated.Module.CheckPathMajor 20 (B "v1.0.0") (B "/v2") = .ok majorErr ∧
    Module.checkPathMajor (B "v1.0.0") (B "/v2") = false := by
  decide +kernel

theorem MatchPathMajor_tie (v pathMajor : Bytes) (fuel : Nat) (hf : 2 * v.length ≤ fuel) :
    Generated.Module.MatchPathMajor fuel v pathMajor = .ok (Module.matchPathMajor v pathMajor) :=
  MatchPathMajor_spec v pathMajor fuel hf

example : Generated.Module.MatchPathMajor 20 (B "v2.0.0+incompatible") [] = .ok true ∧
    Module.matchPathMajor (B "v2.0.0+incompatible") [] = true ∧
    Generated.Module.MatchPathMajor 20 (B "v2.0.0") [] = .ok false := by
  decide +kernel

/-- PathMajorPrefix: the two `panic(…)` sites of the Go function are exactly the inputs on which the model is `none` -/
theorem PathMajorPrefix_tie (pathMajor : Bytes) (fuel : Nat) (hf : 2 * pathMajor.length ≤ fuel) :
    Generated.Module.PathMajorPrefix fuel pathMajor =
      (match Module.pathMajorPrefix pathMajor with
       | some m => .ok m
       | none => .error .panic) :=
  PathMajorPrefix_spec pathMajor fuel hf

example : Generated.Module.PathMajorPrefix 40 (B ".v2-unstable") = .ok (B "v2") ∧
    Module.pathMajorPrefix (B ".v2-unstable") = some (B "v2") ∧
    Generated.Module.PathMajorPrefix 40 (B "v2") = .error .panic ∧ Module.pathMajorPrefix (B "v2") = none ∧
    Generated.Module.PathMajorPrefix 40 (B "/v2.1") = .error .panic := by
  decide +kernel

theorem Check_tie (equalFold : Bytes → Bytes → Bool) (isLetter : Int → Bool) (path version : Bytes) (fuel : Nat)
    (hfold : FoldOK equalFold) (hf : 2 * path.length + 2 * version.length + 24 ≤ fuel) :
    Generated.Module.Check equalFold isLetter fuel path version = .ok (checkErrOf (Module.check path version)) :=
  Check_spec equalFold isLetter path version fuel hfold hf

example : Generated.Module.Check Module.equalFoldAscii (fun _ => false) 80 (B "a.b/v2") (B "v2.1.0") = .ok none ∧
    Module.check (B "a.b/v2") (B "v2.1.0") = .ok () ∧
    Generated.Module.Check Module.equalFoldAscii (fun _ => false) 80 (B "a.b/v2") (B "v1.0.0")
      = .ok (some "ModuleError|InvalidVersionError|should be %s, not %s") ∧
    Module.check (B "a.b/v2") (B "v1.0.0") = .error .major ∧
    Generated.Module.Check Module.equalFoldAscii (fun _ => false) 80 (B "a.b") (B "1.0")
      = .ok (some "ModuleError|InvalidVersionError|not a semantic version") ∧
    Module.check (B "a.b") (B "1.0") = .error .notSemver := by
  decide +kernel

theorem CanonicalVersion_tie (v : Bytes) (fuel : Nat) (hf : 2 * v.length ≤ fuel) :
    Generated.Module.CanonicalVersion fuel v = .ok (Semver.canonicalVersion v) :=
  CanonicalVersion_spec v fuel hf

example : Generated.Module.CanonicalVersion 40 (B "v2.0.0+incompatible") = .ok (B "v2.0.0+incompatible") ∧
    Semver.canonicalVersion (B "v2.0.0+incompatible") = B "v2.0.0+incompatible" ∧
    Generated.Module.CanonicalVersion 40 (B "v2.0.0+meta") = .ok (B "v2.0.0") ∧
    Generated.Module.CanonicalVersion 40 (B "v2.0") = .ok (B "v2.0.0") := by
  decide +kernel

/-! ### escaping (C11) -/

theorem escapeString_tie (s : Bytes) (fuel : Nat) (hf : s.length + 1 ≤ fuel) :
    Generated.Module.escapeString fuel s =
      .ok (match Module.escapeString s with
           | some e => (e, none)
           | none => ([], some "internal error: inconsistency in EscapePath")) :=
  escapeString_spec s fuel hf

example : Generated.Module.escapeString 4 [97, 66, 99] = .ok ([97, 33, 98, 99], none) ∧
    Module.escapeString [97, 66, 99] = some [97, 33, 98, 99] ∧
    Generated.Module.escapeString 4 [33] = .ok ([], some "internal error: inconsistency in EscapePath") ∧
    Module.escapeString [33] = none := by
  decide +kernel

theorem unescapeString_tie (escaped : Bytes) (fuel : Nat) (hf : escaped.length + 1 ≤ fuel) :
    Generated.Module.unescapeString fuel escaped =
      .ok (match Module.unescapeString escaped with
           | some b => (b, true)
           | none => ([], false)) :=
  unescapeString_spec escaped fuel hf

example : Generated.Module.unescapeString 5 [97, 33, 98, 99] = .ok ([97, 66, 99], true) ∧
    Module.unescapeString [97, 33, 98, 99] = some [97, 66, 99] ∧
    Generated.Module.unescapeString 5 [97, 33] = .ok ([], false) ∧ Module.unescapeString [97, 33] = none := by
  decide +kernel

theorem EscapePath_tie (equalFold : Bytes → Bytes → Bool) (isLetter : Int → Bool) (path : Bytes) (fuel : Nat)
    (hfold : FoldOK equalFold) (hf : 2 * path.length + 24 ≤ fuel) :
    Generated.Module.EscapePath equalFold isLetter fuel path = .ok (escResOf (Module.escapePath path)) :=
  EscapePath_spec equalFold isLetter path fuel hfold hf

example : Generated.Module.EscapePath Module.equalFoldAscii (fun _ => false) 60 (B "a.b/Cd") = .ok (B "a.b/!cd", none) ∧
    Module.escapePath (B "a.b/Cd") = .ok (B "a.b/!cd") ∧
    Generated.Module.EscapePath Module.equalFoldAscii (fun _ => false) 60 (B "A.b")
      = .ok ([], some "InvalidPathError|invalid char %q in first path element") ∧
    Module.escapePath (B "A.b") = .error (.path .invalidCharFirst) := by
  decide +kernel

theorem EscapeVersion_tie (equalFold : Bytes → Bytes → Bool) (isLetter : Int → Bool) (v : Bytes) (fuel : Nat)
    (hfold : FoldOK equalFold) (hf : v.length + 23 ≤ fuel) :
    Generated.Module.EscapeVersion equalFold isLetter fuel v =
      .ok (escResOf (Module.escapeVersion (natLetter isLetter) v)) :=
  EscapeVersion_spec equalFold isLetter v fuel hfold hf

example : Generated.Module.EscapeVersion Module.equalFoldAscii (fun _ => false) 40 (B "v1.0.0-RC1")
      = .ok (B "v1.0.0-!r!c1", none) ∧
    Module.escapeVersion (fun _ => false) (B "v1.0.0-RC1") = .ok (B "v1.0.0-!r!c1") ∧
    Generated.Module.EscapeVersion Module.equalFoldAscii (fun _ => false) 40 (B "v1!")
      = .ok ([], some "InvalidVersionError|disallowed version string") ∧
    Module.escapeVersion (fun _ => false) (B "v1!") = .error .disallowed := by
  decide +kernel

theorem UnescapePath_tie (equalFold : Bytes → Bytes → Bool) (isLetter : Int → Bool) (escaped : Bytes) (fuel : Nat)
    (hfold : FoldOK equalFold) (hf : 2 * escaped.length + 24 ≤ fuel) :
    Generated.Module.UnescapePath equalFold isLetter fuel escaped =
      .ok (unescResOf "invalid escaped module path %q" "invalid escaped module path %q: %v"
        (fun e => "InvalidPathError|" ++ msg e) (Module.unescapePath escaped)) :=
  UnescapePath_spec equalFold isLetter escaped fuel hfold hf

example : Generated.Module.UnescapePath Module.equalFoldAscii (fun _ => false) 60 (B "a.b/!cd") = .ok (B "a.b/Cd", none) ∧
    Module.unescapePath (B "a.b/!cd") = .ok (B "a.b/Cd") ∧
    Generated.Module.UnescapePath Module.equalFoldAscii (fun _ => false) 60 (B "a.b/Cd")
      = .ok ([], some "invalid escaped module path %q") ∧
    Module.unescapePath (B "a.b/Cd") = .error .escaped ∧
    Generated.Module.UnescapePath Module.equalFoldAscii (fun _ => false) 60 (B "!a.b")
      = .ok ([], some "invalid escaped module path %q: %v|InvalidPathError|invalid char %q in first path element") ∧
    Module.unescapePath (B "!a.b") = .error (.invalid .invalidCharFirst) := by
  decide +kernel

theorem UnescapeVersion_tie (equalFold : Bytes → Bytes → Bool) (isLetter : Int → Bool) (escaped : Bytes) (fuel : Nat)
    (hfold : FoldOK equalFold) (hf : escaped.length + 23 ≤ fuel) :
    Generated.Module.UnescapeVersion equalFold isLetter fuel escaped =
      .ok (unescResOf "invalid escaped version %q" "invalid escaped version %q: %v" msg
        (Module.unescapeVersion (natLetter isLetter) escaped)) :=
  UnescapeVersion_spec equalFold isLetter escaped fuel hfold hf

example : Generated.Module.UnescapeVersion Module.equalFoldAscii (fun _ => false) 40 (B "v1.0.0-!r!c1")
      = .ok (B "v1.0.0-RC1", none) ∧
    Module.unescapeVersion (fun _ => false) (B "v1.0.0-!r!c1") = .ok (B "v1.0.0-RC1") ∧
    Generated.Module.UnescapeVersion Module.equalFoldAscii (fun _ => false) 40 (B "a/b")
      = .ok ([], some "invalid escaped version %q: %v|invalid char %q") ∧
    Module.unescapeVersion (fun _ => false) (B "a/b") = .error (.invalid .invalidChar) := by
  decide +kernel

/-! ### MatchPrefixPatterns -/

theorem MatchPrefixPatterns_tie (pathMatch : Bytes → Bytes → Bool × Option String) (globs target : Bytes) (fuel : Nat)
    (hf : globs.length + target.length + 1 ≤ fuel) :
    Generated.Module.MatchPrefixPatterns pathMatch fuel globs target =
      .ok (Module.matchPrefixPatterns (fun p n => (pathMatch p n).1) globs target) :=
  MatchPrefixPatterns_spec pathMatch globs target fuel hf

example : Generated.Module.MatchPrefixPatterns (fun p n => (p == n, none)) 12 (B "x,a/b/") (B "a/b/c") = .ok true ∧
    Module.matchPrefixPatterns (fun p n => p == n) (B "x,a/b/") (B "a/b/c") = true ∧
    Generated.Module.MatchPrefixPatterns (fun p n => (p == n, none)) 12 (B "a/b/c") (B "a/b") = .ok false := by
  decide +kernel

/-! ### the C06 / C11 property theorems, transferred to the regenerated code

  Each statement below is about `Generated.Module.*` only (plus the independent specification Spec/PathSpec.lean);
  the hand model has been eliminated through the tie theorems above. -/

theorem wrappedErrOf_none_iff (r : Except Module.PathErr Unit) : wrappedErrOf r = none ↔ r = .ok () := by
  cases r with
  | error x => simp [wrappedErrOf]
  | ok u => cases u; simp [wrappedErrOf]

theorem escResOf_ok_iff (r : Except Module.EscErr Bytes) (e : Bytes) : escResOf r = (e, none) ↔ r = .ok e := by
  cases r with
  | ok a => simp [escResOf]
  | error x => cases x <;> simp [escResOf, wrapErr]

theorem unescResOf_ok_iff (a b : String) (inner : Module.PathErr → String) (r : Except Module.UnescErr Bytes) (p : Bytes) :
    unescResOf a b inner r = (p, none) ↔ r = .ok p := by
  cases r with
  | ok x => simp [unescResOf]
  | error x => cases x <;> simp [unescResOf, wrapErr]

/-- C06: the regenerated CheckPath returns nil exactly on the paths that satisfy the documented rules
    (`Props.C06.checkModPath_iff`). -/
theorem CheckPath_nil_iff (equalFold : Bytes → Bytes → Bool) (isLetter : Int → Bool) (path : Bytes) (fuel : Nat)
    (hfold : FoldOK equalFold) (hf : 2 * path.length + 24 ≤ fuel) :
    Generated.Module.CheckPath equalFold isLetter fuel path = .ok none ↔
      PathSpec.ValidPath (fun _ => false) .module path ∧ PathSpec.FirstElemOK path ∧ PathSpec.MajorRuleOK path := by
  rw [CheckPath_tie equalFold isLetter path fuel hfold hf, ← Props.C06.checkModPath_iff]
  constructor
  · intro h; injection h with h; exact (wrappedErrOf_none_iff _).mp h
  · intro h; rw [(wrappedErrOf_none_iff _).mpr h]

/-- C06: the regenerated CheckImportPath returns nil exactly on the valid import paths. -/
theorem CheckImportPath_nil_iff (equalFold : Bytes → Bytes → Bool) (isLetter : Int → Bool) (path : Bytes) (fuel : Nat)
    (hfold : FoldOK equalFold) (hf : 2 * path.length + 24 ≤ fuel) :
    Generated.Module.CheckImportPath equalFold isLetter fuel path = .ok none ↔
      PathSpec.ValidPath (fun _ => false) .import_ path := by
  rw [CheckImportPath_tie equalFold isLetter path fuel hfold hf, ← Props.C06.checkImportPath_iff]
  constructor
  · intro h; injection h with h; exact (wrappedErrOf_none_iff _).mp h
  · intro h; rw [(wrappedErrOf_none_iff _).mpr h]

/-- C06: the regenerated CheckFilePath returns nil exactly on the valid file paths, for every `unicode.IsLetter`. -/
theorem CheckFilePath_nil_iff (equalFold : Bytes → Bytes → Bool) (isLetter : Int → Bool) (path : Bytes) (fuel : Nat)
    (hfold : FoldOK equalFold) (hf : 2 * path.length + 24 ≤ fuel) :
    Generated.Module.CheckFilePath equalFold isLetter fuel path = .ok none ↔
      PathSpec.ValidPath (natLetter isLetter) .file path := by
  rw [CheckFilePath_tie equalFold isLetter path fuel hfold hf, ← Props.C06.checkFilePath_iff]
  constructor
  · intro h; injection h with h; exact (wrappedErrOf_none_iff _).mp h
  · intro h; rw [(wrappedErrOf_none_iff _).mpr h]

/-- C06: the regenerated SplitPathVersion reports ok exactly under the documented major-version rule, and then
    prefix ++ pathMajor = path with a suffix of the documented shape. -/
theorem SplitPathVersion_ok_iff (path : Bytes) (fuel : Nat) (hf : path.length + 1 ≤ fuel) :
    (∃ pre maj, Generated.Module.SplitPathVersion fuel path = .ok (pre, maj, true)) ↔ PathSpec.MajorRuleOK path := by
  rw [SplitPathVersion_tie path fuel hf, ← Props.C06.split_ok_iff]
  constructor
  · rintro ⟨pre, maj, h⟩; injection h with h; rw [h]
  · intro h
    refine ⟨(Module.splitPathVersion path).1, (Module.splitPathVersion path).2.1, ?_⟩
    rw [← h]

theorem SplitPathVersion_shape (path pre maj : Bytes) (fuel : Nat) (hf : path.length + 1 ≤ fuel)
    (h : Generated.Module.SplitPathVersion fuel path = .ok (pre, maj, true)) :
    pre ++ maj = path ∧ PathSpec.MajorSuffix path maj := by
  rw [SplitPathVersion_tie path fuel hf] at h
  injection h with h
  exact Props.C06.split_spec path pre maj h

/-- C06: the regenerated MatchPrefixPatterns is the documented prefix-glob definition, for every `path.Match`. -/
theorem MatchPrefixPatterns_true_iff (pathMatch : Bytes → Bytes → Bool × Option String) (globs target : Bytes)
    (fuel : Nat) (hf : globs.length + target.length + 1 ≤ fuel) :
    Generated.Module.MatchPrefixPatterns pathMatch fuel globs target = .ok true ↔
      PathSpec.MatchSpec (fun p n => (pathMatch p n).1) globs target := by
  rw [MatchPrefixPatterns_tie pathMatch globs target fuel hf, ← Props.C06.matchPrefixPatterns_iff_spec]
  constructor
  · intro h; injection h
  · intro h; rw [h]

/-- C06: the regenerated Check returns nil exactly when the path is a valid module path, the version is a valid
    semantic version and the two correspond. -/
theorem Check_nil_iff (equalFold : Bytes → Bytes → Bool) (isLetter : Int → Bool) (path version : Bytes) (fuel : Nat)
    (hfold : FoldOK equalFold) (hf : 2 * path.length + 2 * version.length + 24 ≤ fuel) :
    Generated.Module.Check equalFold isLetter fuel path version = .ok none ↔
      Module.checkModPath path = .ok () ∧ Semver.isValid version = true ∧
        PathSpec.MajorMatches (Module.splitPathVersion path).2.1 version := by
  rw [Check_tie equalFold isLetter path version fuel hfold hf, ← Props.C06.check_iff]
  cases Module.check path version with
  | ok u => cases u; simp [checkErrOf]
  | error x => cases x <;> simp [checkErrOf, wrapErr, majorErr]

/-- C11: on the regenerated code, unescaping an escaped path gives the path back. -/
theorem UnescapePath_EscapePath (equalFold : Bytes → Bytes → Bool) (isLetter : Int → Bool) (path e : Bytes)
    (fuel fuel' : Nat) (hfold : FoldOK equalFold) (hf : 2 * path.length + 24 ≤ fuel) (hf' : 2 * e.length + 24 ≤ fuel')
    (h : Generated.Module.EscapePath equalFold isLetter fuel path = .ok (e, none)) :
    Generated.Module.UnescapePath equalFold isLetter fuel' e = .ok (path, none) := by
  rw [EscapePath_tie equalFold isLetter path fuel hfold hf] at h
  injection h with h
  have hm := Props.C11.unescapePath_escapePath path e ((escResOf_ok_iff _ _).mp h)
  rw [UnescapePath_tie equalFold isLetter e fuel' hfold hf', hm]
  rfl

/-- C11: an escaped path (regenerated EscapePath) is ASCII without upper-case letters. -/
theorem EscapePath_no_upper (equalFold : Bytes → Bytes → Bool) (isLetter : Int → Bool) (path e : Bytes) (fuel : Nat)
    (hfold : FoldOK equalFold) (hf : 2 * path.length + 24 ≤ fuel)
    (h : Generated.Module.EscapePath equalFold isLetter fuel path = .ok (e, none)) :
    ∀ c ∈ e, c.toNat < 128 ∧ ¬ (65 ≤ c.toNat ∧ c.toNat ≤ 90) := by
  rw [EscapePath_tie equalFold isLetter path fuel hfold hf] at h
  injection h with h
  exact Props.C11.escapePath_no_upper path e ((escResOf_ok_iff _ _).mp h)

/-- C11: two different paths never escape (regenerated EscapePath) to strings that are equal ignoring case. -/
theorem EscapePath_fold_inj (equalFold : Bytes → Bytes → Bool) (isLetter : Int → Bool) (p q e f : Bytes) (fuel fuel' : Nat)
    (hfold : FoldOK equalFold) (hf : 2 * p.length + 24 ≤ fuel) (hf' : 2 * q.length + 24 ≤ fuel')
    (hp : Generated.Module.EscapePath equalFold isLetter fuel p = .ok (e, none))
    (hq : Generated.Module.EscapePath equalFold isLetter fuel' q = .ok (f, none))
    (h : Module.lower e = Module.lower f) : p = q := by
  rw [EscapePath_tie equalFold isLetter p fuel hfold hf] at hp
  rw [EscapePath_tie equalFold isLetter q fuel' hfold hf'] at hq
  injection hp with hp
  injection hq with hq
  exact Props.C11.escapePath_fold_inj p q e f ((escResOf_ok_iff _ _).mp hp) ((escResOf_ok_iff _ _).mp hq) h

/-- C11: the regenerated EscapePath succeeds exactly on the paths the regenerated CheckPath accepts (its
    "internal error" return is unreachable). -/
theorem EscapePath_ok_iff_CheckPath (equalFold : Bytes → Bytes → Bool) (isLetter : Int → Bool) (path : Bytes) (fuel : Nat)
    (hfold : FoldOK equalFold) (hf : 2 * path.length + 24 ≤ fuel) :
    (∃ e, Generated.Module.EscapePath equalFold isLetter fuel path = .ok (e, none)) ↔
      Generated.Module.CheckPath equalFold isLetter fuel path = .ok none := by
  rw [EscapePath_tie equalFold isLetter path fuel hfold hf, CheckPath_tie equalFold isLetter path fuel hfold hf]
  constructor
  · rintro ⟨e, h⟩
    injection h with h
    have := (Props.C11.escapePath_ok_iff_valid path).mp ⟨e, (escResOf_ok_iff _ _).mp h⟩
    rw [(wrappedErrOf_none_iff _).mpr this]
  · intro h
    injection h with h
    obtain ⟨e, he⟩ := (Props.C11.escapePath_ok_iff_valid path).mpr ((wrappedErrOf_none_iff _).mp h)
    exact ⟨e, by rw [he]; rfl⟩

/-- C11: what the regenerated UnescapePath returns escapes back to its input. -/
theorem UnescapePath_image (equalFold : Bytes → Bytes → Bool) (isLetter : Int → Bool) (e path : Bytes) (fuel fuel' : Nat)
    (hfold : FoldOK equalFold) (hf : 2 * e.length + 24 ≤ fuel) (hf' : 2 * path.length + 24 ≤ fuel')
    (h : Generated.Module.UnescapePath equalFold isLetter fuel e = .ok (path, none)) :
    Generated.Module.EscapePath equalFold isLetter fuel' path = .ok (e, none) := by
  rw [UnescapePath_tie equalFold isLetter e fuel hfold hf] at h
  injection h with h
  have hm := Props.C11.unescapePath_image e path ((unescResOf_ok_iff _ _ _ _ _).mp h)
  rw [EscapePath_tie equalFold isLetter path fuel' hfold hf', hm]
  rfl

/-- C11 (versions): round trip on the regenerated code. -/
theorem UnescapeVersion_EscapeVersion (equalFold : Bytes → Bytes → Bool) (isLetter : Int → Bool) (v e : Bytes)
    (fuel fuel' : Nat) (hfold : FoldOK equalFold) (hf : v.length + 23 ≤ fuel) (hf' : e.length + 23 ≤ fuel')
    (h : Generated.Module.EscapeVersion equalFold isLetter fuel v = .ok (e, none)) :
    Generated.Module.UnescapeVersion equalFold isLetter fuel' e = .ok (v, none) := by
  rw [EscapeVersion_tie equalFold isLetter v fuel hfold hf] at h
  injection h with h
  have hm := Props.C11.unescapeVersion_escapeVersion (natLetter isLetter) v e ((escResOf_ok_iff _ _).mp h)
  rw [UnescapeVersion_tie equalFold isLetter e fuel' hfold hf', hm]
  rfl

-- non-vacuity of the transferred statements: a concrete accepted path and its escape
example : Generated.Module.CheckPath Module.equalFoldAscii (fun _ => false) 60 (B "a.b/Cd") = .ok none ∧
    Generated.Module.EscapePath Module.equalFoldAscii (fun _ => false) 60 (B "a.b/Cd") = .ok (B "a.b/!cd", none) ∧
    Generated.Module.UnescapePath Module.equalFoldAscii (fun _ => false) 60 (B "a.b/!cd") = .ok (B "a.b/Cd", none) := by
  decide +kernel

end ModVerif.Tie.FnModule
