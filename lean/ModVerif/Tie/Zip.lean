/-
  Tie: constants and literals of zip/zip.go, regenerated from source by harness/cmd/extract on every
  check, equal the ones the zip model uses.
-/
import ModVerif.Model.Zip
import ModVerif.Generated.Facts
namespace ModVerif.Tie
open ModVerif

theorem zip_MaxZipFile_tie : Generated.zip_MaxZipFile = Zip.MaxZipFile := by decide
theorem zip_MaxGoMod_tie : Generated.zip_MaxGoMod = Zip.MaxGoMod := by decide
theorem zip_MaxLICENSE_tie : Generated.zip_MaxLICENSE = Zip.MaxLICENSE := by decide

/-- the directory names `listFilesInDir` skips -/
theorem zip_vcsDirs_tie : Generated.zip_vcsDirs = Zip.vcsDirs := by decide

/-- the path omitted by the hg-archive rule -/
theorem zip_hgArchival_tie : Generated.zip_hgArchival = Zip.hgArchivalName := by decide

/-- the string literals of `isVendoredPackage` in source order: "go1.24", "vendor/modules.txt",
    "vendor/" (twice: HasPrefix and its len), "/vendor/", "go1.24", "/vendor/" (twice), "/". -/
theorem zip_isVendoredPackage_lits_tie :
    Generated.zip_isVendoredPackage_lits =
      [[103, 111, 49, 46, 50, 52], Zip.vendorModulesTxt, Zip.vendorSlash, Zip.vendorSlash,
       Zip.slashVendorSlash, [103, 111, 49, 46, 50, 52], Zip.slashVendorSlash, Zip.slashVendorSlash, [47]] := by decide

/-- the offsets the model uses are the lengths of those literals -/
theorem zip_vendor_offsets_tie : Zip.vendorSlash.length = 7 ∧ Zip.slashVendorSlash.length = 8 := by decide

end ModVerif.Tie
