/-
  Tie theorems, sumdb/tlog/tile.go: the definitions regenerated from the Go source by go2lean
  (`Generated/FnTile.lean`, CHECKED mode: every int64 result goes through `chk64`) compute exactly what the hand model
  (`Model/Tile.lean`) says — in particular no panic, no fuel exhaustion and no int64 overflow on the stated range.

  Representation (Proofs/TieFnTile.lean): the generated `Tile` has `Int` fields `H L N W` with `L = -1` for data tiles,
  the model `Tile` has `Nat` fields and a `data` flag; `toGen : Tile.Tile → Generated.Tile.Tile` and
  `ofGen` the other way (`toGen (ofGen t) = t` for non-negative fields and `L ≥ -1`, `ofGen (toGen t) = t` for
  `data → l = 0`).  Helper lemmas: `Proofs/TieFnTile*.lean`, `Proofs/GoRtLemmasTile.lean`.
-/
import ModVerif.Generated.FnTile
import ModVerif.Model.Tile
import ModVerif.Proofs.TieFnTile
import ModVerif.Proofs.TieFnTilePath
import ModVerif.Proofs.TieFnTileParse
import ModVerif.Proofs.TieFnTileNew
import ModVerif.Proofs.TieFnTileHash
import ModVerif.Proofs.TieFnTileRead
import ModVerif.Proofs.TlogTH
import ModVerif.Proofs.TieFnTileServe
import ModVerif.Proofs.TieFnTileSecure
namespace ModVerif.Tie.FnTile
open ModVerif ModVerif.GoRt ModVerif.TieFnTile ModVerif.TieFnTlogInt

/-- `tileParent(t, k, n)` for a tile with non-negative fields (not a data tile), `k ≥ 0`, `0 ≤ n ≤ MaxInt64`.  The range
    hypotheses `h1 … h4` say exactly that the int64 intermediates `t.L + k`, `k * t.H`, `(t.L + k) * t.H` and
    `(t.N >> (k*t.H)) << t.H + 1 << t.H` do not overflow (in particular `t.H ≤ 62`).  `Tile{}` is `toGen Tile.zero`. -/
theorem tileParent_tie (t : Generated.Tile.Tile) (k n : Int)
    (hH : 0 ≤ t.H) (hL : 0 ≤ t.L) (hN : 0 ≤ t.N) (hW : 0 ≤ t.W) (hk : 0 ≤ k) (hn0 : 0 ≤ n) (hn : n < 2 ^ 63)
    (h1 : t.L + k < 2 ^ 63) (h2 : k * t.H < 2 ^ 63) (h3 : (t.L + k) * t.H < 2 ^ 63)
    (h4 : (t.N.toNat >>> (k.toNat * t.H.toNat) + 1) * 2 ^ t.H.toNat < 2 ^ 63) :
    Generated.Tile.tileParent t k n = .ok (toGen (Tile.tileParent (ofGen t) k.toNat n.toNat)) := by
  have hne : ¬ t.L = -1 := by omega
  have hd : (ofGen t).data = false := by simp [ofGen, hne]
  have e : toGen (ofGen t) = t := toGen_ofGen t hH (by omega) hN hW
  have hfld : (ofGen t).h = t.H.toNat ∧ (ofGen t).l = t.L.toNat ∧ (ofGen t).n = t.N.toNat := by simp [ofGen, hne]
  obtain ⟨f1, f2, f3⟩ := hfld
  have h2' : k.toNat * t.H.toNat < 2 ^ 63 := by
    have : ((k.toNat * t.H.toNat : Nat) : Int) = k * t.H := by
      rw [Int.natCast_mul, Int.toNat_of_nonneg hk, Int.toNat_of_nonneg hH]
    omega
  have h3' : (t.L.toNat + k.toNat) * t.H.toNat < 2 ^ 63 := by
    have : (((t.L.toNat + k.toNat) * t.H.toNat : Nat) : Int) = (t.L + k) * t.H := by
      rw [Int.natCast_mul, Int.natCast_add, Int.toNat_of_nonneg hk, Int.toNat_of_nonneg hH, Int.toNat_of_nonneg hL]
    omega
  have := tileParent_eq (ofGen t) k.toNat n.toNat hd (by rw [f2]; omega) (by rw [f1]; exact h2')
    (by rw [f1, f2]; exact h3') (by rw [f1, f3]; exact h4) (by omega)
  rwa [e, Int.toNat_of_nonneg hk, Int.toNat_of_nonneg hn0] at this

example : Generated.Tile.tileParent ⟨2, 0, 1, 3⟩ 1 7 = .ok ⟨2, 1, 0, 1⟩ ∧
    toGen (Tile.tileParent (ofGen ⟨2, 0, 1, 3⟩) (1 : Int).toNat (7 : Int).toNat) = ⟨2, 1, 0, 1⟩ := ⟨rfl, rfl⟩

/-- `tileForIndex(h, index)` for `h ≥ 0`, `0 ≤ index ≤ MaxInt64 - 1`, and (`h ≤ 57` or `index < 2^57`: the returned byte
    offsets are at most `2^h * HashSize` and at most `(index + 1) * HashSize`, beyond both bounds the Go code wraps around
    silently and the checked translation reports the overflow).  `tfiOut` maps the model's hash offsets to byte offsets
    (`× 32`) and the model's only error here (`h = 0`: integer division by zero in the code) to the panic. -/
theorem tileForIndex_tie (fuel : Nat) (h index : Int) (hh : 0 ≤ h) (hh2 : h < 2 ^ 63) (h0 : 0 ≤ index)
    (hr : index < 2 ^ 63 - 1) (hr2 : h ≤ 57 ∨ index < 2 ^ 57) (hf : 64 ≤ fuel) :
    Generated.Tile.tileForIndex fuel h index = tfiOut (Tile.tileForIndex h.toNat index.toNat) := by
  have := tileForIndex_eq fuel h.toNat index.toNat (by omega) (by omega) (by omega) hf
  rwa [Int.toNat_of_nonneg hh, Int.toNat_of_nonneg h0] at this

example : Generated.Tile.tileForIndex 64 2 44 = .ok (⟨2, 1, 1, 2⟩, 32, 64) ∧
    tfiOut (Tile.tileForIndex (2 : Int).toNat (44 : Int).toNat) = .ok (⟨2, 1, 1, 2⟩, 32, 64) := ⟨rfl, rfl⟩

example : Generated.Tile.tileForIndex 64 0 44 = .error .panic ∧
    tfiOut (Tile.tileForIndex (0 : Int).toNat (44 : Int).toNat) = .error .panic := ⟨rfl, rfl⟩

/-- the disjunction `h ≤ 57 ∨ index < 2^57` cannot be dropped: for `h = 60` and the level-0 position of record `2^60 - 1` the
    byte offsets are `2^60 * HashSize` — the checked translation reports the int64 overflow (the Go code wraps silently; its
    callers in `ReadHashes` discard these two results), the unbounded model answers `(H=60, L=0, N=0, W=2^60)` -/
example : (match Generated.Tile.tileForIndex 64 60 2305843009213693890 with | .error .overflow => true | _ => false) = true ∧
    ((Tile.tileForIndex 60 2305843009213693890).toOption.map (·.1)) = some ⟨60, 0, 0, 2 ^ 60, false⟩ := by
  constructor <;> decide +kernel

/-- the model's `TileForIndex` result as a result of the generated function -/
def tfiPubOut : Except Tlog.Err Tile.Tile → M Generated.Tile.Tile
  | .ok t => .ok (toGen t)
  | .error _ => .error .panic

/-- `TileForIndex(h, index)`: EVERY `h < 2^63` (`h ≤ 0` panics on both sides), `index` as for `tileForIndex`. -/
theorem TileForIndex_tie (fuel : Nat) (h index : Int) (hh2 : h < 2 ^ 63) (h0 : 0 ≤ index)
    (hr : index < 2 ^ 63 - 1) (hr2 : h ≤ 57 ∨ index < 2 ^ 57) (hf : 64 ≤ fuel) :
    Generated.Tile.TileForIndex fuel h index = tfiPubOut (Tile.tileForIndexPub h.toNat index.toNat) := by
  by_cases hle : h ≤ 0
  · have e : h.toNat = 0 := by omega
    simp only [Generated.Tile.TileForIndex, hle, decide_true, ↓reduceIte, e, Tile.tileForIndexPub, Tile.tileForIndex]
    rfl
  · have := tileForIndex_tie fuel h index (by omega) hh2 h0 hr hr2 hf
    simp only [Generated.Tile.TileForIndex, hle, decide_false, Bool.false_eq_true, ↓reduceIte, this, Tile.tileForIndexPub]
    cases Tile.tileForIndex h.toNat index.toNat with
    | error e => rfl
    | ok r => obtain ⟨t, s, e⟩ := r; rfl

example : Generated.Tile.TileForIndex 64 2 44 = .ok ⟨2, 1, 1, 2⟩ ∧
    tfiPubOut (Tile.tileForIndexPub (2 : Int).toNat (44 : Int).toNat) = .ok ⟨2, 1, 1, 2⟩ := ⟨rfl, rfl⟩

/-- `Tile.Path()` of (the image of) any model tile — data tiles included (`L = -1` prints as "data") — with `H ≤ 62`
    (`1 << H` is an int64; for larger `H` the Go shift gives 0 or MinInt64 and the model's `2^h` no longer describes it)
    and `N` an int64.  Constant fuel: `N < 2^63` has at most seven 3-digit groups. -/
theorem Tile_Path_tie (fuel : Nat) (t : Tile.Tile) (hh : t.h ≤ 62) (hn : t.n < 2 ^ 63) (hf : 8 ≤ fuel) :
    Generated.Tile.Tile_Path fuel (toGen t) = .ok (Tile.tilePath t) :=
  Tile_Path_eq fuel t hh hn hf

example : (Generated.Tile.Tile_Path 8 (toGen ⟨3, 4, 1234067, 1, false⟩)).toOption = some (B "tile/3/4/x001/x234/067.p/1") ∧
    Tile.tilePath ⟨3, 4, 1234067, 1, false⟩ = B "tile/3/4/x001/x234/067.p/1" := by
  constructor <;> decide +kernel

/-- `ParseTilePath(path)`: `ptpOut` maps the model's `some t` to `(toGen t, nil)` and `none` to `(Tile{}, badPathError)`.
    Range hypotheses: `len(path)` is an int (`len(f) - 2` is computed), and `hfit`: the running value of the
    `n = n*pathBase + nn` loop over the `NNN` elements (`nSegs path`, exactly the list the model's `parseN` is applied to)
    stays below `2^63` at every step (`Fits`).  Without it the Go code wraps around silently — and then rejects the path
    because `t.Path()` differs — whereas the checked translation reports the overflow; the model rejects `n ≥ 2^63`
    directly.  `fits_of_short`: every path with at most 9 `/`-separated elements satisfies `hfit`. -/
theorem ParseTilePath_tie (fuel : Nat) (path : Bytes) (hfit : Fits (nSegs path) 0)
    (hplen : path.length + 1 < 2 ^ 63) (hf : path.length + 9 ≤ fuel) :
    Generated.Tile.ParseTilePath fuel path = .ok (ptpOut (Tile.parseTilePath path)) :=
  ParseTilePath_eq fuel path hfit hplen hf

/-- the same for paths of at most 9 elements (`tile/H/L/` + up to six `NNN` elements: every `N < 10^18`, or `N < 10^15`
    with a `.p/W` suffix), without reference to `Fits` -/
theorem ParseTilePath_tie_short (fuel : Nat) (path : Bytes) (hshort : (splitOn 47 path).length ≤ 9)
    (hplen : path.length + 1 < 2 ^ 63) (hf : path.length + 9 ≤ fuel) :
    Generated.Tile.ParseTilePath fuel path = .ok (ptpOut (Tile.parseTilePath path)) :=
  ParseTilePath_eq fuel path (fits_of_short path hshort) hplen hf

example : (Generated.Tile.ParseTilePath 40 (B "tile/3/4/x001/x234/067.p/1")).toOption = some (⟨3, 4, 1234067, 1⟩, none) ∧
    ptpOut (Tile.parseTilePath (B "tile/3/4/x001/x234/067.p/1")) = (⟨3, 4, 1234067, 1⟩, none) := by
  constructor <;> decide +kernel

example : (Generated.Tile.ParseTilePath 40 (B "tile/3/data/x001/067")).toOption = some (⟨3, -1, 1067, 8⟩, none) ∧
    ptpOut (Tile.parseTilePath (B "tile/3/data/x001/067")) = (⟨3, -1, 1067, 8⟩, none) := by
  constructor <;> decide +kernel

example : (Generated.Tile.ParseTilePath 40 (B "tile/3/4/1067")).toOption = some (default, some "badPathError") ∧
    ptpOut (Tile.parseTilePath (B "tile/3/4/1067")) = (default, some "badPathError") := by
  constructor <;> decide +kernel

/-- `NewTiles(h, oldTreeSize, newTreeSize)` for EVERY `h < 2^63` (`h ≤ 0` panics on both sides) and tree sizes in
    `[0, 2^63)`; `ntOut` maps the model's tiles through `toGen` (the model's fuel error is unreachable:
    `TileAuth.newTilesF_spec`).  The fuel covers the number of level-0 tiles (at most `newTreeSize`) plus the levels. -/
theorem NewTiles_tie (fuel : Nat) (h old new : Int) (hh : h < 2 ^ 63) (ho0 : 0 ≤ old) (ho : old < 2 ^ 63)
    (hn0 : 0 ≤ new) (hn : new < 2 ^ 63) (hf : new.toNat + 67 ≤ fuel) :
    Generated.Tile.NewTiles fuel h old new = ntOut (Tile.newTiles h.toNat old.toNat new.toNat) := by
  by_cases hle : h ≤ 0
  · have e : h.toNat = 0 := by omega
    simp only [Generated.Tile.NewTiles, hle, decide_true, ↓reduceIte, e, Tile.newTiles]
    rfl
  · have := NewTiles_eq fuel h.toNat old.toNat new.toNat (by omega) (by omega) (by omega) (by omega) hf
    rwa [Int.toNat_of_nonneg (by omega : 0 ≤ h), Int.toNat_of_nonneg ho0, Int.toNat_of_nonneg hn0] at this

example : Generated.Tile.NewTiles 80 2 3 7 = .ok [⟨2, 0, 0, 4⟩, ⟨2, 0, 1, 3⟩, ⟨2, 1, 0, 1⟩] ∧
    ntOut (Tile.newTiles (2 : Int).toNat (3 : Int).toNat (7 : Int).toNat) = .ok [⟨2, 0, 0, 4⟩, ⟨2, 0, 1, 3⟩, ⟨2, 1, 0, 1⟩] :=
  ⟨rfl, rfl⟩

section
variable {H : Type} [DecidableEq H] [Inhabited H] (node : H → H → H) (ofBytes : Bytes → H) (toBytes : H → Bytes)

/-! ### tile data: flat bytes (generated) vs lists of hashes (model)

The hash type `H` is ABSTRACT, `ofBytes : Bytes → H` arbitrary (no hypothesis): `unflat ofBytes data` is the list of the
complete 32-byte groups of `data`, each through `ofBytes`.  Only `ReadTileData` (which produces bytes) needs
`toBytes : H → Bytes` with the explicit hypothesis that every hash has 32 bytes. -/

/-- `tileHash(data)` for `len(data) = HashSize * 2^j` (the only lengths it is applied to: `HashFromTile`, the tile
    authentication): `errOut` turns a model error into a panic (there is none: `TileAuth.tileHash_ptree`).  On every other
    non-empty length the byte-level code splits inside a hash and eventually panics in `tileHash("")`, the list model is not
    meaningful there (Model/Tile.lean). -/
theorem tileHash_tie (j fuel : Nat) (data : Bytes) (hl : data.length = 32 * 2 ^ j) (hf : j < fuel) :
    Generated.Tile.tileHash node ofBytes fuel data = errOut (Tile.tileHash node (unflat ofBytes data)) :=
  tileHash_eq node ofBytes j fuel data hl hf

/-- … and on the empty string both sides panic ("bad math in tileHash") -/
theorem tileHash_tie_nil (fuel : Nat) (hf : 0 < fuel) :
    Generated.Tile.tileHash node ofBytes fuel [] = errOut (Tile.tileHash node (unflat ofBytes [])) :=
  tileHash_nil node ofBytes fuel hf

/-- `HashFromTile(t, data, index)` for EVERY model tile (data tiles and out-of-range `H`, `L`, `W` are rejected on both
    sides), every byte string `data` (any length), `0 ≤ index ≤ MaxInt64 - 1`.  `hftOut` gives `(hash, nil)` for the model's
    `.ok hash` and `(Hash{}, error)` otherwise, the text chosen by `hftMsg` among the three `fmt.Errorf` formats (the model
    has the single kind `badTile` for them). -/
theorem HashFromTile_tie (fuel : Nat) (t : Tile.Tile) (data : Bytes) (index : Int) (h0 : 0 ≤ index)
    (hr : index < 2 ^ 63 - 1) (hf : 64 ≤ fuel) :
    Generated.Tile.HashFromTile node ofBytes fuel (toGen t) data index =
      .ok (hftOut t (data.length / 32) (Tile.hashFromTile node t (unflat ofBytes data) index.toNat)) := by
  have := HashFromTile_eq node ofBytes fuel t data index.toNat (by omega) hf
  rwa [Int.toNat_of_nonneg h0] at this

/-- `ReadTileData(t, r)` for an ordinary (non-data) tile with `H ≤ 62`; `size = W`, or `2^H` if `W = 0`; range: `size *
    HashSize` and the largest stored-hash index of the tile are int64 values.  The reader `r` of the generated code is seen
    by the model as `readerOf r`; `rtdOut` flattens the model's hashes through `toBytes` (32 bytes each: `hb`) and returns
    the reader's error / the "wrong number of hashes" text (`readErrOf`) where the model says `Err.reader`. -/
theorem ReadTileData_tie (hb : ∀ x : H, (toBytes x).length = 32) (fuel : Nat) (t : Tile.Tile)
    (r : List Int → List H × Option String) (hd : t.data = false) (hh : t.h ≤ 62)
    (hsz : 32 * (if t.w == 0 then 2 ^ t.h else t.w) < 2 ^ 63)
    (hr : Tlog.storedHashIndex (t.h * t.l) (t.n <<< t.h + (if t.w == 0 then 2 ^ t.h else t.w) - 1) < 2 ^ 63)
    (hf : (if t.w == 0 then 2 ^ t.h else t.w) + 65 ≤ fuel) :
    Generated.Tile.ReadTileData toBytes fuel (toGen t) r =
      .ok (rtdOut toBytes r t (Tile.readTileData t (readerOf r))) :=
  ReadTileData_eq toBytes hb fuel t r hd hh hsz hr hf

end

/-! non-vacuity of the hash-level ties: term-algebra hashes, `ofBytes b = TH.leaf b`, tile (H=2, L=0, N=0, W=4) of the
    7-record example log with data = four 32-byte strings, stored-hash position 3 = (level 1, node 0) -/

/-- four distinguishable 32-byte "hashes" -/
def exData : Bytes := (List.replicate 32 1 ++ List.replicate 32 2 ++ List.replicate 32 3 ++ List.replicate 32 4 : List UInt8)

instance : Inhabited Tlog.TH := ⟨Tlog.TH.empty⟩

example : (Generated.Tile.tileHash Tlog.TH.node Tlog.TH.leaf 3 (exData.take 64)).toOption =
      some (Tlog.TH.node (Tlog.TH.leaf (List.replicate 32 1)) (Tlog.TH.leaf (List.replicate 32 2))) ∧
    (errOut (Tile.tileHash Tlog.TH.node (unflat Tlog.TH.leaf (exData.take 64)))).toOption =
      some (Tlog.TH.node (Tlog.TH.leaf (List.replicate 32 1)) (Tlog.TH.leaf (List.replicate 32 2))) := by
  constructor <;> decide +kernel

example : (Generated.Tile.HashFromTile Tlog.TH.node Tlog.TH.leaf 64 (toGen ⟨2, 0, 0, 4, false⟩) exData 2).toOption =
      some (Tlog.TH.node (Tlog.TH.leaf (List.replicate 32 1)) (Tlog.TH.leaf (List.replicate 32 2)), none) ∧
    hftOut ⟨2, 0, 0, 4, false⟩ (exData.length / 32)
        (Tile.hashFromTile Tlog.TH.node ⟨2, 0, 0, 4, false⟩ (unflat Tlog.TH.leaf exData) (2 : Int).toNat) =
      (Tlog.TH.node (Tlog.TH.leaf (List.replicate 32 1)) (Tlog.TH.leaf (List.replicate 32 2)), none) := by
  constructor <;> decide +kernel

example : (Generated.Tile.HashFromTile Tlog.TH.node Tlog.TH.leaf 64 (toGen ⟨2, 0, 1, 4, false⟩) exData 2).toOption =
      some (Tlog.TH.empty, some "index %v is in %v not %v") ∧
    hftOut ⟨2, 0, 1, 4, false⟩ (exData.length / 32)
        (Tile.hashFromTile Tlog.TH.node ⟨2, 0, 1, 4, false⟩ (unflat Tlog.TH.leaf exData) (2 : Int).toNat) =
      (Tlog.TH.empty, some "index %v is in %v not %v") := by
  constructor <;> decide +kernel

/-- `ReadTileData` with `H := Bytes`, `toBytes = id` over a reader that returns the index as a 32-byte string -/
def exReader : List Int → List Bytes × Option String := fun idx => (idx.map fun i => List.replicate 32 (UInt8.ofNat i.toNat), none)

example : (Generated.Tile.ReadTileData (H := Bytes) id 80 (toGen ⟨1, 1, 1, 0, false⟩) exReader).toOption =
      some (List.replicate 32 9 ++ List.replicate 32 12, none) ∧
    rtdOut (H := Bytes) id exReader ⟨1, 1, 1, 0, false⟩ (Tile.readTileData ⟨1, 1, 1, 0, false⟩ (readerOf exReader)) =
      (List.replicate 32 9 ++ List.replicate 32 12, none) := by
  constructor <;> decide +kernel

/-! ### tileHashReader.ReadHashes

The generated function takes the reader `r = {tree: {N, Hash}, tr: {Height, ReadTiles}}` and returns
`((hashes, err), effLog)` where `effLog` records the arguments of the `SaveTiles` call (if any).  The model is
`Tile.readHashes node N treeHash h indexes serve` with a per-tile server `serve : Tile → Option (List H)`.

* Hash type: ABSTRACT `H`, `ofBytes : Bytes → H` arbitrary; tile data `data[i]` (flat bytes) is seen by the model as
  `unflatS ofBytes data[i]` (the 32-byte groups through `ofBytes`; `[]` if `len(data[i])` is not a multiple of 32 — such data
  fails the width check on both sides, planned tiles having `W ≥ 1`).
* Tile server: `ServeRel ofBytes RT serve tiles` relates `ReadTiles = RT` and `serve` ON THE PLANNED TILES (the one
  `ReadTiles` call): `err ≠ nil` ↔ `mapM serve = none`; a result of the wrong length ↔ all-empty tiles (both sides then fail
  with kind `badTile`); otherwise `mapM serve = some (data.map (unflatS ofBytes))`.  `exists_serve`: for EVERY `RT` there is
  such a `serve` (`tileHashReader_ReadHashes_tie_any`).
* Result: `rhOut out gtiles data msg` = (`(hs, nil)` if the model's result is `.ok hs`, else `(nil, msg)`; effect log
  `[(gtiles, data)]` iff the model's `saved` is `some _`).  The error TEXT `msg` is existentially quantified and constrained
  by `MsgOK`: it is one of the `fmt.Errorf` texts the code has for the model's error kind (the model merges e.g. the three
  `HashFromTile` errors and the two `bad result slice` errors into `badTile`); for `Err.reader` it is `ReadTiles`' own error.
* Range: `N < 2^62` (as in every C10 theorem), `1 ≤ h ≤ 57` (for `h ≥ 58` the byte offsets `… * HashSize` computed — and
  discarded — by `tileForIndex` overflow int64: the Go code wraps silently, the checked translation reports the overflow;
  `TileReader.Height` is documented to be at most 30), `len(indexes) < 2^56`; indexes are natural numbers (out-of-range
  ones are refused on both sides with "indexes not in tree"). -/

section
variable {H : Type} [DecidableEq H] [Inhabited H] (node : H → H → H) (ofBytes : Bytes → H)

/-- ★ `tileHashReader.ReadHashes`, for every tree size `N < 2^62`, tree hash, tile height `1 ≤ h ≤ 57`, index list, every
    `ReadTiles` function and every model server related to it on the planned tiles. -/
theorem tileHashReader_ReadHashes_tie (fuel h N : Nat) (th : H) (idx : List Nat)
    (RT : List Generated.Tile.Tile → List Bytes × Option String) (serve : Tile.Tile → Option (List H))
    (h1 : 1 ≤ h) (h57 : h ≤ 57) (hN : N < 2 ^ 62) (hidx : idx.length < 2 ^ 56)
    (hserve : ServeRel ofBytes RT serve (planTiles h N idx)) (hf : 64 * idx.length + 500 ≤ fuel) :
    ∃ msg, Generated.Tile.tileHashReader_ReadHashes node ofBytes fuel
        { tree := { N := (N : Int), Hash := th }, tr := { Height := (h : Int), ReadTiles := RT } } (idx.map Int.ofNat) =
      .ok (rhOut (Tile.readHashes node N th h idx serve) ((planTiles h N idx).map toGen)
        (RT ((planTiles h N idx).map toGen)).1 msg) ∧
      ∀ e, (Tile.readHashes node N th h idx serve).result = .error e → MsgOK (RT ((planTiles h N idx).map toGen)).2 e msg := by
  have hlen := planTiles_length h N h1 hN idx
  exact ReadHashes_eq node ofBytes fuel h N th idx RT serve h1 h57 hN hserve (by omega) (by omega)

/-- the same tie with the `badTile` text pinned down (`MsgRefine`, about the SAME `msg`): for a successful plan with a
    non-empty tree-hash index list, when `ReadTiles` returned no error and the right number of tiles, a failed width check gives
    "TileReader returned bad result slice (%v len=%d, want %d)", and a `badTile` after a passed width check is one of the three
    `HashFromTile` texts (`HftMsg`).  (Used to compose with the sumdb client model, whose errors separate the two.) -/
theorem tileHashReader_ReadHashes_tie_msg (fuel h N : Nat) (th : H) (idx : List Nat)
    (RT : List Generated.Tile.Tile → List Bytes × Option String) (serve : Tile.Tile → Option (List H))
    (h1 : 1 ≤ h) (h57 : h ≤ 57) (hN : N < 2 ^ 62) (hidx : idx.length < 2 ^ 56)
    (hserve : ServeRel ofBytes RT serve (planTiles h N idx)) (hf : 64 * idx.length + 500 ≤ fuel) :
    ∃ msg, Generated.Tile.tileHashReader_ReadHashes node ofBytes fuel
        { tree := { N := (N : Int), Hash := th }, tr := { Height := (h : Int), ReadTiles := RT } } (idx.map Int.ofNat) =
      .ok (rhOut (Tile.readHashes node N th h idx serve) ((planTiles h N idx).map toGen)
        (RT ((planTiles h N idx).map toGen)).1 msg) ∧
      (∀ e, (Tile.readHashes node N th h idx serve).result = .error e → MsgOK (RT ((planTiles h N idx).map toGen)).2 e msg) ∧
      (∀ p, Tile.plan h N idx = .ok p → p.stx ≠ [] →
        MsgRefine ofBytes (planTiles h N idx) (RT ((planTiles h N idx).map toGen)).1 (RT ((planTiles h N idx).map toGen)).2
          (Tile.readHashes node N th h idx serve).result msg) := by
  have hlen := planTiles_length h N h1 hN idx
  exact ReadHashes_eq_msg node ofBytes fuel h N th idx RT serve h1 h57 hN hserve (by omega) (by omega)

/-- ★ … and for EVERY `ReadTiles` function there is such a model server: whatever a `TileReader` does, the generated
    `ReadHashes` behaves like the model against SOME tile server (so every theorem of `Props/C10.lean` that holds against
    all servers — `readHashes_authenticated`, `error_saves_nothing` — speaks about the generated code). -/
theorem tileHashReader_ReadHashes_tie_any (fuel h N : Nat) (th : H) (idx : List Nat)
    (RT : List Generated.Tile.Tile → List Bytes × Option String)
    (h1 : 1 ≤ h) (h57 : h ≤ 57) (hN : N < 2 ^ 62) (hidx : idx.length < 2 ^ 56) (hf : 64 * idx.length + 500 ≤ fuel) :
    ∃ (serve : Tile.Tile → Option (List H)) (msg : Option String),
      ServeRel ofBytes RT serve (planTiles h N idx) ∧
      Generated.Tile.tileHashReader_ReadHashes node ofBytes fuel
        { tree := { N := (N : Int), Hash := th }, tr := { Height := (h : Int), ReadTiles := RT } } (idx.map Int.ofNat) =
      .ok (rhOut (Tile.readHashes node N th h idx serve) ((planTiles h N idx).map toGen)
        (RT ((planTiles h N idx).map toGen)).1 msg) ∧
      ∀ e, (Tile.readHashes node N th h idx serve).result = .error e → MsgOK (RT ((planTiles h N idx).map toGen)).2 e msg := by
  have hnd : (planTiles h N idx).Nodup := by
    unfold planTiles
    cases hp : Tile.plan h N idx with
    | error e => simp
    | ok p => exact (TileAuth.plan_parents_first h N h1 hN idx p hp).2.2.1
  obtain ⟨serve, hs⟩ := exists_serve ofBytes RT (planTiles h N idx) hnd
  obtain ⟨msg, h2, h3⟩ := tileHashReader_ReadHashes_tie node ofBytes fuel h N th idx RT serve h1 h57 hN hidx hs hf
  exact ⟨serve, msg, hs, h2, h3⟩

end

/-! non-vacuity: the 7-record example log of C10 (`Props.C10.C10_honest_witness`), tile height 2, stored hash 0.  Hashes are
    the term algebra `TH`; stored hash number `i` travels as the 32 bytes `i, i, …` (`exOfBytes` decodes it), so the tile
    server `exRT` is honest.  Both sides return the true hash `leaf [0]` and save the three planned tiles. -/

open ModVerif.TlogTH in
def exRT : List Generated.Tile.Tile → List Bytes × Option String := fun ts =>
  (ts.map fun t => ((rtdIndexes (ofGen t)).map fun i => List.replicate 32 (UInt8.ofNat i)).flatten, none)

open ModVerif.TlogTH in
def exOfBytes (b : Bytes) : Tlog.TH := ((store 7)[(b.headD 0).toNat]?).getD Tlog.TH.empty

open ModVerif.TlogTH in
example :
    ((Generated.Tile.tileHashReader_ReadHashes Tlog.TH.node exOfBytes 600 ⟨⟨7, root 7⟩, ⟨2, exRT⟩⟩ [0]).toOption.map
        fun r => (r.1, r.2.map (·.1))) =
      some (([Tlog.TH.leaf [0]], none), [[⟨2, 1, 0, 1⟩, ⟨2, 0, 1, 3⟩, ⟨2, 0, 0, 4⟩]]) ∧
    planTiles 2 7 [0] = [⟨2, 1, 0, 1, false⟩, ⟨2, 0, 1, 3, false⟩, ⟨2, 0, 0, 4, false⟩] ∧
    (let out := Tile.readHashes Tlog.TH.node 7 (root 7) 2 [0]
        (fun t => (Tile.trueTile (store 7) t));
      isOk out.result [Tlog.TH.leaf [0]] = true ∧ out.saved.isSome = true) := by
  decide +kernel

/-- … a forged tile is rejected by both sides ("downloaded inconsistent tile", nothing saved) -/
def exRTevil : List Generated.Tile.Tile → List Bytes × Option String := fun ts =>
  (ts.map fun t => ((rtdIndexes (ofGen t)).map fun i =>
    List.replicate 32 (UInt8.ofNat (if t = ⟨2, 0, 0, 4⟩ ∧ i = 0 then 1 else i))).flatten, none)

open ModVerif.TlogTH in
example :
    (Generated.Tile.tileHashReader_ReadHashes Tlog.TH.node exOfBytes 600 ⟨⟨7, root 7⟩, ⟨2, exRTevil⟩⟩ [0]).toOption =
      some (([], some "downloaded inconsistent tile"), []) := by
  decide +kernel

/-! ### the C10 security theorems, for the REGENERATED code

`Props.C10.readHashes_authenticated` / `error_saves_nothing` (theorems about the hand model against every tile server)
composed with `tileHashReader_ReadHashes_tie_any`: statements about `Generated.Tile.tileHashReader_ReadHashes` alone —
no model function occurs in the conclusions (`Tile.trueTile st t` is the specification's tile content of the log,
`st[·]?` its stored hashes; `unflatS ofBytes` reads flat tile bytes as hashes). -/

section
variable {H : Type} [DecidableEq H] [Inhabited H] (leaf : Bytes → H) (node : H → H → H) (empty : H) (ofBytes : Bytes → H)

/-- ★ Against ANY `ReadTiles` function, for the true tree head of a log `D` of fewer than `2^62` records and a
    collision-free `NodeHash`, tile height `1 ≤ h ≤ 57`: the regenerated `tileHashReader.ReadHashes` terminates (no panic,
    no int64 overflow); if it returns `err = nil` the hashes are the true stored hashes of the requested positions; and every
    (tile, data) pair passed to `SaveTiles` (the effect log) is the true tile content. -/
theorem tileHashReader_ReadHashes_authenticated (D : List Bytes) (st : List H) (hst : Tlog.buildStore leaf node D = .ok st)
    (hR : D.length < 2 ^ 62) (hcf : ∀ a b c d : H, node a b = node c d → a = c ∧ b = d)
    (h : Nat) (h1 : 1 ≤ h) (h57 : h ≤ 57) (idx : List Nat) (hidx : idx.length < 2 ^ 56)
    (RT : List Generated.Tile.Tile → List Bytes × Option String) (fuel : Nat) (hf : 64 * idx.length + 500 ≤ fuel) :
    ∃ res, Generated.Tile.tileHashReader_ReadHashes node ofBytes fuel
        { tree := { N := (D.length : Int), Hash := RFC6962.mth node empty (D.map leaf) },
          tr := { Height := (h : Int), ReadTiles := RT } } (idx.map Int.ofNat) = .ok res ∧
      (res.1.2 = none → idx.mapM (st[·]?) = some res.1.1) ∧
      (∀ entry ∈ res.2, entry.2.length = entry.1.length ∧
        ∀ i (_ : i < entry.1.length) (_ : i < entry.2.length),
          Tile.trueTile st (ofGen entry.1[i]) = some (unflatS ofBytes entry.2[i])) :=
  ReadHashes_generated_authenticated leaf node empty ofBytes D st hst hR hcf h h1 h57 idx hidx RT fuel hf

/-- ★ … and for `h ≤ 30`: `err ≠ nil` implies that `SaveTiles` was not called. -/
theorem tileHashReader_ReadHashes_error_saves_nothing (D : List Bytes) (st : List H)
    (hst : Tlog.buildStore leaf node D = .ok st) (hR : D.length < 2 ^ 62)
    (hcf : ∀ a b c d : H, node a b = node c d → a = c ∧ b = d)
    (h : Nat) (h1 : 1 ≤ h) (h30 : h ≤ 30) (idx : List Nat) (hidx : idx.length < 2 ^ 56)
    (RT : List Generated.Tile.Tile → List Bytes × Option String) (fuel : Nat) (hf : 64 * idx.length + 500 ≤ fuel) :
    ∃ res, Generated.Tile.tileHashReader_ReadHashes node ofBytes fuel
        { tree := { N := (D.length : Int), Hash := RFC6962.mth node empty (D.map leaf) },
          tr := { Height := (h : Int), ReadTiles := RT } } (idx.map Int.ofNat) = .ok res ∧
      (res.1.2 ≠ none → res.2 = []) :=
  ReadHashes_generated_error_saves_nothing leaf node empty ofBytes D st hst hR hcf h h1 h30 idx hidx RT fuel hf

end

/-- non-vacuity of the hypotheses: the 7-record example log has a store, the term algebra is collision free (the
    conclusions are exercised by the two evaluated examples above: the honest read returns the true hash `leaf [0]`,
    the forged tile is refused with an empty effect log) -/
example : (∃ st, Tlog.buildStore Tlog.TH.leaf Tlog.TH.node (TlogTH.recs 7) = .ok st) ∧ (TlogTH.recs 7).length < 2 ^ 62 ∧
    (∀ a b c d : Tlog.TH, Tlog.TH.node a b = Tlog.TH.node c d → a = c ∧ b = d) := by
  obtain ⟨st, h1, _⟩ := TlogStore.buildStore_ok Tlog.TH.leaf Tlog.TH.node Tlog.TH.empty (TlogTH.recs 7) (by decide)
  exact ⟨⟨st, h1⟩, by decide, fun a b c d h => by cases h; exact ⟨rfl, rfl⟩⟩

end ModVerif.Tie.FnTile
