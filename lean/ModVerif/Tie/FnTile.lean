/-
  Tie theorems, sumdb/tlog/tile.go: the definitions regenerated from the Go source by go2lean
  (`Generated/FnTile.lean`, CHECKED mode: every int64 result goes through `chk64`) compute exactly what the hand model
  (`Model/Tile.lean`) says — in particular no panic, no fuel exhaustion and no int64 overflow on the stated range.

  Representation (Proofs/TieFnTile.lean): the generated `Tile` has `Int` fields `H L N W` with `L = -1` for data tiles,
  the model `Tile` has `Nat` fields and a `data` flag; `toGen : Tile.Tile → Generated.Tile.Tile` and
  `ofGen` the other way (`toGen (ofGen t) = t` for non-negative fields and `L ≥ -1`, `ofGen (toGen t) = t` for
  `data → l = 0`).  Helper lemmas: `Proofs/TieFnTile*.lean`, `Proofs/GoRtLemmasTile.lean`.
-/
import ModVerif.Generated.FnTile
import ModVerif.Model.Tile
import ModVerif.Proofs.TieFnTile
import ModVerif.Proofs.TieFnTilePath
import ModVerif.Proofs.TieFnTileParse
namespace ModVerif.Tie.FnTile
open ModVerif ModVerif.GoRt ModVerif.TieFnTile

/-- `tileParent(t, k, n)` for a tile with non-negative fields (not a data tile), `k ≥ 0`, `0 ≤ n ≤ MaxInt64`.  The range
    hypotheses `h1 … h4` say exactly that the int64 intermediates `t.L + k`, `k * t.H`, `(t.L + k) * t.H` and
    `(t.N >> (k*t.H)) << t.H + 1 << t.H` do not overflow (in particular `t.H ≤ 62`).  `Tile{}` is `toGen Tile.zero`. -/
theorem tileParent_tie (t : Generated.Tile.Tile) (k n : Int)
    (hH : 0 ≤ t.H) (hL : 0 ≤ t.L) (hN : 0 ≤ t.N) (hW : 0 ≤ t.W) (hk : 0 ≤ k) (hn0 : 0 ≤ n) (hn : n < 2 ^ 63)
    (h1 : t.L + k < 2 ^ 63) (h2 : k * t.H < 2 ^ 63) (h3 : (t.L + k) * t.H < 2 ^ 63)
    (h4 : (t.N.toNat >>> (k.toNat * t.H.toNat) + 1) * 2 ^ t.H.toNat < 2 ^ 63) :
    Generated.Tile.tileParent t k n = .ok (toGen (Tile.tileParent (ofGen t) k.toNat n.toNat)) := by
  have hne : ¬ t.L = -1 := by omega
  have hd : (ofGen t).data = false := by simp [ofGen, hne]
  have e : toGen (ofGen t) = t := toGen_ofGen t hH (by omega) hN hW
  have hfld : (ofGen t).h = t.H.toNat ∧ (ofGen t).l = t.L.toNat ∧ (ofGen t).n = t.N.toNat := by simp [ofGen, hne]
  obtain ⟨f1, f2, f3⟩ := hfld
  have h2' : k.toNat * t.H.toNat < 2 ^ 63 := by
    have : ((k.toNat * t.H.toNat : Nat) : Int) = k * t.H := by
      rw [Int.natCast_mul, Int.toNat_of_nonneg hk, Int.toNat_of_nonneg hH]
    omega
  have h3' : (t.L.toNat + k.toNat) * t.H.toNat < 2 ^ 63 := by
    have : (((t.L.toNat + k.toNat) * t.H.toNat : Nat) : Int) = (t.L + k) * t.H := by
      rw [Int.natCast_mul, Int.natCast_add, Int.toNat_of_nonneg hk, Int.toNat_of_nonneg hH, Int.toNat_of_nonneg hL]
    omega
  have := tileParent_eq (ofGen t) k.toNat n.toNat hd (by rw [f2]; omega) (by rw [f1]; exact h2')
    (by rw [f1, f2]; exact h3') (by rw [f1, f3]; exact h4) (by omega)
  rwa [e, Int.toNat_of_nonneg hk, Int.toNat_of_nonneg hn0] at this

example : Generated.Tile.tileParent ⟨2, 0, 1, 3⟩ 1 7 = .ok ⟨2, 1, 0, 1⟩ ∧
    toGen (Tile.tileParent (ofGen ⟨2, 0, 1, 3⟩) (1 : Int).toNat (7 : Int).toNat) = ⟨2, 1, 0, 1⟩ := ⟨rfl, rfl⟩

/-- `tileForIndex(h, index)` for `h ≥ 0`, `0 ≤ index ≤ MaxInt64 - 1`, and (`h ≤ 57` or `index < 2^57`: the returned byte
    offsets are at most `2^h * HashSize` and at most `(index + 1) * HashSize`, beyond both bounds the Go code wraps around
    silently and the checked translation reports the overflow).  `tfiOut` maps the model's hash offsets to byte offsets
    (`× 32`) and the model's only error here (`h = 0`: integer division by zero in the code) to the panic. -/
theorem tileForIndex_tie (fuel : Nat) (h index : Int) (hh : 0 ≤ h) (hh2 : h < 2 ^ 63) (h0 : 0 ≤ index)
    (hr : index < 2 ^ 63 - 1) (hr2 : h ≤ 57 ∨ index < 2 ^ 57) (hf : 64 ≤ fuel) :
    Generated.Tile.tileForIndex fuel h index = tfiOut (Tile.tileForIndex h.toNat index.toNat) := by
  have := tileForIndex_eq fuel h.toNat index.toNat (by omega) (by omega) (by omega) hf
  rwa [Int.toNat_of_nonneg hh, Int.toNat_of_nonneg h0] at this

example : Generated.Tile.tileForIndex 64 2 44 = .ok (⟨2, 1, 1, 2⟩, 32, 64) ∧
    tfiOut (Tile.tileForIndex (2 : Int).toNat (44 : Int).toNat) = .ok (⟨2, 1, 1, 2⟩, 32, 64) := ⟨rfl, rfl⟩

example : Generated.Tile.tileForIndex 64 0 44 = .error .panic ∧
    tfiOut (Tile.tileForIndex (0 : Int).toNat (44 : Int).toNat) = .error .panic := ⟨rfl, rfl⟩

/-- the model's `TileForIndex` result as a result of the generated function -/
def tfiPubOut : Except Tlog.Err Tile.Tile → M Generated.Tile.Tile
  | .ok t => .ok (toGen t)
  | .error _ => .error .panic

/-- `TileForIndex(h, index)`: EVERY `h < 2^63` (`h ≤ 0` panics on both sides), `index` as for `tileForIndex`. -/
theorem TileForIndex_tie (fuel : Nat) (h index : Int) (hh2 : h < 2 ^ 63) (h0 : 0 ≤ index)
    (hr : index < 2 ^ 63 - 1) (hr2 : h ≤ 57 ∨ index < 2 ^ 57) (hf : 64 ≤ fuel) :
    Generated.Tile.TileForIndex fuel h index = tfiPubOut (Tile.tileForIndexPub h.toNat index.toNat) := by
  by_cases hle : h ≤ 0
  · have e : h.toNat = 0 := by omega
    simp only [Generated.Tile.TileForIndex, hle, decide_true, ↓reduceIte, e, Tile.tileForIndexPub, Tile.tileForIndex]
    rfl
  · have := tileForIndex_tie fuel h index (by omega) hh2 h0 hr hr2 hf
    simp only [Generated.Tile.TileForIndex, hle, decide_false, Bool.false_eq_true, ↓reduceIte, this, Tile.tileForIndexPub]
    cases Tile.tileForIndex h.toNat index.toNat with
    | error e => rfl
    | ok r => obtain ⟨t, s, e⟩ := r; rfl

example : Generated.Tile.TileForIndex 64 2 44 = .ok ⟨2, 1, 1, 2⟩ ∧
    tfiPubOut (Tile.tileForIndexPub (2 : Int).toNat (44 : Int).toNat) = .ok ⟨2, 1, 1, 2⟩ := ⟨rfl, rfl⟩

/-- `Tile.Path()` of (the image of) any model tile — data tiles included (`L = -1` prints as "data") — with `H ≤ 62`
    (`1 << H` is an int64; for larger `H` the Go shift gives 0 or MinInt64 and the model's `2^h` no longer describes it)
    and `N` an int64.  Constant fuel: `N < 2^63` has at most seven 3-digit groups. -/
theorem Tile_Path_tie (fuel : Nat) (t : Tile.Tile) (hh : t.h ≤ 62) (hn : t.n < 2 ^ 63) (hf : 8 ≤ fuel) :
    Generated.Tile.Tile_Path fuel (toGen t) = .ok (Tile.tilePath t) :=
  Tile_Path_eq fuel t hh hn hf

example : (Generated.Tile.Tile_Path 8 (toGen ⟨3, 4, 1234067, 1, false⟩)).toOption = some (B "tile/3/4/x001/x234/067.p/1") ∧
    Tile.tilePath ⟨3, 4, 1234067, 1, false⟩ = B "tile/3/4/x001/x234/067.p/1" := by
  constructor <;> decide +kernel

/-- `ParseTilePath(path)`: `ptpOut` maps the model's `some t` to `(toGen t, nil)` and `none` to `(Tile{}, badPathError)`.
    Range hypotheses: `len(path)` is an int (`len(f) - 2` is computed), and `hfit`: the running value of the
    `n = n*pathBase + nn` loop over the `NNN` elements (`nSegs path`, exactly the list the model's `parseN` is applied to)
    stays below `2^63` at every step (`Fits`).  Without it the Go code wraps around silently — and then rejects the path
    because `t.Path()` differs — whereas the checked translation reports the overflow; the model rejects `n ≥ 2^63`
    directly.  `fits_of_short`: every path with at most 9 `/`-separated elements satisfies `hfit`. -/
theorem ParseTilePath_tie (fuel : Nat) (path : Bytes) (hfit : Fits (nSegs path) 0)
    (hplen : path.length + 1 < 2 ^ 63) (hf : path.length + 9 ≤ fuel) :
    Generated.Tile.ParseTilePath fuel path = .ok (ptpOut (Tile.parseTilePath path)) :=
  ParseTilePath_eq fuel path hfit hplen hf

/-- the same for paths of at most 9 elements (`tile/H/L/` + up to six `NNN` elements: every `N < 10^18`, or `N < 10^15`
    with a `.p/W` suffix), without reference to `Fits` -/
theorem ParseTilePath_tie_short (fuel : Nat) (path : Bytes) (hshort : (splitOn 47 path).length ≤ 9)
    (hplen : path.length + 1 < 2 ^ 63) (hf : path.length + 9 ≤ fuel) :
    Generated.Tile.ParseTilePath fuel path = .ok (ptpOut (Tile.parseTilePath path)) :=
  ParseTilePath_eq fuel path (fits_of_short path hshort) hplen hf

example : (Generated.Tile.ParseTilePath 40 (B "tile/3/4/x001/x234/067.p/1")).toOption = some (⟨3, 4, 1234067, 1⟩, none) ∧
    ptpOut (Tile.parseTilePath (B "tile/3/4/x001/x234/067.p/1")) = (⟨3, 4, 1234067, 1⟩, none) := by
  constructor <;> decide +kernel

example : (Generated.Tile.ParseTilePath 40 (B "tile/3/data/x001/067")).toOption = some (⟨3, -1, 1067, 8⟩, none) ∧
    ptpOut (Tile.parseTilePath (B "tile/3/data/x001/067")) = (⟨3, -1, 1067, 8⟩, none) := by
  constructor <;> decide +kernel

example : (Generated.Tile.ParseTilePath 40 (B "tile/3/4/1067")).toOption = some (default, some "badPathError") ∧
    ptpOut (Tile.parseTilePath (B "tile/3/4/1067")) = (default, some "badPathError") := by
  constructor <;> decide +kernel

end ModVerif.Tie.FnTile
