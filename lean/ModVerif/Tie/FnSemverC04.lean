/-
  C04 transported to the regenerated code: the property theorems of Props/C04.lean (about the hand model
  Model/Semver.lean) restated about `Generated.Semver.IsValid / Compare / Canonical / Major / MajorMinor / Prerelease /
  Build / Max / parse / compareInt` (Generated/FnSemver.lean, re-translated from semver.go on every run) through the tie
  theorems of Tie/FnSemver.lean.

  The semver unit is translated in ideal mode, so an explicit fuel lower bound is the only extra hypothesis.  Every
  statement is an equation / equivalence about the RESULT `.ok …` of the generated function, so it also says: no index or
  slice panic and no fuel exhaustion.  The statements mention the generated functions, the independent grammar
  (Spec/SemverSpec.lean: `Valid`, `Num`, `PreOpt`, `BuildOpt`), the documented decomposition `Decomp` (written over the
  spec notions) and ordinary data (`decVal`, `natCmp`); the hand model appears only in `gen_Compare_eq_key`, whose key
  function `vkey` is a model-internal notion.

  Not transported: `canonicalVersion_spec` (module unit), `less_strict_total`, `le_spec`, `sort_spec` (ByVersion / Sort are
  not in the generated unit).  Corollaries only — nothing here is used by another module.
-/
import ModVerif.Tie.FnSemver
import ModVerif.Props.C04
import ModVerif.Proofs.GenPropsUtil
namespace ModVerif.Tie.FnSemverC04
open ModVerif ModVerif.GoRt ModVerif.Semver ModVerif.SemverSpec ModVerif.TieFnSemver ModVerif.Tie.FnSemver
open ModVerif.GenPropsUtil

/-! ### validity = the documented grammar -/

/-- ★ the regenerated `IsValid` answers true exactly on the documented grammar `vMAJOR[.MINOR[.PATCH[-PRE][+BUILD]]]`. -/
theorem gen_IsValid_iff (fuel : Nat) (v : Bytes) (hf : 2 * v.length ≤ fuel) :
    Generated.Semver.IsValid fuel v = .ok true ↔ Valid v := by
  rw [IsValid_tie v fuel hf, ← Props.C04.isValid_iff]
  constructor
  · intro h; exact Except.ok.inj h
  · intro h; rw [h]

/-- ★ … and false exactly outside it: `IsValid` is total and decides the grammar. -/
theorem gen_IsValid_false_iff (fuel : Nat) (v : Bytes) (hf : 2 * v.length ≤ fuel) :
    Generated.Semver.IsValid fuel v = .ok false ↔ ¬ Valid v := by
  rw [IsValid_tie v fuel hf, ← Props.C04.isValid_iff]
  constructor
  · intro h; rw [Except.ok.inj h]; simp
  · intro h; cases hv : isValid v
    · rfl
    · exact absurd hv h

theorem isValid_false_of_not_valid {v : Bytes} (h : ¬ Valid v) : isValid v = false := by
  cases hv : isValid v
  · rfl
  · exact absurd ((Props.C04.isValid_iff v).1 hv) h

/-- ★ the regenerated `parse` succeeds with the struct `p` exactly when `v` decomposes into the parts `p` according to
    the documented grammar (shortened forms filled with "0"). -/
theorem gen_parse_iff_decomp (fuel : Nat) (v : Bytes) (p : Parsed) (hf : 2 * v.length ≤ fuel) :
    Generated.Semver.parse fuel v = .ok (ofParsed p, true) ↔ Decomp v p := by
  rw [parse_tie v fuel hf, ← Props.C04.parse_iff_decomp]
  cases hp : parse v with
  | none => simp
  | some q =>
    simp only [Except.ok.injEq, Prod.mk.injEq, and_true, Option.some.injEq]
    constructor
    · intro h
      cases q; cases p
      simp only [ofParsed, Generated.Semver.parsed.mk.injEq] at h
      obtain ⟨h1, h2, h3, h4, h5, h6⟩ := h
      subst h1 h2 h3 h4 h5 h6; rfl
    · intro h; rw [h]

/-! ### Compare is the SemVer total preorder -/

/-- ★ order characterisation: the regenerated `Compare` is the comparison of the keys in a strict total order on keys
    (`vkey`: `none` for invalid versions, else (major, minor, patch, prerelease identifiers)). -/
theorem gen_Compare_eq_key (fuel : Nat) (v w : Bytes) (hf : 2 * max v.length w.length ≤ fuel) :
    Generated.Semver.Compare fuel v w = .ok (optLowCmp keyCmp (vkey v) (vkey w)) := by
  rw [Compare_tie v w fuel hf, Props.C04.compare_eq_key]

/-- ★ reflexive. -/
theorem gen_Compare_refl (fuel : Nat) (v : Bytes) (hf : 2 * v.length ≤ fuel) :
    Generated.Semver.Compare fuel v v = .ok 0 := by
  rw [Compare_tie v v fuel (by omega), Props.C04.compare_refl]

/-- ★ total, with values in {-1, 0, +1}. -/
theorem gen_Compare_range (fuel : Nat) (v w : Bytes) (hf : 2 * max v.length w.length ≤ fuel) :
    Generated.Semver.Compare fuel v w = .ok (-1) ∨ Generated.Semver.Compare fuel v w = .ok 0 ∨
    Generated.Semver.Compare fuel v w = .ok 1 := by
  rw [Compare_tie v w fuel hf]
  rcases Props.C04.compare_range v w with h | h | h <;> rw [h] <;> simp

/-- ★ antisymmetric: swapping the arguments negates the result. -/
theorem gen_Compare_antisymm (fuel : Nat) (v w : Bytes) (hf : 2 * max v.length w.length ≤ fuel) :
    ∃ c : Int, Generated.Semver.Compare fuel w v = .ok c ∧ Generated.Semver.Compare fuel v w = .ok (-c) := by
  refine ⟨Semver.compare w v, Compare_tie w v fuel (by omega), ?_⟩
  rw [Compare_tie v w fuel hf, Props.C04.compare_antisymm]

/-- ★ transitive (non-strict form): `u ≤ v ≤ w → u ≤ w`. -/
theorem gen_Compare_trans_le (fuel : Nat) (u v w : Bytes) (a b : Int)
    (hu : 2 * u.length ≤ fuel) (hv : 2 * v.length ≤ fuel) (hw : 2 * w.length ≤ fuel)
    (h1 : Generated.Semver.Compare fuel u v = .ok a) (ha : a ≤ 0)
    (h2 : Generated.Semver.Compare fuel v w = .ok b) (hb : b ≤ 0) :
    ∃ c : Int, Generated.Semver.Compare fuel u w = .ok c ∧ c ≤ 0 := by
  rw [Compare_tie u v fuel (by omega)] at h1
  rw [Compare_tie v w fuel (by omega)] at h2
  refine ⟨Semver.compare u w, Compare_tie u w fuel (by omega), ?_⟩
  exact Props.C04.compare_trans_le u v w (by rw [Except.ok.inj h1]; exact ha) (by rw [Except.ok.inj h2]; exact hb)

/-- ★ transitive (strict form): `u < v < w → u < w`. -/
theorem gen_Compare_trans_lt (fuel : Nat) (u v w : Bytes)
    (hu : 2 * u.length ≤ fuel) (hv : 2 * v.length ≤ fuel) (hw : 2 * w.length ≤ fuel)
    (h1 : Generated.Semver.Compare fuel u v = .ok (-1)) (h2 : Generated.Semver.Compare fuel v w = .ok (-1)) :
    Generated.Semver.Compare fuel u w = .ok (-1) := by
  rw [Compare_tie u v fuel (by omega)] at h1
  rw [Compare_tie v w fuel (by omega)] at h2
  rw [Compare_tie u w fuel (by omega), Props.C04.compare_trans_lt u v w (Except.ok.inj h1) (Except.ok.inj h2)]

/-- ★ mixed transitivity: `u < v ≤ w → u < w`. -/
theorem gen_Compare_trans_lt_le (fuel : Nat) (u v w : Bytes) (b : Int)
    (hu : 2 * u.length ≤ fuel) (hv : 2 * v.length ≤ fuel) (hw : 2 * w.length ≤ fuel)
    (h1 : Generated.Semver.Compare fuel u v = .ok (-1))
    (h2 : Generated.Semver.Compare fuel v w = .ok b) (hb : b ≤ 0) :
    Generated.Semver.Compare fuel u w = .ok (-1) := by
  rw [Compare_tie u v fuel (by omega)] at h1
  rw [Compare_tie v w fuel (by omega)] at h2
  rw [Compare_tie u w fuel (by omega),
    Props.C04.compare_trans_lt_le u v w (Except.ok.inj h1) (by rw [Except.ok.inj h2]; exact hb)]

/-- ★ mixed transitivity: `u ≤ v < w → u < w`. -/
theorem gen_Compare_trans_le_lt (fuel : Nat) (u v w : Bytes) (a : Int)
    (hu : 2 * u.length ≤ fuel) (hv : 2 * v.length ≤ fuel) (hw : 2 * w.length ≤ fuel)
    (h1 : Generated.Semver.Compare fuel u v = .ok a) (ha : a ≤ 0)
    (h2 : Generated.Semver.Compare fuel v w = .ok (-1)) :
    Generated.Semver.Compare fuel u w = .ok (-1) := by
  rw [Compare_tie u v fuel (by omega)] at h1
  rw [Compare_tie v w fuel (by omega)] at h2
  rw [Compare_tie u w fuel (by omega),
    Props.C04.compare_trans_le_lt u v w (by rw [Except.ok.inj h1]; exact ha) (Except.ok.inj h2)]

/-- ★ all strings outside the grammar compare equal. -/
theorem gen_Compare_invalid_invalid (fuel : Nat) (v w : Bytes) (hf : 2 * max v.length w.length ≤ fuel)
    (hv : ¬ Valid v) (hw : ¬ Valid w) : Generated.Semver.Compare fuel v w = .ok 0 := by
  rw [Compare_tie v w fuel hf,
    Props.C04.compare_invalid_invalid v w (isValid_false_of_not_valid hv) (isValid_false_of_not_valid hw)]

/-- ★ every string outside the grammar is below every valid version. -/
theorem gen_Compare_invalid_valid (fuel : Nat) (v w : Bytes) (hf : 2 * max v.length w.length ≤ fuel)
    (hv : ¬ Valid v) (hw : Valid w) : Generated.Semver.Compare fuel v w = .ok (-1) := by
  rw [Compare_tie v w fuel hf,
    Props.C04.compare_invalid_valid v w (isValid_false_of_not_valid hv) ((Props.C04.isValid_iff w).2 hw)]

/-- ★ **Compare returns 0 exactly when the canonical forms are identical** — both sides regenerated code. -/
theorem gen_Compare_zero_iff_Canonical (fuel : Nat) (v w : Bytes) (hf : 2 * max v.length w.length ≤ fuel) :
    Generated.Semver.Compare fuel v w = .ok 0 ↔
      Generated.Semver.Canonical fuel v = Generated.Semver.Canonical fuel w := by
  rw [Compare_tie v w fuel hf, Canonical_tie v fuel (by omega), Canonical_tie w fuel (by omega),
    ok_inj_iff, ok_inj_iff, Props.C04.compare_zero_iff_canonical]

/-! ### numbers of any length are compared numerically -/

/-- ★ on the number parts the grammar allows (decimal, no leading zeros) the regenerated `compareInt` is the comparison
    of the VALUES, with no bound on the number of digits. -/
theorem gen_compareInt_numeric (x y : Bytes) (hx : Num x) (hy : Num y) :
    Generated.Semver.compareInt x y = natCmp (decVal x) (decVal y) := by
  rw [compareInt_tie, Props.C04.compareInt_numeric x y hx hy]

theorem parse_short1 {maj : Bytes} (h : Num maj) :
    parse (118 :: maj) = some { major := maj, minor := [48], patch := [48], short := B ".0.0" } :=
  (Props.C04.parse_iff_decomp _ _).2 (Decomp.short1 maj h)

theorem parse_full0 {maj min pat : Bytes} (h1 : Num maj) (h2 : Num min) (h3 : Num pat) :
    parse (118 :: maj ++ 46 :: min ++ 46 :: pat) = some { major := maj, minor := min, patch := pat } := by
  have := (Props.C04.parse_iff_decomp _ _).2 (Decomp.full maj min pat [] [] h1 h2 h3 (Or.inl rfl) (Or.inl rfl))
  simpa using this

theorem compareInt_self (x : Bytes) : compareInt x x = 0 := compareInt_strict.refl x

theorem comparePrerelease_nil : comparePrerelease [] [] = 0 := by
  have := Props.C04.compare_refl (118 :: [48])
  have hp := parse_short1 num_zero
  simp only [Semver.compare, hp, compareInt_self] at this
  simpa using this

/-- ★ at the API: two releases `vA.B.C`, `vA'.B'.C'` with numbers of ANY length are ordered by the numeric values of
    their parts, lexicographically. -/
theorem gen_Compare_release_numeric (fuel : Nat) (a b c a' b' c' : Bytes)
    (ha : Num a) (hb : Num b) (hc : Num c) (ha' : Num a') (hb' : Num b') (hc' : Num c')
    (hf : 2 * max (118 :: a ++ 46 :: b ++ 46 :: c).length (118 :: a' ++ 46 :: b' ++ 46 :: c').length ≤ fuel) :
    Generated.Semver.Compare fuel (118 :: a ++ 46 :: b ++ 46 :: c) (118 :: a' ++ 46 :: b' ++ 46 :: c') =
      .ok (if natCmp (decVal a) (decVal a') ≠ 0 then natCmp (decVal a) (decVal a')
           else if natCmp (decVal b) (decVal b') ≠ 0 then natCmp (decVal b) (decVal b')
           else natCmp (decVal c) (decVal c')) := by
  rw [Compare_tie _ _ fuel hf]
  simp only [Semver.compare, parse_full0 ha hb hc, parse_full0 ha' hb' hc', comparePrerelease_nil,
    Props.C04.compareInt_numeric a a' ha ha', Props.C04.compareInt_numeric b b' hb hb',
    Props.C04.compareInt_numeric c c' hc hc']
  congr 1
  by_cases h1 : natCmp (decVal a) (decVal a') = 0
  · by_cases h2 : natCmp (decVal b) (decVal b') = 0
    · by_cases h3 : natCmp (decVal c) (decVal c') = 0 <;> simp [h1, h2, h3]
    · simp [h1, h2]
  · simp [h1]

/-- ★ at the API, shortest form: `vA` against `vA'` is the numeric comparison of `A` and `A'`, any number of digits. -/
theorem gen_Compare_major_numeric (fuel : Nat) (a a' : Bytes) (ha : Num a) (ha' : Num a')
    (hf : 2 * Nat.max (a.length + 1) (a'.length + 1) ≤ fuel) :
    Generated.Semver.Compare fuel (118 :: a) (118 :: a') = .ok (natCmp (decVal a) (decVal a')) := by
  rw [Compare_tie _ _ fuel (by simpa using hf)]
  simp only [Semver.compare, parse_short1 ha, parse_short1 ha', comparePrerelease_nil, compareInt_self,
    Props.C04.compareInt_numeric a a' ha ha']
  congr 1
  by_cases h1 : natCmp (decVal a) (decVal a') = 0 <;> simp [h1]

/-! ### accessors -/

/-- ★ every regenerated accessor returns "" outside the grammar. -/
theorem gen_accessors_invalid (fuel : Nat) (v : Bytes) (hf : 2 * v.length ≤ fuel) (h : ¬ Valid v) :
    Generated.Semver.Canonical fuel v = .ok [] ∧ Generated.Semver.Major fuel v = .ok [] ∧
    Generated.Semver.MajorMinor fuel v = .ok [] ∧ Generated.Semver.Prerelease fuel v = .ok [] ∧
    Generated.Semver.Build fuel v = .ok [] := by
  obtain ⟨h1, h2, h3, h4, h5⟩ := Props.C04.accessors_invalid v (isValid_false_of_not_valid h)
  rw [Canonical_tie v fuel hf, Major_tie v fuel hf, MajorMinor_tie v fuel hf, Prerelease_tie v fuel hf,
    Build_tie v fuel hf, h1, h2, h3, h4, h5]
  simp

/-- ★ on a version with documented decomposition `p`: Canonical = "v" MAJOR "." MINOR "." PATCH PRERELEASE,
    Major = "v" MAJOR, MajorMinor = "v" MAJOR "." MINOR, Prerelease and Build the corresponding parts. -/
theorem gen_accessors_valid (fuel : Nat) (v : Bytes) (p : Parsed) (hf : 2 * v.length ≤ fuel) (h : Decomp v p) :
    Generated.Semver.Canonical fuel v = .ok (118 :: p.major ++ 46 :: p.minor ++ 46 :: p.patch ++ p.prerelease) ∧
    Generated.Semver.Major fuel v = .ok (118 :: p.major) ∧
    Generated.Semver.MajorMinor fuel v = .ok (118 :: p.major ++ 46 :: p.minor) ∧
    Generated.Semver.Prerelease fuel v = .ok p.prerelease ∧
    Generated.Semver.Build fuel v = .ok p.build := by
  have hp := (Props.C04.parse_iff_decomp v p).2 h
  obtain ⟨h2, h4, h5⟩ := Props.C04.major_prerelease_build_spec v p hp
  rw [Canonical_tie v fuel hf, Major_tie v fuel hf, MajorMinor_tie v fuel hf, Prerelease_tie v fuel hf,
    Build_tie v fuel hf, Props.C04.canonical_spec v p hp, Props.C04.majorMinor_spec v p hp, h2, h4, h5]
  simp

/-- ★ the full form spelled out, no struct: on `vMAJ.MIN.PAT PRE BUILD` the accessors return the parts and Canonical
    drops exactly the build suffix. -/
theorem gen_accessors_full (fuel : Nat) (maj min pat pre bld : Bytes)
    (h1 : Num maj) (h2 : Num min) (h3 : Num pat) (h4 : PreOpt pre) (h5 : BuildOpt bld)
    (hf : 2 * (118 :: maj ++ 46 :: min ++ 46 :: pat ++ pre ++ bld).length ≤ fuel) :
    Generated.Semver.Canonical fuel (118 :: maj ++ 46 :: min ++ 46 :: pat ++ pre ++ bld) =
      .ok (118 :: maj ++ 46 :: min ++ 46 :: pat ++ pre) ∧
    Generated.Semver.Major fuel (118 :: maj ++ 46 :: min ++ 46 :: pat ++ pre ++ bld) = .ok (118 :: maj) ∧
    Generated.Semver.MajorMinor fuel (118 :: maj ++ 46 :: min ++ 46 :: pat ++ pre ++ bld) = .ok (118 :: maj ++ 46 :: min) ∧
    Generated.Semver.Prerelease fuel (118 :: maj ++ 46 :: min ++ 46 :: pat ++ pre ++ bld) = .ok pre ∧
    Generated.Semver.Build fuel (118 :: maj ++ 46 :: min ++ 46 :: pat ++ pre ++ bld) = .ok bld :=
  gen_accessors_valid fuel _ _ hf (Decomp.full maj min pat pre bld h1 h2 h3 h4 h5)

/-- ★ the shortened forms are completed with ".0": Canonical("vMAJ") = "vMAJ.0.0", Canonical("vMAJ.MIN") = "vMAJ.MIN.0". -/
theorem gen_Canonical_short (fuel : Nat) (maj min : Bytes) (h1 : Num maj) (h2 : Num min) :
    (2 * (maj.length + 1) ≤ fuel →
      Generated.Semver.Canonical fuel (118 :: maj) = .ok (118 :: maj ++ [46, 48, 46, 48])) ∧
    (2 * (118 :: maj ++ 46 :: min).length ≤ fuel →
      Generated.Semver.Canonical fuel (118 :: maj ++ 46 :: min) = .ok (118 :: maj ++ 46 :: min ++ [46, 48])) := by
  constructor
  · intro hf
    have := (gen_accessors_valid fuel _ _ (by simpa using hf) (Decomp.short1 maj h1)).1
    simpa using this
  · intro hf
    have := (gen_accessors_valid fuel _ _ hf (Decomp.short2 maj min h1 h2)).1
    simpa using this

/-- ★ the canonical form is a fixed point of the regenerated `Canonical` and compares equal to the original. -/
theorem gen_Canonical_idem (fuel : Nat) (v : Bytes) (hf : 2 * v.length + 8 ≤ fuel) :
    ∃ c, Generated.Semver.Canonical fuel v = .ok c ∧ Generated.Semver.Canonical fuel c = .ok c ∧
      Generated.Semver.Compare fuel v c = .ok 0 := by
  have hl := canonical_len v
  obtain ⟨e1, e2⟩ := Props.C04.canonical_idem v
  refine ⟨canonical v, Canonical_tie v fuel (by omega), ?_, ?_⟩
  · rw [Canonical_tie _ fuel (by omega), e1]
  · rw [Compare_tie _ _ fuel (by omega), e2]

/-! ### Max -/

theorem compare_canonical_canonical (v w : Bytes) :
    Semver.compare (canonical v) (canonical w) = Semver.compare v w := by
  rw [Props.C04.compare_eq_key, Props.C04.compare_eq_key v w]
  have hv := (Props.C04.compare_eq_zero_iff_key _ _).1 (Props.C04.canonical_idem v).2
  have hw := (Props.C04.compare_eq_zero_iff_key _ _).1 (Props.C04.canonical_idem w).2
  rw [← hv, ← hw]

/-- ★ the regenerated `Max` returns the canonical form of the argument that the regenerated `Compare` ranks higher
    (of the second one when they compare equal). -/
theorem gen_Max_spec (fuel : Nat) (v w : Bytes) (hf : 2 * max v.length w.length + 8 ≤ fuel) :
    ∃ (cv cw : Bytes) (c : Int), Generated.Semver.Canonical fuel v = .ok cv ∧
      Generated.Semver.Canonical fuel w = .ok cw ∧ Generated.Semver.Compare fuel v w = .ok c ∧
      Generated.Semver.Max fuel v w = .ok (if c > 0 then cv else cw) := by
  refine ⟨canonical v, canonical w, Semver.compare v w, Canonical_tie v fuel (by omega), Canonical_tie w fuel (by omega),
    Compare_tie v w fuel (by omega), ?_⟩
  rw [Max_tie v w fuel hf]
  simp only [Semver.max, compare_canonical_canonical]

/-- ★ … and it is an upper bound of both arguments in the order of the regenerated `Compare`. -/
theorem gen_Max_upper (fuel : Nat) (v w : Bytes) (hf : 2 * max v.length w.length + 8 ≤ fuel) :
    ∃ (m : Bytes) (a b : Int), Generated.Semver.Max fuel v w = .ok m ∧
      Generated.Semver.Compare fuel v m = .ok a ∧ a ≤ 0 ∧ Generated.Semver.Compare fuel w m = .ok b ∧ b ≤ 0 := by
  have hlv := canonical_len v
  have hlw := canonical_len w
  have hml : (Semver.max v w).length ≤ max v.length w.length + 4 := by
    simp only [Semver.max]; split <;> omega
  refine ⟨Semver.max v w, Semver.compare v (Semver.max v w), Semver.compare w (Semver.max v w), Max_tie v w fuel hf,
    Compare_tie _ _ fuel (by omega), ?_, Compare_tie _ _ fuel (by omega), ?_⟩
  · simp only [Semver.max, compare_canonical_canonical]
    split
    · rw [(Props.C04.canonical_idem v).2]; omega
    · have h1 := (Props.C04.canonical_idem w).2
      rename_i hc
      rcases Props.C04.compare_range v w with h | h | h
      · rw [Props.C04.compare_trans_lt_le v w (canonical w) h (by omega)]; omega
      · exact Props.C04.compare_trans_le v w (canonical w) (by omega) (by omega)
      · omega
  · simp only [Semver.max, compare_canonical_canonical]
    split
    · rename_i hc
      have h1 := (Props.C04.canonical_idem v).2
      have h2 := Props.C04.compare_antisymm w v
      exact Props.C04.compare_trans_le w v (canonical v) (by omega) (by omega)
    · rw [(Props.C04.canonical_idem w).2]; omega

/-! ### non-vacuity -/

-- "v1.2.3-rc.1+b7" is in the grammar, "v1.02" is not
example : Valid (B "v1.2.3-rc.1+b7") ∧ ¬ Valid (B "v1.02") :=
  ⟨(Props.C04.isValid_iff _).1 (by decide +kernel),
   fun h => absurd ((Props.C04.isValid_iff _).2 h) (by decide +kernel)⟩

example : Generated.Semver.IsValid 40 (B "v1.2.3-rc.1+b7") = .ok true ∧
    Generated.Semver.IsValid 40 (B "v1.02") = .ok false := by decide +kernel

/-- `gen_IsValid_iff` / `gen_IsValid_false_iff` used in both directions -/
example : Generated.Semver.IsValid 40 (B "v1.2.3-rc.1+b7") = .ok true :=
  (gen_IsValid_iff 40 _ (by decide +kernel)).2 ((Props.C04.isValid_iff _).1 (by decide +kernel))

/-- `gen_parse_iff_decomp`: the decomposition of "v1.2" -/
example : Generated.Semver.parse 8 (B "v1.2") =
    .ok (ofParsed { major := [49], minor := [50], patch := [48], short := B ".0" }, true) ∧
    Decomp (118 :: [49] ++ 46 :: [50]) { major := [49], minor := [50], patch := [48], short := B ".0" } :=
  ⟨by decide +kernel,
   Decomp.short2 [49] [50] ⟨by simp, by decide, by simp⟩ ⟨by simp, by decide, by simp⟩⟩

/-- the preorder laws on concrete versions: "v1.2.3-rc.1" < "v1.2.3" < "v1.10", "v1" = "v1.0.0", invalid < valid -/
example :
    Generated.Semver.Compare 30 (B "v1.2.3-rc.1") (B "v1.2.3") = .ok (-1) ∧
    Generated.Semver.Compare 30 (B "v1.2.3") (B "v1.10") = .ok (-1) ∧
    Generated.Semver.Compare 30 (B "v1.2.3-rc.1") (B "v1.10") = .ok (-1) ∧
    Generated.Semver.Compare 30 (B "v1.10") (B "v1.2.3") = .ok 1 ∧
    Generated.Semver.Compare 30 (B "v1") (B "v1.0.0") = .ok 0 ∧
    Generated.Semver.Canonical 30 (B "v1") = Generated.Semver.Canonical 30 (B "v1.0.0") ∧
    Generated.Semver.Compare 30 (B "1.0.0") (B "v0.0.0-0") = .ok (-1) ∧
    Generated.Semver.Compare 30 (B "1.0.0") (B "vx") = .ok 0 := by decide +kernel

/-- `gen_Compare_trans_lt` applied -/
example : Generated.Semver.Compare 30 (B "v1.2.3-rc.1") (B "v1.10") = .ok (-1) :=
  gen_Compare_trans_lt 30 (B "v1.2.3-rc.1") (B "v1.2.3") (B "v1.10") (by decide +kernel) (by decide +kernel)
    (by decide +kernel) (by decide +kernel) (by decide +kernel)

/-- `gen_Compare_eq_key` on a concrete pair: both sides evaluate to -1 -/
example : Generated.Semver.Compare 30 (B "v1.2.3-1") (B "v1.2.3-a") = .ok (-1) ∧
    optLowCmp keyCmp (vkey (B "v1.2.3-1")) (vkey (B "v1.2.3-a")) = -1 := by decide +kernel

/-- numeric comparison beyond 64 bits: 2^64 against 2^64 - 1 as major numbers -/
example : Num (B "18446744073709551616") ∧ Num (B "18446744073709551615") ∧
    Generated.Semver.compareInt (B "18446744073709551616") (B "18446744073709551615") = 1 ∧
    natCmp (decVal (B "18446744073709551616")) (decVal (B "18446744073709551615")) = 1 ∧
    Generated.Semver.Compare 50 (118 :: B "18446744073709551616") (118 :: B "18446744073709551615") = .ok 1 := by
  refine ⟨⟨by decide +kernel, by decide +kernel, by decide +kernel⟩,
    ⟨by decide +kernel, by decide +kernel, by decide +kernel⟩, by decide +kernel, by decide +kernel, by decide +kernel⟩

/-- `gen_Compare_release_numeric`: "v1.9.0" < "v1.10.0" -/
example : Generated.Semver.Compare 16 (118 :: [49] ++ 46 :: [57] ++ 46 :: [48]) (118 :: [49] ++ 46 :: [49, 48] ++ 46 :: [48])
    = .ok (-1) := by
  have n1 : Num [49] := ⟨by simp, by decide, by simp⟩
  have n9 : Num [57] := ⟨by simp, by decide, by simp⟩
  have n10 : Num [49, 48] := ⟨by simp, by decide, by simp⟩
  rw [gen_Compare_release_numeric 16 [49] [57] [48] [49] [49, 48] [48] n1 n9 num_zero n1 n10 num_zero (by decide)]
  decide +kernel

/-- accessors on "v1.2.3-rc.1+b7" and on an invalid string; Canonical of the shortened forms -/
example :
    Generated.Semver.Canonical 40 (B "v1.2.3-rc.1+b7") = .ok (B "v1.2.3-rc.1") ∧
    Generated.Semver.Major 40 (B "v1.2.3-rc.1+b7") = .ok (B "v1") ∧
    Generated.Semver.MajorMinor 40 (B "v1.2.3-rc.1+b7") = .ok (B "v1.2") ∧
    Generated.Semver.Prerelease 40 (B "v1.2.3-rc.1+b7") = .ok (B "-rc.1") ∧
    Generated.Semver.Build 40 (B "v1.2.3-rc.1+b7") = .ok (B "+b7") ∧
    Generated.Semver.Canonical 40 (B "v1.02") = .ok [] ∧ Generated.Semver.Build 40 (B "v1.02") = .ok [] ∧
    Generated.Semver.Canonical 40 (B "v7") = .ok (B "v7.0.0") ∧
    Generated.Semver.Canonical 40 (B "v7.1") = .ok (B "v7.1.0") ∧
    Generated.Semver.Canonical 40 (B "v7.1.0") = .ok (B "v7.1.0") := by decide +kernel

/-- `gen_accessors_full` instantiated: PreOpt / BuildOpt / Num are satisfiable -/
example : Generated.Semver.Canonical 40 (118 :: [49] ++ 46 :: [50] ++ 46 :: [51] ++ (45 :: [114, 99]) ++ (43 :: [98])) =
    .ok (118 :: [49] ++ 46 :: [50] ++ 46 :: [51] ++ (45 :: [114, 99])) :=
  (gen_accessors_full 40 [49] [50] [51] (45 :: [114, 99]) (43 :: [98])
    ⟨by simp, by decide, by simp⟩ ⟨by simp, by decide, by simp⟩ ⟨by simp, by decide, by simp⟩
    (Or.inr ⟨[[114, 99]], by simp, by
      intro i hi; simp at hi; subst hi
      exact ⟨⟨by simp, by decide⟩, by decide⟩, rfl⟩)
    (Or.inr ⟨[[98]], by simp, by
      intro i hi; simp at hi; subst hi
      exact ⟨by simp, by decide⟩, rfl⟩)
    (by decide)).1

/-- Max("v1", "v1.2") = "v1.2.0"; Max("v2", "bad") = "v2.0.0"; Max of two invalid strings is "" -/
example : Generated.Semver.Max 20 (B "v1") (B "v1.2") = .ok (B "v1.2.0") ∧
    Generated.Semver.Max 20 (B "v2") (B "bad") = .ok (B "v2.0.0") ∧
    Generated.Semver.Max 20 (B "bad") (B "1.0") = .ok [] ∧
    Generated.Semver.Compare 20 (B "v1") (B "v1.2.0") = .ok (-1) ∧
    Generated.Semver.Compare 20 (B "v1.2") (B "v1.2.0") = .ok 0 := by decide +kernel

end ModVerif.Tie.FnSemverC04
