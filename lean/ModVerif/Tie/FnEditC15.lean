/-
  C15 on the REGENERATED edit operations: the property theorems `nilDeref_unreachable` and `typed_eq_tree_partial4_static`
  of Props/C15.lean, which are about the hand model's sessions, restated about the sessions of the code re-translated from
  modfile/{read,rule}.go (Generated/FnEdit.lean) as the driver `Drv.GenEdit` runs them, through the session tie
  Tie/FnEditSession.lean (`runOps_tie_valid`, `final_cleanup`, `fileM_rep`).

  * `nilDeref_unreachable_gen`: from every strictly parsed well-formed go.mod, every statically valid session of the
    regenerated operations runs to completion — NO operation fails with `Err.panic` (Go: nil `Syntax` dereference, the
    `ensureBlock` panic, the "two versions" panic) —, the regenerated final Cleanup succeeds, and the resulting heap
    represents a model file satisfying the tree invariant without the marker clause (`Edit.P.Inv`).
  * `typed_eq_tree_gen`: with settable `// indirect` markers on the starting file, after the session and the regenerated
    final Cleanup the regenerated typed lists and the regenerated syntax graph are (through `RepF`: line pointer = line id,
    typed object = model entry, `Syntax` pointer = `lineId`) a model file that satisfies what
    `typed_eq_tree_partial4_static` states: `Edit.Inv` (the typed lists are the directive-level reading of the tree) and
    `MarkersSettable`; the driver's read-back `fileM` of that heap is this model file.

  * `typed_eq_tree_work_gen`: the go.work counterpart (`typed_eq_tree_work_from_parse`, `Edit.InvW`, over `RepW`), for
    sessions with valid arguments in every state (`Edit.RunValidW`, SetUse included; `runValidW_of_all`: in particular for
    the sessions of `typed_eq_tree_work_from_parse`).  (The model has no totality theorem for go.work sessions at the time of writing (now: Tie/FnEditC15Work.lean), so there is
    no go.work `nilDeref_unreachable` to transport.)

  Hypotheses beyond those of the model theorems: fuel only — `FuelOK fuel (Edit.load f) ops` (the fuel dominates the explicit
  bound `stepFuel` of every step of the model run) and `FinalFuel` (the final Cleanup); both have sound Boolean tests
  (`fuelOKB`, `finalFuelB`), evaluated in the examples with the fuel the driver uses.  Owner: edit-session.
-/
import ModVerif.Tie.FnEditSession
import ModVerif.Tie.FnEditSessionWork
import ModVerif.Proofs.TieFnEditSessionF
import ModVerif.Props.C15
set_option linter.unusedSimpArgs false
set_option linter.unusedVariables false
namespace ModVerif.Tie.FnEditC15
open ModVerif ModVerif.GoRt ModVerif.Generated.Edit ModVerif.Tie.FnEditRep
open ModVerif.Tie.FnEditSessionA ModVerif.Tie.FnEditSessionB ModVerif.Tie.FnEditSessionC ModVerif.Tie.FnEditSessionD
open ModVerif.Tie.FnEditSessionE ModVerif.Tie.FnEditSession
open ModVerif.Modfile (parseToFile)
open ModVerif.Modfile.Edit (EFile applyMod)
open ModVerif.Drv.GenEdit (applyOp)
open ModVerif.Tie.FnEditStmtEx (zeroIds)

/-- **C15 `nilDeref_unreachable` on the regenerated operations.**  For EVERY go.mod text accepted by the strict parser with
    well-formed keys (`WellFormedKeys`, `NoBlockSuffix`: as in `Props.C15.nilDeref_unreachable`) and EVERY statically valid
    session of go.mod operations (`Edit.StaticValid false`: non-empty keys; a bulk requirement setter has distinct non-empty
    paths and comes directly after a Cleanup), the run of the REGENERATED operations on the loaded heap completes:
    every operation, on the heap on which it runs, returns normally (`.ok (some b, _)`: nil or a documented Go `error`) — it
    never fails with `Err.panic` —; the per-operation results are the model's; the regenerated final `File.Cleanup`
    succeeds; and the final heap represents a model file satisfying `Edit.P.Inv`. -/
theorem nilDeref_unreachable_gen (name data : Bytes) (f : Modfile.File) (ops : List EditSpec.Op) (fuel : Nat)
    (hf : parseToFile name data none true = .ok f) (hk : Modfile.Edit.WellFormedKeys f) (hs : Modfile.Edit.NoBlockSuffix f.syn)
    (hv : Modfile.Edit.StaticValid false (ops.map opM)) (hmod : ∀ op ∈ ops.map opM, Modfile.Edit.IsModOp op)
    (hfu : FuelOK fuel (Modfile.Edit.load f) ops) (hfin : FinalFuel fuel (Modfile.Edit.load f) ops) :
    ∃ h' res, Drv.GenEdit.runOps fuel (Drv.GenEdit.load f).2 (Drv.GenEdit.load f).1 ops [] = .done h' res ∧
      (∀ (pre : List EditSpec.Op) (op : EditSpec.Op) (post : List EditSpec.Op), ops = pre ++ op :: post →
        ∃ h1 r1, Drv.GenEdit.runOps fuel (Drv.GenEdit.load f).2 (Drv.GenEdit.load f).1 pre [] = .done h1 r1 ∧
          applyOp fuel (Drv.GenEdit.load f).2 h1 op ≠ .error .panic ∧
          ∃ b h2, applyOp fuel (Drv.GenEdit.load f).2 h1 op = .ok (some b, h2)) ∧
      (∃ e', Modfile.Edit.runOps applyMod (Modfile.Edit.load f) (ops.map opM) [] 0 = .done e' res) ∧
      ∃ h'' e'', File_Cleanup fuel (Drv.GenEdit.load f).2 h' = .ok ((), h'') ∧ RepF h'' (Drv.GenEdit.load f).2 e'' ∧
        Modfile.Edit.P.Inv e'' := by
  have R := FnEditTree.load_parsed_rep (name := name) (data := data) hf
  have hi := Modfile.Edit.P.Inv.ofFull (Modfile.Edit.parseStrict_inv hf hk hs)
  have hl := Modfile.Edit.StaticValid.runValidLive _ false (Modfile.Edit.load f) hv (fun hc => by cases hc)
  obtain ⟨e', res, h', hrun, hgen, R', hi'⟩ := runOps_tie_valid fuel _ ops _ _ R hi hl hmod hfu
  obtain ⟨h'', hc, R'', _⟩ := final_cleanup R' fuel (hfin e' res hrun)
  refine ⟨h', res, hgen, ?_, ⟨e', hrun⟩, h'', _, hc, R'', Modfile.Edit.P.cleanup_inv e' hi'⟩
  intro pre op post hsplit
  obtain ⟨h1, r1, e1, b, h2, e2⟩ := FnEditSessionF.genDone_steps fuel _ ops _ [] h' res hgen pre op post hsplit
  refine ⟨h1, r1, e1, ?_, b, h2, e2⟩
  rw [e2]
  intro hc
  cases hc

/-- **C15 `typed_eq_tree` (partial 4, static form) on the regenerated operations.**  Hypotheses of
    `Props.C15.typed_eq_tree_partial4_static` (strict parse, well-formed keys, no block suffix comment, settable markers,
    statically valid session) plus fuel.  If the regenerated run completes with results `res` in the heap `h'`, then the
    regenerated final Cleanup succeeds, and the heap `h''` it returns represents a model file `e''` — its typed object lists
    are `e''`'s typed lists, `Syntax` pointers = `lineId`s, its syntax graph is `e''`'s tree — for which the typed lists are
    the directive-level reading of the tree (`Edit.Inv e''`) and the markers are settable again; `e''` is the state the
    MODEL session ends in (same results), and the driver's read-back of `h''` is `e''.f` (typed `lineId`s not read back). -/
theorem typed_eq_tree_gen (name data : Bytes) (f : Modfile.File) (ops : List EditSpec.Op) (fuel : Nat) (h' : Heap) (res : List Bool)
    (hf : parseToFile name data none true = .ok f) (hk : Modfile.Edit.WellFormedKeys f) (hs : Modfile.Edit.NoBlockSuffix f.syn)
    (hm : Modfile.Edit.MarkersSettable f.syn.stmts) (hv : Modfile.Edit.StaticValid false (ops.map opM))
    (hfu : FuelOK fuel (Modfile.Edit.load f) ops) (hfin : FinalFuel fuel (Modfile.Edit.load f) ops)
    (hrun : Drv.GenEdit.runOps fuel (Drv.GenEdit.load f).2 (Drv.GenEdit.load f).1 ops [] = .done h' res) :
    ∃ h'' e' e'', Modfile.Edit.runOps applyMod (Modfile.Edit.load f) (ops.map opM) [] 0 = .done e' res ∧
      e'' = Modfile.Edit.cleanup e' ∧
      File_Cleanup fuel (Drv.GenEdit.load f).2 h' = .ok ((), h'') ∧ RepF h'' (Drv.GenEdit.load f).2 e'' ∧
      Modfile.Edit.Inv e'' ∧ Modfile.Edit.MarkersSettable e''.f.syn.stmts ∧
      Drv.GenEdit.fileM h'' (Drv.GenEdit.load f).2 = some (zeroIds e''.f) := by
  have R := FnEditTree.load_parsed_rep (name := name) (data := data) hf
  have hi := Modfile.Edit.P.Inv.ofFull (Modfile.Edit.parseStrict_inv hf hk hs)
  have hl := Modfile.Edit.StaticValid.runValidLive _ false (Modfile.Edit.load f) hv (fun hc => by cases hc)
  have T := runOps_tie fuel _ ops _ _ R (runOK_of_valid fuel ops _ hi hl hfu)
  cases hx : Modfile.Edit.runOps applyMod (Modfile.Edit.load f) (ops.map opM) [] 0 with
  | badOp => rw [hx] at T; rw [hrun] at T; cases T
  | panic j => rw [hx] at T; obtain ⟨op, _, h2⟩ := T; rw [hrun] at h2; cases h2
  | done e' res' =>
    rw [hx] at T
    obtain ⟨h1, h2, R'⟩ := T
    rw [hrun] at h2
    cases h2
    obtain ⟨h'', hc, R'', hrd⟩ := final_cleanup R' fuel (hfin e' res hx)
    obtain ⟨i1, i2⟩ := Props.C15.typed_eq_tree_partial4_static name data f (ops.map opM) e' res hf hk hs hm hv hx
    exact ⟨h'', e', _, rfl, rfl, hc, R'', i1, i2, hrd⟩

/-! ### non-vacuity: the example session of Tie/FnEditSession.lean (both bulk setters, AddTool, a returned error) -/

section examples

theorem ex_parsed : ∃ f, parseToFile (B "go.mod") exFile none true = .ok f := by
  cases hp : parseToFile (B "go.mod") exFile none true with
  | error err =>
    have : (parseToFile (B "go.mod") exFile none true).toOption.isSome = true := by decide +kernel
    rw [hp] at this; cases this
  | ok f => exact ⟨f, rfl⟩

theorem ex_markers : ∀ f, Modfile.parseStrict (B "go.mod") exFile none = .ok f → Modfile.Edit.MarkersSettable f.syn.stmts :=
  of_parsed exFile (fun f => decide (Modfile.Edit.MarkersSettable f.syn.stmts)) (fun f h => of_decide_eq_true h)
    (by decide +kernel)

-- `nilDeref_unreachable_gen` with the fuel the driver uses: all hypotheses hold of the example
example : ∃ f, parseToFile (B "go.mod") exFile none true = .ok f ∧
    ∃ h' res, Drv.GenEdit.runOps (driverFuel exFile exOps) (Drv.GenEdit.load f).2 (Drv.GenEdit.load f).1 exOps [] = .done h' res ∧
      ∃ h'' e'', File_Cleanup (driverFuel exFile exOps) (Drv.GenEdit.load f).2 h' = .ok ((), h'') ∧
        RepF h'' (Drv.GenEdit.load f).2 e'' ∧ Modfile.Edit.P.Inv e'' := by
  obtain ⟨f, hf⟩ := ex_parsed
  obtain ⟨h', res, h1, _, _, h4⟩ := nilDeref_unreachable_gen (B "go.mod") exFile f exOps (driverFuel exFile exOps) hf
    (ex_keys f hf).1 (ex_keys f hf).2 ex_static (isModOpB_sound (by decide +kernel)) (ex_fuel f hf).1 (ex_fuel f hf).2
  exact ⟨f, hf, h', res, h1, h4⟩

-- `typed_eq_tree_gen`: its hypotheses hold of the example (the run completes by the previous theorem)
example : ∃ f, parseToFile (B "go.mod") exFile none true = .ok f ∧
    ∃ h'' e'', RepF h'' (Drv.GenEdit.load f).2 e'' ∧ Modfile.Edit.Inv e'' ∧ Modfile.Edit.MarkersSettable e''.f.syn.stmts ∧
      Drv.GenEdit.fileM h'' (Drv.GenEdit.load f).2 = some (zeroIds e''.f) := by
  obtain ⟨f, hf⟩ := ex_parsed
  obtain ⟨h', res, h1, _⟩ := nilDeref_unreachable_gen (B "go.mod") exFile f exOps (driverFuel exFile exOps) hf
    (ex_keys f hf).1 (ex_keys f hf).2 ex_static (isModOpB_sound (by decide +kernel)) (ex_fuel f hf).1 (ex_fuel f hf).2
  obtain ⟨h'', e', e'', _, _, _, R, i1, i2, rd⟩ := typed_eq_tree_gen (B "go.mod") exFile f exOps (driverFuel exFile exOps) h' res hf
    (ex_keys f hf).1 (ex_keys f hf).2 (ex_markers f hf) ex_static (ex_fuel f hf).1 (ex_fuel f hf).2 h1
  exact ⟨f, hf, h'', e'', R, i1, i2, rd⟩

-- the regenerated session, kernel-evaluated: it completes, and the file read back after the regenerated Cleanup satisfies the
-- executable form of the invariant (`Edit.invB`, Props.C15.inv_checkable) once the model's line ids are put back — here
-- checked on the model side of the equality `genSession = modelSession` (Tie/FnEditSession.lean)
example : (match Modfile.parseStrict (B "go.mod") exFile none with
    | .ok f =>
      match Modfile.Edit.runOps applyMod (Modfile.Edit.load f) (exOps.map opM) [] 0 with
      | .done e _ => Modfile.Edit.invB (Modfile.Edit.cleanup e)
      | _ => false
    | .error _ => false) = true := by decide +kernel

end examples

/-! ### go.work -/

section work
open ModVerif.Tie.FnEditSessionW ModVerif.Tie.FnEditSessionWork
open ModVerif.Modfile.Edit (applyWork)
open ModVerif.Tie.FnEditWorkEx (strip)

/-- valid arguments in the sense of `typed_eq_tree_work_from_parse` are valid in every state -/
theorem runValidW_of_all : ∀ (ops : List Modfile.Edit.Op) (e : Modfile.Edit.EWork), (∀ op ∈ ops, Modfile.Edit.ValidArgsW op) →
    Modfile.Edit.RunValidW e ops
  | [], _, _ => trivial
  | op :: ops, e, hv => by
    have h1 : Modfile.Edit.ValidArgsWAll e op := by
      have := hv op List.mem_cons_self
      cases op <;> first | exact this | exact this.elim
    exact ⟨h1, fun e' _ => runValidW_of_all ops e' fun o ho => hv o (List.mem_cons_of_mem _ ho),
      fun _ _ _ => runValidW_of_all ops e fun o ho => hv o (List.mem_cons_of_mem _ ho)⟩

/-- **C15 `typed_eq_tree`, go.work, on the regenerated operations.**  From the parse of any go.work text with non-empty keys
    (`WorkKeys`, `NoBlockSuffix`: as `Props.C15.typed_eq_tree_work_from_parse`), for a session whose operations have valid
    arguments in the state in which they run (`Edit.RunValidW`), with enough fuel: if the regenerated run completes with
    results `res` in the heap `h'`, the regenerated final `WorkFile.Cleanup` succeeds and the heap it returns represents the
    state `e''` the model session ends in (same results), for which the typed lists are the directive-level reading of the
    tree (`Edit.InvW e''`); the driver's read-back of that heap is `e''.f`. -/
theorem typed_eq_tree_work_gen (name data : Bytes) (f : Modfile.WorkFile) (ops : List EditSpec.Op) (fuel : Nat) (h' : Heap)
    (res : List Bool) (hf : Modfile.parseWork name data none = .ok f) (hk : Modfile.Edit.WorkKeys f)
    (hs : Modfile.Edit.NoBlockSuffix f.syn) (hv : Modfile.Edit.RunValidW (Modfile.Edit.loadWork f) (ops.map opM))
    (hfu : FuelOKW fuel (Modfile.Edit.loadWork f) ops) (hfin : FinalFuelW fuel (Modfile.Edit.loadWork f) ops)
    (hrun : Drv.GenEdit.runWorkOps fuel (Drv.GenEdit.loadWork f).2 (Drv.GenEdit.loadWork f).1 ops [] = .done h' res) :
    ∃ h'' e' e'', Modfile.Edit.runOps applyWork (Modfile.Edit.loadWork f) (ops.map opM) [] 0 = .done e' res ∧
      e'' = Modfile.Edit.workCleanup e' ∧
      WorkFile_Cleanup fuel (Drv.GenEdit.loadWork f).2 h' = .ok ((), h'') ∧ RepW h'' (Drv.GenEdit.loadWork f).2 e'' ∧
      Modfile.Edit.InvW e'' ∧ Drv.GenEdit.workM h'' (Drv.GenEdit.loadWork f).2 = some (strip e''.f) := by
  have R := FnEditTree.loadWork_parsed_rep (name := name) (data := data) hf
  have hi := Modfile.Edit.parseWork_invW hf hk hs
  have T := runWorkOps_tie_valid fuel _ ops _ _ R hi hv hfu
  cases hx : Modfile.Edit.runOps applyWork (Modfile.Edit.loadWork f) (ops.map opM) [] 0 with
  | badOp => rw [hx] at T; rw [hrun] at T; cases T
  | panic j => rw [hx] at T; obtain ⟨op, _, h2⟩ := T; rw [hrun] at h2; cases h2
  | done e' res' =>
    rw [hx] at T
    obtain ⟨h1, h2, R', hi'⟩ := T
    rw [hrun] at h2
    cases h2
    obtain ⟨h'', hc, R'', hrd⟩ := final_cleanupW R' fuel (hfin e' res hx)
    exact ⟨h'', e', _, rfl, rfl, hc, R'', Modfile.Edit.workCleanup_inv e' hi', hrd⟩

-- non-vacuity: the example session of Tie/FnEditSessionWork.lean (SetUse after a Cleanup, a returned error): the hypotheses
-- hold with the driver's fuel, and the regenerated run completes (kernel-evaluated)
example : ∃ f, Modfile.parseWork (B "go.work") exWork none = .ok f ∧
    ∃ h' res h'' e'', Drv.GenEdit.runWorkOps (driverFuel exWork exWorkOps) (Drv.GenEdit.loadWork f).2 (Drv.GenEdit.loadWork f).1 exWorkOps [] =
        .done h' res ∧
      WorkFile_Cleanup (driverFuel exWork exWorkOps) (Drv.GenEdit.loadWork f).2 h' = .ok ((), h'') ∧
      RepW h'' (Drv.GenEdit.loadWork f).2 e'' ∧ Modfile.Edit.InvW e'' := by
  cases hp : Modfile.parseWork (B "go.work") exWork none with
  | error err =>
    have : (Modfile.parseWork (B "go.work") exWork none).toOption.isSome = true := by decide +kernel
    rw [hp] at this; cases this
  | ok f =>
    have hkeys := of_parsedW exWork (fun f => Modfile.Edit.workStartOKb f && FnEditSessionE.noBlockSuffixB f.syn)
      (P := fun f => Modfile.Edit.WorkKeys f ∧ Modfile.Edit.NoBlockSuffix f.syn)
      (fun f h => by
        simp only [Bool.and_eq_true] at h
        have s := Modfile.Edit.workStartOKb_sound f h.1
        exact ⟨⟨s.godebug, s.use, s.replace⟩, FnEditSessionE.noBlockSuffixB_sound h.2⟩)
      (by decide +kernel) f hp
    have hval := of_parsedW exWork (fun f => Modfile.Edit.runValidWB (Modfile.Edit.loadWork f) (exWorkOps.map opM))
      (fun f h => Modfile.Edit.runValidWB_sound _ _ h) (by decide +kernel) f hp
    have hfuel := of_parsedW exWork (fun f => fuelOKWB (driverFuel exWork exWorkOps) (Modfile.Edit.loadWork f) exWorkOps &&
        finalFuelWB (driverFuel exWork exWorkOps) (Modfile.Edit.loadWork f) exWorkOps)
      (P := fun f => FuelOKW (driverFuel exWork exWorkOps) (Modfile.Edit.loadWork f) exWorkOps ∧
        FinalFuelW (driverFuel exWork exWorkOps) (Modfile.Edit.loadWork f) exWorkOps)
      (fun f h => by
        simp only [Bool.and_eq_true] at h
        exact ⟨fuelOKWB_sound _ _ _ h.1, finalFuelWB_sound h.2⟩)
      (by decide +kernel) f hp
    have hdone := of_parsedW exWork (fun f =>
        match Drv.GenEdit.runWorkOps (driverFuel exWork exWorkOps) (Drv.GenEdit.loadWork f).2 (Drv.GenEdit.loadWork f).1 exWorkOps [] with
        | .done _ _ => true
        | _ => false)
      (P := fun f => ∃ h' res, Drv.GenEdit.runWorkOps (driverFuel exWork exWorkOps) (Drv.GenEdit.loadWork f).2
        (Drv.GenEdit.loadWork f).1 exWorkOps [] = .done h' res)
      (fun f h => by
        cases hr : Drv.GenEdit.runWorkOps (driverFuel exWork exWorkOps) (Drv.GenEdit.loadWork f).2 (Drv.GenEdit.loadWork f).1 exWorkOps [] with
        | done h' res => exact ⟨h', res, rfl⟩
        | panic n => rw [hr] at h; cases h
        | badOp => rw [hr] at h; cases h)
      (by decide +kernel) f hp
    obtain ⟨h', res, hrun⟩ := hdone
    obtain ⟨h'', e', e'', _, _, hc, R, hi, _⟩ := typed_eq_tree_work_gen (B "go.work") exWork f exWorkOps _ h' res hp hkeys.1 hkeys.2
      hval hfuel.1 hfuel.2 hrun
    exact ⟨f, rfl, h', res, h'', e'', hrun, hc, R, hi⟩

end work

end ModVerif.Tie.FnEditC15
