/-
  Tie: the COMMENT ASSIGNMENT of the go.mod parser regenerated from modfile/read.go on every check
  (Generated/FnParse.lean, namespace ModVerif.Generated.Parse: Position.add, the six Span methods, reverseComments,
  input.order, input.assignComments with its six loops) computes what the hand model (Model/Modfile/Comments.lean:
  `assignComments`, two walks over a VALUE tree) says, on every well-formed pointer graph.

  The generated code works on a HEAP (`Parse.Heap`: one list of objects per node type; a pointer is a 1-based position;
  `&x.LParen` / `&x.RParen` are the owning block's pointer; the interface `Expr` is a sum of pointers; `x.Comment()` is
  read / written by `Expr_getComments` / `Expr_setComments`).  The relation between a heap graph and a model tree is
  `RFile h p t` of Proofs/TieFnParseHeap.lean (the object at a pointer is the embedding of the model node; a line's
  pointer is its `id + 1`); it implies `fileOf h p = some t` for the read-back function of the driver
  (Drv/GenParse.lean).  `WF h p` says that the graph is allocated and that no pointer occurs twice in it — the
  assignment writes through pointers, so on a graph with sharing the pointer code and the value-tree model differ.

  * `Position_add_tie`, `*_Span_tie`: the spans of reified nodes are the model's `Expr.span` / `FileSyntax.span`;
  * `reverseComments_tie`: the in-place swap loop is `List.reverse`;
  * `order_tie`: `in.order(in.file)` appends to `in.pre` / `in.post` the preorder / postorder node lists
    (`prePtrs` / `postPtrs`, read off the heap); `order_tie_model`: on a reified graph these are the lists of the nodes
    of the model tree in the order of the model's walks (`stmtsNodes .pre` / `.post`, Proofs/TieFnParseCommentsD.lean);
  * `assignComments_tie`: on the graph that reifies to `t`, with `in.comments` the recorded comments `cs`,
    `input_assignComments` succeeds and the resulting heap reifies to `Modfile.assignComments t cs`.

  Hypotheses of `assignComments_tie` beyond reification, well-formedness and fuel: `in.pre`, `in.post` empty (as parse
  leaves them), the FILE node has at most one suffix comment (Go's last loop also reverses `in.file.Suffix`, the model
  does not; the parser leaves it empty), and a bound `m` on the suffix comments already present at a node (the
  reversal runs on fuel); for a parsed tree m = 0.

  Helper lemmas: Proofs/TieFnParseHeap.lean (shared), Proofs/TieFnParseComments{A..I}.lean.
-/
import ModVerif.Generated.FnParse
import ModVerif.Model.Modfile.Comments
import ModVerif.Drv.LexOps
import ModVerif.Proofs.GoRtLemmasLex
import ModVerif.Proofs.TieFnParseCommentsI
import ModVerif.Proofs.TieFnParseCommentsEx
namespace ModVerif.Tie.FnParseComments
open ModVerif ModVerif.GoRt ModVerif.Generated ModVerif.Generated.Parse ModVerif.Tie.FnParseHeap
open ModVerif.TieFnParseComments ModVerif.TieFnParseComments.Ex ModVerif.GoRtLex

/-! ### Position.add, Span -/

/-- `p.add(")")` — the only use of `Position.add` in the package: one byte, one rune, no newline -/
theorem Position_add_tie (p : Modfile.Position) : Position_add (posG p) [41] = .ok (posG p.add1) :=
  Position_add_rparen p

theorem CommentBlock_Span_tie {h : Heap} {p : Int} {c : Modfile.CommentBlock} (hg : heapGet h.cbs p = .ok (cbG c)) :
    CommentBlock_Span p h = .ok (spanG (Modfile.Expr.commentBlock c).span, h) := by
  simp [CommentBlock_Span, hg, cbG, spanG, Modfile.Expr.span]

theorem Line_Span_tie {h : Heap} {p : Int} {l : Modfile.Line} (hr : RLine h p l) :
    Line_Span p h = .ok (spanG (Modfile.Expr.line l).span, h) := by
  simp [Line_Span, hr.1, lineG, spanG, Modfile.Expr.span]

theorem LineBlock_Span_tie {h : Heap} {p : Int} {b : Modfile.LineBlock} {ps : List Int}
    (hg : heapGet h.blocks p = .ok (blockG b ps)) :
    LineBlock_Span p h = .ok (spanG (Modfile.Expr.lineBlock b).span, h) := by
  simp [LineBlock_Span, hg, blockG, rparenG, Position_add_rparen, spanG, Modfile.Expr.span]

/-- the translation of `&x.LParen`: the block's pointer -/
theorem LParen_Span_tie {h : Heap} {p : Int} {b : Modfile.LineBlock} {ps : List Int}
    (hg : heapGet h.blocks p = .ok (blockG b ps)) :
    LParen_Span p h = .ok (spanG (Modfile.Expr.lparen b.lparen).span, h) := by
  simp [LParen_Span, hg, blockG, lparenG, Position_add_rparen, spanG, Modfile.Expr.span]

theorem RParen_Span_tie {h : Heap} {p : Int} {b : Modfile.LineBlock} {ps : List Int}
    (hg : heapGet h.blocks p = .ok (blockG b ps)) :
    RParen_Span p h = .ok (spanG (Modfile.Expr.rparen b.rparen).span, h) := by
  simp [RParen_Span, hg, blockG, rparenG, Position_add_rparen, spanG, Modfile.Expr.span]

/-- `FileSyntax.Span`: start of the first statement, end of the last; interface dispatch on the statement kinds -/
theorem FileSyntax_Span_tie {h : Heap} {p : Int} {t : Modfile.FileSyntax} (hr : RFile h p t) (fuel : Nat)
    (hf : 1 ≤ fuel) : FileSyntax_Span fuel p h = .ok (spanG t.span, h) := by
  obtain ⟨f, rfl⟩ : ∃ f, fuel = f + 1 := ⟨fuel - 1, by omega⟩
  exact FileSyntax_Span_eq hr f

-- on the example graph (Proofs/TieFnParseCommentsEx.lean): the `require ( … )` block spans 4:1 – 9:2, its parentheses
-- one column each, the second block line 8:2 – 8:6, the file from the first statement (2:1) to the end of the block
example : Position_add { Line := 9, LineRune := 1, Byte := 54 } [41] = .ok { Line := 9, LineRune := 2, Byte := 55 } ∧
    ({ line := 9, lineRune := 1, byte := 54 } : Modfile.Position).add1 = { line := 9, lineRune := 2, byte := 55 } := by
  decide +kernel
set_option maxRecDepth 100000 in
example : (LineBlock_Span 1 exHeap).map (·.1) =
      .ok ({ Line := 4, LineRune := 1, Byte := 20 }, { Line := 9, LineRune := 2, Byte := 55 }) ∧
    (LParen_Span 1 exHeap).map (·.1) =
      .ok ({ Line := 4, LineRune := 9, Byte := 28 }, { Line := 4, LineRune := 10, Byte := 29 }) ∧
    (RParen_Span 1 exHeap).map (·.1) =
      .ok ({ Line := 9, LineRune := 1, Byte := 54 }, { Line := 9, LineRune := 2, Byte := 55 }) ∧
    (Line_Span 3 exHeap).map (·.1) =
      .ok ({ Line := 8, LineRune := 2, Byte := 49 }, { Line := 8, LineRune := 6, Byte := 53 }) ∧
    (FileSyntax_Span 2 1 exHeap).map (·.1) =
      .ok ({ Line := 2, LineRune := 1, Byte := 5 }, { Line := 9, LineRune := 2, Byte := 55 }) ∧
    spanG exTree.span = ({ Line := 2, LineRune := 1, Byte := 5 }, { Line := 9, LineRune := 2, Byte := 55 }) := by
  decide +kernel
-- a comment block that is still a statement: "// x\n\nmodule m\n" is not needed here; the span of a comment block object
example : (CommentBlock_Span 1 { (default : Heap) with cbs := [{ (default : CommentBlock) with Start := { Line := 3, LineRune := 1, Byte := 7 } }] }).map (·.1) =
    .ok ({ Line := 3, LineRune := 1, Byte := 7 }, { Line := 3, LineRune := 1, Byte := 7 }) := by decide +kernel
-- the dispatch panics on a nil interface value, as `x.Span()` does in Go
example : Expr_Span 1 .nil exHeap = .error .panic := rfl

/-! ### reverseComments -/

theorem reverseComments_tie (l : List Comment) (fuel : Nat) (hf : l.length + 1 ≤ fuel) :
    reverseComments fuel l = .ok ((), l.reverse) :=
  reverseComments_eq fuel l hf

example : reverseComments 4 [{ (default : Comment) with Token := [1] }, { (default : Comment) with Token := [2] },
      { (default : Comment) with Token := [3] }] =
    .ok ((), [{ (default : Comment) with Token := [3] }, { (default : Comment) with Token := [2] },
      { (default : Comment) with Token := [1] }]) := by decide +kernel
-- without the fuel of the hypothesis the loop does run out
example : reverseComments 1 [{ (default : Comment) with Token := [1] }, { (default : Comment) with Token := [2] }] =
    .error .fuel := by decide +kernel

/-! ### order -/

/-- `in.order(in.file)` on a well-formed graph: the world is untouched, `pre` / `post` get the preorder / postorder
    node lists of the graph -/
theorem order_tie {h : Heap} {p : Int} (hwf : WF h p) (in_ : input) (fuel : Nat) :
    ∃ f, heapGet h.files p = .ok f ∧
      ((prePtrs h p f.Stmt).length + 2 ≤ fuel →
        input_order fuel in_ (.FileSyntax p) h =
          .ok (((), { in_ with pre := in_.pre ++ prePtrs h p f.Stmt, post := in_.post ++ postPtrs h p f.Stmt }), h)) := by
  obtain ⟨f, hf, hok, _⟩ := hwf.file
  exact ⟨f, hf, fun hfuel => order_file fuel in_ p h hf (fun e he => OrderOK_of_StmtOK (hok e he)) hfuel⟩

/-- on a reified graph these are the nodes of the model tree, in the orders of the model's two walks: preorder
    `file, stmt, (, lines, )` and postorder `(, lines, ), stmt, …, file` -/
theorem order_tie_model {h : Heap} {p : Int} {t : Modfile.FileSyntax} (hr : RFile h p t) (hwf : WF h p) (in_ : input)
    (fuel : Nat) (hfuel : nodeCount t.stmts + 3 ≤ fuel) :
    ∃ es, RStmts h es t.stmts ∧
      input_order fuel in_ (.FileSyntax p) h =
        .ok (((), { in_ with pre := in_.pre ++ .FileSyntax p :: stmtsNodes .pre es t.stmts,
                             post := in_.post ++ (stmtsNodes .post es t.stmts ++ [.FileSyntax p]) }), h) := by
  obtain ⟨es, hf, hs⟩ := hr
  obtain ⟨f0, hf0, hok, _⟩ := hwf.file
  have hf0' : f0 = fileG t es := by rw [hf] at hf0; cases hf0; rfl
  subst hf0'
  refine ⟨es, hs, ?_⟩
  have hPRE : prePtrs h p es = .FileSyntax p :: stmtsNodes .pre es t.stmts := by
    simp only [prePtrs, flatMap_pre_eq hs]
  have hPOST : postPtrs h p es = stmtsNodes .post es t.stmts ++ [.FileSyntax p] := by
    simp only [postPtrs, flatMap_post_eq hs]
  have := order_file fuel in_ p h hf (fun e he => OrderOK_of_StmtOK (hok e he))
    (by show (prePtrs h p es).length + 2 ≤ fuel
        rw [hPRE]; simp only [List.length_cons, stmtsNodes_length_le hs]; omega)
  simp only [fileG] at this
  rw [hPRE, hPOST] at this
  exact this

set_option maxRecDepth 100000 in
-- the example graph: file 1 = [line 1 (`module m`), block 1 (`require ( a v1 ; b v2 )`, lines 2 and 3)]
example : (input_order 300 exIn (.FileSyntax 1) exHeap).map (fun r => (r.1.2.pre, r.1.2.post)) =
    .ok ([.FileSyntax 1, .Line 1, .LineBlock 1, .LParen 1, .Line 2, .Line 3, .RParen 1],
         [.Line 1, .LParen 1, .Line 2, .Line 3, .RParen 1, .LineBlock 1, .FileSyntax 1]) ∧
    stmtsNodes .pre [.Line 1, .LineBlock 1] exTree.stmts = [.Line 1, .LineBlock 1, .LParen 1, .Line 2, .Line 3, .RParen 1] ∧
    stmtsNodes .post [.Line 1, .LineBlock 1] exTree.stmts = [.Line 1, .LParen 1, .Line 2, .Line 3, .RParen 1, .LineBlock 1] := by
  decide +kernel
-- the hypotheses of `order_tie_model` hold of it
example : ∃ es, RStmts exHeap es exTree.stmts := by
  obtain ⟨es, h1, _⟩ := order_tie_model exR.1 exR.2 exIn 300 (by decide +kernel)
  exact ⟨es, h1⟩

/-! ### assignComments -/

/-- `in.assignComments()`: the pointer walks over `in.pre` / `in.post` compute the model's tree walks -/
theorem assignComments_tie {h : Heap} {p : Int} {t : Modfile.FileSyntax} {cs : List Modfile.Comment} {in_ : input}
    {m fuel : Nat} (hr : RFile h p t) (hwf : WF h p) (hfile : in_.file = p) (hcs : in_.comments = cs.map comG)
    (hpre : in_.pre = []) (hpost : in_.post = []) (hfs : t.comments.suffix.length ≤ 1)
    (hsuf : ∀ s ∈ t.stmts, StmtP (fun c => c.suffix.length ≤ m) s)
    (hfuel : nodeCount t.stmts + cs.length + m + 8 ≤ fuel) :
    ∃ in' h', input_assignComments fuel in_ h = .ok (((), in'), h') ∧ RFile h' p (Modfile.assignComments t cs) ∧
      in'.file = p ∧ in'.comments = in_.comments :=
  assignComments_main hr hwf hfile hcs hpre hpost hfs hsuf hfuel

/-- … and so does the driver's read-back of the resulting heap -/
theorem assignComments_tie_fileOf {h : Heap} {p : Int} {t : Modfile.FileSyntax} {cs : List Modfile.Comment}
    {in_ : input} {m fuel : Nat} (hr : RFile h p t) (hwf : WF h p) (hfile : in_.file = p)
    (hcs : in_.comments = cs.map comG) (hpre : in_.pre = []) (hpost : in_.post = [])
    (hfs : t.comments.suffix.length ≤ 1) (hsuf : ∀ s ∈ t.stmts, StmtP (fun c => c.suffix.length ≤ m) s)
    (hfuel : nodeCount t.stmts + cs.length + m + 8 ≤ fuel) :
    ∃ in' h', input_assignComments fuel in_ h = .ok (((), in'), h') ∧
      fileOf h' in'.file = some (Modfile.assignComments t cs) := by
  obtain ⟨in', h', h1, h2, h3, _⟩ := assignComments_main hr hwf hfile hcs hpre hpost hfs hsuf hfuel
  exact ⟨in', h', h1, by rw [h3]; exact h2.fileOf⟩


set_option maxRecDepth 100000 in
-- both sides evaluated on the example: the regenerated pointer code on the regenerated parser's heap, read back by the
-- driver's `fileOf`, against the hand model (`// h` goes before `module m`, `// c` after it, `// d` after `a v1`, the
-- blank line and `// w` before `b v2`, `// e` after `)`)
example : (input_assignComments 300 exIn exHeap).map (fun r => fileOf r.2 r.1.2.file) =
      .ok (some (Modfile.assignComments exTree exComments)) ∧
    Modfile.parse [] exData = .ok (Modfile.assignComments exTree exComments) ∧
    (Modfile.assignComments exTree exComments).stmts.map (fun s => s.comments.suffix.length) = [1, 0] ∧
    exComments.length = 3 := by
  decide +kernel

-- the hypotheses of `assignComments_tie` hold of the example (so the theorem applies to what the parser produces)
example : ∃ in' h', input_assignComments 300 exIn exHeap = .ok (((), in'), h') ∧
    fileOf h' in'.file = some (Modfile.assignComments exTree exComments) :=
  assignComments_tie_fileOf (m := 0) exR.1 exR.2 exI.1 exI.2.1 exI.2.2.1 exI.2.2.2 exS.1 exS.2.1 exS.2.2

end ModVerif.Tie.FnParseComments
