/-
  Tie theorems for the directory half of the dirhash unit: the regenerated `DirFiles` (with its walk closure
  `DirFiles_walkFn1`) and `HashDir` (Generated/FnDirhash.lean, re-translated from sumdb/dirhash/hash.go on every run)
  compute exactly the hand model `Dirhash.dirFiles` / `Dirhash.hashDir` (Model/Dirhash.lean).

  Reading of the parameters of the generated functions:
    * `filepath.Walk(dir, fn)` is `GoRt.walkTreeOpt fn fuel dir (walkRoot dir)` (Basic/GoRtWalk.lean, trusted-base
      vocabulary): `walkRoot p` is what the file system holds at the path `p`, as a tree VALUE.  The theorems take any
      `walkRoot` that holds, at the cleaned directory, the tree `treeOf root` of the model's `Root` exactly as the mirror
      driver builds it (Drv/GenDirhash.lean: missing / a file / the name-sorted trie `Zip.treeOfList` of the flat list);
    * `osOpenRead p` is `os.Open(p)` read to the end: `(content, nil)` or `(_, err)`;
    * `hash` is the `Hash` argument (`Hash1` in practice).

  Domain.  `WF files` (Proofs/TieFnDirhashDirOrder.lean, decidable): every listed path is a non-empty clean relative
  slash path (no empty, `.` or `..` element) and no path is an element-prefix of another (so: pairwise distinct, no file
  below a file) - what a directory tree can hold.  The directory `d` is ARBITRARY (relative, unclean, `.`) except that
  it must not clean to `/`: there `file[len(dir)+1:]` cuts the first byte of every relative path (example below), which
  the model does not describe.  Fuel: `walkFuel files + 2`, `walkFuel files = 3 * Σ (len path + 1) + 1`.

  `filepath.Join`: the model's `joinPath` / `clean` and the vocabulary's `fpJoin` / `pathClean` are different
  definitions; they are PROVED equal (`clean_tie`, `joinPath_tie`: equal unless both arguments are empty), so the
  theorems are stated with the model's `joinPath`.

  Tie theorems only; helper lemmas in Proofs/TieFnDirhashDir{Trie,Order,Path,Walk,Main,Hash}.lean.
-/
import ModVerif.Generated.FnDirhash
import ModVerif.Model.Dirhash
import ModVerif.Drv.GenDirhash
import ModVerif.Tie.FnDirhash
import ModVerif.Proofs.TieFnDirhashDirHash
namespace ModVerif.Tie.FnDirhashDir
open ModVerif ModVerif.GoRt ModVerif.TieFnDirhashDir
open ModVerif.Generated.Dirhash (FileInfo DirFiles HashDir)
open ModVerif.Drv.GenDirhash (toFs toFsList treeOf rootPath)

/-! ### path vocabulary -/

/-- the model's `filepath.Clean` is the vocabulary's (both on all byte strings) -/
theorem clean_tie (p : Bytes) : Dirhash.clean p = GoRt.pathClean p := clean_eq_pathClean p

/-- the model's `filepath.Join` is the vocabulary's unless both arguments are empty (then `""` vs `"."`; DirFiles joins
    the prefix with a non-empty relative path) -/
theorem joinPath_tie (a b : Bytes) (h : a ≠ [] ∨ b ≠ []) : Dirhash.joinPath a b = GoRt.fpJoin a b :=
  joinPath_eq_fpJoin a b h

/-- `strings.TrimPrefix` -/
theorem trimPrefix_tie (s p : Bytes) : GoRt.trimPrefix s p = Dirhash.trimPrefix s p := rfl

/-! ### (1) the core: the assumed `filepath.Walk` order on the trie is the model's `walkOrder` -/

/-- ★ For a well-formed flat list, walking the name-sorted trie (`GoRt.walkChildren`, the assumed behaviour of
    `filepath.Walk` below the root) from ANY root path `d` with the callback that collects the paths of the regular files
    visits them in `walkOrder` (insertion sort by the element-wise lexical order `walkLt`), each as
    `filepath.Join(d, rel)`: pre-order traversal of a name-sorted trie = sort by element-wise lexical order. -/
theorem walk_visits_in_walkOrder (files : List (Bytes × Bytes)) (h : WF files) (d : Bytes) (fuel : Nat)
    (hf : walkFuel files < fuel) :
    walkChildren collectFiles fuel d (toFsList (Zip.treeOfList (files.map leafOf))) [] =
      .ok (none, (Dirhash.walkOrder (files.map (·.1))).map (fun rel => fpJoin d rel)) :=
  walk_collect h d fuel hf

/-- the same for a clean root other than `/` and `.`: the visited paths are `d/rel` -/
theorem walk_visits_in_walkOrder_clean (files : List (Bytes × Bytes)) (h : WF files) (d : Bytes)
    (hc : pathClean d = d) (h1 : d ≠ [47]) (h2 : d ≠ [46]) (fuel : Nat) (hf : walkFuel files < fuel) :
    walkChildren collectFiles fuel d (toFsList (Zip.treeOfList (files.map leafOf))) [] =
      .ok (none, (Dirhash.walkOrder (files.map (·.1))).map (fun rel => d ++ [47] ++ rel)) := by
  rw [walk_collect h d fuel hf]
  congr 2
  apply List.map_congr_left
  intro rel hrel
  obtain ⟨f, hf', rfl⟩ := List.mem_map.1 ((Dirhash.insertionSort_perm _).subset hrel)
  exact fpJoin_clean hc h1 h2 (normalName_of_WF h hf')

/-- the pre-order of the trie is `walkOrder`, as lists of element lists (no walk, no paths) -/
theorem trie_preorder_eq_walkOrder (files : List (Bytes × Bytes)) (h : WF files) :
    (flatList (Zip.treeOfList (files.map leafOf))).map (joinWith [Dirhash.slash]) =
      Dirhash.walkOrder (files.map (·.1)) :=
  (walkOrder_eq_flat h).symm

/-! ### (2) DirFiles -/

/-- ★ `DirFiles` = `Dirhash.dirFiles`: for every directory argument `d` that does not clean to `/`, every prefix and every
    root whose file list is well formed, when the file system holds `treeOf root` at `filepath.Clean(d)`:
    the returned pair is `(names, nil)` with the model's names, `(nil, lstat error)` for a missing root and
    `(nil, "%s is not a directory")` for a file.  No panic (the slice `file[len(dir)+1:]` is in range), no fuel
    exhaustion. -/
theorem DirFiles_tie (walkRoot : Bytes → Option (FsTree FileInfo)) (root : Dirhash.Root) (d pfx : Bytes) (fuel : Nat)
    (hw : walkRoot (pathClean d) = treeOf root) (hd : pathClean d ≠ [47]) (hwf : WF (Dirhash.rootFiles root))
    (hf : walkFuel (Dirhash.rootFiles root) + 2 ≤ fuel) :
    DirFiles walkRoot fuel d pfx = .ok (embedFiles (Dirhash.dirFiles root pfx)) := by
  cases root with
  | missing => exact DirFiles_missing walkRoot fuel d pfx hw
  | file => exact DirFiles_file walkRoot fuel d pfx hw (by omega)
  | dir files => exact DirFiles_dir walkRoot fuel d pfx hwf hd hw hf

/-- the model's `dirFiles` reports no other error than the two `embedFiles` maps to Go errors of DirFiles -/
theorem dirFiles_error_cases (root : Dirhash.Root) (pfx : Bytes) (er : Dirhash.Err)
    (h : Dirhash.dirFiles root pfx = .error er) : er = .walk ∨ er = .notDir := by
  cases root <;> simp [Dirhash.dirFiles] at h <;> simp [← h]

/-- the same with the walk order spelled out and the vocabulary's `filepath.Join` -/
theorem DirFiles_tie_dir (walkRoot : Bytes → Option (FsTree FileInfo)) (files : List (Bytes × Bytes)) (d pfx : Bytes)
    (fuel : Nat) (hw : walkRoot (pathClean d) = treeOf (.dir files)) (hd : pathClean d ≠ [47]) (hwf : WF files)
    (hf : walkFuel files + 2 ≤ fuel) :
    DirFiles walkRoot fuel d pfx =
      .ok ((Dirhash.walkOrder (files.map (·.1))).map (fun rel => fpJoin pfx rel), none) := by
  rw [DirFiles_dir walkRoot fuel d pfx hwf hd hw hf]
  congr 2
  apply List.map_congr_left
  intro rel hrel
  obtain ⟨f, hf', rfl⟩ := List.mem_map.1 ((Dirhash.insertionSort_perm _).subset hrel)
  exact joinPath_eq_fpJoin pfx _ (Or.inr (Proofs.ZipB.normalName_ne_nil (normalName_of_WF hwf hf')))

/-! ### (3) HashDir -/

/-- ★ `HashDir` for ANY `hash` argument: the error of DirFiles, or `hash` applied to the model's names and to the
    `osOpen` closure `name ↦ os.Open(filepath.Join(dir, strings.TrimPrefix(name, prefix)))`. -/
theorem HashDir_tie (osOpenRead : Bytes → Bytes × Option String) (walkRoot : Bytes → Option (FsTree FileInfo))
    (root : Dirhash.Root) (d pfx : Bytes)
    (hash : List Bytes → (Bytes → Bytes × Option String) → Bytes × Option String) (fuel : Nat)
    (hw : walkRoot (pathClean d) = treeOf root) (hd : pathClean d ≠ [47]) (hwf : WF (Dirhash.rootFiles root))
    (hf : walkFuel (Dirhash.rootFiles root) + 2 ≤ fuel) :
    HashDir osOpenRead walkRoot fuel d pfx hash =
      .ok (match Dirhash.dirFiles root pfx with
        | .ok names => hash names (fun name => osOpenRead (fpJoin d (Dirhash.trimPrefix name pfx)))
        | .error er => ([], embedErr "" er)) := by
  unfold HashDir
  rw [DirFiles_tie walkRoot root d pfx fuel hw hd hwf hf]
  cases h : Dirhash.dirFiles root pfx with
  | ok names => simp [embedFiles, bind, Except.bind, pure, Except.pure]; rfl
  | error er =>
    rcases dirFiles_error_cases root pfx er h with rfl | rfl <;>
      simp [embedFiles, embedErr, bind, Except.bind, pure, Except.pure]

/-- ★ `HashDir` with the regenerated `Hash1` as its `hash` argument (`genHash sha`, as the driver wraps it) =
    `Dirhash.hashDir`, for a file system whose `os.Open` behaves on the paths HashDir opens for the listed names as the
    model's `osOpen` says (`(content, nil)`, or an error with the text `e`). -/
theorem HashDir_tie_hash1 (sha : Bytes → Bytes) (osOpenRead : Bytes → Bytes × Option String)
    (walkRoot : Bytes → Option (FsTree FileInfo)) (root : Dirhash.Root) (d pfx : Bytes) (e : String) (fuel : Nat)
    (hw : walkRoot (pathClean d) = treeOf root) (hd : pathClean d ≠ [47]) (hwf : WF (Dirhash.rootFiles root))
    (hf : walkFuel (Dirhash.rootFiles root) + 2 ≤ fuel)
    (hopen : ∀ names, Dirhash.dirFiles root pfx = .ok names → ∀ name ∈ names,
      osOpenRead (fpJoin d (Dirhash.trimPrefix name pfx)) =
        TieFnDirhash.openOf (Dirhash.osOpen (Dirhash.rootFiles root) pfx) e name) :
    HashDir osOpenRead walkRoot fuel d pfx (genHash sha) = .ok (embedHash e (Dirhash.hashDir sha root pfx)) := by
  rw [HashDir_tie osOpenRead walkRoot root d pfx (genHash sha) fuel hw hd hwf hf]
  unfold Dirhash.hashDir
  cases h : Dirhash.dirFiles root pfx with
  | ok names =>
    simp only []
    rw [genHash_eq sha names (Dirhash.osOpen (Dirhash.rootFiles root) pfx) e _ (hopen names h)]
  | error er =>
    rcases dirFiles_error_cases root pfx er h with rfl | rfl <;> rfl

/-- ★ the same with the file-system assumption stated on the files: for a non-empty `d` and a clean relative prefix
    (`path@version`), if reading `filepath.Join(d, rel)` yields the content of every listed file `rel`, then
    `HashDir` = `Dirhash.hashDir` (no `open` fails, so the error text `e` is immaterial). -/
theorem HashDir_tie_fs (sha : Bytes → Bytes) (osOpenRead : Bytes → Bytes × Option String)
    (walkRoot : Bytes → Option (FsTree FileInfo)) (root : Dirhash.Root) (d pfx : Bytes) (e : String) (fuel : Nat)
    (hw : walkRoot (pathClean d) = treeOf root) (hd : pathClean d ≠ [47]) (hne : d ≠ [])
    (hwf : WF (Dirhash.rootFiles root)) (hpfx : Dirhash.CleanRel pfx)
    (hf : walkFuel (Dirhash.rootFiles root) + 2 ≤ fuel)
    (hopen : ∀ f ∈ Dirhash.rootFiles root, osOpenRead (fpJoin d f.1) = (f.2, none)) :
    HashDir osOpenRead walkRoot fuel d pfx (genHash sha) = .ok (embedHash e (Dirhash.hashDir sha root pfx)) := by
  apply HashDir_tie_hash1 sha osOpenRead walkRoot root d pfx e fuel hw hd hwf hf
  intro names hnames name hname
  cases root with
  | missing => simp [Dirhash.dirFiles] at hnames
  | file => simp [Dirhash.dirFiles] at hnames
  | dir files =>
    simp only [Dirhash.dirFiles, Except.ok.injEq] at hnames
    subst hnames
    obtain ⟨rel, hrel, rfl⟩ := List.mem_map.1 hname
    obtain ⟨f, hf', rfl⟩ := List.mem_map.1 ((Dirhash.insertionSort_perm _).subset hrel)
    have hcr := hwf.cleanRel f hf'
    rw [opened_path hne hpfx hcr (normalName_of_WF hwf hf'), hopen f hf', Dirhash.joinPath_cleanRel hpfx hcr]
    simp only [TieFnDirhash.openOf, Dirhash.rootFiles, Dirhash.osOpen_joined files pfx f.1 hcr,
      Dirhash.lookup_of_mem_nodup files f.1 f.2 hwf.nodup hf']

/-! ### the mirror driver's instance (Drv/GenDirhash.lean `run`) satisfies the hypotheses -/

/-- the fuel the driver passes is enough -/
theorem driver_fuel_suffices (files : List (Bytes × Bytes)) :
    walkFuel files + 2 ≤ 4 * (files.map fun f => f.1.length).sum + 4 * files.length + 64 := by
  have h : ∀ l : List (Bytes × Bytes), (l.map (fun f => f.1.length + 1)).sum = (l.map fun f => f.1.length).sum + l.length := by
    intro l
    induction l with
    | nil => rfl
    | cons a l ih => simp only [List.map_cons, List.sum_cons, List.length_cons, ih]; omega
  unfold walkFuel
  rw [h]
  omega

/-- the scratch directory of the driver, spelled out (kernel evaluation of the string literal) -/
theorem rootPath_eq : rootPath = [47, 83, 47, 99, 49, 57, 114, 111, 111, 116] := by decide +kernel

/-- the driver's `walkRoot` for the working directory `/` holds the tree of the op at the scratch directory -/
example (root : Dirhash.Root) :
    (fun p => if Drv.GenDirhash.resolve [47] p == rootPath then treeOf root else none) (pathClean rootPath)
      = treeOf root := by
  have h : (Drv.GenDirhash.resolve [47] (pathClean rootPath) == rootPath) = true := by
    rw [rootPath_eq]; decide
  simp only [h, if_true]

example : pathClean rootPath ≠ [47] ∧ rootPath ≠ [] := by rw [rootPath_eq]; decide

/-! ### non-vacuity: both sides evaluated on concrete inputs -/

/-- four files in three directories, listed out of walk order (`b`, `a/c`, `a/b/x`, `a.go`): well formed -/
example : WF [([98], [1]), ([97, 47, 99], [2]), ([97, 47, 98, 47, 120], [3]), ([97, 46, 103, 111], [4])] := by decide

/-- a file below a file, a repeated path, an unclean path: not well formed -/
example : ¬ WF [([97], [1]), ([97, 47, 98], [2])] ∧ ¬ WF [([97], [1]), ([97], [2])] ∧
    ¬ WF [([97, 47, 47, 98], [1])] ∧ ¬ WF [([46, 46, 47, 98], [1])] ∧ ¬ WF [([], [1])] := by decide

/-- the core on that list: the walk from `/r` visits `/r/a/b/x`, `/r/a/c`, `/r/a.go`, `/r/b`: the ELEMENT `a` sorts before
    the element `a.go`, so the directory `a` is walked first (plain string order would put `a.go` before `a/b/x`,
    since `.` < `/`) -/
example : walkChildren collectFiles 64 [47, 114]
      (toFsList (Zip.treeOfList ([([98], [1]), ([97, 47, 99], [2]), ([97, 47, 98, 47, 120], [3]),
        ([97, 46, 103, 111], [4])].map leafOf))) []
    = .ok (none, [[47, 114, 47, 97, 47, 98, 47, 120], [47, 114, 47, 97, 47, 99], [47, 114, 47, 97, 46, 103, 111],
        [47, 114, 47, 98]]) := by decide

example : (Dirhash.walkOrder ([(([98] : Bytes), ([1] : Bytes)), ([97, 47, 99], [2]), ([97, 47, 98, 47, 120], [3]),
      ([97, 46, 103, 111], [4])].map (·.1))).map (fun rel => ([47, 114] : Bytes) ++ [47] ++ rel)
    = [[47, 114, 47, 97, 47, 98, 47, 120], [47, 114, 47, 97, 47, 99], [47, 114, 47, 97, 46, 103, 111],
        [47, 114, 47, 98]] := by decide

/-- `DirFiles_tie` on the three kinds of root, `d = "/r/"` (unclean), prefix `p` -/
example : DirFiles (fun p => if p = [47, 114] then treeOf (.dir [([98], [1]), ([97, 47, 99], [2])]) else none) 32
      [47, 114, 47] [112]
    = .ok (embedFiles (Dirhash.dirFiles (.dir [([98], [1]), ([97, 47, 99], [2])]) [112])) := by decide

example : embedFiles (Dirhash.dirFiles (.dir [([98], [1]), ([97, 47, 99], [2])]) [112])
    = ([[112, 47, 97, 47, 99], [112, 47, 98]], none) := by decide

example : DirFiles (fun p => if p = [47, 114] then treeOf .file else none) 32 [47, 114, 47] [112]
    = .ok ([], some "%s is not a directory") ∧
    embedFiles (Dirhash.dirFiles .file [112]) = ([], some "%s is not a directory") := by decide

example : DirFiles (fun p => if p = [47, 114] then treeOf .missing else none) 32 [47, 114, 47] [112]
    = .ok ([], some "lstat: no such file or directory") ∧
    embedFiles (Dirhash.dirFiles .missing [112]) = ([], some "lstat: no such file or directory") := by decide

/-- the directory `.` (the `dir == "."` branch of the closure) -/
example : DirFiles (fun p => if p = [46] then treeOf (.dir [([98], [1]), ([97, 47, 99], [2])]) else none) 32 [] [112]
    = .ok ([[112, 47, 97, 47, 99], [112, 47, 98]], none) := by decide

/-- the hypothesis `pathClean d ≠ "/"` is needed: at the root directory `file[len(dir)+1:]` cuts the first byte of every
    relative path (the model lists `p/ab`) -/
example : DirFiles (fun p => if p = [47] then treeOf (.dir [([97, 98], [1])]) else none) 32 [47] [112]
    = .ok ([[112, 47, 98]], none) ∧
    Dirhash.dirFiles (.dir [([97, 98], [1])]) [112] = .ok [[112, 47, 97, 98]] := by decide

/-- `HashDir_tie_fs` on a concrete directory (`sha := id`): the hypotheses hold and both sides are the same hash -/
example : HashDir (fun p => if p = [47, 114, 47, 98] then ([1], none) else if p = [47, 114, 47, 97, 47, 99] then ([2], none)
        else ([], some "open"))
      (fun p => if p = [47, 114] then treeOf (.dir [([98], [1]), ([97, 47, 99], [2])]) else none) 32 [47, 114] [112]
      (genHash id)
    = .ok (embedHash "open" (Dirhash.hashDir id (.dir [([98], [1]), ([97, 47, 99], [2])]) [112])) := by decide

example : (match Dirhash.hashDir id (.dir [([98], [1]), ([97, 47, 99], [2])]) [112] with
    | .ok h => h.take 3 == [104, 49, 58] | .error _ => false) = true := by decide

example : (∀ f ∈ Dirhash.rootFiles (.dir [([98], [1]), ([97, 47, 99], [2])]),
      (fun p => if p = [47, 114, 47, 98] then (([1] : Bytes), (none : Option String))
        else if p = [47, 114, 47, 97, 47, 99] then ([2], none) else ([], some "open")) (fpJoin [47, 114] f.1) = (f.2, none)) ∧
    Dirhash.CleanRel [112] := ⟨by decide, Dirhash.cleanRel_of_check _ (by decide)⟩

end ModVerif.Tie.FnDirhashDir
