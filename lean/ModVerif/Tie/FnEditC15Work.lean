/-
  C15 `nilDeref_unreachable`, go.work, on the REGENERATED operations: the property theorem
  `Props.C15.nilDeref_unreachable_work` (every statically valid go.work session from a parsed well-formed go.work runs to
  completion in the hand model) restated about the sessions of the code re-translated from modfile/{read,rule,work}.go
  (Generated/FnEdit.lean) as the driver `Drv.GenEdit` runs them (`applyWorkOp`, `runWorkOps`), through the go.work session tie
  Tie/FnEditSessionWork.lean (`runWorkOps_tie_valid`, `final_cleanupW`).

  * `nilDeref_unreachable_work_gen`: from every `ParseWork`-accepted go.work with non-empty keys, every statically valid
    session of the regenerated go.work operations runs to completion — NO operation fails with `Err.panic` (Go: nil
    `Syntax` dereference on a cleared entry) —, the per-operation results are the model's, the regenerated final
    `WorkFile.Cleanup` succeeds, and the resulting heap represents a model file satisfying the tree invariant `Edit.InvW`.

  This closes the gap noted in Tie/FnEditC15.lean ("the model has no totality theorem for go.work sessions"): with
  `nilDeref_unreachable_work` the conclusion of `runWorkOps_tie_valid` is a completion, not only a correspondence.
  Hypotheses beyond those of the model theorem: fuel only (`FuelOKW`, `FinalFuelW`; sound Boolean tests `fuelOKWB`,
  `finalFuelWB`, evaluated in the example with the fuel the driver uses).
-/
import ModVerif.Tie.FnEditC15
set_option linter.unusedSimpArgs false
set_option linter.unusedVariables false
namespace ModVerif.Tie.FnEditC15Work
open ModVerif ModVerif.GoRt ModVerif.Generated.Edit ModVerif.Tie.FnEditRep
open ModVerif.Tie.FnEditSessionA ModVerif.Tie.FnEditSessionW ModVerif.Tie.FnEditSessionWork
open ModVerif.Tie.FnEditSession (driverFuel)
open ModVerif.Modfile.Edit (EWork applyWork)
open ModVerif.Drv.GenEdit (applyWorkOp)

/-- a regenerated go.work run that completes passed through every operation normally -/
theorem genWorkDone_steps (fuel : Nat) (fp : Int) : ∀ (ops : List EditSpec.Op) (h : Heap) (acc : List Bool) (h' : Heap)
    (res : List Bool), Drv.GenEdit.runWorkOps fuel fp h ops acc = .done h' res →
    ∀ (pre : List EditSpec.Op) (op : EditSpec.Op) (post : List EditSpec.Op), ops = pre ++ op :: post →
      ∃ h1 r1, Drv.GenEdit.runWorkOps fuel fp h pre acc = .done h1 r1 ∧ ∃ b h2, applyWorkOp fuel fp h1 op = .ok (some b, h2)
  | [], h, acc, h', res, _, pre, op, post, hs => by cases pre <;> cases hs
  | o :: ops, h, acc, h', res, hd, pre, op, post, hs => by
    unfold Drv.GenEdit.runWorkOps at hd
    cases pre with
    | nil =>
      simp only [List.nil_append, List.cons.injEq] at hs
      obtain ⟨rfl, rfl⟩ := hs
      refine ⟨h, acc.reverse, rfl, ?_⟩
      cases ha : applyWorkOp fuel fp h o with
      | error er => rw [ha] at hd; cases hd
      | ok r =>
        obtain ⟨ob, h2⟩ := r
        cases ob with
        | none => rw [ha] at hd; cases hd
        | some b => exact ⟨b, h2, rfl⟩
    | cons p pre =>
      simp only [List.cons_append, List.cons.injEq] at hs
      obtain ⟨rfl, rfl⟩ := hs
      cases ha : applyWorkOp fuel fp h o with
      | error er => rw [ha] at hd; cases hd
      | ok r =>
        obtain ⟨ob, h2⟩ := r
        cases ob with
        | none => rw [ha] at hd; cases hd
        | some b =>
          rw [ha] at hd
          obtain ⟨h1, r1, e1, e2⟩ := genWorkDone_steps fuel fp _ h2 (b :: acc) h' res hd pre op post rfl
          refine ⟨h1, r1, ?_, e2⟩
          unfold Drv.GenEdit.runWorkOps
          rw [ha]
          exact e1

/-- **C15 `nilDeref_unreachable`, go.work, on the regenerated operations.**  For EVERY go.work text accepted by `ParseWork`
    with non-empty keys (`WorkKeys`, `NoBlockSuffix`: as in `Props.C15.nilDeref_unreachable_work`) and EVERY statically valid
    session of go.work operations (`Edit.StaticValidW false`: non-empty keys; SetUse has distinct non-empty directories and
    comes directly after a Cleanup), the run of the REGENERATED operations on the loaded heap completes: every operation, on
    the heap on which it runs, returns normally (`.ok (some b, _)`: nil or a documented Go `error`) — it never fails with
    `Err.panic` —; the per-operation results are the model's; the regenerated final `WorkFile.Cleanup` succeeds; and the
    final heap represents the state the model session ends in, which satisfies `Edit.InvW`. -/
theorem nilDeref_unreachable_work_gen (name data : Bytes) (f : Modfile.WorkFile) (ops : List EditSpec.Op) (fuel : Nat)
    (hf : Modfile.parseWork name data none = .ok f) (hk : Modfile.Edit.WorkKeys f) (hs : Modfile.Edit.NoBlockSuffix f.syn)
    (hv : Modfile.Edit.StaticValidW false (ops.map opM)) (hw : ∀ op ∈ ops.map opM, Modfile.Edit.IsWorkOp op)
    (hfu : FuelOKW fuel (Modfile.Edit.loadWork f) ops) (hfin : FinalFuelW fuel (Modfile.Edit.loadWork f) ops) :
    ∃ h' res, Drv.GenEdit.runWorkOps fuel (Drv.GenEdit.loadWork f).2 (Drv.GenEdit.loadWork f).1 ops [] = .done h' res ∧
      (∀ (pre : List EditSpec.Op) (op : EditSpec.Op) (post : List EditSpec.Op), ops = pre ++ op :: post →
        ∃ h1 r1, Drv.GenEdit.runWorkOps fuel (Drv.GenEdit.loadWork f).2 (Drv.GenEdit.loadWork f).1 pre [] = .done h1 r1 ∧
          applyWorkOp fuel (Drv.GenEdit.loadWork f).2 h1 op ≠ .error .panic ∧
          ∃ b h2, applyWorkOp fuel (Drv.GenEdit.loadWork f).2 h1 op = .ok (some b, h2)) ∧
      (∃ e', Modfile.Edit.runOps applyWork (Modfile.Edit.loadWork f) (ops.map opM) [] 0 = .done e' res) ∧
      ∃ h'' e'', WorkFile_Cleanup fuel (Drv.GenEdit.loadWork f).2 h' = .ok ((), h'') ∧
        RepW h'' (Drv.GenEdit.loadWork f).2 e'' ∧ Modfile.Edit.InvW e'' ∧
        Drv.GenEdit.workM h'' (Drv.GenEdit.loadWork f).2 = some (FnEditWorkEx.strip e''.f) := by
  have R := FnEditTree.loadWork_parsed_rep (name := name) (data := data) hf
  have hi := Modfile.Edit.parseWork_invW hf hk hs
  have hl := Modfile.Edit.StaticValidW.runValidW _ false (Modfile.Edit.loadWork f) hv (fun hc => by cases hc)
  obtain ⟨e', res, hrun, _, _⟩ := Props.C15.nilDeref_unreachable_work name data f (ops.map opM) hf hk hs hv hw
  have T := runWorkOps_tie_valid fuel _ ops _ _ R hi hl hfu
  rw [hrun] at T
  obtain ⟨h', hgen, R', hi'⟩ := T
  obtain ⟨h'', hc, R'', hrd⟩ := final_cleanupW R' fuel (hfin e' res hrun)
  refine ⟨h', res, hgen, ?_, ⟨e', hrun⟩, h'', _, hc, R'', Modfile.Edit.workCleanup_inv e' hi', hrd⟩
  intro pre op post hsplit
  obtain ⟨h1, r1, e1, b, h2, e2⟩ := genWorkDone_steps fuel _ ops _ [] h' res hgen pre op post hsplit
  refine ⟨h1, r1, e1, ?_, b, h2, e2⟩
  rw [e2]
  intro hc
  cases hc

/-! ### non-vacuity: the example session of Tie/FnEditSessionWork.lean (a parsed go.work with a `use` block; DropUse, a
    returned error, SetUse directly after a Cleanup) -/

section examples

-- `nilDeref_unreachable_work_gen` with the fuel the driver uses: all hypotheses hold of the example
example : ∃ f, Modfile.parseWork (B "go.work") exWork none = .ok f ∧
    ∃ h' res, Drv.GenEdit.runWorkOps (driverFuel exWork exWorkOps) (Drv.GenEdit.loadWork f).2 (Drv.GenEdit.loadWork f).1 exWorkOps [] =
        .done h' res ∧
      ∃ h'' e'', WorkFile_Cleanup (driverFuel exWork exWorkOps) (Drv.GenEdit.loadWork f).2 h' = .ok ((), h'') ∧
        RepW h'' (Drv.GenEdit.loadWork f).2 e'' ∧ Modfile.Edit.InvW e'' := by
  cases hp : Modfile.parseWork (B "go.work") exWork none with
  | error err =>
    have : (Modfile.parseWork (B "go.work") exWork none).toOption.isSome = true := by decide +kernel
    rw [hp] at this; cases this
  | ok f =>
    have hkeys := of_parsedW exWork (fun f => Modfile.Edit.workStartOKb f && FnEditSessionE.noBlockSuffixB f.syn)
      (P := fun f => Modfile.Edit.WorkKeys f ∧ Modfile.Edit.NoBlockSuffix f.syn)
      (fun f h => by
        simp only [Bool.and_eq_true] at h
        have s := Modfile.Edit.workStartOKb_sound f h.1
        exact ⟨⟨s.godebug, s.use, s.replace⟩, FnEditSessionE.noBlockSuffixB_sound h.2⟩)
      (by decide +kernel) f hp
    have hstatic : Modfile.Edit.StaticValidW false (exWorkOps.map opM) :=
      Modfile.Edit.staticValidWB_sound _ _ (by decide +kernel)
    have hwork : ∀ op ∈ exWorkOps.map opM, Modfile.Edit.IsWorkOp op := Modfile.Edit.isWorkOpB_all (by decide +kernel)
    have hfuel := of_parsedW exWork (fun f => fuelOKWB (driverFuel exWork exWorkOps) (Modfile.Edit.loadWork f) exWorkOps &&
        finalFuelWB (driverFuel exWork exWorkOps) (Modfile.Edit.loadWork f) exWorkOps)
      (P := fun f => FuelOKW (driverFuel exWork exWorkOps) (Modfile.Edit.loadWork f) exWorkOps ∧
        FinalFuelW (driverFuel exWork exWorkOps) (Modfile.Edit.loadWork f) exWorkOps)
      (fun f h => by
        simp only [Bool.and_eq_true] at h
        exact ⟨fuelOKWB_sound _ _ _ h.1, finalFuelWB_sound h.2⟩)
      (by decide +kernel) f hp
    obtain ⟨h', res, h1, _, _, h'', e'', hc, R, hi, _⟩ := nilDeref_unreachable_work_gen (B "go.work") exWork f exWorkOps
      (driverFuel exWork exWorkOps) hp hkeys.1 hkeys.2 hstatic hwork hfuel.1 hfuel.2
    exact ⟨f, rfl, h', res, h1, h'', e'', hc, R, hi⟩

end examples

end ModVerif.Tie.FnEditC15Work
