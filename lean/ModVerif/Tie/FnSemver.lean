/-
  Tie: every regenerated function of semver.go (Generated/FnSemver.lean, re-translated from the Go source on every
  check) computes exactly what the hand model (Model/Semver.lean) says, for ALL byte strings and all fuel above the
  stated bound.  The semver unit is translated in ideal mode (no int64 checks), so a fuel lower bound is the only
  hypothesis.  Each equation also proves: no panic (index / slice out of range) and no fuel exhaustion.

  Helper lemmas: Proofs/GoRtLemmas.lean and Proofs/TieFnSemver{Scan,Ident,Parse,Acc,Cmp}.lean.

  Two statements need a word:
  * `parse_tie`: Go's `parse` has named results and returns the partially filled struct also with ok = false.  On
    failure the struct is `TieFnSemver.parseResidue v` (a mirror of the Go control flow over the model's
    sub-parsers); every caller ignores it.
  * `comparePrerelease_tie`: on ALL pairs (x, y) the Go function differs from the model's `comparePrerelease` in one
    corner: two different non-empty strings that agree after their first byte (e.g. "-a" and "+a") give -1 in Go
    and 0 in the model.  The equation states that corner explicitly.  Prerelease fields of parsed versions are ""
    or begin with '-', so the corner is unreachable from Compare: `Compare_tie` holds for all v, w without it.
-/
import ModVerif.Generated.FnSemver
import ModVerif.Model.Semver
import ModVerif.Proofs.TieFnSemverCmp
namespace ModVerif.Tie.FnSemver
open ModVerif ModVerif.TieFnSemver

/-- a byte read from a string reaches isIdentChar as its integer value -/
theorem isIdentChar_tie (c : UInt8) :
    Generated.Semver.isIdentChar ((c.toNat : Nat) : Int) = Semver.isIdentChar c :=
  isIdentChar_byte c

example : Generated.Semver.isIdentChar 45 = true ∧ Semver.isIdentChar 45 = true ∧
    Generated.Semver.isIdentChar 46 = false ∧ Semver.isIdentChar 46 = false := by repeat' constructor

theorem isBadNum_tie (v : Bytes) (fuel : Nat) (hf : v.length + 1 ≤ fuel) :
    Generated.Semver.isBadNum fuel v = .ok (Semver.isBadNum v) :=
  isBadNum_ok v fuel hf

example : Generated.Semver.isBadNum 3 [48, 49] = .ok true ∧ Semver.isBadNum [48, 49] = true := by repeat' constructor

theorem isNum_tie (v : Bytes) (fuel : Nat) (hf : v.length + 1 ≤ fuel) :
    Generated.Semver.isNum fuel v = .ok (Semver.isNum v) :=
  isNum_ok v fuel hf

example : Generated.Semver.isNum 3 [49, 50] = .ok true ∧ Semver.isNum [49, 50] = true ∧
    Generated.Semver.isNum 3 [49, 97] = .ok false := by repeat' constructor

theorem parseInt_tie (v : Bytes) (fuel : Nat) (hf : v.length ≤ fuel) :
    Generated.Semver.parseInt fuel v =
      .ok (match Semver.parseInt v with | some (t, r) => (t, r, true) | none => ([], [], false)) :=
  parseInt_ok v fuel hf

example : Generated.Semver.parseInt 4 [49, 50, 46, 51] = .ok ([49, 50], [46, 51], true) ∧
    Semver.parseInt [49, 50, 46, 51] = some ([49, 50], [46, 51]) ∧
    Generated.Semver.parseInt 2 [48, 49] = .ok ([], [], false) ∧ Semver.parseInt [48, 49] = none := by repeat' constructor

theorem parsePrerelease_tie (v : Bytes) (fuel : Nat) (hf : 2 * v.length ≤ fuel) :
    Generated.Semver.parsePrerelease fuel v =
      .ok (match Semver.parsePrerelease v with | some (t, r) => (t, r, true) | none => ([], [], false)) :=
  parsePrerelease_ok v fuel hf

-- "-a.1+b"
example : Generated.Semver.parsePrerelease 12 [45, 97, 46, 49, 43, 98] = .ok ([45, 97, 46, 49], [43, 98], true) ∧
    Semver.parsePrerelease [45, 97, 46, 49, 43, 98] = some ([45, 97, 46, 49], [43, 98]) ∧
    Generated.Semver.parsePrerelease 6 [45, 48, 49] = .ok ([], [], false) ∧
    Semver.parsePrerelease [45, 48, 49] = none := by repeat' constructor

theorem parseBuild_tie (v : Bytes) (fuel : Nat) (hf : v.length ≤ fuel) :
    Generated.Semver.parseBuild fuel v =
      .ok (match Semver.parseBuild v with | some (t, r) => (t, r, true) | none => ([], [], false)) :=
  parseBuild_ok v fuel hf

-- "+b.01", "+b."
example : Generated.Semver.parseBuild 5 [43, 98, 46, 48, 49] = .ok ([43, 98, 46, 48, 49], [], true) ∧
    Semver.parseBuild [43, 98, 46, 48, 49] = some ([43, 98, 46, 48, 49], []) ∧
    Generated.Semver.parseBuild 3 [43, 98, 46] = .ok ([], [], false) ∧ Semver.parseBuild [43, 98, 46] = none := by
  repeat' constructor

/-- `parse`: the struct of the model's `Parsed` and ok = true on success; on failure ok = false together with the
    partially filled struct `parseResidue v` that Go's named results hold at the failing `return`. -/
theorem parse_tie (v : Bytes) (fuel : Nat) (hf : 2 * v.length ≤ fuel) :
    Generated.Semver.parse fuel v =
      .ok (match Semver.parse v with
           | some p => (ofParsed p, true)
           | none => (parseResidue v, false)) :=
  parse_ok v fuel hf

-- "v1.2.3-a+b" and the failing "v1.x" (major stays filled in)
example : Generated.Semver.parse 20 [118, 49, 46, 50, 46, 51, 45, 97, 43, 98] =
      .ok ({ major := [49], minor := [50], patch := [51], short := [], prerelease := [45, 97], build := [43, 98] }, true) ∧
    Semver.parse [118, 49, 46, 50, 46, 51, 45, 97, 43, 98] =
      some { major := [49], minor := [50], patch := [51], short := [], prerelease := [45, 97], build := [43, 98] } ∧
    Generated.Semver.parse 8 [118, 49, 120] =
      .ok ({ major := [49], minor := [], patch := [], short := [], prerelease := [], build := [] }, false) ∧
    Semver.parse [118, 49, 120] = none ∧
    parseResidue [118, 49, 120] = { major := [49], minor := [], patch := [], short := [], prerelease := [], build := [] } := by
  repeat' constructor

theorem compareInt_tie (x y : Bytes) : Generated.Semver.compareInt x y = Semver.compareInt x y :=
  compareInt_eq x y

example : Generated.Semver.compareInt [57] [49, 48] = -1 ∧ Semver.compareInt [57] [49, 48] = -1 := by repeat' constructor

theorem nextIdent_tie (x : Bytes) (fuel : Nat) (hf : x.length + 1 ≤ fuel) :
    Generated.Semver.nextIdent fuel x = .ok (Semver.nextIdent x) :=
  nextIdent_ok x fuel hf

example : Generated.Semver.nextIdent 4 [97, 46, 98] = .ok ([97], [46, 98]) ∧
    Semver.nextIdent [97, 46, 98] = ([97], [46, 98]) := by repeat' constructor

/-- `comparePrerelease` on ALL pairs of byte strings (see the file header for the first alternative). -/
theorem comparePrerelease_tie (x y : Bytes) (fuel : Nat) (hf : max x.length y.length + 1 ≤ fuel) :
    Generated.Semver.comparePrerelease fuel x y =
      .ok (if x ≠ y ∧ x ≠ [] ∧ y ≠ [] ∧ x.drop 1 = y.drop 1 then -1 else Semver.comparePrerelease x y) :=
  comparePrerelease_ok x y fuel hf

/-- on the strings that `parse` produces (empty or beginning with '-') the model's function, unconditionally -/
theorem comparePrerelease_tie_pre (x y : Bytes) (fuel : Nat) (hf : max x.length y.length + 1 ≤ fuel)
    (hx : x = [] ∨ ∃ s, x = 45 :: s) (hy : y = [] ∨ ∃ s, y = 45 :: s) :
    Generated.Semver.comparePrerelease fuel x y = .ok (Semver.comparePrerelease x y) :=
  comparePrerelease_ok' x y fuel hf hx hy

-- "-a.1" < "-a.b" ; the corner "-a" / "+a"
example : Generated.Semver.comparePrerelease 5 [45, 97, 46, 49] [45, 97, 46, 98] = .ok (-1) ∧
    Semver.comparePrerelease [45, 97, 46, 49] [45, 97, 46, 98] = -1 ∧
    Generated.Semver.comparePrerelease 3 [45, 97] [43, 97] = .ok (-1) ∧
    Semver.comparePrerelease [45, 97] [43, 97] = 0 := by repeat' constructor

theorem IsValid_tie (v : Bytes) (fuel : Nat) (hf : 2 * v.length ≤ fuel) :
    Generated.Semver.IsValid fuel v = .ok (Semver.isValid v) :=
  IsValid_ok v fuel hf

example : Generated.Semver.IsValid 8 [118, 49, 46, 50] = .ok true ∧ Semver.isValid [118, 49, 46, 50] = true ∧
    Generated.Semver.IsValid 2 [49] = .ok false := by repeat' constructor

theorem Canonical_tie (v : Bytes) (fuel : Nat) (hf : 2 * v.length ≤ fuel) :
    Generated.Semver.Canonical fuel v = .ok (Semver.canonical v) :=
  Canonical_ok v fuel hf

-- "v1.2" ↦ "v1.2.0"
example : Generated.Semver.Canonical 8 [118, 49, 46, 50] = .ok [118, 49, 46, 50, 46, 48] ∧
    Semver.canonical [118, 49, 46, 50] = [118, 49, 46, 50, 46, 48] := ⟨by rfl, by decide +kernel⟩

theorem Major_tie (v : Bytes) (fuel : Nat) (hf : 2 * v.length ≤ fuel) :
    Generated.Semver.Major fuel v = .ok (Semver.major v) :=
  Major_ok v fuel hf

example : Generated.Semver.Major 8 [118, 49, 46, 50] = .ok [118, 49] ∧ Semver.major [118, 49, 46, 50] = [118, 49] := by
  repeat' constructor

theorem MajorMinor_tie (v : Bytes) (fuel : Nat) (hf : 2 * v.length ≤ fuel) :
    Generated.Semver.MajorMinor fuel v = .ok (Semver.majorMinor v) :=
  MajorMinor_ok v fuel hf

-- "v1" ↦ "v1.0", "v1.2.3" ↦ "v1.2"
example : Generated.Semver.MajorMinor 4 [118, 49] = .ok [118, 49, 46, 48] ∧
    Semver.majorMinor [118, 49] = [118, 49, 46, 48] ∧
    Generated.Semver.MajorMinor 12 [118, 49, 46, 50, 46, 51] = .ok [118, 49, 46, 50] := by repeat' constructor

theorem Prerelease_tie (v : Bytes) (fuel : Nat) (hf : 2 * v.length ≤ fuel) :
    Generated.Semver.Prerelease fuel v = .ok (Semver.prerelease v) :=
  Prerelease_ok v fuel hf

example : Generated.Semver.Prerelease 16 [118, 49, 46, 50, 46, 51, 45, 97] = .ok [45, 97] ∧
    Semver.prerelease [118, 49, 46, 50, 46, 51, 45, 97] = [45, 97] := by repeat' constructor

theorem Build_tie (v : Bytes) (fuel : Nat) (hf : 2 * v.length ≤ fuel) :
    Generated.Semver.Build fuel v = .ok (Semver.build v) :=
  Build_ok v fuel hf

example : Generated.Semver.Build 16 [118, 49, 46, 50, 46, 51, 43, 98] = .ok [43, 98] ∧
    Semver.build [118, 49, 46, 50, 46, 51, 43, 98] = [43, 98] := by repeat' constructor

theorem Compare_tie (v w : Bytes) (fuel : Nat) (hf : 2 * max v.length w.length ≤ fuel) :
    Generated.Semver.Compare fuel v w = .ok (Semver.compare v w) :=
  Compare_ok v w fuel hf

-- "v1.2.3-a" < "v1.2.3"
example : Generated.Semver.Compare 16 [118, 49, 46, 50, 46, 51, 45, 97] [118, 49, 46, 50, 46, 51] = .ok (-1) ∧
    Semver.compare [118, 49, 46, 50, 46, 51, 45, 97] [118, 49, 46, 50, 46, 51] = -1 := by repeat' constructor

theorem Max_tie (v w : Bytes) (fuel : Nat) (hf : 2 * max v.length w.length + 8 ≤ fuel) :
    Generated.Semver.Max fuel v w = .ok (Semver.max v w) :=
  Max_ok v w fuel hf

-- Max("v1", "v1.2") = "v1.2.0"
example : Generated.Semver.Max 16 [118, 49] [118, 49, 46, 50] = .ok [118, 49, 46, 50, 46, 48] ∧
    Semver.max [118, 49] [118, 49, 46, 50] = [118, 49, 46, 50, 46, 48] := ⟨by rfl, by decide +kernel⟩

end ModVerif.Tie.FnSemver
