/-
  C17 transported to the regenerated code: the headline theorems of Props/C17.lean (about the hand model Model/Zip.lean)
  restated about `Generated.Zip.checkFiles` / `Generated.Zip.isVendoredPackage` (Generated/FnZip.lean, re-translated from
  zip/zip.go on every run) through the tie theorems of Tie/FnZipCheckFiles.lean and Tie/FnZip.lean.

  Every statement is about the RESULT `.ok (cf, validFiles, validSizes)` of the generated function on the translated list
  `files.map toGFile`, so it also says: no panic and no fuel exhaustion.  The instantiation is the one of the tie theorem
  (`Inst`: `FoldsTo simpleFold K`, `E.toFold = Zip.strToFold`, `EqualFold` / `ToLower` agree with the model on "go.mod");
  the go-version flag is the one the generated code computes itself, `genFlag … = (version.Compare(vers, "go1.24") >= 0)`
  for the version string of the root go.mod — the C17 theorems hold for every flag, so no hypothesis on
  `parseGoVers` / `version.Lang` / `version.Compare` is needed.  Corollaries only — nothing here is used by another module.
-/
import ModVerif.Tie.FnZipCheckFiles
import ModVerif.Props.C17
namespace ModVerif.Tie.FnZipC17
open ModVerif ModVerif.GoRt ModVerif.GoRtZip ModVerif.TieFnZip ModVerif.TieFnZipCf
open ModVerif.Zip ModVerif.ZipSpec
open ModVerif.Drv.GenZip (toGFile)

/-- the hypotheses of the tie theorem on the parameters of the generated code -/
structure Inst (E : Env) (equalFold : Bytes → Bytes → Bool) (simpleFold : Int → Int) (toLower : Bytes → Bytes)
    (K : Nat) : Prop where
  foldsTo : FoldsTo simpleFold K
  toFold : E.toFold = Zip.strToFold
  equalFold : ∀ s, equalFold s goModName = equalFoldGoMod s
  toLower : ∀ s, decide (toLower s = goModName) = toLowerIsGoMod s

/-- the go ≥ 1.24 flag as the generated code computes it from the root go.mod of the list -/
def genFlag (parseGoVers : Bytes → Bytes → Bytes) (versionCompare : Bytes → Bytes → Int) (versionLang : Bytes → Bytes)
    (files : List FileInfo) : Bool :=
  decide (0 ≤ versionCompare (versOf parseGoVers versionLang files) go124)

/-- all paths a generated report mentions: valid, then omitted, then invalid -/
def reportedG (cf : Generated.Zip.CheckedFiles) : List Bytes := cf.Valid ++ cf.Omitted.map (·.Path) ++ cf.Invalid.map (·.Path)

theorem reportedG_embCF (c : Zip.CheckedFiles) : reportedG (embCF c) = reported c := by
  simp [reportedG, reported, embCF, embFE, List.map_map, Function.comp_def]

section
variable (E : Env) (equalFold : Bytes → Bytes → Bool) (parseGoVers : Bytes → Bytes → Bytes) (simpleFold : Int → Int)
  (toLower : Bytes → Bytes) (versionCompare : Bytes → Bytes → Int) (versionLang : Bytes → Bytes) (K : Nat)

/-- the generated `checkFiles` returns the embedding of the model's report for its own flag -/
theorem gen_checkFiles_ok (I : Inst E equalFold simpleFold toLower K) (files : List FileInfo) (fuel : Nat)
    (hfuel : fuelBound K files ≤ fuel) :
    Generated.Zip.checkFiles (cfpOf E) equalFold parseGoVers simpleFold toLower versionCompare versionLang fuel
        (files.map toGFile) =
      .ok (embedCf (checkFilesSt E files (genFlag parseGoVers versionCompare versionLang files))) :=
  FnZipCheckFiles.checkFiles_tie_vers E equalFold parseGoVers simpleFold toLower versionCompare versionLang K
    I.foldsTo I.toFold I.equalFold I.toLower files fuel hfuel

/-- ★ C17 `checkFiles_partition` on the regenerated code: for a list without repeated paths the generated `checkFiles`
    returns a report whose paths (valid, then omitted, then invalid) are a permutation of the paths given — every file lands
    in exactly one of the three lists. -/
theorem gen_checkFiles_partition (I : Inst E equalFold simpleFold toLower K) (files : List FileInfo)
    (hnd : (files.map (·.path)).Nodup) (fuel : Nat) (hfuel : fuelBound K files ≤ fuel) :
    ∃ cf vf vs,
      Generated.Zip.checkFiles (cfpOf E) equalFold parseGoVers simpleFold toLower versionCompare versionLang fuel
        (files.map toGFile) = .ok (cf, vf, vs) ∧
      (reportedG cf).Perm (files.map (·.path)) := by
  refine ⟨_, _, _, gen_checkFiles_ok E equalFold parseGoVers simpleFold toLower versionCompare versionLang K I files
    fuel hfuel, ?_⟩
  rw [reportedG_embCF]
  exact Props.C17.checkFiles_partition E files _ hnd

/-- ★ … hence no path is reported twice by the generated function -/
theorem gen_checkFiles_reported_nodup (I : Inst E equalFold simpleFold toLower K) (files : List FileInfo)
    (hnd : (files.map (·.path)).Nodup) (fuel : Nat) (hfuel : fuelBound K files ≤ fuel) :
    ∃ cf vf vs,
      Generated.Zip.checkFiles (cfpOf E) equalFold parseGoVers simpleFold toLower versionCompare versionLang fuel
        (files.map toGFile) = .ok (cf, vf, vs) ∧
      (reportedG cf).Nodup := by
  obtain ⟨cf, vf, vs, h, hp⟩ := gen_checkFiles_partition E equalFold parseGoVers simpleFold toLower versionCompare
    versionLang K I files hnd fuel hfuel
  exact ⟨cf, vf, vs, h, hp.nodup_iff.mpr hnd⟩

/-- the error entry the generated code reports for the model's `(path, reason)` -/
def feOf (p : Bytes) (r : Reason) : Generated.Zip.FileError := { Path := p, Err := some (reasonText r) }

theorem mem_map_embFE (l : List (Bytes × Reason)) (e : Generated.Zip.FileError) :
    e ∈ l.map embFE ↔ ∃ p r, (p, r) ∈ l ∧ e = feOf p r := by
  simp only [List.mem_map]
  constructor
  · rintro ⟨⟨p, r⟩, h, rfl⟩; exact ⟨p, r, h, rfl⟩
  · rintro ⟨p, r, h, rfl⟩; exact ⟨(p, r), h, rfl⟩

theorem feOf_mem_map_embFE (l : List (Bytes × Reason)) (p : Bytes) (r : Reason) :
    feOf p r ∈ l.map embFE ↔ (p, r) ∈ l := by
  rw [mem_map_embFE]
  constructor
  · rintro ⟨p', r', h, he⟩
    simp only [feOf, Generated.Zip.FileError.mk.injEq, Option.some.injEq] at he
    obtain ⟨rfl, hr⟩ := he
    rw [reasonText_injective _ _ hr]; exact h
  · intro h; exact ⟨p, r, h, rfl⟩

/-- ★ C17 `checkFiles_eq_classify` on the regenerated code: for a list without repeated paths, the generated `checkFiles`
    reports every file in the list, and with the error text (`reasonText` of the reason), that the documented rules
    (`ZipSpec.classify`, over the flag the code derives itself) give; nothing else is reported; the validFiles / validSizes
    results list the valid files; and `SizeError` is set exactly when a file that reaches the size rules has a negative
    size or their total exceeds `MaxZipFile`. -/
theorem gen_checkFiles_eq_classify (I : Inst E equalFold simpleFold toLower K) (files : List FileInfo)
    (hnd : (files.map (·.path)).Nodup) (fuel : Nat) (hfuel : fuelBound K files ≤ fuel) :
    ∃ cf vf vs,
      Generated.Zip.checkFiles (cfpOf E) equalFold parseGoVers simpleFold toLower versionCompare versionLang fuel
        (files.map toGFile) = .ok (cf, vf, vs) ∧
      (∀ pre f post, files = pre ++ f :: post →
        match classify E (genFlag parseGoVers versionCompare versionLang files) files pre f with
        | .valid => f.path ∈ cf.Valid
        | .omitted r => feOf f.path r ∈ cf.Omitted
        | .invalid r => feOf f.path r ∈ cf.Invalid) ∧
      (∀ p ∈ cf.Valid, ∃ pre f post, files = pre ++ f :: post ∧ f.path = p ∧
        classify E (genFlag parseGoVers versionCompare versionLang files) files pre f = .valid) ∧
      (∀ e ∈ cf.Omitted, ∃ pre f post r, files = pre ++ f :: post ∧ e = feOf f.path r ∧
        classify E (genFlag parseGoVers versionCompare versionLang files) files pre f = .omitted r) ∧
      (∀ e ∈ cf.Invalid, ∃ pre f post r, files = pre ++ f :: post ∧ e = feOf f.path r ∧
        classify E (genFlag parseGoVers versionCompare versionLang files) files pre f = .invalid r) ∧
      (cf.SizeError.isSome = true ↔
        (∃ x ∈ sizedSizes (classifyAll E (genFlag parseGoVers versionCompare versionLang files) files), x < 0) ∨
        (MaxZipFile : Int) <
          (sizedSizes (classifyAll E (genFlag parseGoVers versionCompare versionLang files) files)).sum) ∧
      cf.Valid = vf.map (·.Path) ∧ vs = vf.map (·.Lstat.1.Size) := by
  obtain ⟨c1, c2, c3, c4, c5⟩ :=
    Props.C17.checkFiles_eq_classify E files (genFlag parseGoVers versionCompare versionLang files) hnd
  refine ⟨_, _, _, gen_checkFiles_ok E equalFold parseGoVers simpleFold toLower versionCompare versionLang K I files
    fuel hfuel, ?_, c2, ?_, ?_, ?_, ?_, ?_⟩
  · intro pre f post hfs
    have := c1 pre f post hfs
    cases hc : classify E (genFlag parseGoVers versionCompare versionLang files) files pre f with
    | valid => rw [hc] at this; exact this
    | omitted r =>
      rw [hc] at this
      exact (feOf_mem_map_embFE _ _ _).mpr this
    | invalid r =>
      rw [hc] at this
      exact (feOf_mem_map_embFE _ _ _).mpr this
  · intro e he
    obtain ⟨p, r, h, rfl⟩ := (mem_map_embFE _ e).mp he
    obtain ⟨pre, f, post, h1, h2, h3⟩ := c3 p r h
    exact ⟨pre, f, post, r, h1, by rw [h2], h3⟩
  · intro e he
    obtain ⟨p, r, h, rfl⟩ := (mem_map_embFE _ e).mp he
    obtain ⟨pre, f, post, h1, h2, h3⟩ := c4 p r h
    exact ⟨pre, f, post, r, h1, by rw [h2], h3⟩
  · rw [← c5]
    show (if (checkFilesSt E files _).cf.sizeError then some sizeErrorText else none).isSome = true ↔
      (checkFilesSt E files _).cf.sizeError = true
    generalize (checkFilesSt E files (genFlag parseGoVers versionCompare versionLang files)).cf.sizeError = b
    cases b <;> simp
  · obtain ⟨hv1, hv2⟩ := Proofs.Zip.checkFilesSt_validFiles E (genFlag parseGoVers versionCompare versionLang files) files
    show (checkFilesSt E files _).cf.valid = ((checkFilesSt E files _).validFiles.map toGFile).map (·.Path)
    rw [hv2, List.map_map]
    rfl
  · have hinv := Proofs.Zip.checkFilesSt_validInv E (genFlag parseGoVers versionCompare versionLang files) files
    show (checkFilesSt E files _).validFiles.map (·.size) =
      ((checkFilesSt E files _).validFiles.map toGFile).map (·.Lstat.1.Size)
    rw [List.map_map]
    apply List.map_congr_left
    intro f hf
    have hreg := (hinv.nameOK f hf).regular
    simp [toGFile, hreg]

end

/-- ★ C17 `vendor_rule` on the regenerated `isVendoredPackage`: for a version that compares ≥ go1.24 it answers true
    exactly on the documented rule, below go1.24 exactly on the rule as implemented before (golang.org/issue/37397). -/
theorem gen_vendor_rule (versionCompare : Bytes → Bytes → Int) (name vers : Bytes) :
    (0 ≤ versionCompare vers go124 →
      (Generated.Zip.isVendoredPackage versionCompare name vers = .ok true ↔ Vendored124 name)) ∧
    (versionCompare vers go124 < 0 →
      (Generated.Zip.isVendoredPackage versionCompare name vers = .ok true ↔ VendoredPre124 name)) := by
  obtain ⟨r1, r2⟩ := Props.C17.vendor_rule name
  constructor
  · intro h
    rw [FnZip.isVendoredPackage_tie versionCompare name vers true (by simp [h]), ← r1]
    constructor
    · intro e; exact Except.ok.inj e
    · intro e; rw [e]
  · intro h
    rw [FnZip.isVendoredPackage_tie versionCompare name vers false (by simp; omega), ← r2]
    constructor
    · intro e; exact Except.ok.inj e
    · intro e; rw [e]

/-! ### non-vacuity -/

/-- the hypotheses hold for the driver's instance and the example of Tie/FnZipCheckFiles.lean -/
example : Inst FnZipCheckFiles.exEnv (fun a _ => equalFoldGoMod a) Drv.GenZip.simpleFoldI
    (fun s => s.map asciiLower) 1 :=
  ⟨FnZip.foldsTo_simpleFoldI, rfl, fun _ => rfl, FnZipCheckFiles.toLower_driver⟩

example : (FnZipCheckFiles.exFiles.map (·.path)).Nodup := by decide +kernel

example : genFlag (FnZipCheckFiles.pgvDriver FnZipCheckFiles.exFiles) Drv.GenZip.versionCompareI id
    FnZipCheckFiles.exFiles = true := by decide +kernel

end ModVerif.Tie.FnZipC17
