/-
  Tie theorems for the WORLD-MODE regenerations of sumdb/tlog's readers-of-hashes (`Generated/FnTlogW.lean`, namespace
  ModVerif.Generated.TlogW: `TreeHash`, `ProveTree`, `ProveRecord`, the same Go code as in `Generated/FnTlog.lean` but
  with `r.ReadHashes` a WORLD function `List Int → W → M ((hashes, err) × W)` and the world threaded through).

  Part 1 (`*_world`): for ANY world type `W` and ANY world reader `rh` — no range or fuel hypothesis — the world-mode
  function performs at most ONE call of `rh` (none when the arguments are refused or the index list is empty), on the
  index list computed by the pure regenerated index function, and its result is the result of the PURE regenerated
  function run over the constant reader that answers what `rh` answered, paired with the world after the call
  (`viaRead`; an `M`-error of `rh` propagates).

  Part 2 (`*_tie`): the same in terms of the hand model (Model/Tlog.lean) through the pure tie theorems of
  Tie/FnTlogProof.lean / Tie/FnTlogInt.lean, with their range and fuel hypotheses (`t ≤ 2^62`, fuel `t + 127`).
-/
import ModVerif.Generated.FnTlogW
import ModVerif.Model.Tlog
import ModVerif.Proofs.TieFnTlogW
import ModVerif.Tie.FnTlogProof
import ModVerif.Tie.FnTlogInt
namespace ModVerif.Tie.FnTlogW
open ModVerif ModVerif.GoRt ModVerif.GoRtList ModVerif.Tlog ModVerif.TlogTH ModVerif.TieFnTlogInt ModVerif.TieFnTlogW
open ModVerif.Tie.FnTlogProof (readOut okIs genReader idxOf toM)

section
variable {H : Type} [DecidableEq H] [Inhabited H] {W : Type} (node : H → H → H)
  (rh : List Int → W → M ((List H × Option String) × W))

/-! ### Part 1: world mode = pure mode over the constant reader, any world, any reader -/

/-- ★ `TreeHash(n, r)` in world mode: `n = 0` answers the empty hash without touching the world; otherwise ONE call of
    the reader on `subTreeIndex(0, n, nil)`. -/
theorem TreeHash_world (empty : H) (fuel : Nat) (n : Int) (w : W) :
    Generated.TlogW.TreeHash empty node rh fuel n () w =
      if n = 0 then .ok ((empty, none), w) else
      match Generated.Tlog.subTreeIndex fuel 0 n [] with
      | .error e => .error e
      | .ok idx => viaRead rh idx w (Generated.Tlog.TreeHash empty node fuel n) :=
  TreeHash_eq empty node rh fuel n w

/-- ★ `ProveTree(t, n, r)` in world mode: refused arguments and an empty index list (`n = t`) do not touch the world;
    otherwise ONE call of the reader on `treeProofIndex(0, t, n, nil)`. -/
theorem ProveTree_world (fuel : Nat) (t n : Int) (w : W) :
    Generated.TlogW.ProveTree node rh fuel t n () w =
      if t < 1 ∨ n < 1 ∨ n > t then .ok (([], some "tlog: invalid inputs in ProveTree"), w) else
      match Generated.Tlog.treeProofIndex fuel 0 t n [] with
      | .error e => .error e
      | .ok idx =>
        if idx = [] then .ok (([], none), w) else viaRead rh idx w (Generated.Tlog.ProveTree node fuel t n) :=
  ProveTree_eq node rh fuel t n w

/-- ★ `ProveRecord(t, n, r)` in world mode. -/
theorem ProveRecord_world (fuel : Nat) (t n : Int) (w : W) :
    Generated.TlogW.ProveRecord node rh fuel t n () w =
      if t < 0 ∨ n < 0 ∨ n ≥ t then .ok (([], some "tlog: invalid inputs in ProveRecord"), w) else
      match Generated.Tlog.leafProofIndex fuel 0 t n [] with
      | .error e => .error e
      | .ok idx =>
        if idx = [] then .ok (([], none), w) else viaRead rh idx w (Generated.Tlog.ProveRecord node fuel t n) :=
  ProveRecord_eq node rh fuel t n w

/-! ### Part 2: in terms of the hand model

`subTreeIndexOut [] (Tlog.subTreeIndex 0 n)` is the model's index list as a result of generated code (`Int` indexes; a
model error is a Go panic site); the continuation is the model function over `readerOf c` for the constant reader `c`
(`readerOf (fun _ => (hs, none)) = fun _ => some hs`, `readerOf (fun _ => (hs, some e)) = fun _ => none`:
`readerOf_const`), rendered by `readOut` exactly as in the pure tie theorems. -/

omit [DecidableEq H] [Inhabited H] in
theorem readerOf_const_none (hs : List H) : readerOf (fun _ => (hs, (none : Option String))) = fun _ => some hs := rfl

omit [DecidableEq H] [Inhabited H] in
theorem readerOf_const_some (hs : List H) (e : String) : readerOf (fun _ => (hs, some e)) = fun _ => none := rfl

/-- ★ world-mode `TreeHash` = the model's `treeHash`, `0 ≤ n ≤ 2^62`. -/
theorem TreeHash_tie (empty : H) (fuel : Nat) (n : Int) (w : W)
    (h0 : 0 ≤ n) (hn : n ≤ 2 ^ 62) (hf : n.toNat + 127 ≤ fuel) :
    Generated.TlogW.TreeHash empty node rh fuel n () w =
      if n = 0 then .ok ((empty, none), w) else
      match subTreeIndexOut [] (Tlog.subTreeIndex 0 n.toNat) with
      | .error e => .error e
      | .ok idx => viaRead rh idx w (fun c =>
          readOut default "" (readErrOf c (idxOf (Tlog.subTreeIndex 0 n.toNat)))
            (Tlog.treeHash node empty n.toNat (readerOf c))) := by
  rw [TreeHash_world, Tie.FnTlogInt.subTreeIndex_tie fuel 0 n [] (by omega) hn (by omega)]
  simp only [Int.toNat_zero]
  have : (Generated.Tlog.TreeHash empty node fuel n : (List Int → List H × Option String) → _) = fun c =>
      readOut default "" (readErrOf c (idxOf (Tlog.subTreeIndex 0 n.toNat)))
        (Tlog.treeHash node empty n.toNat (readerOf c)) := by
    funext c
    exact Tie.FnTlogProof.TreeHash_tie node empty fuel n c h0 hn hf
  rw [this]

/-- ★ world-mode `ProveTree` = the model's `proveTree`, EVERY `t ≤ 2^62` and every `n`. -/
theorem ProveTree_tie (fuel : Nat) (t n : Int) (w : W) (ht : t ≤ 2 ^ 62) (hf : t.toNat + 127 ≤ fuel) :
    Generated.TlogW.ProveTree node rh fuel t n () w =
      if t < 1 ∨ n < 1 ∨ n > t then .ok (([], some "tlog: invalid inputs in ProveTree"), w) else
      match subTreeIndexOut [] (Tlog.treeProofIndex 0 t.toNat n.toNat) with
      | .error e => .error e
      | .ok idx =>
        if idx = [] then .ok (([], none), w) else viaRead rh idx w (fun c =>
          readOut [] "tlog: invalid inputs in ProveTree" (readErrOf c (idxOf (Tlog.treeProofIndex 0 t.toNat n.toNat)))
            (Tlog.proveTree node t n (readerOf c))) := by
  rw [ProveTree_world]
  by_cases hg : t < 1 ∨ n < 1 ∨ n > t
  · simp only [hg, if_true]
  · simp only [hg, if_false]
    rw [Tie.FnTlogProof.treeProofIndex_tie fuel 0 t n [] (by omega) (by omega) ht (by omega)]
    simp only [Int.toNat_zero]
    have : (Generated.Tlog.ProveTree node fuel t n : (List Int → List H × Option String) → _) = fun c =>
        readOut [] "tlog: invalid inputs in ProveTree" (readErrOf c (idxOf (Tlog.treeProofIndex 0 t.toNat n.toNat)))
          (Tlog.proveTree node t n (readerOf c)) := by
      funext c
      exact Tie.FnTlogProof.ProveTree_tie node fuel t n c ht hf
    rw [this]

/-- ★ world-mode `ProveRecord` = the model's `proveRecord`, EVERY `t ≤ 2^62` and every `n`. -/
theorem ProveRecord_tie (fuel : Nat) (t n : Int) (w : W) (ht : t ≤ 2 ^ 62) (hf : t.toNat + 127 ≤ fuel) :
    Generated.TlogW.ProveRecord node rh fuel t n () w =
      if t < 0 ∨ n < 0 ∨ n ≥ t then .ok (([], some "tlog: invalid inputs in ProveRecord"), w) else
      match subTreeIndexOut [] (Tlog.leafProofIndex 0 t.toNat n.toNat) with
      | .error e => .error e
      | .ok idx =>
        if idx = [] then .ok (([], none), w) else viaRead rh idx w (fun c =>
          readOut [] "tlog: invalid inputs in ProveRecord" (readErrOf c (idxOf (Tlog.leafProofIndex 0 t.toNat n.toNat)))
            (Tlog.proveRecord node t n (readerOf c))) := by
  rw [ProveRecord_world]
  by_cases hg : t < 0 ∨ n < 0 ∨ n ≥ t
  · simp only [hg, if_true]
  · simp only [hg, if_false]
    rw [Tie.FnTlogProof.leafProofIndex_tie fuel 0 t n [] (by omega) (by omega) ht (by omega)]
    simp only [Int.toNat_zero]
    have : (Generated.Tlog.ProveRecord node fuel t n : (List Int → List H × Option String) → _) = fun c =>
        readOut [] "tlog: invalid inputs in ProveRecord" (readErrOf c (idxOf (Tlog.leafProofIndex 0 t.toNat n.toNat)))
          (Tlog.proveRecord node t n (readerOf c)) := by
      funext c
      exact Tie.FnTlogProof.ProveRecord_tie node fuel t n c ht hf
    rw [this]

end

/-! ### non-vacuity: the 7-record example log over the term algebra `TH`; the world is a call counter and a log of the
    index lists asked for; the reader is the honest dense-store reader -/

/-- world = the index lists the reader was asked for, latest last -/
def exRh (st : List TH) : List Int → List (List Int) → M ((List TH × Option String) × List (List Int)) :=
  fun idx w => .ok (genReader st idx, w ++ [idx])

example : okIs (Generated.TlogW.TreeHash TH.empty TH.node (exRh (store 13)) 134 7 () []) ((root 7, none), [[6, 9, 10]])
      = true ∧
    okIs (Generated.TlogW.TreeHash TH.empty TH.node (exRh (store 13)) 134 0 () []) ((TH.empty, none), []) = true ∧
    okIs (Generated.TlogW.TreeHash TH.empty TH.node (exRh (store 3)) 134 7 () [])
      ((default, some "missing hash"), [[6, 9, 10]]) = true ∧
    isOk (Tlog.treeHash TH.node TH.empty 7 (fun _ => some [(store 13)[6]!, (store 13)[9]!, (store 13)[10]!])) (root 7)
      = true ∧
    isOk (Tlog.subTreeIndex 0 7) [6, 9, 10] = true := by decide +kernel

example : Generated.TlogW.TreeHash TH.empty TH.node (exRh (store 13)) 134 7 () [] =
      match subTreeIndexOut [] (Tlog.subTreeIndex 0 7) with
      | .error e => .error e
      | .ok idx => viaRead (exRh (store 13)) idx [] (fun c =>
          readOut default "" (readErrOf c (idxOf (Tlog.subTreeIndex 0 7)))
            (Tlog.treeHash TH.node TH.empty 7 (readerOf c))) :=
  TreeHash_tie TH.node (exRh (store 13)) TH.empty 134 7 [] (by omega) (by omega) (by decide)

example : okIs (Generated.TlogW.ProveTree TH.node (exRh (store 13)) 134 7 3 () [])
      ((RFC6962.proof TH.node TH.empty 3 ((recs 7).map TH.leaf), none), [[2, 3, 4, 9, 10]]) = true ∧
    okIs (Generated.TlogW.ProveTree TH.node (exRh (store 13)) 134 7 7 () []) (([], none), []) = true ∧
    okIs (Generated.TlogW.ProveTree TH.node (exRh (store 13)) 134 7 8 () [])
      (([], some "tlog: invalid inputs in ProveTree"), []) = true ∧
    isOk (Tlog.treeProofIndex 0 7 3) [2, 3, 4, 9, 10] = true := by decide +kernel

example : Generated.TlogW.ProveTree TH.node (exRh (store 13)) 134 7 3 () [] =
      match subTreeIndexOut [] (Tlog.treeProofIndex 0 7 3) with
      | .error e => .error e
      | .ok idx =>
        if idx = [] then .ok (([], none), []) else viaRead (exRh (store 13)) idx [] (fun c =>
          readOut [] "tlog: invalid inputs in ProveTree" (readErrOf c (idxOf (Tlog.treeProofIndex 0 7 3)))
            (Tlog.proveTree TH.node 7 3 (readerOf c))) := by
  have := ProveTree_tie TH.node (exRh (store 13)) 134 7 3 [] (by omega) (by decide)
  simpa using this

example : okIs (Generated.TlogW.ProveRecord TH.node (exRh (store 13)) 134 7 2 () [])
      ((RFC6962.path TH.node TH.empty 2 ((recs 7).map TH.leaf), none), [[2, 4, 9, 10]]) = true ∧
    okIs (Generated.TlogW.ProveRecord TH.node (exRh (store 3)) 134 7 2 () [])
      (([], some "missing hash"), [[2, 4, 9, 10]]) = true ∧
    okIs (Generated.TlogW.ProveRecord TH.node (exRh (store 13)) 134 7 7 () [])
      (([], some "tlog: invalid inputs in ProveRecord"), []) = true ∧
    isOk (Tlog.leafProofIndex 0 7 2) [2, 4, 9, 10] = true := by decide +kernel

example : Generated.TlogW.ProveRecord TH.node (exRh (store 13)) 134 7 2 () [] =
      match subTreeIndexOut [] (Tlog.leafProofIndex 0 7 2) with
      | .error e => .error e
      | .ok idx =>
        if idx = [] then .ok (([], none), []) else viaRead (exRh (store 13)) idx [] (fun c =>
          readOut [] "tlog: invalid inputs in ProveRecord" (readErrOf c (idxOf (Tlog.leafProofIndex 0 7 2)))
            (Tlog.proveRecord TH.node 7 2 (readerOf c))) := by
  have := ProveRecord_tie TH.node (exRh (store 13)) 134 7 2 [] (by omega) (by decide)
  simpa using this

end ModVerif.Tie.FnTlogW
