/-
  C06 — Path validity rules and path/version matching follow the documented rules.
  Property theorems only; helper lemmas live in ModVerif/Proofs/Module*.lean.
  `isLetter` (unicode.IsLetter) and `glob` (path.Match) are universally quantified parameters.
-/
import ModVerif.Model.Module
import ModVerif.Proofs.ModulePath
import ModVerif.Proofs.ModuleSplit
import ModVerif.Proofs.ModuleSpec
import ModVerif.Proofs.ModuleGlob
import ModVerif.Proofs.ModuleMajor
import ModVerif.Proofs.ModuleFullSplit
import ModVerif.Proofs.ModuleFullCheck
import ModVerif.Proofs.ModuleFullPrefix
import ModVerif.Spec.PathSpec
namespace ModVerif.Props.C06
open ModVerif ModVerif.Module

/-! ### acceptance = the documented rules (Spec/PathSpec.lean) -/

/-- checkPath (the common part of the three checkers) accepts exactly the paths that satisfy the
    documented rules of the kind: well-formed UTF-8, non-empty, no leading dash (non-file kinds), and
    every slash-separated element non-empty, not all dots, no leading dot (module), no trailing dot,
    only characters of the kind's class, first-dot prefix not a reserved Windows name in any case,
    and (non-file kinds) first-dot prefix not ending in ~digits. -/
theorem checkPath_iff (isLetter : Nat → Bool) (k : Kind) (p : Bytes) :
    checkPath isLetter k p = .ok () ↔ PathSpec.ValidPath isLetter (toSpec k) p :=
  checkPath_iff_spec isLetter k p

/-- CheckImportPath accepts exactly the valid import paths. -/
theorem checkImportPath_iff (p : Bytes) :
    checkImportPath p = .ok () ↔ PathSpec.ValidPath (fun _ => false) .import_ p :=
  checkPath_iff_spec _ .import_ p

/-- CheckFilePath accepts exactly the valid file paths (for every `isLetter`). -/
theorem checkFilePath_iff (isLetter : Nat → Bool) (p : Bytes) :
    checkFilePath isLetter p = .ok () ↔ PathSpec.ValidPath isLetter .file p :=
  checkPath_iff_spec isLetter .file p

/-- CheckPath (module paths) accepts exactly the paths that satisfy the three documented rules, each stated
    on the path alone (Spec/PathSpec.lean and `PathSpec.FirstElemOK` / `PathSpec.MajorRuleOK` in
    Proofs/ModuleFullSplit.lean, none of which mentions a function of the model):
    the general rules for kind `module`; the first element (up to the first slash) contains a dot, does not
    start with a dash and consists of lower-case ASCII letters, digits, '-' and '.'; and the major-version
    rule — outside gopkg.in the path does not end in "/v" followed by a run of digits and dots that contains
    a dot, starts with '0' or is "1"; under gopkg.in it ends in ".vN" or ".vN-unstable" (N decimal without
    leading zero, ".v0-unstable" excluded). -/
theorem checkModPath_iff (p : Bytes) :
    checkModPath p = .ok () ↔
      PathSpec.ValidPath (fun _ => false) .module p ∧ PathSpec.FirstElemOK p ∧ PathSpec.MajorRuleOK p :=
  checkModPath_iff_full p

/-- SplitPathVersion reports ok exactly under the documented major-version rule (both directions; `split_spec`
    below adds the shape of the returned suffix). -/
theorem split_ok_iff (p : Bytes) : (splitPathVersion p).2.2 = true ↔ PathSpec.MajorRuleOK p :=
  splitPathVersion_ok_iff p

/-- The `leading slash` and `leading dash in first path element` error returns of CheckPath are dead code:
    no input reaches them (the general checker has already rejected an empty first element and a leading
    dash).  (The third dead return, EscapePath's internal error, is `Props.C11.escapePath_total_on_valid`.) -/
theorem checkModPath_dead_branches (p : Bytes) :
    checkModPath p ≠ .error .leadingSlash ∧ checkModPath p ≠ .error .leadingDashFirst :=
  checkModPath_dead p

-- non-vacuity of the three conjuncts on a concrete accepted path, and each major-rule failure mode
example : checkModPath (B "gopkg.in/yaml.v2-unstable") = .ok () ∧ checkModPath (B "example.com/m/v2") = .ok () := by
  decide +kernel
example : PathSpec.BadSlashMajor (B "example.com/m/v1") :=
  ⟨B "example.com/m", [49], by decide +kernel, by simp, by intro c hc; simp at hc; subst hc; left; unfold PathSpec.isAsciiDigit; decide,
    Or.inr (Or.inr rfl)⟩
example : PathSpec.GopkgPathOK (B "gopkg.in/yaml.v2-unstable") :=
  ⟨B "gopkg.in/yaml", [50], ⟨by simp, by intro c hc; simp at hc; subst hc; unfold PathSpec.isAsciiDigit; decide, by simp⟩,
    Or.inr ⟨by decide +kernel, by simp⟩⟩
example : checkModPath (B "example.com/m/v1") = .error .invalidVersion ∧ checkModPath (B "gopkg.in/yaml.v0-unstable") = .error .invalidVersion
    ∧ checkModPath (B "/x.y") = .error .emptyElem ∧ checkModPath (B "-x.y") = .error .leadingDash := by decide +kernel

/-! ### inclusions: module ⊆ import ⊆ file -/

/-- Every valid module path is a valid import path. -/
theorem mod_imp_import (p : Bytes) (h : checkModPath p = .ok ()) : checkImportPath p = .ok () := by
  have h1 := ((checkModPath_ok_iff p).mp h).1
  exact checkPath_mono _ _ .module .import_ p (fun r hr => importPathOK_of_mod r hr)
    (fun hk => by cases hk) (fun hk => by cases hk) h1

/-- Every valid import path is a valid file path (for every `isLetter`). -/
theorem import_imp_file (isLetter : Nat → Bool) (p : Bytes) (h : checkImportPath p = .ok ()) :
    checkFilePath isLetter p = .ok () :=
  checkPath_mono _ isLetter .import_ .file p (fun r hr => fileNameOK_of_import isLetter r hr)
    (fun hk => by cases hk) (fun hk => by cases hk) h

example : checkModPath (B "golang.org/x/mod") = .ok () := by decide +kernel
example : checkFilePath (fun r => r == 233) (B "caf\u00e9/LICENSE") = .ok () := by decide +kernel
example : checkImportPath (B "example.com/NUL.txt") = .error .windows ∧ checkImportPath (B "example.com/x~1.go") = .error .tildeDigits
    ∧ checkImportPath (B "example.com/a..b") = .ok () := by decide +kernel
example : checkImportPath (B "example.com/c++") = .ok () ∧ checkModPath (B "example.com/c++") = .error .invalidChar := by
  decide +kernel
example : checkFilePath (fun _ => false) (B "a b/x~1") = .ok () ∧ checkImportPath (B "a b/x~1") = .error .invalidChar := by
  decide +kernel

/-! ### SplitPathVersion -/

/-- Whenever SplitPathVersion reports ok, prefix ++ suffix is the path and the suffix is empty, "/vN" with
    N ≥ 2 (no leading zero), or — for paths starting with "gopkg.in/" — ".vN" or ".vN-unstable". -/
theorem split_spec (p pre maj : Bytes) (h : splitPathVersion p = (pre, maj, true)) :
    pre ++ maj = p ∧ PathSpec.MajorSuffix p maj := by
  cases hg : isPrefixOfB (B "gopkg.in/") p
  · obtain ⟨h1, h2⟩ := splitPathVersion_nongopkg p pre maj hg h
    exact ⟨h1, h2.elim Or.inl (fun x => Or.inr (Or.inl x))⟩
  · have h' : splitGopkgIn p = (pre, maj, true) := by
      unfold splitPathVersion at h; simpa [hg] using h
    obtain ⟨h1, h2, h3⟩ := splitGopkgIn_ok p pre maj h'
    exact ⟨h1, Or.inr (Or.inr ⟨h2, h3⟩)⟩

/-- With ok = false SplitPathVersion returns (path, "", false). -/
theorem split_not_ok (p : Bytes) (h : (splitPathVersion p).2.2 = false) : splitPathVersion p = (p, [], false) := by
  unfold splitPathVersion splitGopkgIn at *
  dsimp only at *
  repeat' split at h
  all_goals (try (simp at h))
  all_goals (repeat' split)
  all_goals simp_all

/-- Splitting a valid module path: ok, prefix ++ suffix = path, documented suffix shape. -/
theorem split_valid_module_path (p : Bytes) (h : checkModPath p = .ok ()) :
    ∃ pre maj, splitPathVersion p = (pre, maj, true) ∧ pre ++ maj = p ∧ PathSpec.MajorSuffix p maj := by
  have hok := ((checkModPath_ok_iff p).mp h).2.2.2.2.2
  refine ⟨(splitPathVersion p).1, (splitPathVersion p).2.1, ?_, ?_⟩
  · rw [← hok]
  · exact split_spec p _ _ (by rw [← hok])

example : splitPathVersion (B "example.com/A~b/v2") = (B "example.com/A~b", B "/v2", true) := by decide +kernel
example : splitPathVersion (B "gopkg.in/yaml.v2-unstable") = (B "gopkg.in/yaml", B ".v2-unstable", true) := by decide +kernel
example : splitPathVersion (B "golang.org/x/mod") = (B "golang.org/x/mod", [], true) := by decide +kernel
example : (splitPathVersion (B "example.com/m/v1")).2.2 = false ∧ (splitPathVersion (B "example.com/m/v02")).2.2 = false
    ∧ (splitPathVersion (B "example.com/m/v2.1")).2.2 = false ∧ (splitPathVersion (B "gopkg.in/yaml.v-unstable")).2.2 = false
    ∧ (splitPathVersion (B "gopkg.in/yaml")).2.2 = false := by decide +kernel

/-! ### Check and CheckPathMajor -/

/-- Check(path, version) accepts exactly when CheckPath accepts the path, the version is a valid semantic
    version, and the path's major-version suffix matches the version under the documented correspondence
    `PathSpec.MajorMatches` (no suffix: v0, v1 or "+incompatible"; "/vN": major vN; gopkg.in ".vN[-unstable]":
    major vN, or N = 1 with a "v0.0.0-" pseudo-version).  With `checkModPath_iff` and `C04.isValid_iff` all
    three conjuncts are specification-level. -/
theorem check_iff (p v : Bytes) :
    check p v = .ok () ↔
      checkModPath p = .ok () ∧ Semver.isValid v = true ∧ PathSpec.MajorMatches (splitPathVersion p).2.1 v :=
  check_iff_full p v

/-- CheckPathMajor is the documented correspondence on every suffix of the documented shape (in particular
    on every suffix SplitPathVersion returns, `split_spec`). -/
theorem checkPathMajor_iff (p maj v : Bytes) (hs : PathSpec.MajorSuffix p maj) :
    checkPathMajor v maj = true ↔ PathSpec.MajorMatches maj v :=
  checkPathMajor_iff_matches p maj v hs

example : PathSpec.MajorSuffix (B "gopkg.in/yaml.v2") (B ".v2") :=
  Or.inr (Or.inr ⟨by decide +kernel, [50], ⟨by simp, by intro c hc; simp at hc; subst hc; unfold PathSpec.isAsciiDigit; decide, by simp⟩,
    Or.inl (by decide +kernel)⟩)

/-- no suffix: the version's major is v0 or v1, or the version ends in "+incompatible". -/
theorem major_match_empty (v : Bytes) :
    checkPathMajor v [] = true ↔
      (Semver.major v = B "v0" ∨ Semver.major v = B "v1" ∨ Semver.build v = B "+incompatible") := by
  rw [checkPathMajor_nil]
  unfold PathSpec.MajorMatches
  simp

/-- suffix "/vN": the version's major is "vN". -/
theorem major_match_slash (v n : Bytes) :
    checkPathMajor v (47 :: 118 :: n) = true ↔ Semver.major v = 118 :: n := by
  rw [checkPathMajor_slash]
  unfold PathSpec.MajorMatches
  simp

/-- gopkg.in suffix ".vN" or ".vN-unstable" (N digits): the version's major is "vN", or N = 1 and the
    version is a "v0.0.0-" pseudo-version. -/
theorem major_match_gopkg (v n : Bytes) (hn : ∀ d ∈ n, PathSpec.isAsciiDigit d.toNat) (uns : Bool) :
    checkPathMajor v (46 :: 118 :: (n ++ if uns then B "-unstable" else [])) = true ↔
      (Semver.major v = 118 :: n ∨ (n = [49] ∧ isPrefixOfB (B "v0.0.0-") v = true)) :=
  checkPathMajor_gopkg v n hn uns

/-- MatchPathMajor is CheckPathMajor == nil. -/
theorem matchPathMajor_eq (v maj : Bytes) : matchPathMajor v maj = checkPathMajor v maj := rfl

example : check (B "example.com/m/v2") (B "v2.1.0") = .ok () ∧ check (B "example.com/m/v2") (B "v1.0.0") = .error .major
    ∧ check (B "example.com/m") (B "v2.0.0+incompatible") = .ok () ∧ check (B "example.com/m") (B "v2.0.0") = .error .major
    ∧ check (B "gopkg.in/check.v1") (B "v0.0.0-20161208181325-20d25e280405") = .ok ()
    ∧ check (B "gopkg.in/yaml.v2-unstable") (B "v2.0.0") = .ok ()
    ∧ check (B "example.com/m") (B "1.0.0") = .error .notSemver := by decide +kernel
example : ∀ d ∈ ([49, 50] : Bytes), PathSpec.isAsciiDigit d.toNat := by
  intro d hd; simp at hd; rcases hd with rfl | rfl <;> (unfold PathSpec.isAsciiDigit; decide)

/-! ### PathMajorPrefix -/

/-- PathMajorPrefix returns (does not panic) exactly on: "" (result ""), the bare separators "/" and "."
    (result ""), and "/vN", ".vN", ".vN-unstable" with N a decimal number without leading zero (result "vN"). -/
theorem pathMajorPrefix_spec (maj m : Bytes) :
    pathMajorPrefix maj = some m ↔
      (maj = [] ∧ m = []) ∨ ((maj = [47] ∨ maj = [46]) ∧ m = []) ∨
      ∃ n, PathSpec.Num n ∧ m = 118 :: n ∧
        (maj = 47 :: 118 :: n ∨ maj = 46 :: 118 :: n ∨ maj = 46 :: 118 :: (n ++ B "-unstable")) :=
  pathMajorPrefix_iff maj m

/-- Both panics of PathMajorPrefix are unreachable on the suffixes SplitPathVersion returns with ok: the result
    is "" for the empty suffix and "vN" for "/vN", ".vN", ".vN-unstable". -/
theorem pathMajorPrefix_no_panic_on_split (p pre maj : Bytes) (h : splitPathVersion p = (pre, maj, true)) :
    (maj = [] ∧ pathMajorPrefix maj = some []) ∨
    ∃ n, PathSpec.Num n ∧ pathMajorPrefix maj = some (118 :: n) ∧
      (maj = 47 :: 118 :: n ∨ maj = 46 :: 118 :: n ∨ maj = 46 :: 118 :: (n ++ B "-unstable")) :=
  pathMajorPrefix_total_on_split p pre maj h

example : pathMajorPrefix (B ".v2-unstable") = some (B "v2") ∧ pathMajorPrefix (B "/v3") = some (B "v3")
    ∧ pathMajorPrefix (B "v2") = none ∧ pathMajorPrefix (B "/v2-unstable") = none ∧ pathMajorPrefix (B "/v02") = none := by
  decide +kernel

/-! ### MatchPrefixPatterns -/

/-- Private-module pattern matching is the documented prefix-glob definition, for every `glob`
    (path.Match is a parameter): some comma-separated pattern, after dropping one trailing slash, is
    non-empty, has N slashes, the target has at least N+1 slash-separated elements, and the pattern
    matches the first N+1 elements of the target. -/
theorem matchPrefixPatterns_iff_spec (glob : Bytes → Bytes → Bool) (globs target : Bytes) :
    matchPrefixPatterns glob globs target = true ↔ PathSpec.MatchSpec glob globs target := by
  unfold matchPrefixPatterns PathSpec.MatchSpec
  rw [List.any_eq_true]
  constructor
  · rintro ⟨g, hg, hm⟩; exact ⟨g, hg, (matchOne_iff glob g target).mp hm⟩
  · rintro ⟨g, hg, hm⟩; exact ⟨g, hg, (matchOne_iff glob g target).mpr hm⟩

-- non-vacuity with a concrete `glob` (literal equality): "golang.org/x/" matches the first two elements
example : matchPrefixPatterns (fun a b => a == b) (B ",example.com/,golang.org/x/") (B "golang.org/x/mod") = true := by
  decide +kernel
example : matchPrefixPatterns (fun a b => a == b) (B "golang.org/x/mod/sub") (B "golang.org/x/mod") = false := by
  decide +kernel

end ModVerif.Props.C06
