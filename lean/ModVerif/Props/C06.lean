/-
  C06 — Path validity rules and path/version matching follow the documented rules.
  Property theorems only; helper lemmas live in ModVerif/Proofs/Module*.lean.
  `isLetter` (unicode.IsLetter) and `glob` (path.Match) are universally quantified parameters.
-/
import ModVerif.Model.Module
import ModVerif.Proofs.ModulePath
namespace ModVerif.Props.C06
open ModVerif ModVerif.Module

/-! ### inclusions: module ⊆ import ⊆ file -/

/-- Every valid module path is a valid import path. -/
theorem mod_imp_import (p : Bytes) (h : checkModPath p = .ok ()) : checkImportPath p = .ok () := by
  have h1 := ((checkModPath_ok_iff p).mp h).1
  exact checkPath_mono _ _ .module .import_ p (fun r hr => importPathOK_of_mod r hr)
    (fun hk => by cases hk) (fun hk => by cases hk) h1

/-- Every valid import path is a valid file path (for every `isLetter`). -/
theorem import_imp_file (isLetter : Nat → Bool) (p : Bytes) (h : checkImportPath p = .ok ()) :
    checkFilePath isLetter p = .ok () :=
  checkPath_mono _ isLetter .import_ .file p (fun r hr => fileNameOK_of_import isLetter r hr)
    (fun hk => by cases hk) (fun hk => by cases hk) h

example : checkModPath (B "golang.org/x/mod") = .ok () := by decide +kernel
example : checkImportPath (B "example.com/c++") = .ok () ∧ checkModPath (B "example.com/c++") = .error .invalidChar := by
  decide +kernel
example : checkFilePath (fun _ => false) (B "a b/x~1") = .ok () ∧ checkImportPath (B "a b/x~1") = .error .invalidChar := by
  decide +kernel

end ModVerif.Props.C06
