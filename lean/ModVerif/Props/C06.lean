/-
  C06 — Path validity rules and path/version matching follow the documented rules.
  Property theorems only; helper lemmas live in ModVerif/Proofs/Module*.lean.
  `isLetter` (unicode.IsLetter) and `glob` (path.Match) are universally quantified parameters.
-/
import ModVerif.Model.Module
import ModVerif.Proofs.ModulePath
import ModVerif.Proofs.ModuleSplit
import ModVerif.Spec.PathSpec
namespace ModVerif.Props.C06
open ModVerif ModVerif.Module

/-! ### inclusions: module ⊆ import ⊆ file -/

/-- Every valid module path is a valid import path. -/
theorem mod_imp_import (p : Bytes) (h : checkModPath p = .ok ()) : checkImportPath p = .ok () := by
  have h1 := ((checkModPath_ok_iff p).mp h).1
  exact checkPath_mono _ _ .module .import_ p (fun r hr => importPathOK_of_mod r hr)
    (fun hk => by cases hk) (fun hk => by cases hk) h1

/-- Every valid import path is a valid file path (for every `isLetter`). -/
theorem import_imp_file (isLetter : Nat → Bool) (p : Bytes) (h : checkImportPath p = .ok ()) :
    checkFilePath isLetter p = .ok () :=
  checkPath_mono _ isLetter .import_ .file p (fun r hr => fileNameOK_of_import isLetter r hr)
    (fun hk => by cases hk) (fun hk => by cases hk) h

example : checkModPath (B "golang.org/x/mod") = .ok () := by decide +kernel
example : checkImportPath (B "example.com/c++") = .ok () ∧ checkModPath (B "example.com/c++") = .error .invalidChar := by
  decide +kernel
example : checkFilePath (fun _ => false) (B "a b/x~1") = .ok () ∧ checkImportPath (B "a b/x~1") = .error .invalidChar := by
  decide +kernel

/-! ### SplitPathVersion -/

/-- Whenever SplitPathVersion reports ok, prefix ++ suffix is the path and the suffix is empty, "/vN" with
    N ≥ 2 (no leading zero), or — for paths starting with "gopkg.in/" — ".vN" or ".vN-unstable". -/
theorem split_spec (p pre maj : Bytes) (h : splitPathVersion p = (pre, maj, true)) :
    pre ++ maj = p ∧ PathSpec.MajorSuffix p maj := by
  cases hg : isPrefixOfB (B "gopkg.in/") p
  · obtain ⟨h1, h2⟩ := splitPathVersion_nongopkg p pre maj hg h
    exact ⟨h1, h2.elim Or.inl (fun x => Or.inr (Or.inl x))⟩
  · have h' : splitGopkgIn p = (pre, maj, true) := by
      unfold splitPathVersion at h; simpa [hg] using h
    obtain ⟨h1, h2, h3⟩ := splitGopkgIn_ok p pre maj h'
    exact ⟨h1, Or.inr (Or.inr ⟨h2, h3⟩)⟩

/-- With ok = false SplitPathVersion returns (path, "", false). -/
theorem split_not_ok (p : Bytes) (h : (splitPathVersion p).2.2 = false) : splitPathVersion p = (p, [], false) := by
  unfold splitPathVersion splitGopkgIn at *
  dsimp only at *
  repeat' split at h
  all_goals (try (simp at h))
  all_goals (repeat' split)
  all_goals simp_all

/-- Splitting a valid module path: ok, prefix ++ suffix = path, documented suffix shape. -/
theorem split_valid_module_path (p : Bytes) (h : checkModPath p = .ok ()) :
    ∃ pre maj, splitPathVersion p = (pre, maj, true) ∧ pre ++ maj = p ∧ PathSpec.MajorSuffix p maj := by
  have hok := ((checkModPath_ok_iff p).mp h).2.2.2.2.2
  refine ⟨(splitPathVersion p).1, (splitPathVersion p).2.1, ?_, ?_⟩
  · rw [← hok]
  · exact split_spec p _ _ (by rw [← hok])

example : splitPathVersion (B "example.com/A~b/v2") = (B "example.com/A~b", B "/v2", true) := by decide +kernel
example : splitPathVersion (B "gopkg.in/yaml.v2-unstable") = (B "gopkg.in/yaml", B ".v2-unstable", true) := by decide +kernel
example : splitPathVersion (B "golang.org/x/mod") = (B "golang.org/x/mod", [], true) := by decide +kernel
example : (splitPathVersion (B "example.com/m/v1")).2.2 = false ∧ (splitPathVersion (B "example.com/m/v02")).2.2 = false
    ∧ (splitPathVersion (B "example.com/m/v2.1")).2.2 = false ∧ (splitPathVersion (B "gopkg.in/yaml.v-unstable")).2.2 = false
    ∧ (splitPathVersion (B "gopkg.in/yaml")).2.2 = false := by decide +kernel

end ModVerif.Props.C06
