/-
  C04 — Version comparison is the SemVer 2.0.0 total preorder on the documented grammar.
  Property theorems only; helper lemmas live in ModVerif/Proofs/{Cmp,CmpList,BytesOrder,SemverOrder}.lean.

  `Semver.compare`, `Semver.parse`, … are the executable model of semver.go (ModVerif.Model.Semver),
  tied to the Go code by the correspondence run of every check.
-/
import ModVerif.Model.Semver
import ModVerif.Proofs.SemverOrder
namespace ModVerif.Props.C04
open ModVerif ModVerif.Semver

/-- **Order characterisation.** `Compare v w` is the comparison of the keys of `v` and `w` in a strict
total order on keys: invalid versions have key `none` (lowest, all equal); a valid version has key
`(major, minor, patch, prerelease)` compared lexicographically, numbers by (length, bytes) — which
is numeric order for numbers without leading zeros, of ANY length —, a missing prerelease highest,
otherwise identifier lists lexicographically with a proper prefix lower, numeric identifiers below
alphanumeric ones, numeric by (length, bytes), alphanumeric bytewise.  (SemVer 2.0.0 §11.) -/
theorem compare_eq_key (v w : Bytes) :
    Semver.compare v w = optLowCmp keyCmp (vkey v) (vkey w) :=
  Semver.compare_eq_key v w

/-- the order on keys is a strict total order -/
theorem key_order_strict_total : StrictCmp (optLowCmp keyCmp) :=
  optLowCmp_strict keyCmp_strict

/-- Compare is reflexive. -/
theorem compare_refl (v : Bytes) : Semver.compare v v = 0 := by
  rw [compare_eq_key]; exact key_order_strict_total.refl _

/-- Compare is total with values in {-1, 0, +1}. -/
theorem compare_range (v w : Bytes) :
    Semver.compare v w = -1 ∨ Semver.compare v w = 0 ∨ Semver.compare v w = 1 := by
  rw [compare_eq_key]; exact key_order_strict_total.range _ _

/-- Compare is antisymmetric: swapping the arguments negates the result. -/
theorem compare_antisymm (v w : Bytes) : Semver.compare v w = - Semver.compare w v := by
  rw [compare_eq_key, compare_eq_key]; exact key_order_strict_total.antisymm _ _

/-- Compare is transitive (non-strict form). -/
theorem compare_trans_le (u v w : Bytes)
    (h1 : Semver.compare u v ≤ 0) (h2 : Semver.compare v w ≤ 0) : Semver.compare u w ≤ 0 := by
  rw [compare_eq_key] at *; exact key_order_strict_total.le_trans h1 h2

/-- Compare is transitive (strict form). -/
theorem compare_trans_lt (u v w : Bytes)
    (h1 : Semver.compare u v = -1) (h2 : Semver.compare v w = -1) : Semver.compare u w = -1 := by
  rw [compare_eq_key] at *; exact key_order_strict_total.trans _ _ _ h1 h2

/-- Mixed transitivity: `u < v ≤ w → u < w`. -/
theorem compare_trans_lt_le (u v w : Bytes)
    (h1 : Semver.compare u v = -1) (h2 : Semver.compare v w ≤ 0) : Semver.compare u w = -1 := by
  rw [compare_eq_key] at *
  have S := key_order_strict_total
  rcases S.range (vkey v) (vkey w) with b | b | b
  · exact S.trans _ _ _ h1 b
  · rw [← (S.eq_iff _ _).1 b]; exact h1
  · omega

/-- Mixed transitivity: `u ≤ v < w → u < w`. -/
theorem compare_trans_le_lt (u v w : Bytes)
    (h1 : Semver.compare u v ≤ 0) (h2 : Semver.compare v w = -1) : Semver.compare u w = -1 := by
  rw [compare_eq_key] at *
  have S := key_order_strict_total
  rcases S.range (vkey u) (vkey v) with a | a | a
  · exact S.trans _ _ _ a h2
  · rw [(S.eq_iff _ _).1 a]; exact h2
  · omega

/-- Compare returns 0 exactly when the keys agree. -/
theorem compare_eq_zero_iff_key (v w : Bytes) : Semver.compare v w = 0 ↔ vkey v = vkey w := by
  rw [compare_eq_key]; exact key_order_strict_total.eq_iff _ _

/-- All invalid strings compare equal. -/
theorem compare_invalid_invalid (v w : Bytes) (hv : isValid v = false) (hw : isValid w = false) :
    Semver.compare v w = 0 := by
  unfold isValid at hv hw
  cases h1 : parse v <;> cases h2 : parse w <;> simp_all [Semver.compare]

/-- Every invalid string is below every valid one. -/
theorem compare_invalid_valid (v w : Bytes) (hv : isValid v = false) (hw : isValid w = true) :
    Semver.compare v w = -1 := by
  unfold isValid at hv hw
  cases h1 : parse v <;> cases h2 : parse w <;> simp_all [Semver.compare]

/-- non-vacuity: a 40-digit minor compares numerically above a 39-digit one; a prerelease is below
its release; numeric identifiers are below alphanumeric ones; invalid is below valid. -/
example : Semver.compare (B "v1.1000000000000000000000000000000000000000.0") (B "v1.999999999999999999999999999999999999999.0") = 1 := by decide +kernel
example : Semver.compare (B "v1.2.3-rc.1") (B "v1.2.3") = -1 := by decide +kernel
example : Semver.compare (B "v1.2.3-1") (B "v1.2.3-a") = -1 := by decide +kernel
example : Semver.compare (B "v1") (B "v1.0.0") = 0 := by decide +kernel
example : Semver.compare (B "1.0.0") (B "v0.0.0-0") = -1 := by decide +kernel

end ModVerif.Props.C04
