/-
  C04 — Version comparison is the SemVer 2.0.0 total preorder on the documented grammar.
  Property theorems only; helper lemmas live in ModVerif/Proofs/Semver*.lean.
-/
import ModVerif.Model.Semver
namespace ModVerif.Props.C04
open ModVerif ModVerif.Semver

/-- Compare is reflexive. -/
theorem compare_refl (v : Bytes) : Semver.compare v v = 0 := by
  unfold Semver.compare
  cases h : parse v with
  | none => rfl
  | some p => simp [compareInt, comparePrerelease]

end ModVerif.Props.C04
