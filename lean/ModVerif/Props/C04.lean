/-
  C04 — Version comparison is the SemVer 2.0.0 total preorder on the documented grammar.
  Property theorems only; helper lemmas live in ModVerif/Proofs/{Cmp,CmpList,BytesOrder,SemverOrder}.lean.

  `Semver.compare`, `Semver.parse`, … are the executable model of semver.go (ModVerif.Model.Semver),
  tied to the Go code by the correspondence run of every check.
-/
import ModVerif.Model.Semver
import ModVerif.Proofs.SemverOrder
import ModVerif.Proofs.SemverCanonical
import ModVerif.Proofs.SemverSort
import ModVerif.Proofs.SemverNumeric
namespace ModVerif.Props.C04
open ModVerif ModVerif.Semver ModVerif.SemverSpec

/-- **Order characterisation.** `Compare v w` is the comparison of the keys of `v` and `w` in a strict
total order on keys: invalid versions have key `none` (lowest, all equal); a valid version has key
`(major, minor, patch, prerelease)` compared lexicographically, numbers by (length, bytes) — which
is numeric order for numbers without leading zeros, of ANY length —, a missing prerelease highest,
otherwise identifier lists lexicographically with a proper prefix lower, numeric identifiers below
alphanumeric ones, numeric by (length, bytes), alphanumeric bytewise.  (SemVer 2.0.0 §11.) -/
theorem compare_eq_key (v w : Bytes) :
    Semver.compare v w = optLowCmp keyCmp (vkey v) (vkey w) :=
  Semver.compare_eq_key v w

/-- **Numbers of any length are compared numerically.** On the number parts the grammar allows
(decimal, no leading zeros) the (length, bytes) comparison used by `compareInt` is the comparison of the
values, with no bound on the number of digits. -/
theorem compareInt_numeric (x y : Bytes) (hx : Num x) (hy : Num y) :
    compareInt x y = natCmp (decVal x) (decVal y) :=
  Semver.compareInt_numeric hx hy

example : Num (B "18446744073709551616") ∧ decVal (B "18446744073709551616") = 2^64 := by
  refine ⟨⟨by decide +kernel, by decide +kernel, by decide +kernel⟩, by decide +kernel⟩

/-- the order on keys is a strict total order -/
theorem key_order_strict_total : StrictCmp (optLowCmp keyCmp) :=
  optLowCmp_strict keyCmp_strict

/-- Compare is reflexive. -/
theorem compare_refl (v : Bytes) : Semver.compare v v = 0 := by
  rw [compare_eq_key]; exact key_order_strict_total.refl _

/-- Compare is total with values in {-1, 0, +1}. -/
theorem compare_range (v w : Bytes) :
    Semver.compare v w = -1 ∨ Semver.compare v w = 0 ∨ Semver.compare v w = 1 := by
  rw [compare_eq_key]; exact key_order_strict_total.range _ _

/-- Compare is antisymmetric: swapping the arguments negates the result. -/
theorem compare_antisymm (v w : Bytes) : Semver.compare v w = - Semver.compare w v := by
  rw [compare_eq_key, compare_eq_key]; exact key_order_strict_total.antisymm _ _

/-- Compare is transitive (non-strict form). -/
theorem compare_trans_le (u v w : Bytes)
    (h1 : Semver.compare u v ≤ 0) (h2 : Semver.compare v w ≤ 0) : Semver.compare u w ≤ 0 := by
  rw [compare_eq_key] at *; exact key_order_strict_total.le_trans h1 h2

/-- Compare is transitive (strict form). -/
theorem compare_trans_lt (u v w : Bytes)
    (h1 : Semver.compare u v = -1) (h2 : Semver.compare v w = -1) : Semver.compare u w = -1 := by
  rw [compare_eq_key] at *; exact key_order_strict_total.trans _ _ _ h1 h2

/-- Mixed transitivity: `u < v ≤ w → u < w`. -/
theorem compare_trans_lt_le (u v w : Bytes)
    (h1 : Semver.compare u v = -1) (h2 : Semver.compare v w ≤ 0) : Semver.compare u w = -1 := by
  rw [compare_eq_key] at *
  have S := key_order_strict_total
  rcases S.range (vkey v) (vkey w) with b | b | b
  · exact S.trans _ _ _ h1 b
  · rw [← (S.eq_iff _ _).1 b]; exact h1
  · omega

/-- Mixed transitivity: `u ≤ v < w → u < w`. -/
theorem compare_trans_le_lt (u v w : Bytes)
    (h1 : Semver.compare u v ≤ 0) (h2 : Semver.compare v w = -1) : Semver.compare u w = -1 := by
  rw [compare_eq_key] at *
  have S := key_order_strict_total
  rcases S.range (vkey u) (vkey v) with a | a | a
  · exact S.trans _ _ _ a h2
  · rw [(S.eq_iff _ _).1 a]; exact h2
  · omega

/-- Compare returns 0 exactly when the keys agree. -/
theorem compare_eq_zero_iff_key (v w : Bytes) : Semver.compare v w = 0 ↔ vkey v = vkey w := by
  rw [compare_eq_key]; exact key_order_strict_total.eq_iff _ _

/-- All invalid strings compare equal. -/
theorem compare_invalid_invalid (v w : Bytes) (hv : isValid v = false) (hw : isValid w = false) :
    Semver.compare v w = 0 := by
  unfold isValid at hv hw
  cases h1 : parse v <;> cases h2 : parse w <;> simp_all [Semver.compare]

/-- Every invalid string is below every valid one. -/
theorem compare_invalid_valid (v w : Bytes) (hv : isValid v = false) (hw : isValid w = true) :
    Semver.compare v w = -1 := by
  unfold isValid at hv hw
  cases h1 : parse v <;> cases h2 : parse w <;> simp_all [Semver.compare]

/-- **Grammar.** A string is a valid version exactly when it matches the documented grammar
`vMAJOR[.MINOR[.PATCH[-PRERELEASE][+BUILD]]]` (Spec/SemverSpec.lean, written without reference to `parse`). -/
theorem isValid_iff (v : Bytes) : isValid v = true ↔ Valid v := by
  rw [valid_iff_decomp]
  unfold isValid
  constructor
  · intro h
    cases hp : parse v with
    | none => rw [hp] at h; simp at h
    | some p => exact ⟨p, parse_decomp hp⟩
  · rintro ⟨p, hd⟩
    rw [decomp_parse hd]; rfl

/-- `parse` returns exactly the parts of the documented decomposition (shortened forms filled with "0"). -/
theorem parse_iff_decomp (v : Bytes) (p : Parsed) : parse v = some p ↔ Decomp v p :=
  Semver.parse_iff_decomp v p

/-- Every accessor is empty for invalid strings. -/
theorem accessors_invalid (v : Bytes) (h : isValid v = false) :
    canonical v = [] ∧ major v = [] ∧ majorMinor v = [] ∧ prerelease v = [] ∧ build v = [] := by
  unfold isValid at h
  cases hp : parse v with
  | none => simp [canonical, major, majorMinor, prerelease, build, hp]
  | some p => rw [hp] at h; simp at h

/-- Canonical(v) = "v" MAJOR "." MINOR "." PATCH PRERELEASE for valid `v`. -/
theorem canonical_spec (v : Bytes) (p : Parsed) (h : parse v = some p) :
    canonical v = 118 :: p.major ++ 46 :: p.minor ++ 46 :: p.patch ++ p.prerelease :=
  Semver.canonical_spec h

/-- Major(v) = "v" MAJOR; Prerelease and Build return the corresponding parts. -/
theorem major_prerelease_build_spec (v : Bytes) (p : Parsed) (h : parse v = some p) :
    major v = 118 :: p.major ∧ prerelease v = p.prerelease ∧ build v = p.build :=
  ⟨Semver.major_spec h, Semver.prerelease_spec h, Semver.build_spec h⟩

/-- MajorMinor(v) = "v" MAJOR "." MINOR (minor filled with 0 for the shortest form). -/
theorem majorMinor_spec (v : Bytes) (p : Parsed) (h : parse v = some p) :
    majorMinor v = 118 :: p.major ++ 46 :: p.minor :=
  Semver.majorMinor_spec h

/-- module.CanonicalVersion is Canonical, except that it keeps exactly the build suffix "+incompatible". -/
theorem canonicalVersion_spec (v : Bytes) :
    canonicalVersion v = if build v = B "+incompatible" then canonical v ++ B "+incompatible" else canonical v := by
  unfold canonicalVersion; simp

/-- **Compare returns 0 exactly when the canonical forms are identical.** -/
theorem compare_zero_iff_canonical (v w : Bytes) :
    Semver.compare v w = 0 ↔ canonical v = canonical w := by
  rw [compare_eq_zero_iff_key, vkey_eq_iff_canonical]

/-- The canonical form is a fixed point and compares equal to the original. -/
theorem canonical_idem (v : Bytes) : canonical (canonical v) = canonical v ∧ Semver.compare v (canonical v) = 0 := by
  cases hp : parse v with
  | none => simp [canonical_invalid hp, compare_zero_iff_canonical]; decide
  | some p =>
    have h2 := canonical_parse hp
    have e : canonical (canonical v) = canonical v := by
      rw [Semver.canonical_spec h2, Semver.canonical_spec hp]
    exact ⟨e, (compare_zero_iff_canonical _ _).2 e.symm⟩

/-- `ByVersion.Less` is a strict total order on all strings: Compare, ties broken bytewise. -/
theorem less_strict_total : StrictCmp lessCmp ∧ ∀ a b, less a b = true ↔ lessCmp a b = -1 :=
  ⟨lessCmp_strict, less_iff⟩

/-- the sortedness relation in terms of Compare: `a` may precede `b` iff `a` compares lower, or equal with
`a ≤ b` as strings -/
theorem le_spec (a b : Bytes) :
    Semver.le a b ↔ (Semver.compare a b = -1 ∨ (Semver.compare a b = 0 ∧ bytesLt b a = false)) := by
  unfold Semver.le less
  have anti := compare_antisymm a b
  have r := compare_range a b
  by_cases h : Semver.compare b a = 0
  · have h' : Semver.compare a b = 0 := by omega
    simp [h, h']
  · have h' : Semver.compare a b ≠ 0 := by omega
    simp [h, h']
    omega

/-- **Sorting.** The model's `sort` returns a permutation of its input ordered by Compare then by string,
and it is the ONLY such list: whatever (unstable) algorithm `sort.Sort` uses, its result is determined. -/
theorem sort_spec (l : List Bytes) :
    (Semver.sort l).Perm l ∧ (Semver.sort l).Pairwise Semver.le ∧
    ∀ l' : List Bytes, l'.Perm l → l'.Pairwise Semver.le → l' = Semver.sort l :=
  ⟨sort_perm l, sort_pairwise l, fun l' hp hs => sorted_perm_unique l l' hp hs⟩

example : Semver.sort [B "v1.0.0", B "v1", B "bad", B "v1.0.0-rc1"] = [B "bad", B "v1.0.0-rc1", B "v1", B "v1.0.0"] := by
  decide +kernel

/-- non-vacuity: a 40-digit minor compares numerically above a 39-digit one; a prerelease is below
its release; numeric identifiers are below alphanumeric ones; invalid is below valid. -/
example : Semver.compare (B "v1.1000000000000000000000000000000000000000.0") (B "v1.999999999999999999999999999999999999999.0") = 1 := by decide +kernel
example : Semver.compare (B "v1.2.3-rc.1") (B "v1.2.3") = -1 := by decide +kernel
example : Semver.compare (B "v1.2.3-1") (B "v1.2.3-a") = -1 := by decide +kernel
example : Semver.compare (B "v1") (B "v1.0.0") = 0 := by decide +kernel
example : Semver.compare (B "1.0.0") (B "v0.0.0-0") = -1 := by decide +kernel

end ModVerif.Props.C04
