/-
  C08 — go.mod / go.work edit operations do what a keyed-collection model says.

  `EditSpec.step` (Spec/EditSpec.lean) is the keyed-collection model of DESIGN.md §6; the Go oracle's abstract
  model is compared with it on every generated session (`edit.absstep`).  First part: the step table has the
  algebra the property text relies on ("keyed collections updated as each operation documents").  Second part:
  the MODEL of the operations (Model/Modfile/Edit.lean, tied to the Go code by the correspondence) refines the
  step table on the typed lists, for every go.mod and go.work operation and whole sessions (`refines_abs_typed`).
  Helper lemmas: Proofs/EditSpecLists.lean, Proofs/EditRefine*.lean.
-/
import ModVerif.Spec.EditSpec
import ModVerif.Proofs.EditSpecLists
import ModVerif.Model.Modfile.EditAbs
import ModVerif.Proofs.EditRefineWork
import ModVerif.Proofs.EditRefineValid
import ModVerif.Proofs.EditMoreStartW
import ModVerif.Proofs.EditMoreKeepF
import ModVerif.Proofs.EditWorkKeepB
import ModVerif.Proofs.EditReparseF
import ModVerif.Proofs.EditGoodBlocksC
import ModVerif.Proofs.EditWorkReparseD
namespace ModVerif.Props.C08
open ModVerif ModVerif.EditSpec ModVerif.Modfile

/-- Cleanup is the identity on the abstract file. -/
theorem cleanup_identity (V : Validity) (f : AbsFile) : step V f .cleanup = f := by
  simp [step, stepOk]

/-- An operation that reports an error leaves the abstract file unchanged. -/
theorem failed_op_unchanged (V : Validity) (f : AbsFile) (op : Op) (h : stepOk V f op = false) :
    step V f op = f := by
  simp [step, h]

/-- **Drop removes all.** After `DropX k` no entry with key `k` is left, for every keyed collection. -/
theorem dropX_removes_all (V : Validity) (f : AbsFile) :
    (∀ k, (step V f (.dropGodebug k)).godebug.any (fun e => e.1 == k) = false) ∧
    (∀ p, (step V f (.dropRequire p)).require.any (fun r => r.path == p) = false) ∧
    (∀ p v, (step V f (.dropExclude p v)).exclude.any (fun e => e == (p, v)) = false) ∧
    (∀ p v, (step V f (.dropReplace p v)).replace.any (fun r => r.oldPath == p && r.oldVers == v) = false) ∧
    (∀ lo hi, (step V f (.dropRetract lo hi)).retract.any (fun r => r.lo == lo && r.hi == hi) = false) ∧
    (∀ p, (step V f (.dropTool p)).tool.any (fun t => t == p) = false) ∧
    (∀ d, (step V f (.dropUse d)).use.any (fun u => u == d) = false) := by
  refine ⟨?_, ?_, ?_, ?_, ?_, ?_, ?_⟩ <;> intros <;> simp only [step, stepOk, Bool.not_true, Bool.false_eq_true, if_false] <;>
    exact dropAll_none _ _

/-- **Drop touches nothing else.** The entries with other keys are kept, in order (shown for requires
    and replaces; the other collections are instances of the same `dropAll_keeps`). -/
theorem dropX_keeps_others (V : Validity) (f : AbsFile) :
    (∀ p, (step V f (.dropRequire p)).require.filter (fun r => !(r.path == p)) = f.require.filter (fun r => !(r.path == p))) ∧
    (∀ p v, (step V f (.dropReplace p v)).replace.filter (fun r => !(r.oldPath == p && r.oldVers == v))
        = f.replace.filter (fun r => !(r.oldPath == p && r.oldVers == v))) := by
  refine ⟨?_, ?_⟩ <;> intros <;> simp only [step, stepOk, Bool.not_true, Bool.false_eq_true, if_false] <;>
    exact dropAll_keeps _ _

/-- **AddRequire sets exactly one line for the path**: afterwards there is exactly one requirement of
    `p`; it has version `v` and the indirect marking of the first previous requirement of `p`
    (direct if there was none). -/
theorem addRequire_unique (V : Validity) (f : AbsFile) (p v : Bytes) :
    (step V f (.addRequire p v)).require.filter (fun r => r.path == p)
      = [⟨p, v, ((f.require.find? (fun r => r.path == p)).map (·.indirect)).getD false⟩] := by
  simp only [step, stepOk, Bool.not_true, Bool.false_eq_true, if_false, setKeyed]
  by_cases h : f.require.any (fun r => r.path == p) = true
  · simp only [h, if_true]
    rw [updFirstDropRest_matched (fun r : Req => r.path == p) (fun r : Req => { r with vers := v }) (by intro x hx; exact hx)]
    rcases List.any_eq_true.1 h with ⟨a, ha, hpa⟩
    cases hf : f.require.find? (fun r => r.path == p) with
    | none => exact absurd hpa (by simpa using (List.find?_eq_none.1 hf) a ha)
    | some b =>
      have hb := List.find?_some hf
      have : b.path = p := by simpa using hb
      cases b; simp_all
  · simp only [Bool.not_eq_true] at h
    have h0 : f.require.filter (fun r => r.path == p) = [] := by
      apply List.filter_eq_nil_iff.2
      intro a ha; simpa using List.any_eq_false.1 h a ha
    have hn : f.require.find? (fun r => r.path == p) = none := by
      apply List.find?_eq_none.2
      intro a ha; simpa using List.any_eq_false.1 h a ha
    simp [h, List.filter_append, h0, hn]

/-- AddRequire leaves the requirements of every other path alone, in order. -/
theorem addRequire_keeps_others (V : Validity) (f : AbsFile) (p v : Bytes) :
    (step V f (.addRequire p v)).require.filter (fun r => !(r.path == p)) = f.require.filter (fun r => !(r.path == p)) := by
  simp only [step, stepOk, Bool.not_true, Bool.false_eq_true, if_false, setKeyed]
  by_cases h : f.require.any (fun r => r.path == p) = true
  · simp only [h, if_true]
    exact updFirstDropRest_others _ _ (by intro x hx; exact hx) _
  · simp only [Bool.not_eq_true] at h
    simp [h, List.filter_append]

/-- **Add then drop = drop**: a later operation sees what an earlier one did. -/
theorem addRequire_then_drop (V : Validity) (f : AbsFile) (p v : Bytes) :
    step V (step V f (.addRequire p v)) (.dropRequire p) = step V f (.dropRequire p) := by
  have h := addRequire_keeps_others V f p v
  simp only [step, stepOk, Bool.not_true, Bool.false_eq_true, if_false, dropAll] at h ⊢
  rw [h]

/-- the documented de-duplication is idempotent -/
theorem removeDups_idempotent (f : AbsFile) : removeDups (removeDups f) = removeDups f := by
  simp [removeDups, dedupFirst_idem, dedupLast_idem]

/-- SortBlocks is idempotent on the abstract file. -/
theorem sortBlocks_idempotent (V : Validity) (f : AbsFile) :
    step V (step V f .sortBlocks) .sortBlocks = step V f .sortBlocks := by
  simp [step, stepOk, removeDups_idempotent]

/-- after SortBlocks no two excludes, no two tools are equal and no two replacements share an `Old` -/
theorem sortBlocks_no_dups (V : Validity) (f : AbsFile) :
    let g := step V f .sortBlocks
    g.replace.Pairwise (fun a b => (a.oldPath, a.oldVers) ≠ (b.oldPath, b.oldVers)) := by
  simp only [step, stepOk, Bool.not_true, Bool.false_eq_true, if_false, removeDups]
  exact dedupLast_nodup _ _

/-- replacements: the LAST entry per `Old` is the one that survives SortBlocks -/
theorem sortBlocks_replace_last_wins (V : Validity) (f : AbsFile) (r : Repl) (rest : List Repl)
    (h : f.replace = rest ++ [r]) : r ∈ (step V f .sortBlocks).replace := by
  simp only [step, stepOk, Bool.not_true, Bool.false_eq_true, if_false, removeDups, h]
  clear h
  induction rest with
  | nil => simp [dedupLast]
  | cons x xs ih =>
    simp only [List.cons_append, dedupLast]
    split
    · exact ih
    · exact List.mem_cons_of_mem _ ih



/-! ### The MODEL of the operations refines the step table (typed lists)

    `stdValidity` = the specification's validity predicates; they ARE the checks the model of the Go functions performs
    (`validity_checks_eq`: the hand-translated matchers of `GoVersionRE`, `ToolchainRE` and `checkCanonicalVersion`);
    `Edit.StartOK f` = the starting file is well formed (no directive with an empty key, the
    exclude / replace / tool entries point at pairwise different lines of the tree); `Edit.ValidArgs op` = non-empty
    keys, bulk lists with pairwise distinct non-empty paths; `Rel` = equal scalars and lists, except that requirements
    (uses) are equal PER PATH — the order between different paths depends on Go's map iteration — and retractions are
    compared by interval (rationales: see the recorded findings below).  Helper lemmas: Proofs/EditRefine*.lean. -/

/-- **refines_abs_typed (go.mod).**  For every session of operations with valid arguments on a well-formed parsed
    file, for both map-iteration orders of every bulk setter: if the session completes (no Go panic), then the typed
    lists after the final Cleanup are exactly what the keyed-collection model predicts from the starting file, and
    each operation succeeds / returns an error exactly when the model says so. -/
theorem refines_abs_typed (f : File) (ops : List Edit.Op) (e' : Edit.EFile) (res : List Bool) (hs : Edit.StartOK f)
    (hv : ∀ op ∈ ops, Edit.ValidArgs op) (h : Edit.runOps Edit.applyMod (Edit.load f) ops [] 0 = .done e' res) :
    Rel (Edit.absOf (Edit.cleanup e').f) (run stdValidity (Edit.absOf f) (ops.map Edit.Op.toSpec)) ∧
    res = runOk stdValidity (Edit.absOf f) (ops.map Edit.Op.toSpec) := by
  rw [← Edit.mV_eq_std]; exact Edit.refines_abs_typed f ops e' res hs hv h

/-- **refines_abs_typed (go.work).** -/
theorem refines_abs_typed_work (f : WorkFile) (ops : List Edit.Op) (e' : Edit.EWork) (res : List Bool)
    (hs : Edit.WorkStartOK f) (hv : ∀ op ∈ ops, Edit.ValidArgs op)
    (h : Edit.runOps Edit.applyWork (Edit.loadWork f) ops [] 0 = .done e' res) :
    Rel (Edit.absOfWork (Edit.workCleanup e').f) (run stdValidity (Edit.absOfWork f) (ops.map Edit.Op.toSpec)) ∧
    res = runOk stdValidity (Edit.absOfWork f) (ops.map Edit.Op.toSpec) := by
  rw [← Edit.mV_eq_std]; exact Edit.refines_abs_typed_work f ops e' res hs hv h

/-- the same on the observable outcome of a whole `edit.session` (strict parse, operations, Cleanup) -/
theorem sessionMod_refines (file : Bytes) (ops : List Edit.Op) (o : Edit.Outcome) (f : File)
    (hf : parseStrict (B "go.mod") file none = .ok f) (hs : Edit.StartOK f) (hv : ∀ op ∈ ops, Edit.ValidArgs op)
    (h : Edit.sessionMod file ops = some o) :
    o.start = Edit.absOf f ∧ Rel o.typed (run stdValidity o.start (ops.map Edit.Op.toSpec)) ∧
    o.res = runOk stdValidity o.start (ops.map Edit.Op.toSpec) := by
  rw [← Edit.mV_eq_std]; exact Edit.sessionMod_refines file ops o f hf hs hv h

theorem sessionWork_refines (file : Bytes) (ops : List Edit.Op) (o : Edit.Outcome) (f : WorkFile)
    (hf : parseWork (B "go.work") file none = .ok f) (hs : Edit.WorkStartOK f) (hv : ∀ op ∈ ops, Edit.ValidArgs op)
    (h : Edit.sessionWork file ops = some o) :
    o.start = Edit.absOfWork f ∧ Rel o.typed (run stdValidity o.start (ops.map Edit.Op.toSpec)) ∧
    o.res = runOk stdValidity o.start (ops.map Edit.Op.toSpec) := by
  rw [← Edit.mV_eq_std]; exact Edit.sessionWork_refines file ops o f hf hs hv h

/-- what `Rel` means for an observer: every collection is the same multiset (retractions: of intervals), the scalars
    are equal — the "≈" of lean/PENDING.md, and more (order is preserved except between requirements / uses of
    different paths) -/
theorem Rel_observable {f g : AbsFile} (h : Rel f g) :
    f.module = g.module ∧ f.go = g.go ∧ f.toolchain = g.toolchain ∧ f.godebug = g.godebug ∧ f.require.Perm g.require ∧
    f.exclude = g.exclude ∧ f.replace = g.replace ∧ f.retract.map Retr.interval = g.retract.map Retr.interval ∧
    f.tool = g.tool ∧ f.use.Perm g.use :=
  ⟨h.module, h.go, h.toolchain, h.godebug, h.require.perm, h.exclude, h.replace, h.retract, h.tool, h.use.perm⟩

/-- one operation of the model = one step of the table (the per-operation refinement lemma): success ⇒ `stepOk` and
    the specified new state; a returned error ⇒ `stepOk` is false -/
theorem applyMod_refines_step (e : Edit.EFile) (op : Edit.Op) (hv : Edit.ValidArgs op) (hi : Edit.TInv e) :
    (∀ e', Edit.applyMod e op = some (.ok e') →
      stepOk stdValidity (Edit.absOf (Edit.cleanup e).f) op.toSpec = true ∧
      Rel (Edit.absOf (Edit.cleanup e').f) (step stdValidity (Edit.absOf (Edit.cleanup e).f) op.toSpec) ∧ Edit.TInv e') ∧
    (∀ err, Edit.applyMod e op = some (.error err) → err.isReturned = true →
      stepOk stdValidity (Edit.absOf (Edit.cleanup e).f) op.toSpec = false) := by
  rw [← Edit.mV_eq_std]; exact Edit.applyMod_refines e op hv hi

/-- the specification's validity predicates are the checks the Go functions perform (as the model computes them):
    `GoVersionRE`, `ToolchainRE`, `checkCanonicalVersion` -/
theorem validity_checks_eq :
    (∀ s, goVersionRE s = stdValidity.goVersion s) ∧ (∀ s, toolchainRE s = stdValidity.toolchain s) ∧
    (∀ p v, Edit.checkCanonicalVersion p v = stdValidity.version p v) :=
  ⟨Edit.goVersionRE_eq, Edit.toolchainRE_eq, Edit.checkCanonicalVersion_eq⟩

/-- non-vacuity of `refines_abs_typed` / `sessionMod_refines`: a concrete well-formed file and a valid session
    (duplicates, deferred removals, a bulk setter in reversed map order, a retraction, a tool) that completes -/
example : (match parseStrict (B "go.mod") (B "module example.com/m\n\ngo 1.21\n\nrequire (\n\texample.com/a v1.0.0 // indirect\n\texample.com/b v1.2.3\n\texample.com/a v1.1.0\n)\n\nexclude example.com/b v1.0.0\n\nreplace example.com/a v1.0.0 => ../a\n\ntool example.com/t\n") none with
    | .ok f =>
      let ops : List Edit.Op := [.addRequire (B "example.com/a") (B "v1.5.0"), .addExclude (B "example.com/b") (B "v1.0.0"),
        .dropRequire (B "example.com/b"), .cleanup,
        .setRequire [⟨B "example.com/e", B "v1.0.0", true⟩, ⟨B "example.com/a", B "v1.9.0", false⟩] true,
        .addRetract (B "v1.0.0") (B "v1.0.0") (B "bad"), .addTool (B "example.com/u")]
      Edit.startOKb f && ops.all Edit.validArgsB &&
        (match Edit.runOps Edit.applyMod (Edit.load f) ops [] 0 with
         | .done _ res => res.all id
         | _ => false)
    | .error _ => false) = true := by decide +kernel

/-- non-vacuity, go.work -/
example : (match parseWork (B "go.work") (B "go 1.21\n\nuse (\n\t./a\n\t./b\n)\n\nreplace example.com/a => ../a\n") none with
    | .ok f =>
      let ops : List Edit.Op := [.addUse (B "./c") [], .dropUse (B "./a"), .cleanup, .setUse [(B "./b", []), (B "./d", [])] true,
        .addReplace (B "example.com/a") [] (B "../b") []]
      Edit.workStartOKb f && ops.all Edit.validArgsB &&
        (match Edit.runOps Edit.applyWork (Edit.loadWork f) ops [] 0 with
         | .done _ res => res.all id
         | _ => false)
    | .error _ => false) = true := by decide +kernel

/-! ### Recorded findings (known_findings.json), C08 side: the keyed-collection prediction
    `run stdValidity start ops` and the strict re-parse of the model's output differ in a retraction's
    rationale (same three structural causes as in Props/C15.lean). -/

theorem C08_violated_retract_block_comment_inherited :
    Edit.outcomeIs (Edit.sessionMod (B "module m\n// bad block\nretract (\n\tv1.0.0\n\tv1.2.0\n)\n") [.addRetract (B "v1.1.0") (B "v1.1.0") []])
      (fun o => (run stdValidity o.start [.addRetract (B "v1.1.0") (B "v1.1.0") []]).retract.contains ⟨B "v1.1.0", B "v1.1.0", []⟩ &&
                (o.reparsed.map fun a => a.retract.contains ⟨B "v1.1.0", B "v1.1.0", B "bad block"⟩ &&
                                         !a.retract.contains ⟨B "v1.1.0", B "v1.1.0", []⟩) == some true) = true := by
  decide +kernel

theorem C08_violated_retract_collapse_merged_block_comment :
    Edit.outcomeIs (Edit.sessionMod (B "// x\nretract (\n\tv1.2.3 // c1\n)\n") [])
      (fun o => (run stdValidity o.start []).retract == [⟨B "v1.2.3", B "v1.2.3", B "c1"⟩] &&
                (o.reparsed.map (·.retract)) == some [⟨B "v1.2.3", B "v1.2.3", B "x\nc1"⟩]) = true := by
  decide +kernel

theorem C08_violated_retract_blank_line_dropped :
    Edit.outcomeIs (Edit.sessionMod (B "// note\nretract (\n\t[v2.9.0, v2.0.0-alpha.1]\n\n\tv2.9.0\n)\n") [.sortBlocks])
      (fun o => (run stdValidity o.start [.sortBlocks]).retract.contains ⟨B "v2.9.0", B "v2.9.0", []⟩ &&
                (o.reparsed.map fun a => a.retract.contains ⟨B "v2.9.0", B "v2.9.0", B "note"⟩ &&
                                         !a.retract.contains ⟨B "v2.9.0", B "v2.9.0", []⟩) == some true) = true := by
  decide +kernel

/-- non-vacuity of the refinement claim on the model: a session with duplicates, a commented block and a
    bulk setter — the model's strict re-parse has exactly the directives the step table predicts
    (requires compared as lists after the final sort: the prediction is a permutation in general). -/
example :
    Edit.outcomeIs (Edit.sessionMod (B "module example.com/m\n\ngo 1.21\n\nrequire (\n\texample.com/a v1.0.0 // indirect\n\t// keep\n\texample.com/b v1.2.3\n\texample.com/a v1.1.0\n)\n\nexclude example.com/b v1.0.0\n")
        [.addRequire (B "example.com/a") (B "v1.5.0"), .addExclude (B "example.com/b") (B "v1.0.0"), .dropRequire (B "example.com/b"), .cleanup])
      (fun o => o.reparsed == some (run stdValidity o.start
        [.addRequire (B "example.com/a") (B "v1.5.0"), .addExclude (B "example.com/b") (B "v1.0.0"), .dropRequire (B "example.com/b"), .cleanup])
        && o.res == [true, true, true, true] && o.reparsed == some o.typed) = true := by
  decide +kernel

/-- non-vacuity: a concrete session on a file with duplicates -/
example :
    (run stdValidity { require := [⟨B "a", B "v1.0.0", true⟩, ⟨B "b", B "v1.0.0", false⟩, ⟨B "a", B "v1.1.0", false⟩] }
        [.addRequire (B "a") (B "v1.2.0"), .cleanup]).require
      = [⟨B "a", B "v1.2.0", true⟩, ⟨B "b", B "v1.0.0", false⟩] := by decide +kernel

example : stepOk stdValidity {} (.addExclude (B "example.com/a") (B "v1.2")) = false := by decide +kernel
example : stepOk stdValidity {} (.addExclude (B "example.com/a") (B "v1.2.0")) = true := by decide +kernel
example : stepOk stdValidity {} (.addGo (B "1.21rc1")) = true ∧ stepOk stdValidity {} (.addGo (B "1.x")) = false := by decide +kernel

/-! ### Every strictly parsed starting file (Proofs/EditMoreStart*.lean) -/

/-- **refines_abs_typed for EVERY strictly parsed starting file.**  The structural half of `Edit.StartOK` (the exclude /
    replace / tool entries point at pairwise different lines of the tree) holds for every file the strict parser accepts
    (`Edit.parseStrict_startOK`: the parser creates one typed entry per line, line ids are pairwise different — C20
    `parse_ids_nodup`).  So for a whole `edit.session` the only condition on the starting file is the property's
    "well-formed": no directive with an empty key (`Edit.WellFormedKeys`, observation O5 of Props/C15.lean). -/
theorem sessionMod_refines_wellformed (file : Bytes) (ops : List Edit.Op) (o : Edit.Outcome) (f : File)
    (hf : parseStrict (B "go.mod") file none = .ok f) (hk : Edit.WellFormedKeys f) (hv : ∀ op ∈ ops, Edit.ValidArgs op)
    (h : Edit.sessionMod file ops = some o) :
    o.start = Edit.absOf f ∧ Rel o.typed (run stdValidity o.start (ops.map Edit.Op.toSpec)) ∧
    o.res = runOk stdValidity o.start (ops.map Edit.Op.toSpec) :=
  sessionMod_refines file ops o f hf (Edit.parseStrict_startOK hf hk) hv h

/-- … and for go.work (`Edit.WorkKeys`: godebug keys, use paths and replaced paths are non-empty) -/
theorem sessionWork_refines_wellformed (file : Bytes) (ops : List Edit.Op) (o : Edit.Outcome) (f : WorkFile)
    (hf : parseWork (B "go.work") file none = .ok f) (hk : Edit.WorkKeys f) (hv : ∀ op ∈ ops, Edit.ValidArgs op)
    (h : Edit.sessionWork file ops = some o) :
    o.start = Edit.absOfWork f ∧ Rel o.typed (run stdValidity o.start (ops.map Edit.Op.toSpec)) ∧
    o.res = runOk stdValidity o.start (ops.map Edit.Op.toSpec) :=
  sessionWork_refines file ops o f hf (Edit.parseWork_startOK hf hk) hv h

/-- non-vacuity of the two theorems above: parsed files with non-empty keys on which a valid session has an outcome -/
example :
    (match parseStrict (B "go.mod") (B "module example.com/m\n\nrequire example.com/a v1.0.0\nexclude example.com/b v1.0.0\ntool example.com/t\n") none with
     | .ok f => Edit.startOKb f && (Edit.sessionMod (B "module example.com/m\n\nrequire example.com/a v1.0.0\nexclude example.com/b v1.0.0\ntool example.com/t\n")
         [.addRequire (B "example.com/a") (B "v1.5.0"), .dropTool (B "example.com/t")]).isSome
     | .error _ => false) = true ∧
    (match parseWork (B "go.work") (B "go 1.21\nuse ./a\n") none with
     | .ok f => Edit.workStartOKb f && (Edit.sessionWork (B "go 1.21\nuse ./a\n") [.addUse (B "./b") []]).isSome
     | .error _ => false) = true := by
  constructor <;> decide +kernel

/-! ### Untouched lines survive (Proofs/EditMoreKeep*.lean)

    `Edit.viewX stmts` = the live lines of the tree with their FULL tokens (block verb in front), their whole-line
    comments (`Before`) and their end-of-line comments (`Suffix`).  `Edit.Targets op toks`: the tokens are those of the
    directive the operation names — `require <path> _` for AddRequire/DropRequire of that path, the `go` line for
    AddGoStmt/DropGoStmt, `replace <old path> …` for AddReplace/DropReplace, every `require` line for the two bulk
    setters (which rewrite all requirements), …; Add operations that only append name no line.  `Edit.Sorts op`: the
    operation ends with SortBlocks, whose documented de-duplication removes the lines in `Edit.kill3` (later duplicate
    excludes, earlier replacements of the same module, later duplicate tools). -/

/-- **one operation leaves every line it does not name as it is.**  From a state satisfying the tree invariant
    (Props/C15), for EVERY go.mod operation with valid arguments: a live line whose tokens the operation does not name
    and which is not removed as a duplicate by SortBlocks is still in the tree afterwards, with the same line id, the
    same full tokens, and `Before` / `Suffix` comments containing the old ones as sublists. -/
theorem op_untouched_line_survives (e e' : Edit.EFile) (op : Edit.Op) (hv : Edit.ValidArgsAll e op) (hi : Edit.Inv e)
    (h : Edit.applyMod e op = some (.ok e')) (x : Edit.XLine) (hx : x ∈ Edit.viewX e.f.syn.stmts)
    (hnt : ¬Edit.Targets op x.toks) (hk : Edit.Sorts op = true → x.id ∉ Edit.kill3 e.f) :
    ∃ x' ∈ Edit.viewX e'.f.syn.stmts, x'.id = x.id ∧ x'.toks = x.toks ∧ x.before.Sublist x'.before ∧
      x.suffix.Sublist x'.suffix :=
  Edit.applyMod_untouched e e' op hv hi h x hx hnt hk

/-- **untouched_lines_survive.**  In a session of go.mod operations (bulk setters included) with valid arguments
    (`Edit.RunValid`) from a state satisfying the tree invariant — e.g. `Edit.load f` for any strictly parsed well-formed
    `f`: `Props.C15.parseStrict_inv` — a directive line that no operation of the session names and that no SortBlocks
    removes as a duplicate (`Edit.Spared`, a condition on the line's tokens and id along the run) is still in the tree after
    the final Cleanup: same line id, same full tokens; its `Before` and `Suffix` comments are sublists of the final ones
    (Cleanup may add the comments of a collapsed one-line block).  go.work sessions: `untouched_lines_survive_work` below. -/
theorem untouched_lines_survive (e e' : Edit.EFile) (ops : List Edit.Op) (res : List Bool) (hi : Edit.Inv e)
    (hv : Edit.RunValid e ops) (h : Edit.runOps Edit.applyMod e ops [] 0 = .done e' res)
    (x : Edit.XLine) (hx : x ∈ Edit.viewX e.f.syn.stmts) (hsp : Edit.Spared x.toks x.id e ops) :
    ∃ x' ∈ Edit.viewX (Edit.cleanup e').f.syn.stmts, x'.id = x.id ∧ x'.toks = x.toks ∧ x.before.Sublist x'.before ∧
      x.suffix.Sublist x'.suffix :=
  Edit.untouched_lines_survive e e' ops res hi hv h x hx hsp

/-- non-vacuity of `untouched_lines_survive` / `op_untouched_line_survives`: in a parsed file with comments, the `exclude`
    line (with its `Before` and `Suffix` comments) is spared by a session that edits requirements, the go line and tools
    (`Edit.sparedB` is a sound Boolean test of `Spared`, `Edit.runValidB` of `RunValid`, `Edit.invB` of `Inv`), and it is
    found unchanged in the final tree -/
example :
    (match parseStrict (B "go.mod") (B "module m\n\ngo 1.20\n\nrequire (\n\ta v1.0.0 // indirect\n\tb v1.0.0\n)\n\n// why\nexclude x v1.0.0 // note\n") none with
     | .ok f =>
       let e := Edit.load f
       let ops : List Edit.Op := [.addRequire (B "a") (B "v1.1.0"), .addGo (B "1.21"), .cleanup,
         .setRequireSeparateIndirect [⟨B "a", B "v1.2.0", false⟩, ⟨B "c", B "v1.0.0", true⟩] false, .addTool (B "t")]
       Edit.invB e && Edit.runValidB e ops &&
       (Edit.viewX e.f.syn.stmts).any (fun x => x.toks == [B "exclude", B "x", B "v1.0.0"] && x.before.length == 1 &&
         x.suffix.length == 1 && Edit.sparedB x.toks x.id e ops &&
         (match Edit.runOps Edit.applyMod e ops [] 0 with
          | .done e' _ => (Edit.viewX (Edit.cleanup e').f.syn.stmts).any (fun y => y.id == x.id && y.toks == x.toks &&
              y.before == x.before && y.suffix == x.suffix)
          | _ => false))
     | .error _ => false) = true := by decide +kernel

/-! ### Untouched lines survive, go.work (Proofs/EditWorkKeep{A,B}.lean)

    `Edit.TargetsW op toks`: the tokens are those of the directive the go.work operation names — the `go` / `toolchain`
    line for AddGoStmt / DropGoStmt / AddToolchainStmt / DropToolchainStmt, `godebug <key>=…`, `use <dir>` for AddUse /
    DropUse of that directory, every `use` line for SetUse (which may remove any of them), `replace <old path> …` for
    AddReplace / DropReplace.  `Edit.SortsW op`: the operation ends with WorkFile.SortBlocks (SortBlocks itself, SetUse),
    whose de-duplication removes the lines of earlier replacements of the same module (`Edit.killEarlier`).
    `Edit.ValidArgsWAll e op`: non-empty keys; SetUse with pairwise distinct non-empty directories on live `use` entries. -/

/-- **one go.work operation leaves every line it does not name as it is** (go.work counterpart of
    `op_untouched_line_survives`; `workAddGoStmt` / `workAddToolchainStmt` insert their line by index, SetUse included) -/
theorem op_untouched_line_survives_work (e e' : Edit.EWork) (op : Edit.Op) (hv : Edit.ValidArgsWAll e op) (hi : Edit.InvW e)
    (h : Edit.applyWork e op = some (.ok e')) (x : Edit.XLine) (hx : x ∈ Edit.viewX e.f.syn.stmts)
    (hnt : ¬Edit.TargetsW op x.toks) (hk : Edit.SortsW op = true → x.id ∉ Edit.killEarlier e.f.replace) :
    ∃ x' ∈ Edit.viewX e'.f.syn.stmts, x'.id = x.id ∧ x'.toks = x.toks ∧ x.before.Sublist x'.before ∧
      x.suffix.Sublist x'.suffix :=
  Edit.applyWork_untouched e e' op hv hi h x hx hnt hk

/-- **untouched_lines_survive, go.work.**  In a session of go.work operations (SetUse included) with valid arguments
    (`Edit.RunValidW`) from a state satisfying the go.work tree invariant — e.g. `Edit.loadWork f` for any file accepted by
    `parseWork` with non-empty keys: `Props.C15.parseWork_inv` — a directive line that no operation of the session names and
    that no SortBlocks removes as a duplicate replacement (`Edit.SparedW`) is still in the tree after the final Cleanup: same
    line id, same full tokens; its `Before` and `Suffix` comments are sublists of the final ones. -/
theorem untouched_lines_survive_work (e e' : Edit.EWork) (ops : List Edit.Op) (res : List Bool) (hi : Edit.InvW e)
    (hv : Edit.RunValidW e ops) (h : Edit.runOps Edit.applyWork e ops [] 0 = .done e' res)
    (x : Edit.XLine) (hx : x ∈ Edit.viewX e.f.syn.stmts) (hsp : Edit.SparedW x.toks x.id e ops) :
    ∃ x' ∈ Edit.viewX (Edit.workCleanup e').f.syn.stmts, x'.id = x.id ∧ x'.toks = x.toks ∧ x.before.Sublist x'.before ∧
      x.suffix.Sublist x'.suffix :=
  Edit.untouched_lines_survive_work e e' ops res hi hv h x hx hsp

/-- non-vacuity of `untouched_lines_survive_work` / `op_untouched_line_survives_work`: in a parsed go.work with comments, the
    `replace` line (with its `Before` and `Suffix` comments) is spared by a session that edits uses (AddUse, SetUse after a
    Cleanup), the go and toolchain lines and a godebug, and sorts (`Edit.invWB`, `Edit.runValidWB`, `Edit.sparedWB` are sound
    Boolean tests of `InvW`, `RunValidW`, `SparedW`); it is found unchanged in the final tree -/
example :
    (match parseWork (B "go.work") (B "go 1.21\n\nuse (\n\t./a\n\t./b\n)\n\n// why\nreplace example.com/x => ../x // note\n\ngodebug k=v\n") none with
     | .ok f =>
       let e := Edit.loadWork f
       let ops : List Edit.Op := [.addUse (B "./c") [], .addGo (B "1.22"), .addToolchain (B "go1.22.0"), .dropGodebug (B "k"), .cleanup,
         .setUse [(B "./b", []), (B "./d", [])] true, .sortBlocks]
       Edit.invWB e && Edit.runValidWB e ops &&
       (Edit.viewX e.f.syn.stmts).any (fun x => x.toks == [B "replace", B "example.com/x", B "=>", B "../x"] && x.before.length == 1 &&
         x.suffix.length == 1 && Edit.sparedWB x.toks x.id e ops &&
         (match Edit.runOps Edit.applyWork e ops [] 0 with
          | .done e' res => res.all id && (Edit.viewX (Edit.workCleanup e').f.syn.stmts).any (fun y => y.id == x.id && y.toks == x.toks &&
              y.before == x.before && y.suffix == x.suffix)
          | _ => false))
     | .error _ => false) = true := by decide +kernel

/-! ### `refines_abs`, the re-parse half (Proofs/EditReparse*.lean; C15 `typed_eq_reparse_partial2`) -/

/-- **refines_abs, re-parse half (partial).**  For every go.mod text accepted by the strict parser whose directives have
    non-empty keys and readable values (`Edit.AbsOK`: canonical versions fitting the path's major version, readable paths — C02's
    "well-formed"), without block suffix comment and with settable markers (the two recorded findings excluded by C15's
    `typed_eq_tree_partial4_static`), and every statically valid session of go.mod operations with readable arguments
    (`Edit.ArgsOK`): if the session has an outcome, the strict re-parse of the formatted file succeeds and holds exactly what
    the step table predicts from the starting file — scalars equal, every directive list equal as a multiset (`Edit.AbsPerm`;
    the ORDER of the re-parsed lists is the order of the lines in the file, which SortBlocks changes, so list equality would
    be false), retractions compared by interval (rationales: the recorded `C15_violated_retract_*` findings) — and each
    operation succeeds exactly when the table says so.
    Assumed of the final tree (decidable, `Edit.finalTreeB`): blocks carry block verbs, comments stand where the parser puts
    them (see Props/C15.lean, section "The typed lists equal the strict re-parse"). -/
theorem refines_abs_reparse_partial (file : Bytes) (ops : List Edit.Op) (o : Edit.Outcome) (f : File)
    (hf : parseStrict (B "go.mod") file none = .ok f) (hk : Edit.WellFormedKeys f) (hs : Edit.NoBlockSuffix f.syn)
    (hm : Edit.MarkersSettable f.syn.stmts) (hstart : Edit.AbsOK (Edit.absOf f)) (hv : Edit.StaticValid false ops)
    (hmod : ∀ op ∈ ops, Edit.IsModOp op) (hargs : ∀ op ∈ ops, Edit.ArgsOK op.toSpec)
    (h : Edit.sessionMod file ops = some o) (htree : Edit.finalTreeB o.tree = true) :
    ∃ r, o.reparsed = some r ∧ Edit.AbsPerm r (run stdValidity o.start (ops.map Edit.Op.toSpec)) ∧
      o.res = runOk stdValidity o.start (ops.map Edit.Op.toSpec) := by
  obtain ⟨r, hr, hp, hrel⟩ := Edit.typed_eq_reparse_session2 file ops o f hf hk hs hm hstart hv hmod hargs h htree
  have h3 := (sessionMod_refines_wellformed file ops o f hf hk (Edit.StaticValid.validArgs ops false hv hmod) h).2.2
  exact ⟨r, hr, hp.trans (Edit.absPerm_of_rel hrel), h3⟩

/-- non-vacuity: start conditions, static validity and readable arguments hold for a session that touches every list; the
    outcome passes `finalTreeB`, and the re-parse is the step table's prediction up to the order of the exclude list -/
example :
    let src := B "module example.com/m\n\ngo 1.21\n\nrequire (\n\texample.com/a v1.0.0 // indirect\n\t// keep\n\texample.com/b v1.2.3\n)\n\nexclude (\n\texample.com/z v1.0.0\n\texample.com/y v1.0.0\n)\n"
    let ops : List Edit.Op := [.addRequire (B "example.com/a") (B "v1.5.0"), .addExclude (B "example.com/z") (B "v1.1.0"),
      .dropRequire (B "example.com/b"), .addTool (B "example.com/t"), .addReplace (B "example.com/a") [] (B "../a") [],
      .cleanup, .setRequire [⟨B "example.com/a", B "v1.6.0", false⟩, ⟨B "example.com/c", B "v0.1.0", true⟩] false, .cleanup]
    (match parseStrict (B "go.mod") src none with
     | .ok f => Edit.startOKb f && f.syn.stmts.all (fun x => match x with
         | .lineBlock b => b.comments.suffix.isEmpty
         | _ => true) && decide (Edit.MarkersSettable f.syn.stmts) && Edit.absOKB (Edit.absOf f)
     | .error _ => false) &&
    Edit.staticValidB false ops && ops.all (fun op => Edit.argsOKB op.toSpec) &&
    Edit.outcomeIs (Edit.sessionMod src ops) (fun o => Edit.finalTreeB o.tree &&
      o.reparsed != some (run stdValidity o.start (ops.map Edit.Op.toSpec)) &&
      (o.reparsed.map (·.require)) == some (run stdValidity o.start (ops.map Edit.Op.toSpec)).require) = true := by
  decide +kernel

/-- **refines_abs, the re-parse half (partial 2).**  As `refines_abs_reparse_partial`, with the comment placement
    `Edit.comShapeB o.tree` as the ONLY hypothesis on the final tree: the block-verb half of `Edit.finalTreeB` (no `go (` /
    `toolchain (` block) is an invariant of statically valid sessions from a strictly parsed file
    (C15 `goodBlocks_invariant_session`, Proofs/EditGoodBlocks{A,B,C}.lean), so it is derived, not assumed.
    What keeps the name `_partial`: `comShapeB` (whole-line comments are `//` texts, a blank-line placeholder only inside a
    block, not first, not doubled; at most one end-of-line comment per node; no header comment) is NOT an invariant —
    SortBlocks / Cleanup may move a blank-line placeholder to the top of a block (`C15_violated_retract_blank_line_dropped`);
    removing it needs C02's rendering lemma for trees with misplaced placeholders. -/
theorem refines_abs_reparse_partial2 (file : Bytes) (ops : List Edit.Op) (o : Edit.Outcome) (f : File)
    (hf : parseStrict (B "go.mod") file none = .ok f) (hk : Edit.WellFormedKeys f) (hs : Edit.NoBlockSuffix f.syn)
    (hm : Edit.MarkersSettable f.syn.stmts) (hstart : Edit.AbsOK (Edit.absOf f)) (hv : Edit.StaticValid false ops)
    (hmod : ∀ op ∈ ops, Edit.IsModOp op) (hargs : ∀ op ∈ ops, Edit.ArgsOK op.toSpec)
    (h : Edit.sessionMod file ops = some o) (hcom : Edit.comShapeB o.tree = true) :
    ∃ r, o.reparsed = some r ∧ Edit.AbsPerm r (run stdValidity o.start (ops.map Edit.Op.toSpec)) ∧
      o.res = runOk stdValidity o.start (ops.map Edit.Op.toSpec) := by
  obtain ⟨r, hr, hp, hrel⟩ := Edit.typed_eq_reparse_session4 file ops o f hf hk hs hm hstart hv hmod hargs h hcom
  have h3 := (sessionMod_refines_wellformed file ops o f hf hk (Edit.StaticValid.validArgs ops false hv hmod) h).2.2
  exact ⟨r, hr, hp.trans (Edit.absPerm_of_rel hrel), h3⟩

/-- non-vacuity: a session with DropGoStmt + AddGoStmt (the dead `go` line is still in the tree when the new one is added —
    the case in which a `go (` block could arise, and does not), both bulk setters and SortBlocks; the start conditions, static
    validity and readable arguments hold, the outcome passes `comShapeB`, and the re-parsed requirements are the step table's -/
example :
    let src := B "module example.com/m\n\ngo 1.21\n\nrequire (\n\texample.com/a v1.0.0 // indirect\n\t// keep\n\texample.com/b v1.2.3\n)\n\nexclude (\n\texample.com/z v1.0.0\n\texample.com/y v1.0.0\n)\n"
    let ops : List Edit.Op := [.dropGo, .addGo (B "1.22"), .addRequire (B "example.com/a") (B "v1.5.0"),
      .addExclude (B "example.com/z") (B "v1.1.0"), .sortBlocks,
      .cleanup, .setRequireSeparateIndirect [⟨B "example.com/a", B "v1.6.0", false⟩, ⟨B "example.com/c", B "v0.1.0", true⟩] false,
      .cleanup]
    (match parseStrict (B "go.mod") src none with
     | .ok f => Edit.startOKb f && f.syn.stmts.all (fun x => match x with
         | .lineBlock b => b.comments.suffix.isEmpty
         | _ => true) && decide (Edit.MarkersSettable f.syn.stmts) && Edit.absOKB (Edit.absOf f)
     | .error _ => false) &&
    Edit.staticValidB false ops && ops.all (fun op => Edit.argsOKB op.toSpec) &&
    Edit.outcomeIs (Edit.sessionMod src ops) (fun o => Edit.comShapeB o.tree &&
      (o.reparsed.map (·.require)) == some (run stdValidity o.start (ops.map Edit.Op.toSpec)).require &&
      (o.reparsed.map (·.go)) == some (some (B "1.22"))) = true := by
  decide +kernel

/-- **refines_abs, the re-parse half, go.work (partial).**  For every go.work text accepted by `ParseWork` whose directives
    have non-empty keys and readable values (`Edit.W.AbsOKW`: readable `use` directories and replace paths, valid replace
    versions, go / toolchain / godebug texts that need no quotes — C02's "well-formed"), without block suffix comment, and every
    statically valid session of go.work operations (`Edit.StaticValidW`: SetUse directly after a Cleanup, distinct non-empty
    directories) with readable arguments (`Edit.W.ArgsOKW`): if the session has an outcome (it always runs to completion:
    C15 `nilDeref_unreachable_work`), `ParseWork` of the formatted file succeeds and holds exactly what the step table predicts
    from the starting file — go / toolchain equal, godebug / use / replace equal as multisets (`Edit.W.AbsPermW`) — and each
    operation succeeds exactly when the table says so.  = `sessionWork_refines` composed with C15
    `typed_eq_reparse_work_partial2`.  What keeps the name `_partial`: the comment placement `Edit.comShapeB o.tree` of the
    FINAL tree (not an invariant: see `refines_abs_reparse_partial2`); the block-verb condition is derived. -/
theorem refines_abs_reparse_work_partial (file : Bytes) (ops : List Edit.Op) (o : Edit.Outcome) (f : WorkFile)
    (hf : parseWork (B "go.work") file none = .ok f) (hk : Edit.WorkKeys f) (hs : Edit.NoBlockSuffix f.syn)
    (hstart : Edit.W.AbsOKW (Edit.absOfWork f)) (hv : Edit.StaticValidW false ops)
    (hw : ∀ op ∈ ops, Edit.IsWorkOp op) (hargs : ∀ op ∈ ops, Edit.W.ArgsOKW op.toSpec)
    (h : Edit.sessionWork file ops = some o) (hcom : Edit.comShapeB o.tree = true) :
    ∃ r, o.reparsed = some r ∧ Edit.W.AbsPermW r (run stdValidity o.start (ops.map Edit.Op.toSpec)) ∧
      o.res = runOk stdValidity o.start (ops.map Edit.Op.toSpec) := by
  obtain ⟨r, hr, hp, hrel, hres⟩ := Edit.W.typed_eq_reparse_work_session2 file ops o f hf hk hs hstart hv hw hargs h hcom
  exact ⟨r, hr, hp.trans (Edit.W.absPermW_of_rel hrel), hres⟩

/-- non-vacuity: a parsed go.work with a `use` block; start conditions, static validity, go.work operations and readable
    arguments hold; the outcome passes `comShapeB`, and the re-parsed `use` list is the step table's up to order -/
example :
    let src := B "// c\n\ngo 1.21\n\nuse (\n\t./a\n\t\"./b c\" // note\n)\n\nreplace example.com/a => ../a\n\ngodebug x=y\n"
    let ops : List Edit.Op := [.addUse (B "./d") [], .dropUse (B "./a"), .addGo (B "1.22"), .cleanup,
       .setUse [(B "./z", B "m"), (B "./b c", []), (B "./e", [])] true, .addReplace (B "x.y/z") [] (B "../z") [], .sortBlocks]
    (match parseWork (B "go.work") src none with
     | .ok f => Edit.workStartOKb f && f.syn.stmts.all (fun x => match x with
         | .lineBlock b => b.comments.suffix.isEmpty
         | _ => true) && Edit.W.absOKWB (Edit.absOfWork f)
     | .error _ => false) &&
    Edit.staticValidWB false ops && ops.all Edit.isWorkOpB && ops.all (fun op => Edit.W.argsOKWB op.toSpec) &&
    Edit.outcomeIs (Edit.sessionWork src ops) (fun o => Edit.comShapeB o.tree &&
      (o.reparsed.map (·.use)) == some [B "./b c", B "./e", B "./z"] &&
      (run stdValidity o.start (ops.map Edit.Op.toSpec)).use == [B "./b c", B "./z", B "./e"] &&
      (o.reparsed.map (·.go)) == some (some (B "1.22"))) = true := by
  decide +kernel

end ModVerif.Props.C08
