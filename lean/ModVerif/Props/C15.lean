/-
  C15 — the typed directive lists and the syntax tree never diverge under edits.

  Specification-side consequences ("an operation applied later in the same session sees everything an
  earlier one added or changed"), stated on `EditSpec.step`, and the model-side invariant `typed_eq_tree`
  (typed lists = directive-level reading of the syntax tree, no cleared entries) over Model/Modfile/Edit.lean:
  proved for every go.mod operation but the two bulk requirement setters (`typed_eq_tree_partial2`); what is
  not yet proved of it is listed in lean/PENDING.md.
-/
import ModVerif.Spec.EditSpec
import ModVerif.Proofs.EditSpecLists
import ModVerif.Model.Modfile.EditAbs
import ModVerif.Proofs.EditModel
import ModVerif.Proofs.EditRefineInvRun
import ModVerif.Proofs.EditRefineNoPanic
import ModVerif.Proofs.EditRefineInvBulk
import ModVerif.Proofs.EditRefineInvCheck
import ModVerif.Proofs.EditRefineInvWork
import ModVerif.Proofs.EditMoreStartW
import ModVerif.Proofs.EditMoreSepG
import ModVerif.Proofs.EditMoreNoPanic
import ModVerif.Proofs.EditMarkerInv
import ModVerif.Proofs.EditPanicRun
import ModVerif.Proofs.EditReparseF
import ModVerif.Proofs.EditGoodBlocksC
import ModVerif.Proofs.EditWorkReparseD
import ModVerif.Proofs.EditStartFixRun
import ModVerif.Proofs.EditStartFixStub
import ModVerif.Proofs.EditReparseFixA
namespace ModVerif.Props.C15
open ModVerif ModVerif.EditSpec ModVerif.Modfile

/-- a requirement added by `AddNewRequire` is seen by a later `DropRequire` of the same path -/
theorem later_drop_sees_earlier_add (V : Validity) (f : AbsFile) (p v : Bytes) (i : Bool) :
    (step V (step V f (.addNewRequire p v i)) (.dropRequire p)).require = (step V f (.dropRequire p)).require := by
  simp [step, stepOk, dropAll, List.filter_append]

/-- a godebug set twice keeps one entry, with the later value -/
theorem later_add_sees_earlier_add (V : Validity) (f : AbsFile) (k v w : Bytes) :
    (step V (step V f (.addGodebug k v)) (.addGodebug k w)).godebug.filter (fun e => e.1 == k) = [(k, w)] := by
  simp only [step, stepOk, Bool.not_true, Bool.false_eq_true, if_false]
  have hu : ∀ (x : Bytes × Bytes) (u : Bytes), (fun e : Bytes × Bytes => e.1 == k) x = true → (fun e : Bytes × Bytes => e.1 == k) ((fun _ => (k, u)) x) = true := by
    intro x u _; simp
  have h1 : (setKeyed (fun e : Bytes × Bytes => e.1 == k) (fun _ => (k, v)) (k, v) f.godebug).any (fun e => e.1 == k) = true := by
    have := setKeyed_present (fun e : Bytes × Bytes => e.1 == k) (fun _ => (k, v)) (k, v) (fun x h => hu x v h) (by simp) f.godebug
    cases hl : (setKeyed (fun e : Bytes × Bytes => e.1 == k) (fun _ => (k, v)) (k, v) f.godebug).filter (fun e => e.1 == k) with
    | nil => simp [hl] at this
    | cons a t =>
      have ha : a ∈ (setKeyed (fun e : Bytes × Bytes => e.1 == k) (fun _ => (k, v)) (k, v) f.godebug).filter (fun e => e.1 == k) := by
        rw [hl]; exact List.mem_cons_self
      rcases List.mem_filter.1 ha with ⟨h1, h2⟩
      exact List.any_eq_true.2 ⟨a, h1, h2⟩
  conv => lhs; rw [setKeyed]
  simp only [h1, if_true]
  rw [updFirstDropRest_matched (fun e : Bytes × Bytes => e.1 == k) (fun _ => (k, w)) (fun x h => hu x w h)]
  rcases List.any_eq_true.1 h1 with ⟨a, ha, hka⟩
  cases hf : (setKeyed (fun e : Bytes × Bytes => e.1 == k) (fun _ => (k, v)) (k, v) f.godebug).find? (fun e => e.1 == k) with
  | none => exact absurd hka (by simpa using (List.find?_eq_none.1 hf) a ha)
  | some b => simp


/-! ### Recorded findings (known_findings.json): the typed `Rationale` of a retraction is computed from the
    comment placement at parse / AddRetract time, and Format + strict parse can attribute other comments.
    Each witness runs the MODEL (strict parse → operations → Cleanup → Format → strict parse). -/

/-- G1: `AddRetract(v1.1.0, "")` puts a comment-less line into a commented retract block: the typed
    rationale is empty, the strict re-parse inherits the block comment "bad block". -/
theorem C15_violated_retract_block_comment_inherited :
    Edit.outcomeIs (Edit.sessionMod (B "module m\n// bad block\nretract (\n\tv1.0.0\n\tv1.2.0\n)\n") [.addRetract (B "v1.1.0") (B "v1.1.0") []])
      (fun o => o.typed.retract.contains ⟨B "v1.1.0", B "v1.1.0", []⟩ &&
                (o.reparsed.map fun a => a.retract.contains ⟨B "v1.1.0", B "v1.1.0", B "bad block"⟩ &&
                                         !a.retract.contains ⟨B "v1.1.0", B "v1.1.0", []⟩) == some true) = true := by
  decide +kernel

/-- G2: Cleanup alone collapses a one-line commented block and merges the block comment into the line:
    typed rationale "c1", re-parsed rationale "x\nc1". -/
theorem C15_violated_retract_collapse_merged_block_comment :
    Edit.outcomeIs (Edit.sessionMod (B "// x\nretract (\n\tv1.2.3 // c1\n)\n") [])
      (fun o => o.typed.retract == [⟨B "v1.2.3", B "v1.2.3", B "c1"⟩] &&
                (o.reparsed.map (·.retract)) == some [⟨B "v1.2.3", B "v1.2.3", B "x\nc1"⟩]) = true := by
  decide +kernel

/-- G4: a line preceded only by a blank line does not inherit the block comment when parsed; SortBlocks moves
    it to the top of the block, the blank line disappears, and the re-parse inherits "note". -/
theorem C15_violated_retract_blank_line_dropped :
    Edit.outcomeIs (Edit.sessionMod (B "// note\nretract (\n\t[v2.9.0, v2.0.0-alpha.1]\n\n\tv2.9.0\n)\n") [.sortBlocks])
      (fun o => o.typed.retract.contains ⟨B "v2.9.0", B "v2.9.0", []⟩ &&
                (o.reparsed.map fun a => a.retract.contains ⟨B "v2.9.0", B "v2.9.0", B "note"⟩ && !a.retract.contains ⟨B "v2.9.0", B "v2.9.0", []⟩) == some true) = true := by
  decide +kernel



/-- Observation O5 (why the well-formedness hypothesis `Edit.WellFormedKeys` of `typed_eq_tree` / `refines_abs_typed`
    is necessary): a strict parse accepts a directive with an EMPTY key (`require "" v1.0.0`; likewise `tool ""`,
    `godebug =x`, `exclude "" v…`, `replace "" => …`, go.work `use ""`), and Cleanup — which recognises cleared
    placeholders by their empty key — drops the typed entry while the line stays in the tree.  Such files are not
    well-formed in the sense of the property (paths are non-empty); this is not a finding. -/
theorem empty_key_dropped_by_cleanup_observation :
    Edit.outcomeIs (Edit.sessionMod (B "module m\nrequire \"\" v1.0.0\n") [])
      (fun o => o.start.require == [⟨[], B "v1.0.0", false⟩] && o.typed.require == [] &&
                (o.reparsed.map (·.require)) == some [⟨[], B "v1.0.0", false⟩]) = true ∧
    Edit.outcomeIs (Edit.sessionWork (B "go 1.21\nuse \"\"\n") [])
      (fun o => o.start.use == [[]] && o.typed.use == [] && (o.reparsed.map (·.use)) == some [[]]) = true := by
  constructor <;> decide +kernel

/-- **No cleared placeholder entries after Cleanup** (model of File.Cleanup / WorkFile.Cleanup): every typed
    list of the cleaned file holds only live entries.  (This is the clause F2/F3 violated before the fixes:
    the model's `cleanup` compacts `tool`, `workCleanup` compacts `godebug`.) -/
theorem cleanup_no_cleared_entries (e : Edit.EFile) (w : Edit.EWork) :
    ((∀ g ∈ (Edit.cleanup e).f.godebug, g.key ≠ []) ∧ (∀ r ∈ (Edit.cleanup e).f.require, r.mod.path ≠ []) ∧
     (∀ x ∈ (Edit.cleanup e).f.exclude, x.mod.path ≠ []) ∧ (∀ r ∈ (Edit.cleanup e).f.replace, r.old.path ≠ []) ∧
     (∀ r ∈ (Edit.cleanup e).f.retract, r.interval.low ≠ [] ∨ r.interval.high ≠ []) ∧ (∀ t ∈ (Edit.cleanup e).f.tool, t.path ≠ [])) ∧
    ((∀ g ∈ (Edit.workCleanup w).f.godebug, g.key ≠ []) ∧ (∀ u ∈ (Edit.workCleanup w).f.use, u.path ≠ []) ∧
     (∀ r ∈ (Edit.workCleanup w).f.replace, r.old.path ≠ [])) :=
  ⟨Edit.cleanup_no_cleared e, Edit.workCleanup_no_cleared w⟩

/-- `typed_eq_tree`, the part checked so far: on a concrete session touching every list (adds, drops with
    deferred removal, a bulk setter, a tool) the typed lists after Cleanup equal the strict re-parse of the
    formatted file.  The universally quantified invariant is in lean/PENDING.md. -/
theorem typed_eq_tree_partial :
    Edit.outcomeIs (Edit.sessionMod (B "module example.com/m\n\ngo 1.21\n\nrequire (\n\texample.com/a v1.0.0 // indirect\n\texample.com/b v1.2.3\n\texample.com/a v1.1.0\n)\n\nexclude example.com/b v1.0.0\n\nreplace example.com/a v1.0.0 => ../a\n\ntool example.com/t\n\ngodebug panicnil=1\n")
        [.addRetract (B "v1.0.0") (B "v1.0.0") (B "bad"), .dropTool (B "example.com/t"), .addTool (B "example.com/u"),
         .addReplace (B "example.com/a") [] (B "example.com/c") (B "v1.2.0"), .dropExclude (B "example.com/b") (B "v1.0.0"),
         .addGodebug (B "panicnil") (B "0"), .cleanup,
         .setRequireSeparateIndirect [⟨B "example.com/a", B "v1.4.0", false⟩, ⟨B "example.com/e", B "v1.0.0", true⟩] true, .cleanup])
      (fun o => o.reparsed == some o.typed && o.res.all id &&
                o.typed.retract == [⟨B "v1.0.0", B "v1.0.0", B "bad"⟩] && o.typed.tool == [B "example.com/u"] &&
                o.typed.replace == [⟨B "example.com/a", [], B "example.com/c", B "v1.2.0"⟩] && o.typed.exclude == []) = true := by
  decide +kernel


/-! ### The typed lists and the syntax tree describe the same directives (model level)

    `Edit.view stmts` = the live lines of the tree with their FULL tokens (block verb in front) and end-of-line
    comments; `Edit.entries f` = one entry per live typed directive: the id of its syntax line (Go: the `Syntax`
    pointer) and what that line must look like — verb, AutoQuoted path, version, … and, for a requirement, the
    `// indirect` marker iff the entry is indirect.  `Edit.Inv e` = the tree is well formed (pairwise different line
    ids below the fresh-id counter, one-verb blocks) and `Match`: the entries point at pairwise different live lines,
    each line is the rendering of its entry, and every live line belongs to an entry — i.e. the typed lists ARE the
    directive-level reading of the tree, without going through Format ∘ Parse.
    Helper lemmas: Proofs/EditRefineTree.lean (what updateLine / markRemoved / addLine / Cleanup / SortBlocks /
    removeDups do to `view`), EditRefineInv*.lean. -/

/-- **typed_eq_tree (partial 2).**  From a state satisfying the invariant — e.g. the empty go.mod, `Inv_empty` — after
    ANY session of go.mod operations with valid arguments (all operations except SetRequire and
    SetRequireSeparateIndirect) and the final Cleanup, the invariant holds again: the typed lists equal the
    directive-level reading of the syntax tree, and (`cleanup_no_cleared_entries`) hold no cleared placeholder.
    What is missing for the full C15 statement:
    (1) `Inv (load f)` for every strictly parsed, well-formed `f` (a fact about the parser's token rewriting and id
        numbering; kernel-evaluated sessions from parsed files: `typed_eq_tree_partial`);
    (2) SetRequireSeparateIndirect (block surgery); SetRequire is `setRequire_preserves_inv` below, under
        `NoNestedIndirectMarker` (no requirement line whose comment text after `indirect;` is again an indirect marker:
        the recorded finding `C16_violated_indirect_marker_survives`);
    (3) the print/parse round trip of the tree (C02's `format_preserves_directives`) to pass from "reading of the
        tree" to "strict parse of the formatted file" — where the three recorded rationale findings live. -/
theorem typed_eq_tree_partial2 (e e' : Edit.EFile) (ops : List Edit.Op) (res : List Bool) (hi : Edit.Inv e)
    (hv : ∀ op ∈ ops, Edit.ValidArgsT op) (h : Edit.runOps Edit.applyMod e ops [] 0 = .done e' res) :
    Edit.Inv (Edit.cleanup e') :=
  Edit.typed_eq_tree_partial2 e e' ops res hi hv h

/-- **nilDeref_unreachable (partial).**  From a state satisfying the invariant, a session of go.mod operations with
    valid arguments (all but the two bulk requirement setters) ALWAYS runs to completion: no operation panics (the
    model's explicit `nilDeref` = Go's nil `Syntax` dereference on a cleared entry; the only failures are the three
    documented returned errors), and the final state satisfies the invariant again.  Missing for the full statement: the
    bulk setters after a Cleanup (they dereference every requirement, cleared ones included). -/
theorem nilDeref_unreachable_partial (e : Edit.EFile) (ops : List Edit.Op) (hi : Edit.Inv e)
    (hv : ∀ op ∈ ops, Edit.ValidArgsT op ∧ Edit.IsModOp op) :
    ∃ e' res, Edit.runOps Edit.applyMod e ops [] 0 = .done e' res ∧ Edit.Inv (Edit.cleanup e') := by
  rcases Edit.runOps_total ops e [] 0 hv hi with ⟨e', res, h⟩
  exact ⟨e', res, h, Edit.typed_eq_tree_partial2 e e' ops res hi (fun op hop => (hv op hop).1) h⟩

/-- the invariant is decidable on a concrete state: `Edit.invB` is a sound Boolean test, so `Inv (load f)` can be
    discharged by kernel evaluation for any concrete parsed file (the universally quantified
    `parseStrict … = .ok f → Inv (load f)` is in lean/PENDING.md) -/
theorem inv_checkable (e : Edit.EFile) (h : Edit.invB e = true) : Edit.Inv e := Edit.invB_sound e h

/-- non-vacuity on PARSED files: strictly parsed go.mod files (quoted paths, a `+meta` version the parser
    canonicalises, retract intervals, one-line and multi-line blocks, comments everywhere) satisfy the invariant after
    `load`, and a session with valid arguments runs on them -/
example :
    (match parseStrict (B "go.mod") (B "// header\nmodule \"example.com/m\"\n\ngo 1.21rc1 // c\ntoolchain go1.21.0\n\nrequire \"example.com/a\" v1.0.0+meta // indirect; why\nrequire (\n\texample.com/b v1.2.3\n\t// keep\n\texample.com/a v1.1.0\n)\nretract (\n\tv1.0.0 // bad\n\t[v1.1.0, v1.2.0]\n)\nretract [v1.3.0, v1.3.0]\nreplace (\n\texample.com/a => example.com/b v1.0.0\n\texample.com/c v1.0.0 => ./x\n)\ngodebug (\n\tpanicnil=1\n\tx=y=z\n)\ntool (\n\t\"example.com/t\"\n)\nexclude (\n\ta v1.0.0\n) // trailing\n") none with
     | .ok f =>
       Edit.invB (Edit.load f) &&
         (match Edit.runOps Edit.applyMod (Edit.load f)
            [.addRequire (B "example.com/a") (B "v1.5.0"), .dropRequire (B "example.com/b"), .addExclude (B "a") (B "v1.1.0"),
             .addReplace (B "example.com/a") [] (B "../z") [], .dropRetract (B "v1.0.0") (B "v1.0.0"), .addTool (B "example.com/u"),
             .addGodebug (B "x") (B "1"), .sortBlocks, .cleanup] [] 0 with
          | .done e res => res.all id && Edit.invB e
          | _ => false)
     | .error _ => false) = true := by decide +kernel

/-- **SetRequire preserves the invariant** — when every typed requirement is live (a Cleanup has just run, as the
    property prescribes) and under `NoNestedIndirectMarker`: `setIndirect` achieves what it is asked for on every
    requirement line.  That hypothesis fails exactly for the recorded finding
    `Props.C16.C16_violated_indirect_marker_survives` (comment text after `indirect;` that is again an indirect marker);
    it is decidable on a concrete file (`Edit.NoNestedIndirectMarker.of_all`). -/
theorem setRequire_preserves_inv (e e' : Edit.EFile) (want : List Edit.Want) (perm : List Edit.Want → List Edit.Want)
    (hperm : ∀ l, (perm l).Perm l) (hg : Edit.GoodWant want) (hi : Edit.Inv e)
    (hlive : ∀ r ∈ e.f.require, Edit.liveRq r = true) (hset : Edit.NoNestedIndirectMarker e)
    (h : Edit.setRequire e want perm = .ok e') : Edit.Inv e' :=
  Edit.setRequire_inv e e' want perm hperm hg hi hlive hset h

/-- **typed_eq_tree, go.work.**  The same invariant for workspace files (`Edit.InvW`: go, toolchain, godebug, use,
    replace): it holds for the empty go.work (`Edit.InvW_empty`), is preserved by every go.work operation with valid
    arguments (SetUse: `setUse_preserves_inv`), hence holds after every such session and the final Cleanup. -/
theorem typed_eq_tree_work (e e' : Edit.EWork) (ops : List Edit.Op) (res : List Bool) (hi : Edit.InvW e)
    (hv : ∀ op ∈ ops, Edit.ValidArgsW op) (h : Edit.runOps Edit.applyWork e ops [] 0 = .done e' res) :
    Edit.InvW (Edit.workCleanup e') :=
  Edit.typed_eq_tree_work e e' ops res hi hv h

/-- SetUse preserves the invariant (every typed use live: a Cleanup has just run), for every map-iteration order -/
theorem setUse_preserves_inv (e e' : Edit.EWork) (dirs : List (Bytes × Bytes))
    (perm : List (Bytes × Bytes) → List (Bytes × Bytes)) (hperm : ∀ l, (perm l).Perm l) (hg : Edit.GoodUse dirs)
    (hi : Edit.InvW e) (hlive : ∀ u ∈ e.f.use, Edit.liveU u = true) (h : Edit.setUse e dirs perm = .ok e') : Edit.InvW e' :=
  Edit.setUse_inv e e' dirs perm hperm hg hi hlive h

theorem InvW_empty : Edit.InvW (Edit.loadWork {}) := Edit.InvW_empty

/-- non-vacuity (go.work): a session from the empty workspace file with valid arguments runs to completion, and SetUse
    then succeeds on the cleaned state (all uses live) -/
example :
    (match Edit.runOps Edit.applyWork (Edit.loadWork {})
        [.addGo (B "1.21"), .addUse (B "./a") [], .addNewUse (B "./b") [], .addUse (B "./a") (B "m"), .dropUse (B "./b"),
         .addReplace (B "example.com/a") [] (B "../a") [], .addGodebug (B "x") (B "1"), .sortBlocks, .cleanup] [] 0 with
     | .done e res => res.all id && e.f.use.all Edit.liveU &&
         (Edit.setUse e [(B "./c", []), (B "./a", [])] (Edit.permOf true)).isOk
     | _ => false) = true := by decide +kernel

/-- one operation preserves the invariant (the per-operation lemma (ii) of lean/PENDING.md) -/
theorem op_preserves_inv (e e' : Edit.EFile) (op : Edit.Op) (hv : Edit.ValidArgsT op) (hi : Edit.Inv e)
    (h : Edit.applyMod e op = some (.ok e')) : Edit.Inv e' :=
  Edit.applyMod_inv e e' op hv hi h

/-- the empty go.mod satisfies the invariant (non-vacuity of `typed_eq_tree_partial2`, together with the session below) -/
theorem Inv_empty : Edit.Inv (Edit.load {}) := Edit.Inv_empty

/-- what the invariant says, for requirements: every live typed requirement has its own live line
    `require <AutoQuoted path> <version>` whose end-of-line comment carries the indirect marker iff the entry is
    indirect; and every live line of the tree is the rendering of the typed entry with its id -/
theorem inv_reads_tree (e : Edit.EFile) (hi : Edit.Inv e) :
    (∀ r ∈ e.f.require, r.mod.path ≠ [] →
      ∃ v ∈ Edit.view e.f.syn.stmts, v.id = r.lineId ∧ v.toks = [B "require", autoQuote r.mod.path, r.mod.version] ∧
        Edit.isIndirectS v.suffix = r.indirect) ∧
    (∀ v ∈ Edit.view e.f.syn.stmts, ∃ en ∈ Edit.entries e.f, en.id = v.id ∧ en.acc v.toks v.suffix) ∧
    ((Edit.entries e.f).map (·.id)).Nodup :=
  ⟨fun r hr hl => hi.require_line r hr hl, fun v hv => hi.line_entry v hv, hi.mtch.nodup⟩

/-- non-vacuity: a session built up from the empty file with valid arguments that runs to completion (so the
    hypotheses of `typed_eq_tree_partial2` are jointly satisfiable, with `Inv_empty`) -/
example :
    let ops : List Edit.Op := [.addModule (B "example.com/m"), .addGo (B "1.21"), .addRequire (B "example.com/a") (B "v1.0.0"),
      .addNewRequire (B "example.com/b") (B "v1.2.3") true, .addRequire (B "example.com/a") (B "v1.1.0"),
      .addExclude (B "example.com/b") (B "v1.0.0"), .addReplace (B "example.com/a") [] (B "../a") [],
      .addRetract (B "v1.0.0") (B "v1.0.0") (B "bad"), .addTool (B "example.com/t"), .dropRequire (B "example.com/b"),
      .addGodebug (B "panicnil") (B "1"), .sortBlocks, .cleanup]
    (match Edit.runOps Edit.applyMod (Edit.load {}) ops [] 0 with
     | .done e res => res.all id && (Edit.absOf (Edit.cleanup e).f).require == [⟨B "example.com/a", B "v1.1.0", false⟩]
     | _ => false) = true := by decide +kernel

/-- the arguments of the session above are valid in the sense of `typed_eq_tree_partial2` / `nilDeref_unreachable_partial` -/
example : ∀ op ∈ ([.addModule (B "example.com/m"), .addGo (B "1.21"), .addRequire (B "example.com/a") (B "v1.0.0"),
      .addNewRequire (B "example.com/b") (B "v1.2.3") true, .addRequire (B "example.com/a") (B "v1.1.0"),
      .addExclude (B "example.com/b") (B "v1.0.0"), .addReplace (B "example.com/a") [] (B "../a") [],
      .addRetract (B "v1.0.0") (B "v1.0.0") (B "bad"), .addTool (B "example.com/t"), .dropRequire (B "example.com/b"),
      .addGodebug (B "panicnil") (B "1"), .sortBlocks, .cleanup] : List Edit.Op), Edit.ValidArgsT op ∧ Edit.IsModOp op := by
  intro op hop
  simp only [List.mem_cons, List.mem_nil_iff, or_false] at hop
  rcases hop with rfl | rfl | rfl | rfl | rfl | rfl | rfl | rfl | rfl | rfl | rfl | rfl | rfl <;>
    simp only [Edit.ValidArgsT, Edit.IsModOp, and_true] <;> first | trivial | decide +kernel

/-- non-vacuity: a session in which a later op works on what an earlier one created -/
example : (run stdValidity {} [.addNewRequire (B "a") (B "v1.0.0") true, .addRequire (B "a") (B "v1.1.0"), .cleanup]).require
    = [⟨B "a", B "v1.1.0", true⟩] := by decide +kernel

/-! ### The universal start state, SetRequireSeparateIndirect, every go.mod operation (Proofs/EditMore*.lean) -/

/-- Recorded finding (known_findings.json, `c15-typed-vs-reparse:empty-block-suffix-comment`): a one-line EMPTY block keeps
    an end-of-line comment on the `LineBlock` itself (`assignComments` only skips statements that span two lines).  An Add
    operation puts a line into that block, Cleanup collapses the one-line block and hands the block's comment to the
    line: `require () // indirect` + `AddRequire(a.b/c, v1.0.0)` + Cleanup gives `require a.b/c v1.0.0 // indirect` — the
    typed list says direct, the formatted file and its strict re-parse say indirect.  Witness on the model (reproduced on
    the implementation).  This is exactly the case excluded by the hypothesis `Edit.NoBlockSuffix` of `parseStrict_inv`. -/
theorem C15_violated_empty_block_suffix_comment :
    Edit.outcomeIs (Edit.sessionMod (B "module m\nrequire () // indirect\n") [.addRequire (B "a.b/c") (B "v1.0.0")])
      (fun o => o.typed.require == [⟨B "a.b/c", B "v1.0.0", false⟩] &&
                (o.reparsed.map (·.require)) == some [⟨B "a.b/c", B "v1.0.0", true⟩] &&
                o.out == B "module m\n\nrequire a.b/c v1.0.0 // indirect\n") = true := by
  decide +kernel

/-- the same session on the multi-line form of the empty block keeps the requirement direct (the witness is specific to
    the one-line form `verb () // comment`) -/
example :
    Edit.outcomeIs (Edit.sessionMod (B "module m\nrequire (\n) // indirect\n") [.addRequire (B "a.b/c") (B "v1.0.0")])
      (fun o => o.typed.require == [⟨B "a.b/c", B "v1.0.0", false⟩] &&
                (o.reparsed.map (·.require)) == some [⟨B "a.b/c", B "v1.0.0", false⟩]) = true := by
  decide +kernel

/-- **The universal start-state lemma (`typed_eq_tree` (i)), go.mod.**  EVERY file accepted by the strict parser (no version
    fixer, as in `sessionMod`) whose directives have non-empty keys (`WellFormedKeys`: observation O5) satisfies the tree
    invariant after `load` — the parser rewrites each directive's tokens to exactly the rendering `Edit.entries` expects
    (File.add verb by verb on C20's `add_eq`, `parseReplace`, `parseVersionInterval`), numbers the lines pairwise
    differently (C20 `parse_ids_nodup`), sets the `inBlock` flags (`parse_flags`) and rejects blocks without a single verb.
    `NoBlockSuffix`: no `LineBlock` carries an end-of-line comment; false only for a one-line empty block
    `verb () // comment` — the recorded finding `C15_violated_empty_block_suffix_comment`.  Also: the start condition
    `StartOK` of C08's `refines_abs_typed` is just `WellFormedKeys` for a strictly parsed file. -/
theorem parseStrict_inv (name data : Bytes) (f : File) (h : parseToFile name data none true = .ok f)
    (hk : Edit.WellFormedKeys f) (hs : Edit.NoBlockSuffix f.syn) : Edit.Inv (Edit.load f) ∧ Edit.StartOK f :=
  ⟨Edit.parseStrict_inv h hk hs, Edit.parseStrict_startOK h hk⟩

/-- … and go.work (`parseWork`, `Edit.InvW`, `WorkStartOK`) -/
theorem parseWork_inv (name data : Bytes) (f : WorkFile) (h : parseWork name data none = .ok f)
    (hk : Edit.WorkKeys f) (hs : Edit.NoBlockSuffix f.syn) : Edit.InvW (Edit.loadWork f) ∧ Edit.WorkStartOK f :=
  ⟨Edit.parseWork_invW h hk hs, Edit.parseWork_startOK h hk⟩

/-- **SetRequireSeparateIndirect preserves the invariant** (block surgery: `ensureBlock`, inserted empty blocks, moved
    lines under fresh ids), under the same hypotheses as `setRequire_preserves_inv` -/
theorem setRequireSeparateIndirect_preserves_inv (e e' : Edit.EFile) (want : List Edit.Want)
    (perm : List Edit.Want → List Edit.Want) (hperm : ∀ l, (perm l).Perm l) (hg : Edit.GoodWant want) (hi : Edit.Inv e)
    (hlive : ∀ r ∈ e.f.require, Edit.liveRq r = true) (hset : Edit.NoNestedIndirectMarker e)
    (h : Edit.setRequireSeparateIndirect e want perm = .ok e') : Edit.Inv e' :=
  Edit.setRequireSeparateIndirect_inv e e' want perm hperm hg hi hlive hset h

/-- **one operation preserves the invariant — EVERY go.mod operation.**  `Edit.ValidArgsAll e op`: the argument
    conditions of `op_preserves_inv`, and for the two bulk requirement setters: distinct non-empty paths, every typed
    requirement live (a Cleanup has just run) and `NoNestedIndirectMarker`. -/
theorem op_preserves_inv_all (e e' : Edit.EFile) (op : Edit.Op) (hv : Edit.ValidArgsAll e op) (hi : Edit.Inv e)
    (h : Edit.applyMod e op = some (.ok e')) : Edit.Inv e' :=
  Edit.applyMod_inv_all e e' op hv hi h

/-- **typed_eq_tree (partial 3): every strictly parsed well-formed starting file, every go.mod operation.**  From the
    strict parse `f` of any go.mod text, with well-formed keys and `NoBlockSuffix`, after ANY session whose operations
    have valid arguments in the state in which they run (`Edit.RunValid`: as `ValidArgsT`; a bulk requirement setter runs
    on live requirements under `NoNestedIndirectMarker`) and the final Cleanup: the typed lists are the directive-level
    reading of the syntax tree (`Edit.Inv`), and hold no cleared placeholder (`cleanup_no_cleared_entries`).
    What is still missing for the full C15 statement: (a) discharging the state-dependent part of `RunValid` from a
    condition on the starting file and the arguments (closure of `NoNestedIndirectMarker` along a session);
    (b) the print/parse round trip of the tree (C02), where the recorded rationale / marker findings live. -/
theorem typed_eq_tree_partial3 (name data : Bytes) (f : File) (ops : List Edit.Op) (e' : Edit.EFile) (res : List Bool)
    (hf : parseToFile name data none true = .ok f) (hk : Edit.WellFormedKeys f) (hs : Edit.NoBlockSuffix f.syn)
    (hv : Edit.RunValid (Edit.load f) ops) (h : Edit.runOps Edit.applyMod (Edit.load f) ops [] 0 = .done e' res) :
    Edit.Inv (Edit.cleanup e') :=
  Edit.typed_eq_tree_all (Edit.load f) e' ops res (Edit.parseStrict_inv hf hk hs) hv h

/-- … and for go.work: every file accepted by `parseWork` with non-empty keys, every go.work operation -/
theorem typed_eq_tree_work_from_parse (name data : Bytes) (f : WorkFile) (ops : List Edit.Op) (e' : Edit.EWork) (res : List Bool)
    (hf : parseWork name data none = .ok f) (hk : Edit.WorkKeys f) (hs : Edit.NoBlockSuffix f.syn)
    (hv : ∀ op ∈ ops, Edit.ValidArgsW op) (h : Edit.runOps Edit.applyWork (Edit.loadWork f) ops [] 0 = .done e' res) :
    Edit.InvW (Edit.workCleanup e') :=
  Edit.typed_eq_tree_work (Edit.loadWork f) e' ops res (Edit.parseWork_invW hf hk hs) hv h

/-- non-vacuity of `parseStrict_inv` / `typed_eq_tree_partial3` / `op_preserves_inv_all`: a parsed go.mod (blocks, comments,
    quoted path, an `// indirect; why` marker) has well-formed keys and no block suffix comment, and a session containing
    both bulk setters (each after a Cleanup) has valid arguments in every state (`Edit.runValidB` is a sound Boolean test
    of `RunValid`) and runs to completion -/
example :
    (match parseToFile (B "go.mod") (B "module \"example.com/m\"\n\ngo 1.21\n\nrequire (\n\texample.com/a v1.0.0 // indirect; why\n\t// keep\n\texample.com/b v1.2.3\n)\nrequire example.com/c v1.0.0 // c\nexclude example.com/b v1.0.0\nretract [v1.1.0, v1.2.0] // bad\n") none true with
     | .ok f =>
       Edit.startOKb f && f.syn.stmts.all (fun x => match x with
         | .lineBlock b => b.comments.suffix.isEmpty
         | _ => true) &&
       (let ops : List Edit.Op := [.addRequire (B "example.com/d") (B "v1.0.0"), .cleanup,
          .setRequireSeparateIndirect [⟨B "example.com/a", B "v1.4.0", false⟩, ⟨B "example.com/e", B "v1.0.0", true⟩, ⟨B "example.com/c", B "v1.0.0", true⟩] true,
          .cleanup, .setRequire [⟨B "example.com/a", B "v1.5.0", true⟩] false, .addTool (B "example.com/t"), .cleanup]
        Edit.runValidB (Edit.load f) ops &&
        (match Edit.runOps Edit.applyMod (Edit.load f) ops [] 0 with
         | .done e res => res.all id && Edit.invB e
         | _ => false))
     | .error _ => false) = true := by decide +kernel

/-- non-vacuity of `parseWork_inv` / `typed_eq_tree_work_from_parse` -/
example :
    (match parseWork (B "go.work") (B "go 1.21\n\nuse (\n\t./a\n\t\"./b c\" // note\n)\nreplace example.com/a => ../a\ngodebug x=y\n") none with
     | .ok f =>
       f.godebug.all (fun g => !g.key.isEmpty) && f.use.all (fun u => !u.path.isEmpty) && f.replace.all (fun r => !r.old.path.isEmpty) &&
       f.syn.stmts.all (fun x => match x with
         | .lineBlock b => b.comments.suffix.isEmpty
         | _ => true) &&
       (match Edit.runOps Edit.applyWork (Edit.loadWork f) [.addUse (B "./d") [], .dropUse (B "./a"), .cleanup] [] 0 with
        | .done _ res => res.all id
        | _ => false)
     | .error _ => false) = true := by decide +kernel

/-- **nilDeref_unreachable (partial 2): the bulk requirement setters too.**  From a state satisfying the invariant, a session
    of go.mod operations whose arguments are valid in the state in which each runs (`Edit.RunValid`; for SetRequire /
    SetRequireSeparateIndirect: distinct non-empty paths, every typed requirement live — a Cleanup has just run, see
    `cleanup_makes_requirements_live` — and `NoNestedIndirectMarker`) ALWAYS runs to completion: no nil `Syntax` dereference
    (the setters dereference every requirement; all are live, so none is a cleared placeholder), no "two versions for one
    path" panic (distinct paths), and `ensureBlock` is only called on an index the scan found, never on an "unexpected
    statement" (`Edit.sepStage_total`); the final state satisfies the invariant.  Missing for the full statement: the
    `NoNestedIndirectMarker` part of `RunValid` concerns marker correctness, not panics; removing it needs an invariant
    without the marker clause (or the closure of `NoNestedIndirectMarker`, lean/PENDING.md). -/
theorem nilDeref_unreachable_partial2 (e : Edit.EFile) (ops : List Edit.Op) (hi : Edit.Inv e) (hv : Edit.RunValid e ops)
    (hm : ∀ op ∈ ops, Edit.IsModOp op) :
    ∃ e' res, Edit.runOps Edit.applyMod e ops [] 0 = .done e' res ∧ Edit.Inv (Edit.cleanup e') := by
  rcases Edit.runOps_total_all ops e [] 0 hv hm hi with ⟨e', res, h⟩
  exact ⟨e', res, h, Edit.typed_eq_tree_all e e' ops res hi hv h⟩

/-- after Cleanup every typed requirement is live (the state-dependent hypothesis of the bulk setters) -/
theorem cleanup_makes_requirements_live (e : Edit.EFile) : ∀ r ∈ (Edit.cleanup e).f.require, Edit.liveRq r = true :=
  Edit.cleanup_require_live e

/-- non-vacuity of `nilDeref_unreachable_partial2`: a session with both bulk setters after drops that leave cleared
    placeholders (Cleanup in between) has valid arguments throughout and consists of go.mod operations -/
example :
    let ops : List Edit.Op := [.addRequire (B "a") (B "v1.0.0"), .addNewRequire (B "b") (B "v1.0.0") true, .dropRequire (B "a"),
      .cleanup, .setRequire [⟨B "b", B "v1.1.0", false⟩, ⟨B "c", B "v1.0.0", true⟩] true, .dropRequire (B "c"), .cleanup,
      .setRequireSeparateIndirect [⟨B "d", B "v1.0.0", true⟩] false]
    Edit.runValidB (Edit.load {}) ops = true := by decide +kernel

/-! ### Closing `NoNestedIndirectMarker` along a session (Proofs/EditMarkerStr.lean, Proofs/EditMarkerInv.lean)

    `Edit.MarkersSettable stmts`: on the end-of-line comments of every `Line` of the tree `setIndirect` achieves what it is
    asked for (`∀ b, isIndirectS (sfxAfter b s) = b`; false exactly for a comment whose text after `indirect;` is again an
    indirect marker, the recorded finding `C16_violated_indirect_marker_survives`).  It is a static, decidable condition on
    the parsed file and is preserved by EVERY go.mod operation, so the state-dependent marker clause of `Edit.RunValid` is
    redundant (`Edit.RunValidLive`), and the remaining state-dependent clause (a bulk setter runs on live requirements) can be
    read off the operation list (`Edit.StaticValid`: the bulk setter comes directly after a Cleanup). -/

/-- the string lemmas the closure rests on, for EVERY byte string (ill-formed UTF-8 included): `strings.Fields` does not
    see what `strings.TrimSpace` removed, and a comment text starting with `indirect; ` never trims to the bare marker -/
theorem marker_string_lemmas (y t : Bytes) :
    GoStrings.fields (B " " ++ GoStrings.trimSpace y) = GoStrings.fields y ∧
    GoStrings.trimSpace (B "indirect; " ++ t) ≠ B "indirect" ∧
    GoStrings.fields (B "indirect; " ++ t) = B "indirect;" :: GoStrings.fields t := by
  have h1 : B " " = [32] := by decide +kernel
  have h2 : B "indirect; " = Edit.markerSemi ++ [32] := by decide +kernel
  rw [h1, h2, Edit.B_indirect, Edit.B_indirectSemi]
  simp only [List.singleton_append, List.append_assoc]
  exact ⟨Edit.fields_space_trimSpace y, Edit.trimSpace_marker_ne t, Edit.fields_marker t⟩

/-- `setIndirect` maps end-of-line comments on which it achieves what it is asked for to such comments again -/
theorem markerSettable_closed (b : Bool) (s : List Comment) (h : Edit.MarkerSettable s) :
    Edit.MarkerSettable (Edit.sfxAfter b s) :=
  Edit.markerSettable_sfxAfter b s h

example : Edit.MarkerSettable [{ token := B "// indirect; why" }] ∧ Edit.MarkerSettable [{ token := [47, 47, 32, 0xe3, 0x80, 32, 119, 32, 0xc2, 0xa0] }] := by
  decide +kernel

/-- **one operation preserves the marker condition — EVERY go.mod operation, no hypothesis on the arguments**; in
    particular `NoNestedIndirectMarker` holds in the state after the operation -/
theorem op_preserves_markers (e e' : Edit.EFile) (op : Edit.Op) (hi : Edit.Inv e) (hm : Edit.MarkersSettable e.f.syn.stmts)
    (h : Edit.applyMod e op = some (.ok e')) :
    Edit.MarkersSettable e'.f.syn.stmts ∧ Edit.NoNestedIndirectMarker e' :=
  ⟨Edit.applyMod_good e e' op hi hm h, (Edit.applyMod_good e e' op hi hm h).noNested⟩

/-- **typed_eq_tree (partial 4): the marker hypothesis is a condition on the STARTING FILE only.**  As
    `typed_eq_tree_partial3`, with `Edit.RunValidLive` (`RunValid` without `NoNestedIndirectMarker`) and the static,
    decidable `Edit.MarkersSettable f.syn.stmts` on the parsed file; the condition holds again at the end.
    Still missing for the full C15 statement: the fixer case of `parseStrict_inv`, and the print/parse round trip of the
    tree (C02), where the recorded rationale / marker findings live. -/
theorem typed_eq_tree_partial4 (name data : Bytes) (f : File) (ops : List Edit.Op) (e' : Edit.EFile) (res : List Bool)
    (hf : parseToFile name data none true = .ok f) (hk : Edit.WellFormedKeys f) (hs : Edit.NoBlockSuffix f.syn)
    (hm : Edit.MarkersSettable f.syn.stmts)
    (hv : Edit.RunValidLive (Edit.load f) ops) (h : Edit.runOps Edit.applyMod (Edit.load f) ops [] 0 = .done e' res) :
    Edit.Inv (Edit.cleanup e') ∧ Edit.MarkersSettable (Edit.cleanup e').f.syn.stmts :=
  Edit.typed_eq_tree_live (Edit.load f) e' ops res (Edit.parseStrict_inv hf hk hs) ((Edit.markersSettable_load f).2 hm) hv h

/-- **typed_eq_tree (partial 4, static form): every hypothesis is a condition on the starting file or on the operation
    list.**  `Edit.StaticValid false ops`: the arguments are valid (`ValidArgsT`); a bulk requirement setter has distinct
    non-empty paths and comes directly after a Cleanup (which makes every typed requirement live:
    `cleanup_makes_requirements_live`). -/
theorem typed_eq_tree_partial4_static (name data : Bytes) (f : File) (ops : List Edit.Op) (e' : Edit.EFile) (res : List Bool)
    (hf : parseToFile name data none true = .ok f) (hk : Edit.WellFormedKeys f) (hs : Edit.NoBlockSuffix f.syn)
    (hm : Edit.MarkersSettable f.syn.stmts) (hv : Edit.StaticValid false ops)
    (h : Edit.runOps Edit.applyMod (Edit.load f) ops [] 0 = .done e' res) :
    Edit.Inv (Edit.cleanup e') ∧ Edit.MarkersSettable (Edit.cleanup e').f.syn.stmts :=
  typed_eq_tree_partial4 name data f ops e' res hf hk hs hm
    (Edit.StaticValid.runValidLive ops false (Edit.load f) hv (fun hc => by cases hc)) h

/-- **nilDeref_unreachable (partial 3): no state-dependent hypothesis.**  From a state satisfying the invariant whose lines
    have settable markers, a session of go.mod operations with statically valid arguments (`Edit.StaticValid`: bulk setters
    directly after a Cleanup, with distinct non-empty paths) ALWAYS runs to completion — no nil `Syntax` dereference, no
    "two versions" panic, no `ensureBlock` on an unexpected statement — and ends in a state satisfying the invariant.
    The marker condition on the START state is only needed because `Inv` (the conclusion) contains the marker clause; it
    plays no role in the panics: the full statement, without it, is `nilDeref_unreachable` below (which concludes `P.Inv`). -/
theorem nilDeref_unreachable_partial3 (e : Edit.EFile) (ops : List Edit.Op) (hi : Edit.Inv e)
    (hm : Edit.MarkersSettable e.f.syn.stmts) (hv : Edit.StaticValid false ops) (hmod : ∀ op ∈ ops, Edit.IsModOp op) :
    ∃ e' res, Edit.runOps Edit.applyMod e ops [] 0 = .done e' res ∧ Edit.Inv (Edit.cleanup e') := by
  have hl := Edit.StaticValid.runValidLive ops false e hv (fun hc => by cases hc)
  rcases Edit.runOps_total_live ops e hl hmod hi hm with ⟨e', res, h⟩
  exact ⟨e', res, h, (Edit.typed_eq_tree_live e e' ops res hi hm hl h).1⟩

/-- non-vacuity of `typed_eq_tree_partial4(_static)` / `op_preserves_markers`: a parsed go.mod (blocks, comments, an
    `// indirect; why` marker that SetRequireSeparateIndirect removes and SetRequire puts back) satisfies the start
    conditions, the session (both bulk setters, each directly after a Cleanup) is statically valid and runs to completion -/
example :
    (match parseToFile (B "go.mod") (B "module \"example.com/m\"\n\ngo 1.21\n\nrequire (\n\texample.com/a v1.0.0 // indirect; why\n\t// keep\n\texample.com/b v1.2.3\n)\nrequire example.com/c v1.0.0 // c\nexclude example.com/b v1.0.0\nretract [v1.1.0, v1.2.0] // bad\n") none true with
     | .ok f =>
       Edit.startOKb f && f.syn.stmts.all (fun x => match x with
         | .lineBlock b => b.comments.suffix.isEmpty
         | _ => true) &&
       decide (Edit.MarkersSettable f.syn.stmts) &&
       (let ops : List Edit.Op := [.addRequire (B "example.com/d") (B "v1.0.0"), .cleanup,
          .setRequireSeparateIndirect [⟨B "example.com/a", B "v1.4.0", false⟩, ⟨B "example.com/e", B "v1.0.0", true⟩, ⟨B "example.com/c", B "v1.0.0", true⟩] true,
          .cleanup, .setRequire [⟨B "example.com/a", B "v1.5.0", true⟩] false, .addTool (B "example.com/t"), .cleanup]
        Edit.staticValidB false ops &&
        (match Edit.runOps Edit.applyMod (Edit.load f) ops [] 0 with
         | .done e res => res.all id && Edit.invB e && decide (Edit.MarkersSettable e.f.syn.stmts)
         | _ => false))
     | .error _ => false) = true := by decide +kernel

/-- the start condition excludes the recorded finding (and only comments of that kind): the file of
    `Props.C16.C16_violated_indirect_marker_survives` is not `MarkersSettable` -/
example :
    (match parseToFile (B "go.mod") (B "module m\nrequire a.b/c v1.0.0 // indirect; indirect\n") none true with
     | .ok f => !decide (Edit.MarkersSettable f.syn.stmts)
     | .error _ => false) = true := by decide +kernel

/-- non-vacuity of `nilDeref_unreachable_partial3`: the session of the `partial2` example is statically valid, consists of
    go.mod operations, and the empty file satisfies the start conditions -/
example :
    let ops : List Edit.Op := [.addRequire (B "a") (B "v1.0.0"), .addNewRequire (B "b") (B "v1.0.0") true, .dropRequire (B "a"),
      .cleanup, .setRequire [⟨B "b", B "v1.1.0", false⟩, ⟨B "c", B "v1.0.0", true⟩] true, .dropRequire (B "c"), .cleanup,
      .setRequireSeparateIndirect [⟨B "d", B "v1.0.0", true⟩] false]
    Edit.staticValidB false ops = true ∧ Edit.MarkersSettable (Edit.load {}).f.syn.stmts := by
  constructor <;> decide +kernel

/-! ### `nilDeref_unreachable` without any hypothesis on the comments (Proofs/EditPanic{Inv,Bulk,Run}.lean)

    `Edit.P.Inv e` is `Edit.Inv e` with the requirement entry weakened to the tokens (`Edit.P.entRq`: the line shows
    `require <AutoQuoted path> <version>`; nothing is said about the `// indirect` marker).  The marker clause of `Inv` is
    the only thing the bulk requirement setters do not always re-establish (`C16_violated_indirect_marker_survives`), and it
    plays no role in the panics: `P.Inv` is preserved by EVERY go.mod operation with no condition on the comments, and on a
    state satisfying it no operation panics. -/

/-- the full invariant implies the invariant without the marker clause -/
theorem inv_forget_marker (e : Edit.EFile) (h : Edit.Inv e) : Edit.P.Inv e := Edit.P.Inv.ofFull h

/-- **one operation preserves the invariant without the marker clause — EVERY go.mod operation**, for arguments valid in
    the sense of `Edit.ValidArgsLive` (as `ValidArgsT`; a bulk requirement setter has distinct non-empty paths and runs on
    live requirements); no `NoNestedIndirectMarker` -/
theorem op_preserves_inv_no_marker (e e' : Edit.EFile) (op : Edit.Op) (hv : Edit.ValidArgsLive e op) (hi : Edit.P.Inv e)
    (h : Edit.applyMod e op = some (.ok e')) : Edit.P.Inv e' :=
  Edit.P.applyMod_inv_all e e' op hv hi h

/-- **no panic — EVERY go.mod operation** on a state satisfying the invariant without the marker clause: the result is a
    success or one of the three documented returned errors -/
theorem op_no_panic (e : Edit.EFile) (op : Edit.Op) (hv : Edit.ValidArgsLive e op) (hm : Edit.IsModOp op) (hi : Edit.P.Inv e) :
    Edit.NoPanic (Edit.applyMod e op) :=
  Edit.P.applyMod_noPanic_all e op hv hm hi

/-- `nilDeref_unreachable` from a state: as `nilDeref_unreachable_partial3` with `Edit.P.Inv` for `Edit.Inv` and WITHOUT
    `MarkersSettable` -/
theorem nilDeref_unreachable_from_state (e : Edit.EFile) (ops : List Edit.Op) (hi : Edit.P.Inv e)
    (hv : Edit.StaticValid false ops) (hmod : ∀ op ∈ ops, Edit.IsModOp op) :
    ∃ e' res, Edit.runOps Edit.applyMod e ops [] 0 = .done e' res ∧ Edit.P.Inv (Edit.cleanup e') :=
  Edit.P.nilDeref_unreachable_state e ops hi hv hmod

/-- **nilDeref_unreachable (FULL).**  For EVERY go.mod text accepted by the strict parser (no version fixer, as in
    `sessionMod`) with well-formed keys (`WellFormedKeys`: observation O5; `NoBlockSuffix`: the recorded
    `verb () // comment` finding — both as in `parseStrict_inv`) and EVERY session of go.mod operations whose arguments are
    statically valid (`Edit.StaticValid false ops`: non-empty keys; a bulk requirement setter has distinct non-empty paths
    and comes directly after a Cleanup), the session runs to completion: every operation, in the state in which it runs,
    succeeds or returns a documented error — it NEVER returns `EditErr.nilDeref` (Go: nil `Syntax` dereference on a cleared
    entry), `EditErr.badStatement` (`ensureBlock` on an unexpected statement) or `EditErr.conflictingVersions` (the "two
    versions for one path" panic) —, and after the final Cleanup the typed lists are again the token-level reading of the
    syntax tree (`Edit.P.Inv`).  No hypothesis on the end-of-line comments: the `MarkersSettable` /
    `NoNestedIndirectMarker` condition of `nilDeref_unreachable_partial3` is gone (the file may hold nested
    `// indirect; indirect` markers, on which `Edit.Inv` is NOT preserved). -/
theorem nilDeref_unreachable (name data : Bytes) (f : File) (ops : List Edit.Op)
    (hf : parseToFile name data none true = .ok f) (hk : Edit.WellFormedKeys f) (hs : Edit.NoBlockSuffix f.syn)
    (hv : Edit.StaticValid false ops) (hmod : ∀ op ∈ ops, Edit.IsModOp op) :
    ∃ e' res, Edit.runOps Edit.applyMod (Edit.load f) ops [] 0 = .done e' res ∧
      (∀ (pre : List Edit.Op) (op : Edit.Op) (post : List Edit.Op), ops = pre ++ op :: post →
        ∃ e1 r1, Edit.runOps Edit.applyMod (Edit.load f) pre [] 0 = .done e1 r1 ∧
          Edit.applyMod e1 op ≠ some (.error .nilDeref) ∧ Edit.applyMod e1 op ≠ some (.error .badStatement) ∧
          Edit.applyMod e1 op ≠ some (.error .conflictingVersions)) ∧
      Edit.P.Inv (Edit.cleanup e') :=
  Edit.P.nilDeref_unreachable_parsed name data f ops hf hk hs hv hmod

/-- non-vacuity of `nilDeref_unreachable`, on exactly what the old hypothesis excluded: a parsed go.mod with nested
    `// indirect; indirect` markers (in a block and on a single line) is NOT `MarkersSettable`, satisfies the start
    conditions, the session (drops that leave cleared placeholders, SetRequire and SetRequireSeparateIndirect each directly
    after a Cleanup, each asking for one of the marked requirements as direct) is statically valid and runs to completion; at the end
    the FULL invariant `Edit.Inv` fails (`invB` false: the marker survived) — the theorem's conclusion is about `P.Inv` -/
example :
    (match parseToFile (B "go.mod") (B "module m\n\ngo 1.21\n\nrequire (\n\ta.b/c v1.0.0 // indirect; indirect\n\tx.y/z v1.2.3\n)\nrequire a.b/d v1.0.0 // indirect; indirect\nexclude x.y/z v1.0.0\n") none true with
     | .ok f =>
       Edit.startOKb f && f.syn.stmts.all (fun x => match x with
         | .lineBlock b => b.comments.suffix.isEmpty
         | _ => true) &&
       !decide (Edit.MarkersSettable f.syn.stmts) &&
       (let ops : List Edit.Op := [.addRequire (B "a.b/e") (B "v1.0.0"), .dropRequire (B "x.y/z"), .cleanup,
          .setRequire [⟨B "a.b/c", B "v1.1.0", false⟩, ⟨B "a.b/d", B "v1.0.0", true⟩, ⟨B "a.b/f", B "v0.1.0", true⟩] false,
          .dropRequire (B "a.b/f"), .cleanup,
          .setRequireSeparateIndirect [⟨B "a.b/c", B "v1.2.0", true⟩, ⟨B "a.b/d", B "v1.0.0", false⟩] true, .addTool (B "a.b/t"), .cleanup]
        Edit.staticValidB false ops &&
        (match Edit.runOps Edit.applyMod (Edit.load f) ops [] 0 with
         | .done e res => res.all id && !Edit.invB (Edit.cleanup e)
         | _ => false))
     | .error _ => false) = true := by decide +kernel

/-- … and the operations of that session are go.mod operations -/
example : ∀ op ∈ ([.addRequire (B "a.b/e") (B "v1.0.0"), .dropRequire (B "x.y/z"), .cleanup,
      .setRequire [⟨B "a.b/c", B "v1.1.0", false⟩, ⟨B "a.b/d", B "v1.0.0", true⟩, ⟨B "a.b/f", B "v0.1.0", true⟩] false,
      .dropRequire (B "a.b/f"), .cleanup,
      .setRequireSeparateIndirect [⟨B "a.b/c", B "v1.2.0", true⟩, ⟨B "a.b/d", B "v1.0.0", false⟩] true, .addTool (B "a.b/t"), .cleanup] :
      List Edit.Op), Edit.IsModOp op := by
  intro op hop
  simp only [List.mem_cons, List.mem_nil_iff, or_false] at hop
  rcases hop with rfl | rfl | rfl | rfl | rfl | rfl | rfl | rfl | rfl <;> trivial

/-- non-vacuity of `inv_forget_marker` / `op_preserves_inv_no_marker` / `op_no_panic` / `nilDeref_unreachable_from_state`: the
    empty go.mod satisfies `P.Inv` (`Inv_empty`), and the session of the `partial2` example is statically valid -/
example : Edit.P.Inv (Edit.load {}) ∧
    Edit.staticValidB false [.addRequire (B "a") (B "v1.0.0"), .addNewRequire (B "b") (B "v1.0.0") true, .dropRequire (B "a"),
      .cleanup, .setRequire [⟨B "b", B "v1.1.0", false⟩, ⟨B "c", B "v1.0.0", true⟩] true, .dropRequire (B "c"), .cleanup,
      .setRequireSeparateIndirect [⟨B "d", B "v1.0.0", true⟩] false] = true :=
  ⟨inv_forget_marker _ Inv_empty, by decide +kernel⟩

/-! ### The typed lists equal the strict re-parse of the formatted file (Proofs/EditReparse{A,B,C,D,E,F}.lean)

    HALF 1 (`Edit.Inv`, above) composed with C02's print/parse round trip (HALF 2).  C02's clause 3 is stated for the tree of
    a strict parse; its second half only needs the SHAPE of the tree (`EWFStmts`, `NlOK`, no header comment) and a first run
    of the directive layer over it that reports no error and rewrites no token (`Proofs.EditReparse.reparse_of_first_run`).
    For an edited tree the first run is supplied by the invariant: every live line renders a typed entry (`Edit.Rend` = the
    `acc` relations of `Edit.entries`), and on such a line the strict `File.add` appends exactly that entry
    (`reparse_one_line`).  Vocabulary: `Edit.Item` = the value of one directive; `Edit.ItemOK it` = the strict parser accepts
    the value and reads it back unchanged (canonical version fitting the path's major version, `go` / `toolchain` texts
    matching their regular expressions, paths neither empty nor a lone bracket / comma, raw tokens that need no quotes);
    `Edit.AbsOK a` = every value of the abstract file is `ItemOK` (Boolean test `absOKB`); `Edit.ArgsOK op` = the values the
    operation may write are `ItemOK` (`argsOKB`); `Edit.AbsPerm a b` = scalars equal, every list equal AS A MULTISET,
    retractions compared by interval (the rationale is where `C15_violated_retract_*` live, it is not compared);
    `Edit.finalTreeB t` = the conditions on the FINAL tree that are assumed, not derived: blocks carry block verbs (no
    `go (` / `toolchain (` block — an invariant of every session: `goodBlocks_invariant` below, which removes this half of
    the hypothesis in `typed_eq_reparse_partial3` / `partial4` / `partial_run3`), and the comments stand where the parser puts
    them (`comStmtB`: `//` texts, a blank-line placeholder only inside a block, not at its start and not after another one,
    at most one end-of-line comment per line / `(` / `)`, no header comment).  The last condition can genuinely fail after
    edits (SortBlocks moves a line preceded by a blank line to the top of its block: `C15_violated_retract_blank_line_dropped`
    — then `Format` drops the blank line and C02's rendering lemma does not apply). -/

/-- **Render–reparse for one line, every verb** (step (1)).  `I`: items with the ids of their lines, pairwise different
    ids, every item readable, at most one module / go / toolchain item (`Edit.IOK`).  A line whose full tokens `verb :: args`
    and end-of-line comments render an item of `I` not processed yet (`Edit.FI`: the state of the run, no error so far, its
    typed lists = the items processed so far): the strict `File.add` appends exactly that item, reports no error and returns
    the arguments UNCHANGED — `add_step_fixpoint` for lines written by the edit operations rather than by the parser. -/
theorem reparse_one_line {I : List (Nat × Edit.Item)} (hI : Edit.IOK I) (st : AddState) (Q : List (Nat × Edit.Item))
    (hfi : Edit.FI I st Q) (block : Option Comments) (l : Line) (verb : Bytes) (args : List Bytes) (it : Edit.Item)
    (hmem : (l.id, it) ∈ I) (hfresh : l.id ∉ Q.map (·.1)) (hr : Edit.Rend it (verb :: args) l.comments.suffix) :
    ∃ st', File.add st block l verb args none true = (st', args) ∧ Edit.FI I st' (Q ++ [(l.id, it)]) :=
  Edit.add_item hI st Q hfi block l verb args it hmem hfresh hr

/-- the first run over a whole tree: no error, no token rewritten, typed file = the items, as a multiset -/
theorem reparse_first_run {I : List (Nat × Edit.Item)} (hI : Edit.IOK I) (T : FileSyntax) (hnd : (Edit.treeIds T.stmts).Nodup)
    (hok : ∀ x ∈ T.stmts, Edit.StmtOK I x) (hsurj : ∀ q ∈ I, q.1 ∈ Edit.treeIds T.stmts) :
    ∃ st1, addStmts none true { file := { syn := T } } T.stmts = (st1, T.stmts) ∧ st1.errsRev = [] ∧
      (Edit.items st1.file).Perm I :=
  Edit.first_run hI T hnd hok hsurj

/-- **typed_eq_reparse for a STATE.**  Any state of the edit model satisfying the tree invariant, with live entries only
    and lines with tokens only (a Cleanup has run), readable values, block verbs on blocks and the comment placement of a
    parsed file: the strict parser accepts `Format` of the tree and returns the same directives (`AbsPerm`). -/
theorem typed_eq_reparse_state (name : Bytes) (e : Edit.EFile) (hi : Edit.Inv e) (hl : Edit.AllLive e.f) (hv : Edit.VOK e.f)
    (hll : Edit.LinesLive e.f.syn.stmts) (hgb : Edit.GoodBlocks e.f.syn.stmts) (hcom : Edit.comShapeB e.f.syn = true) :
    ∃ g, parseStrict name (format e.f.syn) none = .ok g ∧ Edit.AbsPerm (Edit.absOf g) (Edit.absOf e.f) :=
  Edit.reparse_of_inv name e hi hl hv hll hgb hcom

/-- **typed_eq_reparse (partial).**  For EVERY go.mod text accepted by the strict parser (no version fixer, as in
    `sessionMod`) with well-formed keys, no block suffix comment (`C15_violated_empty_block_suffix_comment`) and settable
    markers (`C16_violated_indirect_marker_survives`) — the hypotheses of `typed_eq_tree_partial4_static` — and EVERY statically
    valid session: if the session has an outcome `o` (it always runs to completion: `nilDeref_unreachable`), then the strict
    re-parse of the formatted file succeeds, `o.reparsed = some r`, and `r` has the same module path, go version and
    toolchain and, as multisets, the same godebugs, requirements WITH indirect flags, excludes, replaces, retract intervals
    and tools as the typed lists after the final Cleanup (`o.typed`).
    ASSUMED OF THE FINAL STATE (decidable, Boolean tests): `Edit.AbsOK o.typed` (readable values; discharged from the
    starting file and the arguments in `typed_eq_reparse_partial2`) and `Edit.finalTreeB o.tree` (see the section comment).
    Not compared: retract rationales, `Module.Deprecated`.  Not covered: parsing with a version fixer. -/
theorem typed_eq_reparse_partial (file : Bytes) (ops : List Edit.Op) (o : Edit.Outcome) (f : File)
    (hf : parseStrict (B "go.mod") file none = .ok f) (hk : Edit.WellFormedKeys f) (hs : Edit.NoBlockSuffix f.syn)
    (hm : Edit.MarkersSettable f.syn.stmts) (hv : Edit.StaticValid false ops)
    (h : Edit.sessionMod file ops = some o) (hok : Edit.AbsOK o.typed) (htree : Edit.finalTreeB o.tree = true) :
    ∃ r, o.reparsed = some r ∧ Edit.AbsPerm r o.typed :=
  Edit.typed_eq_reparse_session file ops o f hf hk hs hm hv h hok htree

/-- the same in terms of `runOps` / `cleanup` / `format` / `parseStrict` -/
theorem typed_eq_reparse_partial_run (name name' data : Bytes) (f : File) (ops : List Edit.Op) (e' : Edit.EFile) (res : List Bool)
    (hf : parseToFile name data none true = .ok f) (hk : Edit.WellFormedKeys f) (hs : Edit.NoBlockSuffix f.syn)
    (hm : Edit.MarkersSettable f.syn.stmts) (hv : Edit.StaticValid false ops)
    (h : Edit.runOps Edit.applyMod (Edit.load f) ops [] 0 = .done e' res)
    (hok : Edit.AbsOK (Edit.absOf (Edit.cleanup e').f)) (htree : Edit.finalTreeB (Edit.cleanup e').f.syn = true) :
    ∃ g, parseStrict name' (format (Edit.cleanup e').f.syn) none = .ok g ∧
      Edit.AbsPerm (Edit.absOf g) (Edit.absOf (Edit.cleanup e').f) :=
  Edit.typed_eq_reparse_run name name' data f ops e' res hf hk hs hm hv h hok htree

/-- readable values are preserved by every step of the specification's step table with readable arguments, and are
    invariant under `Rel` — how `AbsOK o.typed` is read off the starting file and the operation list -/
theorem readable_values_closed (V : Validity) (a b : AbsFile) (op : EditSpec.Op) (h : Edit.AbsOK a) (ho : Edit.ArgsOK op)
    (hr : Rel b (step V a op)) : Edit.AbsOK (step V a op) ∧ Edit.AbsOK b :=
  ⟨(Edit.absOK_iff _).2 (((Edit.absOK_iff _).1 h).step V op ho),
   (Edit.absOK_iff _).2 (Edit.AbsOKF.of_rel hr (((Edit.absOK_iff _).1 h).step V op ho))⟩

/-- **typed_eq_reparse (partial 2): the values condition is on the STARTING file and the OPERATION LIST.**  As
    `typed_eq_reparse_partial`, with `AbsOK o.typed` replaced by `AbsOK (absOf f)` (the starting file is well formed in C02's
    sense: canonical versions, readable paths) and `ArgsOK` of every operation (decidable: `argsOKB`); the operations are
    go.mod operations.  Also returns C08's `Rel o.typed (run …)`.  The one remaining condition on the final state is
    `finalTreeB o.tree`. -/
theorem typed_eq_reparse_partial2 (file : Bytes) (ops : List Edit.Op) (o : Edit.Outcome) (f : File)
    (hf : parseStrict (B "go.mod") file none = .ok f) (hk : Edit.WellFormedKeys f) (hs : Edit.NoBlockSuffix f.syn)
    (hm : Edit.MarkersSettable f.syn.stmts) (hstart : Edit.AbsOK (Edit.absOf f)) (hv : Edit.StaticValid false ops)
    (hmod : ∀ op ∈ ops, Edit.IsModOp op) (hargs : ∀ op ∈ ops, Edit.ArgsOK op.toSpec)
    (h : Edit.sessionMod file ops = some o) (htree : Edit.finalTreeB o.tree = true) :
    ∃ r, o.reparsed = some r ∧ Edit.AbsPerm r o.typed ∧ Rel o.typed (run stdValidity o.start (ops.map Edit.Op.toSpec)) :=
  Edit.typed_eq_reparse_session2 file ops o f hf hk hs hm hstart hv hmod hargs h htree

/-- non-vacuity of `typed_eq_reparse_partial` / `typed_eq_reparse_partial2` / `typed_eq_reparse_state`: a parsed go.mod (quoted
    path, blocks, whole-line and end-of-line comments, an `// indirect; why` marker) satisfies the start conditions incl.
    `AbsOK`; the session (both bulk setters, every kind of Add, SortBlocks) is statically valid with readable arguments and
    has an outcome whose final tree passes `finalTreeB` and whose typed values are readable; and the conclusion is about
    MULTISETS for a reason: the typed exclude list and the re-parsed one differ in order. -/
example :
    let src := B "module \"example.com/m\"\n\ngo 1.21\n\nrequire (\n\texample.com/a v1.0.0 // indirect; why\n\t// keep\n\texample.com/b v1.2.3\n)\nrequire example.com/c v1.0.0 // c\nexclude (\n\texample.com/z v1.0.0\n\texample.com/y v1.0.0\n)\nretract [v1.1.0, v1.2.0] // bad\n"
    let ops : List Edit.Op := [.addRequire (B "example.com/d") (B "v1.0.0"), .cleanup,
          .setRequireSeparateIndirect [⟨B "example.com/a", B "v1.4.0", false⟩, ⟨B "example.com/e", B "v1.0.0", true⟩, ⟨B "example.com/c", B "v1.0.0", true⟩] true,
          .cleanup, .setRequire [⟨B "example.com/a", B "v1.5.0", true⟩, ⟨B "example.com/q", B "v0.5.0", false⟩] false, .addTool (B "example.com/t"),
          .addReplace (B "example.com/a") [] (B "../a") [], .addReplace (B "example.com/b") (B "v1.0.0") (B "example.com/c") (B "v1.2.0"),
          .addGodebug (B "panicnil") (B "1"), .addRetract (B "v1.0.0") (B "v1.0.0") (B "bad"), .addExclude (B "example.com/z") (B "v1.1.0"), .sortBlocks, .cleanup]
    (match parseStrict (B "go.mod") src none with
     | .ok f => Edit.startOKb f && f.syn.stmts.all (fun x => match x with
         | .lineBlock b => b.comments.suffix.isEmpty
         | _ => true) && decide (Edit.MarkersSettable f.syn.stmts) && Edit.absOKB (Edit.absOf f)
     | .error _ => false) &&
    Edit.staticValidB false ops && ops.all (fun op => Edit.argsOKB op.toSpec) &&
    Edit.outcomeIs (Edit.sessionMod src ops) (fun o => Edit.finalTreeB o.tree && Edit.absOKB o.typed && o.reparsed != some o.typed &&
      o.typed.exclude == [(B "example.com/z", B "v1.0.0"), (B "example.com/y", B "v1.0.0"), (B "example.com/z", B "v1.1.0")] &&
      (o.reparsed.map (·.exclude)) == some [(B "example.com/y", B "v1.0.0"), (B "example.com/z", B "v1.0.0"), (B "example.com/z", B "v1.1.0")]) = true := by
  decide +kernel

/-- … and its operations are go.mod operations -/
example : ∀ op ∈ ([.addRequire (B "example.com/d") (B "v1.0.0"), .cleanup,
          .setRequireSeparateIndirect [⟨B "example.com/a", B "v1.4.0", false⟩, ⟨B "example.com/e", B "v1.0.0", true⟩, ⟨B "example.com/c", B "v1.0.0", true⟩] true,
          .cleanup, .setRequire [⟨B "example.com/a", B "v1.5.0", true⟩, ⟨B "example.com/q", B "v0.5.0", false⟩] false, .addTool (B "example.com/t"),
          .addReplace (B "example.com/a") [] (B "../a") [], .addReplace (B "example.com/b") (B "v1.0.0") (B "example.com/c") (B "v1.2.0"),
          .addGodebug (B "panicnil") (B "1"), .addRetract (B "v1.0.0") (B "v1.0.0") (B "bad"), .addExclude (B "example.com/z") (B "v1.1.0"), .sortBlocks, .cleanup] :
      List Edit.Op), Edit.IsModOp op := by
  intro op hop
  simp only [List.mem_cons, List.mem_nil_iff, or_false] at hop
  rcases hop with rfl | rfl | rfl | rfl | rfl | rfl | rfl | rfl | rfl | rfl | rfl | rfl | rfl <;> trivial

/-- the condition on the final tree excludes the recorded blank-line finding: in `C15_violated_retract_blank_line_dropped`
    SortBlocks leaves a blank-line placeholder at the top of the block, `finalTreeB` is false (and `Format` drops the line) -/
example :
    Edit.outcomeIs (Edit.sessionMod (B "// note\nretract (\n\t[v2.9.0, v2.0.0-alpha.1]\n\n\tv2.9.0\n)\n") [.sortBlocks])
      (fun o => !Edit.finalTreeB o.tree && Edit.absOKB o.typed) = true := by
  decide +kernel

/-- non-vacuity of `reparse_one_line` / `reparse_first_run`: the items of a one-line file -/
example : Edit.IOK [(1, Edit.Item.go (B "1.21"))] ∧ Edit.FI [(1, Edit.Item.go (B "1.21"))] {} [] ∧
    Edit.Rend (Edit.Item.go (B "1.21")) [B "go", B "1.21"] [] := by
  refine ⟨⟨by decide, ?_, ?_, ?_, ?_⟩, ⟨rfl, by simp [Edit.items], fun q hq => by cases hq⟩, rfl⟩
  · intro q hq
    simp only [List.mem_singleton] at hq; subst hq
    exact Edit.itemOKB_sound (by decide +kernel)
  · intro a b p q h; simp at h
  · intro a b p q h1 h2; simp at h1 h2; omega
  · intro a b p q h; simp at h

/-! ### `GoodBlocks` is an invariant: the final-tree hypothesis of `typed_eq_reparse` reduced to the comment placement
    (Proofs/EditGoodBlocks{A,B,C}.lean)

    `Edit.GoodBlocks stmts`: every `LineBlock` whose token list is one verb carries a block verb of the strict parser
    (module / godebug / require / exclude / replace / retract / tool) — no `go (` / `toolchain (` block.  It holds of every
    strictly parsed file (anything else is an `unknown block type` error), and every go.mod operation preserves it in a
    state satisfying `Edit.Inv`: the only primitive that makes a block with the verb of a LINE is `addLine`'s hinted walk
    (a live top-level line whose first token is the verb of the new line), and `AddGoStmt` / `AddToolchainStmt` call it only
    when there is no typed `go` / `toolchain` entry, hence — `Inv` — no live line with that verb; lines marked removed have
    no tokens and are never converted. -/

/-- the strict parser accepts block verbs only -/
theorem parsed_goodBlocks {name data : Bytes} {f : File} (h : parseToFile name data none true = .ok f) :
    Edit.GoodBlocks f.syn.stmts ∧ Edit.GoodBlocks (Edit.load f).f.syn.stmts :=
  ⟨Edit.parseStrict_goodBlocks h, (Edit.goodBlocks_load f).2 (Edit.parseStrict_goodBlocks h)⟩

/-- **every go.mod operation preserves `GoodBlocks`**, for arbitrary arguments, in a state satisfying the tree invariant -/
theorem op_preserves_goodBlocks (e e' : Edit.EFile) (op : Edit.Op) (hi : Edit.Inv e) (h : Edit.GoodBlocks e.f.syn.stmts)
    (ha : Edit.applyMod e op = some (.ok e')) : Edit.GoodBlocks e'.f.syn.stmts :=
  (Edit.gb_iff _).1 (Edit.applyMod_gb e e' op hi ((Edit.gb_iff _).2 h) ha)

/-- **`GoodBlocks` along a session**: from every strictly parsed go.mod (start conditions of `typed_eq_tree_partial4_static`), after
    every statically valid session, before and after the final Cleanup, no block of the tree is a `go (` / `toolchain (`
    block; on `sessionMod`: the Boolean test `goodBlocksB` of the outcome's tree is true -/
theorem goodBlocks_invariant (name data : Bytes) (f : File) (ops : List Edit.Op) (e' : Edit.EFile) (res : List Bool)
    (hf : parseToFile name data none true = .ok f) (hk : Edit.WellFormedKeys f) (hs : Edit.NoBlockSuffix f.syn)
    (hm : Edit.MarkersSettable f.syn.stmts) (hv : Edit.StaticValid false ops)
    (h : Edit.runOps Edit.applyMod (Edit.load f) ops [] 0 = .done e' res) :
    Edit.GoodBlocks e'.f.syn.stmts ∧ Edit.GoodBlocks (Edit.cleanup e').f.syn.stmts :=
  ⟨(Edit.goodBlocks_run_state name data f ops e' res hf hk hs hm hv h).2,
   (Edit.goodBlocks_run name data f ops e' res hf hk hs hm hv h).2⟩

theorem goodBlocks_invariant_session (file : Bytes) (ops : List Edit.Op) (o : Edit.Outcome) (f : File)
    (hf : parseStrict (B "go.mod") file none = .ok f) (hk : Edit.WellFormedKeys f) (hs : Edit.NoBlockSuffix f.syn)
    (hm : Edit.MarkersSettable f.syn.stmts) (hv : Edit.StaticValid false ops) (h : Edit.sessionMod file ops = some o) :
    Edit.goodBlocksB o.tree.stmts = true ∧ (Edit.finalTreeB o.tree = Edit.comShapeB o.tree) := by
  have hg := Edit.goodBlocks_session file ops o f hf hk hs hm hv h
  exact ⟨hg, by simp [Edit.finalTreeB, hg]⟩

/-- **typed_eq_reparse (partial 3)** = `typed_eq_reparse_partial` with the final-tree hypothesis reduced to the comment placement:
    `Edit.comShapeB o.tree` (whole-line comments are `//` texts, a blank-line placeholder only inside a block, not first, not
    doubled; at most one end-of-line comment per line / `(` / `)`; no `after`; no header comment) — the part of
    `finalTreeB` that is genuinely not an invariant (`C15_violated_retract_blank_line_dropped`).  The other part, `goodBlocksB`,
    is now derived (`goodBlocks_invariant`). -/
theorem typed_eq_reparse_partial3 (file : Bytes) (ops : List Edit.Op) (o : Edit.Outcome) (f : File)
    (hf : parseStrict (B "go.mod") file none = .ok f) (hk : Edit.WellFormedKeys f) (hs : Edit.NoBlockSuffix f.syn)
    (hm : Edit.MarkersSettable f.syn.stmts) (hv : Edit.StaticValid false ops)
    (h : Edit.sessionMod file ops = some o) (hok : Edit.AbsOK o.typed) (hcom : Edit.comShapeB o.tree = true) :
    ∃ r, o.reparsed = some r ∧ Edit.AbsPerm r o.typed :=
  Edit.typed_eq_reparse_session3 file ops o f hf hk hs hm hv h hok hcom

/-- `typed_eq_reparse_partial_run` with `comShapeB` as the only final-tree hypothesis -/
theorem typed_eq_reparse_partial_run3 (name name' data : Bytes) (f : File) (ops : List Edit.Op) (e' : Edit.EFile) (res : List Bool)
    (hf : parseToFile name data none true = .ok f) (hk : Edit.WellFormedKeys f) (hs : Edit.NoBlockSuffix f.syn)
    (hm : Edit.MarkersSettable f.syn.stmts) (hv : Edit.StaticValid false ops)
    (h : Edit.runOps Edit.applyMod (Edit.load f) ops [] 0 = .done e' res)
    (hok : Edit.AbsOK (Edit.absOf (Edit.cleanup e').f)) (hcom : Edit.comShapeB (Edit.cleanup e').f.syn = true) :
    ∃ g, parseStrict name' (format (Edit.cleanup e').f.syn) none = .ok g ∧
      Edit.AbsPerm (Edit.absOf g) (Edit.absOf (Edit.cleanup e').f) :=
  Edit.typed_eq_reparse_run3 name name' data f ops e' res hf hk hs hm hv h hok hcom

/-- **typed_eq_reparse (partial 4)** = `typed_eq_reparse_partial2` (values conditions on the STARTING file and the OPERATION LIST)
    with `comShapeB o.tree` as the ONE remaining condition on the final state. -/
theorem typed_eq_reparse_partial4 (file : Bytes) (ops : List Edit.Op) (o : Edit.Outcome) (f : File)
    (hf : parseStrict (B "go.mod") file none = .ok f) (hk : Edit.WellFormedKeys f) (hs : Edit.NoBlockSuffix f.syn)
    (hm : Edit.MarkersSettable f.syn.stmts) (hstart : Edit.AbsOK (Edit.absOf f)) (hv : Edit.StaticValid false ops)
    (hmod : ∀ op ∈ ops, Edit.IsModOp op) (hargs : ∀ op ∈ ops, Edit.ArgsOK op.toSpec)
    (h : Edit.sessionMod file ops = some o) (hcom : Edit.comShapeB o.tree = true) :
    ∃ r, o.reparsed = some r ∧ Edit.AbsPerm r o.typed ∧ Rel o.typed (run stdValidity o.start (ops.map Edit.Op.toSpec)) :=
  Edit.typed_eq_reparse_session4 file ops o f hf hk hs hm hstart hv hmod hargs h hcom

/-- non-vacuity of `typed_eq_reparse_partial3` / `partial4` / `partial_run3` / `goodBlocks_invariant*`, on the paths the invariant is
    about: `go` and `toolchain` lines dropped (the dead lines stay in the tree until the final Cleanup) and added again —
    `AddGoStmt` hinted at the `module` line, `AddToolchainStmt` hinted at the `module` line (go dropped) and the later
    `AddGoStmt` calls updating / re-adding; the start conditions hold, the session is statically valid with readable
    arguments, the outcome passes `comShapeB` (and `goodBlocksB`), and here the re-parse equals the typed lists. -/
example :
    let src := B "module example.com/m\n\ngo 1.21\n\ntoolchain go1.21.0\n\nrequire example.com/a v1.0.0\n"
    let ops : List Edit.Op := [.dropGo, .addGo (B "1.22"), .dropToolchain, .dropGo, .addToolchain (B "go1.22.1"), .addGo (B "1.22.1"),
          .addGo (B "1.23"), .addRequire (B "example.com/b") (B "v1.1.0"), .addModule (B "example.com/n"), .sortBlocks]
    (match parseStrict (B "go.mod") src none with
     | .ok f => Edit.startOKb f && f.syn.stmts.all (fun x => match x with
         | .lineBlock b => b.comments.suffix.isEmpty
         | _ => true) && decide (Edit.MarkersSettable f.syn.stmts) && Edit.absOKB (Edit.absOf f)
     | .error _ => false) &&
    Edit.staticValidB false ops && ops.all (fun op => Edit.argsOKB op.toSpec) &&
    Edit.outcomeIs (Edit.sessionMod src ops) (fun o => Edit.comShapeB o.tree && Edit.goodBlocksB o.tree.stmts && Edit.absOKB o.typed &&
      o.typed.go == some (B "1.23") && o.typed.toolchain == some (B "go1.22.1") && o.reparsed == some o.typed) = true := by
  decide +kernel

/-- … and its operations are go.mod operations -/
example : ∀ op ∈ ([.dropGo, .addGo (B "1.22"), .dropToolchain, .dropGo, .addToolchain (B "go1.22.1"), .addGo (B "1.22.1"),
          .addGo (B "1.23"), .addRequire (B "example.com/b") (B "v1.1.0"), .addModule (B "example.com/n"), .sortBlocks] :
      List Edit.Op), Edit.IsModOp op := by
  intro op hop
  simp only [List.mem_cons, List.mem_nil_iff, or_false] at hop
  rcases hop with rfl | rfl | rfl | rfl | rfl | rfl | rfl | rfl | rfl | rfl <;> trivial

/-- the invariant hypothesis of `op_preserves_goodBlocks` is needed: in a state with a live `go` line but no typed `go` entry
    (`invB` false — not reachable from a strict parse) `AddGoStmt` does make a `go ( … )` block -/
example :
    let e : Edit.EFile := { f := { syn := { stmts := [.line { id := 1, token := [B "go", B "1.20"] }] } }, next := 2 }
    (match Edit.addGoStmt e (B "1.21") with
     | .ok e' => Edit.goodBlocksB e.f.syn.stmts && !Edit.goodBlocksB e'.f.syn.stmts && !Edit.invB e
     | .error _ => false) = true := by decide +kernel

/-- `parsed_goodBlocks`, the excluded input: a `go ( … )` block is one `unknown block type` error of the strict parser -/
example : (match parseStrict (B "go.mod") (B "module m\n\ngo (\n\t1.21\n)\n") none with
     | .ok _ => false
     | .error errs => errs.map (·.kind) == [.unknownBlock]) = true := by decide +kernel

/-! ### go.work: `nilDeref_unreachable` and `typed_eq_reparse` (Proofs/EditWorkTotalA.lean, Proofs/EditWorkReparse{A,B,C,D}.lean)

    The go.work counterparts of the two go.mod results above.  `Edit.InvW` has no marker clause, so there is nothing to
    forget: totality is proved on `InvW` itself.  `Edit.StaticValidW false ops`: the arguments are valid (`ValidArgsW`:
    non-empty godebug key / use directory / replaced path); `SetUse` has distinct non-empty directories and comes directly
    after a Cleanup (which makes every typed `use` live: `workCleanup_makes_uses_live`).  `Edit.IsWorkOp`: one of the fourteen
    operations a `WorkFile` has.  `Edit.W.GoodBlocks`: every block of the tree carries a block verb of `ParseWork`
    (godebug / use / replace); it is an invariant of EVERY go.work session, with no hypothesis on arguments or state
    (`WorkFile.AddGoStmt` / `AddToolchainStmt` insert their line by index, they never call `addLine`). -/

/-- after `WorkFile.Cleanup` every typed `use` is live (the state-dependent hypothesis of SetUse) -/
theorem workCleanup_makes_uses_live (e : Edit.EWork) : ∀ u ∈ (Edit.workCleanup e).f.use, Edit.liveU u = true :=
  Edit.workCleanup_use_live e

/-- **no panic — EVERY go.work operation** on a state satisfying `InvW`, with arguments valid in that state
    (`Edit.ValidArgsWAll`: as `ValidArgsW`; SetUse has distinct non-empty directories and runs on live `use` entries): the
    result is a success or one of the documented returned errors -/
theorem op_no_panic_work (e : Edit.EWork) (op : Edit.Op) (hv : Edit.ValidArgsWAll e op) (hw : Edit.IsWorkOp op)
    (hi : Edit.InvW e) : Edit.NoPanic (Edit.applyWork e op) :=
  Edit.applyWork_noPanic_all e op hv hw hi

/-- `nilDeref_unreachable`, go.work, from a state satisfying `InvW` -/
theorem nilDeref_unreachable_work_from_state (e : Edit.EWork) (ops : List Edit.Op) (hi : Edit.InvW e)
    (hv : Edit.StaticValidW false ops) (hw : ∀ op ∈ ops, Edit.IsWorkOp op) :
    ∃ e' res, Edit.runOps Edit.applyWork e ops [] 0 = .done e' res ∧ Edit.InvW e' ∧ Edit.InvW (Edit.workCleanup e') :=
  Edit.nilDeref_unreachable_work_state e ops hi hv hw

/-- **nilDeref_unreachable, go.work (FULL).**  For EVERY go.work text accepted by `ParseWork` (no version fixer, as in
    `sessionWork`) with non-empty keys (`WorkKeys`: observation O5; `NoBlockSuffix`: the recorded `verb () // comment`
    finding — both as in `parseWork_inv`) and EVERY session of go.work operations whose arguments are statically valid
    (`Edit.StaticValidW false ops`), the session runs to completion: every operation, in the state in which it runs, succeeds
    or returns a documented error — it NEVER returns `EditErr.nilDeref` (Go: nil `Syntax` dereference on a cleared entry; the
    other two panics of the model do not exist for go.work and are listed for symmetry) —, and after the final Cleanup the
    typed lists are again the directive-level reading of the syntax tree (`Edit.InvW`). -/
theorem nilDeref_unreachable_work (name data : Bytes) (f : WorkFile) (ops : List Edit.Op)
    (hf : parseWork name data none = .ok f) (hk : Edit.WorkKeys f) (hs : Edit.NoBlockSuffix f.syn)
    (hv : Edit.StaticValidW false ops) (hw : ∀ op ∈ ops, Edit.IsWorkOp op) :
    ∃ e' res, Edit.runOps Edit.applyWork (Edit.loadWork f) ops [] 0 = .done e' res ∧
      (∀ (pre : List Edit.Op) (op : Edit.Op) (post : List Edit.Op), ops = pre ++ op :: post →
        ∃ e1 r1, Edit.runOps Edit.applyWork (Edit.loadWork f) pre [] 0 = .done e1 r1 ∧
          Edit.applyWork e1 op ≠ some (.error .nilDeref) ∧ Edit.applyWork e1 op ≠ some (.error .badStatement) ∧
          Edit.applyWork e1 op ≠ some (.error .conflictingVersions)) ∧
      Edit.InvW (Edit.workCleanup e') :=
  Edit.nilDeref_unreachable_work_parsed name data f ops hf hk hs hv hw

/-- non-vacuity of `nilDeref_unreachable_work` / `nilDeref_unreachable_work_from_state` / `op_no_panic_work`: a parsed go.work (a
    comment block, `go`, a two-line `use` block with a quoted directory and an end-of-line comment, `replace`, `godebug`)
    satisfies the start conditions; the session (drops that leave cleared placeholders, a returned error, SetUse twice,
    each directly after a Cleanup, for both map-iteration orders) is statically valid, consists of go.work operations, and
    runs to completion with the expected results; `InvW` holds after the final Cleanup (`invWB`) -/
example :
    let src := B "// c\n\ngo 1.21\n\nuse (\n\t./a\n\t\"./b c\" // note\n)\n\nreplace example.com/a => ../a\n\ngodebug x=y\n"
    let ops : List Edit.Op := [.addUse (B "./d") [], .dropUse (B "./a"), .addGo (B "1.x"), .addToolchain (B "go1.22.0"), .cleanup,
       .setUse [(B "./b c", B "m"), (B "./e", [])] true, .dropUse (B "./e"), .addReplace (B "x.y/z") [] (B "../z") [],
       .addGodebug (B "k") (B "v"), .dropGodebug (B "x"), .sortBlocks, .cleanup, .setUse [(B "./q", [])] false]
    (match parseWork (B "go.work") src none with
     | .ok f => Edit.workStartOKb f && f.syn.stmts.all (fun x => match x with
         | .lineBlock b => b.comments.suffix.isEmpty
         | _ => true) &&
         (match Edit.runOps Edit.applyWork (Edit.loadWork f) ops [] 0 with
          | .done e res => res == [true, true, false, true, true, true, true, true, true, true, true, true, true] &&
              Edit.invWB (Edit.workCleanup e)
          | _ => false)
     | .error _ => false) &&
    Edit.staticValidWB false ops && ops.all Edit.isWorkOpB = true := by decide +kernel

/-- the static condition is needed: SetUse NOT directly after a Cleanup dereferences the cleared entry a DropUse left behind
    (`panic` at operation 1), and the session is not statically valid -/
example :
    (match parseWork (B "go.work") (B "go 1.21\n\nuse (\n\t./a\n\t./b\n)\n") none with
     | .ok f =>
       (match Edit.runOps Edit.applyWork (Edit.loadWork f) [.dropUse (B "./a"), .setUse [(B "./b", [])] false] [] 0 with
        | .panic j => j == 1
        | _ => false)
     | .error _ => false) &&
    !Edit.staticValidWB false [.dropUse (B "./a"), .setUse [(B "./b", [])] false] = true := by decide +kernel

/-- `ParseWork` accepts block verbs only -/
theorem parsed_goodBlocks_work {name data : Bytes} {f : WorkFile} (h : parseWork name data none = .ok f) :
    Edit.W.GoodBlocks f.syn.stmts ∧ Edit.W.GoodBlocks (Edit.loadWork f).f.syn.stmts :=
  ⟨Edit.W.parseWork_goodBlocks h, (Edit.W.goodBlocks_loadWork f).2 (Edit.W.parseWork_goodBlocks h)⟩

/-- **every go.work operation preserves `W.GoodBlocks`**, for arbitrary arguments, in ANY state -/
theorem op_preserves_goodBlocks_work (e e' : Edit.EWork) (op : Edit.Op) (h : Edit.W.GoodBlocks e.f.syn.stmts)
    (ha : Edit.applyWork e op = some (.ok e')) : Edit.W.GoodBlocks e'.f.syn.stmts :=
  (Edit.W.gb_iff _).1 (Edit.W.applyWork_gb e e' op ((Edit.W.gb_iff _).2 h) ha)

/-- **`W.GoodBlocks` along a session**: from every parsed go.work, after every session that runs to completion, before and
    after the final Cleanup, no block of the tree is a `go (` / `toolchain (` block; on `sessionWork`: the Boolean test -/
theorem goodBlocks_invariant_work (name data : Bytes) (f : WorkFile) (ops : List Edit.Op) (e' : Edit.EWork) (res : List Bool)
    (hf : parseWork name data none = .ok f) (h : Edit.runOps Edit.applyWork (Edit.loadWork f) ops [] 0 = .done e' res) :
    Edit.W.GoodBlocks e'.f.syn.stmts ∧ Edit.W.GoodBlocks (Edit.workCleanup e').f.syn.stmts :=
  Edit.W.goodBlocks_run name data f ops e' res hf h

theorem goodBlocks_invariant_work_session (file : Bytes) (ops : List Edit.Op) (o : Edit.Outcome)
    (h : Edit.sessionWork file ops = some o) : Edit.W.goodBlocksB o.tree.stmts = true :=
  Edit.W.goodBlocks_session file ops o h

/-- **Render–reparse for one line, every go.work verb.**  `I`: go.work items (`Edit.W.Item`: go / toolchain / godebug / use /
    replace) with the ids of their lines, pairwise different ids, every item readable, at most one go / toolchain item
    (`Edit.W.IOK`).  A line whose full tokens `verb :: args` render an item of `I` not processed yet: `WorkFile.add` appends
    exactly that item, reports no error and returns the arguments UNCHANGED (`use`: `parseString (AutoQuote p)` reads `p`
    and re-quotes it to the same token). -/
theorem reparse_one_line_work {I : List (Nat × Edit.W.Item)} (hI : Edit.W.IOK I) (st : WorkState) (Q : List (Nat × Edit.W.Item))
    (hfi : Edit.W.FI I st Q) (l : Line) (verb : Bytes) (args : List Bytes) (it : Edit.W.Item)
    (hmem : (l.id, it) ∈ I) (hfresh : l.id ∉ Q.map (·.1)) (hr : Edit.W.Rend it (verb :: args)) :
    ∃ st', WorkFile.add st l verb args none = (st', args) ∧ Edit.W.FI I st' (Q ++ [(l.id, it)]) :=
  Edit.W.add_item hI st Q hfi l verb args it hmem hfresh hr

/-- the first run of `ParseWork`'s directive layer over a whole tree: no error, no token rewritten, typed file = the items,
    as a multiset -/
theorem reparse_first_run_work {I : List (Nat × Edit.W.Item)} (hI : Edit.W.IOK I) (T : FileSyntax)
    (hnd : (Edit.treeIds T.stmts).Nodup) (hok : ∀ x ∈ T.stmts, Edit.W.StmtOK I x) (hsurj : ∀ q ∈ I, q.1 ∈ Edit.treeIds T.stmts) :
    ∃ st1, workStmts none { file := { syn := T } } T.stmts = (st1, T.stmts) ∧ st1.errsRev = [] ∧
      (Edit.W.items st1.file).Perm I :=
  Edit.W.first_run hI T hnd hok hsurj

/-- **typed_eq_reparse for a go.work STATE.**  Any state of the go.work edit model satisfying `InvW`, with live entries only
    and lines with tokens only (a Cleanup has run), readable values, block verbs on blocks and the comment placement of a
    parsed file: `ParseWork` accepts `Format` of the tree and returns the same directives (`AbsPermW`: go / toolchain equal;
    godebug, use, replace equal as multisets). -/
theorem typed_eq_reparse_work_state (name : Bytes) (e : Edit.EWork) (hi : Edit.InvW e) (hl : Edit.W.AllLive e.f)
    (hv : Edit.W.VOK e.f) (hll : Edit.LinesLive e.f.syn.stmts) (hgb : Edit.W.GoodBlocks e.f.syn.stmts)
    (hcom : Edit.comShapeB e.f.syn = true) :
    ∃ g, parseWork name (format e.f.syn) none = .ok g ∧ Edit.W.AbsPermW (Edit.absOfWork g) (Edit.absOfWork e.f) :=
  Edit.W.reparse_of_invW name e hi hl hv hll hgb hcom

/-- **typed_eq_reparse, go.work (partial).**  For EVERY go.work text accepted by `ParseWork` (no version fixer, as in
    `sessionWork`) with non-empty keys and no block suffix comment — the hypotheses of `parseWork_inv` — and EVERY statically
    valid session: if the session has an outcome `o` (it always runs to completion: `nilDeref_unreachable_work`), then
    `ParseWork` of the formatted file succeeds, `o.reparsed = some r`, and `r` has the same go version and toolchain and, as
    multisets, the same godebugs, use directories and replacements as the typed lists after the final Cleanup (`o.typed`).
    ASSUMED OF THE FINAL STATE (decidable, Boolean tests): `Edit.W.AbsOKW o.typed` (readable values; discharged from the
    starting file and the arguments in `typed_eq_reparse_work_partial2`) and `Edit.comShapeB o.tree` — the comment placement
    of a parsed file, the same single final-tree hypothesis as for go.mod (`typed_eq_reparse_partial3`); it is NOT an
    invariant (SortBlocks / Cleanup move a line with a blank-line placeholder: the example below), and removing it needs the
    same C02 extension.  The block-verb condition is derived (`goodBlocks_invariant_work`).
    Not compared: `Use.ModulePath` (never written to the file).  Not covered: parsing with a version fixer. -/
theorem typed_eq_reparse_work_partial (file : Bytes) (ops : List Edit.Op) (o : Edit.Outcome) (f : WorkFile)
    (hf : parseWork (B "go.work") file none = .ok f) (hk : Edit.WorkKeys f) (hs : Edit.NoBlockSuffix f.syn)
    (hv : Edit.StaticValidW false ops) (h : Edit.sessionWork file ops = some o) (hok : Edit.W.AbsOKW o.typed)
    (hcom : Edit.comShapeB o.tree = true) :
    ∃ r, o.reparsed = some r ∧ Edit.W.AbsPermW r o.typed :=
  Edit.W.typed_eq_reparse_work_session file ops o f hf hk hs hv h hok hcom

/-- the same in terms of `runOps` / `workCleanup` / `format` / `parseWork` -/
theorem typed_eq_reparse_work_partial_run (name name' data : Bytes) (f : WorkFile) (ops : List Edit.Op) (e' : Edit.EWork)
    (res : List Bool) (hf : parseWork name data none = .ok f) (hk : Edit.WorkKeys f) (hs : Edit.NoBlockSuffix f.syn)
    (hv : Edit.StaticValidW false ops) (h : Edit.runOps Edit.applyWork (Edit.loadWork f) ops [] 0 = .done e' res)
    (hok : Edit.W.AbsOKW (Edit.absOfWork (Edit.workCleanup e').f)) (hcom : Edit.comShapeB (Edit.workCleanup e').f.syn = true) :
    ∃ g, parseWork name' (format (Edit.workCleanup e').f.syn) none = .ok g ∧
      Edit.W.AbsPermW (Edit.absOfWork g) (Edit.absOfWork (Edit.workCleanup e').f) :=
  Edit.W.typed_eq_reparse_work_run name name' data f ops e' res hf hk hs hv h hok hcom

/-- **typed_eq_reparse, go.work (partial 2): the values condition is on the STARTING file and the OPERATION LIST.**  As
    `typed_eq_reparse_work_partial`, with `AbsOKW o.typed` replaced by `AbsOKW (absOfWork f)` (the starting file is well formed
    in C02's sense: readable paths, valid replace versions) and `ArgsOKW` of every operation (decidable: `argsOKWB`); the
    operations are go.work operations.  Also returns C08's `Rel o.typed (run …)` and the per-operation results.  The one
    remaining condition on the final state is `comShapeB o.tree`. -/
theorem typed_eq_reparse_work_partial2 (file : Bytes) (ops : List Edit.Op) (o : Edit.Outcome) (f : WorkFile)
    (hf : parseWork (B "go.work") file none = .ok f) (hk : Edit.WorkKeys f) (hs : Edit.NoBlockSuffix f.syn)
    (hstart : Edit.W.AbsOKW (Edit.absOfWork f)) (hv : Edit.StaticValidW false ops)
    (hw : ∀ op ∈ ops, Edit.IsWorkOp op) (hargs : ∀ op ∈ ops, Edit.W.ArgsOKW op.toSpec)
    (h : Edit.sessionWork file ops = some o) (hcom : Edit.comShapeB o.tree = true) :
    ∃ r, o.reparsed = some r ∧ Edit.W.AbsPermW r o.typed ∧ Rel o.typed (run stdValidity o.start (ops.map Edit.Op.toSpec)) ∧
      o.res = runOk stdValidity o.start (ops.map Edit.Op.toSpec) :=
  Edit.W.typed_eq_reparse_work_session2 file ops o f hf hk hs hstart hv hw hargs h hcom

/-- non-vacuity of `typed_eq_reparse_work_partial` / `partial2` / `partial_run` / `typed_eq_reparse_work_state` /
    `goodBlocks_invariant_work*`: a parsed go.work with a `use` block (quoted directory, end-of-line comment) satisfies the
    start conditions incl. `AbsOKW`; the session (SetUse directly after a Cleanup, every kind of Add / Drop, a versioned
    replacement, SortBlocks) is statically valid with readable arguments and consists of go.work operations; its outcome
    passes `comShapeB` (and `goodBlocksB`), its typed values are readable; and the conclusion is about MULTISETS for a
    reason: the typed replace list and the re-parsed one differ in order (the `use` lists agree here). -/
example :
    let src := B "// c\n\ngo 1.21\n\nuse (\n\t./a\n\t\"./b c\" // note\n)\n\nreplace example.com/a => ../a\n\ngodebug x=y\n"
    let ops : List Edit.Op := [.addUse (B "./d") [], .dropUse (B "./a"), .addGo (B "1.22"), .addToolchain (B "go1.22.0"), .cleanup,
       .setUse [(B "./z", B "m"), (B "./b c", []), (B "./e", [])] true, .dropUse (B "./e"), .addReplace (B "x.y/z") [] (B "../z") [],
       .addReplace (B "example.com/a") (B "v1.0.0") (B "example.com/b") (B "v1.2.0"),
       .addGodebug (B "k") (B "v"), .dropGodebug (B "x"), .sortBlocks]
    (match parseWork (B "go.work") src none with
     | .ok f => Edit.workStartOKb f && f.syn.stmts.all (fun x => match x with
         | .lineBlock b => b.comments.suffix.isEmpty
         | _ => true) && Edit.W.absOKWB (Edit.absOfWork f)
     | .error _ => false) &&
    Edit.staticValidWB false ops && ops.all Edit.isWorkOpB && ops.all (fun op => Edit.W.argsOKWB op.toSpec) &&
    Edit.outcomeIs (Edit.sessionWork src ops) (fun o => Edit.comShapeB o.tree && Edit.W.goodBlocksB o.tree.stmts &&
      Edit.W.absOKWB o.typed && o.reparsed != some o.typed && o.typed.use == [B "./b c", B "./z"] &&
      (o.reparsed.map (·.use)) == some [B "./b c", B "./z"] && o.typed.go == some (B "1.22") &&
      (o.reparsed.map (·.go)) == some (some (B "1.22")) &&
      (o.reparsed.map (·.replace)) != some o.typed.replace) = true := by decide +kernel

/-- `comShapeB` is not an invariant for go.work either: SetUse (which ends with SortBlocks) moves a `use` line preceded by
    a blank line to the top of its block; the final tree fails the test (and `Format` drops the blank line) -/
example :
    Edit.outcomeIs (Edit.sessionWork (B "go 1.21\n\nuse (\n\t./b\n\n\t./a\n)\n") [.sortBlocks])
      (fun o => !Edit.comShapeB o.tree && Edit.W.absOKWB o.typed && Edit.W.goodBlocksB o.tree.stmts) = true := by
  decide +kernel

/-- non-vacuity of `reparse_one_line_work` / `reparse_first_run_work`: the items of a one-line go.work -/
example : Edit.W.IOK [(1, Edit.W.Item.use (B "./a"))] ∧ Edit.W.FI [(1, Edit.W.Item.use (B "./a"))] {} [] ∧
    Edit.W.Rend (Edit.W.Item.use (B "./a")) [B "use", autoQuote (B "./a")] := by
  refine ⟨⟨by decide, ?_, ?_, ?_⟩, ⟨rfl, by simp [Edit.W.items], fun q hq => by cases hq⟩, rfl⟩
  · intro q hq
    simp only [List.mem_singleton] at hq; subst hq
    exact Edit.W.itemOKB_sound (by decide +kernel)
  · intro a b p q h; simp at h
  · intro a b p q h; simp at h

/-! ### The start state of a file parsed WITH a version fixer (`typed_eq_tree` (b)) -/

/-- **the universal start-state lemma with a version fixer (go.mod).**  Every file accepted by the strict parser WITH a
    `VersionFixer` `fx` (so `fixRetract` has run: every retract interval re-parsed with `fx`, its line rewritten by
    `FileSyntax.updateLine`), with non-empty keys and `NoBlockSuffix`, satisfies the tree invariant after `load`, and
    `StartOK` — under `Edit.SFix.FixerOK fx`: **`fx` never returns the empty version**.  Nothing else is asked of the fixer
    (no idempotence, no canonical output): `parseVersion` writes the RAW fixed version into the token and returns the same
    bytes, which is how `Edit.entries` reads require / exclude / replace / retract lines.  The hypothesis is needed: an
    empty fixed version is written as an empty token, which the replace rendering (`replaceToks`: version omitted when
    empty) does not have (example below). -/
theorem parseStrict_inv_fix (name data : Bytes) (fx : Fixer) (f : File) (h : parseStrict name data (some fx) = .ok f)
    (hfx : Edit.SFix.FixerOK fx) (hk : Edit.WellFormedKeys f) (hs : Edit.NoBlockSuffix f.syn) :
    Edit.Inv (Edit.load f) ∧ Edit.StartOK f :=
  ⟨Edit.SFix.parseStrict_inv_fix (Edit.SFix.fixOK_some hfx) h hk hs,
   Edit.SFix.parseStrict_startOK_fix (Edit.SFix.fixOK_some hfx) h hk⟩

/-- … and go.work (`parseWork` with a fixer; there is no `fixRetract`, the fixer only reaches the versions of `replace`) -/
theorem parseWork_inv_fix (name data : Bytes) (fx : Fixer) (f : WorkFile) (h : parseWork name data (some fx) = .ok f)
    (hfx : Edit.SFix.FixerOK fx) (hk : Edit.WorkKeys f) (hs : Edit.NoBlockSuffix f.syn) :
    Edit.InvW (Edit.loadWork f) ∧ Edit.WorkStartOK f :=
  ⟨Edit.SFix.parseWork_invW_fix (Edit.SFix.fixOK_some hfx) h hk hs,
   Edit.SFix.parseWork_startOK_fix (Edit.SFix.fixOK_some hfx) h hk⟩

/-- **`nilDeref_unreachable` for sessions that start from a file parsed WITH a version fixer** (the statement of
    `nilDeref_unreachable`, start lemma swapped) -/
theorem nilDeref_unreachable_fix (name data : Bytes) (fx : Fixer) (f : File) (ops : List Edit.Op)
    (hf : parseStrict name data (some fx) = .ok f) (hfx : Edit.SFix.FixerOK fx)
    (hk : Edit.WellFormedKeys f) (hs : Edit.NoBlockSuffix f.syn)
    (hv : Edit.StaticValid false ops) (hmod : ∀ op ∈ ops, Edit.IsModOp op) :
    ∃ e' res, Edit.runOps Edit.applyMod (Edit.load f) ops [] 0 = .done e' res ∧
      (∀ (pre : List Edit.Op) (op : Edit.Op) (post : List Edit.Op), ops = pre ++ op :: post →
        ∃ e1 r1, Edit.runOps Edit.applyMod (Edit.load f) pre [] 0 = .done e1 r1 ∧
          Edit.applyMod e1 op ≠ some (.error .nilDeref) ∧ Edit.applyMod e1 op ≠ some (.error .badStatement) ∧
          Edit.applyMod e1 op ≠ some (.error .conflictingVersions)) ∧
      Edit.P.Inv (Edit.cleanup e') :=
  Edit.SFix.nilDeref_unreachable_fix (Edit.SFix.fixOK_some hfx) name data f ops hf hk hs hv hmod

/-- … and go.work -/
theorem nilDeref_unreachable_work_fix (name data : Bytes) (fx : Fixer) (f : WorkFile) (ops : List Edit.Op)
    (hf : parseWork name data (some fx) = .ok f) (hfx : Edit.SFix.FixerOK fx)
    (hk : Edit.WorkKeys f) (hs : Edit.NoBlockSuffix f.syn)
    (hv : Edit.StaticValidW false ops) (hw : ∀ op ∈ ops, Edit.IsWorkOp op) :
    ∃ e' res, Edit.runOps Edit.applyWork (Edit.loadWork f) ops [] 0 = .done e' res ∧
      (∀ (pre : List Edit.Op) (op : Edit.Op) (post : List Edit.Op), ops = pre ++ op :: post →
        ∃ e1 r1, Edit.runOps Edit.applyWork (Edit.loadWork f) pre [] 0 = .done e1 r1 ∧
          Edit.applyWork e1 op ≠ some (.error .nilDeref) ∧ Edit.applyWork e1 op ≠ some (.error .badStatement) ∧
          Edit.applyWork e1 op ≠ some (.error .conflictingVersions)) ∧
      Edit.InvW (Edit.workCleanup e') :=
  Edit.SFix.nilDeref_unreachable_work_fix (Edit.SFix.fixOK_some hfx) name data f ops hf hk hs hv hw

/-- non-vacuity of `FixerOK`: `Edit.SFix.guardFixer fx` is `fx` with an empty answer turned into an error (equal to `fx`
    when `fx` never answers empty: `Edit.SFix.guardFixer_eq`) -/
example : Edit.SFix.FixerOK (Edit.SFix.guardFixer Modfile.fixStub) := Edit.SFix.fixerOK_guard _

/-- non-vacuity of `parseStrict_inv_fix` / `nilDeref_unreachable_fix`: a go.mod with symbolic versions (`latest`,
    `master`, the short `v1`, `v1.1`) in require / replace / retract (a retract block with an interval, and a single
    retract line) is accepted with the fixer; `fixRetract` has rewritten the retract lines (`[v1.1.0, v1.0.0]`,
    `v1.0.0`); the start conditions hold, the invariant holds after `load` (`invB`), and a statically valid session that
    drops and re-adds a rewritten retraction runs to completion -/
example :
    (match parseStrict (B "go.mod") (B "module m\n\ngo 1.21\n\nrequire a.b/c latest\nreplace a.b/c v1 => d.e/f master\nretract (\n\t[v1.1, latest] // bad\n\tv0.9\n)\nretract latest\n")
        (some (Edit.SFix.guardFixer Modfile.fixStub)) with
     | .ok f =>
       Edit.startOKb f && f.syn.stmts.all (fun x => match x with
         | .lineBlock b => b.comments.suffix.isEmpty
         | _ => true) &&
       f.require.map (·.mod.version) == [B "v1.0.0"] &&
       f.retract.map (fun r => (r.interval.low, r.interval.high)) ==
         [(B "v1.1.0", B "v1.0.0"), (B "v0.9.0", B "v0.9.0"), (B "v1.0.0", B "v1.0.0")] &&
       Edit.invB (Edit.load f) &&
       (let ops : List Edit.Op := [.dropRetract (B "v1.1.0") (B "v1.0.0"), .addRetract (B "v1.1.0") (B "v1.0.0") [],
          .addRequire (B "a.b/e") (B "v1.0.0"), .cleanup]
        Edit.staticValidB false ops &&
        (match Edit.runOps Edit.applyMod (Edit.load f) ops [] 0 with
         | .done e res => res.all id && Edit.invB (Edit.cleanup e)
         | _ => false))
     | .error _ => false) = true := by decide +kernel

/-- why `FixerOK` is needed: with a fixer that answers the empty version, `replace a.b/c => d.e/f v1.0.0` is accepted, the
    typed entry has `New.Version = ""` and the line holds FIVE tokens, the last one empty — the rendering of that entry
    (`replaceToks`) has four, so the line is not the reading of its entry (`Edit.Inv` fails at the start; `invB` false) -/
example :
    (match parseStrict (B "go.mod") (B "module m\nreplace a.b/c => d.e/f v1.0.0\n") (some (fun _ _ => .ok [])) with
     | .ok f =>
       Edit.startOKb f &&
       f.replace.map (fun r => (r.new.version, Edit.replaceToks r)) == [([], [B "replace", B "a.b/c", B "=>", B "d.e/f"])] &&
       f.syn.allLines.map (·.token) == [[B "module", B "m"], [B "replace", B "a.b/c", B "=>", B "d.e/f", []]] &&
       !Edit.invB (Edit.load f)
     | .error _ => false) = true := by decide +kernel

/-- non-vacuity of `parseWork_inv_fix` / `nilDeref_unreachable_work_fix` -/
example :
    (match parseWork (B "go.work") (B "go 1.21\n\nuse ./a\nreplace a.b/c v1 => d.e/f latest\n") (some (Edit.SFix.guardFixer Modfile.fixStub)) with
     | .ok f =>
       Edit.workStartOKb f && f.syn.stmts.all (fun x => match x with
         | .lineBlock b => b.comments.suffix.isEmpty
         | _ => true) &&
       f.replace.map (fun r => (r.old.version, r.new.version)) == [(B "v1.0.0", B "v1.0.0")] &&
       (let ops : List Edit.Op := [.addUse (B "./d") [], .dropUse (B "./a"), .cleanup]
        Edit.staticValidWB false ops && ops.all Edit.isWorkOpB &&
        (match Edit.runOps Edit.applyWork (Edit.loadWork f) ops [] 0 with
         | .done _ res => res.all id
         | _ => false))
     | .error _ => false) = true := by decide +kernel

/-! ### The harness fixer itself, and `typed_eq_reparse` for sessions that start from a file parsed WITH a fixer
    (Proofs/EditStartFixStub.lean, Proofs/EditReparseFixA.lean) -/

/-- **the fixer of the correspondence harness satisfies `FixerOK`**: `Modfile.fixStub` (= `c20FixStub` on the Go side) never
    answers the empty version — its answers are `CanonicalVersion v` of a valid `v` (non-empty), two literals, and
    `"v1." ++ toString path.length ++ ".0"` (at least the three bytes of `v1.`: `Edit.SFix.B_append_ne_nil`, by
    `String.utf8ByteSize_append`).  So `parseStrict_inv_fix`, `nilDeref_unreachable_fix`, … apply to `fixStub` directly. -/
theorem fixerOK_fixStub : Edit.SFix.FixerOK Modfile.fixStub := Edit.SFix.fixerOK_fixStub

/-- the guard is the identity on `fixStub` -/
example : Edit.SFix.guardFixer Modfile.fixStub = Modfile.fixStub := Edit.SFix.guardFixer_eq fixerOK_fixStub

/-- non-vacuity of `parseStrict_inv_fix` / `nilDeref_unreachable_fix` with `fixStub` ITSELF (the instance above without the
    guard, plus the path-dependent answer `pathlen` = `v1.1.0` for the module path `m`) -/
example :
    (match parseStrict (B "go.mod") (B "module m\n\ngo 1.21\n\nrequire a.b/c latest\nreplace a.b/c v1 => d.e/f master\nretract (\n\t[v1.1, latest] // bad\n\tv0.9\n)\nretract pathlen\n")
        (some Modfile.fixStub) with
     | .ok f =>
       Edit.startOKb f && f.syn.stmts.all (fun x => match x with
         | .lineBlock b => b.comments.suffix.isEmpty
         | _ => true) &&
       f.require.map (·.mod.version) == [B "v1.0.0"] &&
       f.retract.map (fun r => (r.interval.low, r.interval.high)) ==
         [(B "v1.1.0", B "v1.0.0"), (B "v0.9.0", B "v0.9.0"), (B "v1.1.0", B "v1.1.0")] &&
       Edit.invB (Edit.load f) &&
       (let ops : List Edit.Op := [.dropRetract (B "v1.1.0") (B "v1.0.0"), .addRetract (B "v1.1.0") (B "v1.0.0") [],
          .addRequire (B "a.b/e") (B "v1.0.0"), .cleanup]
        Edit.staticValidB false ops &&
        (match Edit.runOps Edit.applyMod (Edit.load f) ops [] 0 with
         | .done e res => res.all id && Edit.invB (Edit.cleanup e)
         | _ => false))
     | .error _ => false) = true := by decide +kernel

/-- … and go.work with `fixStub` itself -/
example :
    (match parseWork (B "go.work") (B "go 1.21\n\nuse ./a\nreplace a.b/c v1 => d.e/f latest\n") (some Modfile.fixStub) with
     | .ok f =>
       Edit.workStartOKb f && f.syn.stmts.all (fun x => match x with
         | .lineBlock b => b.comments.suffix.isEmpty
         | _ => true) &&
       f.replace.map (fun r => (r.old.version, r.new.version)) == [(B "v1.0.0", B "v1.0.0")] &&
       (let ops : List Edit.Op := [.addUse (B "./d") [], .dropUse (B "./a"), .cleanup]
        Edit.staticValidWB false ops && ops.all Edit.isWorkOpB &&
        (match Edit.runOps Edit.applyWork (Edit.loadWork f) ops [] 0 with
         | .done _ res => res.all id
         | _ => false))
     | .error _ => false) = true := by decide +kernel

/-- **a go.mod strictly parsed with a fixer has block verbs on all its blocks** (`parsed_goodBlocks` for any fixer that never
    answers empty: the statement loop reports `unknown block type` whatever the fixer is; `fixRetract` rewrites tokens of
    lines only) -/
theorem parsed_goodBlocks_fix (name data : Bytes) (fx : Fixer) (f : File) (h : parseStrict name data (some fx) = .ok f)
    (hfx : Edit.SFix.FixerOK fx) : Edit.GoodBlocks f.syn.stmts :=
  Edit.SFix.parseStrict_goodBlocks_fix (Edit.SFix.fixOK_some hfx) h

/-- **typed_eq_reparse (partial), sessions that start from a file parsed WITH a version fixer.**  The statement of
    `typed_eq_reparse_partial_run3` with the start file accepted by `parseStrict name data (some fx)`, `FixerOK fx`: after a
    statically valid session and the final Cleanup, the strict re-parse of the formatted tree reads the values of the typed
    file (`AbsPerm`), under the readable-values condition on the final typed lists and `comShapeB` of the final tree.
    The re-parse is WITHOUT a fixer, deliberately: the typed versions are already the fixed ones and the tree holds exactly
    these bytes (`parseStrict_inv_fix`), so the plain strict parser must read them back; re-parsing with `fx` would ask
    `fx` to be idempotent on its own answers, which `FixerOK` does not say.  Only two steps of the proof of
    `typed_eq_reparse_run3` look at how the start file was parsed — the start invariant and `GoodBlocks` of the parsed tree
    (`parseStrict_inv_fix`, `parsed_goodBlocks_fix`); the rest is about states.
    `_partial` for the same reason as `typed_eq_reparse_partial3`: `comShapeB` of the FINAL tree is a hypothesis, not derived. -/
theorem typed_eq_reparse_run_fix_partial (name name' data : Bytes) (fx : Fixer) (f : File) (ops : List Edit.Op)
    (e' : Edit.EFile) (res : List Bool)
    (hf : parseStrict name data (some fx) = .ok f) (hfx : Edit.SFix.FixerOK fx)
    (hk : Edit.WellFormedKeys f) (hs : Edit.NoBlockSuffix f.syn)
    (hm : Edit.MarkersSettable f.syn.stmts) (hv : Edit.StaticValid false ops)
    (h : Edit.runOps Edit.applyMod (Edit.load f) ops [] 0 = .done e' res)
    (hok : Edit.AbsOK (Edit.absOf (Edit.cleanup e').f)) (hcom : Edit.comShapeB (Edit.cleanup e').f.syn = true) :
    ∃ g, parseStrict name' (format (Edit.cleanup e').f.syn) none = .ok g ∧
      Edit.AbsPerm (Edit.absOf g) (Edit.absOf (Edit.cleanup e').f) :=
  Edit.SFix.typed_eq_reparse_run_fix (Edit.SFix.fixOK_some hfx) name name' data f ops e' res hf hk hs hm hv h hok hcom

/-- … with the values condition on the STARTING file (`AbsOK (absOf f)`: the FIXED versions are canonical, the paths
    readable) and the OPERATION LIST (`ArgsOK`), as in `typed_eq_reparse_partial4`; the typed file is also the step table's
    prediction from `absOf f` (`Rel`, C08 `refines_abs_typed` — it needs `StartOK` only) -/
theorem typed_eq_reparse_run_fix_partial2 (name name' data : Bytes) (fx : Fixer) (f : File) (ops : List Edit.Op)
    (e' : Edit.EFile) (res : List Bool)
    (hf : parseStrict name data (some fx) = .ok f) (hfx : Edit.SFix.FixerOK fx)
    (hk : Edit.WellFormedKeys f) (hs : Edit.NoBlockSuffix f.syn)
    (hm : Edit.MarkersSettable f.syn.stmts) (hstart : Edit.AbsOK (Edit.absOf f)) (hv : Edit.StaticValid false ops)
    (hmod : ∀ op ∈ ops, Edit.IsModOp op) (hargs : ∀ op ∈ ops, Edit.ArgsOK op.toSpec)
    (h : Edit.runOps Edit.applyMod (Edit.load f) ops [] 0 = .done e' res)
    (hcom : Edit.comShapeB (Edit.cleanup e').f.syn = true) :
    ∃ g, parseStrict name' (format (Edit.cleanup e').f.syn) none = .ok g ∧
      Edit.AbsPerm (Edit.absOf g) (Edit.absOf (Edit.cleanup e').f) ∧
      Rel (Edit.absOf (Edit.cleanup e').f) (run stdValidity (Edit.absOf f) (ops.map Edit.Op.toSpec)) :=
  Edit.SFix.typed_eq_reparse_run_fix2 (Edit.SFix.fixOK_some hfx) name name' data f ops e' res hf hk hs hm hstart hv hmod hargs h hcom

/-- non-vacuity of `typed_eq_reparse_run_fix_partial` / `partial2` / `parsed_goodBlocks_fix`, with `fixStub`: symbolic versions
    in require / replace / retract (`latest`, `v1`, `master`, `pathlen`; the retract lines rewritten by `fixRetract`); the
    start conditions hold (keys, no block suffix, settable markers, readable FIXED values), the session is statically valid
    with readable arguments, the final tree passes `comShapeB`, and the re-parse WITHOUT a fixer reads the typed lists — the
    retractions as a PERMUTATION (the new interval is added to the block of the `pathlen` retraction, which the typed list
    has before it): the `AbsPerm` of the statement is not an equality here -/
example :
    let src := B "module m\n\ngo 1.21\n\nrequire a.b/c latest\nreplace a.b/c v1 => d.e/f master\nretract (\n\t[v1.1, latest] // bad\n\tv0.9\n)\nretract pathlen\n"
    let ops : List Edit.Op := [.dropRetract (B "v1.1.0") (B "v1.0.0"), .addRetract (B "v1.2.0") (B "v1.3.0") (B "worse"),
          .addRequire (B "a.b/e") (B "v1.0.0"), .dropGo, .addGo (B "1.22"), .sortBlocks]
    (match parseStrict (B "go.mod") src (some Modfile.fixStub) with
     | .ok f => Edit.startOKb f && f.syn.stmts.all (fun x => match x with
         | .lineBlock b => b.comments.suffix.isEmpty
         | _ => true) && decide (Edit.MarkersSettable f.syn.stmts) && Edit.absOKB (Edit.absOf f) &&
         Edit.goodBlocksB f.syn.stmts &&
         Edit.staticValidB false ops && ops.all (fun op => Edit.argsOKB op.toSpec) &&
         (match Edit.runOps Edit.applyMod (Edit.load f) ops [] 0 with
          | .done e _ =>
            Edit.absOKB (Edit.absOf (Edit.cleanup e).f) && Edit.comShapeB (Edit.cleanup e).f.syn &&
            (Edit.absOf (Edit.cleanup e).f).retract.map (fun r => (r.lo, r.hi)) ==
              [(B "v0.9.0", B "v0.9.0"), (B "v1.1.0", B "v1.1.0"), (B "v1.2.0", B "v1.3.0")] &&
            (match parseStrict (B "go.mod") (format (Edit.cleanup e).f.syn) none with
             | .ok g => (Edit.absOf g).retract.map (fun r => (r.lo, r.hi)) ==
                 [(B "v0.9.0", B "v0.9.0"), (B "v1.2.0", B "v1.3.0"), (B "v1.1.0", B "v1.1.0")] &&
               { Edit.absOf g with retract := [] } == { Edit.absOf (Edit.cleanup e).f with retract := [] }
             | .error _ => false)
          | _ => false)
     | .error _ => false) = true := by
  decide +kernel

/-- … and its operations are go.mod operations -/
example : ∀ op ∈ ([.dropRetract (B "v1.1.0") (B "v1.0.0"), .addRetract (B "v1.2.0") (B "v1.3.0") (B "worse"),
          .addRequire (B "a.b/e") (B "v1.0.0"), .dropGo, .addGo (B "1.22"), .sortBlocks] : List Edit.Op), Edit.IsModOp op := by
  intro op hop
  simp only [List.mem_cons, List.mem_nil_iff, or_false] at hop
  rcases hop with rfl | rfl | rfl | rfl | rfl | rfl <;> trivial

end ModVerif.Props.C15
