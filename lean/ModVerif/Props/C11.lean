/-
  C11 — Path and version escaping is a lossless, case-collision-free encoding.
  Property theorems only; helper lemmas live in ModVerif/Proofs/ModuleEscape.lean and ModuleUtf8.lean.

  Reading of the property text:
  * "valid module path"   = `checkModPath p = .ok ()` (module.CheckPath returns nil);
  * "allowed version"     = the domain on which EscapeVersion succeeds, characterised by
                            `escapeVersion_ok_iff` as: valid file-name element, no '!', ASCII;
  * "equal ignoring case" = `lower e = lower f` (ASCII lower-casing).  Escaped strings are ASCII
                            (`escapePath_no_upper` / `escapeVersion_no_upper`, first conjunct), and on
                            ASCII strings this is strings.EqualFold.
  All version theorems hold for every `isLetter` (unicode.IsLetter is a parameter).
-/
import ModVerif.Model.Module
import ModVerif.Proofs.ModuleEscape
import ModVerif.Proofs.ModulePath
namespace ModVerif.Props.C11
open ModVerif ModVerif.Module

/-! ### module paths -/

/-- The escape of a module path is ASCII and has no upper-case letter. -/
theorem escapePath_no_upper (p e : Bytes) (h : escapePath p = .ok e) :
    ∀ c ∈ e, c.toNat < 128 ∧ ¬ (65 ≤ c.toNat ∧ c.toNat ≤ 90) := by
  obtain ⟨_, hs⟩ := (escapePath_ok_iff p e).mp h
  obtain ⟨hall, rfl⟩ := escapeString_some p e hs
  exact escapeRunes_out p (okByte_ascii p hall)

/-- Round trip: what EscapePath produces, UnescapePath maps back to the original. -/
theorem unescapePath_escapePath (p e : Bytes) (h : escapePath p = .ok e) : unescapePath e = .ok p := by
  obtain ⟨hv, hs⟩ := (escapePath_ok_iff p e).mp h
  obtain ⟨hall, rfl⟩ := escapeString_some p e hs
  exact (unescapePath_ok_iff _ p).mpr ⟨by rw [unescapeString_eq]; exact unescape_escapeRunes p hall, hv⟩

/-- Two different valid paths never escape to strings that are equal ignoring case. -/
theorem escapePath_fold_inj (p q e f : Bytes) (hp : escapePath p = .ok e) (hq : escapePath q = .ok f)
    (h : lower e = lower f) : p = q := by
  obtain ⟨_, hs⟩ := (escapePath_ok_iff p e).mp hp
  obtain ⟨_, ht⟩ := (escapePath_ok_iff q f).mp hq
  obtain ⟨hpa, rfl⟩ := escapeString_some p e hs
  obtain ⟨hqa, rfl⟩ := escapeString_some q f ht
  exact escapeRunes_lower_inj p q hpa hqa h

/-- UnescapePath succeeds only on the escape of a valid module path (its own result). -/
theorem unescapePath_image (e p : Bytes) (h : unescapePath e = .ok p) : escapePath p = .ok e := by
  obtain ⟨hu, hv⟩ := (unescapePath_ok_iff e p).mp h
  rw [unescapeString_eq] at hu
  refine (escapePath_ok_iff p e).mpr ⟨hv, ?_⟩
  rw [escapeString_eq, unescapeRunes_out e false p hu]
  simpa using escape_unescapeRunes e false p hu

/-- EscapePath rejects every invalid module path, with CheckPath's error. -/
theorem escapePath_rejects_invalid (p : Bytes) (x : PathErr) (h : checkModPath p = .error x) :
    escapePath p = .error (.path x) := by
  simp [escapePath, h]

/-- Every valid module path escapes: the "internal error" return of escapeString is unreachable
    from EscapePath. -/
theorem escapePath_total_on_valid (p : Bytes) (h : checkModPath p = .ok ()) : ∃ e, escapePath p = .ok e := by
  have hall : p.all okByte = true := by
    rw [List.all_eq_true]; intro b hb
    rcases checkModPath_bytes p h b hb with h47 | hok
    · subst h47; decide
    · have := modPathOK_lt _ hok
      have := modPathOK_not_bang _ hok
      simp [okByte, *]
  exact ⟨_, (escapePath_ok_iff p _).mpr ⟨h, by rw [escapeString_eq, hall]; rfl⟩⟩

/-- EscapePath succeeds exactly on the valid module paths. -/
theorem escapePath_ok_iff_valid (p : Bytes) : (∃ e, escapePath p = .ok e) ↔ checkModPath p = .ok () :=
  ⟨fun ⟨e, h⟩ => ((escapePath_ok_iff p e).mp h).1, escapePath_total_on_valid p⟩

/-! ### versions -/

/-- The domain of EscapeVersion ("allowed versions"): a valid file-name element, without '!', all ASCII. -/
theorem escapeVersion_ok_iff (isLetter : Nat → Bool) (v : Bytes) :
    (∃ e, escapeVersion isLetter v = .ok e) ↔
      checkElem isLetter .file v = .ok () ∧ v.contains 33 = false ∧ (∀ b ∈ v, b.toNat < 128) := by
  constructor
  · rintro ⟨e, h⟩
    obtain ⟨h1, h2, h3⟩ := (Module.escapeVersion_ok_iff isLetter v e).mp h
    exact ⟨h1, h2, okByte_ascii v (escapeString_some v e h3).1⟩
  · rintro ⟨h1, h2, h3⟩
    have hall : v.all okByte = true := by
      rw [List.all_eq_true]; intro b hb
      have hne : b ≠ 33 := by
        intro hb33; subst hb33
        have : v.contains 33 = true := by simpa using hb
        rw [h2] at this; cases this
      have : b.toNat ≠ 33 := fun hh => hne (eq_of_toNat_eq (by simpa using hh))
      simp [okByte, this, h3 b hb]
    exact ⟨_, (Module.escapeVersion_ok_iff isLetter v _).mpr ⟨h1, h2, by rw [escapeString_eq, hall]; rfl⟩⟩

/-- EscapeVersion rejects every string that is not a valid file-name element or contains '!'. -/
theorem escapeVersion_rejects_invalid (isLetter : Nat → Bool) (v : Bytes)
    (h : checkElem isLetter .file v ≠ .ok () ∨ v.contains 33 = true) :
    escapeVersion isLetter v = .error .disallowed := by
  unfold escapeVersion
  cases h1 : checkElem isLetter .file v with
  | error x => simp
  | ok u =>
    rcases h with h | h
    · exact absurd h1 h
    · have hm : (33 : UInt8) ∈ v := by simpa using h
      simp [hm]

/-- Observation O1: a valid file-name element without '!' that has a non-ASCII byte is rejected with
    the "internal error" return (nothing is mis-encoded). -/
theorem escapeVersion_nonascii_rejected (isLetter : Nat → Bool) (v : Bytes)
    (h1 : checkElem isLetter .file v = .ok ()) (h2 : v.contains 33 = false)
    (h3 : ∃ b ∈ v, 128 ≤ b.toNat) : escapeVersion isLetter v = .error .internal := by
  have hall : v.all okByte = false := by
    rw [List.all_eq_false]
    obtain ⟨b, hb, hge⟩ := h3
    refine ⟨b, hb, ?_⟩
    simp [okByte]; omega
  have hm : ¬ (33 : UInt8) ∈ v := by
    intro hm
    have : v.contains 33 = true := by simpa using hm
    rw [h2] at this; cases this
  unfold escapeVersion
  simp [h1, hm, escapeString_eq, hall]

/-- The escape of a version is ASCII and has no upper-case letter. -/
theorem escapeVersion_no_upper (isLetter : Nat → Bool) (v e : Bytes) (h : escapeVersion isLetter v = .ok e) :
    ∀ c ∈ e, c.toNat < 128 ∧ ¬ (65 ≤ c.toNat ∧ c.toNat ≤ 90) := by
  obtain ⟨_, _, hs⟩ := (Module.escapeVersion_ok_iff isLetter v e).mp h
  obtain ⟨hall, rfl⟩ := escapeString_some v e hs
  exact escapeRunes_out v (okByte_ascii v hall)

/-- Round trip for versions. -/
theorem unescapeVersion_escapeVersion (isLetter : Nat → Bool) (v e : Bytes)
    (h : escapeVersion isLetter v = .ok e) : unescapeVersion isLetter e = .ok v := by
  obtain ⟨hv, _, hs⟩ := (Module.escapeVersion_ok_iff isLetter v e).mp h
  obtain ⟨hall, rfl⟩ := escapeString_some v e hs
  exact (unescapeVersion_ok_iff isLetter _ v).mpr
    ⟨by rw [unescapeString_eq]; exact unescape_escapeRunes v hall, hv⟩

/-- Two different allowed versions never escape to strings that are equal ignoring case. -/
theorem escapeVersion_fold_inj (isLetter : Nat → Bool) (v w e f : Bytes)
    (hv : escapeVersion isLetter v = .ok e) (hw : escapeVersion isLetter w = .ok f)
    (h : lower e = lower f) : v = w := by
  obtain ⟨_, _, hs⟩ := (Module.escapeVersion_ok_iff isLetter v e).mp hv
  obtain ⟨_, _, ht⟩ := (Module.escapeVersion_ok_iff isLetter w f).mp hw
  obtain ⟨hva, rfl⟩ := escapeString_some v e hs
  obtain ⟨hwa, rfl⟩ := escapeString_some w f ht
  exact escapeRunes_lower_inj v w hva hwa h

/-- UnescapeVersion succeeds only on the escape of an allowed version (its own result). -/
theorem unescapeVersion_image (isLetter : Nat → Bool) (e v : Bytes)
    (h : unescapeVersion isLetter e = .ok v) : escapeVersion isLetter v = .ok e := by
  obtain ⟨hu, hv⟩ := (unescapeVersion_ok_iff isLetter e v).mp h
  rw [unescapeString_eq] at hu
  have hall := unescapeRunes_out e false v hu
  refine (Module.escapeVersion_ok_iff isLetter v e).mpr ⟨hv, okByte_no_bang v hall, ?_⟩
  rw [escapeString_eq, hall]
  simpa using escape_unescapeRunes e false v hu

/-! ### non-vacuity: concrete instances of every hypothesis -/

example : escapePath (B "github.com/Azure/azure-sdk-for-go/v2") = .ok (B "github.com/!azure/azure-sdk-for-go/v2") := by
  decide +kernel
example : unescapePath (B "github.com/!azure/azure-sdk-for-go/v2") = .ok (B "github.com/Azure/azure-sdk-for-go/v2") := by
  decide +kernel
-- two valid paths differing only in case: the escapes differ even after lower-casing
example : escapePath (B "example.com/Ab") = .ok (B "example.com/!ab") ∧ escapePath (B "example.com/aB") = .ok (B "example.com/a!b")
    ∧ lower (B "example.com/!ab") ≠ lower (B "example.com/a!b") := by decide +kernel
example : checkModPath (B "example.com/x!y") = .error .invalidChar := by decide +kernel
example : escapeVersion (fun _ => false) (B "v1.0.0-RC1") = .ok (B "v1.0.0-!r!c1") := by decide +kernel
example : unescapeVersion (fun _ => false) (B "v1.0.0-!r!c1") = .ok (B "v1.0.0-RC1") := by decide +kernel
example : checkElem (fun _ => false) .file (B "v1!0") = .ok () ∧ (B "v1!0").contains 33 = true := by decide +kernel
-- O1: é (C3 A9) is a letter; the version is a valid file name, and EscapeVersion returns the internal error
example : escapeVersion (fun r => r == 233) (B "v1.0.0-é") = .error .internal := by decide +kernel
example : checkElem (fun r => r == 233) .file (B "v1.0.0-é") = .ok () ∧ (B "v1.0.0-é").contains 33 = false
    ∧ ∃ b ∈ B "v1.0.0-é", 128 ≤ b.toNat := by decide +kernel

end ModVerif.Props.C11
