/-
  C14 — concurrent lookups behave like sequential ones and fetch each record once.
  Property theorems only; helper lemmas live in ModVerif/Proofs/ParCacheInv.lean and ModVerif/Proofs/ClientLatestInv.lean.

  What is modelled: the once-per-key cache (`parCache.Do`, Model/ParCache.lean) and the protocol that maintains the
  in-memory and the stored latest tree head (Model/ClientLatest.lean), both as interleaved small-step machines with any
  number of goroutines / clients, under sequentially consistent `sync.Map`, `sync.Mutex`, `atomic` (DESIGN §4).
  The clause "without data races" of C14 is a statement about the Go memory model and is NOT covered by any theorem
  here (partial; the scheduled runs and the race-detector build are evidence only).
-/
import ModVerif.Proofs.ParCacheInv
import ModVerif.Proofs.ClientLatestInv
import ModVerif.Props.C13
namespace ModVerif.Props.C14
open ModVerif ModVerif.ParCache

/-- ★ **`parCache.Do` runs `f` at most once per key, and every `Do` returns that run's result.**
For every interleaving (every state reachable by any number of callers taking steps in any order), for any
assignment of keys to callers and any values the callers' closures would produce:
`f` has run at most once for every key, and every caller that has returned got exactly the value produced by
the one run for its key (which therefore exists). -/
theorem parCache_once {V : Type} (key : Nat → Nat) (fval : Nat → V) (s : St V) (h : Reachable key fval s) :
    (∀ k, s.runs k ≤ 1) ∧
    (∀ i, s.pc i = .returned → s.runs (key i) = 1 ∧ (s.ran (key i)).isSome = true ∧ s.got i = s.ran (key i)) := by
  have hI := inv_reachable key fval s h
  exact ⟨hI.runs_le, fun i hi => ⟨(hI.returned_ok i hi).2.2, (hI.returned_ok i hi).2.1, (hI.returned_ok i hi).1⟩⟩

/-- No call to `Do` returns before the one call to `f` has returned (the doc comment of cache.go): a caller that is
at or past the final read of `e.result` sees `done`, and `done` is only set after `f` ran. -/
theorem parCache_no_early_return {V : Type} (key : Nat → Nat) (fval : Nat → V) (s : St V) (h : Reachable key fval s)
    (i : Nat) (hi : s.pc i = .ret ∨ s.pc i = .returned) : s.runs (key i) = 1 := by
  have hI := inv_reachable key fval s h
  rcases hi with hi | hi
  · exact (hI.done_ran _ (hI.after_done i (Or.inr hi))).1
  · exact (hI.returned_ok i hi).2.2

/-- Mutual exclusion on the entry: two different callers of the same key are never both between `Lock` and `Unlock`. -/
theorem parCache_mutex {V : Type} (key : Nat → Nat) (fval : Nat → V) (s : St V) (h : Reachable key fval s)
    (i j : Nat) (hi : inCS (s.pc i)) (hj : inCS (s.pc j)) (hk : key i = key j) : i = j :=
  (inv_reachable key fval s h).cs_unique i j hi hj hk

/-! Non-vacuity: three callers, two keys (callers 0 and 1 share key 7), closures returning 10, 11, 12.
A contended schedule in which caller 1 stores the entry, caller 0 wins the lock and runs `f`, caller 1 waits for
the lock, finds `done` and returns caller 0's value; caller 2 works on its own key. -/
def exKey : Nat → Nat := fun i => if i = 2 then 9 else 7
def exVal : Nat → Nat := fun i => 10 + i
def exSched : List Nat :=
  [0, 1, 0, 1, 1, 0, 0, 1, 0, 0, 0, 2, 2, 2, 2, 2, 2, 0, 0, 0, 1, 1, 1, 1, 2, 2, 2, 2]

example : ((run exKey exVal (init Nat) exSched).map
    (fun s => (s.got 0, s.got 1, s.got 2, s.runs 7, s.runs 9, s.pc 0, s.pc 1, s.pc 2))) =
    some (some 10, some 10, some 12, 1, 1, .returned, .returned, .returned) := by rfl

/-- the mutex really blocks: with caller 0 inside the critical section, caller 1's `Lock` step is not enabled -/
example : ((run exKey exVal (init Nat) [0, 0, 0, 0, 0, 1, 1, 1]).bind (fun s => step exKey exVal s 1)).isNone = true := by decide

/-! ## The shared latest tree head under concurrency (machine: Model/ClientLatest.lean) -/

section
open ModVerif.ClientLatest
variable {M T : Type} [DecidableEq M] [DecidableEq T]

/-- ★ **The latest tree head never regresses — in memory and in the configuration** — for any number of goroutines and
clients, any interleaving of the `latestMu` sections, configuration reads and compare-and-swap writes, and any server:
along every continuation of every reachable state each client's in-memory head and the stored head move up in the
prefix order, hence never shrink.  (`Sound`: an `ok` of `checkTrees(older,newer)` implies `older ≤ newer`.) -/
theorem latest_never_regresses (P : Params M T) (le : T → T → Prop) (hS : Sound P le)
    (hsz : ∀ a b, le a b → P.size a ≤ P.size b)
    (cl : Nat → Nat) (presented : Nat → Option M) (priv : Nat → Bool) (c0 : Option M)
    (sched : List (Nat × Res)) (s s' : St M T) (h : Reachable P cl presented priv c0 s)
    (hr : run P cl presented priv s sched = some s') :
    (∀ c, le (s.latest c) (s'.latest c) ∧ P.size (s.latest c) ≤ P.size (s'.latest c)) ∧
    le (cfgTree P s.config) (cfgTree P s'.config) ∧ P.size (cfgTree P s.config) ≤ P.size (cfgTree P s'.config) := by
  obtain ⟨h1, h2⟩ := Props.C13.latest_monotone P le hS cl presented priv c0 sched s s' h hr
  exact ⟨fun c => ⟨h1 c, hsz _ _ (h1 c)⟩, h2, hsz _ _ h2⟩

/-- ★ **A path matching the private-module pattern list never triggers any external operation**: a thread whose path is
private is, in every reachable state, either not started or finished with `ErrGONOSUMDB`, has performed no external
operation, and its only step changes nothing that is shared (stored head, in-memory heads, security reports, writes). -/
theorem private_no_ops (P : Params M T) (le : T → T → Prop) (hS : Sound P le)
    (cl : Nat → Nat) (presented : Nat → Option M) (priv : Nat → Bool) (c0 : Option M)
    (s : St M T) (h : Reachable P cl presented priv c0 s) (t : Nat) (hp : priv t = true) :
    ((s.th t).pc = .entry ∨ (s.th t).pc = .done .gonosumdb) ∧ (s.th t).ops = 0 ∧
    ∀ r s', step P cl presented priv s t r = some s' →
      s'.config = s.config ∧ s'.latest = s.latest ∧ s'.latestMsg = s.latestMsg ∧ s'.sec = s.sec ∧ s'.writes = s.writes ∧
      (s'.th t).pc = .done .gonosumdb ∧ (s'.th t).ops = 0 := by
  have hI := inv_reachable P le hS cl presented priv c0 s h
  exact ⟨(hI.private_idle t hp).1, (hI.private_idle t hp).2,
    fun r s' hs => step_private P le cl presented priv s s' t r hI hp hs⟩

/-- conversely a public lookup never ends with `ErrGONOSUMDB` (the private branch is not vacuous the other way) -/
theorem public_not_skipped (P : Params M T) (le : T → T → Prop) (hS : Sound P le)
    (cl : Nat → Nat) (presented : Nat → Option M) (priv : Nat → Bool) (c0 : Option M)
    (s : St M T) (h : Reachable P cl presented priv c0 s) (t : Nat) (hp : priv t = false) :
    (s.th t).pc ≠ .done .gonosumdb :=
  (inv_reachable P le hS cl presented priv c0 s h).public_pc t hp

/-- non-vacuity: in the two-log instance thread 9 is private; it can take its step and ends with `gonosumdb`, 0 operations -/
example : ((run (forkParams 3 false) Props.C13.exCl Props.C13.exPresented Props.C13.exPriv
      (init (forkParams 3 false) none) [(9, .ok)]).map fun s => ((s.th 9).pc, (s.th 9).ops, s.config)) =
    some (.done .gonosumdb, 0, none) := by rfl

/-- non-vacuity of the contended paths: two goroutines of one client race to install A@4 and A@5 over A@3 — the loser of
the `latestMu` compare goes around again (memInstall → memCheck) — and two clients race on the configuration — the loser
of the compare-and-swap gets the write conflict and goes around again (writeConfig → readConfig). -/
example : ((run (forkParams 0 false) (fun _ => 0) (fun t => if t = 0 then some (0, 4) else some (0, 5)) (fun _ => false)
      (init (forkParams 0 false) none)
      [(0, .ok), (0, .ok), (0, .ok), (0, .ok), (1, .ok), (1, .ok), (1, .ok), (1, .ok), (0, .ok), (1, .ok)]).map
      fun s => ((s.th 0).pc, (s.th 1).pc, s.latest 0)) =
    some (.readConfig, .memCheck .first, (0, 4)) := by rfl

example : ((run (forkParams 0 false) (fun t => t) (fun t => if t = 0 then some (0, 4) else some (0, 5)) (fun _ => false)
      (init (forkParams 0 false) none)
      [(0, .ok), (0, .ok), (0, .ok), (0, .ok), (0, .ok), (0, .ok), (0, .ok), (0, .ok),
       (1, .ok), (1, .ok), (1, .ok), (1, .ok), (1, .ok), (1, .ok), (1, .ok), (1, .ok),
       (0, .ok), (1, .ok)]).map
      fun s => ((s.th 0).pc, (s.th 1).pc, s.config)) =
    some (.done .ok, .readConfig, some (0, 4)) := by rfl

end

end ModVerif.Props.C14
