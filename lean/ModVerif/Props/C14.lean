/-
  C14 — concurrent lookups behave like sequential ones and fetch each record once.
  Property theorems only; helper lemmas live in ModVerif/Proofs/ParCacheInv.lean, ModVerif/Proofs/ClientLatestInv.lean and
  ModVerif/Proofs/ClientMore{Honest,Flush,Seen,Finish,Max,Fetch,Seq}.lean; the refinement between the sequential client model
  (Model/Client.lean) and the two machines: ModVerif/Proofs/ClientRefine{Frame,Head,Step,Sim,Seq,Mem,Cache,Honest,Chain}.lean.

  What is modelled: the once-per-key cache (`parCache.Do`, Model/ParCache.lean) and the protocol that maintains the
  in-memory and the stored latest tree head (Model/ClientLatest.lean), both as interleaved small-step machines with any
  number of goroutines / clients, under sequentially consistent `sync.Map`, `sync.Mutex`, `atomic` (DESIGN §4).
  The clause "without data races" of C14 is a statement about the Go memory model and is NOT covered by any theorem
  here (partial; the scheduled runs and the race-detector build are evidence only).
-/
import ModVerif.Proofs.ParCacheInv
import ModVerif.Proofs.ClientLatestInv
import ModVerif.Proofs.ClientMoreMax
import ModVerif.Proofs.ClientMoreFetch
import ModVerif.Proofs.ClientMoreSeq
import ModVerif.Proofs.ClientMoreTie
import ModVerif.Proofs.ClientRefineSim
import ModVerif.Proofs.ClientRefineSeq
import ModVerif.Proofs.ClientRefineCache
import ModVerif.Proofs.ClientRefineHonest
import ModVerif.Proofs.ClientRefineMem
import ModVerif.Proofs.ClientRefineChain
import ModVerif.Proofs.ClientEffectsLookup
import ModVerif.Props.C13
namespace ModVerif.Props.C14
open ModVerif ModVerif.ParCache

/-- ★ **`parCache.Do` runs `f` at most once per key, and every `Do` returns that run's result.**
For every interleaving (every state reachable by any number of callers taking steps in any order), for any
assignment of keys to callers and any values the callers' closures would produce:
`f` has run at most once for every key, and every caller that has returned got exactly the value produced by
the one run for its key (which therefore exists). -/
theorem parCache_once {V : Type} (key : Nat → Nat) (fval : Nat → V) (s : St V) (h : Reachable key fval s) :
    (∀ k, s.runs k ≤ 1) ∧
    (∀ i, s.pc i = .returned → s.runs (key i) = 1 ∧ (s.ran (key i)).isSome = true ∧ s.got i = s.ran (key i)) := by
  have hI := inv_reachable key fval s h
  exact ⟨hI.runs_le, fun i hi => ⟨(hI.returned_ok i hi).2.2, (hI.returned_ok i hi).2.1, (hI.returned_ok i hi).1⟩⟩

/-- No call to `Do` returns before the one call to `f` has returned (the doc comment of cache.go): a caller that is
at or past the final read of `e.result` sees `done`, and `done` is only set after `f` ran. -/
theorem parCache_no_early_return {V : Type} (key : Nat → Nat) (fval : Nat → V) (s : St V) (h : Reachable key fval s)
    (i : Nat) (hi : s.pc i = .ret ∨ s.pc i = .returned) : s.runs (key i) = 1 := by
  have hI := inv_reachable key fval s h
  rcases hi with hi | hi
  · exact (hI.done_ran _ (hI.after_done i (Or.inr hi))).1
  · exact (hI.returned_ok i hi).2.2

/-- Mutual exclusion on the entry: two different callers of the same key are never both between `Lock` and `Unlock`. -/
theorem parCache_mutex {V : Type} (key : Nat → Nat) (fval : Nat → V) (s : St V) (h : Reachable key fval s)
    (i j : Nat) (hi : inCS (s.pc i)) (hj : inCS (s.pc j)) (hk : key i = key j) : i = j :=
  (inv_reachable key fval s h).cs_unique i j hi hj hk

/-! Non-vacuity: three callers, two keys (callers 0 and 1 share key 7), closures returning 10, 11, 12.
A contended schedule in which caller 1 stores the entry, caller 0 wins the lock and runs `f`, caller 1 waits for
the lock, finds `done` and returns caller 0's value; caller 2 works on its own key. -/
def exKey : Nat → Nat := fun i => if i = 2 then 9 else 7
def exVal : Nat → Nat := fun i => 10 + i
def exSched : List Nat :=
  [0, 1, 0, 1, 1, 0, 0, 1, 0, 0, 0, 2, 2, 2, 2, 2, 2, 0, 0, 0, 1, 1, 1, 1, 2, 2, 2, 2]

example : ((run exKey exVal (init Nat) exSched).map
    (fun s => (s.got 0, s.got 1, s.got 2, s.runs 7, s.runs 9, s.pc 0, s.pc 1, s.pc 2))) =
    some (some 10, some 10, some 12, 1, 1, .returned, .returned, .returned) := by rfl

/-- the mutex really blocks: with caller 0 inside the critical section, caller 1's `Lock` step is not enabled -/
example : ((run exKey exVal (init Nat) [0, 0, 0, 0, 0, 1, 1, 1]).bind (fun s => step exKey exVal s 1)).isNone = true := by decide

/-! ## The shared latest tree head under concurrency (machine: Model/ClientLatest.lean) -/

section
open ModVerif.ClientLatest
variable {M T : Type} [DecidableEq M] [DecidableEq T]

/-- ★ **The latest tree head never regresses — in memory and in the configuration** — for any number of goroutines and
clients, any interleaving of the `latestMu` sections, configuration reads and compare-and-swap writes, and any server:
along every continuation of every reachable state each client's in-memory head and the stored head move up in the
prefix order, hence never shrink.  (`Sound`: an `ok` of `checkTrees(older,newer)` implies `older ≤ newer`.) -/
theorem latest_never_regresses (P : Params M T) (le : T → T → Prop) (hS : Sound P le)
    (hsz : ∀ a b, le a b → P.size a ≤ P.size b)
    (cl : Nat → Nat) (presented : Nat → Option M) (priv : Nat → Bool) (c0 : Option M)
    (sched : List (Nat × Res)) (s s' : St M T) (h : Reachable P cl presented priv c0 s)
    (hr : run P cl presented priv s sched = some s') :
    (∀ c, le (s.latest c) (s'.latest c) ∧ P.size (s.latest c) ≤ P.size (s'.latest c)) ∧
    le (cfgTree P s.config) (cfgTree P s'.config) ∧ P.size (cfgTree P s.config) ≤ P.size (cfgTree P s'.config) := by
  obtain ⟨h1, h2⟩ := Props.C13.latest_monotone P le hS cl presented priv c0 sched s s' h hr
  exact ⟨fun c => ⟨h1 c, hsz _ _ (h1 c)⟩, h2, hsz _ _ h2⟩

/-- ★ **A path matching the private-module pattern list never triggers any external operation**: a thread whose path is
private is, in every reachable state, either not started or finished with `ErrGONOSUMDB`, has performed no external
operation, and its only step changes nothing that is shared (stored head, in-memory heads, security reports, writes). -/
theorem private_no_ops (P : Params M T) (le : T → T → Prop) (hS : Sound P le)
    (cl : Nat → Nat) (presented : Nat → Option M) (priv : Nat → Bool) (c0 : Option M)
    (s : St M T) (h : Reachable P cl presented priv c0 s) (t : Nat) (hp : priv t = true) :
    ((s.th t).pc = .entry ∨ (s.th t).pc = .done .gonosumdb) ∧ (s.th t).ops = 0 ∧
    ∀ r s', step P cl presented priv s t r = some s' →
      s'.config = s.config ∧ s'.latest = s.latest ∧ s'.latestMsg = s.latestMsg ∧ s'.sec = s.sec ∧ s'.writes = s.writes ∧
      (s'.th t).pc = .done .gonosumdb ∧ (s'.th t).ops = 0 := by
  have hI := inv_reachable P le hS cl presented priv c0 s h
  exact ⟨(hI.private_idle t hp).1, (hI.private_idle t hp).2,
    fun r s' hs => step_private P le cl presented priv s s' t r hI hp hs⟩

/-- conversely a public lookup never ends with `ErrGONOSUMDB` (the private branch is not vacuous the other way) -/
theorem public_not_skipped (P : Params M T) (le : T → T → Prop) (hS : Sound P le)
    (cl : Nat → Nat) (presented : Nat → Option M) (priv : Nat → Bool) (c0 : Option M)
    (s : St M T) (h : Reachable P cl presented priv c0 s) (t : Nat) (hp : priv t = false) :
    (s.th t).pc ≠ .done .gonosumdb :=
  (inv_reachable P le hS cl presented priv c0 s h).public_pc t hp

/-- non-vacuity: in the two-log instance thread 9 is private; it can take its step and ends with `gonosumdb`, 0 operations -/
example : ((run (forkParams 3 false) Props.C13.exCl Props.C13.exPresented Props.C13.exPriv
      (init (forkParams 3 false) none) [(9, .ok)]).map fun s => ((s.th 9).pc, (s.th 9).ops, s.config)) =
    some (.done .gonosumdb, 0, none) := by rfl

/-- non-vacuity of the contended paths: two goroutines of one client race to install A@4 and A@5 over A@3 — the loser of
the `latestMu` compare goes around again (memInstall → memCheck) — and two clients race on the configuration — the loser
of the compare-and-swap gets the write conflict and goes around again (writeConfig → readConfig). -/
example : ((run (forkParams 0 false) (fun _ => 0) (fun t => if t = 0 then some (0, 4) else some (0, 5)) (fun _ => false)
      (init (forkParams 0 false) none)
      [(0, .ok), (0, .ok), (0, .ok), (0, .ok), (1, .ok), (1, .ok), (1, .ok), (1, .ok), (0, .ok), (1, .ok)]).map
      fun s => ((s.th 0).pc, (s.th 1).pc, s.latest 0)) =
    some (.readConfig, .memCheck .first, (0, 4)) := by rfl

example : ((run (forkParams 0 false) (fun t => t) (fun t => if t = 0 then some (0, 4) else some (0, 5)) (fun _ => false)
      (init (forkParams 0 false) none)
      [(0, .ok), (0, .ok), (0, .ok), (0, .ok), (0, .ok), (0, .ok), (0, .ok), (0, .ok),
       (1, .ok), (1, .ok), (1, .ok), (1, .ok), (1, .ok), (1, .ok), (1, .ok), (1, .ok),
       (0, .ok), (1, .ok)]).map
      fun s => ((s.th 0).pc, (s.th 1).pc, s.config)) =
    some (.done .ok, .readConfig, some (0, 4)) := by rfl


/-! ## Honest server: every lookup succeeds and the head ends at the largest tree seen

`Honest P le Ch presented c0` (Proofs/ClientMoreHonest.lean): `Ch` is the server's one log; the empty tree, the initial
configuration and every presented message lie on it; on it the prefix order is the order of sizes; `checkTrees` answers
`ok` and nothing else on chain heads in size order.  `HReachable`: any interleaving, any number of clients and goroutines,
no configuration operation fails with a non-conflict error.  `Quiescent s`: every goroutine has returned or never started. -/

/-- ★ **With an honest server no goroutine ends in an error state, whatever the interleaving** — the `latestMu` retry
loop, the `ErrWriteConflict` retry loop and the msgPast / msgNow / msgFuture cases included: in every state of every
honest run no goroutine has returned an error or the security error, `SecurityError` was never called, and a goroutine
that has returned has returned success, or `ErrGONOSUMDB` exactly when its path is private. -/
theorem honest_all_succeed (P : Params M T) (le : T → T → Prop) (Ch : T → Prop) (cl : Nat → Nat)
    (presented : Nat → Option M) (priv : Nat → Bool) (c0 : Option M) (hH : Honest P le Ch presented c0)
    (s : St M T) (h : HReachable P cl presented priv c0 s) :
    (∀ t, (s.th t).pc ≠ .done .err ∧ (s.th t).pc ≠ .done .security) ∧ s.sec = [] ∧
    (∀ t x, (s.th t).pc = .done x → (priv t = false → x = .ok) ∧ (priv t = true → x = .gonosumdb)) :=
  honest_all_succeed_inv P le Ch cl presented priv c0 hH s h

/-- ★ **The shared latest tree head ends at the largest tree seen.**  In every TERMINAL state of every honest run:
 * every goroutine that ran returned success (`ErrGONOSUMDB` for private paths);
 * each client's in-memory head is a greatest element (`IsMax`: a member that every member is a prefix of) of what that
   client saw (`ClientSaw`): the empty tree (its initial head), the trees presented to its goroutines, and the
   configuration contents its goroutines read while flushing;
 * the stored head is a greatest element of everything the system saw (`Seen`): the empty tree, the initial
   configuration, every tree presented to any goroutine of any client;
 * the stored head is above every client's in-memory head, and it is the initial content or equivalent to the in-memory
   head of one of the clients (the one that flushed last).
No liveness is claimed for arbitrary schedules (the retry loops end only under fairness); that terminal states exist
from everywhere is `can_finish`. -/
theorem latest_ends_at_max (P : Params M T) (le : T → T → Prop) (Ch : T → Prop) (cl : Nat → Nat)
    (presented : Nat → Option M) (priv : Nat → Bool) (c0 : Option M) (hH : Honest P le Ch presented c0)
    (s : St M T) (h : HReachable P cl presented priv c0 s) (hq : Quiescent s) :
    (∀ t, (s.th t).pc = .entry ∨ (s.th t).pc = .done .ok ∨ (priv t = true ∧ (s.th t).pc = .done .gonosumdb)) ∧
    (∀ c, IsMax le (ClientSaw P cl presented priv s c) (s.latest c)) ∧
    IsMax le (Seen P presented priv c0 s) (cfgTree P s.config) ∧
    (∀ c, le (s.latest c) (cfgTree P s.config)) ∧
    (s.config = c0 ∨ ∃ c, le (cfgTree P s.config) (s.latest c) ∧ le (s.latest c) (cfgTree P s.config)) :=
  latest_ends_at_max_inv P le Ch cl presented priv c0 hH s h hq

/-- **A goroutine scheduled alone returns within 10 steps** from any state of an honest run (every answer `ok`),
without touching the local state of any other goroutine. -/
theorem solo_finishes (P : Params M T) (le : T → T → Prop) (Ch : T → Prop) (cl : Nat → Nat)
    (presented : Nat → Option M) (priv : Nat → Bool) (c0 : Option M) (hH : Honest P le Ch presented c0)
    (s : St M T) (h : HReachable P cl presented priv c0 s) (t : Nat) :
    ∃ k s', k ≤ 10 ∧ run P cl presented priv s (List.replicate k (t, Res.ok)) = some s' ∧
      HReachable P cl presented priv c0 s' ∧ (∃ x, (s'.th t).pc = .done x) ∧ ∀ t', t' ≠ t → s'.th t' = s.th t' :=
  solo_finish P le Ch cl presented priv c0 hH t 10 s h (rank_le cl s t)

/-- **From every state of an honest run a terminal state is reachable** (so `latest_ends_at_max` is not vacuous
anywhere): finish the goroutines that are under way one after the other. -/
theorem can_finish (P : Params M T) (le : T → T → Prop) (Ch : T → Prop) (cl : Nat → Nat)
    (presented : Nat → Option M) (priv : Nat → Bool) (c0 : Option M) (hH : Honest P le Ch presented c0)
    (s : St M T) (h : HReachable P cl presented priv c0 s) :
    ∃ sched s', (∀ x ∈ sched, x.2 = Res.ok) ∧ run P cl presented priv s sched = some s' ∧
      HReachable P cl presented priv c0 s' ∧ Quiescent s' :=
  ClientLatest.can_finish P le Ch cl presented priv c0 hH s h

/-- **Concurrent = sequential, for the heads and the outcomes**: two terminal states of honest runs in which the same
goroutines ran — e.g. an arbitrary interleaving and the sequential run of the same lookups — have every goroutine in
the same final state (same outcome) and equivalent stored heads. -/
theorem concurrent_heads_eq_sequential (P : Params M T) (le : T → T → Prop) (Ch : T → Prop) (cl : Nat → Nat)
    (presented : Nat → Option M) (priv : Nat → Bool) (c0 : Option M) (hH : Honest P le Ch presented c0)
    (s1 s2 : St M T) (h1 : HReachable P cl presented priv c0 s1) (h2 : HReachable P cl presented priv c0 s2)
    (q1 : Quiescent s1) (q2 : Quiescent s2)
    (hsame : ∀ t, (s1.th t).pc = .entry ↔ (s2.th t).pc = .entry) :
    (∀ t, (s1.th t).pc = (s2.th t).pc) ∧
    le (cfgTree P s1.config) (cfgTree P s2.config) ∧ le (cfgTree P s2.config) (cfgTree P s1.config) :=
  terminal_states_agree P le Ch cl presented priv c0 hH s1 s2 h1 h2 q1 q2 hsame

/-! Non-vacuity.  The server that signs only heads of log A is `Honest` (`forkParams_honest`, for every fork point, every
assignment of presented sizes and every initial configuration).  Concrete run: clients 0 and 1 share the
configuration (initially A@2); goroutines 0 and 1 (client 0) are shown A@4 and A@5, goroutine 2 (client 1) is shown A@3,
goroutine 3 is private.  Interleaved schedule with a lost `latestMu` race and write conflicts; every goroutine returns
success and the stored head ends at A@5. -/

def hSizes : Nat → Option Nat := fun t => if t = 0 then some 4 else if t = 1 then some 5 else if t = 2 then some 3 else none
def hCl : Nat → Nat := fun t => if t = 2 then 1 else 0
def hPriv : Nat → Bool := fun t => t = 3
def hPresented : Nat → Option Head := fun t => (hSizes t).map fun n => (0, n)

theorem hHonest : Honest (forkParams 3 false) (fun a b => forkLe 3 a b = true) (fun x => x.1 = 0) hPresented
    ((some 2).map fun n => (0, n)) :=
  forkParams_honest 3 hSizes (some 2)

/-- goroutines 0, 1, 2, 3 interleaved step by step (round robin until each has returned) -/
def hSched : List (Nat × Res) :=
  [0, 1, 2, 3, 0, 1, 2, 0, 1, 2, 0, 1, 2, 0, 1, 2, 0, 1, 2, 0, 1, 2, 0, 1, 2, 0, 1, 2, 0, 1, 2, 1, 2, 1, 2, 1, 2, 1, 2, 1].map
    fun t => (t, Res.ok)

/-- the same lookups one after the other -/
def hSeq : List (Nat × Res) :=
  [0, 0, 0, 0, 0, 0, 0, 0, 0, 0, 1, 1, 1, 1, 1, 1, 1, 1, 1, 1, 2, 2, 2, 2, 2, 2, 2, 2, 2, 3].map fun t => (t, Res.ok)

/-- what the non-vacuity examples need of a complete schedule of goroutines 0–3 -/
theorem hTerminal (sched : List (Nat × Res)) (hok : ∀ x ∈ sched, x.2 = Res.ok)
    (hth : ∀ x ∈ sched, x.1 = 0 ∨ x.1 = 1 ∨ x.1 = 2 ∨ x.1 = 3) (s : St Head Head)
    (hr : run (forkParams 3 false) hCl hPresented hPriv (init (forkParams 3 false) (some (0, 2))) sched = some s)
    (hd : ∃ x0 x1 x2 x3, (s.th 0).pc = .done x0 ∧ (s.th 1).pc = .done x1 ∧ (s.th 2).pc = .done x2 ∧ (s.th 3).pc = .done x3) :
    HReachable (forkParams 3 false) hCl hPresented hPriv (some (0, 2)) s ∧ Quiescent s ∧
    ∀ t, (s.th t).pc = .entry ↔ (t ≠ 0 ∧ t ≠ 1 ∧ t ≠ 2 ∧ t ≠ 3) := by
  obtain ⟨x0, x1, x2, x3, h0, h1, h2, h3⟩ := hd
  refine ⟨hreachable_run_ok _ _ _ _ _ sched _ s hok HReachable.init hr, ?_, fun t => ⟨fun he => ?_, fun hne => ?_⟩⟩
  · apply quiescent_of_run _ _ _ _ _ sched s hr
    intro x hx
    rcases hth x hx with e | e | e | e <;> rw [e]
    · exact ⟨_, h0⟩
    · exact ⟨_, h1⟩
    · exact ⟨_, h2⟩
    · exact ⟨_, h3⟩
  · refine ⟨?_, ?_, ?_, ?_⟩ <;> intro e <;> subst e <;> simp_all
  · apply entry_of_run _ _ _ _ _ sched s hr
    intro x hx e
    rcases hth x hx with e' | e' | e' | e' <;> omega

/-- a terminal state of an honest run exists in which goroutines of two clients raced: every goroutine returned
success (goroutine 3: `ErrGONOSUMDB`), and the stored head and both in-memory heads are A@5, the largest tree presented -/
theorem hSched_terminal : ∃ s, run (forkParams 3 false) hCl hPresented hPriv (init (forkParams 3 false) (some (0, 2))) hSched = some s ∧
    HReachable (forkParams 3 false) hCl hPresented hPriv (some (0, 2)) s ∧ Quiescent s ∧
    (∀ t, (s.th t).pc = .entry ↔ (t ≠ 0 ∧ t ≠ 1 ∧ t ≠ 2 ∧ t ≠ 3)) ∧
    s.config = some (0, 5) ∧ s.latest 0 = (0, 5) ∧ s.latest 1 = (0, 5) ∧ (s.th 3).pc = .done .gonosumdb := by
  obtain ⟨s, hs⟩ : ∃ s, run (forkParams 3 false) hCl hPresented hPriv (init (forkParams 3 false) (some (0, 2))) hSched = some s :=
    Option.isSome_iff_exists.mp (by decide)
  have key : ((run (forkParams 3 false) hCl hPresented hPriv (init (forkParams 3 false) (some (0, 2))) hSched).map fun s =>
      ((s.th 0).pc, (s.th 1).pc, (s.th 2).pc, (s.th 3).pc, s.config, s.latest 0, s.latest 1)) =
      some (.done .ok, .done .ok, .done .ok, .done .gonosumdb, some (0, 5), (0, 5), (0, 5)) := by rfl
  rw [hs] at key
  simp only [Option.map_some, Option.some.injEq, Prod.mk.injEq] at key
  obtain ⟨k0, k1, k2, k3, k4, k5, k6⟩ := key
  obtain ⟨a, b, c⟩ := hTerminal hSched (by decide) (by decide) s hs ⟨_, _, _, _, k0, k1, k2, k3⟩
  exact ⟨s, hs, a, b, c, k4, k5, k6, k3⟩

/-- … and the sequential run of the same lookups ends in a terminal state with the same outcomes and the same heads
(an instance of `concurrent_heads_eq_sequential`, here by evaluation) -/
theorem hSeq_terminal : ∃ s, run (forkParams 3 false) hCl hPresented hPriv (init (forkParams 3 false) (some (0, 2))) hSeq = some s ∧
    HReachable (forkParams 3 false) hCl hPresented hPriv (some (0, 2)) s ∧ Quiescent s ∧
    (∀ t, (s.th t).pc = .entry ↔ (t ≠ 0 ∧ t ≠ 1 ∧ t ≠ 2 ∧ t ≠ 3)) ∧
    s.config = some (0, 5) ∧ s.latest 0 = (0, 5) ∧ s.latest 1 = (0, 5) ∧ (s.th 3).pc = .done .gonosumdb := by
  obtain ⟨s, hs⟩ : ∃ s, run (forkParams 3 false) hCl hPresented hPriv (init (forkParams 3 false) (some (0, 2))) hSeq = some s :=
    Option.isSome_iff_exists.mp (by decide)
  have key : ((run (forkParams 3 false) hCl hPresented hPriv (init (forkParams 3 false) (some (0, 2))) hSeq).map fun s =>
      ((s.th 0).pc, (s.th 1).pc, (s.th 2).pc, (s.th 3).pc, s.config, s.latest 0, s.latest 1)) =
      some (.done .ok, .done .ok, .done .ok, .done .gonosumdb, some (0, 5), (0, 5), (0, 5)) := by rfl
  rw [hs] at key
  simp only [Option.map_some, Option.some.injEq, Prod.mk.injEq] at key
  obtain ⟨k0, k1, k2, k3, k4, k5, k6⟩ := key
  obtain ⟨a, b, c⟩ := hTerminal hSeq (by decide) (by decide) s hs ⟨_, _, _, _, k0, k1, k2, k3⟩
  exact ⟨s, hs, a, b, c, k4, k5, k6, k3⟩

/-- the hypotheses of `concurrent_heads_eq_sequential` are satisfied by the two runs above -/
example : ∃ s1 s2, HReachable (forkParams 3 false) hCl hPresented hPriv (some (0, 2)) s1 ∧
    HReachable (forkParams 3 false) hCl hPresented hPriv (some (0, 2)) s2 ∧ Quiescent s1 ∧ Quiescent s2 ∧
    (∀ t, (s1.th t).pc = .entry ↔ (s2.th t).pc = .entry) ∧ s1.config = some (0, 5) := by
  obtain ⟨s1, _, a1, b1, c1, d1, _⟩ := hSched_terminal
  obtain ⟨s2, _, a2, b2, c2, _⟩ := hSeq_terminal
  exact ⟨s1, s2, a1, a2, b1, b2, fun t => (c1 t).trans (c2 t).symm, d1⟩

end

/-! ## Each distinct lookup is fetched at most once per client (record cache and tile cache) -/

section
open ModVerif.ClientFetch

/-- ★ **Each distinct lookup is fetched from cache or network at most once per client, and all callers get that
fetch's result.**  `Client.Lookup(path, vers)` calls `c.record.Do(file, f)` with `file = lookupFile name path vers`
(`c.name + "/lookup/" + EscapePath(path) + "@" + EscapeVersion(TrimSuffix(vers, "/go.mod"))`; `none` = the request is
rejected before `Do`), and `f` is the only place where `ReadCache(file)` / `ReadRemote` happen.  For the `parCache`
machine with these keys, any number of callers of one client, every interleaving:
 * `f` has run at most once for every key, i.e. at most once per distinct cache file;
 * a caller that has returned got the result of the one run for its file;
 * two callers whose requests have the same cache file got the same result.
Which requests have the same file: `fetch_key_eq_iff` (same path byte for byte, same version up to the `/go.mod`
suffix), `fetch_key_gomod`. -/
theorem fetch_once {V : Type} (isLetter : Nat → Bool) (name : Bytes) (path vers : Nat → Bytes) (fval : Nat → V)
    (s : St V) (h : Reachable (fun i => lookupKey isLetter name (path i) (vers i)) fval s) :
    (∀ k, s.runs k ≤ 1) ∧
    (∀ i, s.pc i = .returned →
      s.runs (lookupKey isLetter name (path i) (vers i)) = 1 ∧
      (s.ran (lookupKey isLetter name (path i) (vers i))).isSome = true ∧
      s.got i = s.ran (lookupKey isLetter name (path i) (vers i))) ∧
    (∀ i j, s.pc i = .returned → s.pc j = .returned →
      lookupFile isLetter name (path i) (vers i) = lookupFile isLetter name (path j) (vers j) → s.got i = s.got j) :=
  fetch_once_inv isLetter name path vers fval s h

/-- **`lookupFile` IS the key `Lookup` uses**: the sequential client model's `Client.lookup` (Model/Client.lean) rejects
the request with the escape error iff `lookupFile` is `none`; otherwise it consults the record cache under
`lookupFile`, and on a miss runs `lookupWork` — the only function that reads the lookup file from cache or network —
with that file, storing its result (error or data) under that key. -/
theorem lookup_uses_fetch_key {σ H : Type} [DecidableEq H] (P : Client.Params H) (E : Client.Env σ)
    (w : Client.World σ H) (path vers : Bytes) :
    Client.lookup P E w path vers =
      if Module.matchPrefixPatterns P.glob P.nosumdb path then ((.error .gonosumdb, w) : Except Client.Err (List Bytes) × Client.World σ H) else
      let w := Client.init P E w
      match w.c.inited with
      | some (some e) => (.error e, w)
      | _ =>
        match lookupFile P.isLetter w.c.name path vers with
        | none => (.error .escape, w)
        | some file =>
          let res : Except Client.Err Bytes × Client.World σ H :=
            match w.c.record.lookup file with
            | some r => (r, w)
            | none =>
              let r := Client.lookupWork P E w file (file.drop w.c.name.length)
              (r.1, { r.2 with c := { r.2.c with record := (file, r.1) :: r.2.c.record } })
          match res.1 with
          | .error e => (.error e, res.2)
          | .ok data => (.ok (Client.filterLines (path ++ [32] ++ vers ++ [32]) data), res.2) :=
  lookup_eq_via_lookupFile P E w path vers

/-- **Which requests share one fetch**: two accepted requests have the same cache file — equivalently the same
`parCache` key — iff they name the same module path, byte for byte (`Foo` and `foo` are different modules, escaped `!foo`
and `foo`: the upper-case path has its own key), and the same version once a `/go.mod` suffix is stripped. -/
theorem fetch_key_eq_iff (isLetter : Nat → Bool) (name p v q w f g : Bytes)
    (hf : lookupFile isLetter name p v = some f) (hg : lookupFile isLetter name q w = some g) :
    (lookupKey isLetter name p v = lookupKey isLetter name q w ↔ f = g) ∧
    (f = g ↔ p = q ∧ trimGoMod v = trimGoMod w) :=
  ⟨lookupKey_eq_iff isLetter name p v q w f g hf hg, lookupFile_eq_iff isLetter name p v q w f g hf hg⟩

/-- **`v` and `v/go.mod` share one key** (one fetch serves the module hash and the go.mod hash), for every path and
every `v` that does not itself end in `/go.mod`. -/
theorem fetch_key_gomod (isLetter : Nat → Bool) (name path v : Bytes) (h : hasSuffixB v (B "/go.mod") = false) :
    lookupFile isLetter name path (v ++ B "/go.mod") = lookupFile isLetter name path v ∧
    lookupKey isLetter name path (v ++ B "/go.mod") = lookupKey isLetter name path v := by
  have e := lookupFile_gomod isLetter name path v h
  exact ⟨e, by simp only [lookupKey, e]⟩

/-- **The tile cache** (`c.tileCache.Do(tile, …)`, keyed by the `tlog.Tile` value; `tileKey` numbers tiles
injectively): each tile is read from cache or network at most once per client, and callers asking for the same tile get
the same bytes. -/
theorem tile_fetch_once {V : Type} (tile : Nat → Tile.Tile) (fval : Nat → V) (s : St V)
    (h : Reachable (fun i => tileKey (tile i)) fval s) :
    (∀ t, s.runs (tileKey t) ≤ 1) ∧
    (∀ i, s.pc i = .returned → s.runs (tileKey (tile i)) = 1 ∧ s.got i = s.ran (tileKey (tile i)) ∧ (s.got i).isSome = true) ∧
    (∀ i j, s.pc i = .returned → s.pc j = .returned → (tile i = tile j ↔ tileKey (tile i) = tileKey (tile j)) ∧
      (tile i = tile j → s.got i = s.got j)) :=
  once_per_key tileKey tileKey_inj tile fval s h

/-- ★ **Concurrent = sequential, for the results**: with an honest server the result of the fetch depends only on the
key (`fval i = F (key i)`: the server's record for that module and version); then every caller that has returned holds
`F` of its key, in every interleaving — so any two interleavings, in particular a concurrent one and the sequential
one, return the same result to every caller that returned in both (equal maps caller ↦ result, hence equal multisets
of (key, result) pairs).  The outcome and head side is `concurrent_heads_eq_sequential`. -/
theorem concurrent_results_eq_sequential {V : Type} (key : Nat → Nat) (F : Nat → V) (fval : Nat → V)
    (hF : ∀ i, fval i = F (key i)) (s1 s2 : St V) (h1 : Reachable key fval s1) (h2 : Reachable key fval s2) :
    (∀ i, s1.pc i = .returned → s1.got i = some (F (key i))) ∧
    (∀ i, s1.pc i = .returned → s2.pc i = .returned → s1.got i = s2.got i) :=
  ⟨fun i hi => results_deterministic key F fval hF s1 h1 i hi,
   fun i hi1 hi2 => results_eq_any_two key F fval hF s1 s2 h1 h2 i hi1 hi2⟩

/-! Non-vacuity: the keys of real requests.  The upper-case path is escaped; the `/go.mod` spelling shares the file. -/

example : lookupFile (fun _ => false) (B "sum.golang.org") (B "github.com/Foo/bar") (B "v1.2.3/go.mod") =
    some (B "sum.golang.org/lookup/github.com/!foo/bar@v1.2.3") := by decide +kernel

example : lookupFile (fun _ => false) (B "sum.golang.org") (B "github.com/Foo/bar") (B "v1.2.3") =
    some (B "sum.golang.org/lookup/github.com/!foo/bar@v1.2.3") := by decide +kernel

example : lookupFile (fun _ => false) (B "sum.golang.org") (B "github.com/foo/bar") (B "v1.2.3") =
    some (B "sum.golang.org/lookup/github.com/foo/bar@v1.2.3") := by decide +kernel

example : hasSuffixB (B "v1.2.3") (B "/go.mod") = false := by decide +kernel

/-- the contended schedule of `exSched`, now with the client's keys: callers 0 and 1 ask for `v1.2.3` and
`v1.2.3/go.mod` of one module (one key, one fetch, both get caller 0's result), caller 2 for the lower-case path. -/
def fxPath : Nat → Bytes := fun i => if i = 2 then B "github.com/foo/bar" else B "github.com/Foo/bar"
def fxVers : Nat → Bytes := fun i => if i = 1 then B "v1.2.3/go.mod" else B "v1.2.3"

example : ((run (fun i => lookupKey (fun _ => false) (B "s") (fxPath i) (fxVers i)) exVal (init Nat) exSched).map
    (fun s => (s.got 0, s.got 1, s.got 2, s.pc 0, s.pc 1, s.pc 2))) =
    some (some 10, some 10, some 12, .returned, .returned, .returned) := by decide +kernel

/-- honest fetch results (`fval i = F (key i)`) -/
example : ∀ i, (fun i => 100 + exKey i) i = (fun k => 100 + k) (exKey i) := fun _ => rfl

end


/-! ## Refinement between the sequential client model (Model/Client.lean) and the two concurrent machines

(1) `head_refines_sequential`: ONE goroutine of ONE client of the latest-head machine IS the sequential `mergeLatest`,
    step for step (the lock-step product `ClientRefine.corun`; the table of transitions and the sequential code each one
    abstracts is at the top of Proofs/ClientRefineHead.lean).
(2) `interleaved_eq_sequential_order`: every interleaved honest run ends like the sequential execution of the same
    lookups in any order; `honest_world_is_honest_machine`: C01's honest world discharges the machine-level honest-server
    hypothesis (and `Sound`) for the machine over the client's own `checkTrees`; `concurrent_lookups_return_server_lines`:
    the composed system (record-cache machine whose work function contains the goroutine's `mergeLatest`) returns to
    every concurrent lookup an honest response of the server, the description `honest_never_fails` gives for the
    sequential client (`concurrent_and_sequential_same_record`).
(3) `cache_do_refines_sequential`, `readTile_is_sequential_do`, `record_cache_is_sequential_do`: the association-list
    caches of the sequential client are the `parCache` machine run by one call at a time.
What is NOT covered is listed in lean/PENDING.md, section "C14 refinement". -/

section refinement
open ModVerif.Client ModVerif.ClientRefine
variable {σ H : Type} [DecidableEq H]

/-- ★ **(1) The sequential `mergeLatest` and one goroutine of the latest-head machine refine each other.**
`MP` abstracts the client's verification layer (`Abs`: `parse` = `note.Open`+`ParseTree`, size = `Tree.N`, every answer of
the sequential `checkTrees` — abstracted by `absChk`: nil ↦ ok, the security error after the `SecurityError` callback ↦
fork, any other error ↦ error — is admissible; instance: C13's `clientParams`, `clientParams_abstracts_client`); the
configuration file `<name>/latest` of the environment is ONE compare-and-swap cell that nobody else writes (`CfgCell`:
the restriction to one client; instance: C01's honest environment, `ClientRefine.honestEnv_cfgCell`); the fuel of the
model's `ErrWriteConflict` loop is at least 1; goroutine `t` is public, is presented `msg0`, has not started; the
machine state agrees with the sequential world `w` on client `cl t` (`RelG`: name, verifier list, in-memory head and
its message, configuration content; no cached tile error is the security error).  Then
 (a) **the sequential result is reached by a run of the machine**: within 10 steps of goroutine `t` alone, answering
     every choice point (`checkTrees` outcome, `ReadConfig` / `WriteConfig` failure) as the sequential environment does,
     `t` has returned with the abstraction (`absRes`) of `mergeLatest`'s result, next to the world after `mergeLatest`;
 (b) **every run of the single goroutine corresponds step for step to the sequential function**: after ANY number of
     steps of the lock-step product (every run of `t` alone whose choices are the environment's answers is one —
     `corun` only rejects a choice that differs from `answer`) the machine run is a run of the machine
     (`ClientLatest.run`), the states still agree — same in-memory head and message, same configuration content —, the
     successful configuration writes of the machine are exactly the `WriteConfig … = nil` effects of the sequential trace
     and its `SecurityError` records are exactly the `SecurityError` effects, each text starting with the two notes of
     the record, older first (`Obs`); and when `t` has returned, the world and the result are those of `mergeLatest`. -/
theorem head_refines_sequential (P : Params H) (E : Env σ) (MP : MParams H) (cl : Nat → Nat)
    (presented : Nat → Option Bytes) (priv : Nat → Bool) (name : Bytes) (cfg : σ → Bytes) (vs : List Note.Verifier)
    (t : Nat) (msg0 : Bytes) (hA : Abs P E vs MP) (hE : CfgCell E name cfg) (hret : 1 ≤ P.retries)
    (hpres : presented t = optB msg0) (hpriv : priv t = false) (w : World σ H) (s : MSt H)
    (hR : RelG cl name cfg vs t w s) (hpc : (s.th t).pc = .entry) :
    (∃ rs s', rs.length ≤ 10 ∧
      corun P E MP cl presented priv t w s rs = some ((mergeLatest P E w msg0).2, s') ∧
      (s'.th t).pc = .done (absRes (mergeLatest P E w msg0).1)) ∧
    (∀ rs w' s', corun P E MP cl presented priv t w s rs = some (w', s') →
      ClientLatest.run MP cl presented priv s (rs.map fun r => (t, r)) = some s' ∧
      RelG cl name cfg vs t w' s' ∧ Obs P t w.tr s.writes s.sec w' s' ∧
      ∀ x, (s'.th t).pc = .done x → w' = (mergeLatest P E w msg0).2 ∧ x = absRes (mergeLatest P E w msg0).1) :=
  head_refinement hA hE hret hpres hpriv w s hR hpc

/-- **The C13 machine abstracts the sequential client, for every environment**: `Props.C13.clientParams P E vs` satisfies
`Abs` — so (1) holds for the machine on which C13's theorems are stated (`Sound` for it: `Props.C13.client_sound`). -/
theorem clientParams_abstracts_client (P : Params H) (E : Env σ) (vs : List Note.Verifier) :
    Abs P E vs (Props.C13.clientParams P E vs) :=
  clientParams_abs P E vs

omit [DecidableEq H] in
/-- what (b) says about the observable effects, spelled out: the sequential trace grew by `ext`, the machine's new
configuration writes (newest first) are the successful `WriteConfig` effects of `ext`, its new security records are
related one to one to the `SecurityError` effects of `ext` -/
theorem obs_spelled_out (P : Params H) (t : Nat) (tr0 : List Effect) (bw : List (Option Bytes × Option Bytes))
    (bs : List (Nat × Option Bytes × Option Bytes)) (w : World σ H) (s : MSt H) (h : Obs P t tr0 bw bs w s) :
    ∃ ext, w.tr = tr0 ++ ext ∧ s.writes = (trWrites ext).reverse ++ bw ∧
      ∃ ns, s.sec = ns ++ bs ∧ SecRel P t ns (trSecs ext) := h

/-! Non-vacuity of (1): C01's concrete honest world (`Props.C01.HonestExample`: one record, toy hashes, a key file that
`NewVerifier` accepts, a signed head that `note.Open` accepts), the C13 machine over it, goroutine 0 presented the signed
head of size 1, the initial states. -/
example :
    Abs Props.C01.HonestExample.hP (honestEnv Props.C01.HonestExample.hS) [Props.C01.HonestExample.hS.v]
      (Props.C13.clientParams Props.C01.HonestExample.hP (honestEnv Props.C01.HonestExample.hS)
        [Props.C01.HonestExample.hS.v]) ∧
    CfgCell (honestEnv Props.C01.HonestExample.hS) Props.C01.HonestExample.hS.v.name (fun s => s.latest) ∧
    1 ≤ Props.C01.HonestExample.hP.retries ∧
    (fun _ : Nat => optB Props.C01.HonestExample.hHead) 0 = optB Props.C01.HonestExample.hHead ∧
    RelG (fun _ => 0) Props.C01.HonestExample.hS.v.name (fun s : HState => s.latest) [Props.C01.HonestExample.hS.v] 0
      (⟨⟨[], []⟩, { newClient Props.C01.HonestExample.hP with
          name := Props.C01.HonestExample.hS.v.name, verifiers := [Props.C01.HonestExample.hS.v] }, []⟩ :
        World HState UInt8)
      (ClientLatest.init (Props.C13.clientParams Props.C01.HonestExample.hP (honestEnv Props.C01.HonestExample.hS)
        [Props.C01.HonestExample.hS.v]) (optB [])) ∧
    ((ClientLatest.init (Props.C13.clientParams Props.C01.HonestExample.hP (honestEnv Props.C01.HonestExample.hS)
        [Props.C01.HonestExample.hS.v]) (optB [])).th 0).pc = .entry :=
  ⟨clientParams_abs _ _ _, honestEnv_cfgCell _, by decide, rfl,
    relG_init _ _ _ rfl _ _ (fun s : HState => s.latest) 0 ⟨[], []⟩ [], rfl⟩

end refinement

section interleaving
open ModVerif.ClientLatest
variable {M T : Type} [DecidableEq M] [DecidableEq T]

/-- ★ **(2) Interleaving theorem.**  Honest server (all presented heads and the initial configuration are heads of one
log, `checkTrees` answers truthfully).  Let `s` be a terminal state of ANY interleaved run of ANY number of goroutines
and clients, and `l` ANY order (enumeration without repetition) of the goroutines that ran.  Then the SEQUENTIAL
execution of the same lookups in the order `l` (`SeqExec`: from the same initial state each goroutine starts when its
predecessor has returned and runs alone, returning within 10 steps) exists, is an honest run and ends in a terminal
state `s2` such that: every goroutine has the same outcome in `s2` as in `s`; the stored configurations are equivalent
(each tree a prefix of the other: the same head of the log); and in both states every client's in-memory head is a
greatest element of what that client saw and a prefix of the stored head.  (In-memory heads of different clients need
not agree between the two runs: which configuration contents a client's flushes read depends on the schedule.) -/
theorem interleaved_eq_sequential_order (P : Params M T) (le : T → T → Prop) (Ch : T → Prop) (cl : Nat → Nat)
    (presented : Nat → Option M) (priv : Nat → Bool) (c0 : Option M) (hH : Honest P le Ch presented c0)
    (s : St M T) (h : HReachable P cl presented priv c0 s) (hq : Quiescent s)
    (l : List Nat) (hnd : l.Nodup) (hl : ∀ t, t ∈ l ↔ (s.th t).pc ≠ .entry) :
    ∃ bs s2, bs.map (·.1) = l ∧ (∀ b ∈ bs, b.2 ≤ 10) ∧ SeqExec P cl presented priv (init P c0) bs s2 ∧
      run P cl presented priv (init P c0) (blockSched bs) = some s2 ∧
      HReachable P cl presented priv c0 s2 ∧ Quiescent s2 ∧
      (∀ t, (s2.th t).pc = (s.th t).pc) ∧
      le (cfgTree P s.config) (cfgTree P s2.config) ∧ le (cfgTree P s2.config) (cfgTree P s.config) ∧
      (∀ c, IsMax le (ClientSaw P cl presented priv s c) (s.latest c) ∧ le (s.latest c) (cfgTree P s.config)) ∧
      (∀ c, IsMax le (ClientSaw P cl presented priv s2 c) (s2.latest c) ∧ le (s2.latest c) (cfgTree P s2.config)) :=
  ClientLatest.interleaved_eq_sequential_order P le Ch cl presented priv c0 hH s h hq l hnd hl

/-- … and such an order always exists: the goroutines that ran in a reachable state are finitely many. -/
theorem interleaved_eq_some_sequential_order (P : Params M T) (le : T → T → Prop) (Ch : T → Prop) (cl : Nat → Nat)
    (presented : Nat → Option M) (priv : Nat → Bool) (c0 : Option M) (hH : Honest P le Ch presented c0)
    (s : St M T) (h : HReachable P cl presented priv c0 s) (hq : Quiescent s) :
    ∃ bs s2, SeqExec P cl presented priv (init P c0) bs s2 ∧ HReachable P cl presented priv c0 s2 ∧ Quiescent s2 ∧
      (∀ t, (s2.th t).pc = (s.th t).pc) ∧
      le (cfgTree P s.config) (cfgTree P s2.config) ∧ le (cfgTree P s2.config) (cfgTree P s.config) := by
  obtain ⟨l, hnd, hl⟩ := ran_enumeration P cl presented priv c0 s h.reachable
  obtain ⟨bs, s2, _, _, h1, _, h2, h3, h4, h5, h6, _⟩ :=
    ClientLatest.interleaved_eq_sequential_order P le Ch cl presented priv c0 hH s h hq l hnd hl
  exact ⟨bs, s2, h1, h2, h3, h4, h5, h6⟩

/-- non-vacuity: the interleaved run `hSched` above (goroutines 0–3, two clients, a lost `latestMu` race, write
conflicts) satisfies the hypotheses with the order `[0, 1, 2, 3]` -/
example : ∃ s, HReachable (forkParams 3 false) hCl hPresented hPriv (some (0, 2)) s ∧ Quiescent s ∧
    [0, 1, 2, 3].Nodup ∧ ∀ t, t ∈ [0, 1, 2, 3] ↔ (s.th t).pc ≠ .entry := by
  obtain ⟨s, _, a, b, c, _⟩ := hSched_terminal
  refine ⟨s, a, b, by decide, fun t => ?_⟩
  have := c t
  constructor
  · intro ht e
    have h4 := this.mp e
    simp only [List.mem_cons, List.not_mem_nil, or_false] at ht
    omega
  · intro hne
    simp only [List.mem_cons, List.not_mem_nil, or_false]
    by_cases h0 : t = 0; · exact Or.inl h0
    by_cases h1 : t = 1; · exact Or.inr (Or.inl h1)
    by_cases h2 : t = 2; · exact Or.inr (Or.inr (Or.inl h2))
    by_cases h3 : t = 3; · exact Or.inr (Or.inr (Or.inr h3))
    exact absurd (this.mpr ⟨h0, h1, h2, h3⟩) hne

/-- ★ **(2, one client) The in-memory head at the end does not depend on the interleaving either.**  Honest server; all
goroutines belong to ONE client `c` (the setting of C14: concurrent lookups on the same client); `hsz`: a prefix is not
larger; `hz`: the empty tree has size 0.  Two terminal states in which the same goroutines ran — e.g. an arbitrary
interleaving and any sequential order of the same lookups — hold equivalent in-memory heads (each a prefix of the other).
(With several clients sharing the configuration the in-memory heads do depend on the schedule — which configuration
contents a client's flush reads —; what is schedule independent then is the stored head, `concurrent_heads_eq_sequential`.) -/
theorem one_client_memory_head_schedule_independent (P : Params M T) (le : T → T → Prop) (Ch : T → Prop) (cl : Nat → Nat)
    (presented : Nat → Option M) (priv : Nat → Bool) (c0 : Option M) (hH : Honest P le Ch presented c0)
    (hsz : ∀ a b, le a b → P.size a ≤ P.size b) (hz : P.size P.zero = 0)
    (s1 s2 : St M T) (h1 : HReachable P cl presented priv c0 s1) (h2 : HReachable P cl presented priv c0 s2)
    (q1 : Quiescent s1) (q2 : Quiescent s2)
    (hsame : ∀ t, (s1.th t).pc = .entry ↔ (s2.th t).pc = .entry) (c : Nat) (hone : ∀ t, cl t = c) :
    le (s1.latest c) (s2.latest c) ∧ le (s2.latest c) (s1.latest c) :=
  ⟨single_client_mem_le P le Ch cl presented priv c0 hH hsz hz s1 s2 h1 h2 q1 q2 hsame c hone,
   single_client_mem_le P le Ch cl presented priv c0 hH hsz hz s2 s1 h2 h1 q2 q1 (fun t => (hsame t).symm) c hone⟩

/-- ★ **(2, one client) Interleaving theorem with the in-memory head**: for one client, the terminal state of ANY
interleaved honest run and the sequential execution of the same lookups in ANY order `l` agree on every goroutine's
outcome, on the stored configuration and on the client's in-memory head (both up to equivalence of heads). -/
theorem interleaved_eq_sequential_order_one_client (P : Params M T) (le : T → T → Prop) (Ch : T → Prop) (cl : Nat → Nat)
    (presented : Nat → Option M) (priv : Nat → Bool) (c0 : Option M) (hH : Honest P le Ch presented c0)
    (hsz : ∀ a b, le a b → P.size a ≤ P.size b) (hz : P.size P.zero = 0)
    (s : St M T) (h : HReachable P cl presented priv c0 s) (hq : Quiescent s)
    (l : List Nat) (hnd : l.Nodup) (hl : ∀ t, t ∈ l ↔ (s.th t).pc ≠ .entry) (c : Nat) (hone : ∀ t, cl t = c) :
    ∃ bs s2, bs.map (·.1) = l ∧ SeqExec P cl presented priv (init P c0) bs s2 ∧
      HReachable P cl presented priv c0 s2 ∧ Quiescent s2 ∧
      (∀ t, (s2.th t).pc = (s.th t).pc) ∧
      le (cfgTree P s.config) (cfgTree P s2.config) ∧ le (cfgTree P s2.config) (cfgTree P s.config) ∧
      le (s.latest c) (s2.latest c) ∧ le (s2.latest c) (s.latest c) := by
  obtain ⟨bs, s2, h0, _, h1, _, h2, h3, h4, h5, h6, _⟩ :=
    ClientLatest.interleaved_eq_sequential_order P le Ch cl presented priv c0 hH s h hq l hnd hl
  have hsame : ∀ t, (s.th t).pc = .entry ↔ (s2.th t).pc = .entry := fun t => by rw [h4 t]
  obtain ⟨m1, m2⟩ := one_client_memory_head_schedule_independent P le Ch cl presented priv c0 hH hsz hz s s2 h h2 hq h3
    hsame c hone
  exact ⟨bs, s2, h0, h1, h2, h3, h4, h5, h6, m1, m2⟩

/-! Non-vacuity, one client: goroutines 0–3 of client 0 (presented A@4, A@5, A@3; goroutine 3 private), configuration
initially A@2; an interleaved schedule (round robin) and the sequential order 2, 1, 0, 3: both end with every goroutine
returned, stored head and in-memory head A@5. -/

def oSched : List (Nat × Res) :=
  [0, 1, 2, 3, 0, 1, 2, 0, 1, 2, 0, 1, 2, 0, 1, 2, 0, 1, 2, 0, 1, 0, 1, 0, 1, 0, 1, 1, 1, 1, 1, 1].map fun t => (t, Res.ok)

def oSeq : List (Nat × Res) :=
  [2, 2, 2, 2, 2, 2, 2, 2, 2, 2, 1, 1, 1, 1, 1, 1, 1, 1, 1, 1, 0, 0, 0, 0, 3].map fun t => (t, Res.ok)

theorem oTerminal (sched : List (Nat × Res)) (hok : ∀ x ∈ sched, x.2 = Res.ok)
    (hth : ∀ x ∈ sched, x.1 = 0 ∨ x.1 = 1 ∨ x.1 = 2 ∨ x.1 = 3) (s : St Head Head)
    (hr : run (forkParams 3 false) (fun _ => 0) hPresented hPriv (init (forkParams 3 false) (some (0, 2))) sched = some s)
    (hd : ∃ x0 x1 x2 x3, (s.th 0).pc = .done x0 ∧ (s.th 1).pc = .done x1 ∧ (s.th 2).pc = .done x2 ∧ (s.th 3).pc = .done x3) :
    HReachable (forkParams 3 false) (fun _ => 0) hPresented hPriv (some (0, 2)) s ∧ Quiescent s ∧
    ∀ t, (s.th t).pc = .entry ↔ (t ≠ 0 ∧ t ≠ 1 ∧ t ≠ 2 ∧ t ≠ 3) := by
  obtain ⟨x0, x1, x2, x3, h0, h1, h2, h3⟩ := hd
  refine ⟨hreachable_run_ok _ _ _ _ _ sched _ s hok HReachable.init hr, ?_, fun t => ⟨fun he => ?_, fun hne => ?_⟩⟩
  · apply quiescent_of_run _ _ _ _ _ sched s hr
    intro x hx
    rcases hth x hx with e | e | e | e <;> rw [e]
    · exact ⟨_, h0⟩
    · exact ⟨_, h1⟩
    · exact ⟨_, h2⟩
    · exact ⟨_, h3⟩
  · refine ⟨?_, ?_, ?_, ?_⟩ <;> intro e <;> subst e <;> simp_all
  · apply entry_of_run _ _ _ _ _ sched s hr
    intro x hx e
    rcases hth x hx with e' | e' | e' | e' <;> omega

/-- the hypotheses of the one-client theorems are satisfied by the two runs, and both end at A@5 -/
example : ∃ s1 s2, HReachable (forkParams 3 false) (fun _ => 0) hPresented hPriv (some (0, 2)) s1 ∧
    HReachable (forkParams 3 false) (fun _ => 0) hPresented hPriv (some (0, 2)) s2 ∧ Quiescent s1 ∧ Quiescent s2 ∧
    (∀ t, (s1.th t).pc = .entry ↔ (s2.th t).pc = .entry) ∧ (∀ t, (fun _ : Nat => 0) t = 0) ∧
    s1.latest 0 = (0, 5) ∧ s2.latest 0 = (0, 5) ∧ s1.config = some (0, 5) ∧ s2.config = some (0, 5) ∧
    (∀ a b : Head, forkLe 3 a b = true → (forkParams 3 false).size a ≤ (forkParams 3 false).size b) ∧
    (forkParams 3 false).size (forkParams 3 false).zero = 0 := by
  obtain ⟨s1, hs1⟩ : ∃ s, run (forkParams 3 false) (fun _ => 0) hPresented hPriv (init (forkParams 3 false) (some (0, 2))) oSched = some s :=
    Option.isSome_iff_exists.mp (by decide)
  obtain ⟨s2, hs2⟩ : ∃ s, run (forkParams 3 false) (fun _ => 0) hPresented hPriv (init (forkParams 3 false) (some (0, 2))) oSeq = some s :=
    Option.isSome_iff_exists.mp (by decide)
  have k1 : ((run (forkParams 3 false) (fun _ => 0) hPresented hPriv (init (forkParams 3 false) (some (0, 2))) oSched).map fun s =>
      ((s.th 0).pc, (s.th 1).pc, (s.th 2).pc, (s.th 3).pc, s.config, s.latest 0)) =
      some (.done .ok, .done .ok, .done .ok, .done .gonosumdb, some (0, 5), (0, 5)) := by rfl
  have k2 : ((run (forkParams 3 false) (fun _ => 0) hPresented hPriv (init (forkParams 3 false) (some (0, 2))) oSeq).map fun s =>
      ((s.th 0).pc, (s.th 1).pc, (s.th 2).pc, (s.th 3).pc, s.config, s.latest 0)) =
      some (.done .ok, .done .ok, .done .ok, .done .gonosumdb, some (0, 5), (0, 5)) := by rfl
  rw [hs1] at k1; rw [hs2] at k2
  simp only [Option.map_some, Option.some.injEq, Prod.mk.injEq] at k1 k2
  obtain ⟨a0, a1, a2, a3, a4, a5⟩ := k1
  obtain ⟨b0, b1, b2, b3, b4, b5⟩ := k2
  obtain ⟨r1, q1, e1⟩ := oTerminal oSched (by decide) (by decide) s1 hs1 ⟨_, _, _, _, a0, a1, a2, a3⟩
  obtain ⟨r2, q2, e2⟩ := oTerminal oSeq (by decide) (by decide) s2 hs2 ⟨_, _, _, _, b0, b1, b2, b3⟩
  refine ⟨s1, s2, r1, r2, q1, q2, fun t => (e1 t).trans (e2 t).symm, fun _ => rfl, a5, b5, a4, b4, ?_, rfl⟩
  intro a b hab
  simp only [forkLe, Bool.and_eq_true, decide_eq_true_eq] at hab
  exact hab.1

end interleaving

section composed
open ModVerif.Client ModVerif.ClientRefine
variable {H : Type} [DecidableEq H]

/-- ★ **(2) C01's honest world discharges the machine-level honest-server hypothesis — `Sound` included.**
`honestParams P D S stN` is the latest-head machine whose `parse` is `note.Open`+`ParseTree` under the server's key and
whose admissible `checkTrees` answers are the abstractions (`absChk`) of the answers the sequential client's `checkTrees`
gives in the honest worlds of C01 (`honestParams_allows`).  If the world is honest in the sense of `honest_never_fails`
(`Client.Honest`) and every goroutine is presented the empty message or a head of `D` signed with the server's key
(likewise the initial configuration), this machine satisfies `ClientLatest.Honest` with the prefix order
`Props.C13.headLe` and the chain "heads of `D`" — hence every C14 theorem above (`honest_all_succeed`,
`latest_ends_at_max`, `interleaved_eq_sequential_order`, …) holds for the client's own verification layer; no
collision-freedom hypothesis is needed on the honest side (for an arbitrary server `Sound` is `Props.C13.client_sound`,
under injectivity of `NodeHash`). -/
theorem honest_world_is_honest_machine (P : Params H) (D : List Bytes) (S : Server) (stN : List H)
    (hon : Client.Honest P D S stN) (presented : Nat → Option Bytes) (c0 : Option Bytes)
    (hpres : ∀ t, HonestMsg P D S (presented t)) (hc0 : HonestMsg P D S c0) :
    ClientLatest.Honest (honestParams P D S stN) (Props.C13.headLe P D) (IsHead P D) presented c0 ∧
    ClientLatest.Sound (honestParams P D S stN) (Props.C13.headLe P D) :=
  ⟨honestParams_honest P D S stN hon presented c0 hpres hc0,
   (honestParams_honest P D S stN hon presented c0 hpres hc0).sound⟩

/-- ★ **(2) Closing the chain for the head protocol: a block of a sequential execution of the honest machine IS the
sequential client's `mergeLatest`.**  C01's honest world (`Client.Honest`); `w` an honest world of the sequential client
(`HW`: head, configuration, cache, tile cache, record cache honest) with the client's name and verifier; `msg` the empty
message or a signed head of `D`; the state `s` of the machine over the client's verification layer (`honestParams`)
agrees with `w` on client `cl t`; goroutine `t` is public, has not started, is presented `msg`.  If `t` runs ALONE with
every answer `ok` until it has returned — a block of `SeqExec`, as in `interleaved_eq_sequential_order` — then it has
returned success, the sequential `mergeLatest(msg)` returns nil, and the machine state agrees with the world after
`mergeLatest`: same in-memory head and message, same configuration content, same successful configuration writes
(`Obs`).  Together with `interleaved_eq_sequential_order` (every interleaving ends like every sequential order) and
`honest_world_is_honest_machine`, the head-protocol part of "concurrent = sequential" is a theorem down to the sequential
client model; what happens between two `mergeLatest` calls of the sequential client (cache reads, `checkRecord`, the
record cache) frames the head state and is not part of this theorem. -/
theorem honest_sequential_block_is_mergeLatest (P : Params H) (D : List Bytes) (S : Server) (stN : List H)
    (hon : Client.Honest P D S stN) (cl : Nat → Nat) (presented : Nat → Option Bytes) (priv : Nat → Bool) (t : Nat)
    (msg : Bytes) (hmsg : msg = [] ∨ ∃ m, Signed P D S msg m) (hpres : presented t = optB msg) (hpriv : priv t = false)
    (w : World HState H) (hw : HW P D S stN w) (hname : w.c.name = S.v.name) (hvs : w.c.verifiers = [S.v])
    (s s' : MSt H) (hR : RelG cl S.v.name (fun x : HState => x.latest) [S.v] t w s) (hpc : (s.th t).pc = .entry)
    (k : Nat) (hrun : ClientLatest.run (honestParams P D S stN) cl presented priv s
      (List.replicate k (t, ClientLatest.Res.ok)) = some s')
    (hdone : ∃ x, (s'.th t).pc = .done x) :
    (s'.th t).pc = .done .ok ∧ (mergeLatest P (honestEnv S) w msg).1 = .ok () ∧
    RelG cl S.v.name (fun x : HState => x.latest) [S.v] t (mergeLatest P (honestEnv S) w msg).2 s' ∧
    Obs P t w.tr s.writes s.sec (mergeLatest P (honestEnv S) w msg).2 s' :=
  honest_block_is_mergeLatest P D S stN hon cl presented priv t msg hmsg hpres hpriv w hw hname hvs s s' hR hpc k hrun hdone

/-- non-vacuity: C01's concrete honest world, the fresh named client, goroutine 0 presented the signed head `hHead`;
the block exists (a goroutine scheduled alone returns within 10 steps, `solo_finishes`) -/
example : ∃ (k : Nat) (s' : MSt UInt8),
    Client.Honest Props.C01.HonestExample.hP Props.C01.HonestExample.hD Props.C01.HonestExample.hS [7] ∧
    (Props.C01.HonestExample.hHead = [] ∨ ∃ m, Signed Props.C01.HonestExample.hP Props.C01.HonestExample.hD
      Props.C01.HonestExample.hS Props.C01.HonestExample.hHead m) ∧
    HW Props.C01.HonestExample.hP Props.C01.HonestExample.hD Props.C01.HonestExample.hS [7]
      (⟨⟨[], []⟩, { newClient Props.C01.HonestExample.hP with
        name := Props.C01.HonestExample.hS.v.name, verifiers := [Props.C01.HonestExample.hS.v] }, []⟩ : World HState UInt8) ∧
    RelG (fun _ => 0) Props.C01.HonestExample.hS.v.name (fun x : HState => x.latest) [Props.C01.HonestExample.hS.v] 0
      (⟨⟨[], []⟩, { newClient Props.C01.HonestExample.hP with
        name := Props.C01.HonestExample.hS.v.name, verifiers := [Props.C01.HonestExample.hS.v] }, []⟩ : World HState UInt8)
      (ClientLatest.init (honestParams Props.C01.HonestExample.hP Props.C01.HonestExample.hD Props.C01.HonestExample.hS [7])
        (optB [])) ∧
    ClientLatest.run (honestParams Props.C01.HonestExample.hP Props.C01.HonestExample.hD Props.C01.HonestExample.hS [7])
      (fun _ => 0) (fun _ => optB Props.C01.HonestExample.hHead) (fun _ => false)
      (ClientLatest.init (honestParams Props.C01.HonestExample.hP Props.C01.HonestExample.hD Props.C01.HonestExample.hS [7])
        (optB [])) (List.replicate k (0, ClientLatest.Res.ok)) = some s' ∧
    ∃ x, (s'.th 0).pc = .done x := by
  have hne : optB Props.C01.HonestExample.hHead = some Props.C01.HonestExample.hHead :=
    optB_isEmpty_false (Client.signed_ne_nil Props.C01.HonestExample.hsigned)
  have hH := honestParams_honest Props.C01.HonestExample.hP Props.C01.HonestExample.hD Props.C01.HonestExample.hS [7]
    Props.C01.HonestExample.honest_example (fun _ => optB Props.C01.HonestExample.hHead) (optB [])
    (fun _ => by rw [hne]; exact ⟨1, Props.C01.HonestExample.hsigned⟩) trivial
  obtain ⟨k, s', _, hrun, _, hd, _⟩ := ClientLatest.solo_finish _ _ _ (fun _ => 0) _ (fun _ => false) _ hH 0 10 _
    ClientLatest.HReachable.init (ClientLatest.rank_le _ _ _)
  exact ⟨k, s', Props.C01.HonestExample.honest_example, Or.inr ⟨1, Props.C01.HonestExample.hsigned⟩,
    hw_fresh _ _ _ _ _, relG_init _ _ _ rfl _ _ (fun x : HState => x.latest) 0 ⟨[], []⟩ [], hrun, hd⟩

/-- the abstraction map, honest side: whatever the sequential `checkTrees` answers in an honest world is admissible in
the machine `honestParams` -/
theorem honestParams_allows (P : Params H) (D : List Bytes) (S : Server) (stN : List H) (w : World HState H)
    (hw : HW P D S stN w) (hname : w.c.name = S.v.name) (a : Head H) (o1 : Bytes) (b : Head H) (o2 : Bytes)
    (hle : a.n ≤ b.n) :
    absChk (checkTrees P (honestEnv S) w a o1 b o2).1 ∈ (honestParams P D S stN).chk a b :=
  honestParams_chk P D S stN w hw hname a o1 b o2 hle

/-- ★ **(2) With an honest server every concurrent lookup returns exactly the server's lines — the composed system.**
`Composed.CReach`: the record-cache machine (`parCache.Do` with the client's keys `lookupKey`) and the latest-head
machine over the client's verification layer (`honestParams`) run side by side; a caller's `runF` step is refined by
the run of its goroutine's `mergeLatest` (presented the tree note of the server's response), interleaved with everything
else, and stores the server's response when that `mergeLatest` has returned success (`workOf`).  Hypotheses: those of
`honest_never_fails` for every goroutine's request.  In every reachable state of the composed system: each distinct
lookup file was fetched at most once; every goroutine that has returned holds an honest response `d` of the server for
its module and `Lookup` returns `filterLines (path vers ) d`; no `mergeLatest` has failed; `SecurityError` was never
called.  NOT modelled concurrently (collapsed into `workOf`): the cache/network reads, `ParseRecord`, `checkRecord` and
`WriteCache` of the work function — for the sequential client they succeed in the honest world by `honest_never_fails`. -/
theorem concurrent_lookups_return_server_lines (P : Params H) (D : List Bytes) (S : Server) (stN : List H)
    (hon : Client.Honest P D S stN) (path vers rp resp : Nat → Bytes)
    (hreq : ∀ i, ∃ epath evers id, Module.escapePath (path i) = .ok epath ∧
      Module.escapeVersion P.isLetter (Client.trimGoMod (vers i)) = .ok evers ∧
      rp i = B "/lookup/" ++ (epath ++ ([64] ++ evers)) ∧ S.index (rp i) = some id)
    (hresp : ∀ i, S.serve (rp i) = some (resp i))
    (presented : Nat → Option Bytes)
    (hpres : ∀ i id text head, TlogNote.parseRecord (resp i) = some (id, text, head) → presented i = some head)
    (c0 : Option Bytes) (hc0 : HonestMsg P D S c0) (cl : Nat → Nat)
    (s : Composed.CSt Bytes (Head H) (Except Err Bytes))
    (h : Composed.CReach (honestParams P D S stN) cl presented
      (fun i => ClientFetch.lookupKey P.isLetter S.v.name (path i) (vers i)) (workOf resp) c0 s) :
    (∀ k, s.c.runs k ≤ 1) ∧
    (∀ i, s.c.pc i = .returned → ∃ d, HonestLookup P D S (rp i) d ∧ s.c.got i = some (.ok d) ∧
      (s.c.got i).map (lookupResult (path i) (vers i)) =
        some (.ok (filterLines (path i ++ [32] ++ vers i ++ [32]) d))) ∧
    (∀ t, (s.l.th t).pc ≠ .done .err ∧ (s.l.th t).pc ≠ .done .security) ∧ s.l.sec = [] :=
  concurrent_lookups_honest P D S stN hon path vers rp resp hreq hresp presented hpres c0 hc0 cl s h

/-- **… and that is the sequential client's answer**: for the same request the sequential `Lookup` (any honest initial
state, after any earlier lookups; `honest_never_fails`) and a returned concurrent lookup of the composed system both
deliver the prefix-filtered lines of an honest response for the module, and the two responses carry the SAME record —
number `S.index`, text `D[id]` — (they can differ only in the signed head that follows it). -/
theorem concurrent_and_sequential_same_record (P : Params H) (D : List Bytes) (S : Server) (stN : List H)
    (hon : Client.Honest P D S stN) (s0 : HState) (hs0 : HonestState P D S stN s0) (earlier : List (Bytes × Bytes))
    (path vers epath evers : Bytes) (id : Nat)
    (hskip : Module.matchPrefixPatterns P.glob P.nosumdb path = false)
    (hep : Module.escapePath path = .ok epath) (hev : Module.escapeVersion P.isLetter (trimGoMod vers) = .ok evers)
    (hidx : S.index (B "/lookup/" ++ (epath ++ ([64] ++ evers))) = some id)
    (dc : Bytes) (hdc : HonestLookup P D S (B "/lookup/" ++ (epath ++ ([64] ++ evers))) dc) :
    ∃ ds, HonestLookup P D S (B "/lookup/" ++ (epath ++ ([64] ++ evers))) ds ∧
      (lookup P (honestEnv S) (runLookups P (honestEnv S) ⟨s0, newClient P, []⟩ earlier) path vers).1 =
        .ok (filterLines (path ++ [32] ++ vers ++ [32]) ds) ∧
      ∃ text hc hs, D[id]? = some text ∧ TlogNote.parseRecord dc = some ((id : Int), text, hc) ∧
        TlogNote.parseRecord ds = some ((id : Int), text, hs) := by
  obtain ⟨ds, h1, h2⟩ := Props.C01.honest_never_fails P D S stN hon s0 hs0 earlier path vers epath evers id hskip hep hev hidx
  obtain ⟨t1, hd1, _, p1, g1, _, _⟩ := Props.C01.honestLookup_record P D S _ dc id hdc hidx
  obtain ⟨t2, hd2, _, p2, g2, _, _⟩ := Props.C01.honestLookup_record P D S _ ds id h1 hidx
  have : t1 = t2 := by rw [g1] at g2; exact Option.some.inj g2
  subst this
  exact ⟨ds, h1, h2, t1, hd1, hd2, g1, p1, p2⟩

/-! Non-vacuity of the composed theorems: C01's concrete honest world; every goroutine asks for `example.com/m v1.0.0`,
the server's response is `hResp`, its tree note `hHead` is a signed head of the log; the configuration starts empty; the
initial state of the composed system is reachable, and so is the state after caller 0 has entered `Do`. -/
example : Client.Honest Props.C01.HonestExample.hP Props.C01.HonestExample.hD Props.C01.HonestExample.hS [7] ∧
    (∀ _ : Nat, HonestMsg Props.C01.HonestExample.hP Props.C01.HonestExample.hD Props.C01.HonestExample.hS
      (some Props.C01.HonestExample.hHead)) ∧
    HonestMsg Props.C01.HonestExample.hP Props.C01.HonestExample.hD Props.C01.HonestExample.hS none :=
  ⟨Props.C01.HonestExample.honest_example, fun _ => ⟨1, Props.C01.HonestExample.hsigned⟩, trivial⟩

example :
    (∀ _ : Nat, ∃ epath evers id, Module.escapePath (B "example.com/m") = .ok epath ∧
      Module.escapeVersion Props.C01.HonestExample.hP.isLetter (Client.trimGoMod (B "v1.0.0")) = .ok evers ∧
      Props.C01.HonestExample.hPath = B "/lookup/" ++ (epath ++ ([64] ++ evers)) ∧
      Props.C01.HonestExample.hS.index Props.C01.HonestExample.hPath = some id) ∧
    Props.C01.HonestExample.hS.serve Props.C01.HonestExample.hPath = some Props.C01.HonestExample.hResp ∧
    (∀ id text head, TlogNote.parseRecord Props.C01.HonestExample.hResp = some (id, text, head) →
      (some Props.C01.HonestExample.hHead : Option Bytes) = some head) ∧
    ∃ s, Composed.CReach (honestParams Props.C01.HonestExample.hP Props.C01.HonestExample.hD Props.C01.HonestExample.hS [7])
      (fun _ => 0) (fun _ => some Props.C01.HonestExample.hHead)
      (fun _ => ClientFetch.lookupKey Props.C01.HonestExample.hP.isLetter Props.C01.HonestExample.hS.v.name
        (B "example.com/m") (B "v1.0.0")) (workOf fun _ => Props.C01.HonestExample.hResp) none s ∧
      s.c.pc 0 = .load := by
  refine ⟨fun _ => ⟨B "example.com/m", B "v1.0.0", 0, by decide +kernel, by decide +kernel, rfl, by
      simp [Props.C01.HonestExample.hS]⟩, by simp [Props.C01.HonestExample.hS], ?_, ?_⟩
  · intro id text head hp
    have h : (TlogNote.parseRecord Props.C01.HonestExample.hResp ==
        some (0, Props.C01.HonestExample.hText, Props.C01.HonestExample.hHead)) = true := by decide +kernel
    have h' : TlogNote.parseRecord Props.C01.HonestExample.hResp =
        some (0, Props.C01.HonestExample.hText, Props.C01.HonestExample.hHead) := by simpa using h
    rw [h'] at hp
    cases hp; rfl
  · refine ⟨_, Composed.CReach.step Composed.CReach.init
      (Composed.CStep.cache _ 0 _ (fun _ => .error .note) (by simp [ParCache.init]) rfl), ?_⟩
    simp [ParCache.init]

end composed

section caches
open ModVerif.Client ModVerif.ClientRefine

/-- ★ **(3) The association-list cache of the sequential client is the `parCache.Do` machine run by one call at a
time.**  `seqDo c k f` is the sequential model (`match c.lookup k with | some r => (r, c) | none => (f, (k, f) :: c)`,
errors cached too).  If between calls (`SeqState`: nobody is inside `Do`, no entry is locked, entries are in the map iff
done) the association list `c` is the content of the machine state (`CacheRel`, keys numbered injectively by `enc`), then
a call `Do(k, f)` by caller `i` running ALONE returns within 10 steps (4 on a hit, 10 on a miss), in a state between
calls again; it returns `(seqDo c k f).1`; the new content is `(seqDo c k f).2`; `f` has run iff the lookup missed;
nobody else's program counter or result changes.  Every run of `i` alone that reaches `returned` is this run
(`ClientRefine.solo_do`).  The table of transitions / sequential code is at the top of Proofs/ClientRefineCache.lean. -/
theorem cache_do_refines_sequential {K V : Type} [BEq K] [LawfulBEq K] (enc : K → Nat)
    (henc : ∀ a b, enc a = enc b → a = b) (key : Nat → Nat) (fval : Nat → V) (c : List (K × V)) (s : ParCache.St V)
    (hS : SeqState s) (hc : CacheRel enc c s) (i : Nat) (k : K) (hk : key i = enc k) (hi : s.pc i = .idle) :
    ∃ n s', n ≤ 10 ∧ ParCache.run key fval s (List.replicate n i) = some s' ∧ SeqState s' ∧ s'.pc i = .returned ∧
      s'.got i = some (seqDo c k (fval i)).1 ∧ CacheRel enc (seqDo c k (fval i)).2 s' ∧
      (s'.runs (enc k) = s.runs (enc k) + if c.lookup k = none then 1 else 0) ∧
      (∀ j, j ≠ i → s'.pc j = s.pc j ∧ s'.got j = s.got j) :=
  seqDo_refines enc henc key fval c s hS hc i k hk hi

/-- **`Client.readTile` (Model/Client.lean) is `seqDo` on `c.tileCache`** with work function `readTileWork` (the only
reader of tile files and tile URLs); on a hit the world does not change at all. -/
theorem readTile_is_sequential_do {σ H : Type} (E : Env σ) (w : World σ H) (t : Tile.Tile) :
    (readTile E w t).1 = (seqDo w.c.tileCache t (readTileWork E w t).1).1 ∧
    (readTile E w t).2.c.tileCache = (seqDo w.c.tileCache t (readTileWork E w t).1).2 ∧
    (∀ r, w.c.tileCache.lookup t = some r → (readTile E w t).2 = w) ∧
    (w.c.tileCache.lookup t = none →
      (readTile E w t).2 = { (readTileWork E w t).2 with
        c := { (readTileWork E w t).2.c with tileCache := (t, (readTileWork E w t).1) :: w.c.tileCache } }) :=
  readTile_is_seqDo E w t

/-- **The record cache of `Client.lookup` (see `lookup_uses_fetch_key` for the key) is `seqDo` on `c.record`** with work
function `lookupWork`, which itself never touches the record cache; on a hit the world does not change at all. -/
theorem record_cache_is_sequential_do {σ H : Type} [DecidableEq H] (P : Params H) (E : Env σ) (w : World σ H)
    (file remotePath : Bytes) :
    let res : Except Err Bytes × World σ H :=
      match w.c.record.lookup file with
      | some r => (r, w)
      | none =>
        let r := lookupWork P E w file remotePath
        (r.1, { r.2 with c := { r.2.c with record := (file, r.1) :: r.2.c.record } })
    res.1 = (seqDo w.c.record file (lookupWork P E w file remotePath).1).1 ∧
    res.2.c.record = (seqDo w.c.record file (lookupWork P E w file remotePath).1).2 ∧
    (∀ r, w.c.record.lookup file = some r → res.2 = w) :=
  record_is_seqDo P E w file remotePath

/-- non-vacuity of (3): the initial state is a state between calls and stands for the empty association list -/
example : SeqState (ParCache.init Nat) ∧ CacheRel (fun k : Nat => k) ([] : List (Nat × Nat)) (ParCache.init Nat) ∧
    (ParCache.init Nat).pc 0 = .idle :=
  ⟨seqState_init, fun _ => rfl, rfl⟩

/-- … and a concrete sequential use: callers 0 and 1 ask for key 7 one after the other (a miss: 10 steps, then a hit:
4 steps), caller 2 for key 9; the second caller gets the first caller's value, `f` ran once per key -/
example : ((ParCache.run exKey exVal (ParCache.init Nat)
      (List.replicate 10 0 ++ List.replicate 4 1 ++ List.replicate 10 2)).map
    (fun s => (s.got 0, s.got 1, s.got 2, s.runs 7, s.runs 9, s.pc 0, s.pc 1, s.pc 2))) =
    some (some 10, some 10, some 12, 1, 1, .returned, .returned, .returned) := by rfl

end caches

section effects
open ModVerif.Client ModVerif.ClientFetch ModVerif.ClientEffects

/-- ★ **`fetch_once` on the sequential client model, one `Lookup` call, stated over the effect trace** (`World.tr`: the
model itself logs every external operation with its file argument, so the trace is the log of the instrumented
environment; the theorem holds for EVERY environment `E`, every world `w`).  `name` = the client's name after `init`,
`file` = the call's lookup file (`lookupFile`, the key of `fetch_once`), `file.drop name.length` = its lookup path.  The
trace extension of the call contains at most one `ReadCache(file)` and at most one `ReadRemote(path)`; every other
logged effect is `Other name`: a cache read of a tile file of this client (`name ++ "/tile/…"`), a remote read of a tile
path (`"/tile/…"`), a configuration read, or no read at all (write / SecurityError) — `other_not_cacheRead`,
`other_not_remoteRead` (Proofs/ClientEffects.lean): an `Other` effect is never a read of ANY lookup file / lookup path of
the client.  When the record cache has an entry for `file`, the call reads neither the file nor the path.  Entries of the
record cache are never lost. -/
theorem fetch_once_sequential_call {σ H : Type} [DecidableEq H] (P : Params H) (E : Env σ) (w : World σ H)
    (path vers file : Bytes) (hfile : lookupFile P.isLetter (Client.init P E w).c.name path vers = some file) :
    ∃ ext, (lookup P E w path vers).2.tr = w.tr ++ ext ∧
      cacheReads file ext ≤ 1 ∧ remoteReads (file.drop (Client.init P E w).c.name.length) ext ≤ 1 ∧
      (∀ e ∈ ext, Other (Client.init P E w).c.name e ∨ (∃ ok, e = .read .cache file ok) ∨
        (∃ ok, e = .read .remote (file.drop (Client.init P E w).c.name.length) ok)) ∧
      (w.c.record.lookup file ≠ none → (∀ e ∈ ext, Other (Client.init P E w).c.name e) ∧
        cacheReads file ext = 0 ∧ remoteReads (file.drop (Client.init P E w).c.name.length) ext = 0) ∧
      (∀ g r, w.c.record.lookup g = some r → (lookup P E w path vers).2.c.record.lookup g = some r) :=
  lookup_reads_lookup_file_once P w path vers file hfile

/-- ★ **`fetch_once` on the sequential client model, any sequence of `Lookup` calls** (every environment, any start
world, any requests — accepted or not): with `name` the client's name at the end of the run, for EVERY lookup key
`name ++ "/lookup/" ++ rest` the whole trace extension contains at most one `ReadCache` of the file and at most one
`ReadRemote` of the path `"/lookup/" ++ rest`, and none if the record cache had the entry at the start; the record cache
only grows (`runLookups_record_mono`: the model never evicts — as `parCache` never does). -/
theorem fetch_once_sequential {σ H : Type} [DecidableEq H] (P : Params H) (E : Env σ) (qs : List (Bytes × Bytes))
    (w : World σ H) (rest : Bytes) :
    (∃ ext, (runLookups P E w qs).tr = w.tr ++ ext ∧
      cacheReads ((runLookups P E w qs).c.name ++ (B "/lookup/" ++ rest)) ext ≤ 1 ∧
      remoteReads (B "/lookup/" ++ rest) ext ≤ 1 ∧
      (w.c.record.lookup ((runLookups P E w qs).c.name ++ (B "/lookup/" ++ rest)) ≠ none →
        cacheReads ((runLookups P E w qs).c.name ++ (B "/lookup/" ++ rest)) ext = 0 ∧
        remoteReads (B "/lookup/" ++ rest) ext = 0)) ∧
    (∀ g r, w.c.record.lookup g = some r → (runLookups P E w qs).c.record.lookup g = some r) :=
  ⟨runLookups_fetch_once P qs w rest, runLookups_record_mono P qs w⟩

/-- every lookup file has the shape the sequence theorem quantifies over -/
theorem fetch_once_sequential_keys (isLetter : Nat → Bool) (name path vers file : Bytes)
    (h : lookupFile isLetter name path vers = some file) : ∃ rest, file = name ++ (B "/lookup/" ++ rest) :=
  lookupFile_shape isLetter name path vers file h

/-- the two calls of the example below, and the same as one run -/
def exFetch1 : Except Err (List Bytes) × World HState UInt8 :=
  lookup Props.C01.HonestExample.hP (honestEnv Props.C01.HonestExample.hS)
    ⟨⟨[], []⟩, newClient Props.C01.HonestExample.hP, []⟩ (B "example.com/m") (B "v1.0.0")
def exFetch2 : Except Err (List Bytes) × World HState UInt8 :=
  lookup Props.C01.HonestExample.hP (honestEnv Props.C01.HonestExample.hS) exFetch1.2 (B "example.com/m") (B "v1.0.0/go.mod")
def exFetchRun : World HState UInt8 :=
  runLookups Props.C01.HonestExample.hP (honestEnv Props.C01.HonestExample.hS)
    ⟨⟨[], []⟩, newClient Props.C01.HonestExample.hP, []⟩
    [(B "example.com/m", B "v1.0.0"), (B "example.com/m", B "v1.0.0/go.mod")]

/-- non-vacuity, kernel-evaluated on C01's honest world (`Props.C01.HonestExample`, cold cache, fresh client): `Lookup` of
`example.com/m v1.0.0`, then of `example.com/m v1.0.0/go.mod` — the same lookup file `k/lookup/example.com/m@v1.0.0`
(hypothesis `hfile` of `fetch_once_sequential_call` for the second call); the whole trace has ONE `ReadRemote` of the
lookup path and ONE `ReadCache` of the lookup file, the record cache has one entry, the first call returned the record's
line and the second call succeeded (no `/go.mod` line in this record) without any effect. -/
example :
    (exFetch1).1 = .ok [B "example.com/m v1.0.0 h1:abc="] ∧ (exFetch2).1 = .ok [] ∧
    (Client.init Props.C01.HonestExample.hP (honestEnv Props.C01.HonestExample.hS) exFetch1.2).c.name = B "k" ∧
    lookupFile Props.C01.HonestExample.hP.isLetter (B "k") (B "example.com/m") (B "v1.0.0/go.mod") =
      some (B "k" ++ Props.C01.HonestExample.hPath) ∧
    lookupFile Props.C01.HonestExample.hP.isLetter (B "k") (B "example.com/m") (B "v1.0.0") =
      some (B "k" ++ Props.C01.HonestExample.hPath) ∧
    exFetchRun.c.name = B "k" ∧
    remoteReads Props.C01.HonestExample.hPath exFetchRun.tr = 1 ∧
    cacheReads (B "k" ++ Props.C01.HonestExample.hPath) exFetchRun.tr = 1 ∧
    exFetchRun.tr = exFetch2.2.tr ∧ exFetch2.2.tr = exFetch1.2.tr ∧ exFetchRun.c.record.length = 1 ∧
    3 ≤ exFetch1.2.tr.length := by
  decide +kernel

end effects

end ModVerif.Props.C14
