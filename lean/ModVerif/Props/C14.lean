/-
  C14 — concurrent lookups behave like sequential ones and fetch each record once.
  Property theorems only; helper lemmas live in ModVerif/Proofs/ParCacheInv.lean, ModVerif/Proofs/ClientLatestInv.lean and
  ModVerif/Proofs/ClientMore{Honest,Flush,Seen,Finish,Max,Fetch,Seq}.lean.

  What is modelled: the once-per-key cache (`parCache.Do`, Model/ParCache.lean) and the protocol that maintains the
  in-memory and the stored latest tree head (Model/ClientLatest.lean), both as interleaved small-step machines with any
  number of goroutines / clients, under sequentially consistent `sync.Map`, `sync.Mutex`, `atomic` (DESIGN §4).
  The clause "without data races" of C14 is a statement about the Go memory model and is NOT covered by any theorem
  here (partial; the scheduled runs and the race-detector build are evidence only).
-/
import ModVerif.Proofs.ParCacheInv
import ModVerif.Proofs.ClientLatestInv
import ModVerif.Proofs.ClientMoreMax
import ModVerif.Proofs.ClientMoreFetch
import ModVerif.Proofs.ClientMoreSeq
import ModVerif.Proofs.ClientMoreTie
import ModVerif.Props.C13
namespace ModVerif.Props.C14
open ModVerif ModVerif.ParCache

/-- ★ **`parCache.Do` runs `f` at most once per key, and every `Do` returns that run's result.**
For every interleaving (every state reachable by any number of callers taking steps in any order), for any
assignment of keys to callers and any values the callers' closures would produce:
`f` has run at most once for every key, and every caller that has returned got exactly the value produced by
the one run for its key (which therefore exists). -/
theorem parCache_once {V : Type} (key : Nat → Nat) (fval : Nat → V) (s : St V) (h : Reachable key fval s) :
    (∀ k, s.runs k ≤ 1) ∧
    (∀ i, s.pc i = .returned → s.runs (key i) = 1 ∧ (s.ran (key i)).isSome = true ∧ s.got i = s.ran (key i)) := by
  have hI := inv_reachable key fval s h
  exact ⟨hI.runs_le, fun i hi => ⟨(hI.returned_ok i hi).2.2, (hI.returned_ok i hi).2.1, (hI.returned_ok i hi).1⟩⟩

/-- No call to `Do` returns before the one call to `f` has returned (the doc comment of cache.go): a caller that is
at or past the final read of `e.result` sees `done`, and `done` is only set after `f` ran. -/
theorem parCache_no_early_return {V : Type} (key : Nat → Nat) (fval : Nat → V) (s : St V) (h : Reachable key fval s)
    (i : Nat) (hi : s.pc i = .ret ∨ s.pc i = .returned) : s.runs (key i) = 1 := by
  have hI := inv_reachable key fval s h
  rcases hi with hi | hi
  · exact (hI.done_ran _ (hI.after_done i (Or.inr hi))).1
  · exact (hI.returned_ok i hi).2.2

/-- Mutual exclusion on the entry: two different callers of the same key are never both between `Lock` and `Unlock`. -/
theorem parCache_mutex {V : Type} (key : Nat → Nat) (fval : Nat → V) (s : St V) (h : Reachable key fval s)
    (i j : Nat) (hi : inCS (s.pc i)) (hj : inCS (s.pc j)) (hk : key i = key j) : i = j :=
  (inv_reachable key fval s h).cs_unique i j hi hj hk

/-! Non-vacuity: three callers, two keys (callers 0 and 1 share key 7), closures returning 10, 11, 12.
A contended schedule in which caller 1 stores the entry, caller 0 wins the lock and runs `f`, caller 1 waits for
the lock, finds `done` and returns caller 0's value; caller 2 works on its own key. -/
def exKey : Nat → Nat := fun i => if i = 2 then 9 else 7
def exVal : Nat → Nat := fun i => 10 + i
def exSched : List Nat :=
  [0, 1, 0, 1, 1, 0, 0, 1, 0, 0, 0, 2, 2, 2, 2, 2, 2, 0, 0, 0, 1, 1, 1, 1, 2, 2, 2, 2]

example : ((run exKey exVal (init Nat) exSched).map
    (fun s => (s.got 0, s.got 1, s.got 2, s.runs 7, s.runs 9, s.pc 0, s.pc 1, s.pc 2))) =
    some (some 10, some 10, some 12, 1, 1, .returned, .returned, .returned) := by rfl

/-- the mutex really blocks: with caller 0 inside the critical section, caller 1's `Lock` step is not enabled -/
example : ((run exKey exVal (init Nat) [0, 0, 0, 0, 0, 1, 1, 1]).bind (fun s => step exKey exVal s 1)).isNone = true := by decide

/-! ## The shared latest tree head under concurrency (machine: Model/ClientLatest.lean) -/

section
open ModVerif.ClientLatest
variable {M T : Type} [DecidableEq M] [DecidableEq T]

/-- ★ **The latest tree head never regresses — in memory and in the configuration** — for any number of goroutines and
clients, any interleaving of the `latestMu` sections, configuration reads and compare-and-swap writes, and any server:
along every continuation of every reachable state each client's in-memory head and the stored head move up in the
prefix order, hence never shrink.  (`Sound`: an `ok` of `checkTrees(older,newer)` implies `older ≤ newer`.) -/
theorem latest_never_regresses (P : Params M T) (le : T → T → Prop) (hS : Sound P le)
    (hsz : ∀ a b, le a b → P.size a ≤ P.size b)
    (cl : Nat → Nat) (presented : Nat → Option M) (priv : Nat → Bool) (c0 : Option M)
    (sched : List (Nat × Res)) (s s' : St M T) (h : Reachable P cl presented priv c0 s)
    (hr : run P cl presented priv s sched = some s') :
    (∀ c, le (s.latest c) (s'.latest c) ∧ P.size (s.latest c) ≤ P.size (s'.latest c)) ∧
    le (cfgTree P s.config) (cfgTree P s'.config) ∧ P.size (cfgTree P s.config) ≤ P.size (cfgTree P s'.config) := by
  obtain ⟨h1, h2⟩ := Props.C13.latest_monotone P le hS cl presented priv c0 sched s s' h hr
  exact ⟨fun c => ⟨h1 c, hsz _ _ (h1 c)⟩, h2, hsz _ _ h2⟩

/-- ★ **A path matching the private-module pattern list never triggers any external operation**: a thread whose path is
private is, in every reachable state, either not started or finished with `ErrGONOSUMDB`, has performed no external
operation, and its only step changes nothing that is shared (stored head, in-memory heads, security reports, writes). -/
theorem private_no_ops (P : Params M T) (le : T → T → Prop) (hS : Sound P le)
    (cl : Nat → Nat) (presented : Nat → Option M) (priv : Nat → Bool) (c0 : Option M)
    (s : St M T) (h : Reachable P cl presented priv c0 s) (t : Nat) (hp : priv t = true) :
    ((s.th t).pc = .entry ∨ (s.th t).pc = .done .gonosumdb) ∧ (s.th t).ops = 0 ∧
    ∀ r s', step P cl presented priv s t r = some s' →
      s'.config = s.config ∧ s'.latest = s.latest ∧ s'.latestMsg = s.latestMsg ∧ s'.sec = s.sec ∧ s'.writes = s.writes ∧
      (s'.th t).pc = .done .gonosumdb ∧ (s'.th t).ops = 0 := by
  have hI := inv_reachable P le hS cl presented priv c0 s h
  exact ⟨(hI.private_idle t hp).1, (hI.private_idle t hp).2,
    fun r s' hs => step_private P le cl presented priv s s' t r hI hp hs⟩

/-- conversely a public lookup never ends with `ErrGONOSUMDB` (the private branch is not vacuous the other way) -/
theorem public_not_skipped (P : Params M T) (le : T → T → Prop) (hS : Sound P le)
    (cl : Nat → Nat) (presented : Nat → Option M) (priv : Nat → Bool) (c0 : Option M)
    (s : St M T) (h : Reachable P cl presented priv c0 s) (t : Nat) (hp : priv t = false) :
    (s.th t).pc ≠ .done .gonosumdb :=
  (inv_reachable P le hS cl presented priv c0 s h).public_pc t hp

/-- non-vacuity: in the two-log instance thread 9 is private; it can take its step and ends with `gonosumdb`, 0 operations -/
example : ((run (forkParams 3 false) Props.C13.exCl Props.C13.exPresented Props.C13.exPriv
      (init (forkParams 3 false) none) [(9, .ok)]).map fun s => ((s.th 9).pc, (s.th 9).ops, s.config)) =
    some (.done .gonosumdb, 0, none) := by rfl

/-- non-vacuity of the contended paths: two goroutines of one client race to install A@4 and A@5 over A@3 — the loser of
the `latestMu` compare goes around again (memInstall → memCheck) — and two clients race on the configuration — the loser
of the compare-and-swap gets the write conflict and goes around again (writeConfig → readConfig). -/
example : ((run (forkParams 0 false) (fun _ => 0) (fun t => if t = 0 then some (0, 4) else some (0, 5)) (fun _ => false)
      (init (forkParams 0 false) none)
      [(0, .ok), (0, .ok), (0, .ok), (0, .ok), (1, .ok), (1, .ok), (1, .ok), (1, .ok), (0, .ok), (1, .ok)]).map
      fun s => ((s.th 0).pc, (s.th 1).pc, s.latest 0)) =
    some (.readConfig, .memCheck .first, (0, 4)) := by rfl

example : ((run (forkParams 0 false) (fun t => t) (fun t => if t = 0 then some (0, 4) else some (0, 5)) (fun _ => false)
      (init (forkParams 0 false) none)
      [(0, .ok), (0, .ok), (0, .ok), (0, .ok), (0, .ok), (0, .ok), (0, .ok), (0, .ok),
       (1, .ok), (1, .ok), (1, .ok), (1, .ok), (1, .ok), (1, .ok), (1, .ok), (1, .ok),
       (0, .ok), (1, .ok)]).map
      fun s => ((s.th 0).pc, (s.th 1).pc, s.config)) =
    some (.done .ok, .readConfig, some (0, 4)) := by rfl


/-! ## Honest server: every lookup succeeds and the head ends at the largest tree seen

`Honest P le Ch presented c0` (Proofs/ClientMoreHonest.lean): `Ch` is the server's one log; the empty tree, the initial
configuration and every presented message lie on it; on it the prefix order is the order of sizes; `checkTrees` answers
`ok` and nothing else on chain heads in size order.  `HReachable`: any interleaving, any number of clients and goroutines,
no configuration operation fails with a non-conflict error.  `Quiescent s`: every goroutine has returned or never started. -/

/-- ★ **With an honest server no goroutine ends in an error state, whatever the interleaving** — the `latestMu` retry
loop, the `ErrWriteConflict` retry loop and the msgPast / msgNow / msgFuture cases included: in every state of every
honest run no goroutine has returned an error or the security error, `SecurityError` was never called, and a goroutine
that has returned has returned success, or `ErrGONOSUMDB` exactly when its path is private. -/
theorem honest_all_succeed (P : Params M T) (le : T → T → Prop) (Ch : T → Prop) (cl : Nat → Nat)
    (presented : Nat → Option M) (priv : Nat → Bool) (c0 : Option M) (hH : Honest P le Ch presented c0)
    (s : St M T) (h : HReachable P cl presented priv c0 s) :
    (∀ t, (s.th t).pc ≠ .done .err ∧ (s.th t).pc ≠ .done .security) ∧ s.sec = [] ∧
    (∀ t x, (s.th t).pc = .done x → (priv t = false → x = .ok) ∧ (priv t = true → x = .gonosumdb)) :=
  honest_all_succeed_inv P le Ch cl presented priv c0 hH s h

/-- ★ **The shared latest tree head ends at the largest tree seen.**  In every TERMINAL state of every honest run:
 * every goroutine that ran returned success (`ErrGONOSUMDB` for private paths);
 * each client's in-memory head is a greatest element (`IsMax`: a member that every member is a prefix of) of what that
   client saw (`ClientSaw`): the empty tree (its initial head), the trees presented to its goroutines, and the
   configuration contents its goroutines read while flushing;
 * the stored head is a greatest element of everything the system saw (`Seen`): the empty tree, the initial
   configuration, every tree presented to any goroutine of any client;
 * the stored head is above every client's in-memory head, and it is the initial content or equivalent to the in-memory
   head of one of the clients (the one that flushed last).
No liveness is claimed for arbitrary schedules (the retry loops end only under fairness); that terminal states exist
from everywhere is `can_finish`. -/
theorem latest_ends_at_max (P : Params M T) (le : T → T → Prop) (Ch : T → Prop) (cl : Nat → Nat)
    (presented : Nat → Option M) (priv : Nat → Bool) (c0 : Option M) (hH : Honest P le Ch presented c0)
    (s : St M T) (h : HReachable P cl presented priv c0 s) (hq : Quiescent s) :
    (∀ t, (s.th t).pc = .entry ∨ (s.th t).pc = .done .ok ∨ (priv t = true ∧ (s.th t).pc = .done .gonosumdb)) ∧
    (∀ c, IsMax le (ClientSaw P cl presented priv s c) (s.latest c)) ∧
    IsMax le (Seen P presented priv c0 s) (cfgTree P s.config) ∧
    (∀ c, le (s.latest c) (cfgTree P s.config)) ∧
    (s.config = c0 ∨ ∃ c, le (cfgTree P s.config) (s.latest c) ∧ le (s.latest c) (cfgTree P s.config)) :=
  latest_ends_at_max_inv P le Ch cl presented priv c0 hH s h hq

/-- **A goroutine scheduled alone returns within 10 steps** from any state of an honest run (every answer `ok`),
without touching the local state of any other goroutine. -/
theorem solo_finishes (P : Params M T) (le : T → T → Prop) (Ch : T → Prop) (cl : Nat → Nat)
    (presented : Nat → Option M) (priv : Nat → Bool) (c0 : Option M) (hH : Honest P le Ch presented c0)
    (s : St M T) (h : HReachable P cl presented priv c0 s) (t : Nat) :
    ∃ k s', k ≤ 10 ∧ run P cl presented priv s (List.replicate k (t, Res.ok)) = some s' ∧
      HReachable P cl presented priv c0 s' ∧ (∃ x, (s'.th t).pc = .done x) ∧ ∀ t', t' ≠ t → s'.th t' = s.th t' :=
  solo_finish P le Ch cl presented priv c0 hH t 10 s h (rank_le cl s t)

/-- **From every state of an honest run a terminal state is reachable** (so `latest_ends_at_max` is not vacuous
anywhere): finish the goroutines that are under way one after the other. -/
theorem can_finish (P : Params M T) (le : T → T → Prop) (Ch : T → Prop) (cl : Nat → Nat)
    (presented : Nat → Option M) (priv : Nat → Bool) (c0 : Option M) (hH : Honest P le Ch presented c0)
    (s : St M T) (h : HReachable P cl presented priv c0 s) :
    ∃ sched s', (∀ x ∈ sched, x.2 = Res.ok) ∧ run P cl presented priv s sched = some s' ∧
      HReachable P cl presented priv c0 s' ∧ Quiescent s' :=
  ClientLatest.can_finish P le Ch cl presented priv c0 hH s h

/-- **Concurrent = sequential, for the heads and the outcomes**: two terminal states of honest runs in which the same
goroutines ran — e.g. an arbitrary interleaving and the sequential run of the same lookups — have every goroutine in
the same final state (same outcome) and equivalent stored heads. -/
theorem concurrent_heads_eq_sequential (P : Params M T) (le : T → T → Prop) (Ch : T → Prop) (cl : Nat → Nat)
    (presented : Nat → Option M) (priv : Nat → Bool) (c0 : Option M) (hH : Honest P le Ch presented c0)
    (s1 s2 : St M T) (h1 : HReachable P cl presented priv c0 s1) (h2 : HReachable P cl presented priv c0 s2)
    (q1 : Quiescent s1) (q2 : Quiescent s2)
    (hsame : ∀ t, (s1.th t).pc = .entry ↔ (s2.th t).pc = .entry) :
    (∀ t, (s1.th t).pc = (s2.th t).pc) ∧
    le (cfgTree P s1.config) (cfgTree P s2.config) ∧ le (cfgTree P s2.config) (cfgTree P s1.config) :=
  terminal_states_agree P le Ch cl presented priv c0 hH s1 s2 h1 h2 q1 q2 hsame

/-! Non-vacuity.  The server that signs only heads of log A is `Honest` (`forkParams_honest`, for every fork point, every
assignment of presented sizes and every initial configuration).  Concrete run: clients 0 and 1 share the
configuration (initially A@2); goroutines 0 and 1 (client 0) are shown A@4 and A@5, goroutine 2 (client 1) is shown A@3,
goroutine 3 is private.  Interleaved schedule with a lost `latestMu` race and write conflicts; every goroutine returns
success and the stored head ends at A@5. -/

def hSizes : Nat → Option Nat := fun t => if t = 0 then some 4 else if t = 1 then some 5 else if t = 2 then some 3 else none
def hCl : Nat → Nat := fun t => if t = 2 then 1 else 0
def hPriv : Nat → Bool := fun t => t = 3
def hPresented : Nat → Option Head := fun t => (hSizes t).map fun n => (0, n)

theorem hHonest : Honest (forkParams 3 false) (fun a b => forkLe 3 a b = true) (fun x => x.1 = 0) hPresented
    ((some 2).map fun n => (0, n)) :=
  forkParams_honest 3 hSizes (some 2)

/-- goroutines 0, 1, 2, 3 interleaved step by step (round robin until each has returned) -/
def hSched : List (Nat × Res) :=
  [0, 1, 2, 3, 0, 1, 2, 0, 1, 2, 0, 1, 2, 0, 1, 2, 0, 1, 2, 0, 1, 2, 0, 1, 2, 0, 1, 2, 0, 1, 2, 1, 2, 1, 2, 1, 2, 1, 2, 1].map
    fun t => (t, Res.ok)

/-- the same lookups one after the other -/
def hSeq : List (Nat × Res) :=
  [0, 0, 0, 0, 0, 0, 0, 0, 0, 0, 1, 1, 1, 1, 1, 1, 1, 1, 1, 1, 2, 2, 2, 2, 2, 2, 2, 2, 2, 3].map fun t => (t, Res.ok)

/-- what the non-vacuity examples need of a complete schedule of goroutines 0–3 -/
theorem hTerminal (sched : List (Nat × Res)) (hok : ∀ x ∈ sched, x.2 = Res.ok)
    (hth : ∀ x ∈ sched, x.1 = 0 ∨ x.1 = 1 ∨ x.1 = 2 ∨ x.1 = 3) (s : St Head Head)
    (hr : run (forkParams 3 false) hCl hPresented hPriv (init (forkParams 3 false) (some (0, 2))) sched = some s)
    (hd : ∃ x0 x1 x2 x3, (s.th 0).pc = .done x0 ∧ (s.th 1).pc = .done x1 ∧ (s.th 2).pc = .done x2 ∧ (s.th 3).pc = .done x3) :
    HReachable (forkParams 3 false) hCl hPresented hPriv (some (0, 2)) s ∧ Quiescent s ∧
    ∀ t, (s.th t).pc = .entry ↔ (t ≠ 0 ∧ t ≠ 1 ∧ t ≠ 2 ∧ t ≠ 3) := by
  obtain ⟨x0, x1, x2, x3, h0, h1, h2, h3⟩ := hd
  refine ⟨hreachable_run_ok _ _ _ _ _ sched _ s hok HReachable.init hr, ?_, fun t => ⟨fun he => ?_, fun hne => ?_⟩⟩
  · apply quiescent_of_run _ _ _ _ _ sched s hr
    intro x hx
    rcases hth x hx with e | e | e | e <;> rw [e]
    · exact ⟨_, h0⟩
    · exact ⟨_, h1⟩
    · exact ⟨_, h2⟩
    · exact ⟨_, h3⟩
  · refine ⟨?_, ?_, ?_, ?_⟩ <;> intro e <;> subst e <;> simp_all
  · apply entry_of_run _ _ _ _ _ sched s hr
    intro x hx e
    rcases hth x hx with e' | e' | e' | e' <;> omega

/-- a terminal state of an honest run exists in which goroutines of two clients raced: every goroutine returned
success (goroutine 3: `ErrGONOSUMDB`), and the stored head and both in-memory heads are A@5, the largest tree presented -/
theorem hSched_terminal : ∃ s, run (forkParams 3 false) hCl hPresented hPriv (init (forkParams 3 false) (some (0, 2))) hSched = some s ∧
    HReachable (forkParams 3 false) hCl hPresented hPriv (some (0, 2)) s ∧ Quiescent s ∧
    (∀ t, (s.th t).pc = .entry ↔ (t ≠ 0 ∧ t ≠ 1 ∧ t ≠ 2 ∧ t ≠ 3)) ∧
    s.config = some (0, 5) ∧ s.latest 0 = (0, 5) ∧ s.latest 1 = (0, 5) ∧ (s.th 3).pc = .done .gonosumdb := by
  obtain ⟨s, hs⟩ : ∃ s, run (forkParams 3 false) hCl hPresented hPriv (init (forkParams 3 false) (some (0, 2))) hSched = some s :=
    Option.isSome_iff_exists.mp (by decide)
  have key : ((run (forkParams 3 false) hCl hPresented hPriv (init (forkParams 3 false) (some (0, 2))) hSched).map fun s =>
      ((s.th 0).pc, (s.th 1).pc, (s.th 2).pc, (s.th 3).pc, s.config, s.latest 0, s.latest 1)) =
      some (.done .ok, .done .ok, .done .ok, .done .gonosumdb, some (0, 5), (0, 5), (0, 5)) := by rfl
  rw [hs] at key
  simp only [Option.map_some, Option.some.injEq, Prod.mk.injEq] at key
  obtain ⟨k0, k1, k2, k3, k4, k5, k6⟩ := key
  obtain ⟨a, b, c⟩ := hTerminal hSched (by decide) (by decide) s hs ⟨_, _, _, _, k0, k1, k2, k3⟩
  exact ⟨s, hs, a, b, c, k4, k5, k6, k3⟩

/-- … and the sequential run of the same lookups ends in a terminal state with the same outcomes and the same heads
(an instance of `concurrent_heads_eq_sequential`, here by evaluation) -/
theorem hSeq_terminal : ∃ s, run (forkParams 3 false) hCl hPresented hPriv (init (forkParams 3 false) (some (0, 2))) hSeq = some s ∧
    HReachable (forkParams 3 false) hCl hPresented hPriv (some (0, 2)) s ∧ Quiescent s ∧
    (∀ t, (s.th t).pc = .entry ↔ (t ≠ 0 ∧ t ≠ 1 ∧ t ≠ 2 ∧ t ≠ 3)) ∧
    s.config = some (0, 5) ∧ s.latest 0 = (0, 5) ∧ s.latest 1 = (0, 5) ∧ (s.th 3).pc = .done .gonosumdb := by
  obtain ⟨s, hs⟩ : ∃ s, run (forkParams 3 false) hCl hPresented hPriv (init (forkParams 3 false) (some (0, 2))) hSeq = some s :=
    Option.isSome_iff_exists.mp (by decide)
  have key : ((run (forkParams 3 false) hCl hPresented hPriv (init (forkParams 3 false) (some (0, 2))) hSeq).map fun s =>
      ((s.th 0).pc, (s.th 1).pc, (s.th 2).pc, (s.th 3).pc, s.config, s.latest 0, s.latest 1)) =
      some (.done .ok, .done .ok, .done .ok, .done .gonosumdb, some (0, 5), (0, 5), (0, 5)) := by rfl
  rw [hs] at key
  simp only [Option.map_some, Option.some.injEq, Prod.mk.injEq] at key
  obtain ⟨k0, k1, k2, k3, k4, k5, k6⟩ := key
  obtain ⟨a, b, c⟩ := hTerminal hSeq (by decide) (by decide) s hs ⟨_, _, _, _, k0, k1, k2, k3⟩
  exact ⟨s, hs, a, b, c, k4, k5, k6, k3⟩

/-- the hypotheses of `concurrent_heads_eq_sequential` are satisfied by the two runs above -/
example : ∃ s1 s2, HReachable (forkParams 3 false) hCl hPresented hPriv (some (0, 2)) s1 ∧
    HReachable (forkParams 3 false) hCl hPresented hPriv (some (0, 2)) s2 ∧ Quiescent s1 ∧ Quiescent s2 ∧
    (∀ t, (s1.th t).pc = .entry ↔ (s2.th t).pc = .entry) ∧ s1.config = some (0, 5) := by
  obtain ⟨s1, _, a1, b1, c1, d1, _⟩ := hSched_terminal
  obtain ⟨s2, _, a2, b2, c2, _⟩ := hSeq_terminal
  exact ⟨s1, s2, a1, a2, b1, b2, fun t => (c1 t).trans (c2 t).symm, d1⟩

end

/-! ## Each distinct lookup is fetched at most once per client (record cache and tile cache) -/

section
open ModVerif.ClientFetch

/-- ★ **Each distinct lookup is fetched from cache or network at most once per client, and all callers get that
fetch's result.**  `Client.Lookup(path, vers)` calls `c.record.Do(file, f)` with `file = lookupFile name path vers`
(`c.name + "/lookup/" + EscapePath(path) + "@" + EscapeVersion(TrimSuffix(vers, "/go.mod"))`; `none` = the request is
rejected before `Do`), and `f` is the only place where `ReadCache(file)` / `ReadRemote` happen.  For the `parCache`
machine with these keys, any number of callers of one client, every interleaving:
 * `f` has run at most once for every key, i.e. at most once per distinct cache file;
 * a caller that has returned got the result of the one run for its file;
 * two callers whose requests have the same cache file got the same result.
Which requests have the same file: `fetch_key_eq_iff` (same path byte for byte, same version up to the `/go.mod`
suffix), `fetch_key_gomod`. -/
theorem fetch_once {V : Type} (isLetter : Nat → Bool) (name : Bytes) (path vers : Nat → Bytes) (fval : Nat → V)
    (s : St V) (h : Reachable (fun i => lookupKey isLetter name (path i) (vers i)) fval s) :
    (∀ k, s.runs k ≤ 1) ∧
    (∀ i, s.pc i = .returned →
      s.runs (lookupKey isLetter name (path i) (vers i)) = 1 ∧
      (s.ran (lookupKey isLetter name (path i) (vers i))).isSome = true ∧
      s.got i = s.ran (lookupKey isLetter name (path i) (vers i))) ∧
    (∀ i j, s.pc i = .returned → s.pc j = .returned →
      lookupFile isLetter name (path i) (vers i) = lookupFile isLetter name (path j) (vers j) → s.got i = s.got j) :=
  fetch_once_inv isLetter name path vers fval s h

/-- **`lookupFile` IS the key `Lookup` uses**: the sequential client model's `Client.lookup` (Model/Client.lean) rejects
the request with the escape error iff `lookupFile` is `none`; otherwise it consults the record cache under
`lookupFile`, and on a miss runs `lookupWork` — the only function that reads the lookup file from cache or network —
with that file, storing its result (error or data) under that key. -/
theorem lookup_uses_fetch_key {σ H : Type} [DecidableEq H] (P : Client.Params H) (E : Client.Env σ)
    (w : Client.World σ H) (path vers : Bytes) :
    Client.lookup P E w path vers =
      if Module.matchPrefixPatterns P.glob P.nosumdb path then ((.error .gonosumdb, w) : Except Client.Err (List Bytes) × Client.World σ H) else
      let w := Client.init P E w
      match w.c.inited with
      | some (some e) => (.error e, w)
      | _ =>
        match lookupFile P.isLetter w.c.name path vers with
        | none => (.error .escape, w)
        | some file =>
          let res : Except Client.Err Bytes × Client.World σ H :=
            match w.c.record.lookup file with
            | some r => (r, w)
            | none =>
              let r := Client.lookupWork P E w file (file.drop w.c.name.length)
              (r.1, { r.2 with c := { r.2.c with record := (file, r.1) :: r.2.c.record } })
          match res.1 with
          | .error e => (.error e, res.2)
          | .ok data => (.ok (Client.filterLines (path ++ [32] ++ vers ++ [32]) data), res.2) :=
  lookup_eq_via_lookupFile P E w path vers

/-- **Which requests share one fetch**: two accepted requests have the same cache file — equivalently the same
`parCache` key — iff they name the same module path, byte for byte (`Foo` and `foo` are different modules, escaped `!foo`
and `foo`: the upper-case path has its own key), and the same version once a `/go.mod` suffix is stripped. -/
theorem fetch_key_eq_iff (isLetter : Nat → Bool) (name p v q w f g : Bytes)
    (hf : lookupFile isLetter name p v = some f) (hg : lookupFile isLetter name q w = some g) :
    (lookupKey isLetter name p v = lookupKey isLetter name q w ↔ f = g) ∧
    (f = g ↔ p = q ∧ trimGoMod v = trimGoMod w) :=
  ⟨lookupKey_eq_iff isLetter name p v q w f g hf hg, lookupFile_eq_iff isLetter name p v q w f g hf hg⟩

/-- **`v` and `v/go.mod` share one key** (one fetch serves the module hash and the go.mod hash), for every path and
every `v` that does not itself end in `/go.mod`. -/
theorem fetch_key_gomod (isLetter : Nat → Bool) (name path v : Bytes) (h : hasSuffixB v (B "/go.mod") = false) :
    lookupFile isLetter name path (v ++ B "/go.mod") = lookupFile isLetter name path v ∧
    lookupKey isLetter name path (v ++ B "/go.mod") = lookupKey isLetter name path v := by
  have e := lookupFile_gomod isLetter name path v h
  exact ⟨e, by simp only [lookupKey, e]⟩

/-- **The tile cache** (`c.tileCache.Do(tile, …)`, keyed by the `tlog.Tile` value; `tileKey` numbers tiles
injectively): each tile is read from cache or network at most once per client, and callers asking for the same tile get
the same bytes. -/
theorem tile_fetch_once {V : Type} (tile : Nat → Tile.Tile) (fval : Nat → V) (s : St V)
    (h : Reachable (fun i => tileKey (tile i)) fval s) :
    (∀ t, s.runs (tileKey t) ≤ 1) ∧
    (∀ i, s.pc i = .returned → s.runs (tileKey (tile i)) = 1 ∧ s.got i = s.ran (tileKey (tile i)) ∧ (s.got i).isSome = true) ∧
    (∀ i j, s.pc i = .returned → s.pc j = .returned → (tile i = tile j ↔ tileKey (tile i) = tileKey (tile j)) ∧
      (tile i = tile j → s.got i = s.got j)) :=
  once_per_key tileKey tileKey_inj tile fval s h

/-- ★ **Concurrent = sequential, for the results**: with an honest server the result of the fetch depends only on the
key (`fval i = F (key i)`: the server's record for that module and version); then every caller that has returned holds
`F` of its key, in every interleaving — so any two interleavings, in particular a concurrent one and the sequential
one, return the same result to every caller that returned in both (equal maps caller ↦ result, hence equal multisets
of (key, result) pairs).  The outcome and head side is `concurrent_heads_eq_sequential`. -/
theorem concurrent_results_eq_sequential {V : Type} (key : Nat → Nat) (F : Nat → V) (fval : Nat → V)
    (hF : ∀ i, fval i = F (key i)) (s1 s2 : St V) (h1 : Reachable key fval s1) (h2 : Reachable key fval s2) :
    (∀ i, s1.pc i = .returned → s1.got i = some (F (key i))) ∧
    (∀ i, s1.pc i = .returned → s2.pc i = .returned → s1.got i = s2.got i) :=
  ⟨fun i hi => results_deterministic key F fval hF s1 h1 i hi,
   fun i hi1 hi2 => results_eq_any_two key F fval hF s1 s2 h1 h2 i hi1 hi2⟩

/-! Non-vacuity: the keys of real requests.  The upper-case path is escaped; the `/go.mod` spelling shares the file. -/

example : lookupFile (fun _ => false) (B "sum.golang.org") (B "github.com/Foo/bar") (B "v1.2.3/go.mod") =
    some (B "sum.golang.org/lookup/github.com/!foo/bar@v1.2.3") := by decide +kernel

example : lookupFile (fun _ => false) (B "sum.golang.org") (B "github.com/Foo/bar") (B "v1.2.3") =
    some (B "sum.golang.org/lookup/github.com/!foo/bar@v1.2.3") := by decide +kernel

example : lookupFile (fun _ => false) (B "sum.golang.org") (B "github.com/foo/bar") (B "v1.2.3") =
    some (B "sum.golang.org/lookup/github.com/foo/bar@v1.2.3") := by decide +kernel

example : hasSuffixB (B "v1.2.3") (B "/go.mod") = false := by decide +kernel

/-- the contended schedule of `exSched`, now with the client's keys: callers 0 and 1 ask for `v1.2.3` and
`v1.2.3/go.mod` of one module (one key, one fetch, both get caller 0's result), caller 2 for the lower-case path. -/
def fxPath : Nat → Bytes := fun i => if i = 2 then B "github.com/foo/bar" else B "github.com/Foo/bar"
def fxVers : Nat → Bytes := fun i => if i = 1 then B "v1.2.3/go.mod" else B "v1.2.3"

example : ((run (fun i => lookupKey (fun _ => false) (B "s") (fxPath i) (fxVers i)) exVal (init Nat) exSched).map
    (fun s => (s.got 0, s.got 1, s.got 2, s.pc 0, s.pc 1, s.pc 2))) =
    some (some 10, some 10, some 12, .returned, .returned, .returned) := by decide +kernel

/-- honest fetch results (`fval i = F (key i)`) -/
example : ∀ i, (fun i => 100 + exKey i) i = (fun k => 100 + k) (exKey i) := fun _ => rfl

end

end ModVerif.Props.C14
