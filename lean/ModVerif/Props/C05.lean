/-
  C05 — a created module zip always extracts to exactly the files that belong in it.
  Property theorems only; helper lemmas live in ModVerif/Proofs/Zip*.lean.  All theorems hold for every
  environment `E` (CheckFilePath, strToFold, module check are parameters of the model).
-/
import ModVerif.Spec.ZipSpec
import ModVerif.Proofs.ZipCreate
import ModVerif.Proofs.ZipNameOK
import ModVerif.Proofs.ZipSubmodule
namespace ModVerif.Props.C05
open ModVerif ModVerif.PathClean ModVerif.Zip ModVerif.ZipSpec ModVerif.Proofs.Zip

/-- Given a valid module path with a matching canonical version and files whose content has the size
    they report, creation succeeds exactly when the file check reports no error — PARTIAL: under the
    extra hypothesis that every valid file's entry name `<module>@<version>/<path>` is at most 65535
    bytes long (the archive/zip limit).  Without it the statement is false, see
    `C05_violated_long_name`. -/
theorem create_ok_iff_partial (E : Env) (mpath mvers : Bytes) (files : List FileInfo)
    (hm : E.modOK mpath mvers = true) (hh : HonestFiles files)
    (hlen : ∀ p ∈ (checkFilesV E files).valid, (zipPrefix mpath mvers ++ p).length ≤ 65535) :
    (∃ es, create E mpath mvers files = .ok es) ↔ (checkFilesV E files).err = none := by
  constructor
  · rintro ⟨es, h⟩; exact (create_ok E mpath mvers files es h).2.1
  · intro herr
    obtain ⟨hv1, hv2⟩ := checkFilesSt_validFiles E (goVers files) files
    refine ⟨(checkFilesSt E files (goVers files)).validFiles.map (entryOf (zipPrefix mpath mvers)), ?_⟩
    rw [create_eq]
    simp only [hm, Bool.not_true, Bool.false_eq_true, if_false]
    have herr' : (checkFilesSt E files (goVers files)).cf.err = none := herr
    rw [herr']
    apply addFiles_of_addable
    intro f hf
    refine ⟨?_, ?_⟩
    · apply hlen
      show f.path ∈ (checkFilesSt E files (goVers files)).cf.valid
      rw [hv2]; exact List.mem_map_of_mem (f := fun x : FileInfo => x.path) hf
    · have := hh f (hv1 f hf).1 (hv1 f hf).2
      omega

/-- When creation succeeds, the module was accepted, the file check reported no error, and the
    archive holds exactly the files reported as valid, in that order, each under the module prefix
    and with the content the file yields (so: the same files with the same content, byte for byte). -/
theorem create_entries (E : Env) (mpath mvers : Bytes) (files : List FileInfo) (es : List Entry)
    (h : create E mpath mvers files = .ok es) :
    E.modOK mpath mvers = true ∧ (checkFilesV E files).err = none ∧
    es.map (·.name) = (checkFilesV E files).valid.map (zipPrefix mpath mvers ++ ·) ∧
    (∀ e ∈ es, e.declSize = e.content.length) ∧
    (∀ e ∈ es, ∃ f ∈ files, f.mode = .regular ∧ e.name = zipPrefix mpath mvers ++ f.path ∧ e.content = f.content) := by
  obtain ⟨h1, h2, h3, _⟩ := create_ok E mpath mvers files es h
  obtain ⟨hv1, hv2⟩ := checkFilesSt_validFiles E (goVers files) files
  refine ⟨h1, h2, ?_, ?_, ?_⟩
  · show _ = (checkFilesSt E files (goVers files)).cf.valid.map _
    rw [h3, hv2]; simp [entryOf, Function.comp_def]
  · intro e he; rw [h3] at he
    obtain ⟨f, _, rfl⟩ := List.mem_map.mp he; rfl
  · intro e he; rw [h3] at he
    obtain ⟨f, hf, rfl⟩ := List.mem_map.mp he
    exact ⟨f, (hv1 f hf).1, (hv1 f hf).2, rfl, rfl⟩


/-- Every produced archive obeys the documented restrictions: each entry name is the module prefix
    followed by a clean, relative path that `CheckFilePath` accepts; an entry whose last path element is
    `go.mod` in any case is the root `go.mod` (go.mod only at the root, in lower case); `go.mod` and
    `LICENSE` respect their size limits; and no two
    entries have the same case-folded path (`toFold a = toFold b ↔ EqualFold a b` is the contract of
    `strToFold`). -/
theorem create_restrictions (E : Env) (mpath mvers : Bytes) (files : List FileInfo) (es : List Entry)
    (h : create E mpath mvers files = .ok es) :
    (∀ e ∈ es, ∃ rel, e.name = zipPrefix mpath mvers ++ rel ∧
        pathClean rel = rel ∧ isAbs rel = false ∧ E.cfp rel = true ∧
        (equalFoldGoMod (lastElem rel) = true → rel = goModName) ∧
        (rel = goModName → e.content.length ≤ MaxGoMod) ∧
        (rel = licenseName → e.content.length ≤ MaxLICENSE)) ∧
    es.Pairwise (fun a b => E.toFold (relName (zipPrefix mpath mvers) a) ≠ E.toFold (relName (zipPrefix mpath mvers) b)) := by
  obtain ⟨_, _, h3, h4⟩ := create_ok E mpath mvers files es h
  have hinv := checkFilesSt_validInv E (goVers files) files
  obtain ⟨hv1, _⟩ := checkFilesSt_validFiles E (goVers files) files
  refine ⟨?_, ?_⟩
  · intro e he
    rw [h3] at he
    obtain ⟨f, hf, rfl⟩ := List.mem_map.mp he
    have ok := hinv.nameOK f hf
    have hadd := (h4 f hf).2
    refine ⟨f.path, rfl, ok.clean, ok.notAbs, ok.cfp,
      valid_goMod_is_root E (goVers files) files f (hv1 f hf).1 ok, ?_, ?_⟩
    · intro hp; have := ok.goModSize hp
      show f.content.length ≤ MaxGoMod
      omega
    · intro hp; have := ok.licenseSize hp
      show f.content.length ≤ MaxLICENSE
      omega
  · rw [h3, List.pairwise_map]
    refine hinv.foldDistinct.imp ?_
    intro a b hab
    simpa [relName, entryOf] using hab


/-! ### non-vacuity: a small module is created, and its entries are as the theorems say -/

/-- a tiny environment for examples: every non-empty path is acceptable, folding is ASCII lower-casing -/
def exEnv : Env := { cfp := fun p => !p.isEmpty, toFold := lowerAscii, modOK := fun _ _ => true }

def exFiles : List FileInfo :=
  [⟨B "go.mod", .regular, 2, B "hi", false⟩, ⟨B "a/b.go", .regular, 1, B "x", false⟩,
   ⟨B "sub/go.mod", .regular, 0, [], false⟩, ⟨B "sub/c.go", .regular, 1, B "y", false⟩,
   ⟨B "vendor/p/q.go", .regular, 1, B "z", false⟩, ⟨B "link", .symlink, 0, [], false⟩]

example : (create exEnv (B "m") (B "v1") exFiles).toOption =
    some [⟨B "m@v1/go.mod", 2, B "hi"⟩, ⟨B "m@v1/a/b.go", 1, B "x"⟩] := by decide +kernel

example : (checkFilesV exEnv exFiles).err = none ∧ HonestFiles exFiles := by
  refine ⟨by decide +kernel, ?_⟩
  intro f hf _
  simp [exFiles] at hf
  rcases hf with rfl | rfl | rfl | rfl | rfl | rfl <;> decide +kernel

end ModVerif.Props.C05
