/-
  C05 — a created module zip always extracts to exactly the files that belong in it.
  Property theorems only; helper lemmas live in ModVerif/Proofs/Zip*.lean.  All theorems hold for every
  environment `E` (CheckFilePath, strToFold, module check are parameters of the model).
-/
import ModVerif.Spec.ZipSpec
import ModVerif.Proofs.ZipCreate
import ModVerif.Proofs.ZipNameOK
import ModVerif.Proofs.ZipSubmodule
import ModVerif.Proofs.ZipACreate
import ModVerif.Proofs.ZipAUnzip
import ModVerif.Proofs.ZipAWitness
namespace ModVerif.Props.C05
open ModVerif ModVerif.PathClean ModVerif.Zip ModVerif.ZipSpec ModVerif.Proofs.Zip

/-- Given a valid module path with a matching canonical version and files whose content has the size
    they report, creation succeeds exactly when the file check reports no error — PARTIAL: under the
    extra hypothesis that every valid file's entry name `<module>@<version>/<path>` is at most 65535
    bytes long (the archive/zip limit).  Without it the statement is false, see
    `C05_violated_long_name`. -/
theorem create_ok_iff_partial (E : Env) (mpath mvers : Bytes) (files : List FileInfo)
    (hm : E.modOK mpath mvers = true) (hh : HonestFiles files)
    (hlen : ∀ p ∈ (checkFilesV E files).valid, (zipPrefix mpath mvers ++ p).length ≤ 65535) :
    (∃ es, create E mpath mvers files = .ok es) ↔ (checkFilesV E files).err = none := by
  constructor
  · rintro ⟨es, h⟩; exact (create_ok E mpath mvers files es h).2.1
  · intro herr
    obtain ⟨hv1, hv2⟩ := checkFilesSt_validFiles E (goVers files) files
    refine ⟨(checkFilesSt E files (goVers files)).validFiles.map (entryOf (zipPrefix mpath mvers)), ?_⟩
    rw [create_eq]
    simp only [hm, Bool.not_true, Bool.false_eq_true, if_false]
    have herr' : (checkFilesSt E files (goVers files)).cf.err = none := herr
    rw [herr']
    apply addFiles_of_addable
    intro f hf
    refine ⟨?_, ?_⟩
    · apply hlen
      show f.path ∈ (checkFilesSt E files (goVers files)).cf.valid
      rw [hv2]; exact List.mem_map_of_mem (f := fun x : FileInfo => x.path) hf
    · have := hh f (hv1 f hf).1 (hv1 f hf).2
      omega

/-- When creation succeeds, the module was accepted, the file check reported no error, and the
    archive holds exactly the files reported as valid, in that order, each under the module prefix
    and with the content the file yields (so: the same files with the same content, byte for byte). -/
theorem create_entries (E : Env) (mpath mvers : Bytes) (files : List FileInfo) (es : List Entry)
    (h : create E mpath mvers files = .ok es) :
    E.modOK mpath mvers = true ∧ (checkFilesV E files).err = none ∧
    es.map (·.name) = (checkFilesV E files).valid.map (zipPrefix mpath mvers ++ ·) ∧
    (∀ e ∈ es, e.declSize = e.content.length) ∧
    (∀ e ∈ es, ∃ f ∈ files, f.mode = .regular ∧ e.name = zipPrefix mpath mvers ++ f.path ∧ e.content = f.content) := by
  obtain ⟨h1, h2, h3, _⟩ := create_ok E mpath mvers files es h
  obtain ⟨hv1, hv2⟩ := checkFilesSt_validFiles E (goVers files) files
  refine ⟨h1, h2, ?_, ?_, ?_⟩
  · show _ = (checkFilesSt E files (goVers files)).cf.valid.map _
    rw [h3, hv2]; simp [entryOf, Function.comp_def]
  · intro e he; rw [h3] at he
    obtain ⟨f, _, rfl⟩ := List.mem_map.mp he; rfl
  · intro e he; rw [h3] at he
    obtain ⟨f, hf, rfl⟩ := List.mem_map.mp he
    exact ⟨f, (hv1 f hf).1, (hv1 f hf).2, rfl, rfl⟩


/-- Every produced archive obeys the documented restrictions: each entry name is the module prefix
    followed by a clean, relative path that `CheckFilePath` accepts; an entry whose last path element is
    `go.mod` in any case is the root `go.mod` (go.mod only at the root, in lower case); `go.mod` and
    `LICENSE` respect their size limits; and no two
    entries have the same case-folded path (`toFold a = toFold b ↔ EqualFold a b` is the contract of
    `strToFold`). -/
theorem create_restrictions (E : Env) (mpath mvers : Bytes) (files : List FileInfo) (es : List Entry)
    (h : create E mpath mvers files = .ok es) :
    (∀ e ∈ es, ∃ rel, e.name = zipPrefix mpath mvers ++ rel ∧
        pathClean rel = rel ∧ isAbs rel = false ∧ E.cfp rel = true ∧
        (equalFoldGoMod (lastElem rel) = true → rel = goModName) ∧
        (rel = goModName → e.content.length ≤ MaxGoMod) ∧
        (rel = licenseName → e.content.length ≤ MaxLICENSE)) ∧
    es.Pairwise (fun a b => E.toFold (relName (zipPrefix mpath mvers) a) ≠ E.toFold (relName (zipPrefix mpath mvers) b)) := by
  obtain ⟨_, _, h3, h4⟩ := create_ok E mpath mvers files es h
  have hinv := checkFilesSt_validInv E (goVers files) files
  obtain ⟨hv1, _⟩ := checkFilesSt_validFiles E (goVers files) files
  refine ⟨?_, ?_⟩
  · intro e he
    rw [h3] at he
    obtain ⟨f, hf, rfl⟩ := List.mem_map.mp he
    have ok := hinv.nameOK f hf
    have hadd := (h4 f hf).2
    refine ⟨f.path, rfl, ok.clean, ok.notAbs, ok.cfp,
      valid_goMod_is_root E (goVers files) files f (hv1 f hf).1 ok, ?_, ?_⟩
    · intro hp; have := ok.goModSize hp
      show f.content.length ≤ MaxGoMod
      omega
    · intro hp; have := ok.licenseSize hp
      show f.content.length ≤ MaxLICENSE
      omega
  · rw [h3, List.pairwise_map]
    refine hinv.foldDistinct.imp ?_
    intro a b hab
    simpa [relName, entryOf] using hab


/-! ### non-vacuity: a small module is created, and its entries are as the theorems say -/

/-- a tiny environment for examples: every non-empty path is acceptable, folding is ASCII lower-casing -/
def exEnv : Env := { cfp := fun p => !p.isEmpty, toFold := lowerAscii, modOK := fun _ _ => true }

def exFiles : List FileInfo :=
  [⟨B "go.mod", .regular, 2, B "hi", false⟩, ⟨B "a/b.go", .regular, 1, B "x", false⟩,
   ⟨B "sub/go.mod", .regular, 0, [], false⟩, ⟨B "sub/c.go", .regular, 1, B "y", false⟩,
   ⟨B "vendor/p/q.go", .regular, 1, B "z", false⟩, ⟨B "link", .symlink, 0, [], false⟩]

example : (create exEnv (B "m") (B "v1") exFiles).toOption =
    some [⟨B "m@v1/go.mod", 2, B "hi"⟩, ⟨B "m@v1/a/b.go", 1, B "x"⟩] := by decide +kernel

example : (checkFilesV exEnv exFiles).err = none ∧ HonestFiles exFiles := by
  refine ⟨by decide +kernel, ?_⟩
  intro f hf _
  simp [exFiles] at hf
  rcases hf with rfl | rfl | rfl | rfl | rfl | rfl <;> decide +kernel


/-! ### the produced archive passes the zip check and extracts to exactly the valid files -/

/-- Whenever creating a module zip from a list of files succeeds, the archive passes the zip check with
    no invalid entries and no size error (`zipSize` = size of the archive file, within the limit), and
    the check's valid list is the list of entry names. -/
theorem create_checkZip (E : Env) (mpath mvers : Bytes) (files : List FileInfo) (es : List Entry) (zipSize : Nat)
    (h : create E mpath mvers files = .ok es) (hz : zipSize ≤ MaxZipFile) :
    ∃ cf, checkZip E mpath mvers zipSize es = .ok cf ∧ cf.invalid = [] ∧ cf.sizeError = false ∧
      cf.valid = es.map (·.name) ∧ cf.err = none :=
  Proofs.ZipA.create_checkZip E mpath mvers files es zipSize h hz

/-- … and it extracts without error into a missing or empty target directory; the effects are the
    creation of the target and then, for every entry in order, `MkdirAll(Dir(dst))` and the exclusive
    creation of `dst = Join(dir, path)` with the entry's complete content; the created files are these
    destinations, pairwise distinct — with `create_entries`: exactly the files reported as valid by the
    file check, byte for byte, and nothing else.  Hypotheses as for the C12 theorem `unzip_ok_iff_partial`
    it instantiates: `CheckFilePath` rejects empty, `.` and `..` elements, and the target directory string
    is empty, clean, or written without `..` (for `dir = x/y/../..` extraction of a file `x` fails on the
    real implementation, too). -/
theorem create_unzip (E : Env) (hE : CfpSound E.cfp) (dir : Bytes)
    (hdir : dir = [] ∨ pathClean dir = dir ∨ ([46, 46] : Bytes) ∉ splitOn 47 dir) (t : Target)
    (ht : t = .missing ∨ t = .emptyDir) (mpath mvers : Bytes) (files : List FileInfo) (es : List Entry)
    (zipSize : Nat) (h : create E mpath mvers files = .ok es) (hz : zipSize ≤ MaxZipFile) :
    (unzip E dir t mpath mvers zipSize es).err = none ∧
    (unzip E dir t mpath mvers zipSize es).effects =
      .mkdirAll dir :: es.flatMap (fun e =>
        [.mkdirAll (pathDir (dstOf dir (zipPrefix mpath mvers) e)),
         .createExcl (dstOf dir (zipPrefix mpath mvers) e) (some e.content)]) ∧
    createdFiles (unzip E dir t mpath mvers zipSize es).effects = es.map (dstOf dir (zipPrefix mpath mvers)) ∧
    (es.map (dstOf dir (zipPrefix mpath mvers))).Nodup :=
  Proofs.ZipA.create_unzip E hE dir hdir t ht mpath mvers files es zipSize h hz

/-- **Known finding (entry names longer than 65535 bytes).**  For the module `example.com/m@v1.0.0` and
    the single regular file whose path is 65515 × `a` (content `x`, honest size): the module is accepted,
    the file check reports no error — and creation fails, because the entry name
    `example.com/m@v1.0.0/aaa…` is 65536 bytes long and archive/zip refuses it.  So `create_ok_iff_partial`
    without its hypothesis on the name length is false.  (Structured proof, `create_nameTooLong`: nothing
    is evaluated over the 65 kB path.) -/
theorem C05_violated_long_name :
    exEnv.modOK (B "example.com/m") (B "v1.0.0") = true ∧
    HonestFiles [⟨List.replicate 65515 97, .regular, 1, [120], false⟩] ∧
    (checkFilesV exEnv [⟨List.replicate 65515 97, .regular, 1, [120], false⟩]).err = none ∧
    create exEnv (B "example.com/m") (B "v1.0.0") [⟨List.replicate 65515 97, .regular, 1, [120], false⟩] =
      .error .nameTooLong := by
  have hns : (47 : UInt8) ∉ List.replicate 65515 (97 : UInt8) := by
    intro h; have := (List.mem_replicate.mp h).2; exact absurd this (by decide)
  have hlen : 20 < (List.replicate 65515 (97 : UInt8)).length := by rw [List.length_replicate]; decide
  have hv : isPrefixOfB vendorSlash (List.replicate 65515 (97 : UInt8)) = false := by
    show isPrefixOfB vendorSlash (List.replicate (65514 + 1) (97 : UInt8)) = false
    rw [List.replicate_succ]; rfl
  have hcfp : exEnv.cfp (List.replicate 65515 (97 : UInt8)) = true := by
    show (!(List.replicate (65514 + 1) (97 : UInt8)).isEmpty) = true
    rw [List.replicate_succ]; rfl
  have h1 : (B "example.com/m").length = 13 := by decide +kernel
  have h2 : (B "v1.0.0").length = 6 := by decide +kernel
  have hlong : (zipPrefix (B "example.com/m") (B "v1.0.0") ++ List.replicate 65515 (97 : UInt8)).length > 65535 := by
    simp only [zipPrefix, List.length_append, List.length_replicate, h1, h2, List.length_cons, List.length_nil]
    decide
  obtain ⟨a1, _, a3, a4⟩ := Proofs.ZipA.create_nameTooLong exEnv (B "example.com/m") (B "v1.0.0")
    (List.replicate 65515 97) [120] rfl hns hlen hv hcfp (by unfold MaxZipFile; simp) hlong
  exact ⟨rfl, a3, a1, a4⟩

/-! ### non-vacuity of the composition theorems -/

/-- an environment whose `CheckFilePath` rejects empty, `.` and `..` elements -/
def exEnvSound : Env :=
  { cfp := fun p => !p.isEmpty && (splitOn 47 p).all (fun c => c != [] && c != [46] && c != [46, 46]),
    toFold := lowerAscii, modOK := fun _ _ => true }

theorem exEnvSound_cfpSound : CfpSound exEnvSound.cfp := by
  intro p hp c hc
  simp only [exEnvSound, Bool.and_eq_true, List.all_eq_true] at hp
  have := hp.2 c hc
  simp at this
  exact ⟨this.1.1, this.1.2, this.2⟩

/-- the hypotheses of `create_checkZip` / `create_unzip` hold on the example, and the conclusion is what
    evaluation gives: two files, created below the clean target `t` -/
example : ∃ es, create exEnvSound (B "m") (B "v1") exFiles = .ok es ∧
    (unzip exEnvSound (B "t") .missing (B "m") (B "v1") 100 es).err = none ∧
    createdFiles (unzip exEnvSound (B "t") .missing (B "m") (B "v1") 100 es).effects = [B "t/go.mod", B "t/a/b.go"] := by
  have hc : (create exEnvSound (B "m") (B "v1") exFiles).toOption =
      some [⟨B "m@v1/go.mod", 2, B "hi"⟩, ⟨B "m@v1/a/b.go", 1, B "x"⟩] := by decide +kernel
  cases hcr : create exEnvSound (B "m") (B "v1") exFiles with
  | error e => rw [hcr] at hc; cases hc
  | ok es =>
    rw [hcr] at hc
    have hes : es = [⟨B "m@v1/go.mod", 2, B "hi"⟩, ⟨B "m@v1/a/b.go", 1, B "x"⟩] := by
      simpa [Except.toOption] using hc
    obtain ⟨u1, _, u3, _⟩ := create_unzip exEnvSound exEnvSound_cfpSound (B "t") (Or.inr (Or.inl (by decide +kernel)))
      .missing (Or.inl rfl) (B "m") (B "v1") exFiles es 100 hcr (by decide)
    refine ⟨es, rfl, u1, ?_⟩
    rw [u3, hes]
    decide +kernel

end ModVerif.Props.C05
