/-
  C03 — Merkle inclusion and consistency proofs are complete and sound (RFC 6962).
  Property theorems only; helpers in Proofs/TlogBasic.lean, Proofs/TlogTH.lean.
  Property theorems only; helpers also in Proofs/TlogCheck.lean, Proofs/TlogMerkle*.lean.
  What is not proved yet is stated in lean/PENDING.md.
-/
import ModVerif.Model.Tlog
import ModVerif.Spec.RFC6962
import ModVerif.Proofs.TlogBasic
import ModVerif.Proofs.TlogTH
import ModVerif.Proofs.TlogCheck
import ModVerif.Proofs.TlogMerkleSound
import ModVerif.Proofs.TlogMerkleProve
import ModVerif.Proofs.TlogMerkle9162
import ModVerif.Proofs.TlogMerkle9162Cons
import ModVerif.Props.C09
namespace ModVerif.Props.C03
open ModVerif ModVerif.Tlog ModVerif.TlogTH

section
variable {H : Type} [DecidableEq H] (node : H → H → H)

/-! ### out-of-range sizes and indexes are refused with an error -/

theorem checkRecord_refuses_out_of_range (p : List H) (t n : Int) (th h : H) (hbad : t < 0 ∨ n < 0 ∨ n ≥ t) :
    checkRecord node p t th n h = .error .invalid := by
  unfold checkRecord
  have : (decide (t < 0) || decide (n < 0) || decide (n ≥ t)) = true := by
    rcases hbad with h | h | h <;> simp [h]
  simp [this]

theorem checkTree_refuses_out_of_range (p : List H) (t n : Int) (th h : H) (hbad : t < 1 ∨ n < 1 ∨ n > t) :
    checkTree node p t th n h = .error .invalid := by
  unfold checkTree
  have : (decide (t < 1) || decide (n < 1) || decide (n > t)) = true := by
    rcases hbad with h | h | h <;> simp [h]
  simp [this]

omit [DecidableEq H] in
theorem proveRecord_refuses_out_of_range (t n : Int) (r : HashReader H) (hbad : t < 0 ∨ n < 0 ∨ n ≥ t) :
    proveRecord node t n r = .error .invalid := by
  unfold proveRecord
  have : (decide (t < 0) || decide (n < 0) || decide (n ≥ t)) = true := by
    rcases hbad with h | h | h <;> simp [h]
  simp [this]

omit [DecidableEq H] in
theorem proveTree_refuses_out_of_range (t n : Int) (r : HashReader H) (hbad : t < 1 ∨ n < 1 ∨ n > t) :
    proveTree node t n r = .error .invalid := by
  unfold proveTree
  have : (decide (t < 1) || decide (n < 1) || decide (n > t)) = true := by
    rcases hbad with h | h | h <;> simp [h]
  simp [this]

/-! ### the checkers are total: never a panic ("bad math") branch, never out of fuel — for EVERY size,
    also beyond 2^62 (the `l < 62` guard of `maxpow2`, fix 8e3ce2a) -/

/-- `CheckRecord` returns nil, "invalid inputs" or errProofFailed — nothing else — on every input. -/
theorem checkRecord_total (p : List H) (t n : Int) (th h : H) :
    checkRecord node p t th n h = .ok () ∨ checkRecord node p t th n h = .error .invalid ∨
      checkRecord node p t th n h = .error .proofFailed := by
  unfold checkRecord
  split
  · right; left; rfl
  · rename_i hg
    have hg' : ¬ (t < 0 ∨ n < 0 ∨ n ≥ t) := by simpa [or_assoc] using hg
    have h1 : (0 : Nat) ≤ n.toNat := Nat.zero_le _
    have h2 : n.toNat < t.toNat := by omega
    have hc := runRecordProofF_clean node (t.toNat - 0) p 0 t.toNat n.toNat h h1 h2 (Nat.le_refl _)
    unfold runRecordProof
    rcases hc with hc | ⟨a, hc⟩
    · rw [hc]; right; right; rfl
    · rw [hc]
      by_cases hq : a = th
      · left; simp [bind, Except.bind, pure, Except.pure, hq]
      · right; right; simp [bind, Except.bind, hq]

/-- `CheckTree` returns nil, "invalid inputs" or errProofFailed — nothing else — on every input. -/
theorem checkTree_total (p : List H) (t n : Int) (th h : H) :
    checkTree node p t th n h = .ok () ∨ checkTree node p t th n h = .error .invalid ∨
      checkTree node p t th n h = .error .proofFailed := by
  unfold checkTree
  split
  · right; left; rfl
  · rename_i hg
    have hg' : ¬ (t < 1 ∨ n < 1 ∨ n > t) := by simpa [or_assoc] using hg
    have h1 : (0 : Nat) < n.toNat := by omega
    have h2 : n.toNat ≤ t.toNat := by omega
    have hc := runTreeProofF_clean node (t.toNat - 0) p 0 t.toNat n.toNat h h1 h2 (Nat.le_refl _)
    unfold runTreeProof
    rcases hc with hc | ⟨a, hc⟩
    · rw [hc]; right; right; rfl
    · rw [hc]
      obtain ⟨h2', th2⟩ := a
      by_cases hq : th2 = th ∧ h2' = h
      · left; simp [bind, Except.bind, pure, Except.pure, hq]
      · right; right; simp only [bind, Except.bind, if_neg hq]

/-! ### acceptance is root recomputation along the RFC 6962 recursion, the proof consumed exactly -/

/-- ★ `CheckRecord` accepts exactly the tuples whose audit path, folded along the RFC 6962 recursion for
    (tree size, leaf index) with every proof hash consumed, reproduces the given root — for every size in
    the int64 range.  (`RFC6962.AcceptIncl` is written without reference to the model.) -/
theorem checkRecord_iff (p : List H) (t n : Int) (th h : H) (ht : t ≤ 2 ^ 63) :
    checkRecord node p t th n h = .ok () ↔
      0 ≤ t ∧ 0 ≤ n ∧ RFC6962.AcceptIncl node p t.toNat n.toNat h th := by
  unfold checkRecord
  split
  · rename_i hg
    have hg' : t < 0 ∨ n < 0 ∨ n ≥ t := by simpa [or_assoc] using hg
    constructor
    · intro hc; cases hc
    · rintro ⟨h0, h1, h2, _⟩; omega
  · rename_i hg
    have hg' : ¬ (t < 0 ∨ n < 0 ∨ n ≥ t) := by simpa [or_assoc] using hg
    have h2 : n.toNat < t.toNat := by omega
    have h4 : t.toNat - 0 ≤ 2 ^ 63 := by omega
    unfold runRecordProof
    rw [runRecordProofF_eq_spec node (t.toNat - 0) p 0 t.toNat n.toNat h (Nat.zero_le _) h2 (Nat.le_refl _) h4]
    simp only [Nat.sub_zero, RFC6962.AcceptIncl]
    cases hr : RFC6962.inclRootF node t.toNat p t.toNat n.toNat h with
    | none =>
      simp only [ofRoot, bind, Except.bind]
      constructor
      · intro hc; cases hc
      · rintro ⟨_, _, _, hc⟩; cases hc
    | some r =>
      simp only [ofRoot, bind, Except.bind]
      by_cases hq : r = th
      · subst hq
        simp only [↓reduceIte, pure, Except.pure, true_iff]
        exact ⟨by omega, by omega, h2, trivial⟩
      · simp only [hq, ↓reduceIte]
        constructor
        · intro hc; cases hc
        · rintro ⟨_, _, _, hc⟩; exact absurd (Option.some.inj hc) hq

/-- ★ `CheckTree` accepts exactly the tuples whose consistency proof, folded along the RFC 6962 SUBPROOF
    recursion with every proof hash consumed, reproduces BOTH the old root and the new root. -/
theorem checkTree_iff (p : List H) (t n : Int) (th h : H) (ht : t ≤ 2 ^ 63) :
    checkTree node p t th n h = .ok () ↔
      0 ≤ t ∧ 0 ≤ n ∧ RFC6962.AcceptCons node p t.toNat n.toNat h th := by
  unfold checkTree
  split
  · rename_i hg
    have hg' : t < 1 ∨ n < 1 ∨ n > t := by simpa [or_assoc] using hg
    constructor
    · intro hc; cases hc
    · rintro ⟨h0, h1, h2, h3, _⟩; omega
  · rename_i hg
    have hg' : ¬ (t < 1 ∨ n < 1 ∨ n > t) := by simpa [or_assoc] using hg
    have h1 : 0 < n.toNat := by omega
    have h2 : n.toNat ≤ t.toNat := by omega
    have h4 : t.toNat - 0 ≤ 2 ^ 63 := by omega
    unfold runTreeProof
    rw [runTreeProofF_eq_spec node (t.toNat - 0) p 0 t.toNat n.toNat h h1 h2 (Nat.le_refl _) h4]
    simp only [Nat.sub_zero, RFC6962.AcceptCons, beq_self_eq_true]
    cases hr : RFC6962.consRootsF node t.toNat p t.toNat n.toNat true h with
    | none =>
      simp only [ofRoot, bind, Except.bind]
      constructor
      · intro hc; cases hc
      · rintro ⟨_, _, _, _, hc⟩; cases hc
    | some r =>
      obtain ⟨o, nw⟩ := r
      simp only [ofRoot, bind, Except.bind]
      by_cases hq : nw = th ∧ o = h
      · obtain ⟨hq1, hq2⟩ := hq
        subst hq1; subst hq2
        simp only [and_self, ↓reduceIte, pure, Except.pure, true_iff]
        exact ⟨by omega, by omega, by omega, h2, trivial⟩
      · simp only [hq, ↓reduceIte]
        constructor
        · intro hc; cases hc
        · rintro ⟨_, _, _, _, hc⟩
          have := Option.some.inj hc
          simp only [Prod.mk.injEq] at this
          exact absurd ⟨this.2, this.1⟩ hq

end

/-! ### concrete witnesses in the term algebra (kernel `decide`): a log of 7 records -/

/-- the proof produced for record 2 in the tree of size 7 is the RFC 6962 audit path … -/
theorem proveRecord_witness_eq_PATH :
    isOk (proveRecord TH.node 7 2 (reader 7))
      (RFC6962.path TH.node TH.empty 2 ((recs 7).map TH.leaf)) = true := by decide +kernel

/-- … is accepted by the checker against the RFC 6962 root, and by the RFC 9162 algorithm … -/
theorem checkRecord_witness_accepts :
    isOk (checkRecord TH.node (RFC6962.path TH.node TH.empty 2 ((recs 7).map TH.leaf)) 7 (root 7) 2 (TH.leaf [2])) () = true ∧
    RFC6962.verifyInclusion TH.node (RFC6962.path TH.node TH.empty 2 ((recs 7).map TH.leaf)) 7 2 (TH.leaf [2]) (root 7) = true := by
  decide +kernel

/-- … and every listed change of one component is rejected: a forged proof hash, a dropped hash, swapped
    order, another index, another size, another leaf, another root. -/
theorem checkRecord_witness_rejects_mutations :
    let p := RFC6962.path TH.node TH.empty 2 ((recs 7).map TH.leaf)
    let bad (r : Except Err Unit) := isErr r .proofFailed
    bad (checkRecord TH.node (p.set 0 (TH.junk 0)) 7 (root 7) 2 (TH.leaf [2])) = true ∧
    bad (checkRecord TH.node (p.drop 1) 7 (root 7) 2 (TH.leaf [2])) = true ∧
    bad (checkRecord TH.node p.dropLast 7 (root 7) 2 (TH.leaf [2])) = true ∧
    bad (checkRecord TH.node p.reverse 7 (root 7) 2 (TH.leaf [2])) = true ∧
    bad (checkRecord TH.node (p ++ [TH.junk 1]) 7 (root 7) 2 (TH.leaf [2])) = true ∧
    bad (checkRecord TH.node p 7 (root 7) 3 (TH.leaf [2])) = true ∧
    bad (checkRecord TH.node p 9 (root 7) 2 (TH.leaf [2])) = true ∧
    bad (checkRecord TH.node p 4 (root 7) 2 (TH.leaf [2])) = true ∧
    bad (checkRecord TH.node p 7 (root 7) 2 (TH.leaf [3])) = true ∧
    bad (checkRecord TH.node p 7 (root 6) 2 (TH.leaf [2])) = true := by decide +kernel

/-- "…unless it leaves the tuple valid": the audit path of record 2 has the same shape in trees of 6, 7 and 8
    records, so changing only the size to 6 or 8 is still a valid tuple — for the checker AND for the
    RFC 9162 algorithm (the size is not bound by an inclusion proof; this is RFC behaviour, not a defect). -/
theorem checkRecord_witness_size_change_still_valid :
    let p := RFC6962.path TH.node TH.empty 2 ((recs 7).map TH.leaf)
    isOk (checkRecord TH.node p 6 (root 7) 2 (TH.leaf [2])) () = true ∧
    RFC6962.verifyInclusion TH.node p 6 2 (TH.leaf [2]) (root 7) = true ∧
    isOk (checkRecord TH.node p 8 (root 7) 2 (TH.leaf [2])) () = true ∧
    RFC6962.verifyInclusion TH.node p 8 2 (TH.leaf [2]) (root 7) = true := by decide +kernel

/-- the proof that tree 3 is a prefix of tree 7 is the RFC 6962 consistency proof, is accepted, and is
    accepted by the RFC 9162 algorithm; changing the old root, the new root, the sizes or a hash is rejected. -/
theorem proveTree_witness :
    let p := RFC6962.proof TH.node TH.empty 3 ((recs 7).map TH.leaf)
    let bad (r : Except Err Unit) := isErr r .proofFailed
    isOk (proveTree TH.node 7 3 (reader 7)) p = true ∧
    isOk (checkTree TH.node p 7 (root 7) 3 (root 3)) () = true ∧
    RFC6962.verifyConsistency TH.node p 3 7 (root 3) (root 7) = true ∧
    bad (checkTree TH.node p 7 (root 7) 3 (root 2)) = true ∧
    bad (checkTree TH.node p 7 (root 6) 3 (root 3)) = true ∧
    bad (checkTree TH.node p 7 (root 7) 4 (root 3)) = true ∧
    bad (checkTree TH.node p 9 (root 7) 3 (root 3)) = true ∧
    bad (checkTree TH.node (p.set 1 (TH.junk 0)) 7 (root 7) 3 (root 3)) = true ∧
    bad (checkTree TH.node p.reverse 7 (root 7) 3 (root 3)) = true ∧
    bad (checkTree TH.node p.dropLast 7 (root 7) 3 (root 3)) = true := by decide +kernel

/-- a size beyond 2^62 with a non-empty proof is answered (F7: it used to hang) -/
theorem checkRecord_huge_size_answers :
    isErr (checkRecord TH.node [TH.junk 0] (2 ^ 62 + 1) (TH.junk 1) 5 (TH.junk 2)) .proofFailed = true := by
  decide +kernel

/-! ### completeness and soundness with respect to the RFC 6962 tree hash, audit path and consistency proof -/

section
variable {H : Type} [DecidableEq H] (leaf : Bytes → H) (node : H → H → H) (empty : H)

/-- ★ completeness (inclusion): the RFC 6962 audit path of record `n` is accepted by `CheckRecord` against the
    RFC 6962 root, for every log within the int64 range. -/
theorem checkRecord_complete (D : List Bytes) (n : Nat) (hn : n < D.length) (hD : D.length ≤ 2 ^ 63) :
    checkRecord node (RFC6962.path node empty n (D.map leaf)) D.length (RFC6962.mth node empty (D.map leaf)) n
      (leaf D[n]) = .ok () := by
  rw [checkRecord_iff node _ _ _ _ _ (by exact_mod_cast hD)]
  refine ⟨by omega, by omega, ?_⟩
  have := RFC6962.acceptIncl_path node empty (D.map leaf) n (by simpa using hn)
  simpa using this

/-- ★ completeness (consistency): the RFC 6962 consistency proof between the first `n` records and the whole
    log is accepted by `CheckTree` against the two RFC 6962 roots. -/
theorem checkTree_complete (D : List Bytes) (n : Nat) (h1 : 1 ≤ n) (h2 : n ≤ D.length) (hD : D.length ≤ 2 ^ 63) :
    checkTree node (RFC6962.proof node empty n (D.map leaf)) D.length (RFC6962.mth node empty (D.map leaf)) n
      (RFC6962.mth node empty ((D.map leaf).take n)) = .ok () := by
  rw [checkTree_iff node _ _ _ _ _ (by exact_mod_cast hD)]
  refine ⟨by omega, by omega, ?_⟩
  have := RFC6962.acceptCons_proof node empty (D.map leaf) n h1 (by simpa using h2)
  simpa using this

/-- ★ soundness (inclusion), collision freedom CF: a tuple accepted against the TRUE root of the log carries the
    true leaf hash of record `n` — hence, by collision freedom of `leaf`, the record itself — and exactly the
    RFC 6962 audit path. -/
theorem sound_incl (hcf : RFC6962.CF leaf node) (D : List Bytes) (p : List H) (n : Nat) (h : H)
    (hacc : RFC6962.AcceptIncl node p D.length n h (RFC6962.mth node empty (D.map leaf))) :
    (∃ hn : n < D.length, h = leaf D[n]) ∧ p = RFC6962.path node empty n (D.map leaf) ∧
      ∀ x, h = leaf x → D[n]? = some x := by
  have hacc' : RFC6962.AcceptIncl node p (D.map leaf).length n h (RFC6962.mth node empty (D.map leaf)) := by
    simpa using hacc
  obtain ⟨a, b⟩ := RFC6962.sound_incl node empty hcf.nodeInj (D.map leaf) p n h hacc'
  have hn : n < D.length := hacc.1
  have e : h = leaf D[n] := by
    rw [List.getElem?_map, List.getElem?_eq_getElem hn] at a
    exact (Option.some.inj a).symm
  refine ⟨⟨hn, e⟩, b, ?_⟩
  intro x hx
  rw [List.getElem?_eq_getElem hn, hcf.2.1 _ _ (e.symm.trans hx)]

/-- ★ soundness (consistency), CF: a tuple accepted against the TRUE root of the log carries the true root of the
    first `n` records and exactly the RFC 6962 consistency proof. -/
theorem sound_cons (hcf : RFC6962.CF leaf node) (D : List Bytes) (p : List H) (n : Nat) (h : H)
    (hacc : RFC6962.AcceptCons node p D.length n h (RFC6962.mth node empty (D.map leaf))) :
    h = RFC6962.mth node empty ((D.map leaf).take n) ∧ p = RFC6962.proof node empty n (D.map leaf) := by
  have hacc' : RFC6962.AcceptCons node p (D.map leaf).length n h (RFC6962.mth node empty (D.map leaf)) := by
    simpa using hacc
  exact RFC6962.sound_cons node empty hcf.nodeInj (D.map leaf) p n h hacc'

/-- ★ `CheckRecord` against the true root accepts exactly ONE (proof, leaf hash) pair per (size, index):
    the RFC 6962 audit path with the true leaf hash. -/
theorem checkRecord_true_root_iff (hcf : RFC6962.CF leaf node) (D : List Bytes) (p : List H) (n : Nat) (h : H)
    (hD : D.length ≤ 2 ^ 63) :
    checkRecord node p D.length (RFC6962.mth node empty (D.map leaf)) n h = .ok () ↔
      (∃ hn : n < D.length, h = leaf D[n]) ∧ p = RFC6962.path node empty n (D.map leaf) := by
  constructor
  · intro hc
    have := (checkRecord_iff node p D.length n _ h (by exact_mod_cast hD)).mp hc
    have hacc := this.2.2
    simp only [Int.toNat_natCast] at hacc
    have := sound_incl leaf node empty hcf D p n h hacc
    exact ⟨this.1, this.2.1⟩
  · rintro ⟨⟨hn, rfl⟩, rfl⟩
    exact checkRecord_complete leaf node empty D n hn hD

/-- ★ `CheckTree` against the true root accepts exactly ONE (proof, old root) pair per pair of sizes. -/
theorem checkTree_true_root_iff (hcf : RFC6962.CF leaf node) (D : List Bytes) (p : List H) (n : Nat) (h : H)
    (hD : D.length ≤ 2 ^ 63) :
    checkTree node p D.length (RFC6962.mth node empty (D.map leaf)) n h = .ok () ↔
      1 ≤ n ∧ n ≤ D.length ∧ h = RFC6962.mth node empty ((D.map leaf).take n) ∧
        p = RFC6962.proof node empty n (D.map leaf) := by
  constructor
  · intro hc
    have := (checkTree_iff node p D.length n _ h (by exact_mod_cast hD)).mp hc
    have hacc := this.2.2
    simp only [Int.toNat_natCast] at hacc
    have hs := sound_cons leaf node empty hcf D p n h hacc
    exact ⟨hacc.1, hacc.2.1, hs.1, hs.2⟩
  · rintro ⟨h1, h2, rfl, rfl⟩
    exact checkTree_complete leaf node empty D n h1 h2 hD

/-- ★ `mutation_rejected` (inclusion), CF: against the true root, ANY proof other than the RFC 6962 audit path
    — a changed hash, a missing or additional hash, another order — and ANY other leaf hash is answered with
    errProofFailed (not accepted, and not a crash). -/
theorem mutation_rejected_record (hcf : RFC6962.CF leaf node) (D : List Bytes) (p : List H) (n : Nat) (h : H)
    (hn : n < D.length) (hD : D.length ≤ 2 ^ 63)
    (hmut : p ≠ RFC6962.path node empty n (D.map leaf) ∨ h ≠ leaf D[n]) :
    checkRecord node p D.length (RFC6962.mth node empty (D.map leaf)) n h = .error .proofFailed := by
  rcases checkRecord_total node p D.length n (RFC6962.mth node empty (D.map leaf)) h with hc | hc | hc
  · obtain ⟨⟨_, e1⟩, e2⟩ := (checkRecord_true_root_iff leaf node empty hcf D p n h hD).mp hc
    rcases hmut with hm | hm
    · exact absurd e2 hm
    · exact absurd e1 hm
  · exfalso
    unfold checkRecord at hc
    have : (decide ((D.length : Int) < 0) || decide ((n : Int) < 0) || decide ((n : Int) ≥ (D.length : Int))) = false := by
      simp; omega
    simp only [this, Bool.false_eq_true, ↓reduceIte] at hc
    rcases runRecordProofF_clean node (D.length - 0) p 0 D.length n h (Nat.zero_le _) hn (Nat.le_refl _) with hr | ⟨a, hr⟩
    · simp only [runRecordProof, Int.toNat_natCast] at hc; rw [hr] at hc; cases hc
    · simp only [runRecordProof, Int.toNat_natCast] at hc; rw [hr] at hc
      simp only [bind, Except.bind] at hc
      split at hc <;> cases hc
  · exact hc

/-- ★ `mutation_rejected` (consistency), CF: against the true new root, ANY proof other than the RFC 6962
    consistency proof and ANY other old root is answered with errProofFailed. -/
theorem mutation_rejected_tree (hcf : RFC6962.CF leaf node) (D : List Bytes) (p : List H) (n : Nat) (h : H)
    (h1 : 1 ≤ n) (h2 : n ≤ D.length) (hD : D.length ≤ 2 ^ 63)
    (hmut : p ≠ RFC6962.proof node empty n (D.map leaf) ∨ h ≠ RFC6962.mth node empty ((D.map leaf).take n)) :
    checkTree node p D.length (RFC6962.mth node empty (D.map leaf)) n h = .error .proofFailed := by
  rcases checkTree_total node p D.length n (RFC6962.mth node empty (D.map leaf)) h with hc | hc | hc
  · obtain ⟨_, _, e1, e2⟩ := (checkTree_true_root_iff leaf node empty hcf D p n h hD).mp hc
    rcases hmut with hm | hm
    · exact absurd e2 hm
    · exact absurd e1 hm
  · exfalso
    unfold checkTree at hc
    have : (decide ((D.length : Int) < 1) || decide ((n : Int) < 1) || decide ((n : Int) > (D.length : Int))) = false := by
      simp; omega
    simp only [this, Bool.false_eq_true, ↓reduceIte] at hc
    rcases runTreeProofF_clean node (D.length - 0) p 0 D.length n h (by omega) h2 (Nat.le_refl _) with hr | ⟨a, hr⟩
    · simp only [runTreeProof, Int.toNat_natCast] at hc; rw [hr] at hc; cases hc
    · simp only [runTreeProof, Int.toNat_natCast] at hc; rw [hr] at hc
      simp only [bind, Except.bind] at hc
      split at hc <;> cases hc
  · exact hc

omit [DecidableEq H] in
theorem set_ne_self (l : List H) (i : Nat) (x : H) (hi : i < l.length) (hx : x ≠ l[i]) : l.set i x ≠ l := by
  intro hc
  have : (l.set i x)[i]? = l[i]? := by rw [hc]
  rw [List.getElem?_set_self hi, List.getElem?_eq_getElem hi] at this
  exact hx (Option.some.inj this)

/-- replacing one hash of the audit path by a different hash is rejected -/
theorem proof_hash_change_rejected_record (hcf : RFC6962.CF leaf node) (D : List Bytes) (n i : Nat) (x : H)
    (hn : n < D.length) (hD : D.length ≤ 2 ^ 63)
    (hi : i < (RFC6962.path node empty n (D.map leaf)).length) (hx : x ≠ (RFC6962.path node empty n (D.map leaf))[i]) :
    checkRecord node ((RFC6962.path node empty n (D.map leaf)).set i x) D.length
      (RFC6962.mth node empty (D.map leaf)) n (leaf D[n]) = .error .proofFailed :=
  mutation_rejected_record leaf node empty hcf D _ n _ hn hD (Or.inl (set_ne_self _ i x hi hx))

/-- a proof of another length (hashes dropped or added, anywhere) is rejected -/
theorem proof_length_change_rejected_record (hcf : RFC6962.CF leaf node) (D : List Bytes) (p : List H) (n : Nat) (h : H)
    (hn : n < D.length) (hD : D.length ≤ 2 ^ 63) (hlen : p.length ≠ (RFC6962.path node empty n (D.map leaf)).length) :
    checkRecord node p D.length (RFC6962.mth node empty (D.map leaf)) n h = .error .proofFailed :=
  mutation_rejected_record leaf node empty hcf D p n h hn hD (Or.inl (fun hc => hlen (by rw [hc])))

/-- the audit path in another order is rejected -/
theorem proof_reorder_rejected_record (hcf : RFC6962.CF leaf node) (D : List Bytes) (p : List H) (n : Nat)
    (hn : n < D.length) (hD : D.length ≤ 2 ^ 63) (_hperm : p.Perm (RFC6962.path node empty n (D.map leaf)))
    (hne : p ≠ RFC6962.path node empty n (D.map leaf)) :
    checkRecord node p D.length (RFC6962.mth node empty (D.map leaf)) n (leaf D[n]) = .error .proofFailed :=
  mutation_rejected_record leaf node empty hcf D p n _ hn hD (Or.inl hne)

/-- another record's hash (indeed the hash of any other byte string) in place of the leaf is rejected -/
theorem leaf_change_rejected_record (hcf : RFC6962.CF leaf node) (D : List Bytes) (n : Nat) (x : Bytes)
    (hn : n < D.length) (hD : D.length ≤ 2 ^ 63) (hx : x ≠ D[n]) :
    checkRecord node (RFC6962.path node empty n (D.map leaf)) D.length (RFC6962.mth node empty (D.map leaf)) n (leaf x)
      = .error .proofFailed :=
  mutation_rejected_record leaf node empty hcf D _ n _ hn hD (Or.inr (fun hc => hx (hcf.2.1 _ _ hc)))

/-- replacing one hash of the consistency proof by a different hash is rejected -/
theorem proof_hash_change_rejected_tree (hcf : RFC6962.CF leaf node) (D : List Bytes) (n i : Nat) (x : H)
    (h1 : 1 ≤ n) (h2 : n ≤ D.length) (hD : D.length ≤ 2 ^ 63)
    (hi : i < (RFC6962.proof node empty n (D.map leaf)).length) (hx : x ≠ (RFC6962.proof node empty n (D.map leaf))[i]) :
    checkTree node ((RFC6962.proof node empty n (D.map leaf)).set i x) D.length
      (RFC6962.mth node empty (D.map leaf)) n (RFC6962.mth node empty ((D.map leaf).take n)) = .error .proofFailed :=
  mutation_rejected_tree leaf node empty hcf D _ n _ h1 h2 hD (Or.inl (set_ne_self _ i x hi hx))

/-- a consistency proof of another length is rejected -/
theorem proof_length_change_rejected_tree (hcf : RFC6962.CF leaf node) (D : List Bytes) (p : List H) (n : Nat) (h : H)
    (h1 : 1 ≤ n) (h2 : n ≤ D.length) (hD : D.length ≤ 2 ^ 63)
    (hlen : p.length ≠ (RFC6962.proof node empty n (D.map leaf)).length) :
    checkTree node p D.length (RFC6962.mth node empty (D.map leaf)) n h = .error .proofFailed :=
  mutation_rejected_tree leaf node empty hcf D p n h h1 h2 hD (Or.inl (fun hc => hlen (by rw [hc])))

/-- another old root is rejected -/
theorem old_root_change_rejected_tree (hcf : RFC6962.CF leaf node) (D : List Bytes) (n : Nat) (h : H)
    (h1 : 1 ≤ n) (h2 : n ≤ D.length) (hD : D.length ≤ 2 ^ 63) (hh : h ≠ RFC6962.mth node empty ((D.map leaf).take n)) :
    checkTree node (RFC6962.proof node empty n (D.map leaf)) D.length (RFC6962.mth node empty (D.map leaf)) n h
      = .error .proofFailed :=
  mutation_rejected_tree leaf node empty hcf D _ n h h1 h2 hD (Or.inr hh)

end

/-! ### non-vacuity: collision freedom is satisfiable (free term algebra), and instances of every theorem above -/

/-- CF holds in the free term algebra of hashes -/
theorem cf_term_algebra : RFC6962.CF TH.leaf TH.node :=
  ⟨fun _ _ _ _ h => by cases h; exact ⟨rfl, rfl⟩, fun _ _ h => by cases h; rfl, fun _ _ _ h => by cases h⟩

example : checkRecord TH.node (RFC6962.path TH.node TH.empty 2 ((recs 7).map TH.leaf)) (recs 7).length (root 7) 2
    (TH.leaf (recs 7)[2]) = .ok () :=
  checkRecord_complete TH.leaf TH.node TH.empty (recs 7) 2 (by decide) (by decide)

example : checkTree TH.node (RFC6962.proof TH.node TH.empty 3 ((recs 7).map TH.leaf)) (recs 7).length (root 7) 3
    (RFC6962.mth TH.node TH.empty (((recs 7).map TH.leaf).take 3)) = .ok () :=
  checkTree_complete TH.leaf TH.node TH.empty (recs 7) 3 (by decide) (by decide) (by decide)

/-- the hypothesis of `sound_incl` is satisfiable: an accepted tuple against the true root -/
example : RFC6962.AcceptIncl TH.node (RFC6962.path TH.node TH.empty 2 ((recs 7).map TH.leaf)) (recs 7).length 2
    (TH.leaf [2]) (RFC6962.mth TH.node TH.empty ((recs 7).map TH.leaf)) := by decide +kernel

/-- the hypothesis of `sound_cons` is satisfiable -/
example : RFC6962.AcceptCons TH.node (RFC6962.proof TH.node TH.empty 3 ((recs 7).map TH.leaf)) (recs 7).length 3
    (root 3) (RFC6962.mth TH.node TH.empty ((recs 7).map TH.leaf)) := by decide +kernel

/-- `mutation_rejected_record` applies to a forged one-hash proof for record 2 of the 7-record log -/
example : checkRecord TH.node [TH.junk 0] (recs 7).length (root 7) 2 (TH.leaf [2]) = .error .proofFailed :=
  mutation_rejected_record TH.leaf TH.node TH.empty cf_term_algebra (recs 7) [TH.junk 0] 2 (TH.leaf [2])
    (by decide) (by decide) (Or.inl (by decide +kernel))

/-- `mutation_rejected_tree` applies to a forged old root -/
example : checkTree TH.node (RFC6962.proof TH.node TH.empty 3 ((recs 7).map TH.leaf)) (recs 7).length (root 7) 3
    (TH.junk 5) = .error .proofFailed :=
  old_root_change_rejected_tree TH.leaf TH.node TH.empty cf_term_algebra (recs 7) 3 (TH.junk 5)
    (by decide) (by decide) (by decide) (by decide +kernel)

/-- `proof_hash_change_rejected_record` / `_tree`: position 1 of the two proofs replaced by a junk hash -/
example : checkRecord TH.node ((RFC6962.path TH.node TH.empty 2 ((recs 7).map TH.leaf)).set 1 (TH.junk 0)) (recs 7).length
    (root 7) 2 (TH.leaf (recs 7)[2]) = .error .proofFailed :=
  proof_hash_change_rejected_record TH.leaf TH.node TH.empty cf_term_algebra (recs 7) 2 1 (TH.junk 0)
    (by decide) (by decide) (by decide +kernel) (by decide +kernel)

example : checkTree TH.node ((RFC6962.proof TH.node TH.empty 3 ((recs 7).map TH.leaf)).set 1 (TH.junk 0)) (recs 7).length
    (root 7) 3 (RFC6962.mth TH.node TH.empty (((recs 7).map TH.leaf).take 3)) = .error .proofFailed :=
  proof_hash_change_rejected_tree TH.leaf TH.node TH.empty cf_term_algebra (recs 7) 3 1 (TH.junk 0)
    (by decide) (by decide) (by decide) (by decide +kernel) (by decide +kernel)

/-! ### the provers produce exactly the RFC 6962 audit path / consistency proof -/

section
variable {H : Type} (leaf : Bytes → H) (node : H → H → H) (empty : H)

/-- ★ `ProveRecord(t, n)` reading ANY dense store that satisfies the C09 store invariant for the records `D`
    (`Tlog.StoreOK`: documented length, position `p` with layout coordinate `(l, k)` holds the RFC 6962 hash of the
    records `[k·2^l, (k+1)·2^l)`) returns exactly the RFC 6962 audit path `PATH(n, D[0:t])` — no error, no panic —
    for every `n < t ≤ |D|`, `t < 2^63` (an int64; beyond it the `l < 62` guard of `maxpow2` changes the split). -/
theorem proveRecord_eq_PATH_of_storeOK (D : List Bytes) (st : List H) (hst : StoreOK leaf node empty D st)
    (t n : Nat) (hn : n < t) (ht : t ≤ D.length) (hr : t < 2 ^ 63) :
    proveRecord node t n (storeReader st) = .ok (RFC6962.path node empty n ((D.map leaf).take t)) :=
  Tlog.proveRecord_eq_PATH_of_storeOK leaf node empty D st hst t n hn ht hr

/-- ★ `ProveTree(t, n)` reading any dense store that satisfies the C09 store invariant returns exactly the RFC 6962
    consistency proof `PROOF(n, D[0:t])`, for every `1 ≤ n ≤ t ≤ |D|`, `t < 2^63`. -/
theorem proveTree_eq_PROOF_of_storeOK (D : List Bytes) (st : List H) (hst : StoreOK leaf node empty D st)
    (t n : Nat) (h1 : 1 ≤ n) (hn : n ≤ t) (ht : t ≤ D.length) (hr : t < 2 ^ 63) :
    proveTree node t n (storeReader st) = .ok (RFC6962.proof node empty n ((D.map leaf).take t)) :=
  Tlog.proveTree_eq_PROOF_of_storeOK leaf node empty D st hst t n h1 hn ht hr

/-- the store built by appending the records one at a time satisfies the invariant (C09 `store_invariant`) -/
theorem storeOK_of_buildStore (D : List Bytes) (hD : D.length < 2 ^ 64) (st : List H)
    (h : buildStore leaf node D = .ok st) : StoreOK leaf node empty D st :=
  Props.C09.store_invariant_of_ok leaf node empty D hD st h

/-- ★ `proveRecord_eq_PATH`: over the store built from the records `D`, the proof produced for record `n` in the tree of
    size `t` is exactly the RFC 6962 audit path. -/
theorem proveRecord_eq_PATH (D : List Bytes) (hD : D.length < 2 ^ 64) (st : List H)
    (h : buildStore leaf node D = .ok st) (t n : Nat) (hn : n < t) (ht : t ≤ D.length) (hr : t < 2 ^ 63) :
    proveRecord node t n (storeReader st) = .ok (RFC6962.path node empty n ((D.map leaf).take t)) :=
  proveRecord_eq_PATH_of_storeOK leaf node empty D st
    (storeOK_of_buildStore leaf node empty D hD st h) t n hn ht hr

/-- ★ `proveTree_eq_PROOF`: over the store built from the records `D`, the proof that tree `n` is a prefix of tree `t` is
    exactly the RFC 6962 consistency proof. -/
theorem proveTree_eq_PROOF (D : List Bytes) (hD : D.length < 2 ^ 64) (st : List H)
    (h : buildStore leaf node D = .ok st) (t n : Nat) (h1 : 1 ≤ n) (hn : n ≤ t) (ht : t ≤ D.length) (hr : t < 2 ^ 63) :
    proveTree node t n (storeReader st) = .ok (RFC6962.proof node empty n ((D.map leaf).take t)) :=
  proveTree_eq_PROOF_of_storeOK leaf node empty D st
    (storeOK_of_buildStore leaf node empty D hD st h) t n h1 hn ht hr

/-- ★ C03, first sentence, end to end: the proof produced for record `n` in the tree of the whole log is accepted by
    the checker against the RFC 6962 root. -/
theorem proveRecord_accepted [DecidableEq H] (D : List Bytes) (st : List H) (h : buildStore leaf node D = .ok st)
    (n : Nat) (hn : n < D.length) (hr : D.length < 2 ^ 63) :
    ∃ p, proveRecord node D.length n (storeReader st) = .ok p ∧
      checkRecord node p D.length (RFC6962.mth node empty (D.map leaf)) n (leaf D[n]) = .ok () := by
  refine ⟨_, proveRecord_eq_PATH leaf node empty D (by omega) st h D.length n hn (Nat.le_refl _) hr, ?_⟩
  have : (D.map leaf).take D.length = D.map leaf := by
    rw [List.take_of_length_le]; simp
  rw [this]
  exact checkRecord_complete leaf node empty D n hn (by omega)

/-- ★ … and the proof produced for "tree `n` is a prefix of the whole log" is accepted by the checker against the two
    RFC 6962 roots. -/
theorem proveTree_accepted [DecidableEq H] (D : List Bytes) (st : List H) (h : buildStore leaf node D = .ok st)
    (n : Nat) (h1 : 1 ≤ n) (hn : n ≤ D.length) (hr : D.length < 2 ^ 63) :
    ∃ p, proveTree node D.length n (storeReader st) = .ok p ∧
      checkTree node p D.length (RFC6962.mth node empty (D.map leaf)) n
        (RFC6962.mth node empty ((D.map leaf).take n)) = .ok () := by
  refine ⟨_, proveTree_eq_PROOF leaf node empty D (by omega) st h D.length n h1 hn (Nat.le_refl _) hr, ?_⟩
  have : (D.map leaf).take D.length = D.map leaf := by
    rw [List.take_of_length_le]; simp
  rw [this]
  exact checkTree_complete leaf node empty D n h1 hn (by omega)

end

/-- non-vacuity: a store satisfying `StoreOK` exists (the 13-record example log), with sizes in range -/
example : ∃ st, buildStore TH.leaf TH.node (recs 13) = .ok st ∧ StoreOK TH.leaf TH.node TH.empty (recs 13) st ∧
    (2 : Nat) < 7 ∧ 7 ≤ (recs 13).length ∧ (7 : Nat) < 2 ^ 63 := by
  obtain ⟨st, h, h2⟩ := Props.C09.store_invariant TH.leaf TH.node TH.empty (recs 13) (by decide)
  exact ⟨st, h, h2, by decide, by decide, by decide⟩

/-! ### the iterative RFC 9162 verification algorithms accept exactly the same tuples -/

section
variable {H : Type} [DecidableEq H] (node : H → H → H)

/-- ★ RFC 9162 §2.1.3.2 (iterative, bit-directed, proof consumed front to back) accepts exactly the tuples accepted
    by root recomputation along the RFC 6962 recursion — for every proof, sizes, index and hashes. -/
theorem rfc9162_incl_equiv (p : List H) (t n : Nat) (h root : H) :
    RFC6962.verifyInclusion node p t n h root = true ↔ RFC6962.AcceptIncl node p t n h root :=
  RFC6962.rfc9162_incl_equiv node p t n h root

/-- ★ RFC 9162 §2.1.4.2 accepts exactly the tuples accepted by recomputation of both roots along the RFC 6962
    SUBPROOF recursion, for `0 < n < t` (the domain of the RFC algorithm). -/
theorem rfc9162_cons_equiv (p : List H) (t n : Nat) (h root : H) (h0 : 0 < n) (hn : n < t) :
    RFC6962.verifyConsistency node p n t h root = true ↔ RFC6962.AcceptCons node p t n h root :=
  RFC6962.rfc9162_cons_equiv node p t n h root h0 hn

/-- ★ "The checkers accept a tuple if and only if the RFC 6962/9162 verification algorithm accepts it" (inclusion):
    `CheckRecord` returns nil exactly when the arguments are in range and RFC 9162 §2.1.3.2 accepts. -/
theorem checkRecord_iff_rfc9162 (p : List H) (t n : Int) (th h : H) (ht : t ≤ 2 ^ 63) :
    checkRecord node p t th n h = .ok () ↔
      0 ≤ t ∧ 0 ≤ n ∧ RFC6962.verifyInclusion node p t.toNat n.toNat h th = true := by
  rw [checkRecord_iff node p t n th h ht, rfc9162_incl_equiv]

/-- ★ … (consistency): for `0 < n < t`, `CheckTree` returns nil exactly when RFC 9162 §2.1.4.2 accepts. -/
theorem checkTree_iff_rfc9162 (p : List H) (t n : Int) (th h : H) (ht : t ≤ 2 ^ 63) (h0 : 0 < n) (hn : n < t) :
    checkTree node p t th n h = .ok () ↔ RFC6962.verifyConsistency node p n.toNat t.toNat h th = true := by
  rw [checkTree_iff node p t n th h ht, rfc9162_cons_equiv node p t.toNat n.toNat h th (by omega) (by omega)]
  constructor
  · exact fun hc => hc.2.2
  · exact fun hc => ⟨by omega, by omega, hc⟩

/-- the remaining case `n = t` of `CheckTree` (outside the domain of RFC 9162 §2.1.4.2, which requires
    `first < second`): accepted exactly for the empty proof and equal roots -/
theorem checkTree_same_size_iff (p : List H) (t : Int) (th h : H) (ht : t ≤ 2 ^ 63) (h1 : 1 ≤ t) :
    checkTree node p t th t h = .ok () ↔ p = [] ∧ h = th := by
  rw [checkTree_iff node p t t th h ht]
  unfold RFC6962.AcceptCons
  have hpos : 1 ≤ t.toNat := by omega
  cases htn : t.toNat with
  | zero => omega
  | succ k =>
    unfold RFC6962.consRootsF
    simp only [↓reduceIte]
    cases p with
    | nil =>
      simp only [List.isEmpty_nil, ↓reduceIte, Option.some.injEq, Prod.mk.injEq, true_and]
      constructor
      · rintro ⟨_, _, _, _, hc⟩; exact hc
      · rintro hc; exact ⟨by omega, by omega, by omega, by omega, hc⟩
    | cons x xs => simp

end

/-- non-vacuity of the range hypotheses of `rfc9162_cons_equiv` / `checkTree_iff_rfc9162` / `checkTree_same_size_iff`
    (`proveTree_witness` above evaluates both sides on this instance) -/
example : (0 : Nat) < 3 ∧ (3 : Nat) < 7 ∧ (7 : Int) ≤ 2 ^ 63 ∧ (0 : Int) < 3 ∧ (3 : Int) < 7 ∧ (1 : Int) ≤ 7 := by decide

end ModVerif.Props.C03
