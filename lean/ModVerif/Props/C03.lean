/-
  C03 — Merkle inclusion and consistency proofs are complete and sound (RFC 6962).
  Property theorems only; helpers in Proofs/TlogBasic.lean, Proofs/TlogTH.lean.
  The deep theorems (proveRecord_eq_PATH, proveTree_eq_PROOF, checkRecord_complete, checkRecord_iff,
  checkTree_iff, sound_incl, sound_cons, rfc9162_*_equiv) are stated in lean/PENDING.md.
-/
import ModVerif.Model.Tlog
import ModVerif.Spec.RFC6962
import ModVerif.Proofs.TlogBasic
import ModVerif.Proofs.TlogTH
import ModVerif.Proofs.TlogCheck
namespace ModVerif.Props.C03
open ModVerif ModVerif.Tlog ModVerif.TlogTH

section
variable {H : Type} [DecidableEq H] (node : H → H → H)

/-! ### out-of-range sizes and indexes are refused with an error -/

theorem checkRecord_refuses_out_of_range (p : List H) (t n : Int) (th h : H) (hbad : t < 0 ∨ n < 0 ∨ n ≥ t) :
    checkRecord node p t th n h = .error .invalid := by
  unfold checkRecord
  have : (decide (t < 0) || decide (n < 0) || decide (n ≥ t)) = true := by
    rcases hbad with h | h | h <;> simp [h]
  simp [this]

theorem checkTree_refuses_out_of_range (p : List H) (t n : Int) (th h : H) (hbad : t < 1 ∨ n < 1 ∨ n > t) :
    checkTree node p t th n h = .error .invalid := by
  unfold checkTree
  have : (decide (t < 1) || decide (n < 1) || decide (n > t)) = true := by
    rcases hbad with h | h | h <;> simp [h]
  simp [this]

omit [DecidableEq H] in
theorem proveRecord_refuses_out_of_range (t n : Int) (r : HashReader H) (hbad : t < 0 ∨ n < 0 ∨ n ≥ t) :
    proveRecord node t n r = .error .invalid := by
  unfold proveRecord
  have : (decide (t < 0) || decide (n < 0) || decide (n ≥ t)) = true := by
    rcases hbad with h | h | h <;> simp [h]
  simp [this]

omit [DecidableEq H] in
theorem proveTree_refuses_out_of_range (t n : Int) (r : HashReader H) (hbad : t < 1 ∨ n < 1 ∨ n > t) :
    proveTree node t n r = .error .invalid := by
  unfold proveTree
  have : (decide (t < 1) || decide (n < 1) || decide (n > t)) = true := by
    rcases hbad with h | h | h <;> simp [h]
  simp [this]

/-! ### the checkers are total: never a panic ("bad math") branch, never out of fuel — for EVERY size,
    also beyond 2^62 (the `l < 62` guard of `maxpow2`, fix 8e3ce2a) -/

/-- `CheckRecord` returns nil, "invalid inputs" or errProofFailed — nothing else — on every input. -/
theorem checkRecord_total (p : List H) (t n : Int) (th h : H) :
    checkRecord node p t th n h = .ok () ∨ checkRecord node p t th n h = .error .invalid ∨
      checkRecord node p t th n h = .error .proofFailed := by
  unfold checkRecord
  split
  · right; left; rfl
  · rename_i hg
    have hg' : ¬ (t < 0 ∨ n < 0 ∨ n ≥ t) := by simpa [or_assoc] using hg
    have h1 : (0 : Nat) ≤ n.toNat := Nat.zero_le _
    have h2 : n.toNat < t.toNat := by omega
    have hc := runRecordProofF_clean node (t.toNat - 0) p 0 t.toNat n.toNat h h1 h2 (Nat.le_refl _)
    unfold runRecordProof
    rcases hc with hc | ⟨a, hc⟩
    · rw [hc]; right; right; rfl
    · rw [hc]
      by_cases hq : a = th
      · left; simp [bind, Except.bind, pure, Except.pure, hq]
      · right; right; simp [bind, Except.bind, hq]

/-- `CheckTree` returns nil, "invalid inputs" or errProofFailed — nothing else — on every input. -/
theorem checkTree_total (p : List H) (t n : Int) (th h : H) :
    checkTree node p t th n h = .ok () ∨ checkTree node p t th n h = .error .invalid ∨
      checkTree node p t th n h = .error .proofFailed := by
  unfold checkTree
  split
  · right; left; rfl
  · rename_i hg
    have hg' : ¬ (t < 1 ∨ n < 1 ∨ n > t) := by simpa [or_assoc] using hg
    have h1 : (0 : Nat) < n.toNat := by omega
    have h2 : n.toNat ≤ t.toNat := by omega
    have hc := runTreeProofF_clean node (t.toNat - 0) p 0 t.toNat n.toNat h h1 h2 (Nat.le_refl _)
    unfold runTreeProof
    rcases hc with hc | ⟨a, hc⟩
    · rw [hc]; right; right; rfl
    · rw [hc]
      obtain ⟨h2', th2⟩ := a
      by_cases hq : th2 = th ∧ h2' = h
      · left; simp [bind, Except.bind, pure, Except.pure, hq]
      · right; right; simp only [bind, Except.bind, if_neg hq]

/-! ### acceptance is root recomputation along the RFC 6962 recursion, the proof consumed exactly -/

/-- ★ `CheckRecord` accepts exactly the tuples whose audit path, folded along the RFC 6962 recursion for
    (tree size, leaf index) with every proof hash consumed, reproduces the given root — for every size in
    the int64 range.  (`RFC6962.AcceptIncl` is written without reference to the model.) -/
theorem checkRecord_iff (p : List H) (t n : Int) (th h : H) (ht : t ≤ 2 ^ 63) :
    checkRecord node p t th n h = .ok () ↔
      0 ≤ t ∧ 0 ≤ n ∧ RFC6962.AcceptIncl node p t.toNat n.toNat h th := by
  unfold checkRecord
  split
  · rename_i hg
    have hg' : t < 0 ∨ n < 0 ∨ n ≥ t := by simpa [or_assoc] using hg
    constructor
    · intro hc; cases hc
    · rintro ⟨h0, h1, h2, _⟩; omega
  · rename_i hg
    have hg' : ¬ (t < 0 ∨ n < 0 ∨ n ≥ t) := by simpa [or_assoc] using hg
    have h2 : n.toNat < t.toNat := by omega
    have h4 : t.toNat - 0 ≤ 2 ^ 63 := by omega
    unfold runRecordProof
    rw [runRecordProofF_eq_spec node (t.toNat - 0) p 0 t.toNat n.toNat h (Nat.zero_le _) h2 (Nat.le_refl _) h4]
    simp only [Nat.sub_zero, RFC6962.AcceptIncl]
    cases hr : RFC6962.inclRootF node t.toNat p t.toNat n.toNat h with
    | none =>
      simp only [ofRoot, bind, Except.bind]
      constructor
      · intro hc; cases hc
      · rintro ⟨_, _, _, hc⟩; cases hc
    | some r =>
      simp only [ofRoot, bind, Except.bind]
      by_cases hq : r = th
      · subst hq
        simp only [↓reduceIte, pure, Except.pure, true_iff]
        exact ⟨by omega, by omega, h2, trivial⟩
      · simp only [hq, ↓reduceIte]
        constructor
        · intro hc; cases hc
        · rintro ⟨_, _, _, hc⟩; exact absurd (Option.some.inj hc) hq

/-- ★ `CheckTree` accepts exactly the tuples whose consistency proof, folded along the RFC 6962 SUBPROOF
    recursion with every proof hash consumed, reproduces BOTH the old root and the new root. -/
theorem checkTree_iff (p : List H) (t n : Int) (th h : H) (ht : t ≤ 2 ^ 63) :
    checkTree node p t th n h = .ok () ↔
      0 ≤ t ∧ 0 ≤ n ∧ RFC6962.AcceptCons node p t.toNat n.toNat h th := by
  unfold checkTree
  split
  · rename_i hg
    have hg' : t < 1 ∨ n < 1 ∨ n > t := by simpa [or_assoc] using hg
    constructor
    · intro hc; cases hc
    · rintro ⟨h0, h1, h2, h3, _⟩; omega
  · rename_i hg
    have hg' : ¬ (t < 1 ∨ n < 1 ∨ n > t) := by simpa [or_assoc] using hg
    have h1 : 0 < n.toNat := by omega
    have h2 : n.toNat ≤ t.toNat := by omega
    have h4 : t.toNat - 0 ≤ 2 ^ 63 := by omega
    unfold runTreeProof
    rw [runTreeProofF_eq_spec node (t.toNat - 0) p 0 t.toNat n.toNat h h1 h2 (Nat.le_refl _) h4]
    simp only [Nat.sub_zero, RFC6962.AcceptCons, beq_self_eq_true]
    cases hr : RFC6962.consRootsF node t.toNat p t.toNat n.toNat true h with
    | none =>
      simp only [ofRoot, bind, Except.bind]
      constructor
      · intro hc; cases hc
      · rintro ⟨_, _, _, _, hc⟩; cases hc
    | some r =>
      obtain ⟨o, nw⟩ := r
      simp only [ofRoot, bind, Except.bind]
      by_cases hq : nw = th ∧ o = h
      · obtain ⟨hq1, hq2⟩ := hq
        subst hq1; subst hq2
        simp only [and_self, ↓reduceIte, pure, Except.pure, true_iff]
        exact ⟨by omega, by omega, by omega, h2, trivial⟩
      · simp only [hq, ↓reduceIte]
        constructor
        · intro hc; cases hc
        · rintro ⟨_, _, _, _, hc⟩
          have := Option.some.inj hc
          simp only [Prod.mk.injEq] at this
          exact absurd ⟨this.2, this.1⟩ hq

end

/-! ### concrete witnesses in the term algebra (kernel `decide`): a log of 7 records -/

/-- the proof produced for record 2 in the tree of size 7 is the RFC 6962 audit path … -/
theorem proveRecord_witness_eq_PATH :
    isOk (proveRecord TH.node 7 2 (reader 7))
      (RFC6962.path TH.node TH.empty 2 ((recs 7).map TH.leaf)) = true := by decide +kernel

/-- … is accepted by the checker against the RFC 6962 root, and by the RFC 9162 algorithm … -/
theorem checkRecord_witness_accepts :
    isOk (checkRecord TH.node (RFC6962.path TH.node TH.empty 2 ((recs 7).map TH.leaf)) 7 (root 7) 2 (TH.leaf [2])) () = true ∧
    RFC6962.verifyInclusion TH.node (RFC6962.path TH.node TH.empty 2 ((recs 7).map TH.leaf)) 7 2 (TH.leaf [2]) (root 7) = true := by
  decide +kernel

/-- … and every listed change of one component is rejected: a forged proof hash, a dropped hash, swapped
    order, another index, another size, another leaf, another root. -/
theorem checkRecord_witness_rejects_mutations :
    let p := RFC6962.path TH.node TH.empty 2 ((recs 7).map TH.leaf)
    let bad (r : Except Err Unit) := isErr r .proofFailed
    bad (checkRecord TH.node (p.set 0 (TH.junk 0)) 7 (root 7) 2 (TH.leaf [2])) = true ∧
    bad (checkRecord TH.node (p.drop 1) 7 (root 7) 2 (TH.leaf [2])) = true ∧
    bad (checkRecord TH.node p.dropLast 7 (root 7) 2 (TH.leaf [2])) = true ∧
    bad (checkRecord TH.node p.reverse 7 (root 7) 2 (TH.leaf [2])) = true ∧
    bad (checkRecord TH.node (p ++ [TH.junk 1]) 7 (root 7) 2 (TH.leaf [2])) = true ∧
    bad (checkRecord TH.node p 7 (root 7) 3 (TH.leaf [2])) = true ∧
    bad (checkRecord TH.node p 9 (root 7) 2 (TH.leaf [2])) = true ∧
    bad (checkRecord TH.node p 4 (root 7) 2 (TH.leaf [2])) = true ∧
    bad (checkRecord TH.node p 7 (root 7) 2 (TH.leaf [3])) = true ∧
    bad (checkRecord TH.node p 7 (root 6) 2 (TH.leaf [2])) = true := by decide +kernel

/-- "…unless it leaves the tuple valid": the audit path of record 2 has the same shape in trees of 6, 7 and 8
    records, so changing only the size to 6 or 8 is still a valid tuple — for the checker AND for the
    RFC 9162 algorithm (the size is not bound by an inclusion proof; this is RFC behaviour, not a defect). -/
theorem checkRecord_witness_size_change_still_valid :
    let p := RFC6962.path TH.node TH.empty 2 ((recs 7).map TH.leaf)
    isOk (checkRecord TH.node p 6 (root 7) 2 (TH.leaf [2])) () = true ∧
    RFC6962.verifyInclusion TH.node p 6 2 (TH.leaf [2]) (root 7) = true ∧
    isOk (checkRecord TH.node p 8 (root 7) 2 (TH.leaf [2])) () = true ∧
    RFC6962.verifyInclusion TH.node p 8 2 (TH.leaf [2]) (root 7) = true := by decide +kernel

/-- the proof that tree 3 is a prefix of tree 7 is the RFC 6962 consistency proof, is accepted, and is
    accepted by the RFC 9162 algorithm; changing the old root, the new root, the sizes or a hash is rejected. -/
theorem proveTree_witness :
    let p := RFC6962.proof TH.node TH.empty 3 ((recs 7).map TH.leaf)
    let bad (r : Except Err Unit) := isErr r .proofFailed
    isOk (proveTree TH.node 7 3 (reader 7)) p = true ∧
    isOk (checkTree TH.node p 7 (root 7) 3 (root 3)) () = true ∧
    RFC6962.verifyConsistency TH.node p 3 7 (root 3) (root 7) = true ∧
    bad (checkTree TH.node p 7 (root 7) 3 (root 2)) = true ∧
    bad (checkTree TH.node p 7 (root 6) 3 (root 3)) = true ∧
    bad (checkTree TH.node p 7 (root 7) 4 (root 3)) = true ∧
    bad (checkTree TH.node p 9 (root 7) 3 (root 3)) = true ∧
    bad (checkTree TH.node (p.set 1 (TH.junk 0)) 7 (root 7) 3 (root 3)) = true ∧
    bad (checkTree TH.node p.reverse 7 (root 7) 3 (root 3)) = true ∧
    bad (checkTree TH.node p.dropLast 7 (root 7) 3 (root 3)) = true := by decide +kernel

/-- a size beyond 2^62 with a non-empty proof is answered (F7: it used to hang) -/
theorem checkRecord_huge_size_answers :
    isErr (checkRecord TH.node [TH.junk 0] (2 ^ 62 + 1) (TH.junk 1) 5 (TH.junk 2)) .proofFailed = true := by
  decide +kernel

end ModVerif.Props.C03
