/-
  C09 — the log's tree hash and stored-hash layout are exactly RFC 6962 for every log; text codecs.
  Property theorems only; helpers in Proofs/TlogBasic.lean, Proofs/TlogTH.lean, Proofs/TlogCodec.lean.
  Store invariant and TreeHash = MTH: Proofs/TlogStore{Mth,Inv,Tree}.lean.  What is still open is in lean/PENDING.md.
-/
import ModVerif.Model.Tlog
import ModVerif.Model.TlogNote
import ModVerif.Spec.RFC6962
import ModVerif.Proofs.TlogBasic
import ModVerif.Proofs.TlogTH
import ModVerif.Proofs.TlogIndex
import ModVerif.Proofs.TlogCodec
import ModVerif.Proofs.TlogStoreInv
import ModVerif.Proofs.TlogStoreTree
import ModVerif.Proofs.TlogStoreSplit
import ModVerif.Proofs.TlogStoreRange
import ModVerif.Proofs.TlogStoreCodec
namespace ModVerif.Props.C09
open ModVerif ModVerif.Tlog ModVerif.TlogTH ModVerif.TlogNote

/-- `maxpow2 n = (k, l)`: `k = 2^l`, `k < n ≤ 2k` — the RFC 6962 split point — for every `n` in the int64
    range (`n ≤ 2^63`); the `l < 62` guard (fix 8e3ce2a) never cuts the loop short there. -/
theorem maxpow2_spec (n : Nat) (h1 : 1 < n) (h2 : n ≤ 2 ^ 63) :
    (maxpow2 n).1 = 2 ^ (maxpow2 n).2 ∧ (maxpow2 n).1 < n ∧ n ≤ 2 * (maxpow2 n).1 := by
  obtain ⟨a, b, c, d⟩ := maxpow2_spec' n h1
  refine ⟨a, b, ?_⟩
  rcases d with d | d
  · exact d
  · rw [a, d]; omega

/-- …and it is the specification's split point: the largest power of two smaller than `n`. -/
theorem maxpow2_eq_splitPoint (n : Nat) (h1 : 1 < n) (h2 : n ≤ 2 ^ 63) :
    (maxpow2 n).1 = RFC6962.splitPoint n := by
  obtain ⟨a, b, c⟩ := maxpow2_spec n h1 h2
  unfold RFC6962.splitPoint
  rw [a]
  congr 1
  have hpos : n - 1 ≠ 0 := by omega
  have hl := Nat.log2_lt hpos (k := (maxpow2 n).2 + 1) |>.mpr (by rw [Nat.pow_succ]; omega)
  have hu : 2 ^ (maxpow2 n).2 ≤ n - 1 := by omega
  have := (Nat.le_log2 hpos).mpr hu
  omega

/-- beyond the int64 range the loop stops at `2^62` instead of running forever (F7) -/
theorem maxpow2_terminates_beyond_range : maxpow2 (2 ^ 64 + 5) = (2 ^ 62, 62) := by decide +kernel

/-! ### the dense layout -/

/-- ★ `StoredHashIndex(level, k)` is the position of coordinate `(level, k)` in the specification's layout
    (records in order, for record `i` the levels `0 .. tz (i+1)`) of every log that contains the complete
    subtree `(level, k)`.  Hence the map (level, k) ↦ position is injective on the coordinates of a log and
    its image lies inside the dense store. -/
theorem storedHashIndex_layout (n l k : Nat) (h : (k + 1) * 2 ^ l ≤ n) :
    (RFC6962.layout n)[storedHashIndex l k]? = some (l, k) :=
  Tlog.storedHashIndex_layout n l k h

/-- injectivity of the position map, as a corollary -/
theorem storedHashIndex_injective (n l k l' k' : Nat) (h : (k + 1) * 2 ^ l ≤ n) (h' : (k' + 1) * 2 ^ l' ≤ n)
    (heq : storedHashIndex l k = storedHashIndex l' k') : l = l' ∧ k = k' := by
  have a := Tlog.storedHashIndex_layout n l k h
  have b := Tlog.storedHashIndex_layout n l' k' h'
  rw [heq, b] at a
  simp at a
  omega

/-- ★ the documented count is the length of the layout … -/
theorem storedHashCount_eq (n : Nat) (h : n ≤ 2 ^ 64) : storedHashCount n = (RFC6962.layout n).length := by
  rw [Tlog.layout_length, Tlog.storedHashCount_eq_index n h, Tlog.storedHashIndex_zero_eq]

/-- … and the position at which the next record's hashes are to be stored (doc of StoredHashes). -/
theorem storedHashCount_eq_next_leaf (n : Nat) (h : n ≤ 2 ^ 64) : storedHashCount n = storedHashIndex 0 n :=
  Tlog.storedHashCount_eq_index n h

/-- "Each new record n adds 1 + trailingZeros(n+1) hashes." -/
theorem storedHashIndex_zero_succ (n : Nat) :
    storedHashIndex 0 (n + 1) = storedHashIndex 0 n + 1 + RFC6962.tz (n + 1) :=
  Tlog.storedHashIndex_zero_succ n

/-! ### position ↔ (level, offset) is a bijection -/

/-- ★ `SplitStoredHashIndex(StoredHashIndex(l, k)) = (l, k)` for every coordinate whose position is an int64
    (in particular for every complete subtree of a log of fewer than `2^62` records). -/
theorem split_storedHashIndex (l k : Nat) (h : storedHashIndex l k < 2 ^ 63) :
    splitStoredHashIndex (storedHashIndex l k) = .ok (l, k) :=
  TlogStore.split_storedHashIndex l k h

example : storedHashIndex 3 5 < 2 ^ 63 := by decide +kernel

/-- ★ `StoredHashIndex(SplitStoredHashIndex(p)) = p` -/
theorem storedHashIndex_split (p l k : Nat) (hp : p < 2 ^ 63) (h : splitStoredHashIndex p = .ok (l, k)) :
    storedHashIndex l k = p :=
  TlogStore.storedHashIndex_split p l k hp h

example : (92 : Nat) < 2 ^ 63 ∧ isOk (splitStoredHashIndex 92) (3, 5) = true := by decide +kernel

/-- ★ `SplitStoredHashIndex` is total on the int64 range: its "bad math" panic is unreachable and its loop ends
    (the model's fuel `log2 p + 3` is never exhausted; the loop runs at most `(log2 p)/2 + 2` times). -/
theorem splitStoredHashIndex_total (p : Nat) (hp : p < 2 ^ 63) : ∃ l k, splitStoredHashIndex p = .ok (l, k) :=
  TlogStore.split_total p hp

/-- ★ on the dense store of `N` records the two maps are mutually inverse bijections between the positions
    `[0, StoredHashCount N)` and the complete subtrees `(l, k)`, `(k+1)·2^l ≤ N`, and `SplitStoredHashIndex` reads
    off the specification's layout. -/
theorem position_coordinate_bijection (N : Nat) (hN : N < 2 ^ 62) :
    (∀ p, p < storedHashCount N → ∃ l k, splitStoredHashIndex p = .ok (l, k) ∧
        (RFC6962.layout N)[p]? = some (l, k) ∧ (k + 1) * 2 ^ l ≤ N ∧ storedHashIndex l k = p) ∧
    (∀ l k, (k + 1) * 2 ^ l ≤ N → storedHashIndex l k < storedHashCount N ∧
        splitStoredHashIndex (storedHashIndex l k) = .ok (l, k)) := by
  have hcount : storedHashCount N = Tlog.S N := by
    rw [Tlog.storedHashCount_eq_index N (by omega), Tlog.storedHashIndex_zero_eq]
  have hS := Tlog.S_le_two_mul N
  constructor
  · intro p hp
    rw [hcount] at hp
    obtain ⟨l, k, h1, h2, h3⟩ := TlogStore.split_eq_layout N p hp (by omega)
    exact ⟨l, k, h1, h2, h3, TlogStore.storedHashIndex_split p l k (by omega) h1⟩
  · intro l k h
    have hlay := Tlog.storedHashIndex_layout N l k h
    have hlt : storedHashIndex l k < (RFC6962.layout N).length := by
      apply Nat.lt_of_not_le
      intro hc
      rw [List.getElem?_eq_none hc] at hlay
      cases hlay
    rw [Tlog.layout_length] at hlt
    exact ⟨by omega, TlogStore.split_storedHashIndex l k (by omega)⟩

example : (13 : Nat) < 2 ^ 62 := by decide

/-! ### the store invariant and the tree hash, for every log -/

/-- ★ Store invariant.  For every sequence `D` of records (fewer than `2^64`: `bits.TrailingZeros64` is the
    2-adic valuation only there), every hash function pair `leaf`/`node` and every value `empty`:
    appending the records one at a time and storing the returned hashes at consecutive positions never fails
    (every read of `StoredHashes` is inside the store), the store has the documented length, and every position
    `p`, whose coordinate in the specification's layout is `(l, k)`, holds the RFC 6962 tree hash of the records
    `[k·2^l, (k+1)·2^l)`.  (Proof: induction over the appended records, `TlogStore.appendAll_ok`.) -/
theorem store_invariant {H : Type} (leaf : Bytes → H) (node : H → H → H) (empty : H) (D : List Bytes)
    (hD : D.length < 2 ^ 64) :
    ∃ st, buildStore leaf node D = .ok st ∧ st.length = storedHashCount D.length ∧
      ∀ p l k : Nat, (RFC6962.layout D.length)[p]? = some (l, k) →
        st[p]? = some (RFC6962.mth node empty (RFC6962.leavesOf (D.map leaf) l k)) := by
  obtain ⟨st, h1, h2, h3⟩ := TlogStore.buildStore_ok leaf node empty D hD
  refine ⟨st, h1, ?_, h3⟩
  rw [h2, Tlog.storedHashCount_eq_index _ (by omega), Tlog.storedHashIndex_zero_eq]

/-- the same, as a statement about whatever store `buildStore` returned -/
theorem store_invariant_of_ok {H : Type} (leaf : Bytes → H) (node : H → H → H) (empty : H) (D : List Bytes)
    (hD : D.length < 2 ^ 64) (st : List H) (h : buildStore leaf node D = .ok st) :
    st.length = storedHashCount D.length ∧
      ∀ p l k : Nat, (RFC6962.layout D.length)[p]? = some (l, k) →
        st[p]? = some (RFC6962.mth node empty (RFC6962.leavesOf (D.map leaf) l k)) := by
  obtain ⟨st', h1, h2⟩ := store_invariant leaf node empty D hD
  rw [h1] at h
  cases h
  exact h2

/-- in particular every complete subtree `(l, k)` of the log is stored at `StoredHashIndex(l, k)` -/
theorem store_get {H : Type} (leaf : Bytes → H) (node : H → H → H) (empty : H) (D : List Bytes)
    (hD : D.length < 2 ^ 64) (st : List H) (h : buildStore leaf node D = .ok st) (l k : Nat)
    (hk : (k + 1) * 2 ^ l ≤ D.length) :
    st[storedHashIndex l k]? = some (RFC6962.mth node empty (RFC6962.leavesOf (D.map leaf) l k)) :=
  (store_invariant_of_ok leaf node empty D hD st h).2 _ l k (Tlog.storedHashIndex_layout D.length l k hk)

/-- non-vacuity: the 13-record example log satisfies the hypotheses (and `store_witness` evaluates the conclusion) -/
example : (recs 13).length < 2 ^ 64 ∧ ∃ st, buildStore TH.leaf TH.node (recs 13) = .ok st := by
  refine ⟨by decide, ?_⟩
  obtain ⟨st, h, _⟩ := store_invariant TH.leaf TH.node TH.empty (recs 13) (by decide)
  exact ⟨st, h⟩

/-- ★ `subTreeIndex lo hi` (no panic, no fuel exhaustion) lists the positions `StoredHashIndex(l, k)` of the maximal
    complete subtrees covering `[lo, hi)` from left to right, for every interval inside one aligned block
    (in particular `lo = 0`), on the int64 range; `numTree` of `subTreeHash` counts the same blocks. -/
theorem subTreeIndex_spec (lo hi : Nat) (hle : lo ≤ hi) (hal : TlogStore.Aligned lo hi) (hr : hi < 2 ^ 63) :
    ∃ cs : List (Nat × Nat),
      subTreeIndex lo hi = .ok (cs.map fun c => storedHashIndex c.1 c.2) ∧
      numTreeF (hi - lo) lo hi = .ok cs.length ∧ TlogStore.Cover cs lo hi :=
  TlogStore.subTreeIndex_spec lo hi hle hal hr

example : TlogStore.Aligned 0 13 ∧ TlogStore.Aligned 8 13 := by
  refine ⟨TlogStore.aligned_zero 13, 3, ⟨1, by decide⟩, by decide⟩

/-- ★ `TreeHash(m)` over the store built from `D` is the RFC 6962 Merkle tree hash of the first `m` records, for every
    `m ≤ |D|` (`m < 2^63`: an int64). -/
theorem treeHash_eq_mth {H : Type} (leaf : Bytes → H) (node : H → H → H) (empty : H) (D : List Bytes)
    (hD : D.length < 2 ^ 64) (st : List H) (h : buildStore leaf node D = .ok st) (m : Nat)
    (hm : m ≤ D.length) (hr : m < 2 ^ 63) :
    treeHash node empty m (storeReader st) = .ok (RFC6962.mth node empty ((D.map leaf).take m)) :=
  TlogStore.treeHash_of_storeOK leaf node empty D st
    (TlogStore.storeOK_of_buildStore leaf node empty D hD st h) m hm hr

/-- non-vacuity of `treeHash_eq_mth`: the example log, `m = 7` -/
example : ∃ st, buildStore TH.leaf TH.node (recs 13) = .ok st ∧ 7 ≤ (recs 13).length ∧ 7 < 2 ^ 63 := by
  obtain ⟨st, h, _⟩ := store_invariant TH.leaf TH.node TH.empty (recs 13) (by decide)
  exact ⟨st, h, by decide, by decide⟩

/-- ★★ Property C09 in one statement.  For every sequence `D` of fewer than `2^62` records (so that every position is an
    int64), every `leaf`/`node` and every `empty`: appending the records one at a time and storing the returned hashes at
    consecutive positions succeeds and yields a store `st` such that
    (1) its length is the documented `StoredHashCount`;
    (2) every position `p` of the store splits into a coordinate `(l, k)` of a complete subtree of the log,
        `StoredHashIndex(l, k) = p`, and `st[p]` is the RFC 6962 hash of the records `[k·2^l, (k+1)·2^l)`;
    (3) conversely every complete subtree `(l, k)` of the log has its position inside the store and splits back;
    (4) for every `m ≤ |D|`, `TreeHash(m)` over the store is the RFC 6962 Merkle tree hash of the first `m` records. -/
theorem C09_main {H : Type} (leaf : Bytes → H) (node : H → H → H) (empty : H) (D : List Bytes)
    (hD : D.length < 2 ^ 62) :
    ∃ st, buildStore leaf node D = .ok st ∧ st.length = storedHashCount D.length ∧
      (∀ p, p < st.length → ∃ l k, splitStoredHashIndex p = .ok (l, k) ∧ storedHashIndex l k = p ∧
          (k + 1) * 2 ^ l ≤ D.length ∧
          st[p]? = some (RFC6962.mth node empty (RFC6962.leavesOf (D.map leaf) l k))) ∧
      (∀ l k, (k + 1) * 2 ^ l ≤ D.length → storedHashIndex l k < st.length ∧
          splitStoredHashIndex (storedHashIndex l k) = .ok (l, k)) ∧
      (∀ m, m ≤ D.length →
          treeHash node empty m (storeReader st) = .ok (RFC6962.mth node empty ((D.map leaf).take m))) := by
  obtain ⟨st, h1, h2, h3⟩ := store_invariant leaf node empty D (by omega)
  obtain ⟨b1, b2⟩ := position_coordinate_bijection D.length hD
  refine ⟨st, h1, h2, ?_, ?_, ?_⟩
  · intro p hp
    obtain ⟨l, k, c1, c2, c3, c4⟩ := b1 p (by omega)
    exact ⟨l, k, c1, c4, c3, h3 p l k c2⟩
  · intro l k hk
    rw [h2]
    exact b2 l k hk
  · intro m hm
    exact treeHash_eq_mth leaf node empty D (by omega) st h1 m hm (by omega)

example : (recs 13).length < 2 ^ 62 := by decide

/-! ### no int64 overflow for logs of fewer than 2^61 records -/

/-- StoredHashIndex(l, k) for a complete subtree of a log of `N < 2^61` records: the loop variable `n` of the first
    loop stays below `N`, the level below 61, every partial sum of the second loop below `2^62`, the result below
    `2^63`. -/
theorem storedHashIndex_int64 (N l k : Nat) (hN : N < 2 ^ 61) (h : (k + 1) * 2 ^ l ≤ N) :
    (∀ j, j ≤ l → descend j k < N) ∧ l < 61 ∧ (∀ f, sumHalves f (descend l k) < 2 ^ 62) ∧
      storedHashIndex l k < 2 ^ 63 :=
  TlogStore.storedHashIndex_int64 N l k hN h

example : (13 : Nat) < 2 ^ 61 ∧ (1 + 1) * 2 ^ 2 ≤ 13 := by decide

/-- StoredHashCount(N) ≤ 2N -/
theorem storedHashCount_int64 (N : Nat) (hN : N ≤ 2 ^ 64) : storedHashCount N ≤ 2 * N :=
  TlogStore.storedHashCount_int64 N hN

/-- SplitStoredHashIndex(index), `index < 2^62`: with `n` any record whose leaf is at or before `index`, the start value
    satisfies `StoredHashIndex(0, index/2) ≤ index` and every `x` the loop computes up to `n` is at most `2·(index+1)`. -/
theorem split_int64 (index n : Nat) (h1 : storedHashIndex 0 n ≤ index) (hr : index < 2 ^ 62) :
    storedHashIndex 0 (index / 2) ≤ index ∧
      ∀ n', n' ≤ n → storedHashIndex 0 n' + 1 + trailingZeros64 (n' + 1) ≤ 2 * (index + 1) := by
  simp only [Tlog.storedHashIndex_zero_eq] at h1 ⊢
  exact TlogStore.split_int64 index n h1 hr

example : storedHashIndex 0 3 ≤ 5 ∧ (5 : Nat) < 2 ^ 62 := by decide +kernel

/-- subTreeIndex(lo, hi), `hi < 2^61`: succeeds and every index it returns is below `2^63`. -/
theorem subTreeIndex_int64 (lo hi : Nat) (hle : lo ≤ hi) (hal : TlogStore.Aligned lo hi) (hr : hi < 2 ^ 61) :
    ∃ idx, subTreeIndex lo hi = .ok idx ∧ ∀ x ∈ idx, x < 2 ^ 63 :=
  TlogStore.subTreeIndex_int64 lo hi hle hal hr

/-! ### tree heads, records and hashes survive their text encodings unchanged -/

/-- ★ every tree head with a size in `[0, 2^63)` and a 32-byte hash survives FormatTree / ParseTree -/
theorem parseTree_formatTree (t : Tree) (hn : 0 ≤ t.n) (hm : t.n ≤ Decimal.int64Max) (hl : t.hash.length = 32) :
    parseTree (formatTree t) = some t :=
  TlogNote.parseTree_formatTree t hn hm hl

/-- ParseTree reads only the first three lines: anything after a formatted tree head is ignored (up to ParseTree's
    own 1 MB limit on the whole text) -/
theorem parseTree_ignores_later_lines (t : Tree) (extra : Bytes) (hn : 0 ≤ t.n) (hm : t.n ≤ Decimal.int64Max)
    (hl : t.hash.length = 32) (hx : (formatTree t ++ extra).length ≤ 1000000) :
    parseTree (formatTree t ++ extra) = some t :=
  TlogStore.parseTree_ignores_later_lines t extra hn hm hl hx

example : (formatTree ⟨5, List.replicate 32 7⟩ ++ B "extra line\n").length ≤ 1000000 := by decide +kernel

/-- ★ every record (any int64 id, any text FormatRecord accepts) survives FormatRecord / ParseRecord, and the
    parser stops exactly after it: whatever follows (`rest`, arbitrary bytes) is returned untouched -/
theorem parseRecord_formatRecord (id : Int) (text rest msg : Bytes)
    (h1 : Decimal.int64Min ≤ id) (h2 : id ≤ Decimal.int64Max) (hf : formatRecord id text = some msg) :
    parseRecord (msg ++ rest) = some (id, text, rest) :=
  TlogNote.parseRecord_formatRecord id text rest msg h1 h2 hf

/-- ★ every hash survives its base64 form … -/
theorem parseHash_hashString (h : Bytes) (hl : h.length = 32) : parseHash (hashString h) = some h :=
  TlogNote.parseHash_hashString h hl

/-- ★ … and its JSON form -/
theorem unmarshalJSON_marshalJSON (h : Bytes) (hl : h.length = 32) : unmarshalJSON (marshalJSON h) = some h :=
  TlogNote.unmarshalJSON_marshalJSON h hl

/-- non-vacuity: FormatRecord accepts ordinary record text -/
example : (formatRecord 7 (B "example.com/m v1.0.0 h1:abc=\n")).isSome = true := by decide +kernel

/-! ### concrete witnesses in the term algebra (kernel `decide`): logs of up to 13 records -/

/-- appending 13 records one at a time yields a dense store of the documented length whose coordinates are
    the specification's layout, each stored hash being the RFC 6962 hash of its complete subtree -/
theorem store_witness :
    (store 13).length = storedHashCount 13 ∧
    (store 13).length = (RFC6962.layout 13).length ∧
    (List.range (store 13).length).all (fun p =>
      match splitStoredHashIndex p with
      | .ok (l, k) =>
        (RFC6962.layout 13)[p]? = some (l, k) && storedHashIndex l k = p &&
        (store 13)[p]? = some (RFC6962.mth TH.node TH.empty (RFC6962.leavesOf ((recs 13).map TH.leaf) l k))
      | .error _ => false) = true := by decide +kernel

/-- the tree hash computed for every size `m ≤ 13` is the RFC 6962 Merkle tree hash of the first `m` records -/
theorem treeHash_witness :
    (List.range 14).all (fun m => isOk (treeHash TH.node TH.empty m (reader 13)) (root m)) = true := by
  decide +kernel

end ModVerif.Props.C09
