/-
  C09 — the log's tree hash and stored-hash layout are exactly RFC 6962 for every log; text codecs.
  Property theorems only; helpers in Proofs/TlogBasic.lean, Proofs/TlogTH.lean, Proofs/TlogCodec.lean.
  The deep theorems (storedHashIndex_layout, split/index bijection, storedHashCount_eq, store_invariant,
  treeHash_eq_mth) are stated in lean/PENDING.md.
-/
import ModVerif.Model.Tlog
import ModVerif.Model.TlogNote
import ModVerif.Spec.RFC6962
import ModVerif.Proofs.TlogBasic
import ModVerif.Proofs.TlogTH
import ModVerif.Proofs.TlogIndex
import ModVerif.Proofs.TlogCodec
namespace ModVerif.Props.C09
open ModVerif ModVerif.Tlog ModVerif.TlogTH ModVerif.TlogNote

/-- `maxpow2 n = (k, l)`: `k = 2^l`, `k < n ≤ 2k` — the RFC 6962 split point — for every `n` in the int64
    range (`n ≤ 2^63`); the `l < 62` guard (fix 8e3ce2a) never cuts the loop short there. -/
theorem maxpow2_spec (n : Nat) (h1 : 1 < n) (h2 : n ≤ 2 ^ 63) :
    (maxpow2 n).1 = 2 ^ (maxpow2 n).2 ∧ (maxpow2 n).1 < n ∧ n ≤ 2 * (maxpow2 n).1 := by
  obtain ⟨a, b, c, d⟩ := maxpow2_spec' n h1
  refine ⟨a, b, ?_⟩
  rcases d with d | d
  · exact d
  · rw [a, d]; omega

/-- …and it is the specification's split point: the largest power of two smaller than `n`. -/
theorem maxpow2_eq_splitPoint (n : Nat) (h1 : 1 < n) (h2 : n ≤ 2 ^ 63) :
    (maxpow2 n).1 = RFC6962.splitPoint n := by
  obtain ⟨a, b, c⟩ := maxpow2_spec n h1 h2
  unfold RFC6962.splitPoint
  rw [a]
  congr 1
  have hpos : n - 1 ≠ 0 := by omega
  have hl := Nat.log2_lt hpos (k := (maxpow2 n).2 + 1) |>.mpr (by rw [Nat.pow_succ]; omega)
  have hu : 2 ^ (maxpow2 n).2 ≤ n - 1 := by omega
  have := (Nat.le_log2 hpos).mpr hu
  omega

/-- beyond the int64 range the loop stops at `2^62` instead of running forever (F7) -/
theorem maxpow2_terminates_beyond_range : maxpow2 (2 ^ 64 + 5) = (2 ^ 62, 62) := by decide +kernel

/-! ### the dense layout -/

/-- ★ `StoredHashIndex(level, k)` is the position of coordinate `(level, k)` in the specification's layout
    (records in order, for record `i` the levels `0 .. tz (i+1)`) of every log that contains the complete
    subtree `(level, k)`.  Hence the map (level, k) ↦ position is injective on the coordinates of a log and
    its image lies inside the dense store. -/
theorem storedHashIndex_layout (n l k : Nat) (h : (k + 1) * 2 ^ l ≤ n) :
    (RFC6962.layout n)[storedHashIndex l k]? = some (l, k) :=
  Tlog.storedHashIndex_layout n l k h

/-- injectivity of the position map, as a corollary -/
theorem storedHashIndex_injective (n l k l' k' : Nat) (h : (k + 1) * 2 ^ l ≤ n) (h' : (k' + 1) * 2 ^ l' ≤ n)
    (heq : storedHashIndex l k = storedHashIndex l' k') : l = l' ∧ k = k' := by
  have a := Tlog.storedHashIndex_layout n l k h
  have b := Tlog.storedHashIndex_layout n l' k' h'
  rw [heq, b] at a
  simp at a
  omega

/-- ★ the documented count is the length of the layout … -/
theorem storedHashCount_eq (n : Nat) (h : n ≤ 2 ^ 64) : storedHashCount n = (RFC6962.layout n).length := by
  rw [Tlog.layout_length, Tlog.storedHashCount_eq_index n h, Tlog.storedHashIndex_zero_eq]

/-- … and the position at which the next record's hashes are to be stored (doc of StoredHashes). -/
theorem storedHashCount_eq_next_leaf (n : Nat) (h : n ≤ 2 ^ 64) : storedHashCount n = storedHashIndex 0 n :=
  Tlog.storedHashCount_eq_index n h

/-- "Each new record n adds 1 + trailingZeros(n+1) hashes." -/
theorem storedHashIndex_zero_succ (n : Nat) :
    storedHashIndex 0 (n + 1) = storedHashIndex 0 n + 1 + RFC6962.tz (n + 1) :=
  Tlog.storedHashIndex_zero_succ n

/-! ### tree heads, records and hashes survive their text encodings unchanged -/

/-- ★ every tree head with a size in `[0, 2^63)` and a 32-byte hash survives FormatTree / ParseTree -/
theorem parseTree_formatTree (t : Tree) (hn : 0 ≤ t.n) (hm : t.n ≤ Decimal.int64Max) (hl : t.hash.length = 32) :
    parseTree (formatTree t) = some t :=
  TlogNote.parseTree_formatTree t hn hm hl

/-- ★ every record (any int64 id, any text FormatRecord accepts) survives FormatRecord / ParseRecord, and the
    parser stops exactly after it: whatever follows (`rest`, arbitrary bytes) is returned untouched -/
theorem parseRecord_formatRecord (id : Int) (text rest msg : Bytes)
    (h1 : Decimal.int64Min ≤ id) (h2 : id ≤ Decimal.int64Max) (hf : formatRecord id text = some msg) :
    parseRecord (msg ++ rest) = some (id, text, rest) :=
  TlogNote.parseRecord_formatRecord id text rest msg h1 h2 hf

/-- ★ every hash survives its base64 form … -/
theorem parseHash_hashString (h : Bytes) (hl : h.length = 32) : parseHash (hashString h) = some h :=
  TlogNote.parseHash_hashString h hl

/-- ★ … and its JSON form -/
theorem unmarshalJSON_marshalJSON (h : Bytes) (hl : h.length = 32) : unmarshalJSON (marshalJSON h) = some h :=
  TlogNote.unmarshalJSON_marshalJSON h hl

/-- non-vacuity: FormatRecord accepts ordinary record text -/
example : (formatRecord 7 (B "example.com/m v1.0.0 h1:abc=\n")).isSome = true := by decide +kernel

/-! ### concrete witnesses in the term algebra (kernel `decide`): logs of up to 13 records -/

/-- appending 13 records one at a time yields a dense store of the documented length whose coordinates are
    the specification's layout, each stored hash being the RFC 6962 hash of its complete subtree -/
theorem store_witness :
    (store 13).length = storedHashCount 13 ∧
    (store 13).length = (RFC6962.layout 13).length ∧
    (List.range (store 13).length).all (fun p =>
      match splitStoredHashIndex p with
      | .ok (l, k) =>
        (RFC6962.layout 13)[p]? = some (l, k) && storedHashIndex l k = p &&
        (store 13)[p]? = some (RFC6962.mth TH.node TH.empty (RFC6962.leavesOf ((recs 13).map TH.leaf) l k))
      | .error _ => false) = true := by decide +kernel

/-- the tree hash computed for every size `m ≤ 13` is the RFC 6962 Merkle tree hash of the first `m` records -/
theorem treeHash_witness :
    (List.range 14).all (fun m => isOk (treeHash TH.node TH.empty m (reader 13)) (root m)) = true := by
  decide +kernel

end ModVerif.Props.C09
