/-
  C09 — the log's tree hash and stored-hash layout are exactly RFC 6962 for every log; text codecs.
  Property theorems only; helpers in Proofs/TlogBasic.lean, Proofs/TlogTH.lean, Proofs/TlogCodec.lean.
  The deep theorems (storedHashIndex_layout, split/index bijection, storedHashCount_eq, store_invariant,
  treeHash_eq_mth) are stated in lean/PENDING.md.
-/
import ModVerif.Model.Tlog
import ModVerif.Model.TlogNote
import ModVerif.Spec.RFC6962
import ModVerif.Proofs.TlogBasic
import ModVerif.Proofs.TlogTH
namespace ModVerif.Props.C09
open ModVerif ModVerif.Tlog ModVerif.TlogTH

/-- `maxpow2 n = (k, l)`: `k = 2^l`, `k < n ≤ 2k` — the RFC 6962 split point — for every `n` in the int64
    range (`n ≤ 2^63`); the `l < 62` guard (fix 8e3ce2a) never cuts the loop short there. -/
theorem maxpow2_spec (n : Nat) (h1 : 1 < n) (h2 : n ≤ 2 ^ 63) :
    (maxpow2 n).1 = 2 ^ (maxpow2 n).2 ∧ (maxpow2 n).1 < n ∧ n ≤ 2 * (maxpow2 n).1 := by
  obtain ⟨a, b, c, d⟩ := maxpow2_spec' n h1
  refine ⟨a, b, ?_⟩
  rcases d with d | d
  · exact d
  · rw [a, d]; omega

/-- …and it is the specification's split point: the largest power of two smaller than `n`. -/
theorem maxpow2_eq_splitPoint (n : Nat) (h1 : 1 < n) (h2 : n ≤ 2 ^ 63) :
    (maxpow2 n).1 = RFC6962.splitPoint n := by
  obtain ⟨a, b, c⟩ := maxpow2_spec n h1 h2
  unfold RFC6962.splitPoint
  rw [a]
  congr 1
  have hpos : n - 1 ≠ 0 := by omega
  have hl := Nat.log2_lt hpos (k := (maxpow2 n).2 + 1) |>.mpr (by rw [Nat.pow_succ]; omega)
  have hu : 2 ^ (maxpow2 n).2 ≤ n - 1 := by omega
  have := (Nat.le_log2 hpos).mpr hu
  omega

/-- beyond the int64 range the loop stops at `2^62` instead of running forever (F7) -/
theorem maxpow2_terminates_beyond_range : maxpow2 (2 ^ 64 + 5) = (2 ^ 62, 62) := by decide +kernel

/-! ### concrete witnesses in the term algebra (kernel `decide`): logs of up to 13 records -/

/-- appending 13 records one at a time yields a dense store of the documented length whose coordinates are
    the specification's layout, each stored hash being the RFC 6962 hash of its complete subtree -/
theorem store_witness :
    (store 13).length = storedHashCount 13 ∧
    (store 13).length = (RFC6962.layout 13).length ∧
    (List.range (store 13).length).all (fun p =>
      match splitStoredHashIndex p with
      | .ok (l, k) =>
        (RFC6962.layout 13)[p]? = some (l, k) && storedHashIndex l k = p &&
        (store 13)[p]? = some (RFC6962.mth TH.node TH.empty (RFC6962.leavesOf ((recs 13).map TH.leaf) l k))
      | .error _ => false) = true := by decide +kernel

/-- the tree hash computed for every size `m ≤ 13` is the RFC 6962 Merkle tree hash of the first `m` records -/
theorem treeHash_witness :
    (List.range 14).all (fun m => isOk (treeHash TH.node TH.empty m (reader 13)) (root m)) = true := by
  decide +kernel

end ModVerif.Props.C09
