/-
  C20 — Parsing is total, positioned, and lax mode accepts everything strict mode does.
  Property theorems only; helper lemmas live in ModVerif/Proofs/Modfile*.lean.
  Statements not yet proved are in lean/PENDING.md.
-/
import ModVerif.Model.Modfile.Work
import ModVerif.Proofs.ModfileWitness
import ModVerif.Proofs.ModfileLex
import ModVerif.Proofs.ModfileParse
import ModVerif.Proofs.ModfileRule
import ModVerif.Proofs.ModfilePos
namespace ModVerif.Props.C20
open ModVerif ModVerif.Modfile

/-! ### total: a result or an error list, never anything else -/

/-- The syntax-only parser returns a tree or one positioned error (the model is a total function, so
    "never panics, never hangs" is by construction: all recursion is structural on explicit fuel). -/
theorem parse_total (name data : Bytes) :
    (∃ t, parse name data = .ok t) ∨ (∃ e, parse name data = .error e) := by
  cases h : parse name data with
  | ok t => exact Or.inl ⟨t, rfl⟩
  | error e => exact Or.inr ⟨e, rfl⟩

/-- Parse / ParseLax return a file or a NON-EMPTY error list. -/
theorem parseToFile_total (name data : Bytes) (fix : Option Fixer) (strict : Bool) :
    (∃ f, parseToFile name data fix strict = .ok f) ∨
    (∃ es, parseToFile name data fix strict = .error es ∧ es ≠ []) := by
  unfold parseToFile
  split
  · exact Or.inr ⟨_, rfl, by simp⟩
  · simp only
    split
    · exact Or.inl ⟨_, rfl⟩
    · rename_i h
      refine Or.inr ⟨_, rfl, ?_⟩
      intro hr
      apply h
      have := congrArg List.reverse hr
      simp only [List.reverse_reverse, List.reverse_nil] at this
      rw [this]; rfl

/-- ParseWork returns a file or a NON-EMPTY error list. -/
theorem parseWork_total (name data : Bytes) (fix : Option Fixer) :
    (∃ f, parseWork name data fix = .ok f) ∨
    (∃ es, parseWork name data fix = .error es ∧ es ≠ []) := by
  unfold parseWork
  split
  · exact Or.inr ⟨_, rfl, by simp⟩
  · simp only
    split
    · exact Or.inl ⟨_, rfl⟩
    · rename_i h
      refine Or.inr ⟨_, rfl, ?_⟩
      intro hr
      apply h
      have := congrArg List.reverse hr
      simp only [List.reverse_reverse, List.reverse_nil] at this
      rw [this]; rfl

/-! ### no internal error -/

/-- No input makes the syntax-only parser report an internal error: "internal lexer error: readRune at
    EOF", "internal parse error: parseLine at end of line" and the model's out-of-fuel marker (the
    counterpart of a hang) are unreachable, for every byte string. -/
theorem parse_no_internal_error (name data : Bytes) (e : SynErr) (h : parse name data = .error e) :
    ∀ t, e.kind ≠ .internal t :=
  Proofs.ModfileParse.parse_noInternal name data e h

/-- The lexer alone: whatever state it is called in, `readToken` reports no internal error, never
    reads past the end of the input, and every token other than EOF consumes at least one byte. -/
theorem readToken_no_internal_error (i : Input) :
    (∃ i', readToken i = .ok i' ∧ i'.remaining.length ≤ i.remaining.length ∧
        (i'.token.kind ≠ .eof → i'.remaining.length < i.remaining.length)) ∨
    (∃ e, readToken i = .error e ∧ ∀ t, e.kind ≠ .internal t) := by
  rcases Proofs.ModfileLex.readToken_spec i with ⟨i', h, h1, h2, _⟩ | ⟨e, h, hn⟩
  · exact Or.inl ⟨i', h, h1, h2⟩
  · exact Or.inr ⟨e, h, hn⟩

/-- When the syntax layer fails, Parse, ParseLax (any fixer) report exactly that one positioned error,
    and it is not an internal error. -/
theorem parseToFile_syntax_error (name data : Bytes) (fix : Option Fixer) (strict : Bool) (e : SynErr)
    (h : parse name data = .error e) :
    parseToFile name data fix strict = .error [⟨e.pos, .syn e.kind⟩] ∧ ∀ t, e.kind ≠ .internal t := by
  refine ⟨?_, parse_no_internal_error name data e h⟩
  unfold parseToFile
  simp [h]

/-! ### positions -/

/-- `pos_consistent`, the part proved so far: byte offsets of tokens.  In every lexer state the parser
    can be in (`Reach`: prime with `readToken`, then `readToken` again and again; the parser otherwise
    only bumps its line counter), the pending token's text — for comments: without the trailing
    newline — is found in the input at `token.pos.byte`, the token ends at `token.endPos.byte`, which
    is the lexer's current offset (the `Pos` of any error reported next), that offset is inside the
    input and the rest of the input starts there.  Missing (lean/PENDING.md): the `Line`/`LineRune`
    components, and the lifting to the positions stored in the tree, which the parser copies from
    these tokens. -/
theorem pos_consistent_tokens_partial (data : Bytes) (i : Input) (h : Proofs.ModfilePos.Reach data i) :
    i.token.text <+: data.drop i.token.pos.byte ∧
    i.token.endPos.byte = i.pos.byte ∧
    i.token.pos.byte + i.tokRev.length = i.token.endPos.byte ∧
    data.drop i.pos.byte = i.remaining ∧ i.pos.byte ≤ data.length :=
  Proofs.ModfilePos.tokOK_spec (Proofs.ModfilePos.reach_tokOK h)

/-- Non-vacuity: the states reached while lexing `module  x // c` are `Reach`able, and the second
    token `x` is reported at byte 8. -/
example :
    let data := B "module  x // c\n"
    (match readToken (newInput data) with
     | .ok i1 => (match readToken i1 with
                  | .ok i2 => decide (i2.token.text = B "x" ∧ i2.token.pos = ⟨1, 9, 8⟩ ∧ i2.token.endPos = ⟨1, 10, 9⟩)
                  | .error _ => false)
     | .error _ => false) = true := by decide +kernel

/-! ### lax ⊇ strict, piecewise -/

/-- Strict and lax mode fail identically on syntax errors (same error, same position). -/
theorem lax_eq_strict_on_syntax_error (name data : Bytes) (fix : Option Fixer) (e : SynErr)
    (h : parse name data = .error e) :
    parseToFile name data fix false = parseToFile name data fix true := by
  rw [(parseToFile_syntax_error name data fix false e h).1, (parseToFile_syntax_error name data fix true e h).1]

/-- The step of `lax_superset`: on a go / module / retract / require line that the strict directive
    layer accepts (it adds no error), the lax directive layer computes the same typed entries and the
    same rewritten tokens. -/
theorem lax_superset_line (st : AddState) (block : Option Comments) (line : Line) (verb : Bytes)
    (args : List Bytes) (fix : Option Fixer) (hv : verbIn verb laxVerbs = true)
    (hok : (File.add st block line verb args fix true).1.errsRev = st.errsRev) :
    File.add st block line verb args fix false = File.add st block line verb args fix true :=
  Proofs.ModfileRule.add_strict_ok_lax st block line verb args fix hv hok

/-- `lax_ignores_unknown`, line form: in lax mode a line whose verb is not go / module / retract /
    require changes neither the typed file, nor the error list, nor its own tokens. -/
theorem lax_ignores_unknown_line (st : AddState) (block : Option Comments) (line : Line) (verb : Bytes)
    (args : List Bytes) (fix : Option Fixer) (h : verbIn verb laxVerbs = false) :
    File.add st block line verb args fix false = (st, args) :=
  Proofs.ModfileRule.add_lax_ignores st block line verb args fix h

/-- `lax_ignores_unknown`, block form: in lax mode a block whose header is not a single known block
    verb is skipped without an error (whatever its lines contain). -/
theorem lax_ignores_unknown_block (st : AddState) (b : LineBlock) (fix : Option Fixer) (rest : List Expr)
    (h : ∀ verb, b.token = [verb] → verbIn verb blockVerbs = false) :
    addStmts fix false st (.lineBlock b :: rest) =
      ((addStmts fix false st rest).1, .lineBlock b :: (addStmts fix false st rest).2) := by
  simp only [addStmts]
  split
  · rename_i verb hv
    simp [h verb hv]
  · rfl

/-- Non-vacuity of `lax_ignores_unknown_*`: a file with an unknown directive and an unknown block is
    rejected by the strict parser and accepted by the lax parser with the module / go / require of
    the same file without them. -/
example :
    let x := B "module example.com/m\ngo 1.21\nfrobnicate a b\nfuture (\n\tx y\n)\nrequire a.b/c v1.0.0\n"
    let y := B "module example.com/m\ngo 1.21\nrequire a.b/c v1.0.0\n"
    (parseToFile (B "go.mod") x none true).toOption.isNone = true ∧
    (match parseToFile (B "go.mod") x none false, parseToFile (B "go.mod") y none true with
     | .ok f, .ok g => decide (f.module.map (·.mod) = g.module.map (·.mod) ∧ f.go.map (·.version) = g.go.map (·.version) ∧
                                f.require.map (·.mod) = g.require.map (·.mod))
     | _, _ => false) = true := by decide +kernel

/-! ### ModulePath -/

/-- The F8 input: a `require` block containing a line whose first token is `module`, before the real
    module directive. -/
def f8Input : Bytes := B "require (\n\tmodule v1.0.0\n)\nmodule example.com/m\n"

/-- The last clause of C20 is FALSE on the current tree (finding F8, oracle signature
    `modulepath-block-line`): the strict parser accepts `f8Input`, its module directive is the single
    line `module example.com/m` naming a valid import path, yet the quick module-path extractor
    returns `v1.0.0`. -/
theorem C20_violated_modulePath_block_line :
    ∃ f m, parseToFile (B "go.mod") f8Input none true = .ok f ∧ f.module = some m ∧
      (f.syn.findLine m.lineId).map (·.inBlock) = some false ∧
      Module.checkImportPath m.mod.path = .ok () ∧
      modulePath f8Input ≠ m.mod.path :=
  Proofs.ModfileWitness.modulePathDisagrees_spec (by decide +kernel)

/-- A second input on which the same clause fails (found by the thorough-tier oracle, signature
    `modulepath-module-block-header`): an EMPTY `module ( )` block defines no module, the strict parser
    takes the later single-line directive, but the line scanner returns the `(` of the block header. -/
def f8bInput : Bytes := B "module (\n)\nmodule example.com/m\n"

theorem C20_violated_modulePath_module_block_header :
    ∃ f m, parseToFile (B "go.mod") f8bInput none true = .ok f ∧ f.module = some m ∧
      (f.syn.findLine m.lineId).map (·.inBlock) = some false ∧
      Module.checkImportPath m.mod.path = .ok () ∧
      modulePath f8bInput ≠ m.mod.path :=
  Proofs.ModfileWitness.modulePathDisagrees_spec (by decide +kernel)

/-- Non-vacuity of the agreement clause: on an ordinary file ModulePath and the strict parser agree. -/
example :
    let x := B "// doc\nmodule \"example.com/m\" // c\n\ngo 1.21\n"
    (match parseToFile (B "go.mod") x none true with
     | .ok f => decide (f.module.map (·.mod.path) = some (modulePath x))
     | .error _ => false) = true := by decide +kernel

end ModVerif.Props.C20
