/-
  C20 — Parsing is total, positioned, and lax mode accepts everything strict mode does.
  Property theorems only; helper lemmas live in ModVerif/Proofs/Modfile*.lean.
  Statements not yet proved are in lean/PENDING.md.
-/
import ModVerif.Model.Modfile.Work
import ModVerif.Proofs.ModfileWitness
import ModVerif.Proofs.ModfileLex
import ModVerif.Proofs.ModfileParse
import ModVerif.Proofs.ModfileRule
import ModVerif.Proofs.ModfilePos
import ModVerif.Proofs.ModfileC20Tree
import ModVerif.Proofs.ModfileC20Stmts
import ModVerif.Proofs.ModfileC20Lax
import ModVerif.Proofs.ModfileC20Ignore
import ModVerif.Proofs.ModfileC20ModFinal
import ModVerif.Proofs.ModfileC20Comment
import ModVerif.Proofs.ModfileC20End
import ModVerif.Proofs.ModfileC20AppendFinal
namespace ModVerif.Props.C20
open ModVerif ModVerif.Modfile

/-! ### total: a result or an error list, never anything else -/

/-- The syntax-only parser returns a tree or one positioned error (the model is a total function, so
    "never panics, never hangs" is by construction: all recursion is structural on explicit fuel). -/
theorem parse_total (name data : Bytes) :
    (∃ t, parse name data = .ok t) ∨ (∃ e, parse name data = .error e) := by
  cases h : parse name data with
  | ok t => exact Or.inl ⟨t, rfl⟩
  | error e => exact Or.inr ⟨e, rfl⟩

/-- Parse / ParseLax return a file or a NON-EMPTY error list. -/
theorem parseToFile_total (name data : Bytes) (fix : Option Fixer) (strict : Bool) :
    (∃ f, parseToFile name data fix strict = .ok f) ∨
    (∃ es, parseToFile name data fix strict = .error es ∧ es ≠ []) := by
  unfold parseToFile
  split
  · exact Or.inr ⟨_, rfl, by simp⟩
  · simp only
    split
    · exact Or.inl ⟨_, rfl⟩
    · rename_i h
      refine Or.inr ⟨_, rfl, ?_⟩
      intro hr
      apply h
      have := congrArg List.reverse hr
      simp only [List.reverse_reverse, List.reverse_nil] at this
      rw [this]; rfl

/-- ParseWork returns a file or a NON-EMPTY error list. -/
theorem parseWork_total (name data : Bytes) (fix : Option Fixer) :
    (∃ f, parseWork name data fix = .ok f) ∨
    (∃ es, parseWork name data fix = .error es ∧ es ≠ []) := by
  unfold parseWork
  split
  · exact Or.inr ⟨_, rfl, by simp⟩
  · simp only
    split
    · exact Or.inl ⟨_, rfl⟩
    · rename_i h
      refine Or.inr ⟨_, rfl, ?_⟩
      intro hr
      apply h
      have := congrArg List.reverse hr
      simp only [List.reverse_reverse, List.reverse_nil] at this
      rw [this]; rfl

/-! ### no internal error -/

/-- No input makes the syntax-only parser report an internal error: "internal lexer error: readRune at
    EOF", "internal parse error: parseLine at end of line" and the model's out-of-fuel marker (the
    counterpart of a hang) are unreachable, for every byte string. -/
theorem parse_no_internal_error (name data : Bytes) (e : SynErr) (h : parse name data = .error e) :
    ∀ t, e.kind ≠ .internal t :=
  Proofs.ModfileParse.parse_noInternal name data e h

/-- The lexer alone: whatever state it is called in, `readToken` reports no internal error, never
    reads past the end of the input, and every token other than EOF consumes at least one byte. -/
theorem readToken_no_internal_error (i : Input) :
    (∃ i', readToken i = .ok i' ∧ i'.remaining.length ≤ i.remaining.length ∧
        (i'.token.kind ≠ .eof → i'.remaining.length < i.remaining.length)) ∨
    (∃ e, readToken i = .error e ∧ ∀ t, e.kind ≠ .internal t) := by
  rcases Proofs.ModfileLex.readToken_spec i with ⟨i', h, h1, h2, _⟩ | ⟨e, h, hn⟩
  · exact Or.inl ⟨i', h, h1, h2⟩
  · exact Or.inr ⟨e, h, hn⟩

/-- When the syntax layer fails, Parse, ParseLax (any fixer) report exactly that one positioned error,
    and it is not an internal error. -/
theorem parseToFile_syntax_error (name data : Bytes) (fix : Option Fixer) (strict : Bool) (e : SynErr)
    (h : parse name data = .error e) :
    parseToFile name data fix strict = .error [⟨e.pos, .syn e.kind⟩] ∧ ∀ t, e.kind ≠ .internal t := by
  refine ⟨?_, parse_no_internal_error name data e h⟩
  unfold parseToFile
  simp [h]

/-- The directive layer never reports an internal error either (`directive_layer_no_internal_error`):
    whatever Parse / ParseLax return as an error list, no entry is "internal lexer error", "internal parse
    error" or the model's out-of-fuel marker — when the syntax layer succeeds no entry has a syntax-layer
    kind at all (`Proofs.ModfileC20.addStmts_errs`, `fixRetract_errs`: every error of `File.add`,
    `parseToFile` and `fixRetract` is created with a directive-layer kind). -/
theorem directive_layer_no_internal_error (name data : Bytes) (fix : Option Fixer) (strict : Bool)
    (es : List RuleErr) (h : parseToFile name data fix strict = .error es) :
    ∀ e ∈ es, ∀ t, e.kind ≠ .syn (.internal t) :=
  (Proofs.ModfileC20.parseToFile_errors name data fix strict es h).2

/-- The same for ParseWork. -/
theorem directive_layer_no_internal_error_work (name data : Bytes) (fix : Option Fixer)
    (es : List RuleErr) (h : parseWork name data fix = .error es) :
    ∀ e ∈ es, ∀ t, e.kind ≠ .syn (.internal t) :=
  (Proofs.ModfileC20.parseWork_errors name data fix es h).2

/-- Non-vacuity: a file with directive-layer errors (two of them) in strict mode, for go.mod and go.work. -/
example :
    (match parseToFile (B "go.mod") (B "module a\nfrobnicate x\ngo 1\n") none true with
     | .error es => decide (es.length = 2)
     | .ok _ => false) = true ∧
    (match parseWork (B "go.work") (B "go 1.21\nfrobnicate x\nuse (\n\ta b\n)\n") none with
     | .error es => decide (es.length = 2)
     | .ok _ => false) = true := by decide +kernel

/-- `File.add`'s if-chain and the regenerated verb list agree: a verb outside `addVerbs`
    (`Tie.modfile_addVerbs_tie`: the case labels of File.add's switch regenerated from rule.go) gets
    "unknown directive" in strict mode; likewise `WorkFile.add` and `workVerbs`. -/
theorem unknown_verb_unknownDirective (st : AddState) (block : Option Comments) (line : Line) (verb : Bytes)
    (args : List Bytes) (fix : Option Fixer) (h : verbIn verb addVerbs = false) :
    File.add st block line verb args fix true = (st.err line.start .unknownDirective, args) :=
  Proofs.ModfileC20.add_unknown_verb st block line verb args fix h

theorem unknown_verb_unknownDirective_work (st : WorkState) (line : Line) (verb : Bytes)
    (args : List Bytes) (fix : Option Fixer) (h : verbIn verb workVerbs = false) :
    WorkFile.add st line verb args fix = (st.err line.start .unknownDirective, args) :=
  Proofs.ModfileC20.workAdd_unknown_verb st line verb args fix h

/-- Non-vacuity: `frobnicate` is in neither list. -/
example : verbIn (B "frobnicate") addVerbs = false ∧ verbIn (B "frobnicate") workVerbs = false := by decide +kernel

/-! ### positions -/

open Proofs.ModfileC20 in
/-- `pos_consistent`.  `PosOK data p` (Proofs/ModfileC20Lex.lean) says that the three components of a
    position agree with the input: `p.byte ≤ data.length`, `p.line = 1 + (number of newline bytes in
    data.take p.byte)`, `p.lineRune = 1 + utf8.RuneCountInString(bytes of data.take p.byte after its last
    newline)`.  `PosAt data p text` adds that the input continues with `text` at `p.byte`.

    For every input: if `parse` fails, the error position is consistent (`PosOK`); if it succeeds, the tree
    satisfies `FileOK data` (Proofs/ModfileC20Tree.lean), i.e. for EVERY position stored in the tree:
    * `Line.start` is `PosAt` the line's first token; `LineBlock.start` is `PosAt` the block's first token;
    * `LParen.pos` is `PosAt` "(" and `RParen.pos` is `PosAt` ")";
    * `CommentBlock.start` is the start of its first comment and `PosAt` that comment's text;
    * every `Comment.start` in every `Comments` of the tree (file, comment blocks, lines, blocks, parens;
      before / suffix / after) is `PosAt` the comment's text (which excludes the line end, LF or CRLF) —
      except the blank-line placeholder `Comment{}` of blocks (empty token, zero position), `CommentOK`;
    * `Line.end` is consistent (`PosOK`) and the input before it ends with the line's last token
      (`EndsAt`).  `EndsAt` allows the LF / CRLF that `endToken` strips from a comment token between the
      token text and the end position; that slack is removed by `pos_consistent_exact` below (no token of
      a line is a comment token). -/
theorem pos_consistent (name data : Bytes) :
    match parse name data with
    | .ok t => FileOK data t
    | .error e => PosOK data e.pos :=
  parse_pos_consistent name data

open Proofs.ModfileC20 in
/-- `pos_consistent_exact` — `pos_consistent` with `Line.end` characterised EXACTLY: for every input, if `parse`
    fails the error position is consistent; if it succeeds the tree satisfies `FileOK data` (every position of the
    tree, see `pos_consistent`) and for EVERY line `l` of the tree, top-level or inside a block
    (`FileSyntax.allLines`), `l.end` is a consistent position and `data.take l.end.byte` ends with the last token of
    the line (`EndsExactly`) — no LF / CRLF in between, none of the three alternatives of `EndsAt` but the first.
    A `(` in the middle of a top-level line does not move `end` (read.go keeps the old value) and is never the last
    token of such a line: the token after it sets `end` before the line can end.
    Proof (Proofs/ModfileC20End.lean): every state the parser can be in satisfies the lexer's classification
    invariant (`reach_G`; `comment_after_token_is_eol_comment` below is its core: after a token of a line a `//`
    is an end-of-line comment, after an end-of-line token it is a whole-line comment; stated on the consumed bytes
    of the current source line decoded in context, so ill-formed UTF-8 and a quoted string with an escaped
    newline are covered), hence no token accumulated by `parseStmtLoop` / `parseLineLoop` has a comment kind
    (`next_not_comment`; the first token of a statement is no end-of-line comment since a statement starts after
    an end-of-line token, `next_not_eolComment`) and `pos_consistent_tokens`' exact clause applies to each;
    comment assignment leaves `token` and `end` of every line alone (`assignComments_endKeys`). -/
theorem pos_consistent_exact (name data : Bytes) :
    match parse name data with
    | .ok t => FileOK data t ∧
        ∀ l ∈ t.allLines, ∃ tok, l.token.getLast? = some tok ∧ EndsExactly data l.«end» tok
    | .error e => PosOK data e.pos :=
  parse_pos_consistent_exact name data

/-- Non-vacuity of `pos_consistent_exact`: a go.mod with CRLF line ends, end-of-line comments, a block, a `(` in
    the middle of a top-level line and a quoted string holding an escaped newline parses; the four lines end at
    bytes 8 (`m`, before ` // c\r\n`), 31 (`v1`), 43 (`v2`, before `\r\n`) and 59 (`y`, on line 7 because of the
    newline inside the string), each time right after the last token. -/
example :
    let data := B "module m // c\r\nrequire (\r\n\ta v1 // c\r\n\tb v2\r\n)\r\nx ( \"s\\\n\" y\r\n"
    (match parse (B "go.mod") data with
     | .ok t => decide (t.allLines.map (fun (l : Line) => (l.token.length, l.«end»)) =
                          [(2, ⟨1, 9, 8⟩), (2, ⟨3, 6, 31⟩), (2, ⟨4, 6, 43⟩), (4, ⟨7, 4, 59⟩)]) &&
                t.allLines.all (fun (l : Line) => match l.token.getLast? with
                  | some tok => tok.isSuffixOf (data.take l.«end».byte)
                  | none => false)
     | .error _ => false) = true := by decide +kernel

open Proofs.ModfileC20 in
/-- `pos_consistent` for the error lists: every error of Parse, ParseLax and ParseWork (syntax error or
    directive-layer error, including those of `fixRetract`) is at a consistent position — for a
    directive-layer error the start of a line or block of the tree (`addStmts_errs`). -/
theorem pos_consistent_errors (name data : Bytes) (fix : Option Fixer) :
    (∀ strict es, parseToFile name data fix strict = .error es → ∀ e ∈ es, PosOK data e.pos) ∧
    (∀ es, parseWork name data fix = .error es → ∀ e ∈ es, PosOK data e.pos) :=
  ⟨fun strict es h => (parseToFile_errors name data fix strict es h).1,
   fun es h => (parseWork_errors name data fix es h).1⟩

open Proofs.ModfileC20 in
/-- `pos_consistent`, token level: in every lexer state the parser can be in (`Reach`), the pending token
    starts at a consistent position where the input continues with its text, ends at a consistent position
    before which the input ends with its text (exactly, for every non-comment token), a punctuation token's
    text is its character, and the lexer's current position (the `Pos` of any error reported next) is
    consistent. -/
theorem pos_consistent_tokens (data : Bytes) (i : Input) (h : Proofs.ModfilePos.Reach data i) :
    PosAt data i.token.pos i.token.text ∧ EndsAt data i.token.endPos i.token.text ∧
    (i.token.kind.isComment = false → i.token.text <:+ data.take i.token.endPos.byte) ∧
    (∀ c, i.token.kind = .punct c → i.token.text = [c]) ∧ PosOK data i.pos :=
  ⟨(reach_facts h).start, (reach_facts h).«end», (reach_facts h).exactEnd, (reach_facts h).punct, reach_cur h⟩

/-- Non-vacuity: the states reached while lexing `module  x // c` are `Reach`able, and the second
    token `x` is reported at line 1, rune 9, byte 8. -/
example :
    let data := B "module  x // c\n"
    (match readToken (newInput data) with
     | .ok i1 => (match readToken i1 with
                  | .ok i2 => decide (i2.token.text = B "x" ∧ i2.token.pos = ⟨1, 9, 8⟩ ∧ i2.token.endPos = ⟨1, 10, 9⟩)
                  | .error _ => false)
     | .error _ => false) = true := by decide +kernel

/-- Non-vacuity of `pos_consistent`: a file with a multi-byte rune, a block, comments and a blank line
    parses; the positions of the second line of the block are line 4, rune 2 (after the tab), byte 26. -/
example :
    (match parse (B "go.mod") (B "// é\nmodule m\nrequire (\n\ta v1 // c\n\n\tb v2\n)\n") with
     | .ok t => (match t.stmts with
                 | [_, .lineBlock b] => decide ((b.lines.map (·.start)) = [⟨4, 2, 26⟩, ⟨6, 2, 38⟩])
                 | _ => false)
     | .error _ => false) = true := by decide +kernel

/-! ### lax ⊇ strict, piecewise -/

/-- Strict and lax mode fail identically on syntax errors (same error, same position). -/
theorem lax_eq_strict_on_syntax_error (name data : Bytes) (fix : Option Fixer) (e : SynErr)
    (h : parse name data = .error e) :
    parseToFile name data fix false = parseToFile name data fix true := by
  rw [(parseToFile_syntax_error name data fix false e h).1, (parseToFile_syntax_error name data fix true e h).1]

/-- `lax_superset`: every file the strict parser accepts (with any version fixer) is accepted by the lax
    parser with the same module, go, require and retract values (whole typed entries: paths, versions,
    the indirect flag, deprecation text, intervals, rationales and line identities).
    Proof (Proofs/ModfileC20Lax.lean): simulation over `addStmts` — the strict and the lax state stay equal
    on those four fields and on the error list (`add_sim`, built from `lax_superset_line` and a
    congruence / frame lemma per verb); every retract entry refers to a line that both rewritten trees
    contain with identical tokens, and line identities are pairwise distinct (`parse_ids_nodup`), so
    `fixRetract` reads the same tokens and computes the same intervals in both runs. -/
theorem lax_superset (name data : Bytes) (fix : Option Fixer) (f : File)
    (h : parseToFile name data fix true = .ok f) :
    ∃ g, parseToFile name data fix false = .ok g ∧ g.module = f.module ∧ g.go = f.go ∧
      g.require = f.require ∧ g.retract = f.retract :=
  Proofs.ModfileC20.lax_superset name data fix f h

/-- Non-vacuity: a file using every directive, with retractions rewritten by the stub fixer, is accepted by
    the strict parser. -/
example :
    (parseToFile (B "go.mod")
      (B "module example.com/m\ngo 1.21\ntoolchain go1.21.0\nrequire a.b/c v1.0.0 // indirect\nexclude a.b/c v1.1.0\nreplace a.b/c => ../c\nretract [v1.0.0, latest] // bad\ntool a.b/c/cmd\n")
      (some fixStub) true).toOption.isSome = true := by decide +kernel

/-- The step of `lax_superset`: on a go / module / retract / require line that the strict directive
    layer accepts (it adds no error), the lax directive layer computes the same typed entries and the
    same rewritten tokens. -/
theorem lax_superset_line (st : AddState) (block : Option Comments) (line : Line) (verb : Bytes)
    (args : List Bytes) (fix : Option Fixer) (hv : verbIn verb laxVerbs = true)
    (hok : (File.add st block line verb args fix true).1.errsRev = st.errsRev) :
    File.add st block line verb args fix false = File.add st block line verb args fix true :=
  Proofs.ModfileRule.add_strict_ok_lax st block line verb args fix hv hok

/-- `lax_ignores_unknown`, line form: in lax mode a line whose verb is not go / module / retract /
    require changes neither the typed file, nor the error list, nor its own tokens. -/
theorem lax_ignores_unknown_line (st : AddState) (block : Option Comments) (line : Line) (verb : Bytes)
    (args : List Bytes) (fix : Option Fixer) (h : verbIn verb laxVerbs = false) :
    File.add st block line verb args fix false = (st, args) :=
  Proofs.ModfileRule.add_lax_ignores st block line verb args fix h

/-- `lax_ignores_unknown`, block form: in lax mode a block whose header is not a single known block
    verb is skipped without an error (whatever its lines contain). -/
theorem lax_ignores_unknown_block (st : AddState) (b : LineBlock) (fix : Option Fixer) (rest : List Expr)
    (h : ∀ verb, b.token = [verb] → verbIn verb blockVerbs = false) :
    addStmts fix false st (.lineBlock b :: rest) =
      ((addStmts fix false st rest).1, .lineBlock b :: (addStmts fix false st rest).2) := by
  simp only [addStmts]
  split
  · rename_i verb hv
    simp [h verb hv]
  · rfl

/-- `lax_ignores_unknown`, statement-list form: the lax directive layer's typed state (module, go,
    require, retract, error list) after a statement list equals its state after the list with every
    ignored statement removed — `laxIgnored`: lines whose verb is not go / module / retract / require,
    blocks whose header is not a single block verb that lax keeps, comment blocks — wherever they occur and
    however many there are.  (What is not proved is the parser-level fact that inserting such text into
    the input inserts exactly such statements into the statement list, lean/PENDING.md.) -/
theorem lax_ignores_unknown_stmts (fix : Option Fixer) (st : AddState) (xs : List Expr) :
    (addStmts fix false st xs).1 =
      (addStmts fix false st (xs.filter (fun x => !Proofs.ModfileC20.laxIgnored x))).1 :=
  Proofs.ModfileC20.addStmts_lax_filter fix xs st

/-- Non-vacuity of `lax_ignores_unknown_*`: a file with an unknown directive and an unknown block is
    rejected by the strict parser and accepted by the lax parser with the module / go / require of
    the same file without them. -/
example :
    let x := B "module example.com/m\ngo 1.21\nfrobnicate a b\nfuture (\n\tx y\n)\nrequire a.b/c v1.0.0\n"
    let y := B "module example.com/m\ngo 1.21\nrequire a.b/c v1.0.0\n"
    (parseToFile (B "go.mod") x none true).toOption.isNone = true ∧
    (match parseToFile (B "go.mod") x none false, parseToFile (B "go.mod") y none true with
     | .ok f, .ok g => decide (f.module.map (·.mod) = g.module.map (·.mod) ∧ f.go.map (·.version) = g.go.map (·.version) ∧
                                f.require.map (·.mod) = g.require.map (·.mod))
     | _, _ => false) = true := by decide +kernel

/-- `lax_ignores_unknown`, statement-list form with SHIFTED positions and line identities: the values of
    the lax typed state (module path / version / deprecation, go version, requirements with their indirect
    mark, retractions with rationale) and the kinds of the errors are the same for the list `A ++ B₁` and
    the list `A ++ I ++ B₂`, when `I` holds only ignored statements and `B₁`, `B₂` are the same statements
    `B` moved by two different shifts of positions (lines, bytes) and line identities — which is what
    inserting source lines between two statements does to the statements after the insertion point.  Any
    fixer; the two start states may differ in their syntax tree. -/
theorem lax_ignores_unknown_values (fix : Option Fixer) (A B I : List Expr) (s1 s2 : Proofs.ModfileC20Append.Sh)
    (st st' : AddState) (hV : Proofs.ModfileC20Append.V st st')
    (hI : ∀ x ∈ I, Proofs.ModfileC20.laxIgnored x = true) :
    Proofs.ModfileC20Append.V
      (addStmts fix false st (A ++ B.map (Proofs.ModfileC20Append.shE s1))).1
      (addStmts fix false st' (A ++ I ++ B.map (Proofs.ModfileC20Append.shE s2))).1 :=
  Proofs.ModfileC20Append.lax_vals_insert fix A B I s1 s2 st st' hV hI

/-- Non-vacuity of `lax_ignores_unknown_values`: equal start states are related, and an unknown line is ignored. -/
example : Proofs.ModfileC20Append.V {} {} ∧
    Proofs.ModfileC20.laxIgnored (.line { token := [B "frobnicate", B "x"] }) = true :=
  ⟨⟨rfl, rfl⟩, by decide +kernel⟩

/-- `lax_ignores_unknown` at the level of input bytes, PARTIAL: if the lax parser (no fixer) accepts `x`,
    and the syntax trees of `x` and `x'` are related as inserting source lines does — the statements of
    `x'` are those of `x` before the insertion point (`A`), then ignored statements (`I`: lines whose verb
    is not go / module / retract / require, blocks whose header is not a single block verb lax keeps), then
    the remaining statements of `x` (`B`) with positions and line identities shifted (`s1` in `x`, `s2` in
    `x'`) — then the lax parser accepts `x'` with the same module / go / require / retract VALUES (`vals`:
    everything but the `lineId`s, which shift).
    What is missing for the full statement: (1) the two tree hypotheses `ht`, `ht'` are ASSUMED here, not
    derived from `x = a ++ b`, `x' = a ++ ins ++ b`; they are the parser-level composition lemma
    "`parse (a ++ b)` = statements of `parse a` followed by the shifted statements of `parse b`" (proved so
    far: its lexer half for comment-free input, `Proofs.ModfileC20Append.readToken_sim` — one token read in
    the context `pre ++ · ++ suf` is the same token shifted, as long as `pre` is the consumed text and the
    last newline before `suf` is not yet consumed; the example below checks both tree hypotheses by kernel
    evaluation); (2) comments: the shift `shE` leaves comment lists untouched, which is what happens in
    comment-free files only — with comments the attachment of end-of-line comments across the insertion
    point has to be shown unchanged; (3) a fixer (then `fixRetract` looks lines up by identity). -/
theorem lax_ignores_unknown_bytes_partial (name x x' : Bytes) (t t' : FileSyntax) (A B I : List Expr)
    (s1 s2 : Proofs.ModfileC20Append.Sh)
    (hx : parse name x = .ok t) (hx' : parse name x' = .ok t')
    (ht : t.stmts = A ++ B.map (Proofs.ModfileC20Append.shE s1))
    (ht' : t'.stmts = A ++ I ++ B.map (Proofs.ModfileC20Append.shE s2))
    (hI : ∀ y ∈ I, Proofs.ModfileC20.laxIgnored y = true) (f : File)
    (hf : parseToFile name x none false = .ok f) :
    ∃ f', parseToFile name x' none false = .ok f' ∧
      Proofs.ModfileC20Append.vals f' = Proofs.ModfileC20Append.vals f :=
  Proofs.ModfileC20Append.parseToFile_insert name x x' t t' A B I s1 s2 hx hx' ht ht' hI f hf

/-- Non-vacuity of `lax_ignores_unknown_bytes_partial` and a kernel-checked instance of the missing parser
    composition lemma: for `a` = two directive lines, `ins` = an unknown line and an unknown block, `b` = a
    require line, the trees of `a ++ b` and `a ++ ins ++ b` are the trees of `a`, `ins`, `b` put together
    with the shifts (lines, bytes, line identities) of the text in front; the inserted statements are
    ignored; the lax parser accepts `a ++ b`. -/
example :
    let n := B "go.mod"
    let a := B "module example.com/m\ngo 1.21\n"
    let ins := B "frobnicate x y\nweird (\n\tp q\n)\n"
    let b := B "require a.b/c v1.0.0\n"
    let sa : Proofs.ModfileC20Append.Sh := ⟨2, a.length, 2⟩
    let sai : Proofs.ModfileC20Append.Sh := ⟨6, a.length + ins.length, 4⟩
    (match parse n a, parse n ins, parse n b, parse n (a ++ b), parse n (a ++ ins ++ b) with
     | .ok ta, .ok ti, .ok tb, .ok t, .ok t' =>
       decide (t.stmts = ta.stmts ++ tb.stmts.map (Proofs.ModfileC20Append.shE sa) ∧
               t'.stmts = ta.stmts ++ ti.stmts.map (Proofs.ModfileC20Append.shE sa) ++
                 tb.stmts.map (Proofs.ModfileC20Append.shE sai)) &&
       (ti.stmts.map (Proofs.ModfileC20Append.shE sa)).all Proofs.ModfileC20.laxIgnored
     | _, _, _, _, _ => false) = true ∧
    (parseToFile n (a ++ b) none false).toOption.isSome = true := by decide +kernel

/-! ### ModulePath -/

/-- The F8 input: a `require` block containing a line whose first token is `module`, before the real
    module directive. -/
def f8Input : Bytes := B "require (\n\tmodule v1.0.0\n)\nmodule example.com/m\n"

/-- The last clause of C20 is FALSE on the current tree (finding F8, oracle signature
    `modulepath-block-line`): the strict parser accepts `f8Input`, its module directive is the single
    line `module example.com/m` naming a valid import path, yet the quick module-path extractor
    returns `v1.0.0`. -/
theorem C20_violated_modulePath_block_line :
    ∃ f m, parseToFile (B "go.mod") f8Input none true = .ok f ∧ f.module = some m ∧
      (f.syn.findLine m.lineId).map (·.inBlock) = some false ∧
      Module.checkImportPath m.mod.path = .ok () ∧
      modulePath f8Input ≠ m.mod.path :=
  Proofs.ModfileWitness.modulePathDisagrees_spec (by decide +kernel)

/-- A second input on which the same clause fails (found by the thorough-tier oracle, signature
    `modulepath-module-block-header`): an EMPTY `module ( )` block defines no module, the strict parser
    takes the later single-line directive, but the line scanner returns the `(` of the block header. -/
def f8bInput : Bytes := B "module (\n)\nmodule example.com/m\n"

theorem C20_violated_modulePath_module_block_header :
    ∃ f m, parseToFile (B "go.mod") f8bInput none true = .ok f ∧ f.module = some m ∧
      (f.syn.findLine m.lineId).map (·.inBlock) = some false ∧
      Module.checkImportPath m.mod.path = .ok () ∧
      modulePath f8bInput ≠ m.mod.path :=
  Proofs.ModfileWitness.modulePathDisagrees_spec (by decide +kernel)

/-- `modulePath_agrees_partial` — the last clause of C20 under the hypothesis that excludes exactly the
    recorded findings.  If the strict parser (no fixer) accepts `x`, its module directive is a single
    top-level line (`Expr.line l ∈ f.syn.stmts`, i.e. not a line of a `module ( … )` block) naming a valid
    import path, and the line scanner skips every source line before the line of that directive
    (`modulePathLine ln = none`: after cutting a `//` comment and trimming, `ln` does not consist of
    `module`, white space and something more — every line that is not a `module␣…` look-alike), then
    `ModulePath(x)` is the module path the strict parser reports.  The two `_violated` witnesses above are
    exactly the two ways the last hypothesis fails on strictly accepted files: a block line `module …`
    and the header `module (` of an empty block before the directive.
    Proof (Proofs/ModfileC20{Lay,Top,ModTree,ModStr,Unquote,ModFinal}.lean): the lexer leaves only blanks
    between tokens, a top-level line starts its source line and is followed by blanks and then a newline,
    a `//` comment or the end of the input (`TopLay`); the module entry of an accepted file comes from a
    line `module <tok>` (`module_line_of_strict`); a token that denotes a valid import path contains no
    `//`, no newline, and starts and ends with a non-space ASCII byte (`tokOK_of_parseString`, for `"…"`
    tokens via `unquote_facts`); hence `TrimSpace`, `Index "//"` and `Unquote` in the scanner recover exactly
    that token (`modulePathLine_directive`), on the element `line - 1` of `strings.Split(x, "\n")`
    (`splitOn_line`). -/
theorem modulePath_agrees_partial (name x : Bytes) (f : File) (m : Module)
    (h : parseToFile name x none true = .ok f) (hm : f.module = some m)
    (hvalid : Module.checkImportPath m.mod.path = .ok ())
    (htop : ∃ l, Expr.line l ∈ f.syn.stmts ∧ l.id = m.lineId ∧
      ∀ j, j + 1 < l.start.line → ∀ ln, (splitOn 10 x)[j]? = some ln → modulePathLine ln = none) :
    modulePath x = m.mod.path :=
  Proofs.ModfileC20.modulePath_agrees name x f m h hm hvalid htop

/-- Non-vacuity of `modulePath_agrees_partial`: a file with a doc comment, a quoted module path with a
    trailing comment and other directives satisfies all hypotheses (and the scanner has to skip a comment
    line first). -/
example :
    let x := B "// Deprecated: no\n  module\t\"example.com/m/v2\" // c\r\n\ngo 1.21\nrequire (\n\ta.b/c v1.0.0\n)\n"
    ∃ f m, parseToFile (B "go.mod") x none true = .ok f ∧ f.module = some m ∧
      Module.checkImportPath m.mod.path = .ok () ∧
      ∃ l, Expr.line l ∈ f.syn.stmts ∧ l.id = m.lineId ∧
        ∀ j, j + 1 < l.start.line → ∀ ln, (splitOn 10 x)[j]? = some ln → modulePathLine ln = none :=
  Proofs.ModfileC20.modulePathHyps_spec (by decide +kernel)

/-- Non-vacuity of the agreement clause: on an ordinary file ModulePath and the strict parser agree. -/
example :
    let x := B "// doc\nmodule \"example.com/m\" // c\n\ngo 1.21\n"
    (match parseToFile (B "go.mod") x none true with
     | .ok f => decide (f.module.map (·.mod.path) = some (modulePath x))
     | .error _ => false) = true := by decide +kernel

/-! ### behind the exact `Line.end` statement `pos_consistent_exact`: whole-line comment tokens (lexer level) -/

/-- **A `//` comment that follows a token on its source line is an end-of-line comment, never a whole-line comment token.**
    `readComment` decides with `strings.TrimSpace(<bytes before the comment on its line>) == ""`; that test fails as soon as
    the consumed part of the line is `g ++ x` with `g` white space and `x` starting with a rune that is not white space —
    whatever follows in `x`, ill-formed UTF-8 included (`TrimSpace s = "" ↔ Fields s = []`,
    `Edit.trimSpace_eq_nil_iff_fields`; no reasoning about the backward decoder of `TrimRight` is needed).  This is the
    lexer half of the residual slack of `pos_consistent` for `Line.end` (lean/PENDING.md): only a whole-line comment token
    has its LF / CRLF stripped by `endToken`; the parser half is `pos_consistent_exact` above. -/
theorem comment_after_token_is_eol_comment (i i' : Input) (g x : Bytes) (h : readToken i = .ok i')
    (hpre : (i.consumedRev.takeWhile (· != 10)).reverse = g ++ x) (hg : Proofs.ModfileFmtTrim.SpaceSeq g) (hx : x ≠ [])
    (hs : UnicodePrint.isSpace (Utf8.decodeRune x).1 = false) : i'.token.kind ≠ .comment :=
  Proofs.ModfileC20.readToken_not_comment h g x hpre hg hx hs

/-- … and a whole-line comment token is delivered only when the bytes before it on its source line trim to nothing -/
theorem comment_token_alone_on_line (i i' : Input) (h : readToken i = .ok i') (hk : i'.token.kind = .comment) :
    ∃ gap, Proofs.ModfileC20.WS gap ∧
      GoStrings.trimSpace (((gap.reverse ++ i.consumedRev).takeWhile (· != 10)).reverse) = [] :=
  Proofs.ModfileC20.readToken_comment h hk

/-- non-vacuity: after `x\x80 ` (a token ending in an ill-formed byte) the comment is an end-of-line comment; at the start
    of a line it is a whole-line comment token -/
example :
    (match readToken { consumedRev := [32, 0x80, 120, 9, 10], remaining := [47, 47, 99] } with
     | .ok i => i.token.kind == .eolComment
     | .error _ => false) = true ∧
    (match readToken { consumedRev := [32, 9, 10], remaining := [47, 47, 99] } with
     | .ok i => i.token.kind == .comment
     | .error _ => false) = true := by decide +kernel

example : (([32, 0x80, 120, 9, 10] : Bytes).takeWhile (· != 10)).reverse = [9] ++ [120, 0x80, 32] ∧
    UnicodePrint.isSpace (Utf8.decodeRune ([120, 0x80, 32] : Bytes)).1 = false := by decide +kernel

end ModVerif.Props.C20
