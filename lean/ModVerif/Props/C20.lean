/-
  C20 — Parsing is total, positioned, and lax mode accepts everything strict mode does.
  Property theorems only; helper lemmas live in ModVerif/Proofs/Modfile*.lean.
  Statements not yet proved are in lean/PENDING.md.
-/
import ModVerif.Model.Modfile.Work
import ModVerif.Proofs.ModfileWitness
namespace ModVerif.Props.C20
open ModVerif ModVerif.Modfile

/-- The F8 input: a `require` block containing a line whose first token is `module`, before the real
    module directive. -/
def f8Input : Bytes := B "require (\n\tmodule v1.0.0\n)\nmodule example.com/m\n"

/-- The last clause of C20 is FALSE on the current tree (finding F8, signature
    `modulepath-block-line`): the strict parser accepts `f8Input`, its module directive is the single
    line `module example.com/m` naming a valid import path, yet the quick module-path extractor
    returns `v1.0.0`. -/
theorem C20_violated_modulePath_block_line :
    ∃ f m, parseToFile (B "go.mod") f8Input none true = .ok f ∧ f.module = some m ∧
      (f.syn.findLine m.lineId).map (·.inBlock) = some false ∧
      Module.checkImportPath m.mod.path = .ok () ∧
      modulePath f8Input ≠ m.mod.path := by
  exact Proofs.ModfileWitness.modulePathDisagrees_spec (by decide +kernel)

end ModVerif.Props.C20
