/-
  C16 — bulk setters produce exactly the requested set; blocks are in their documented order.

  Specification-side theorems (Spec/EditSpec.lean): the exact-set postcondition of the step table, and the
  groundwork for `blocks_sorted`: the three documented comparators are strict weak orders, so the stable
  sort produces a sorted permutation, is idempotent, and — for the total order `lineLess` — its result
  does not depend on the order in which Go's map iteration added the new lines.
  Helper lemmas: Proofs/EditSpecSet.lean, EditSpecSort.lean, EditSpecCmp.lean.
-/
import ModVerif.Spec.EditSpec
import ModVerif.Proofs.EditSpecSet
import ModVerif.Proofs.EditSpecSort
import ModVerif.Proofs.EditSpecCmp
import ModVerif.Model.Modfile.EditAbs
import ModVerif.Proofs.EditModel
import ModVerif.Proofs.EditRefineExact
import ModVerif.Proofs.EditRefineSorted
import ModVerif.Proofs.EditRefineInvBulk
import ModVerif.Proofs.EditRefineInvWork
import ModVerif.Proofs.EditMoreSepG
import ModVerif.Proofs.EditMoreSepJ
import ModVerif.Proofs.EditMoreComD
import ModVerif.Proofs.EditWorkSorted
import ModVerif.Proofs.EditWorkSession
import ModVerif.Proofs.EditWorkPermE
import ModVerif.Proofs.EditWorkKeepB
import ModVerif.Proofs.EditKeepEqD
namespace ModVerif.Props.C16
open ModVerif ModVerif.EditSpec ModVerif.Modfile

/-- **SetRequire, exact set (spec).** For a requested list with distinct paths, after `SetRequire want`
    the requirements are exactly `want` — one entry per requested path with the requested version and
    indirect marking, nothing else — whatever the file held before (duplicates included). -/
theorem setRequire_exact_spec (V : Validity) (f : AbsFile) (want : List Req)
    (hd : want.Pairwise (fun a b => a.path ≠ b.path)) :
    (step V f (.setRequire want)).require.Perm want := by
  simp only [step, stepOk, Bool.not_true, Bool.false_eq_true, if_false, removeDups]
  exact setExact_perm Req.path want f.require hd

/-- the separate-indirect variant has the same exact-set postcondition -/
theorem setRequireSeparateIndirect_exact_spec (V : Validity) (f : AbsFile) (want : List Req)
    (hd : want.Pairwise (fun a b => a.path ≠ b.path)) :
    (step V f (.setRequireSeparateIndirect want)).require.Perm want := by
  simp only [step, stepOk, Bool.not_true, Bool.false_eq_true, if_false, removeDups]
  exact setExact_perm Req.path want f.require hd

/-- **SetUse, exact set (spec).** -/
theorem setUse_exact_spec (V : Validity) (f : AbsFile) (want : List (Bytes × Bytes))
    (hd : (want.map Prod.fst).Pairwise (· ≠ ·)) :
    (step V f (.setUse want)).use.Perm (want.map Prod.fst) := by
  simp only [step, stepOk, Bool.not_true, Bool.false_eq_true, if_false, removeDups]
  exact setExact_perm id (want.map Prod.fst) f.use hd

/-- exactly one entry per requested path (consequence of the permutation) -/
theorem setRequire_one_per_path (V : Validity) (f : AbsFile) (want : List Req)
    (hd : want.Pairwise (fun a b => a.path ≠ b.path)) (r : Req) (hr : r ∈ want) :
    (step V f (.setRequire want)).require.filter (fun x => x.path == r.path) |>.Perm [r] := by
  have hp := (setRequire_exact_spec V f want hd).filter (fun x => x.path == r.path)
  refine hp.trans ?_
  have : want.filter (fun x => x.path == r.path) = [r] := by
    clear hp
    induction want with
    | nil => cases hr
    | cons x xs ih =>
      rcases List.pairwise_cons.1 hd with ⟨h1, h2⟩
      rw [List.mem_cons] at hr
      rcases hr with rfl | hr
      · have : xs.filter (fun x => x.path == r.path) = [] := by
          apply List.filter_eq_nil_iff.2
          intro a ha; have := h1 a ha; simp [Ne.symm this]
        simp [List.filter, this]
      · have hx : (x.path == r.path) = false := by
          have := h1 r hr; simp [this]
        simp [List.filter, hx, ih h2 hr]
  rw [this]


/-! ### The exact-set postcondition on the MODEL's typed lists

    `perm` is Go's map-iteration order (any function returning a permutation of its argument — both orders the
    driver exercises, `Edit.permOf false/true`, are instances); `Edit.GoodWant want` = pairwise distinct, non-empty
    requested paths; `Edit.TInv e` = the line-id invariant of Proofs/EditRefineAbs.lean (it holds for every loaded
    well-formed file and is preserved by every operation, `Props.C08.applyMod_refines_step`).
    The typed lists are read after Cleanup (`absOf (cleanup e')`). -/

/-- **setRequire_exact.**  After `SetRequire want` (+ Cleanup) the typed requirements are exactly the requested
    ones: the same multiset; exactly one entry per requested path, with the requested version and indirect marking;
    no entry for any other path — for EVERY map-iteration order. -/
theorem setRequire_exact (e e' : Edit.EFile) (want : List Edit.Want) (perm : List Edit.Want → List Edit.Want)
    (hperm : ∀ l, (perm l).Perm l) (hg : Edit.GoodWant want) (hi : Edit.TInv e) (h : Edit.setRequire e want perm = .ok e') :
    (Edit.absOf (Edit.cleanup e').f).require.Perm (want.map Edit.Want.toReq) ∧
    (∀ w ∈ want, (Edit.absOf (Edit.cleanup e').f).require.filter (fun r => r.path == w.path) = [w.toReq]) ∧
    (∀ r ∈ (Edit.absOf (Edit.cleanup e').f).require, ∃ w ∈ want, r = w.toReq) :=
  Edit.setRequire_exact e e' want perm hperm hg hi h

/-- **setRequireSeparateIndirect_exact.** -/
theorem setRequireSeparateIndirect_exact (e e' : Edit.EFile) (want : List Edit.Want) (perm : List Edit.Want → List Edit.Want)
    (hperm : ∀ l, (perm l).Perm l) (hg : Edit.GoodWant want) (hi : Edit.TInv e)
    (h : Edit.setRequireSeparateIndirect e want perm = .ok e') :
    (Edit.absOf (Edit.cleanup e').f).require.Perm (want.map Edit.Want.toReq) ∧
    (∀ w ∈ want, (Edit.absOf (Edit.cleanup e').f).require.filter (fun r => r.path == w.path) = [w.toReq]) ∧
    (∀ r ∈ (Edit.absOf (Edit.cleanup e').f).require, ∃ w ∈ want, r = w.toReq) :=
  Edit.setRequireSeparateIndirect_exact e e' want perm hperm hg hi h

/-- **setUse_exact.** -/
theorem setUse_exact (e e' : Edit.EWork) (dirs : List (Bytes × Bytes)) (perm : List (Bytes × Bytes) → List (Bytes × Bytes))
    (hperm : ∀ l, (perm l).Perm l) (hg : Edit.GoodUse dirs) (hi : Edit.WInv e) (h : Edit.setUse e dirs perm = .ok e') :
    (Edit.absOfWork (Edit.workCleanup e').f).use.Perm (dirs.map Prod.fst) ∧
    (∀ d ∈ dirs, (Edit.absOfWork (Edit.workCleanup e').f).use.filter (fun u => u == d.1) = [d.1]) ∧
    (∀ u ∈ (Edit.absOfWork (Edit.workCleanup e').f).use, ∃ d ∈ dirs, u = d.1) :=
  Edit.setUse_exact e e' dirs perm hperm hg hi h

/-- **perm_independent (partial: typed lists).**  Two runs of a bulk setter that differ only in the map-iteration
    order succeed or fail together, and leave the same typed lists: every list equal, the requirements (uses) the same
    multiset — equal per path — under the line-id invariant `TInv` alone.  The full statement (`Format` of the two trees is
    the same byte string, under the tree invariant) is `perm_independent` below. -/
theorem perm_independent_partial (e : Edit.EFile) (w : Edit.EWork) (want : List Edit.Want) (dirs : List (Bytes × Bytes))
    (p1 p2 : List Edit.Want → List Edit.Want) (q1 q2 : List (Bytes × Bytes) → List (Bytes × Bytes))
    (hp1 : ∀ l, (p1 l).Perm l) (hp2 : ∀ l, (p2 l).Perm l) (hq1 : ∀ l, (q1 l).Perm l) (hq2 : ∀ l, (q2 l).Perm l)
    (hg : Edit.GoodWant want) (hu : Edit.GoodUse dirs) (hi : Edit.TInv e) (hw : Edit.WInv w) :
    (Edit.setRequire e want p1).isOk = (Edit.setRequire e want p2).isOk ∧
    (∀ e1 e2, Edit.setRequire e want p1 = .ok e1 → Edit.setRequire e want p2 = .ok e2 →
      Rel (Edit.absOf (Edit.cleanup e1).f) (Edit.absOf (Edit.cleanup e2).f)) ∧
    (∀ e1 e2, Edit.setRequireSeparateIndirect e want p1 = .ok e1 → Edit.setRequireSeparateIndirect e want p2 = .ok e2 →
      Rel (Edit.absOf (Edit.cleanup e1).f) (Edit.absOf (Edit.cleanup e2).f)) ∧
    (∀ w1 w2, Edit.setUse w dirs q1 = .ok w1 → Edit.setUse w dirs q2 = .ok w2 →
      Rel (Edit.absOfWork (Edit.workCleanup w1).f) (Edit.absOfWork (Edit.workCleanup w2).f)) :=
  ⟨Edit.setRequire_ok_indep e want p1 p2,
   fun e1 e2 h1 h2 => Edit.setRequire_perm_independent e e1 e2 want p1 p2 hp1 hp2 hg hi h1 h2,
   fun e1 e2 h1 h2 => Edit.setRequireSeparateIndirect_perm_independent e e1 e2 want p1 p2 hp1 hp2 hg hi h1 h2,
   fun w1 w2 h1 h2 => Edit.setUse_perm_independent w w1 w2 dirs q1 q2 hq1 hq2 hu hw h1 h2⟩

/-- both driver orders are permutations (so the theorems above apply to `Op.setRequire _ rev` for both `rev`) -/
theorem permOf_is_perm {α : Type} (rev : Bool) (l : List α) : (Edit.permOf rev l).Perm l := Edit.permOf_perm rev l

/-- non-vacuity of the three `_exact` theorems and of `perm_independent_partial`: a loaded well-formed file satisfies
    the invariant (`Edit.TInv_load` from `startOKb`), the request is good, and both setters succeed in both orders -/
example : (match parseStrict (B "go.mod") (B "module example.com/m\n\nrequire (\n\texample.com/a v1.0.0 // indirect; why\n\texample.com/b v1.2.3\n)\n\nrequire example.com/c/v2 v2.0.0 // note\n") none with
    | .ok f =>
      let want : List Edit.Want := [⟨B "example.com/e", B "v1.0.0", true⟩, ⟨B "example.com/a", B "v1.9.0", false⟩]
      Edit.startOKb f && Edit.validArgsB (.setRequire want true) &&
        (Edit.setRequire (Edit.load f) want (Edit.permOf true)).isOk && (Edit.setRequire (Edit.load f) want (Edit.permOf false)).isOk &&
        (Edit.setRequireSeparateIndirect (Edit.load f) want (Edit.permOf true)).isOk &&
        (Edit.setRequireSeparateIndirect (Edit.load f) want (Edit.permOf false)).isOk
    | .error _ => false) = true := by decide +kernel

example : (match parseWork (B "go.work") (B "go 1.21\n\nuse (\n\t./a\n\t./b\n)\n") none with
    | .ok f =>
      Edit.workStartOKb f && Edit.validArgsB (.setUse [(B "./b", []), (B "./d", [])] true) &&
        (Edit.setUse (Edit.loadWork f) [(B "./b", []), (B "./d", [])] (Edit.permOf true)).isOk &&
        (Edit.setUse (Edit.loadWork f) [(B "./b", []), (B "./d", [])] (Edit.permOf false)).isOk
    | .error _ => false) = true := by decide +kernel

/-- `lineLess` (lexical by tokens) is a strict weak order, and total -/
theorem lineLess_strict_total :
    StrictWeak lineLess ∧ ∀ a b, lineLess a b = false → lineLess b a = false → a = b :=
  ⟨lineLess_strictWeak, lineLess_total⟩

/-- `lineExcludeLess` on the two-token lines of an exclude block is the strict weak order
    "path by string order, then version by semver order" -/
theorem lineExcludeLess_strictWeak_on_pairs :
    StrictWeak excludeLess2 ∧ ∀ p v q w, lineExcludeLess [p, v] [q, w] = excludeLess2 (p, v) (q, w) :=
  ⟨excludeLess2_strictWeak, lineExcludeLess_two⟩

/-- `lineRetractLess` (descending by low, then high version) is a strict weak order on ALL token lists -/
theorem lineRetractLess_strict_weak : StrictWeak lineRetractLess := lineRetractLess_strictWeak

/-- Why the hypothesis "two-token lines" is needed: on lines of mixed length `lineExcludeLess` has a cycle
    (it falls back to the lexical order when a line does not have exactly two tokens).  A strict parse never
    produces such a line inside an exclude block. -/
theorem lineExcludeLess_cycle_on_mixed_lengths :
    lineExcludeLess [B "p", B "v1.10.0"] [B "p", B "v1.5.0", B "x"] = true ∧
    lineExcludeLess [B "p", B "v1.5.0", B "x"] [B "p", B "v1.9.0"] = true ∧
    lineExcludeLess [B "p", B "v1.9.0"] [B "p", B "v1.10.0"] = true := by decide +kernel

/-- **The stable sort produces a sorted permutation** for each comparator. -/
theorem sort_sorted_perm {α : Type} {less : α → α → Bool} (h : StrictWeak less) (l : List α) :
    Sorted less (sortBy less l) ∧ (sortBy less l).Perm l ∧ sortedBy less (sortBy less l) = true :=
  ⟨sortBy_sorted h l, sortBy_perm less l, (sortedBy_iff h _).2 (sortBy_sorted h l)⟩

/-- **Sorting is idempotent** (SortBlocks twice = once, block by block). -/
theorem sort_idempotent {α : Type} {less : α → α → Bool} (h : StrictWeak less) (l : List α) :
    sortBy less (sortBy less l) = sortBy less l := sortBy_idem h l

/-- **Independence of map-iteration order.** Lines ordered by `lineLess` (every block but
    exclude-from-go-1.21 and retract): the sorted block depends only on the multiset of lines, so the order
    in which `SetRequire`/`SetUse` appended the missing entries (Go map iteration) is unobservable. -/
theorem sort_lineLess_perm_invariant (l1 l2 : List (List Bytes)) (hp : l1.Perm l2) :
    sortBy lineLess l1 = sortBy lineLess l2 :=
  sortBy_perm_invariant lineLess_strictWeak lineLess_total l1 l2 hp

/-- the go-version test of SortBlocks as the code computes it: `1.21` and later releases use the semantic
    order; a pre-release such as `1.21rc1` or `1.22rc1` does NOT (recorded finding G3: "v1.22rc1" is not a
    valid semantic version, so the comparison treats it as lowest). -/
theorem useSemanticSortForExclude_examples :
    useSemanticSortForExclude (some (B "1.21")) = true ∧ useSemanticSortForExclude (some (B "1.21.0")) = true ∧
    useSemanticSortForExclude (some (B "1.20")) = false ∧ useSemanticSortForExclude none = false ∧
    useSemanticSortForExclude (some (B "1.22rc1")) = false := by decide +kernel



/-- **blocks_sorted (partial).** `File.SortBlocks` is `removeDups` followed by `sortStmts useSemantic false`,
    `WorkFile.SortBlocks` by `sortStmts false true`; every bulk setter and `AddTool` end with it.  After
    `sortStmts` each block's lines are sorted by the comparator the code selects for it, and are a permutation of a
    block of the input — for every block except an `exclude` block under the semantic order, where
    `lineExcludeLess` is a strict weak order only on two-token lines (`lineExcludeLess_strictWeak_on_pairs`;
    missing: the invariant that a strictly parsed exclude block holds only two-token or removed lines).
    Sortedness is preserved by Cleanup, which only deletes lines. -/
theorem blocks_sorted_partial (sem work : Bool) (stmts : List Expr) (b : LineBlock)
    (hb : Expr.lineBlock b ∈ Edit.sortStmts sem work stmts)
    (hx : work = true ∨ (Edit.headIs b.token (B "exclude") && sem) = false) :
    StrictWeak (Edit.lessFor sem work b.token) ∧
    Sorted (Edit.onToken (Edit.lessFor sem work b.token)) b.lines ∧
    ∃ b0, Expr.lineBlock b0 ∈ stmts ∧ b.lines.Perm b0.lines := by
  rcases Edit.sortStmts_block sem work stmts b hb with ⟨b0, hb0, htok, hlines⟩
  have hsw := Edit.lessFor_strictWeak sem work b.token hx
  refine ⟨hsw, ?_, b0, hb0, ?_⟩
  · rw [hlines, ← htok]; exact (Edit.stableSort_sorted hsw _).1
  · rw [hlines, ← htok]; exact (Edit.stableSort_sorted hsw _).2

/-- **blocks_sorted (partial 2): exclude blocks under the semantic order too.**  On a file satisfying the tree
    invariant `Edit.Inv` (Props/C15: it holds for the empty file and is preserved by every go.mod operation but the two
    bulk requirement setters) every line of an exclude block has exactly two tokens or is removed; on those
    `lineExcludeLess` is a strict weak order, so after `File.SortBlocks` EVERY block is sorted by the comparator the code
    selects for it (`Edit.semOf` = the go-version test).  Missing for the full statement: the invariant for the state
    in which SetRequire / SetRequireSeparateIndirect call SortBlocks (lean/PENDING.md). -/
theorem blocks_sorted_partial2 (e : Edit.EFile) (hi : Edit.Inv e) (b : LineBlock)
    (hb : Expr.lineBlock b ∈ (Edit.sortBlocks e).f.syn.stmts) :
    Sorted (Edit.onToken (Edit.lessFor (Edit.semOf e.f) false b.token)) b.lines :=
  Edit.sortBlocks_blocks_sorted e hi b hb

/-- non-vacuity of `blocks_sorted_partial2`: from the empty file (`Props.C15.Inv_empty`) a session that builds an exclude
    block under `go 1.21`; SortBlocks puts it into the semantic order (`v1.9.0` before `v1.10.0`) -/
example :
    (match Edit.runOps Edit.applyMod (Edit.load {})
        [.addGo (B "1.21"), .addExclude (B "a") (B "v1.10.0"), .addExclude (B "a") (B "v1.9.0"), .addExclude (B "b") (B "v1.0.0"),
         .sortBlocks, .cleanup] [] 0 with
     | .done e res => res.all id &&
         Edit.blocksOf e.f.syn == [([B "exclude"], [[B "a", B "v1.9.0"], [B "a", B "v1.10.0"]])]
     | _ => false) = true := by decide +kernel

/-- Recorded finding G3 (known_findings.json): with a pre-release go version ≥ 1.21 (`go 1.21rc1`) SortBlocks
    orders an exclude block lexically — `v1.10.0` before `v1.9.0` — which is not the documented
    "path, then semantic version" order.  Witness on the model. -/
theorem C16_violated_exclude_order_go_prerelease :
    Edit.outcomeIs (Edit.sessionMod (B "go 1.21rc1\nexclude (\n\ta v1.9.0\n\ta v1.10.0\n)\n") [.setRequire [] false, .cleanup])
      (fun o => Edit.blocksOf o.tree == [([B "exclude"], [[B "a", B "v1.10.0"], [B "a", B "v1.9.0"]])] &&
                !sortedBy EditSpec.lineExcludeLess [[B "a", B "v1.10.0"], [B "a", B "v1.9.0"]]) = true := by
  decide +kernel

/-- **SetRequire on the syntax tree.**  From a state satisfying the tree invariant (Props/C15), with every typed
    requirement live (Cleanup has just run) and under `NoNestedIndirectMarker` (which excludes exactly the recorded finding
    `C16_violated_indirect_marker_survives` below), after `SetRequire want` + Cleanup, for EVERY map-iteration order:
    the invariant holds again; for every requested entry the tree has a live line `require <AutoQuoted path> <version>`
    carrying the `// indirect` marker iff requested; and every live `require` line of the tree is such a line — the file
    contains the requested requirements and no other. -/
theorem setRequire_tree_exact (e e' : Edit.EFile) (want : List Edit.Want) (perm : List Edit.Want → List Edit.Want)
    (hperm : ∀ l, (perm l).Perm l) (hg : Edit.GoodWant want) (hi : Edit.Inv e)
    (hlive : ∀ r ∈ e.f.require, Edit.liveRq r = true) (hset : Edit.NoNestedIndirectMarker e)
    (h : Edit.setRequire e want perm = .ok e') :
    Edit.Inv (Edit.cleanup e') ∧
    (∀ w ∈ want, ∃ v ∈ Edit.view (Edit.cleanup e').f.syn.stmts, v.toks = [B "require", autoQuote w.path, w.vers] ∧
      Edit.isIndirectS v.suffix = w.indirect) ∧
    (∀ v ∈ Edit.view (Edit.cleanup e').f.syn.stmts, v.toks.head? = some (B "require") →
      ∃ w ∈ want, v.toks = [B "require", autoQuote w.path, w.vers] ∧ Edit.isIndirectS v.suffix = w.indirect) :=
  Edit.setRequire_tree_exact e e' want perm hperm hg hi hlive hset h

/-- non-vacuity of `setRequire_tree_exact`: a state built from the empty file (invariant: `Props.C15.Inv_empty` +
    `typed_eq_tree_partial2`) ending with Cleanup: every requirement is live, every line's marker is settable, and
    SetRequire succeeds in both map-iteration orders -/
example :
    (match Edit.runOps Edit.applyMod (Edit.load {})
        [.addModule (B "example.com/m"), .addRequire (B "example.com/a") (B "v1.0.0"),
         .addNewRequire (B "example.com/b") (B "v1.2.3") true, .addNewRequire (B "example.com/a") (B "v1.1.0") false, .cleanup] [] 0 with
     | .done e _ =>
       let want : List Edit.Want := [⟨B "example.com/e", B "v1.0.0", true⟩, ⟨B "example.com/a", B "v1.9.0", true⟩,
         ⟨B "example.com/b", B "v1.2.3", false⟩]
       e.f.require.all Edit.liveRq && (Edit.view e.f.syn.stmts).all (fun v => decide (Edit.MarkerSettable v.suffix)) &&
         (Edit.setRequire e want (Edit.permOf true)).isOk && (Edit.setRequire e want (Edit.permOf false)).isOk
     | _ => false) = true := by decide +kernel

/-- **SetUse on the syntax tree.**  From a go.work state satisfying the invariant with every typed use live, after
    `SetUse dirs` + Cleanup, for EVERY map-iteration order: the invariant holds again, the tree has a live line
    `use <AutoQuoted dir>` for every requested directory, and every live `use` line of the tree is one of them. -/
theorem setUse_tree_exact (e e' : Edit.EWork) (dirs : List (Bytes × Bytes)) (perm : List (Bytes × Bytes) → List (Bytes × Bytes))
    (hperm : ∀ l, (perm l).Perm l) (hg : Edit.GoodUse dirs) (hi : Edit.InvW e) (hlive : ∀ u ∈ e.f.use, Edit.liveU u = true)
    (h : Edit.setUse e dirs perm = .ok e') :
    Edit.InvW (Edit.workCleanup e') ∧
    (∀ d ∈ dirs, ∃ v ∈ Edit.view (Edit.workCleanup e').f.syn.stmts, v.toks = [B "use", autoQuote d.1]) ∧
    (∀ v ∈ Edit.view (Edit.workCleanup e').f.syn.stmts, v.toks.head? = some (B "use") →
      ∃ d ∈ dirs, v.toks = [B "use", autoQuote d.1]) :=
  Edit.setUse_tree_exact e e' dirs perm hperm hg hi hlive h

/-- non-vacuity of `setUse_tree_exact` (invariant: `Props.C15.InvW_empty` + `typed_eq_tree_work`) -/
example :
    (match Edit.runOps Edit.applyWork (Edit.loadWork {})
        [.addGo (B "1.21"), .addUse (B "./a") [], .addNewUse (B "./b") [], .cleanup] [] 0 with
     | .done e res => res.all id && e.f.use.all Edit.liveU &&
         (Edit.setUse e [(B "./c", []), (B "./a", [])] (Edit.permOf true)).isOk &&
         (Edit.setUse e [(B "./c", []), (B "./a", [])] (Edit.permOf false)).isOk
     | _ => false) = true := by decide +kernel

/-- Recorded finding (known_findings.json, `c16-indirect:remainder-is-marker`): clearing the indirect marker rewrites
    `// indirect; T` to `// T` without looking at `T`; when `T` is itself an indirect marker (`// indirect; indirect`)
    the line stays indirect although `Indirect: false` was requested — the typed list says direct, the formatted file
    and its strict re-parse say indirect.  Same for `SetRequireSeparateIndirect`.  Witness on the model. -/
theorem C16_violated_indirect_marker_survives :
    Edit.outcomeIs (Edit.sessionMod (B "module m\nrequire a v1.0.0 // indirect; indirect\n")
        [.cleanup, .setRequire [⟨B "a", B "v1.0.0", false⟩] false, .cleanup])
      (fun o => o.typed.require == [⟨B "a", B "v1.0.0", false⟩] &&
                (o.reparsed.map (·.require)) == some [⟨B "a", B "v1.0.0", true⟩] &&
                o.out == B "module m\n\nrequire a v1.0.0 // indirect\n") = true ∧
    Edit.outcomeIs (Edit.sessionMod (B "module m\nrequire a v1.0.0 // indirect; indirect\n")
        [.cleanup, .setRequireSeparateIndirect [⟨B "a", B "v1.0.0", false⟩] false, .cleanup])
      (fun o => o.typed.require == [⟨B "a", B "v1.0.0", false⟩] &&
                (o.reparsed.map (·.require)) == some [⟨B "a", B "v1.0.0", true⟩]) = true := by
  constructor <;> decide +kernel

/-- the same request on a line whose payload is not a marker clears the marker (the witness is specific) -/
example :
    Edit.outcomeIs (Edit.sessionMod (B "module m\nrequire a v1.0.0 // indirect; because\n")
        [.cleanup, .setRequire [⟨B "a", B "v1.0.0", false⟩] false, .cleanup])
      (fun o => o.typed.require == [⟨B "a", B "v1.0.0", false⟩] &&
                (o.reparsed.map (·.require)) == some [⟨B "a", B "v1.0.0", false⟩]) = true := by
  decide +kernel

/-- the same file with `go 1.21` is put in the semantic order (the witness is specific to the pre-release form) -/
example :
    Edit.outcomeIs (Edit.sessionMod (B "go 1.21\nexclude (\n\ta v1.10.0\n\ta v1.9.0\n)\n") [.setRequire [] false, .cleanup])
      (fun o => Edit.blocksOf o.tree == [([B "exclude"], [[B "a", B "v1.9.0"], [B "a", B "v1.10.0"]])]) = true := by
  decide +kernel

/-- non-vacuity on the model: both bulk setters on a file with duplicates, comments and two blocks; both
    map-iteration orders give the same bytes; requirements are exactly the requested ones. -/
example :
    let file := B "module example.com/m\n\nrequire (\n\texample.com/a v1.0.0 // indirect; why\n\texample.com/b v1.2.3\n\texample.com/a v1.1.0\n)\n\nrequire example.com/c/v2 v2.0.0 // note\n"
    let want : List Edit.Want := [⟨B "example.com/e", B "v1.0.0", true⟩, ⟨B "example.com/a", B "v1.9.0", false⟩, ⟨B "example.com/d/v3", B "v3.0.0", false⟩]
    Edit.outcomeIs (Edit.sessionMod file [.cleanup, .setRequire want false, .cleanup])
      (fun o => (Edit.sessionMod file [.cleanup, .setRequire want true, .cleanup]).map (·.out) == some o.out &&
        (Edit.sessionMod file [.cleanup, .setRequireSeparateIndirect want true, .cleanup]).map (·.out)
          == (Edit.sessionMod file [.cleanup, .setRequireSeparateIndirect want false, .cleanup]).map (·.out) &&
        o.reparsed.map (·.require) == some [⟨B "example.com/a", B "v1.9.0", false⟩, ⟨B "example.com/d/v3", B "v3.0.0", false⟩, ⟨B "example.com/e", B "v1.0.0", true⟩]) = true := by
  decide +kernel

/-- non-vacuity -/
example : (step stdValidity { require := [⟨B "a", B "v1.0.0", true⟩, ⟨B "c", B "v1.0.0", false⟩, ⟨B "a", B "v1.1.0", false⟩] }
      (.setRequire [⟨B "b", B "v1.0.0", false⟩, ⟨B "a", B "v1.5.0", false⟩])).require
    = [⟨B "a", B "v1.5.0", false⟩, ⟨B "b", B "v1.0.0", false⟩] := by decide +kernel
example : sortBy lineRetractLess [[B "v1.0.0"], [B "[", B "v1.2.0", B ",", B "v1.3.0", B "]"], [B "v1.9.0"]]
    = [[B "v1.9.0"], [B "[", B "v1.2.0", B ",", B "v1.3.0", B "]"], [B "v1.0.0"]] := by decide +kernel
example : sortBy lineExcludeLess [[B "a", B "v1.10.0"], [B "a", B "v1.9.0"]] = [[B "a", B "v1.9.0"], [B "a", B "v1.10.0"]] := by
  decide +kernel

/-! ### SetRequireSeparateIndirect on the syntax tree (Proofs/EditMoreSep*.lean) -/

/-- **SetRequireSeparateIndirect on the syntax tree.**  Same statement as `setRequire_tree_exact`, for the setter that
    also rearranges the blocks (`ensureBlock`, inserted empty blocks, requirement lines moved under fresh ids): after the
    call and Cleanup, for EVERY map-iteration order, the invariant holds again, every requested entry has a live line
    `require <AutoQuoted path> <version>` carrying the `// indirect` marker iff requested, and the tree has no other
    live `require` line. -/
theorem setRequireSeparateIndirect_tree_exact (e e' : Edit.EFile) (want : List Edit.Want) (perm : List Edit.Want → List Edit.Want)
    (hperm : ∀ l, (perm l).Perm l) (hg : Edit.GoodWant want) (hi : Edit.Inv e)
    (hlive : ∀ r ∈ e.f.require, Edit.liveRq r = true) (hset : Edit.NoNestedIndirectMarker e)
    (h : Edit.setRequireSeparateIndirect e want perm = .ok e') :
    Edit.Inv (Edit.cleanup e') ∧
    (∀ w ∈ want, ∃ v ∈ Edit.view (Edit.cleanup e').f.syn.stmts, v.toks = [B "require", autoQuote w.path, w.vers] ∧
      Edit.isIndirectS v.suffix = w.indirect) ∧
    (∀ v ∈ Edit.view (Edit.cleanup e').f.syn.stmts, v.toks.head? = some (B "require") →
      ∃ w ∈ want, v.toks = [B "require", autoQuote w.path, w.vers] ∧ Edit.isIndirectS v.suffix = w.indirect) :=
  Edit.setRequireSeparateIndirect_tree_exact e e' want perm hperm hg hi hlive hset h

/-- **blocks_sorted (partial 3): the bulk requirement setters.**  `SetRequire` and `SetRequireSeparateIndirect` end with
    SortBlocks on a state that satisfies the tree invariant (`Edit.setRequire_presort`,
    `Edit.setRequireSeparateIndirect_presort`), so in their result EVERY block — exclude blocks under the semantic order
    included — is sorted by the comparator the code selects for it.  With `blocks_sorted_partial2` (SortBlocks itself,
    AddTool) this covers every go.mod operation that sorts; go.work: `blocks_sorted_work` below. -/
theorem blocks_sorted_partial3 (e e' : Edit.EFile) (want : List Edit.Want) (perm : List Edit.Want → List Edit.Want)
    (hperm : ∀ l, (perm l).Perm l) (hg : Edit.GoodWant want) (hi : Edit.Inv e)
    (hlive : ∀ r ∈ e.f.require, Edit.liveRq r = true) (hset : Edit.NoNestedIndirectMarker e)
    (h : Edit.setRequire e want perm = .ok e' ∨ Edit.setRequireSeparateIndirect e want perm = .ok e')
    (b : LineBlock) (hb : Expr.lineBlock b ∈ e'.f.syn.stmts) :
    Sorted (Edit.onToken (Edit.lessFor (Edit.semOf e.f) false b.token)) b.lines :=
  Edit.bulk_blocks_sorted e e' want perm hperm hg hi hlive hset h b hb

/-- non-vacuity of `setRequireSeparateIndirect_tree_exact` / `blocks_sorted_partial3`: a state built from the empty file
    ending with Cleanup: every requirement is live, every line's marker is settable, and SetRequireSeparateIndirect
    succeeds in both map-iteration orders -/
example :
    (match Edit.runOps Edit.applyMod (Edit.load {})
        [.addModule (B "example.com/m"), .addGo (B "1.21"), .addRequire (B "example.com/a") (B "v1.0.0"),
         .addNewRequire (B "example.com/b") (B "v1.2.3") true, .addExclude (B "x") (B "v1.10.0"), .addExclude (B "x") (B "v1.9.0"),
         .cleanup] [] 0 with
     | .done e _ =>
       let want : List Edit.Want := [⟨B "example.com/e", B "v1.0.0", true⟩, ⟨B "example.com/a", B "v1.9.0", true⟩,
         ⟨B "example.com/b", B "v1.2.3", false⟩]
       Edit.invB e && Edit.bulkOKB e want &&
         (Edit.setRequireSeparateIndirect e want (Edit.permOf true)).isOk &&
         (Edit.setRequireSeparateIndirect e want (Edit.permOf false)).isOk
     | _ => false) = true := by decide +kernel

/-- **separate_blocks.**  When the file's requirements are ONE uncommented statement — a single `require` line or a single
    `require ( … )` block that carries no comment of its own (`Edit.sepOneFlat`, the code's `len(…)==1 && !hasComments`
    test on the scan of the statements) — then after `SetRequireSeparateIndirect want` and Cleanup, for EVERY
    map-iteration order, no `require` block of the tree holds both a line with and a line without the `// indirect`
    marker: direct and indirect requirements end in two different blocks (every kept requirement is moved, under a fresh
    line id, to the block of its kind; the two blocks are different statements: `Edit.SepGood.ne`; Cleanup, removeDups
    and the sort never merge statements: `Edit.StmtRefines`).  Hypotheses as for `setRequireSeparateIndirect_tree_exact`. -/
theorem separate_blocks (e e' : Edit.EFile) (want : List Edit.Want) (perm : List Edit.Want → List Edit.Want)
    (hperm : ∀ l, (perm l).Perm l) (hg : Edit.GoodWant want) (hi : Edit.Inv e)
    (hlive : ∀ r ∈ e.f.require, Edit.liveRq r = true) (hset : Edit.NoNestedIndirectMarker e)
    (hone : Edit.sepOneFlat e.f.syn.stmts (Edit.scanStmts e.f.syn.stmts 0 {}) = true)
    (h : Edit.setRequireSeparateIndirect e want perm = .ok e')
    (b : LineBlock) (hb : Expr.lineBlock b ∈ (Edit.cleanup e').f.syn.stmts) (htok : b.token = [B "require"]) :
    (∀ l ∈ b.lines, isIndirect l = true) ∨ (∀ l ∈ b.lines, isIndirect l = false) :=
  Edit.separate_blocks e e' want perm hperm hg hi hlive hset hone h b hb htok

/-- non-vacuity of `separate_blocks`: a parsed file whose requirements are one uncommented block mixing direct and
    indirect lines satisfies the hypotheses, and the call yields two blocks (direct first) -/
example :
    (match parseStrict (B "go.mod") (B "module m\n\nrequire (\n\ta v1.0.0 // indirect\n\tb v1.0.0\n\tc v1.0.0\n)\n") none with
     | .ok f =>
       let e := Edit.load f
       let want : List Edit.Want := [⟨B "a", B "v1.0.0", true⟩, ⟨B "b", B "v1.1.0", false⟩, ⟨B "d", B "v1.0.0", true⟩, ⟨B "e", B "v1.0.0", false⟩]
       Edit.invB e && Edit.bulkOKB e want && Edit.sepOneFlat e.f.syn.stmts (Edit.scanStmts e.f.syn.stmts 0 {}) &&
         (match Edit.setRequireSeparateIndirect e want (Edit.permOf true) with
          | .ok e' => Edit.blocksOf (Edit.cleanup e').f.syn ==
              [([B "require"], [[B "b", B "v1.1.0"], [B "e", B "v1.0.0"]]), ([B "require"], [[B "a", B "v1.0.0"], [B "d", B "v1.0.0"]])]
          | .error _ => false)
     | .error _ => false) = true := by decide +kernel

/-- **comments_survive.**  `SetRequire` / `SetRequireSeparateIndirect` keep the comments of the requirement they keep.  For
    the FIRST existing requirement `r` of a requested path (`e.f.require = d ++ r :: t`, no requirement in `d` has its
    path; later duplicates are removed), with `x0` its line (full tokens, `Before` and `Suffix` comments: `Edit.viewX`),
    after the call and Cleanup, for EVERY map-iteration order, there is a live line with the requested version that carries
    * every `Before` comment of `x0` except blank-line placeholders (`Edit.BeforeKept`; the only comment ever dropped is
      the single blank-line placeholder removed by `setVersion`, golang.org/issue/33779);
    * the `Suffix` comments of `x0` as `setIndirect` rewrites them, `Edit.sfxAfter w.indirect x0.suffix`: only the text of
      the first comment changes (the marker `// indirect` is added or removed, the rest of the text — the payload after
      `// indirect;` — stays), and a comment that is nothing but the marker is dropped (`sfxAfter_rewrites_marker_only`).
    The line may have been moved to another block by SetRequireSeparateIndirect (`Edit.viewX_moveExisting`). -/
theorem comments_survive (e e' : Edit.EFile) (want : List Edit.Want) (perm : List Edit.Want → List Edit.Want)
    (hperm : ∀ l, (perm l).Perm l) (hg : Edit.GoodWant want) (hi : Edit.Inv e)
    (hlive : ∀ r ∈ e.f.require, Edit.liveRq r = true) (hset : Edit.NoNestedIndirectMarker e)
    (h : Edit.setRequire e want perm = .ok e' ∨ Edit.setRequireSeparateIndirect e want perm = .ok e')
    (d : List Require) (r : Require) (t : List Require) (hsplit : e.f.require = d ++ r :: t)
    (hfirst : ∀ r' ∈ d, r'.mod.path ≠ r.mod.path) (w : Edit.Want) (hw : w ∈ want) (hwp : w.path = r.mod.path)
    (x0 : Edit.XLine) (hx0 : x0 ∈ Edit.viewX e.f.syn.stmts) (hid0 : x0.id = r.lineId) :
    ∃ x' ∈ Edit.viewX (Edit.cleanup e').f.syn.stmts, x'.toks = [B "require", autoQuote r.mod.path, w.vers] ∧
      Edit.BeforeKept x0.before x'.before ∧ (Edit.sfxAfter w.indirect x0.suffix).Sublist x'.suffix := by
  rcases h with h | h
  · exact Edit.setRequire_comments e e' want perm hperm hg hi hlive hset h d r t hsplit hfirst w hw hwp x0 hx0 hid0
  · exact Edit.setRequireSeparateIndirect_comments e e' want perm hg hi hlive hset h d r t hsplit hfirst w hw hwp x0 hx0 hid0

/-- `setIndirect` rewrites nothing but the marker in the text of the first end-of-line comment -/
theorem sfxAfter_rewrites_marker_only (b : Bool) (c : Comment) (rest : List Comment) :
    (∃ tok, Edit.sfxAfter b (c :: rest) = { c with token := tok } :: rest) ∨
    (b = false ∧ Edit.sfxAfter b (c :: rest) = [] ∧
      GoStrings.trimSpace (GoStrings.trimPrefix c.token Edit.slashSlash) = B "indirect") :=
  Edit.sfxAfter_cons b c rest

/-- non-vacuity of `comments_survive`: a parsed file whose requirement `a` (first of two lines for `a`) carries a `Before`
    comment and the end-of-line comment `// indirect; why`; both setters keep `// keep` and the payload `why` -/
example :
    (match parseStrict (B "go.mod") (B "module m\n\nrequire (\n\t// keep\n\ta v1.0.0 // indirect; why\n\tb v1.0.0\n\ta v1.1.0\n)\n") none with
     | .ok f =>
       let e := Edit.cleanup (Edit.load f)
       let want : List Edit.Want := [⟨B "a", B "v1.2.0", false⟩, ⟨B "c", B "v1.0.0", true⟩]
       Edit.invB e && Edit.bulkOKB e want &&
       (match Edit.setRequire e want (Edit.permOf false), Edit.setRequireSeparateIndirect e want (Edit.permOf true) with
        | .ok e1, .ok e2 =>
          (Edit.viewX (Edit.cleanup e1).f.syn.stmts).any (fun x => x.toks == [B "require", B "a", B "v1.2.0"] &&
            x.before.map (·.token) == [B "// keep"] && x.suffix.map (·.token) == [B "// why"]) &&
          (Edit.viewX (Edit.cleanup e2).f.syn.stmts).any (fun x => x.toks == [B "require", B "a", B "v1.2.0"] &&
            x.before.map (·.token) == [B "// keep"] && x.suffix.map (·.token) == [B "// why"])
        | _, _ => false)
     | .error _ => false) = true := by decide +kernel

/-! ### blocks_sorted for go.work (Proofs/EditWorkSorted.lean) -/

/-- **blocks_sorted, go.work: one operation.**  `WorkFile.SortBlocks` is `removeDups` (replacements) followed by
    `sortStmts false true`: every block is sorted by `lineLess`, whatever its verb.  A go.work operation that ends with it
    (`Edit.SortsW`: SortBlocks itself, SetUse) leaves EVERY block of the tree sorted by `lineLess` (a strict weak order on all
    token lists, `lineLess_strict_total`) — no hypothesis on the state. -/
theorem op_blocks_sorted_work (e e' : Edit.EWork) (op : Edit.Op) (hs : Edit.SortsW op = true)
    (h : Edit.applyWork e op = some (.ok e')) (b : LineBlock) (hb : Expr.lineBlock b ∈ e'.f.syn.stmts) :
    Sorted (Edit.onToken (Edit.lessFor false true b.token)) b.lines ∧ Edit.lessFor false true b.token = Edit.lineLess := by
  rw [Edit.lessFor_work]
  exact ⟨Edit.applyWork_sorts e e' op hs h b hb, rfl⟩

/-- **blocks_sorted, go.work sessions.**  A session of go.work operations (any arguments, any starting state — e.g.
    `Edit.loadWork f` for a parsed `f`) whose last operation ends with SortBlocks and that runs to completion leaves every
    block of the tree sorted by `lineLess`; the final Cleanup, which only deletes lines, keeps every block sorted
    (`Edit.cleanupStmts_block`).  With `blocks_sorted_partial2` / `blocks_sorted_partial3` (go.mod) every sorting operation of
    both file kinds is covered; the documented exclude order fails for pre-release go versions
    (`C16_violated_exclude_order_go_prerelease`). -/
theorem blocks_sorted_work (e e' : Edit.EWork) (ops : List Edit.Op) (op : Edit.Op) (res : List Bool)
    (hs : Edit.SortsW op = true) (h : Edit.runOps Edit.applyWork e (ops ++ [op]) [] 0 = .done e' res) :
    (∀ b, Expr.lineBlock b ∈ e'.f.syn.stmts → Sorted (Edit.onToken (Edit.lessFor false true b.token)) b.lines) ∧
    (∀ b, Expr.lineBlock b ∈ (Edit.workCleanup e').f.syn.stmts →
      Sorted (Edit.onToken (Edit.lessFor false true b.token)) b.lines) := by
  simp only [Edit.lessFor_work]
  exact Edit.blocks_sorted_work e e' ops op res hs h

/-- non-vacuity of `blocks_sorted_work` / `op_blocks_sorted_work`: a parsed go.work with an unsorted `use` block; a session
    ending with SetUse (both map-iteration orders) completes, and the block holds the requested directories in `lineLess` order -/
example :
    (match parseWork (B "go.work") (B "go 1.21\n\nuse (\n\t./z\n\t./b\n\t./m\n)\n") none with
     | .ok f =>
       [true, false].all fun rev =>
       (match Edit.runOps Edit.applyWork (Edit.loadWork f)
           ([.addUse (B "./c") [], .cleanup] ++ [.setUse [(B "./z", []), (B "./a", []), (B "./m", []), (B "./c", [])] rev]) [] 0 with
        | .done e res => res.all id &&
            Edit.blocksOf (Edit.workCleanup e).f.syn == [([B "use"], [[B "./a"], [B "./c"], [B "./m"], [B "./z"]])]
        | _ => false)
     | .error _ => false) = true := by decide +kernel

/-! ### comments_survive along a session (Proofs/EditWorkSession.lean) -/

/-- **comments_survive_session: `comments_survive` composed with `untouched_lines_survive` along a session.**  Session
    `ops1 ++ [bulk setter, Cleanup] ++ ops2` (`Edit.bulkOp sep want rev` = SetRequireSeparateIndirect if `sep`, else SetRequire)
    from a state satisfying the tree invariant, every operation with valid arguments in the state in which it runs
    (`Edit.RunValid`), run to completion.  `x0`: a line of the STARTING tree that `ops1` spares (`Edit.Spared`, as in
    `Props.C08.untouched_lines_survive`) and that is, in the state `e1` in which the setter runs, the line of the FIRST
    requirement `r` of a requested path (`w ∈ want`, `w.path = r.mod.path`).  If no operation of `ops2` names the rewritten
    line `require <path> <requested version>` (`Edit.Targets`: a condition on the operations only), then after the final
    Cleanup the tree has a line with exactly these tokens that carries
    * every non-blank `Before` comment of `x0` (`Edit.BeforeKept`), and
    * the end-of-line comments the line had when the setter ran — `x1.suffix`, of which `x0.suffix` is a sublist — as
      `setIndirect` rewrites them (`Edit.sfxAfter`, `sfxAfter_rewrites_marker_only`).
    `x1` is the line in `e1` (same id, same tokens).  The `Keeps` relation of Proofs/EditMoreKeepA.lean only records
    sublists, because Cleanup appends a collapsed block's own suffix comments — which the invariant excludes: the version
    with `x1.suffix = x0.suffix` and `x'.suffix = sfxAfter w.indirect x0.suffix` is `comments_survive_session_eq` below. -/
theorem comments_survive_session (e e1 e' : Edit.EFile) (ops1 ops2 : List Edit.Op) (sep rev : Bool) (want : List Edit.Want)
    (res res1 : List Bool) (hi : Edit.Inv e) (hv : Edit.RunValid e (ops1 ++ Edit.bulkOp sep want rev :: .cleanup :: ops2))
    (h : Edit.runOps Edit.applyMod e (ops1 ++ Edit.bulkOp sep want rev :: .cleanup :: ops2) [] 0 = .done e' res)
    (h1 : Edit.runOps Edit.applyMod e ops1 [] 0 = .done e1 res1)
    (d : List Require) (r : Require) (t : List Require) (hsplit : e1.f.require = d ++ r :: t)
    (hfirst : ∀ r' ∈ d, r'.mod.path ≠ r.mod.path) (w : Edit.Want) (hw : w ∈ want) (hwp : w.path = r.mod.path)
    (x0 : Edit.XLine) (hx0 : x0 ∈ Edit.viewX e.f.syn.stmts) (hid0 : x0.id = r.lineId)
    (hsp1 : Edit.Spared x0.toks x0.id e ops1)
    (hsp2 : ∀ op ∈ ops2, ¬Edit.Targets op [B "require", autoQuote r.mod.path, w.vers]) :
    ∃ x1 ∈ Edit.viewX e1.f.syn.stmts, (x1.id = x0.id ∧ x1.toks = x0.toks ∧ x0.before.Sublist x1.before ∧
        x0.suffix.Sublist x1.suffix) ∧
      ∃ x' ∈ Edit.viewX (Edit.cleanup e').f.syn.stmts, x'.toks = [B "require", autoQuote r.mod.path, w.vers] ∧
        Edit.BeforeKept x0.before x'.before ∧ (Edit.sfxAfter w.indirect x1.suffix).Sublist x'.suffix :=
  Edit.comments_survive_session e e1 e' ops1 ops2 sep rev want res res1 hi hv h h1 d r t hsplit hfirst w hw hwp x0 hx0 hid0
    hsp1 hsp2

/-- a static form of `Props.C08.untouched_lines_survive` used for `ops2` above: `Edit.Targets` depends on the operation and
    the tokens only; SortBlocks' de-duplication (the state-dependent part of `Edit.Spared`) only ever removes `exclude`,
    `replace` and `tool` lines (`Edit.Inv.not_killed_of_verb`), so for every other line "no operation names its tokens" is enough -/
theorem untouched_lines_survive_static (e e' : Edit.EFile) (ops : List Edit.Op) (res : List Bool) (hi : Edit.Inv e)
    (hv : Edit.RunValid e ops) (h : Edit.runOps Edit.applyMod e ops [] 0 = .done e' res)
    (x : Edit.XLine) (hx : x ∈ Edit.viewX e.f.syn.stmts) (hnt : ∀ op ∈ ops, ¬Edit.Targets op x.toks)
    (hnd : Edit.NotDedupVerb x.toks) :
    ∃ x' ∈ Edit.viewX (Edit.cleanup e').f.syn.stmts, x'.id = x.id ∧ x'.toks = x.toks ∧ x.before.Sublist x'.before ∧
      x.suffix.Sublist x'.suffix :=
  Edit.untouched_lines_survive_static e e' ops res hi hv h x hx hnt hnd

/-- non-vacuity of `comments_survive_session` / `untouched_lines_survive_static`, for both setters: the requirement `a` of a
    parsed file carries `// keep` and `// indirect; why`; `ops1` (go line, an exclude, Cleanup) spares it (`Edit.sparedB`), it is
    the first requirement when the setter runs, `ops2` names no `require` line (`Edit.opVerb`, sound by `Edit.targets_verb`);
    the whole session has valid arguments (`Edit.runValidB`), completes, and the final line `require a v1.2.0` carries
    `// keep` and the payload `// why` -/
example :
    (match parseStrict (B "go.mod") (B "module m\n\nrequire (\n\t// keep\n\ta v1.0.0 // indirect; why\n\tb v1.0.0\n)\n") none with
     | .ok f =>
       let e := Edit.load f
       let want : List Edit.Want := [⟨B "a", B "v1.2.0", false⟩, ⟨B "c", B "v1.0.0", true⟩]
       let ops1 : List Edit.Op := [.addGo (B "1.21"), .addExclude (B "x") (B "v1.0.0"), .cleanup]
       let ops2 : List Edit.Op := [.addTool (B "t"), .dropExclude (B "x") (B "v1.0.0")]
       [true, false].all fun sep =>
       Edit.invB e && Edit.runValidB e (ops1 ++ Edit.bulkOp sep want true :: .cleanup :: ops2) &&
       ops2.all (fun op => Edit.opVerb op != some (B "require")) &&
       (match Edit.runOps Edit.applyMod e ops1 [] 0,
              Edit.runOps Edit.applyMod e (ops1 ++ Edit.bulkOp sep want true :: .cleanup :: ops2) [] 0 with
        | .done e1 _, .done e' _ =>
          (match e1.f.require with
           | r :: _ => r.mod.path == B "a" &&
             (Edit.viewX e.f.syn.stmts).any (fun x0 => x0.id == r.lineId && Edit.sparedB x0.toks x0.id e ops1 &&
               x0.before.map (·.token) == [B "// keep"] && x0.suffix.map (·.token) == [B "// indirect; why"])
           | [] => false) &&
          (Edit.viewX (Edit.cleanup e').f.syn.stmts).any (fun x => x.toks == [B "require", B "a", B "v1.2.0"] &&
            x.before.map (·.token) == [B "// keep"] && x.suffix.map (·.token) == [B "// why"])
        | _, _ => false)
     | .error _ => false) = true := by decide +kernel

/-! ### … with EQUALITY of the end-of-line comments (Proofs/EditKeepEq{A,B,C,D}.lean) -/

/-- **comments_survive_session_eq: the end-of-line comments survive EXACTLY.**  Same session and hypotheses as
    `comments_survive_session`.  (1) In the state `e1` in which the setter runs, the line `x0` that `ops1` spares is still there:
    same id, same tokens, its `Before` comments as a sublist (Cleanup prepends the whole-line comments of a collapsed one-line
    block: the example below) and `x1.suffix = x0.suffix`.  (2) After the final Cleanup the rewritten line
    `require <path> <requested version>` carries every non-blank `Before` comment of `x0`, and its end-of-line comments ARE
    `Edit.sfxAfter w.indirect x0.suffix` — those of `x0` as `setIndirect` rewrites them (`sfxAfter_rewrites_marker_only`), nothing
    added, nothing lost.  Route: the relation `Edit.KeepsS` (as `Edit.Keeps`, equality on `Suffix`) through every primitive —
    updateLine, markRemoved, addLine's hinted walk, Cleanup, removeDups, the sort, insertAt, appendToBlock, moveExisting,
    ensureBlock — and every go.mod operation (`Edit.applyMod_opKeepsS`).  The ONLY place where an end-of-line comment list can
    grow is Cleanup collapsing a one-line block that carries an end-of-line comment of its own (`cleanup_grows_block_suffix`),
    which the tree invariant excludes (`Edit.TreeWF.noBlockSuffix`, part of `Edit.Inv`, preserved by every operation). -/
theorem comments_survive_session_eq (e e1 e' : Edit.EFile) (ops1 ops2 : List Edit.Op) (sep rev : Bool) (want : List Edit.Want)
    (res res1 : List Bool) (hi : Edit.Inv e) (hv : Edit.RunValid e (ops1 ++ Edit.bulkOp sep want rev :: .cleanup :: ops2))
    (h : Edit.runOps Edit.applyMod e (ops1 ++ Edit.bulkOp sep want rev :: .cleanup :: ops2) [] 0 = .done e' res)
    (h1 : Edit.runOps Edit.applyMod e ops1 [] 0 = .done e1 res1)
    (d : List Require) (r : Require) (t : List Require) (hsplit : e1.f.require = d ++ r :: t)
    (hfirst : ∀ r' ∈ d, r'.mod.path ≠ r.mod.path) (w : Edit.Want) (hw : w ∈ want) (hwp : w.path = r.mod.path)
    (x0 : Edit.XLine) (hx0 : x0 ∈ Edit.viewX e.f.syn.stmts) (hid0 : x0.id = r.lineId)
    (hsp1 : Edit.Spared x0.toks x0.id e ops1)
    (hsp2 : ∀ op ∈ ops2, ¬Edit.Targets op [B "require", autoQuote r.mod.path, w.vers]) :
    ∃ x1 ∈ Edit.viewX e1.f.syn.stmts, (x1.id = x0.id ∧ x1.toks = x0.toks ∧ x0.before.Sublist x1.before ∧
        x1.suffix = x0.suffix) ∧
      ∃ x' ∈ Edit.viewX (Edit.cleanup e').f.syn.stmts, x'.toks = [B "require", autoQuote r.mod.path, w.vers] ∧
        Edit.BeforeKept x0.before x'.before ∧ x'.suffix = Edit.sfxAfter w.indirect x0.suffix :=
  Edit.comments_survive_session_eq e e1 e' ops1 ops2 sep rev want res res1 hi hv h h1 d r t hsplit hfirst w hw hwp x0 hx0 hid0
    hsp1 hsp2

/-- **an untouched line keeps its end-of-line comments exactly** (`Props.C08.untouched_lines_survive` with equality on
    `Suffix`): in a session of go.mod operations with valid arguments from a state satisfying the invariant, a line that no
    operation names and no SortBlocks removes as a duplicate (`Edit.Spared`) is in the tree after the final Cleanup with its id,
    its tokens, its `Before` comments as a sublist and EXACTLY its `Suffix` comments -/
theorem untouched_lines_survive_eq (e e' : Edit.EFile) (ops : List Edit.Op) (res : List Bool) (hi : Edit.Inv e)
    (hv : Edit.RunValid e ops) (h : Edit.runOps Edit.applyMod e ops [] 0 = .done e' res)
    (x : Edit.XLine) (hx : x ∈ Edit.viewX e.f.syn.stmts) (hsp : Edit.Spared x.toks x.id e ops) :
    ∃ x' ∈ Edit.viewX (Edit.cleanup e').f.syn.stmts, x'.id = x.id ∧ x'.toks = x.toks ∧ x.before.Sublist x'.before ∧
      x'.suffix = x.suffix :=
  Edit.untouched_lines_survive_eq e e' ops res hi hv h x hx hsp

/-- the static form (`untouched_lines_survive_static`) with equality on `Suffix` -/
theorem untouched_lines_survive_static_eq (e e' : Edit.EFile) (ops : List Edit.Op) (res : List Bool) (hi : Edit.Inv e)
    (hv : Edit.RunValid e ops) (h : Edit.runOps Edit.applyMod e ops [] 0 = .done e' res)
    (x : Edit.XLine) (hx : x ∈ Edit.viewX e.f.syn.stmts) (hnt : ∀ op ∈ ops, ¬Edit.Targets op x.toks)
    (hnd : Edit.NotDedupVerb x.toks) :
    ∃ x' ∈ Edit.viewX (Edit.cleanup e').f.syn.stmts, x'.id = x.id ∧ x'.toks = x.toks ∧ x.before.Sublist x'.before ∧
      x'.suffix = x.suffix :=
  Edit.untouched_lines_survive_static_eq e e' ops res hi hv h x hx hnt hnd

/-- one operation: a line the operation does not name (and no de-duplication removes) keeps id, tokens, `Before` comments
    (sublist) and exactly its `Suffix` comments -/
theorem op_untouched_line_survives_eq (e e' : Edit.EFile) (op : Edit.Op) (hv : Edit.ValidArgsAll e op) (hi : Edit.Inv e)
    (h : Edit.applyMod e op = some (.ok e')) (x : Edit.XLine) (hx : x ∈ Edit.viewX e.f.syn.stmts)
    (hnt : ¬Edit.Targets op x.toks) (hk : Edit.Sorts op = true → x.id ∉ Edit.kill3 e.f) :
    ∃ x' ∈ Edit.viewX e'.f.syn.stmts, x'.id = x.id ∧ x'.toks = x.toks ∧ x.before.Sublist x'.before ∧ x'.suffix = x.suffix :=
  Edit.applyMod_untouchedS e e' op hv hi h x hx hnt hk

/-- why the tree invariant is needed: on the tree `require ( // c` + `a v1 // s` + `)` — a block carrying an end-of-line
    comment of its own, which `Edit.TreeWF.noBlockSuffix` excludes — Cleanup collapses the block into the line
    `require a v1 // s // c`: the line's end-of-line comments grow, the equality fails (the sublist relation of
    `Props.C08.untouched_lines_survive` still holds) -/
theorem cleanup_grows_block_suffix : ¬ Edit.KeepsS [] Edit.growTree (Edit.cleanupStmts Edit.growTree) :=
  Edit.keepsS_cleanupStmts_needs_noBlockSuffix

/-- non-vacuity of `comments_survive_session_eq` / `untouched_lines_survive_eq`, for both setters: the requirement `a` is the
    only line of a block that carries the whole-line comment `// blk`; the line carries `// keep` and `// indirect; why`.
    `ops1` (go line, an exclude, Cleanup) spares it (`Edit.sparedB`) — its Cleanup collapses the block, so in `e1` the line's
    `Before` comments have GROWN to `// blk`, `// keep` while its `Suffix` comments are literally those of `x0`; the whole session
    has valid arguments (`Edit.runValidB`), completes, and the end-of-line comments of the final line `require a v1.2.0` are
    literally `sfxAfter false x0.suffix` = `// why` -/
example :
    (match parseStrict (B "go.mod") (B "module m\n\n// blk\nrequire (\n\t// keep\n\ta v1.0.0 // indirect; why\n)\n\nrequire b v1.0.0\n") none with
     | .ok f =>
       let e := Edit.load f
       let want : List Edit.Want := [⟨B "a", B "v1.2.0", false⟩, ⟨B "c", B "v1.0.0", true⟩]
       let ops1 : List Edit.Op := [.addGo (B "1.21"), .addExclude (B "x") (B "v1.0.0"), .cleanup]
       let ops2 : List Edit.Op := [.addTool (B "t"), .dropExclude (B "x") (B "v1.0.0")]
       [true, false].all fun sep =>
       Edit.invB e && Edit.runValidB e (ops1 ++ Edit.bulkOp sep want true :: .cleanup :: ops2) &&
       ops2.all (fun op => Edit.opVerb op != some (B "require")) &&
       (match Edit.runOps Edit.applyMod e ops1 [] 0,
              Edit.runOps Edit.applyMod e (ops1 ++ Edit.bulkOp sep want true :: .cleanup :: ops2) [] 0 with
        | .done e1 _, .done e' _ =>
          (match e1.f.require with
           | r :: _ => r.mod.path == B "a" &&
             (Edit.viewX e.f.syn.stmts).any (fun x0 => x0.id == r.lineId && Edit.sparedB x0.toks x0.id e ops1 &&
               x0.before.map (·.token) == [B "// keep"] && x0.suffix.map (·.token) == [B "// indirect; why"] &&
               (Edit.viewX e1.f.syn.stmts).any (fun x1 => x1.id == x0.id && x1.toks == x0.toks &&
                 x1.before.map (·.token) == [B "// blk", B "// keep"] && x1.suffix == x0.suffix) &&
               (Edit.viewX (Edit.cleanup e').f.syn.stmts).any (fun x => x.toks == [B "require", B "a", B "v1.2.0"] &&
                 x.before.map (·.token) == [B "// blk", B "// keep"] && x.suffix == Edit.sfxAfter false x0.suffix &&
                 x.suffix.map (·.token) == [B "// why"]))
           | [] => false)
        | _, _ => false)
     | .error _ => false) = true := by decide +kernel

/-! ### perm_independent on the formatted file (Proofs/EditWorkPerm{,A,B,C,D}.lean) -/

/-- **perm_independent.**  Two runs of `SetRequire want`, of `SetRequireSeparateIndirect want`, of `SetUse dirs` from the same
    state — tree invariant, live requirements (uses), hypotheses as for `setRequire_tree_exact` /
    `setRequireSeparateIndirect_tree_exact` / `setUse_tree_exact` — that differ only in the map-iteration order give the SAME
    BYTE STRING under `Format`, directly after the call and after Cleanup.  Why: the entries still missing after the loop over
    the existing ones are added by `addLine` with the nil hint and all land in ONE statement — the last statement with the
    verb, which becomes / is a block, or a new block at the end of the file (`Edit.addMany_block` / `addMany_line` /
    `addMany_none`) — resp., for SetRequireSeparateIndirect, are appended by index to the direct and the indirect block
    (`Edit.appendMany_get`); their tokens are pairwise different (distinct paths, `Edit.autoQuote_injective`); SortBlocks sorts
    these `require` / `use` blocks by `lineLess`, total on tokens, and the stable sort is determined by the multiset and the
    order inside each class of equal tokens (`sortBy_stable`, `sorted_stable_unique`, `sortBy_append_perm_invariant`); so the
    two trees are equal up to the line ids the call handed out (`Edit.setRequire_tree_perm_independent`, `Edit.normStmt`), which
    `Format` and Cleanup do not look at (`Edit.format_norm`, `Edit.cleanupStmts_norm`). -/
theorem perm_independent :
    (∀ (e e1 e2 : Edit.EFile) (want : List Edit.Want) (p1 p2 : List Edit.Want → List Edit.Want),
      (∀ l, (p1 l).Perm l) → (∀ l, (p2 l).Perm l) → Edit.GoodWant want → Edit.Inv e →
      (∀ r ∈ e.f.require, Edit.liveRq r = true) → Edit.NoNestedIndirectMarker e →
      ((Edit.setRequire e want p1 = .ok e1 → Edit.setRequire e want p2 = .ok e2 →
        format e1.f.syn = format e2.f.syn ∧ format (Edit.cleanup e1).f.syn = format (Edit.cleanup e2).f.syn) ∧
       (Edit.setRequireSeparateIndirect e want p1 = .ok e1 → Edit.setRequireSeparateIndirect e want p2 = .ok e2 →
        format e1.f.syn = format e2.f.syn ∧ format (Edit.cleanup e1).f.syn = format (Edit.cleanup e2).f.syn))) ∧
    (∀ (w w1 w2 : Edit.EWork) (dirs : List (Bytes × Bytes)) (q1 q2 : List (Bytes × Bytes) → List (Bytes × Bytes)),
      (∀ l, (q1 l).Perm l) → (∀ l, (q2 l).Perm l) → Edit.GoodUse dirs → Edit.InvW w →
      (∀ u ∈ w.f.use, Edit.liveU u = true) →
      Edit.setUse w dirs q1 = .ok w1 → Edit.setUse w dirs q2 = .ok w2 →
      format w1.f.syn = format w2.f.syn ∧ format (Edit.workCleanup w1).f.syn = format (Edit.workCleanup w2).f.syn) :=
  ⟨fun e e1 e2 want p1 p2 hp1 hp2 hg hi hlive hset =>
     ⟨fun h1 h2 => Edit.setRequire_format_perm_independent e e1 e2 want p1 p2 hp1 hp2 hg hi hlive hset h1 h2,
      fun h1 h2 => Edit.setRequireSeparateIndirect_format_perm_independent e e1 e2 want p1 p2 hp1 hp2 hg hi hlive hset h1 h2⟩,
   fun w w1 w2 dirs q1 q2 hq1 hq2 hg hi hlive h1 h2 =>
     Edit.setUse_format_perm_independent w w1 w2 dirs q1 q2 hq1 hq2 hg hi hlive h1 h2⟩

/-- the tree-level form: the two trees are equal once every line id `≥ e.next` (those handed out by the call) is erased -/
theorem setRequire_tree_perm_independent (e e1 e2 : Edit.EFile) (want : List Edit.Want) (p1 p2 : List Edit.Want → List Edit.Want)
    (hp1 : ∀ l, (p1 l).Perm l) (hp2 : ∀ l, (p2 l).Perm l) (hg : Edit.GoodWant want) (hi : Edit.Inv e)
    (hlive : ∀ r ∈ e.f.require, Edit.liveRq r = true) (hset : Edit.NoNestedIndirectMarker e)
    (h1 : Edit.setRequire e want p1 = .ok e1) (h2 : Edit.setRequire e want p2 = .ok e2) :
    e1.f.syn.stmts.map (Edit.normStmt e.next) = e2.f.syn.stmts.map (Edit.normStmt e.next) :=
  Edit.setRequire_tree_perm_independent e e1 e2 want p1 p2 hp1 hp2 hg hi hlive hset h1 h2

/-- the list-level core: appending lines with pairwise different tokens to a block in two different orders (and under
    different fresh ids: `f` erases them) gives the same `lineLess`-sorted block up to `f` -/
theorem stableSort_append_perm_invariant (f : Line → Line) (hf : ∀ l, (f l).token = l.token) (old new1 new2 : List Line)
    (hp : (new1.map f).Perm (new2.map f)) (hd : new1.Pairwise (fun a b => a.token ≠ b.token)) :
    (Edit.stableSort Edit.lineLess (old ++ new1)).map f = (Edit.stableSort Edit.lineLess (old ++ new2)).map f :=
  Edit.stableSort_lineLess_perm_invariant_modIds f hf old new1 new2 hp hd

/-- non-vacuity of `perm_independent` / `setRequire_tree_perm_independent`: a parsed go.mod (two requirement statements,
    comments) after Cleanup satisfies the hypotheses (`Edit.invB`, `Edit.bulkOKB`), both requirement setters with three missing
    entries succeed in both orders, the two trees differ (the fresh ids) and the formatted files agree; same for a go.work
    and SetUse (`Edit.invWB`, `Edit.goodUseB`) -/
example :
    (match parseStrict (B "go.mod") (B "module m\n\nrequire (\n\t// keep\n\ta v1.0.0 // indirect; why\n\tb v1.0.0\n)\n\nrequire c v1.0.0\n") none with
     | .ok f =>
       let e := Edit.cleanup (Edit.load f)
       let want : List Edit.Want := [⟨B "z", B "v1.0.0", true⟩, ⟨B "a", B "v1.2.0", false⟩, ⟨B "d", B "v1.0.0", false⟩, ⟨B "k", B "v0.1.0", true⟩]
       Edit.invB e && Edit.bulkOKB e want &&
       (match Edit.setRequire e want (Edit.permOf false), Edit.setRequire e want (Edit.permOf true) with
        | .ok e1, .ok e2 => e1.f.syn != e2.f.syn && format e1.f.syn == format e2.f.syn
        | _, _ => false) &&
       (match Edit.setRequireSeparateIndirect e want (Edit.permOf false), Edit.setRequireSeparateIndirect e want (Edit.permOf true) with
        | .ok e1, .ok e2 => e1.f.syn != e2.f.syn && format e1.f.syn == format e2.f.syn
        | _, _ => false)
     | .error _ => false) = true ∧
    (match parseWork (B "go.work") (B "go 1.21\n\nuse ./m\n") none with
     | .ok f =>
       let w := Edit.workCleanup (Edit.loadWork f)
       let dirs : List (Bytes × Bytes) := [(B "./z", []), (B "./a", []), (B "./m", [])]
       Edit.invWB w && Edit.goodUseB dirs && w.f.use.all Edit.liveU &&
       (match Edit.setUse w dirs (Edit.permOf false), Edit.setUse w dirs (Edit.permOf true) with
        | .ok w1, .ok w2 => w1.f.syn != w2.f.syn && format w1.f.syn == format w2.f.syn
        | _, _ => false)
     | .error _ => false) = true := by
  constructor <;> decide +kernel

end ModVerif.Props.C16
