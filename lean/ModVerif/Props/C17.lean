/-
  C17 — which files belong in a module zip is a fixed function of the tree.
  Property theorems only; helper lemmas live in ModVerif/Proofs/Zip*.lean.  All theorems hold for every
  environment `E` (CheckFilePath, strToFold, module check are parameters of the model).
-/
import ModVerif.Spec.ZipSpec
import ModVerif.Proofs.ZipCheckFiles
namespace ModVerif.Props.C17
open ModVerif ModVerif.PathClean ModVerif.Zip ModVerif.ZipSpec ModVerif.Proofs.Zip

/-- Every file given to the file check lands in exactly one of valid, omitted or invalid: for a list
    without repeated paths, the paths reported (valid, then omitted, then invalid) are a permutation of
    the paths given.  (With repeated paths this fails: observation O2, see `checkFiles_duplicates`.) -/
theorem checkFiles_partition (E : Env) (files : List FileInfo) (ge124 : Bool)
    (hnd : (files.map (·.path)).Nodup) :
    (reported (checkFiles E files ge124)).Perm (files.map (·.path)) :=
  checkFilesSt_reported_perm E ge124 files hnd

/-- the same for the go version the function derives itself from the root go.mod of the list -/
theorem checkFilesV_partition (E : Env) (files : List FileInfo) (hnd : (files.map (·.path)).Nodup) :
    (reported (checkFilesV E files)).Perm (files.map (·.path)) :=
  checkFiles_partition E files (goVers files) hnd

/-- hence no path is reported twice, in one list or in two of them. -/
theorem checkFiles_reported_nodup (E : Env) (files : List FileInfo) (ge124 : Bool)
    (hnd : (files.map (·.path)).Nodup) : (reported (checkFiles E files ge124)).Nodup :=
  (checkFiles_partition E files ge124 hnd).nodup_iff.mpr hnd

/-- and every given file is reported exactly once. -/
theorem checkFiles_exactly_once (E : Env) (files : List FileInfo) (ge124 : Bool)
    (hnd : (files.map (·.path)).Nodup) (f : FileInfo) (hf : f ∈ files) :
    (reported (checkFiles E files ge124)).count f.path = 1 := by
  rw [(checkFiles_partition E files ge124 hnd).count_eq]
  exact List.count_eq_one_of_mem hnd (List.mem_map_of_mem (f := fun x : FileInfo => x.path) hf)

end ModVerif.Props.C17
