/-
  C17 — which files belong in a module zip is a fixed function of the tree.
  Property theorems only; helper lemmas live in ModVerif/Proofs/Zip*.lean.  All theorems hold for every
  environment `E` (CheckFilePath, strToFold, module check are parameters of the model).
-/
import ModVerif.Spec.ZipSpec
import ModVerif.Proofs.ZipCheckFiles
import ModVerif.Proofs.ZipNameOK
import ModVerif.Proofs.ZipSubmodule
namespace ModVerif.Props.C17
open ModVerif ModVerif.PathClean ModVerif.Zip ModVerif.ZipSpec ModVerif.Proofs.Zip

/-- Every file given to the file check lands in exactly one of valid, omitted or invalid: for a list
    without repeated paths, the paths reported (valid, then omitted, then invalid) are a permutation of
    the paths given.  (With repeated paths this fails: observation O2, see `checkFiles_duplicates`.) -/
theorem checkFiles_partition (E : Env) (files : List FileInfo) (ge124 : Bool)
    (hnd : (files.map (·.path)).Nodup) :
    (reported (checkFiles E files ge124)).Perm (files.map (·.path)) :=
  checkFilesSt_reported_perm E ge124 files hnd

/-- the same for the go version the function derives itself from the root go.mod of the list -/
theorem checkFilesV_partition (E : Env) (files : List FileInfo) (hnd : (files.map (·.path)).Nodup) :
    (reported (checkFilesV E files)).Perm (files.map (·.path)) :=
  checkFiles_partition E files (goVers files) hnd

/-- hence no path is reported twice, in one list or in two of them. -/
theorem checkFiles_reported_nodup (E : Env) (files : List FileInfo) (ge124 : Bool)
    (hnd : (files.map (·.path)).Nodup) : (reported (checkFiles E files ge124)).Nodup :=
  (checkFiles_partition E files ge124 hnd).nodup_iff.mpr hnd

/-- and every given file is reported exactly once. -/
theorem checkFiles_exactly_once (E : Env) (files : List FileInfo) (ge124 : Bool)
    (hnd : (files.map (·.path)).Nodup) (f : FileInfo) (hf : f ∈ files) :
    (reported (checkFiles E files ge124)).count f.path = 1 := by
  rw [(checkFiles_partition E files ge124 hnd).count_eq]
  rw [List.Nodup.count hnd, if_pos (List.mem_map_of_mem (f := fun x : FileInfo => x.path) hf)]


/-- Nested modules: the test `inSubmodule` of the file check holds for a path exactly when one of its
    proper directory prefixes (ending in a slash) is a module root of the list, i.e. holds a regular
    file named go.mod in any case. -/
theorem submodule_rule (files : List FileInfo) (p : Bytes) :
    inSubmodule (prePass files).haveGoMod p = true ↔ ∃ d ∈ dirPrefixes p, IsModuleDir files d :=
  inSubmodule_iff files p

/-- the directory prefixes of a path are exactly its prefixes that end in a slash -/
theorem dirPrefixes_spec (p d : Bytes) : d ∈ dirPrefixes p ↔ ∃ a b, p = a ++ 47 :: b ∧ d = a ++ [47] :=
  mem_dirPrefixes_iff p d

/-- Everything reported as valid is a regular file of the input whose path is clean, relative,
    accepted by `CheckFilePath`, not in a vendored package (for the given go version), not inside a
    nested module, not `.hg_archival.txt`, not a mis-cased or misplaced go.mod, and within the go.mod /
    LICENSE size limits. -/
theorem valid_files_rules (E : Env) (files : List FileInfo) (ge124 : Bool) :
    ∀ p ∈ (checkFiles E files ge124).valid, ∃ f ∈ files, f.path = p ∧ f.mode = .regular ∧
      pathClean p = p ∧ isAbs p = false ∧ isVendoredPackage p ge124 = false ∧
      (¬ ∃ d ∈ dirPrefixes p, IsModuleDir files d) ∧ p ≠ hgArchivalName ∧ E.cfp p = true ∧
      (equalFoldGoMod (lastElem p) = true → p = goModName) ∧
      (p = goModName → f.size ≤ MaxGoMod) ∧ (p = licenseName → f.size ≤ MaxLICENSE) := by
  intro p hp
  obtain ⟨hv1, hv2⟩ := checkFilesSt_validFiles E ge124 files
  have hinv := checkFilesSt_validInv E ge124 files
  have hp' : p ∈ (checkFilesSt E files ge124).cf.valid := hp
  rw [hv2] at hp'
  obtain ⟨f, hf, rfl⟩ := List.mem_map.mp hp'
  have ok := hinv.nameOK f hf
  refine ⟨f, (hv1 f hf).1, rfl, ok.regular, ok.clean, ok.notAbs, ok.notVendored, ?_, ok.notHg, ok.cfp,
    valid_goMod_is_root E ge124 files f (hv1 f hf).1 ok, ok.goModSize, ok.licenseSize⟩
  intro hsub
  have := (inSubmodule_iff files f.path).mpr hsub
  rw [ok.notInSubmodule] at this; cases this

/-- no two valid files have the same case-folded path -/
theorem valid_files_fold_distinct (E : Env) (files : List FileInfo) (ge124 : Bool) :
    (checkFiles E files ge124).valid.Pairwise (fun a b => E.toFold a ≠ E.toFold b) := by
  obtain ⟨_, hv2⟩ := checkFilesSt_validFiles E ge124 files
  have hinv := checkFilesSt_validInv E ge124 files
  show (checkFilesSt E files ge124).cf.valid.Pairwise _
  rw [hv2, List.pairwise_map]
  exact hinv.foldDistinct

/-- The vendoring rule in its two variants on the documented examples (golang.org/issue/37397):
    `vendor/modules.txt` is omitted only from go 1.24 on; `pkg/vendor/vendor.go` was (wrongly) taken for
    vendored before go 1.24 and is kept from 1.24 on; `pkg/vendor/foo/foo.go` and `vendor/a/b.go` are
    vendored in both; `vendor/x.go` in neither. -/
theorem vendor_rule_examples :
    isVendoredPackage (B "vendor/modules.txt") true = true ∧ isVendoredPackage (B "vendor/modules.txt") false = false ∧
    isVendoredPackage (B "pkg/vendor/vendor.go") false = true ∧ isVendoredPackage (B "pkg/vendor/vendor.go") true = false ∧
    isVendoredPackage (B "pkg/vendor/foo/foo.go") false = true ∧ isVendoredPackage (B "pkg/vendor/foo/foo.go") true = true ∧
    isVendoredPackage (B "vendor/a/b.go") false = true ∧ isVendoredPackage (B "vendor/a/b.go") true = true ∧
    isVendoredPackage (B "vendor/x.go") false = false ∧ isVendoredPackage (B "vendor/x.go") true = false := by
  decide +kernel

/-- Observation O2: with a path listed three times, the third occurrence appears in none of the three
    lists (the error reports are de-duplicated by path), so the partition needs duplicate-free input. -/
theorem checkFiles_duplicates :
    let E : Env := { cfp := fun p => !p.isEmpty, toFold := lowerAscii, modOK := fun _ _ => true }
    let f : FileInfo := ⟨B "a.go", .regular, 1, B "x", false⟩
    reported (checkFiles E [f, f, f] false) = [B "a.go", B "a.go"] := by
  decide +kernel

/-! ### non-vacuity -/

def exEnv : Env := { cfp := fun p => !p.isEmpty, toFold := lowerAscii, modOK := fun _ _ => true }

def exFiles : List FileInfo :=
  [⟨B "go.mod", .regular, 2, B "hi", false⟩, ⟨B "a/b.go", .regular, 1, B "x", false⟩, ⟨B "a/B.go", .regular, 1, B "x", false⟩,
   ⟨B "sub/go.mod", .regular, 0, [], false⟩, ⟨B "sub/c.go", .regular, 1, B "y", false⟩,
   ⟨B "vendor/p/q.go", .regular, 1, B "z", false⟩, ⟨B "link", .symlink, 0, [], false⟩, ⟨B "./x", .regular, 0, [], false⟩]

example : (exFiles.map (·.path)).Nodup := by decide +kernel

example : checkFiles exEnv exFiles false =
    { valid := [B "go.mod", B "a/b.go"],
      omitted := [(B "sub/go.mod", .submoduleFile), (B "sub/c.go", .submoduleFile), (B "vendor/p/q.go", .vendored), (B "link", .symlink)],
      invalid := [(B "a/B.go", .caseCollision), (B "./x", .notClean)], sizeError := false } := by decide +kernel

example : IsModuleDir exFiles (B "sub/") := ⟨⟨B "sub/go.mod", .regular, 0, [], false⟩, by decide +kernel, rfl, by decide +kernel, by decide +kernel⟩

end ModVerif.Props.C17
