/-
  C17 — which files belong in a module zip is a fixed function of the tree.
  Property theorems only; helper lemmas live in ModVerif/Proofs/Zip*.lean.  All theorems hold for every
  environment `E` (CheckFilePath, strToFold, module check are parameters of the model).
-/
import ModVerif.Spec.ZipSpec
import ModVerif.Proofs.ZipCheckFiles
import ModVerif.Proofs.ZipNameOK
import ModVerif.Proofs.ZipSubmodule
import ModVerif.Proofs.ZipASpec
import ModVerif.Proofs.ZipAClassify
import ModVerif.Proofs.ZipAVendor
import ModVerif.Proofs.ZipAPerm
import ModVerif.Proofs.ZipADir
namespace ModVerif.Props.C17
open ModVerif ModVerif.PathClean ModVerif.Zip ModVerif.ZipSpec ModVerif.Proofs.Zip

/-- Every file given to the file check lands in exactly one of valid, omitted or invalid: for a list
    without repeated paths, the paths reported (valid, then omitted, then invalid) are a permutation of
    the paths given.  (With repeated paths this fails: observation O2, see `checkFiles_duplicates`.) -/
theorem checkFiles_partition (E : Env) (files : List FileInfo) (ge124 : Bool)
    (hnd : (files.map (·.path)).Nodup) :
    (reported (checkFiles E files ge124)).Perm (files.map (·.path)) :=
  checkFilesSt_reported_perm E ge124 files hnd

/-- the same for the go version the function derives itself from the root go.mod of the list -/
theorem checkFilesV_partition (E : Env) (files : List FileInfo) (hnd : (files.map (·.path)).Nodup) :
    (reported (checkFilesV E files)).Perm (files.map (·.path)) :=
  checkFiles_partition E files (goVers files) hnd

/-- hence no path is reported twice, in one list or in two of them. -/
theorem checkFiles_reported_nodup (E : Env) (files : List FileInfo) (ge124 : Bool)
    (hnd : (files.map (·.path)).Nodup) : (reported (checkFiles E files ge124)).Nodup :=
  (checkFiles_partition E files ge124 hnd).nodup_iff.mpr hnd

/-- and every given file is reported exactly once. -/
theorem checkFiles_exactly_once (E : Env) (files : List FileInfo) (ge124 : Bool)
    (hnd : (files.map (·.path)).Nodup) (f : FileInfo) (hf : f ∈ files) :
    (reported (checkFiles E files ge124)).count f.path = 1 := by
  rw [(checkFiles_partition E files ge124 hnd).count_eq]
  rw [List.Nodup.count hnd, if_pos (List.mem_map_of_mem (f := fun x : FileInfo => x.path) hf)]


/-- Nested modules: the test `inSubmodule` of the file check holds for a path exactly when one of its
    proper directory prefixes (ending in a slash) is a module root of the list, i.e. holds a regular
    file named go.mod in any case. -/
theorem submodule_rule (files : List FileInfo) (p : Bytes) :
    inSubmodule (prePass files).haveGoMod p = true ↔ ∃ d ∈ dirPrefixes p, IsModuleDir files d :=
  inSubmodule_iff files p

/-- the directory prefixes of a path are exactly its prefixes that end in a slash -/
theorem dirPrefixes_spec (p d : Bytes) : d ∈ dirPrefixes p ↔ ∃ a b, p = a ++ 47 :: b ∧ d = a ++ [47] :=
  mem_dirPrefixes_iff p d

/-- Everything reported as valid is a regular file of the input whose path is clean, relative,
    accepted by `CheckFilePath`, not in a vendored package (for the given go version), not inside a
    nested module, not `.hg_archival.txt`, not a mis-cased or misplaced go.mod, and within the go.mod /
    LICENSE size limits. -/
theorem valid_files_rules (E : Env) (files : List FileInfo) (ge124 : Bool) :
    ∀ p ∈ (checkFiles E files ge124).valid, ∃ f ∈ files, f.path = p ∧ f.mode = .regular ∧
      pathClean p = p ∧ isAbs p = false ∧ isVendoredPackage p ge124 = false ∧
      (¬ ∃ d ∈ dirPrefixes p, IsModuleDir files d) ∧ p ≠ hgArchivalName ∧ E.cfp p = true ∧
      (equalFoldGoMod (lastElem p) = true → p = goModName) ∧
      (p = goModName → f.size ≤ MaxGoMod) ∧ (p = licenseName → f.size ≤ MaxLICENSE) := by
  intro p hp
  obtain ⟨hv1, hv2⟩ := checkFilesSt_validFiles E ge124 files
  have hinv := checkFilesSt_validInv E ge124 files
  have hp' : p ∈ (checkFilesSt E files ge124).cf.valid := hp
  rw [hv2] at hp'
  obtain ⟨f, hf, rfl⟩ := List.mem_map.mp hp'
  have ok := hinv.nameOK f hf
  refine ⟨f, (hv1 f hf).1, rfl, ok.regular, ok.clean, ok.notAbs, ok.notVendored, ?_, ok.notHg, ok.cfp,
    valid_goMod_is_root E ge124 files f (hv1 f hf).1 ok, ok.goModSize, ok.licenseSize⟩
  intro hsub
  have := (inSubmodule_iff files f.path).mpr hsub
  rw [ok.notInSubmodule] at this; cases this

/-- no two valid files have the same case-folded path -/
theorem valid_files_fold_distinct (E : Env) (files : List FileInfo) (ge124 : Bool) :
    (checkFiles E files ge124).valid.Pairwise (fun a b => E.toFold a ≠ E.toFold b) := by
  obtain ⟨_, hv2⟩ := checkFilesSt_validFiles E ge124 files
  have hinv := checkFilesSt_validInv E ge124 files
  show (checkFilesSt E files ge124).cf.valid.Pairwise _
  rw [hv2, List.pairwise_map]
  exact hinv.foldDistinct

/-- The vendoring rule in its two variants on the documented examples (golang.org/issue/37397):
    `vendor/modules.txt` is omitted only from go 1.24 on; `pkg/vendor/vendor.go` was (wrongly) taken for
    vendored before go 1.24 and is kept from 1.24 on; `pkg/vendor/foo/foo.go` and `vendor/a/b.go` are
    vendored in both; `vendor/x.go` in neither. -/
theorem vendor_rule_examples :
    isVendoredPackage (B "vendor/modules.txt") true = true ∧ isVendoredPackage (B "vendor/modules.txt") false = false ∧
    isVendoredPackage (B "pkg/vendor/vendor.go") false = true ∧ isVendoredPackage (B "pkg/vendor/vendor.go") true = false ∧
    isVendoredPackage (B "pkg/vendor/foo/foo.go") false = true ∧ isVendoredPackage (B "pkg/vendor/foo/foo.go") true = true ∧
    isVendoredPackage (B "vendor/a/b.go") false = true ∧ isVendoredPackage (B "vendor/a/b.go") true = true ∧
    isVendoredPackage (B "vendor/x.go") false = false ∧ isVendoredPackage (B "vendor/x.go") true = false := by
  decide +kernel

/-- Observation O2: with a path listed three times, the third occurrence appears in none of the three
    lists (the error reports are de-duplicated by path), so the partition needs duplicate-free input. -/
theorem checkFiles_duplicates :
    let E : Env := { cfp := fun p => !p.isEmpty, toFold := lowerAscii, modOK := fun _ _ => true }
    let f : FileInfo := ⟨B "a.go", .regular, 1, B "x", false⟩
    reported (checkFiles E [f, f, f] false) = [B "a.go", B "a.go"] := by
  decide +kernel

/-! ### non-vacuity -/

def exEnv : Env := { cfp := fun p => !p.isEmpty, toFold := lowerAscii, modOK := fun _ _ => true }

def exFiles : List FileInfo :=
  [⟨B "go.mod", .regular, 2, B "hi", false⟩, ⟨B "a/b.go", .regular, 1, B "x", false⟩, ⟨B "a/B.go", .regular, 1, B "x", false⟩,
   ⟨B "sub/go.mod", .regular, 0, [], false⟩, ⟨B "sub/c.go", .regular, 1, B "y", false⟩,
   ⟨B "vendor/p/q.go", .regular, 1, B "z", false⟩, ⟨B "link", .symlink, 0, [], false⟩, ⟨B "./x", .regular, 0, [], false⟩]

example : (exFiles.map (·.path)).Nodup := by decide +kernel

example : checkFiles exEnv exFiles false =
    { valid := [B "go.mod", B "a/b.go"],
      omitted := [(B "sub/go.mod", .submoduleFile), (B "sub/c.go", .submoduleFile), (B "vendor/p/q.go", .vendored), (B "link", .symlink)],
      invalid := [(B "a/B.go", .caseCollision), (B "./x", .notClean)], sizeError := false } := by decide +kernel

example : IsModuleDir exFiles (B "sub/") := ⟨⟨B "sub/go.mod", .regular, 0, [], false⟩, by decide +kernel, rfl, by decide +kernel, by decide +kernel⟩


/-! ### the classification is the documented rules (`ZipSpec.classify`, Proofs/ZipASpec.lean) -/

/-- Which list a file lands in is determined only by the documented rules: for a list without repeated
    paths, every file `f` (preceded in the list by `pre`) is reported in the list, and with the reason,
    that `ZipSpec.classify` gives — the first applicable rule, in the documented order, over its path,
    mode and size, the go version flag, the module roots of the list and the paths registered by `pre`:
    a go.mod that cannot be examined, unclean, absolute → invalid; vendored (variant by `ge124`), below a
    module root, `.hg_archival.txt` → omitted; rejected by CheckFilePath, mis-cased go.mod, lstat error →
    invalid; collision of the path or one of its parent directories with what the earlier files
    registered (different path with the same case-folded form / file vs directory / same file twice) →
    invalid, blamed on the later file; symlink, irregular → omitted; oversized go.mod / LICENSE →
    invalid; otherwise valid.  Nothing else is reported (parts 2–4; with `checkFiles_partition`: each path
    exactly once).  The size error is set exactly when one of the files that reach the size rules
    (`Class.sized`: valid, or oversized go.mod / LICENSE) has a negative size or their total exceeds
    `MaxZipFile`; no file is blamed for it. -/
theorem checkFiles_eq_classify (E : Env) (files : List FileInfo) (ge124 : Bool)
    (hnd : (files.map (·.path)).Nodup) :
    (∀ pre f post, files = pre ++ f :: post →
      match classify E ge124 files pre f with
      | .valid => f.path ∈ (checkFiles E files ge124).valid
      | .omitted r => (f.path, r) ∈ (checkFiles E files ge124).omitted
      | .invalid r => (f.path, r) ∈ (checkFiles E files ge124).invalid) ∧
    (∀ p ∈ (checkFiles E files ge124).valid, ∃ pre f post, files = pre ++ f :: post ∧ f.path = p ∧
      classify E ge124 files pre f = .valid) ∧
    (∀ p r, (p, r) ∈ (checkFiles E files ge124).omitted → ∃ pre f post, files = pre ++ f :: post ∧ f.path = p ∧
      classify E ge124 files pre f = .omitted r) ∧
    (∀ p r, (p, r) ∈ (checkFiles E files ge124).invalid → ∃ pre f post, files = pre ++ f :: post ∧ f.path = p ∧
      classify E ge124 files pre f = .invalid r) ∧
    ((checkFiles E files ge124).sizeError = true ↔
      (∃ x ∈ sizedSizes (classifyAll E ge124 files), x < 0) ∨
      (MaxZipFile : Int) < (sizedSizes (classifyAll E ge124 files)).sum) :=
  Proofs.ZipA.checkFiles_eq_classify E files ge124 hnd

/-- `classifyAll` (used for the size rule above) lists every file with its `classify` -/
theorem classifyAll_spec (E : Env) (ge124 : Bool) (files : List FileInfo) (f : FileInfo) (c : Class) :
    (f, c) ∈ classifyAll E ge124 files ↔
      ∃ pre post, files = pre ++ f :: post ∧ c = classify E ge124 files pre f :=
  Proofs.ZipA.mem_classifyAll E ge124 files f c

/-- The same in list form: the valid and omitted lists are, in order, the files classified valid resp.
    omitted; the invalid list is the unreadable go.mod files (first loop) followed by the other files
    classified invalid, in order. -/
theorem checkFiles_lists (E : Env) (files : List FileInfo) (ge124 : Bool) (hnd : (files.map (·.path)).Nodup) :
    (checkFiles E files ge124).valid =
      ((classifyAll E ge124 files).filter (fun x => x.2 = .valid)).map (·.1.path) ∧
    (checkFiles E files ge124).omitted = (classifyAll E ge124 files).filterMap Proofs.ZipA.oOf ∧
    (checkFiles E files ge124).invalid =
      (files.filter goModUnreadable).map (fun f => (f.path, Reason.lstat)) ++
        (classifyAll E ge124 files).filterMap Proofs.ZipA.iOf := by
  obtain ⟨_, s2, s3, s4, _⟩ := Proofs.ZipA.checkFilesSt_spec E files ge124 hnd
  refine ⟨?_, s3, s4⟩
  show (checkFilesSt E files ge124).cf.valid = _
  rw [s2]
  generalize classifyAll E ge124 files = cl
  induction cl with
  | nil => rfl
  | cons x t ih =>
    obtain ⟨f, c⟩ := x
    cases c <;> simp [List.filterMap_cons, Proofs.ZipA.vOf] at ih ⊢ <;> exact ih

/-- The vendoring rule, general form: the test of the file check is the documented rule, in the
    go ≥ 1.24 variant (`vendor/modules.txt`, or a slash after a `vendor/` that starts the name or follows
    a slash) and in the variant before go 1.24 (below a top-level `vendor/` as above; for an interior
    `/vendor/` the package part is taken to start at byte 8 of the name, wherever the `/vendor/` is:
    golang.org/issue/37397). -/
theorem vendor_rule (name : Bytes) :
    (isVendoredPackage name true = true ↔ Vendored124 name) ∧
    (isVendoredPackage name false = true ↔ VendoredPre124 name) :=
  ⟨Proofs.ZipA.vendor_rule_ge124 name, Proofs.ZipA.vendor_rule_pre124 name⟩

/-- a reason that reports a collision -/
def CollisionReason (r : Reason) : Prop := r = .caseCollision ∨ r = .fileAndDir ∨ r = .multiple

/-- The report does not depend on the order of the list: for a list without repeated paths whose
    report has no collision error, every permutation of the list yields the same valid, omitted and
    invalid files (the lists are permutations of each other) and the same size error. -/
theorem checkFiles_perm (E : Env) (files files' : List FileInfo) (ge124 : Bool) (hp : files'.Perm files)
    (hnd : (files.map (·.path)).Nodup)
    (hnc : ∀ p r, (p, r) ∈ (checkFiles E files ge124).invalid → ¬ CollisionReason r) :
    (checkFiles E files' ge124).valid.Perm (checkFiles E files ge124).valid ∧
    (checkFiles E files' ge124).omitted.Perm (checkFiles E files ge124).omitted ∧
    (checkFiles E files' ge124).invalid.Perm (checkFiles E files ge124).invalid ∧
    (checkFiles E files' ge124).sizeError = (checkFiles E files ge124).sizeError :=
  Proofs.ZipA.checkFiles_perm E files files' ge124 hp hnd hnc

/-- the same for the function as Go computes it: the go version flag, taken from the file whose path is
    `go.mod`, does not depend on the order either -/
theorem checkFilesV_perm (E : Env) (files files' : List FileInfo) (hp : files'.Perm files)
    (hnd : (files.map (·.path)).Nodup)
    (hnc : ∀ p r, (p, r) ∈ (checkFilesV E files).invalid → ¬ CollisionReason r) :
    (checkFilesV E files').valid.Perm (checkFilesV E files).valid ∧
    (checkFilesV E files').omitted.Perm (checkFilesV E files).omitted ∧
    (checkFilesV E files').invalid.Perm (checkFilesV E files).invalid ∧
    (checkFilesV E files').sizeError = (checkFilesV E files).sizeError :=
  Proofs.ZipA.checkFilesV_perm E files files' hp hnd hnc

/-! ### non-vacuity of the classification theorems -/

/-- the classes of the example list: every kind of rule occurs (the collision is blamed on `a/B.go`) -/
example : (classifyAll exEnv false exFiles).map (·.2) =
    [.valid, .valid, .invalid .caseCollision, .omitted .submoduleFile, .omitted .submoduleFile,
     .omitted .vendored, .omitted .symlink, .invalid .notClean] := by decide +kernel

def exFilesNoColl : List FileInfo :=
  [⟨B "go.mod", .regular, 2, B "hi", false⟩, ⟨B "a/b.go", .regular, 1, B "x", false⟩,
   ⟨B "vendor/p/q.go", .regular, 1, B "z", false⟩, ⟨B "link", .symlink, 0, [], false⟩]

/-- hypotheses of `checkFiles_perm` on an example: distinct paths, no collision error, a permutation -/
example : (exFilesNoColl.map (·.path)).Nodup ∧
    (∀ p r, (p, r) ∈ (checkFiles exEnv exFilesNoColl false).invalid → ¬ CollisionReason r) ∧
    exFilesNoColl.reverse.Perm exFilesNoColl := by
  refine ⟨by decide +kernel, ?_, List.reverse_perm _⟩
  have : (checkFiles exEnv exFilesNoColl false).invalid = [] := by decide +kernel
  intro p r h; rw [this] at h; cases h


/-- the hypothesis of `checkFilesV_perm` on the same example -/
example : ∀ p r, (p, r) ∈ (checkFilesV exEnv exFilesNoColl).invalid → ¬ CollisionReason r := by
  have : (checkFilesV exEnv exFilesNoColl).invalid = [] := by decide +kernel
  intro p r h; rw [this] at h; cases h

/-! ### directory tree vs list of its files -/

/-- For a directory tree made only of regular files and directories, with ordinary names (no empty, `.`
    or `..` name, no slash in a name, sibling names distinct: `WFChildren`, as every real directory) and
    containing no VCS metadata directory, and with `g` the go version flag of its root go.mod: the
    directory check and the check of the list of all its files (`allFiles`, in walk order) report the
    same valid files, the same invalid files, the same size error and the same error; and creating from
    the directory and creating from that list succeed or fail together, with the same entries (the same
    files with the same content).  (`listFilesInDir` leaves out vendored files and the contents of nested
    module directories; the list check omits exactly these anyway.) -/
theorem dir_vs_list (E : Env) (mpath mvers : Bytes) (g : Bool) (t : List (Bytes × Node)) (hw : WFChildren t)
    (hg : g = goVers (allFiles t)) :
    (checkDir E g t).valid = (checkFilesV E (allFiles t)).valid ∧
    (checkDir E g t).invalid = (checkFilesV E (allFiles t)).invalid ∧
    (checkDir E g t).sizeError = (checkFilesV E (allFiles t)).sizeError ∧
    (checkDir E g t).err = (checkFilesV E (allFiles t)).err ∧
    createFromDir E mpath mvers g t = create E mpath mvers (allFiles t) :=
  Proofs.ZipA.dir_vs_list E mpath mvers g t hw hg

/-- the files of such a tree are regular and have clean, relative, pairwise distinct paths -/
theorem allFiles_wellformed (t : List (Bytes × Node)) (hw : WFChildren t) :
    ((allFiles t).map (·.path)).Nodup ∧
    ∀ f ∈ allFiles t, f.mode = .regular ∧ pathClean f.path = f.path ∧ isAbs f.path = false :=
  Proofs.ZipA.allFiles_facts t hw

def exTree : List (Bytes × Node) :=
  [(B "a", .dir [(B "b.go", .file .regular 1 (B "x") false)]),
   (B "go.mod", .file .regular 2 (B "hi") false),
   (B "sub", .dir [(B "c.go", .file .regular 1 (B "y") false), (B "go.mod", .file .regular 0 [] false)]),
   (B "vendor", .dir [(B "p", .dir [(B "q.go", .file .regular 1 (B "z") false)])])]

/-- the hypotheses of `dir_vs_list` on an example tree with a nested module and a vendored package, and
    what both sides evaluate to -/
example : WFChildren exTree ∧ false = goVers (allFiles exTree) ∧
    (allFiles exTree).map (·.path) = [B "a/b.go", B "go.mod", B "sub/c.go", B "sub/go.mod", B "vendor/p/q.go"] ∧
    (listFilesInDir false exTree).files.map (·.path) = [B "a/b.go", B "go.mod"] ∧
    (checkDir exEnv false exTree).valid = [B "a/b.go", B "go.mod"] := by
  refine ⟨?_, by decide +kernel, by decide +kernel, by decide +kernel, by decide +kernel⟩
  simp only [exTree, WFChildren, WFNode, NormalElem, Node.isDir, List.forall_mem_cons, List.not_mem_nil,
    false_imp_iff, implies_true, true_imp_iff, and_true]
  repeat' apply And.intro
  all_goals decide +kernel

end ModVerif.Props.C17
