/-
  C19 — The module content hash is the documented formula over names and bytes only.
  Property theorems only; helper lemmas live in ModVerif/Proofs/Dirhash*.lean (zip/directory agreement over
  the C05/C12 zip models: Proofs/DirhashZipCompose.lean, Proofs/DirhashZipModOK.lean).

  `sha : Bytes → Bytes` is SHA-256 as an abstract function.  A "file set" is a list of (name, content)
  pairs with distinct names (`hash1Pairs`, `summaryPairs`: `open` looks the name up); the general form
  takes the list of names and an arbitrary `open` function as the Go code does.
-/
import ModVerif.Proofs.Dirhash
import ModVerif.Proofs.DirhashZip
import ModVerif.Proofs.DirhashZipModOK
namespace ModVerif.Props.C19
open ModVerif ModVerif.Dirhash

/-- one documented summary line: hex SHA-256 of the content, two spaces, the name, newline -/
def docLine (sha : Bytes → Bytes) (p : Bytes × Bytes) : Bytes :=
  hexEnc (sha p.2) ++ [32, 32] ++ p.1 ++ [10]

/-- `sort.Strings` is modelled by insertion sort; the bytewise order is a strict total order, so the model
    returns THE sorted permutation (no other sorting algorithm could return anything else). -/
theorem bytesLt_strict_total : StrictTotal bytesLt := bytesLt_strictTotal

theorem sortStrings_unique (l s : List Bytes) (hs : s.Pairwise (fun a b => bytesLt b a = false)) (p : s.Perm l) :
    sortStrings l = s :=
  insertionSort_eq_of_sorted_perm bytesLt_strictTotal hs p

/-- ★ The documented formula.  For a file set `l` without newline names, and ANY listing `s` of the same
    pairs in strictly increasing bytewise name order,
    Hash1 = "h1:" ++ base64 (sha256 (concatenation of the documented lines of `s`)). -/
theorem hash1_formula (sha : Bytes → Bytes) (l s : List (Bytes × Bytes))
    (hperm : s.Perm l) (hsorted : s.Pairwise (fun a b => bytesLt a.1 b.1 = true))
    (hnl : ∀ p ∈ l, (10 : UInt8) ∉ p.1) :
    hash1Pairs sha l = .ok ([104, 49, 58] ++ Base64.encodeStd (sha (s.flatMap (docLine sha)))) := by
  have hsn : (s.map (·.1)).Pairwise (fun a b => bytesLt a b = true) := List.pairwise_map.2 hsorted
  have hsort : sortStrings (l.map (·.1)) = s.map (·.1) :=
    insertionSort_eq_of_sorted_perm bytesLt_strictTotal (strictSorted_le bytesLt_strictTotal hsn) (hperm.map _)
  have hnd : (l.map (·.1)).Nodup := ((hperm.map (·.1)).nodup_iff).1 (strictSorted_nodup bytesLt_strictTotal hsn)
  have hloop := summaryLoop_ok sha (openPairs l) s
    (fun p hp => (hasNewline_false_iff p.1).2 (hnl p (hperm.subset hp)))
    (fun p hp => lookup_of_mem_nodup l p.1 p.2 hnd (hperm.subset hp))
  unfold hash1Pairs hash1 summary
  rw [hsort, hloop]
  rfl

/-- ★ Independence of the listing order, general form: the result (hash or error) depends only on the
    multiset of listed names and on the `open` function. -/
theorem hash1_perm (sha : Bytes → Bytes) (openF : Bytes → Option Bytes) {l₁ l₂ : List Bytes} (h : l₁.Perm l₂) :
    hash1 sha l₁ openF = hash1 sha l₂ openF := by
  unfold hash1 summary; rw [sortStrings_eq_of_perm h]

/-- ★ Independence of the listing order for file sets: with distinct names, any two listings of the same
    pairs hash alike.  (With a repeated name the content read for it is that of its first occurrence, so
    distinctness is needed; `hash1_perm_needs_distinct` below shows it.) -/
theorem hash1Pairs_perm (sha : Bytes → Bytes) {l₁ l₂ : List (Bytes × Bytes)} (h : l₁.Perm l₂)
    (hnd : (l₁.map (·.1)).Nodup) : hash1Pairs sha l₁ = hash1Pairs sha l₂ := by
  have hnd₂ : (l₂.map (·.1)).Nodup := ((h.map (·.1)).nodup_iff).1 hnd
  have hopen : ∀ n ∈ sortStrings (l₂.map (·.1)), openPairs l₁ n = openPairs l₂ n := by
    intro n hn
    have hn₂ : n ∈ l₂.map (·.1) := (sortStrings_perm _).subset hn
    obtain ⟨p, hp, rfl⟩ := List.mem_map.1 hn₂
    unfold openPairs
    rw [lookup_of_mem_nodup l₂ p.1 p.2 hnd₂ hp, lookup_of_mem_nodup l₁ p.1 p.2 hnd (h.symm.subset hp)]
  unfold hash1Pairs hash1 summary
  rw [sortStrings_eq_of_perm (h.map (·.1)), summaryLoop_congr sha _ _ _ hopen]

/-- ★ The summary determines the files, general form: if two listings produce the same summary then they
    have the same sorted name lists and every name carries the same content digest on both sides.
    (No assumption on `sha`: a digest is hex, hex contains no space, a name contains no newline.) -/
theorem summary_injective (sha : Bytes → Bytes) {files₁ files₂ : List Bytes} {open₁ open₂ : Bytes → Option Bytes}
    {s : Bytes} (h₁ : summary sha files₁ open₁ = .ok s) (h₂ : summary sha files₂ open₂ = .ok s) :
    sortStrings files₁ = sortStrings files₂ ∧
    ∀ n ∈ files₁, ∃ c₁ c₂, open₁ n = some c₁ ∧ open₂ n = some c₂ ∧ sha c₁ = sha c₂ := by
  unfold summary at h₁ h₂
  have ⟨a₁, b₁⟩ := summaryLoop_inv sha open₁ _ s h₁
  have ⟨a₂, b₂⟩ := summaryLoop_inv sha open₂ _ s h₂
  have hl := lines_injective _ _
    (by intro p hp; obtain ⟨n, hn, rfl⟩ := List.mem_map.1 hp; exact (hasNewline_false_iff n).1 (a₁ n hn).1)
    (by intro p hp; obtain ⟨n, hn, rfl⟩ := List.mem_map.1 hp; exact (hasNewline_false_iff n).1 (a₂ n hn).1)
    (b₁.symm.trans b₂)
  have hnames : sortStrings files₁ = sortStrings files₂ := by
    have := congrArg (List.map (·.2)) hl
    simpa [List.map_map, Function.comp_def] using this
  refine ⟨hnames, ?_⟩
  intro n hn
  have hn₁ : n ∈ sortStrings files₁ := (sortStrings_perm files₁).symm.subset hn
  have hd : digestOf sha open₁ n = digestOf sha open₂ n := by
    have := congrArg (List.map (·.1)) hl
    rw [← hnames] at this
    simp only [List.map_map, Function.comp_def] at this
    exact List.map_inj_left.1 this n hn₁
  obtain ⟨c₁, hc₁⟩ := (a₁ n hn₁).2
  obtain ⟨c₂, hc₂⟩ := (a₂ n (hnames ▸ hn₁)).2
  refine ⟨c₁, c₂, hc₁, hc₂, ?_⟩
  simpa [digestOf, hc₁, hc₂] using hd

/-- ★ Different sets of (name, content) pairs always produce different summaries: for file sets with
    distinct names and a collision-free `sha`, equal summaries imply the same set of pairs. -/
theorem summary_injective_sets (sha : Bytes → Bytes) (hsha : Function.Injective sha)
    {l₁ l₂ : List (Bytes × Bytes)} (hnd₁ : (l₁.map (·.1)).Nodup) (hnd₂ : (l₂.map (·.1)).Nodup) {s : Bytes}
    (h₁ : summaryPairs sha l₁ = .ok s) (h₂ : summaryPairs sha l₂ = .ok s) : l₁.Perm l₂ := by
  have key : ∀ {l l' : List (Bytes × Bytes)}, (l.map (·.1)).Nodup →
      summaryPairs sha l = .ok s → summaryPairs sha l' = .ok s → ∀ p, p ∈ l → p ∈ l' := by
    intro l l' hnd h h' p hp
    obtain ⟨c₁, c₂, e₁, e₂, e⟩ := (summary_injective sha h h').2 p.1 (List.mem_map.2 ⟨p, hp, rfl⟩)
    have : openPairs l p.1 = some p.2 := lookup_of_mem_nodup l p.1 p.2 hnd hp
    rw [this] at e₁; cases e₁
    have := hsha e
    rw [← this] at e₂
    exact mem_of_lookup_eq_some l' p.1 p.2 e₂
  exact (List.perm_ext_iff_of_nodup (nodup_of_keys_nodup hnd₁) (nodup_of_keys_nodup hnd₂)).2
    (fun p => ⟨key hnd₁ h₁ h₂ p, key hnd₂ h₂ h₁ p⟩)

/-- ★ Names containing a newline are refused: Hash1 never returns a hash for such a list ... -/
theorem newline_rejected (sha : Bytes → Bytes) (files : List Bytes) (openF : Bytes → Option Bytes) (n : Bytes)
    (hm : n ∈ files) (hn : (10 : UInt8) ∈ n) (r : Bytes) : hash1 sha files openF ≠ .ok r := by
  have hn' : hasNewline n = true := by
    cases e : hasNewline n with
    | true => rfl
    | false => exact absurd hn ((hasNewline_false_iff n).1 e)
  unfold hash1 summary
  cases e : summaryLoop sha openF (sortStrings files) with
  | error _ => simp
  | ok s => exact absurd e (summaryLoop_newline sha openF _ n ((sortStrings_perm files).symm.subset hm) hn' s)

/-- ... and when every listed file can be read, the error is the newline error. -/
theorem newline_rejected_err (sha : Bytes → Bytes) (files : List Bytes) (openF : Bytes → Option Bytes) (n : Bytes)
    (hm : n ∈ files) (hn : (10 : UInt8) ∈ n) (ho : ∀ m ∈ files, ∃ c, openF m = some c) :
    hash1 sha files openF = .error .newline := by
  have hn' : hasNewline n = true := by
    cases e : hasNewline n with
    | true => rfl
    | false => exact absurd hn ((hasNewline_false_iff n).1 e)
  unfold hash1 summary
  rw [summaryLoop_newline_err sha openF _ n ((sortStrings_perm files).symm.subset hm) hn'
    (fun m hm' => ho m ((sortStrings_perm files).subset hm'))]

/-- Conversely a newline-free list whose files all open is never refused. -/
theorem hash1_ok (sha : Bytes → Bytes) (l : List (Bytes × Bytes)) (hnd : (l.map (·.1)).Nodup)
    (hnl : ∀ p ∈ l, (10 : UInt8) ∉ p.1) : ∃ r, hash1Pairs sha l = .ok r := by
  obtain ⟨s, hs⟩ : ∃ s, summaryLoop sha (openPairs l) (sortStrings (l.map (·.1))) = .ok s := by
    have hperm := sortStrings_perm (l.map (·.1))
    let s' := (sortStrings (l.map (·.1))).map fun n => (n, ((openPairs l n).getD []))
    have hmap : s'.map (·.1) = sortStrings (l.map (·.1)) := by simp [s', List.map_map, Function.comp_def]
    have := summaryLoop_ok sha (openPairs l) s'
      (by
        intro p hp
        obtain ⟨n, hn, rfl⟩ := List.mem_map.1 hp
        obtain ⟨q, hq, rfl⟩ := List.mem_map.1 (hperm.subset hn)
        exact (hasNewline_false_iff _).2 (hnl q hq))
      (by
        intro p hp
        obtain ⟨n, hn, rfl⟩ := List.mem_map.1 hp
        obtain ⟨q, hq, rfl⟩ := List.mem_map.1 (hperm.subset hn)
        simp [openPairs, lookup_of_mem_nodup l q.1 q.2 hnd hq])
    rw [hmap] at this
    exact ⟨_, this⟩
  exact ⟨_, by unfold hash1Pairs hash1 summary; rw [hs]⟩

/-- ★ Zip/directory agreement at the level of names and contents: for files with distinct clean relative
    paths and a clean relative prefix `path@version`, hashing the archive `zip.Create` writes equals hashing
    the directory it extracts to under that prefix.  (That `zip.Create`/`zip.Unzip` write exactly these
    entries / files is C05/C12; here it is the naming convention `modZipEntries` / `Root.dir`.) -/
theorem zip_dir_agree (sha : Bytes → Bytes) (path version : Bytes) (files : List (Bytes × Bytes))
    (hpfx : CleanRel (modPrefix path version)) (hrel : ∀ f ∈ files, CleanRel f.1)
    (hnd : (files.map (·.1)).Nodup) :
    hashModZip sha path version files = hashUnzipped sha path version files :=
  hashModZip_eq_hashUnzipped sha path version files hpfx hrel hnd

/-! ### non-vacuity and sharpness -/

/-- a two-file module (listed out of order) satisfies the hypotheses of `hash1_formula` -/
example : ∃ s : List (Bytes × Bytes),
    s.Perm [([98], [1]), ([97], [2, 3])] ∧ s.Pairwise (fun a b => bytesLt a.1 b.1 = true) ∧
    (∀ p ∈ [(([98] : Bytes), ([1] : Bytes)), ([97], [2, 3])], (10 : UInt8) ∉ p.1) :=
  ⟨[([97], [2, 3]), ([98], [1])], List.Perm.swap _ _ _, by decide, by decide⟩

/-- distinctness is needed in `hash1Pairs_perm`: with the name `a` listed twice with different contents
    the two listing orders read different contents (shown for `sha := id`). -/
theorem hash1_perm_needs_distinct :
    hash1Pairs id [([97], [1]), ([97], [2])] ≠ hash1Pairs id [([97], [2]), ([97], [1])] := by decide

/-- `summary_injective_sets` is not vacuous: a one-file set produces a summary (with `sha := id`) -/
example : summaryPairs id [([97], [255])] = .ok [102, 102, 32, 32, 97, 10] := by decide

/-- the collision-freedom hypothesis of `summary_injective_sets` is satisfiable -/
example : Function.Injective (id : Bytes → Bytes) := fun _ _ h => h

/-- `newline_rejected_err` on a concrete list -/
example : hash1 id [[97], [97, 10, 98]] (fun _ => some []) = .error .newline := by decide

/-- `zip_dir_agree` is not vacuous: `m@v` and `a/b.go`, `c` satisfy `CleanRel` -/
example : CleanRel (modPrefix [109] [118]) ∧ CleanRel [97, 47, 98, 46, 103, 111] ∧ CleanRel [99] := by
  refine ⟨?_, ?_, ?_⟩ <;> exact cleanRel_of_check _ (by decide)


/-! ### zip/directory agreement over the zip models (C05 `create`, C12 `unzip`) -/

/-- (1) The entries a successful `zip.Create` writes ARE the naming convention of `zip_dir_agree`:
    `path@version/` ++ file path with the file's content, for the valid files of the file check, in order. -/
theorem create_is_modZipEntries (E : Zip.Env) (mpath mvers : Bytes) (files : List Zip.FileInfo)
    (es : List Zip.Entry) (h : Zip.create E mpath mvers files = .ok es) :
    DirhashZip.zipPairs es = modZipEntries mpath mvers (DirhashZip.validPairs E files) :=
  DirhashZip.zipPairs_create E mpath mvers files es h

/-- (2) Extracting the created archive into a fresh target succeeds, and the directory tree read off the
    extraction effects (`treeOfEffects`: the files created strictly below `dir`, by their path relative to
    `dir`, with the content written) is the directory holding exactly the valid files with their contents. -/
theorem unzip_tree_is_files (E : Zip.Env) (hE : ZipSpec.CfpSound E.cfp) (dir : Bytes)
    (hdir : dir = [] ∨ PathClean.pathClean dir = dir ∨ ([46, 46] : Bytes) ∉ splitOn 47 dir) (t : Zip.Target)
    (ht : t = .missing ∨ t = .emptyDir) (mpath mvers : Bytes) (files : List Zip.FileInfo) (es : List Zip.Entry)
    (zipSize : Nat) (h : Zip.create E mpath mvers files = .ok es) (hz : zipSize ≤ Zip.MaxZipFile) :
    (Zip.unzip E dir t mpath mvers zipSize es).err = none ∧
    DirhashZip.treeOfEffects dir (Zip.unzip E dir t mpath mvers zipSize es).effects =
      .dir (DirhashZip.validPairs E files) :=
  DirhashZip.treeOfEffects_unzip E hE dir hdir t ht mpath mvers files es zipSize h hz

/-- (3) Every `module.CheckFilePath`-accepted path is a clean relative path; so is `path@version` for every
    accepted module path and version; the valid files have pairwise distinct paths. -/
theorem valid_names_cleanRel (E : Zip.Env) (hE : ZipSpec.CfpSound E.cfp) (hM : DirhashZip.ModOKSound E.modOK)
    (mpath mvers : Bytes) (hm : E.modOK mpath mvers = true) (files : List Zip.FileInfo) :
    CleanRel (modPrefix mpath mvers) ∧ (∀ p, E.cfp p = true → CleanRel p) ∧
    (∀ q ∈ DirhashZip.validPairs E files, CleanRel q.1) ∧
    ((DirhashZip.validPairs E files).map (·.1)).Nodup :=
  ⟨DirhashZip.cleanRel_modPrefix_of_sound hM hm, fun _ hp => DirhashZip.cleanRel_of_cfpSound hE hp,
    DirhashZip.validPairs_cleanRel E hE files, DirhashZip.validPairs_nodup E files⟩

/-- The hypothesis `ModOKSound` (an accepted module path has no empty, `.` or `..` element, an accepted
    version no slash) holds for the models of `module.Check` / `module.CanonicalVersion` the zip driver plugs
    into `Env.modOK`; `CfpSound` holds for the model of `module.CheckFilePath` (`Props.C12.cfpSound_checkFilePath`). -/
theorem modOKSound_check : DirhashZip.ModOKSound DirhashZip.modOKOf := DirhashZip.modOKSound_check

/-- ★ Zip/directory agreement, composed over the zip models.  For every environment whose `CheckFilePath`
    rejects empty, `.` and `..` elements and whose module check rejects such elements in the path and a
    slash in the version, every target directory string that is empty, clean, or written without `..`
    (hypotheses of C05 `create_unzip`), every fresh target, module path, version and file list: if
    `zip.Create` succeeds with entries `es`, then `zip.Unzip` of `es` into the target succeeds, and
    `HashZip` of the archive equals `HashDir` of the directory tree the extraction effects build at `dir`,
    under the prefix `path@version`. -/
theorem zip_dir_agree_composed (sha : Bytes → Bytes) (E : Zip.Env) (hE : ZipSpec.CfpSound E.cfp)
    (hM : DirhashZip.ModOKSound E.modOK) (dir : Bytes)
    (hdir : dir = [] ∨ PathClean.pathClean dir = dir ∨ ([46, 46] : Bytes) ∉ splitOn 47 dir) (t : Zip.Target)
    (ht : t = .missing ∨ t = .emptyDir) (mpath mvers : Bytes) (files : List Zip.FileInfo) (es : List Zip.Entry)
    (zipSize : Nat) (h : Zip.create E mpath mvers files = .ok es) (hz : zipSize ≤ Zip.MaxZipFile) :
    (Zip.unzip E dir t mpath mvers zipSize es).err = none ∧
    hashZip sha (DirhashZip.zipPairs es) =
      hashDir sha (DirhashZip.treeOfEffects dir (Zip.unzip E dir t mpath mvers zipSize es).effects)
        (mpath ++ [64] ++ mvers) :=
  ⟨(DirhashZip.treeOfEffects_unzip E hE dir hdir t ht mpath mvers files es zipSize h hz).1,
    DirhashZip.hashZip_create_eq_hashDir_unzip sha E hE hM dir hdir t ht mpath mvers files es zipSize h hz⟩

/-! non-vacuity of `zip_dir_agree_composed`: a three-file module with a nested directory -/

/-- `CheckFilePath` reduced to the element rule, the real module check -/
def exEnv : Zip.Env :=
  { cfp := fun p => !p.isEmpty && (splitOn 47 p).all (fun c => c != [] && c != [46] && c != [46, 46]),
    toFold := Zip.lowerAscii, modOK := DirhashZip.modOKOf }

theorem exEnv_cfpSound : ZipSpec.CfpSound exEnv.cfp := by
  intro p hp c hc
  simp only [exEnv, Bool.and_eq_true, List.all_eq_true] at hp
  have := hp.2 c hc
  simp at this
  exact ⟨this.1.1, this.1.2, this.2⟩

def exFiles : List Zip.FileInfo :=
  [⟨B "go.mod", .regular, 2, B "hi", false⟩, ⟨B "a/b.go", .regular, 1, B "x", false⟩,
   ⟨B "a/c/d.go", .regular, 1, B "y", false⟩]

def exEntries : List Zip.Entry :=
  [⟨B "example.com/m@v1.0.0/go.mod", 2, B "hi"⟩, ⟨B "example.com/m@v1.0.0/a/b.go", 1, B "x"⟩,
   ⟨B "example.com/m@v1.0.0/a/c/d.go", 1, B "y"⟩]

/-- kernel evaluation: `create` succeeds with the three entries; `unzip` into the missing target `t` succeeds
    and creates `t/go.mod`, `t/a/b.go`, `t/a/c/d.go`; the tree is the three files; both hashes are computed
    (with `sha := id`, as in the examples above) and are the same string -/
example : (Zip.create exEnv (B "example.com/m") (B "v1.0.0") exFiles).toOption = some exEntries ∧
    (Zip.unzip exEnv (B "t") .missing (B "example.com/m") (B "v1.0.0") 100 exEntries).err = none ∧
    Zip.createdFiles (Zip.unzip exEnv (B "t") .missing (B "example.com/m") (B "v1.0.0") 100 exEntries).effects =
      [B "t/go.mod", B "t/a/b.go", B "t/a/c/d.go"] ∧
    DirhashZip.filesUnder (B "t") (Zip.unzip exEnv (B "t") .missing (B "example.com/m") (B "v1.0.0") 100 exEntries).effects =
      [(B "go.mod", B "hi"), (B "a/b.go", B "x"), (B "a/c/d.go", B "y")] ∧
    (∃ r, hashZip id (DirhashZip.zipPairs exEntries) = .ok r ∧
      hashDir id (DirhashZip.treeOfEffects (B "t")
        (Zip.unzip exEnv (B "t") .missing (B "example.com/m") (B "v1.0.0") 100 exEntries).effects)
        (B "example.com/m@v1.0.0") = .ok r) := by
  refine ⟨by decide +kernel, by decide +kernel, by decide +kernel, by decide +kernel, ?_⟩
  refine ⟨(hashZip id (DirhashZip.zipPairs exEntries)).toOption.getD [], by decide +kernel, by decide +kernel⟩

/-- … and the theorem applies to it (all hypotheses hold) -/
example (sha : Bytes → Bytes) : ∃ es, Zip.create exEnv (B "example.com/m") (B "v1.0.0") exFiles = .ok es ∧
    (Zip.unzip exEnv (B "t") .missing (B "example.com/m") (B "v1.0.0") 100 es).err = none ∧
    hashZip sha (DirhashZip.zipPairs es) =
      hashDir sha (DirhashZip.treeOfEffects (B "t")
        (Zip.unzip exEnv (B "t") .missing (B "example.com/m") (B "v1.0.0") 100 es).effects)
        (B "example.com/m" ++ [64] ++ B "v1.0.0") := by
  have hc : (Zip.create exEnv (B "example.com/m") (B "v1.0.0") exFiles).toOption = some exEntries := by
    decide +kernel
  cases hcr : Zip.create exEnv (B "example.com/m") (B "v1.0.0") exFiles with
  | error e => rw [hcr] at hc; cases hc
  | ok es =>
    obtain ⟨u1, u2⟩ := zip_dir_agree_composed sha exEnv exEnv_cfpSound modOKSound_check (B "t")
      (Or.inr (Or.inl (by decide +kernel))) .missing (Or.inl rfl) (B "example.com/m") (B "v1.0.0") exFiles es 100
      hcr (by decide)
    exact ⟨es, rfl, u1, u2⟩

end ModVerif.Props.C19
